/-
  C05 -- nested placements of the declarations, and indexed references.

  `C05acyclic.lean` proves the completeness of `_eval_expressions` for FLAT acyclic reference graphs (all declarations at
  the top level of one dict, `C05_complete_acyclic'`).  This file adds the distribution of the declarations over nested
  dicts (any depth, any order) and the indexed references `$l[i]`, `$l[i][j]`.

  Headline theorems
   * `variables_nested`                 the variable table `SDict.variables` of EVERY dictionary (nested dicts, lists with and
                                        without dicts): `getVar n (varsEs exprs es []) = lastDecl exprs n (declsEs es)` -- the
                                        last assignment to `n` in the order `declsEs` (content of a nested dict first, then
                                        its key; document order otherwise) wins.  `variables_nested_once`/`_scalar`: a name
                                        declared exactly once holds that value.
   * `C05_placement_independent_vars`   two dictionaries of any shape that declare `n` exactly once with the same value have
                                        the same variable `n`: depth and position do not matter.
   * `C05_placement_independent`        `Placed s` (a tree of nested dicts whose leaf declarations `flatSD s` are in the domain
                                        of `C05_complete_acyclic'`) and `evalExpressions ev s = .ok s'`: no expression pending,
                                        the shape `skel` of the tree unchanged, and every declaration holds the value the FLAT
                                        specification `topoVal ev (flatSD s)` gives it.
     `C05_placement_independent_graph`  the same seen from a flat graph `g`: for EVERY `Placement g s` (leaves of `s` = a
                                        permutation of the declarations of `g`, at any depth) the values are `topoVal ev g`,
                                        those of `C05_complete_acyclic'` for `g`.   `C05_placed_eq_flat`: tree and flat
                                        dictionary evaluated side by side agree at every such name.
   * `C05_order_independent`            order of declaration: `C05_complete_acyclic'` already covers it -- `AcyclicFlat'` is closed
                                        under permutations (`acyclicFlat'_perm`), `topoVal` does not depend on the order
                                        (`topoVal_perm`).
   * `resolveRef_indexed`, `C05_indexed`, `C05_indexed2`   `$l[i][j]…` resolves to `indexVal v [i, j, …]`;
     `C05_indexed_out_of_range`, `C05_indexed_scalar`      out of range / index into a scalar: the value stays what it was
                                        (the exception of `eval("value[i]")` is suppressed); `findRefs_indexed`,
                                        `C05_indexed_pass`: the text is one plain reference and the pass puts the element in
                                        place; `C05_indexed_end_to_end`, `C05_indexed_unsupported`: from the file text.
  How the placement theorem is proved: the run on the tree is simulated on the flat image `flatSt c = ⟨flatEs c.data, c.exprs⟩`.
   (V) `getVar_tree`: off the sub-dict keys the variable table of a tree is that of its leaf list;
   (R) `resolveRef_avoid`/`resolve_eq`: `resolveRef` on two tables that agree off a set of names that is never looked up
       gives the same answers with the same fuel -- the names looked up are references (declared names, `pend_ref_key`) and
       pending texts, which are no words unless they are a single reference (`closure_ok`; here the no-bracket hypothesis
       is used);
   (P) `passStep_act`/`fold_sim`: one step of a pass decides what to do from the tables alone (`passAct`) and then applies
       it to the data (`applyAct`); on a tree the substitution functions are `mapLeaves (updV …)` (`substLeafEs_tree`,
       `substValEs_tree`), which commutes with `flatEs` (`mapLeaves_spec`);
   (L) `resolvedN`, `settledN`, `progress_notResN`, `progress_lengthN`, `loop_invN`: the loop argument of the flat proof with
       the invariant `NInv` = `Inv` of the flat image + `Side` (tree, shape, no bracket).  The fuel of `resolveRef` is the
       length of the tree's table (longer than the flat one), so the two runs are NOT in lockstep; only the invariant is shared.

  Assumed (`Placed`, all decidable; `exN_placed` shows them satisfiable): the data is a tree of dicts and scalars; the
  flat image satisfies `AcyclicFlat'`; the keys of the nested dicts are words or integers (`sub_words`) and no declared
  names (`sub_fresh`; hence not referenced, references name declared names); no `[` in expression texts and scalars
  (`expr_nlb`, `vals_nlb`) and in the evaluator's results (`EvNlb`; `evNlb_evalInt`).  Each is needed:
   `C05_refuted_subdict_referenced`, `C05_placement_false_without_fresh`, `C05_placement_false_without_nobracket`.
  NOT covered: success of `evalExpressions` on the tree is a hypothesis, as in `C05_complete_acyclic'` (it can fail where the
  code has a bound: `C05_placement_depth_bound`, a placeholder more than 10 keys deep); declarations inside lists of dicts
  (`listContainsDict`; `variables_nested` covers their variables, the placement theorem does not); included files (the
  merge is C12's); indexed references inside the acyclic graph theorem (`AcyclicFlat.refs_ok` excludes them).
-/
import DictIO.Props.C05acyclic

namespace DictIO.C05nested
open DictIO DictIO.C05

set_option linter.unusedSimpArgs false

/-! ## helper lemmas -/

/-! ### the variable table of a nested dictionary -/

/-- what `variables[key] = …` stores for one entry: the name and the stored value; `none` if nothing is stored
    (an integer key, or a string value that refers to its own key) -/
def assigned (exprs : Tbl ExprEntry) : Key → Val → Option (Str × Val)
  | .str ks, .leaf (.str s) =>
    if selfRef [] (.str ks) (.leaf (.str (insertExpression exprs s))) then none
    else some (ks, .leaf (.str (insertExpression exprs s)))
  | .str ks, v => some (ks, v)
  | .int _, _ => none

theorem assignVar_eq (exprs : Tbl ExprEntry) (k : Key) (v : Val) (acc : List (Str × Val)) :
    assignVar exprs k v acc = match assigned exprs k v with
      | some p => setVar p.1 p.2 acc
      | none => acc := by
  cases k with
  | int _ => rfl
  | str ks =>
    cases v with
    | leaf x =>
      cases x with
      | str s =>
        simp only [assignVar, assigned]
        split <;> rfl
      | int _ => rfl
      | float _ => rfl
      | bool _ => rfl
      | none => rfl
    | dict _ => rfl
    | list _ => rfl

mutual
  /-- the declarations of a dictionary in the order `SDict.variables` assigns them: the content of a nested dict
      (and of the dicts inside a list) first, then the key itself -/
  def declsEs : Entries → List (Key × Val)
    | [] => []
    | (k, .dict d) :: es => declsEs d ++ (k, .dict d) :: declsEs es
    | (k, .list l) :: es => (if listContainsDict l then declsXs l else []) ++ (k, .list l) :: declsEs es
    | (k, .leaf x) :: es => (k, .leaf x) :: declsEs es
  def declsXs : List Val → List (Key × Val)
    | [] => []
    | .dict d :: xs => declsEs d ++ declsXs xs
    | .list l :: xs => declsXs l ++ declsXs xs
    | .leaf _ :: xs => declsXs xs
end

def assignAll (exprs : Tbl ExprEntry) (L : List (Key × Val)) (acc : List (Str × Val)) : List (Str × Val) :=
  L.foldl (fun a d => assignVar exprs d.1 d.2 a) acc

theorem assignAll_append (exprs : Tbl ExprEntry) (L1 L2 : List (Key × Val)) (acc : List (Str × Val)) :
    assignAll exprs (L1 ++ L2) acc = assignAll exprs L2 (assignAll exprs L1 acc) := by
  simp [assignAll, List.foldl_append]

mutual
  theorem varsEs_eq (exprs : Tbl ExprEntry) : ∀ (es : Entries) (acc : List (Str × Val)),
      varsEs exprs es acc = assignAll exprs (declsEs es) acc
    | [], acc => by simp [varsEs, declsEs, assignAll]
    | (k, .dict d) :: es, acc => by
      rw [varsEs, declsEs, assignAll_append, varsEs_eq exprs d acc, varsEs_eq exprs es]
      rfl
    | (k, .list l) :: es, acc => by
      rw [varsEs, declsEs, assignAll_append, varsEs_eq exprs es]
      by_cases h : listContainsDict l = true
      · simp only [h, if_true, varsXs_eq exprs l acc]; rfl
      · simp only [h]; rfl
    | (k, .leaf x) :: es, acc => by
      rw [varsEs, declsEs, varsEs_eq exprs es]
      rfl
  theorem varsXs_eq (exprs : Tbl ExprEntry) : ∀ (xs : List Val) (acc : List (Str × Val)),
      varsXs exprs xs acc = assignAll exprs (declsXs xs) acc
    | [], acc => by simp [varsXs, declsXs, assignAll]
    | .dict d :: xs, acc => by
      rw [varsXs, declsXs, assignAll_append, varsEs_eq exprs d acc, varsXs_eq exprs xs]
    | .list l :: xs, acc => by
      rw [varsXs, declsXs, assignAll_append, varsXs_eq exprs l acc, varsXs_eq exprs xs]
    | .leaf _ :: xs, acc => by
      rw [varsXs, declsXs, varsXs_eq exprs xs]
end

/-- the value the table holds for `n` after the assignments `L`: the last assignment to `n` that stores something -/
def lastDecl (exprs : Tbl ExprEntry) (n : Str) : List (Key × Val) → Option Val
  | [] => none
  | d :: r => match lastDecl exprs n r with
    | some v => some v
    | none => match assigned exprs d.1 d.2 with
      | some p => if p.1 = n then some p.2 else none
      | none => none

theorem getVar_assignAll (exprs : Tbl ExprEntry) (n : Str) : ∀ (L : List (Key × Val)) (acc : List (Str × Val)),
    getVar n (assignAll exprs L acc) = match lastDecl exprs n L with
      | some v => some v
      | none => getVar n acc
  | [], acc => rfl
  | d :: r, acc => by
    have ih := getVar_assignAll exprs n r (assignVar exprs d.1 d.2 acc)
    simp only [assignAll, List.foldl_cons] at ih ⊢
    rw [ih, lastDecl]
    cases lastDecl exprs n r with
    | some v => rfl
    | none =>
      simp only [assignVar_eq]
      cases assigned exprs d.1 d.2 with
      | none => rfl
      | some p =>
        simp only [getVar_setVar]
        by_cases h : p.1 = n <;> simp [h]


theorem assigned_key {exprs : Tbl ExprEntry} {k : Key} {v : Val} {p : Str × Val} (h : assigned exprs k v = some p) :
    k = .str p.1 := by
  cases k with
  | int _ => cases h
  | str ks =>
    cases v with
    | leaf x =>
      cases x with
      | str s =>
        simp only [assigned] at h
        split at h
        · cases h
        · cases h; rfl
      | int _ => cases h; rfl
      | float _ => cases h; rfl
      | bool _ => cases h; rfl
      | none => cases h; rfl
    | dict _ => cases h; rfl
    | list _ => cases h; rfl

/-- only the assignments to `n` matter -/
theorem lastDecl_filter (exprs : Tbl ExprEntry) (n : Str) : ∀ L : List (Key × Val),
    lastDecl exprs n L = lastDecl exprs n (L.filter fun d => d.1 == Key.str n)
  | [] => rfl
  | d :: r => by
    have ih := lastDecl_filter exprs n r
    by_cases hd : d.1 = Key.str n
    · have : (d.1 == Key.str n) = true := by simpa using hd
      simp only [List.filter_cons, this, if_true, lastDecl, ih]
    · have hf : (d.1 == Key.str n) = false := by simpa using hd
      simp only [List.filter_cons, hf, lastDecl, Bool.false_eq_true, if_false]
      rw [← ih]
      cases lastDecl exprs n r with
      | some v => simp
      | none =>
        cases ha : assigned exprs d.1 d.2 with
        | none => simp
        | some p =>
          have := assigned_key ha
          have hne : p.1 ≠ n := fun e => hd (by rw [this, e])
          simp [hne]

/-! ### trees of nested dicts -/

mutual
  /-- dicts and scalars only -/
  def treeV : Val → Bool
    | .leaf _ => true
    | .dict d => treeEs d
    | .list _ => false
  def treeEs : Entries → Bool
    | [] => true
    | (_, v) :: es => treeV v && treeEs es
end

mutual
  def flatV (k : Key) : Val → Entries
    | .dict d => flatEs d
    | v => [(k, v)]
  /-- the leaf declarations of a tree, in document order -/
  def flatEs : Entries → Entries
    | [] => []
    | (k, v) :: es => flatV k v ++ flatEs es
end

mutual
  def dictKeysV (k : Key) : Val → List Key
    | .dict d => k :: dictKeys d
    | _ => []
  /-- the keys of the nested dicts, at every depth -/
  def dictKeys : Entries → List Key
    | [] => []
    | (k, v) :: es => dictKeysV k v ++ dictKeys es
end

mutual
  def mapLeavesV (f : Val → Val) : Val → Val
    | .dict d => .dict (mapLeaves f d)
    | v => f v
  /-- apply `f` to every leaf value of a tree -/
  def mapLeaves (f : Val → Val) : Entries → Entries
    | [] => []
    | (k, v) :: es => (k, mapLeavesV f v) :: mapLeaves f es
end

/-- the shape of a tree: keys and nesting, every leaf value forgotten -/
def skel (es : Entries) : Entries := mapLeaves (fun _ => .leaf .none) es

mutual
  def depthV : Val → Nat
    | .dict d => depthEs d + 1
    | _ => 0
  /-- nesting depth of the leaves: 1 for a flat dictionary -/
  def depthEs : Entries → Nat
    | [] => 1
    | (_, v) :: es => max (depthV v) (depthEs es)
end

theorem flatEs_nil : flatEs [] = [] := by simp [flatEs]
theorem flatEs_dict (k : Key) (d es : Entries) : flatEs ((k, .dict d) :: es) = flatEs d ++ flatEs es := by
  simp [flatEs, flatV]
theorem flatEs_leaf_cons (k : Key) (x : Scalar) (es : Entries) : flatEs ((k, .leaf x) :: es) = (k, .leaf x) :: flatEs es := by
  simp [flatEs, flatV]
theorem flatEs_list_cons (k : Key) (l : List Val) (es : Entries) : flatEs ((k, .list l) :: es) = (k, .list l) :: flatEs es := by
  simp [flatEs, flatV]
theorem dictKeys_nil : dictKeys [] = [] := by simp [dictKeys]
theorem dictKeys_dict (k : Key) (d es : Entries) : dictKeys ((k, .dict d) :: es) = k :: (dictKeys d ++ dictKeys es) := by
  simp [dictKeys, dictKeysV]
theorem dictKeys_leaf_cons (k : Key) (x : Scalar) (es : Entries) : dictKeys ((k, .leaf x) :: es) = dictKeys es := by
  simp [dictKeys, dictKeysV]
theorem mapLeaves_nil (f : Val → Val) : mapLeaves f [] = [] := by simp [mapLeaves]
theorem mapLeaves_dict (f : Val → Val) (k : Key) (d es : Entries) :
    mapLeaves f ((k, .dict d) :: es) = (k, .dict (mapLeaves f d)) :: mapLeaves f es := by
  simp [mapLeaves, mapLeavesV]
theorem mapLeaves_leaf_cons (f : Val → Val) (k : Key) (x : Scalar) (es : Entries) :
    mapLeaves f ((k, .leaf x) :: es) = (k, f (.leaf x)) :: mapLeaves f es := by
  simp [mapLeaves, mapLeavesV]

theorem flatEs_leaf : ∀ (T : Entries), treeEs T = true → ∀ d ∈ flatEs T, d.2.isLeaf = true
  | [], _, d, hd => by simp [flatEs_nil, flatEs_dict, flatEs_leaf_cons] at hd
  | (k, .leaf x) :: es, h, d, hd => by
    simp only [treeEs, treeV, Bool.true_and] at h
    simp only [flatEs_nil, flatEs_dict, flatEs_leaf_cons, List.mem_cons] at hd
    rcases hd with rfl | hd
    · rfl
    · exact flatEs_leaf es h d hd
  | (k, .list l) :: es, h, d, hd => by simp [treeEs, treeV] at h
  | (k, .dict dd) :: es, h, d, hd => by
    simp only [treeEs, treeV, Bool.and_eq_true] at h
    simp only [flatEs_nil, flatEs_dict, flatEs_leaf_cons, List.mem_append] at hd
    rcases hd with hd | hd
    · exact flatEs_leaf dd h.1 d hd
    · exact flatEs_leaf es h.2 d hd

theorem declsEs_leaves : ∀ (F : Entries), (∀ d ∈ F, d.2.isLeaf = true) → declsEs F = F
  | [], _ => by simp [declsEs]
  | (k, .leaf x) :: es, h => by
    rw [declsEs, declsEs_leaves es (fun d hd => h d (List.mem_cons_of_mem _ hd))]
  | (k, .list l) :: es, h => by have := h _ List.mem_cons_self; cases this
  | (k, .dict dd) :: es, h => by have := h _ List.mem_cons_self; cases this

/-- the assignments to a name that is no sub-dict key are the leaf declarations of that name -/
theorem filter_decls_flat (n : Str) : ∀ (T : Entries), treeEs T = true → Key.str n ∉ dictKeys T →
    (declsEs T).filter (fun d => d.1 == Key.str n) = (flatEs T).filter (fun d => d.1 == Key.str n)
  | [], _, _ => by simp [declsEs, flatEs_nil, flatEs_dict, flatEs_leaf_cons]
  | (k, .leaf x) :: es, h, hk => by
    simp only [treeEs, treeV, Bool.true_and] at h
    simp only [dictKeys_nil, dictKeys_dict, dictKeys_leaf_cons] at hk
    simp only [declsEs, flatEs_nil, flatEs_dict, flatEs_leaf_cons, List.filter_cons, filter_decls_flat n es h hk]
  | (k, .list l) :: es, h, _ => by simp [treeEs, treeV] at h
  | (k, .dict dd) :: es, h, hk => by
    simp only [treeEs, treeV, Bool.and_eq_true] at h
    simp only [dictKeys_nil, dictKeys_dict, dictKeys_leaf_cons, List.mem_cons, List.mem_append, not_or] at hk
    have hkn : (k == Key.str n) = false := by
      have : ¬ k = Key.str n := fun e => hk.1 e.symm
      simpa using this
    simp only [declsEs, flatEs_nil, flatEs_dict, flatEs_leaf_cons, List.filter_append, List.filter_cons, hkn,
      filter_decls_flat n dd h.1 hk.2.1, filter_decls_flat n es h.2 hk.2.2]
    simp

/-- **the variable table of a tree, off the sub-dict keys, is the variable table of its leaf declarations** -/
theorem getVar_tree (exprs : Tbl ExprEntry) (n : Str) (T : Entries) (h : treeEs T = true) (hk : Key.str n ∉ dictKeys T) :
    getVar n (varsEs exprs T []) = getVar n (varsEs exprs (flatEs T) []) := by
  rw [varsEs_eq, varsEs_eq, getVar_assignAll, getVar_assignAll, lastDecl_filter, filter_decls_flat n T h hk,
    declsEs_leaves _ (flatEs_leaf T h), ← lastDecl_filter]


/-! ### the substitution functions on a tree -/

theorem substLeafV_leaf' (ph : Str) (x y : Scalar) (d : Nat) (z : Val) (h : substLeafV ph x d (.leaf y) = .ok z) :
    z = updV ph (.leaf x) (.leaf y) := by
  cases y with
  | str s =>
    simp only [substLeafV] at h
    simp only [updV]
    split at h
    · rename_i hi
      split at h
      · cases h
      · cases h; rw [if_pos hi]
    · rename_i hi
      cases h; rw [if_neg hi]
  | int _ => simp only [substLeafV] at h; cases h; rfl
  | float _ => simp only [substLeafV] at h; cases h; rfl
  | bool _ => simp only [substLeafV] at h; cases h; rfl
  | none => simp only [substLeafV] at h; cases h; rfl

theorem substValV_leaf' (ph : Str) (v : Val) (y : Scalar) (d : Nat) (z : Val) (h : substValV ph v d (.leaf y) = .ok z) :
    z = updV ph v (.leaf y) := by
  cases y with
  | str s =>
    simp only [substValV] at h
    simp only [updV]
    split at h
    · rename_i hi
      split at h
      · cases h
      · cases h; rw [if_pos hi]
    · rename_i hi
      cases h; rw [if_neg hi]
  | int _ => simp only [substValV] at h; cases h; rfl
  | float _ => simp only [substValV] at h; cases h; rfl
  | bool _ => simp only [substValV] at h; cases h; rfl
  | none => simp only [substValV] at h; cases h; rfl

/-- on a tree, a successful `substLeafEs` (at any depth) is `updV` applied to every leaf -/
theorem substLeafEs_tree (ph : Str) (x : Scalar) : ∀ (T : Entries) (d : Nat) (T' : Entries), treeEs T = true →
    substLeafEs ph x d T = .ok T' → T' = mapLeaves (updV ph (.leaf x)) T
  | [], _, T', _, h => by simp only [substLeafEs] at h; cases h; simp [mapLeaves_nil, mapLeaves_dict, mapLeaves_leaf_cons]
  | (k, .leaf y) :: es, d, T', ht, h => by
    simp only [treeEs, treeV, Bool.true_and] at ht
    simp only [substLeafEs, bind, Except.bind] at h
    cases h1 : substLeafV ph x d (.leaf y) with
    | error e => rw [h1] at h; cases h
    | ok z =>
      rw [h1] at h
      simp only at h
      cases h2 : substLeafEs ph x d es with
      | error e => rw [h2] at h; cases h
      | ok es' =>
        rw [h2] at h
        simp only [pure, Except.pure, Except.ok.injEq] at h
        subst h
        rw [substLeafV_leaf' ph x y d z h1, substLeafEs_tree ph x es d es' ht h2]
        simp only [mapLeaves_nil, mapLeaves_dict, mapLeaves_leaf_cons]
  | (k, .list l) :: es, _, _, ht, _ => by simp [treeEs, treeV] at ht
  | (k, .dict dd) :: es, d, T', ht, h => by
    simp only [treeEs, treeV, Bool.and_eq_true] at ht
    simp only [substLeafEs, substLeafV, bind, Except.bind] at h
    cases h1 : substLeafEs ph x (d + 1) dd with
    | error e => rw [h1] at h; cases h
    | ok dd' =>
      rw [h1] at h
      simp only [Except.map] at h
      cases h2 : substLeafEs ph x d es with
      | error e => rw [h2] at h; cases h
      | ok es' =>
        rw [h2] at h
        simp only [pure, Except.pure, Except.ok.injEq] at h
        subst h
        rw [substLeafEs_tree ph x dd (d + 1) dd' ht.1 h1, substLeafEs_tree ph x es d es' ht.2 h2]
        simp only [mapLeaves_nil, mapLeaves_dict, mapLeaves_leaf_cons]

theorem substValEs_tree (ph : Str) (v : Val) : ∀ (T : Entries) (d : Nat) (T' : Entries), treeEs T = true →
    substValEs ph v d T = .ok T' → T' = mapLeaves (updV ph v) T
  | [], _, T', _, h => by simp only [substValEs] at h; cases h; simp [mapLeaves_nil, mapLeaves_dict, mapLeaves_leaf_cons]
  | (k, .leaf y) :: es, d, T', ht, h => by
    simp only [treeEs, treeV, Bool.true_and] at ht
    simp only [substValEs, bind, Except.bind] at h
    cases h1 : substValV ph v d (.leaf y) with
    | error e => rw [h1] at h; cases h
    | ok z =>
      rw [h1] at h
      simp only at h
      cases h2 : substValEs ph v d es with
      | error e => rw [h2] at h; cases h
      | ok es' =>
        rw [h2] at h
        simp only [pure, Except.pure, Except.ok.injEq] at h
        subst h
        rw [substValV_leaf' ph v y d z h1, substValEs_tree ph v es d es' ht h2]
        simp only [mapLeaves_nil, mapLeaves_dict, mapLeaves_leaf_cons]
  | (k, .list l) :: es, _, _, ht, _ => by simp [treeEs, treeV] at ht
  | (k, .dict dd) :: es, d, T', ht, h => by
    simp only [treeEs, treeV, Bool.and_eq_true] at ht
    simp only [substValEs, substValV, bind, Except.bind] at h
    cases h1 : substValEs ph v (d + 1) dd with
    | error e => rw [h1] at h; cases h
    | ok dd' =>
      rw [h1] at h
      simp only [Except.map] at h
      cases h2 : substValEs ph v d es with
      | error e => rw [h2] at h; cases h
      | ok es' =>
        rw [h2] at h
        simp only [pure, Except.pure, Except.ok.injEq] at h
        subst h
        rw [substValEs_tree ph v dd (d + 1) dd' ht.1 h1, substValEs_tree ph v es d es' ht.2 h2]
        simp only [mapLeaves_nil, mapLeaves_dict, mapLeaves_leaf_cons]

/-- `mapLeaves` with a function that sends scalars to scalars: the leaf list is mapped, the shape stays -/
theorem mapLeaves_spec (f : Val → Val) (hf : ∀ y, (f (.leaf y)).isLeaf = true) : ∀ (T : Entries), treeEs T = true →
    flatEs (mapLeaves f T) = (flatEs T).map (fun d => (d.1, f d.2)) ∧ treeEs (mapLeaves f T) = true ∧
    skel (mapLeaves f T) = skel T ∧ dictKeys (mapLeaves f T) = dictKeys T
  | [], _ => by simp [mapLeaves_nil, mapLeaves_dict, mapLeaves_leaf_cons, flatEs_nil, flatEs_dict, flatEs_leaf_cons, treeEs, skel, dictKeys_nil, dictKeys_dict, dictKeys_leaf_cons]
  | (k, .leaf y) :: es, ht => by
    simp only [treeEs, treeV, Bool.true_and] at ht
    obtain ⟨i1, i2, i3, i4⟩ := mapLeaves_spec f hf es ht
    have hy := hf y
    cases hz : f (.leaf y) with
    | leaf z =>
      simp only [skel] at i3 ⊢
      simp only [mapLeaves_nil, mapLeaves_dict, mapLeaves_leaf_cons, hz, flatEs_nil, flatEs_dict, flatEs_leaf_cons, i1, List.map_cons, treeEs, treeV, i2, Bool.and_self, i3, dictKeys_nil, dictKeys_dict, dictKeys_leaf_cons, i4,
        and_self]
    | dict _ => rw [hz] at hy; cases hy
    | list _ => rw [hz] at hy; cases hy
  | (k, .list l) :: es, ht => by simp [treeEs, treeV] at ht
  | (k, .dict dd) :: es, ht => by
    simp only [treeEs, treeV, Bool.and_eq_true] at ht
    obtain ⟨i1, i2, i3, i4⟩ := mapLeaves_spec f hf es ht.2
    obtain ⟨j1, j2, j3, j4⟩ := mapLeaves_spec f hf dd ht.1
    simp only [skel] at i3 j3 ⊢
    simp only [mapLeaves_nil, mapLeaves_dict, mapLeaves_leaf_cons, flatEs_nil, flatEs_dict, flatEs_leaf_cons, i1, j1, List.map_append, treeEs, treeV, i2, j2, Bool.and_self, i3, j3, dictKeys_nil, dictKeys_dict, dictKeys_leaf_cons, i4, j4,
      and_self]

theorem updV_isLeaf (ph : Str) {v : Val} (hv : v.isLeaf = true) (y : Scalar) : (updV ph v (.leaf y)).isLeaf = true :=
  updV_leaf ph rfl hv

/-! ### `resolveRef` on two tables that agree off a set of names that is never looked up -/

theorem follow_zero (vars : List (Str × Val)) (vis : List Str) (v : Val) (last : Str) :
    resolveRef.follow vars 0 vis v last = (.none, last) := by
  rw [resolveRef.follow.eq_def]

theorem resolveRef_avoid (vN vF : List (Str × Val)) (K : Str → Prop)
    (hagree : ∀ n, ¬ K n → getVar n vN = getVar n vF)
    (hsound : ∀ f vis x v, resolveRef vF f vis x = .val v → dfree v = true)
    (hclosed : ∀ n s, ¬ K n → getVar n vF = some (.leaf (.str s)) → s.contains '$' = true → ¬ K (refName s)) :
    ∀ f, (∀ vis x, ¬ K (refName x) → resolveRef vN f vis x = resolveRef vF f vis x) ∧
         (∀ vis v last, (∀ s, v = .leaf (.str s) → s.contains '$' = true → ¬ K (refName s)) →
            resolveRef.follow vN f vis v last = resolveRef.follow vF f vis v last)
  | 0 => by
    refine ⟨fun vis x _ => ?_, fun vis v last _ => ?_⟩
    · rw [resolveRef.eq_1, resolveRef.eq_1]
    · rw [follow_zero, follow_zero]
  | f + 1 => by
    obtain ⟨P, Q⟩ := resolveRef_avoid vN vF K hagree hsound hclosed f
    refine ⟨fun vis x hx => ?_, fun vis v last hv => ?_⟩
    · rw [resolveRef_succ, resolveRef_succ, hagree _ hx]
      cases hg : getVar (refName x) vF with
      | none => rfl
      | some v0 =>
        have : resolveRef.follow vN f (vis ++ [refName x]) v0 (refName x)
            = resolveRef.follow vF f (vis ++ [refName x]) v0 (refName x) := by
          apply Q
          intro s hs hc
          subst hs
          exact hclosed _ _ hx hg hc
        simp only [this]
    · rw [follow_succ, follow_succ]
      cases v with
      | leaf y =>
        cases y with
        | str s =>
          simp only
          by_cases hc : s.contains '$' = true
          · simp only [hc, if_true]
            rw [P vis s (hv s rfl hc)]
            cases hr : resolveRef vF f vis s with
            | none => rfl
            | unsupported => rfl
            | val v' =>
              simp only
              apply Q
              intro s' hs' hc'
              subst hs'
              have := hsound _ _ _ _ hr
              simp only [dfree, pyStrScalar, noD, hc', Bool.not_true] at this
              cases this
          · rw [if_neg hc, if_neg hc]
        | int _ => rfl
        | float _ => rfl
        | bool _ => rfl
        | none => rfl
      | dict _ => rfl
      | list _ => rfl


/-- whatever `resolveRef` answers on a table of scalars is a value of the table -/
theorem resolveRef_val_pred (vars : List (Str × Val)) (Pr : Val → Prop)
    (hleaf : ∀ n v0, getVar n vars = some v0 → v0.isLeaf = true ∧ Pr v0) :
    ∀ f, (∀ vis x v, resolveRef vars f vis x = .val v → v.isLeaf = true ∧ Pr v) ∧
         (∀ vis v0 last v, v0.isLeaf = true → Pr v0 → (resolveRef.follow vars f vis v0 last).1 = .val v →
            v.isLeaf = true ∧ Pr v)
  | 0 => by
    refine ⟨fun vis x v h => ?_, fun vis v0 last v _ _ h => ?_⟩
    · rw [resolveRef.eq_1] at h; cases h
    · rw [follow_zero] at h; cases h
  | f + 1 => by
    obtain ⟨P, Q⟩ := resolveRef_val_pred vars Pr hleaf f
    refine ⟨fun vis x v h => ?_, fun vis v0 last v hl hp h => ?_⟩
    · rw [resolveRef_succ] at h
      cases hi : idxOf x with
      | none => rw [hi] at h; cases h
      | some idx =>
        rw [hi] at h
        simp only at h
        split at h
        · cases h
        · cases hg : getVar (refName x) vars with
          | none => rw [hg] at h; cases h
          | some v0 =>
            rw [hg] at h
            simp only at h
            obtain ⟨hl0, hp0⟩ := hleaf _ _ hg
            cases hfo : (resolveRef.follow vars f (vis ++ [refName x]) v0 (refName x)).1 with
            | none => rw [hfo] at h; cases h
            | unsupported => rw [hfo] at h; cases h
            | val v1 =>
              rw [hfo] at h
              simp only at h
              obtain ⟨hl1, hp1⟩ := Q _ _ _ _ hl0 hp0 hfo
              cases v1 with
              | leaf a =>
                obtain ⟨rfl, _⟩ := resolveRef_tail h
                exact ⟨rfl, hp1⟩
              | dict _ => cases hl1
              | list _ => cases hl1
    · rw [follow_succ] at h
      cases v0 with
      | leaf y =>
        cases y with
        | str s =>
          simp only at h
          split at h
          · cases hr : resolveRef vars f vis s with
            | none => rw [hr] at h; cases h
            | unsupported => rw [hr] at h; cases h
            | val v' =>
              rw [hr] at h
              simp only at h
              obtain ⟨hl', hp'⟩ := P _ _ _ hr
              exact Q _ _ _ _ hl' hp' h
          · cases h; exact ⟨rfl, hp⟩
        | int _ => cases h; exact ⟨rfl, hp⟩
        | float _ => cases h; exact ⟨rfl, hp⟩
        | bool _ => cases h; exact ⟨rfl, hp⟩
        | none => cases h; exact ⟨rfl, hp⟩
      | dict _ => cases hl
      | list _ => cases hl

/-! ### texts without an index bracket -/

/-- the text of a scalar carries no `[` -/
def valNlb : Val → Bool
  | .leaf x => !(pyStrScalar x).contains '['
  | _ => true

theorem valNlb_str {t : Str} : valNlb (.leaf (.str t)) = true ↔ '[' ∉ t := by
  simp [valNlb, pyStrScalar]

theorem valNlb_pyStr {v : Val} {t : Str} (h : valNlb v = true) (ht : pyStrVal v = some t) : '[' ∉ t := by
  cases v with
  | leaf x =>
    simp only [pyStrVal, Option.some.injEq] at ht
    subst ht
    simpa [valNlb] using h
  | dict _ => cases ht
  | list _ => cases ht

theorem mem_drop {α} {a : α} : ∀ {n : Nat} {l : List α}, a ∈ l.drop n → a ∈ l
  | 0, _, h => h
  | _ + 1, [], h => by simp at h
  | n + 1, _ :: l, h => List.mem_cons_of_mem _ (mem_drop (n := n) (l := l) h)

theorem substRefFuel_nlb (r t : Str) (ht : '[' ∉ t) : ∀ (f : Nat) (x : Str), '[' ∉ x → '[' ∉ substRefFuel r t f x
  | 0, x, hx => by simpa [substRefFuel] using hx
  | f + 1, [], _ => by simp [substRefFuel]
  | f + 1, c :: x, hx => by
    rw [substRefFuel_cons]
    by_cases hb : (r.isPrefixOf (c :: x) && !r.isEmpty && boundaryOk ((c :: x).drop r.length)) = true
    · rw [if_pos hb]
      intro hm
      rcases List.mem_append.mp hm with hm | hm
      · exact ht hm
      · exact substRefFuel_nlb r t ht f _ (fun h => hx (mem_drop h)) hm
    · rw [if_neg hb]
      intro hm
      rcases List.mem_cons.mp hm with hm | hm
      · exact hx (by rw [hm]; exact List.mem_cons_self)
      · exact substRefFuel_nlb r t ht f x (fun h => hx (List.mem_cons_of_mem _ h)) hm

theorem substAll_nlb (ρ : Str → Option Str) (hρ : ∀ r t, ρ r = some t → '[' ∉ t) :
    ∀ (rs : List Str) (x : Str), '[' ∉ x → '[' ∉ substAll ρ rs x
  | [], x, hx => hx
  | r :: rs, x, hx => by
    simp only [substAll, List.foldl_cons]
    apply substAll_nlb ρ hρ rs
    cases h : ρ r with
    | none => exact hx
    | some t => exact substRefFuel_nlb r t (hρ r t h) _ x hx

theorem updV_nlb (ph : Str) {v' v : Val} (h' : valNlb v' = true) (h : valNlb v = true) : valNlb (updV ph v' v) = true := by
  cases v with
  | leaf y =>
    cases y with
    | str t => simp only [updV]; split <;> assumption
    | int _ => exact h
    | float _ => exact h
    | bool _ => exact h
    | none => exact h
  | dict _ => rfl
  | list _ => rfl

theorem Tbl.mem_set_sub {α} {i : Nat} {x : α} : ∀ {t : Tbl α} {a : Nat × α}, a ∈ Tbl.set i x t → a = (i, x) ∨ a ∈ t
  | [], a, h => by simp only [Tbl.set, List.mem_singleton] at h; exact Or.inl h
  | (j, b) :: t, a, h => by
    simp only [Tbl.set] at h
    split at h
    · rcases List.mem_cons.mp h with h | h
      · exact Or.inl h
      · exact Or.inr (List.mem_cons_of_mem _ h)
    · rcases List.mem_cons.mp h with h | h
      · exact Or.inr (by rw [h]; exact List.mem_cons_self)
      · rcases Tbl.mem_set_sub h with h | h
        · exact Or.inl h
        · exact Or.inr (List.mem_cons_of_mem _ h)

theorem Tbl.mem_del_sub {α} {i : Nat} : ∀ {t : Tbl α} {a : Nat × α}, a ∈ Tbl.del i t → a ∈ t
  | [], a, h => by simp [Tbl.del] at h
  | (j, b) :: t, a, h => by
    simp only [Tbl.del] at h
    split at h
    · exact List.mem_cons_of_mem _ h
    · rcases List.mem_cons.mp h with h | h
      · rw [h]; exact List.mem_cons_self
      · exact List.mem_cons_of_mem _ (Tbl.mem_del_sub h)


/-! ### one step of a pass: what is done to the data, separated from the data -/

inductive Act where
  | keep (ex : Tbl ExprEntry)
  | sv (v : Val) (ex : Tbl ExprEntry)
  | sl (x : Scalar) (ex : Tbl ExprEntry)
  | err (e : ParseErr)

def applyAct (ph : Str) (data : Entries) : Act → Except ParseErr ExprSt
  | .keep ex => .ok ⟨data, ex⟩
  | .sv v ex => (match substValEs ph v 1 data with | .ok d => .ok ⟨d, ex⟩ | .error e => .error e)
  | .sl x ex => (match substLeafEs ph x 1 data with | .ok d => .ok ⟨d, ex⟩ | .error e => .error e)
  | .err e => .error e

def refFold (R : List (Str × Val)) (refs : List Str) (x : Str) : Except ParseErr Str :=
  refs.foldlM (fun (x : Str) r =>
    match R.find? (fun p => p.1 == r) with
    | some (_, v) => match pyStrVal v with
      | some t => Except.ok (substRefFuel r t (x.length + 1) x)
      | none => Except.error ParseErr.unsupported
    | none => Except.ok x) x

def passAct (ev : Str → EvalResult) (R : List (Str × Val)) (exprs : Tbl ExprEntry) (e : Nat × ExprEntry) : Act :=
  match plainOf R e.2.expression with
  | some v => .sv v (exprs.del e.1)
  | none =>
    match refFold R (findRefs e.2.expression) e.2.expression with
    | .error err => .err err
    | .ok expr =>
      if expr.contains '$' then .keep (exprs.set e.1 { e.2 with expression := expr })
      else match ev expr with
        | .unsupported => .err .unsupported
        | .syntaxError => .keep (exprs.set e.1 { e.2 with expression := expr })
        | .nameError => .sl (.str expr) (exprs.del e.1)
        | .value (.leaf x) => .sl x (exprs.del e.1)
        | .value _ => .err .unsupported

theorem passStep_act (ev : Str → EvalResult) (R : List (Str × Val)) (c : ExprSt) (e : Nat × ExprEntry) :
    passStep ev R c e = applyAct e.2.name c.data (passAct ev R c.exprs e) := by
  unfold passStep passAct
  simp only []
  cases hp : plainOf R e.2.expression with
  | some v =>
    simp only [applyAct, bind, Except.bind, pure, Except.pure]
    cases substValEs e.2.name v 1 c.data <;> rfl
  | none =>
    simp only [refFold]
    generalize List.foldlM (fun (x : Str) r =>
      match List.find? (fun p => p.1 == r) R with
      | some (_, v) => match pyStrVal v with
        | some t => Except.ok (substRefFuel r t (x.length + 1) x)
        | none => Except.error ParseErr.unsupported
      | none => Except.ok x) e.2.expression (findRefs e.2.expression) = fo
    cases fo with
    | error err => rfl
    | ok expr =>
      simp only [bind, Except.bind]
      by_cases hc : expr.contains '$' = true
      · simp only [hc, if_true]; rfl
      · simp only [hc]
        simp only [Bool.false_eq_true, if_false]
        cases hev : ev expr with
        | unsupported => rfl
        | syntaxError => rfl
        | nameError =>
          simp only [applyAct, pure, Except.pure]
          cases substLeafEs e.2.name (.str expr) 1 c.data <;> rfl
        | value v =>
          cases v with
          | leaf x =>
            simp only [applyAct, pure, Except.pure]
            cases substLeafEs e.2.name x 1 c.data <;> rfl
          | dict _ => rfl
          | list _ => rfl


/-! ### the nested state and its flat image -/

/-- the flat dictionary of the leaf declarations of `s` (side tables unchanged) -/
def flatSD (s : SD) : SD := { s with data := flatEs s.data }

def flatSt (c : ExprSt) : ExprSt := ⟨flatEs c.data, c.exprs⟩

/-- the evaluator's scalar results carry no `[` -/
def EvNlb (ev : Str → EvalResult) : Prop := ∀ t x, ev t = .value (.leaf x) → valNlb (.leaf x) = true

/-- what the nested state keeps besides the invariant of its flat image: it is a tree of the original shape, and no
    pending text and no scalar carries a `[` -/
structure Side (T0 : Entries) (c : ExprSt) : Prop where
  tree : treeEs c.data = true
  skel_eq : skel c.data = skel T0
  dkeys : dictKeys c.data = dictKeys T0
  expr_nlb : ∀ e ∈ c.exprs, '[' ∉ e.2.expression
  vals_nlb : ∀ d ∈ flatEs c.data, valNlb d.2 = true

def RNlb (R : List (Str × Val)) : Prop :=
  ∀ r p, R.find? (fun p => p.1 == r) = some p → p.2.isLeaf = true ∧ valNlb p.2 = true

theorem refFold_nlb (R : List (Str × Val)) (hR : RNlb R) : ∀ (refs : List Str) (x expr : Str), '[' ∉ x →
    refFold R refs x = .ok expr → '[' ∉ expr
  | [], x, expr, hx, h => by
    simp only [refFold, List.foldlM_nil, pure, Except.pure, Except.ok.injEq] at h
    subst h; exact hx
  | r :: refs, x, expr, hx, h => by
    simp only [refFold, List.foldlM_cons, bind, Except.bind] at h
    cases hf : R.find? (fun p => p.1 == r) with
    | none =>
      rw [hf] at h
      exact refFold_nlb R hR refs x expr hx h
    | some p =>
      obtain ⟨r', v⟩ := p
      rw [hf] at h
      simp only at h
      cases hs : pyStrVal v with
      | none => rw [hs] at h; cases h
      | some t =>
        rw [hs] at h
        simp only at h
        have ht : '[' ∉ t := valNlb_pyStr (hR r _ hf).2 hs
        exact refFold_nlb R hR refs _ expr (substRefFuel_nlb r t ht _ x hx) h

theorem plainOf_some {R : List (Str × Val)} {T : Str} {v : Val} (h : plainOf R T = some v) :
    ∃ r p, R.find? (fun p => p.1 == r) = some p ∧ v = p.2 := by
  unfold plainOf at h
  split at h
  · rename_i r _
    split at h
    · cases hf : R.find? (fun p => p.1 == r) with
      | none => rw [hf] at h; cases h
      | some p => rw [hf] at h; cases h; exact ⟨r, p, hf, rfl⟩
    · cases h
  · cases h

/-- what the chosen action carries -/
def Act.ok : Act → Prop
  | .keep ex => ∀ a ∈ ex, '[' ∉ a.2.expression
  | .sv v ex => v.isLeaf = true ∧ valNlb v = true ∧ ∀ a ∈ ex, '[' ∉ a.2.expression
  | .sl x ex => valNlb (.leaf x) = true ∧ ∀ a ∈ ex, '[' ∉ a.2.expression
  | .err _ => True

def Act.exprs : Act → Tbl ExprEntry
  | .keep ex => ex
  | .sv _ ex => ex
  | .sl _ ex => ex
  | .err _ => []

theorem passAct_ok (ev : Str → EvalResult) (R : List (Str × Val)) (exprs : Tbl ExprEntry) (e : Nat × ExprEntry)
    (E : EvNlb ev) (hR : RNlb R) (he : '[' ∉ e.2.expression) (hex : ∀ a ∈ exprs, '[' ∉ a.2.expression) :
    (passAct ev R exprs e).ok := by
  have hdel : ∀ a ∈ Tbl.del e.1 exprs, '[' ∉ a.2.expression := fun a ha => hex a (Tbl.mem_del_sub ha)
  have hset : ∀ expr, '[' ∉ expr → ∀ a ∈ Tbl.set e.1 ({ e.2 with expression := expr } : ExprEntry) exprs,
      '[' ∉ a.2.expression := by
    intro expr hx a ha
    rcases Tbl.mem_set_sub ha with rfl | ha
    · exact hx
    · exact hex a ha
  unfold passAct
  cases hp : plainOf R e.2.expression with
  | some v =>
    obtain ⟨r, p, hf, rfl⟩ := plainOf_some hp
    exact ⟨(hR r p hf).1, (hR r p hf).2, hdel⟩
  | none =>
    simp only
    cases hfo : refFold R (findRefs e.2.expression) e.2.expression with
    | error err => trivial
    | ok expr =>
      have hx : '[' ∉ expr := refFold_nlb R hR _ _ _ he hfo
      simp only
      by_cases hc : expr.contains '$' = true
      · rw [if_pos hc]; exact hset expr hx
      · rw [if_neg hc]
        cases hev : ev expr with
        | unsupported => trivial
        | syntaxError => exact hset expr hx
        | nameError => exact ⟨valNlb_str.mpr hx, hdel⟩
        | value v =>
          cases v with
          | leaf x => exact ⟨E _ _ hev, hdel⟩
          | dict _ => trivial
          | list _ => trivial

theorem map_nlb (ph : Str) (v : Val) (hv : valNlb v = true) (F : Entries) (hF : ∀ d ∈ F, valNlb d.2 = true) :
    ∀ d ∈ F.map (fun d => (d.1, updV ph v d.2)), valNlb d.2 = true := by
  intro d hd
  obtain ⟨d0, h0, rfl⟩ := List.mem_map.mp hd
  exact updV_nlb ph hv (hF d0 h0)

/-- the action on the tree and the action on its leaf list -/
theorem applyAct_sim (ph : Str) (T : Entries) (act : Act) (c' : ExprSt) (ht : treeEs T = true)
    (hn : ∀ d ∈ flatEs T, valNlb d.2 = true) (hact : act.ok) (h : applyAct ph T act = .ok c') :
    applyAct ph (flatEs T) act = .ok (flatSt c') ∧ treeEs c'.data = true ∧ skel c'.data = skel T ∧
      dictKeys c'.data = dictKeys T ∧ (∀ d ∈ flatEs c'.data, valNlb d.2 = true) ∧ c'.exprs = act.exprs := by
  cases act with
  | keep ex =>
    simp only [applyAct, Except.ok.injEq] at h
    subst h
    exact ⟨rfl, ht, rfl, rfl, hn, rfl⟩
  | err e => simp [applyAct] at h
  | sv v ex =>
    obtain ⟨hvl, hvn, _⟩ := hact
    simp only [applyAct] at h ⊢
    cases hs : substValEs ph v 1 T with
    | error e => rw [hs] at h; cases h
    | ok d =>
      rw [hs] at h
      simp only [Except.ok.injEq] at h
      subst h
      have hd := substValEs_tree ph v T 1 d ht hs
      obtain ⟨m1, m2, m3, m4⟩ := mapLeaves_spec (updV ph v) (updV_isLeaf ph hvl) T ht
      subst hd
      rw [substValEs_flat ph v _ (flatEs_leaf T ht)]
      refine ⟨?_, m2, m3, m4, ?_, rfl⟩
      · simp only [flatSt, m1]; rfl
      · simp only [m1]; exact map_nlb ph v hvn _ hn
  | sl x ex =>
    obtain ⟨hvn, _⟩ := hact
    simp only [applyAct] at h ⊢
    cases hs : substLeafEs ph x 1 T with
    | error e => rw [hs] at h; cases h
    | ok d =>
      rw [hs] at h
      simp only [Except.ok.injEq] at h
      subst h
      have hd := substLeafEs_tree ph x T 1 d ht hs
      obtain ⟨m1, m2, m3, m4⟩ := mapLeaves_spec (updV ph (.leaf x)) (updV_isLeaf ph rfl) T ht
      subst hd
      rw [substLeafEs_flat ph x _ (flatEs_leaf T ht)]
      refine ⟨?_, m2, m3, m4, ?_, rfl⟩
      · simp only [flatSt, m1]; rfl
      · simp only [m1]; exact map_nlb ph (.leaf x) hvn _ hn

theorem Act.ok_exprs {act : Act} (h : act.ok) : ∀ a ∈ act.exprs, '[' ∉ a.2.expression := by
  cases act with
  | keep ex => exact h
  | sv v ex => exact h.2.2
  | sl x ex => exact h.2
  | err _ => intro a ha; cases ha

/-- **one pass on the tree is the pass on its leaf list** -/
theorem fold_sim (ev : Str → EvalResult) (R : List (Str × Val)) (T0 : Entries) (E : EvNlb ev) (hR : RNlb R) :
    ∀ (L : List (Nat × ExprEntry)) (c c' : ExprSt), Side T0 c → (∀ e ∈ L, '[' ∉ e.2.expression) →
      L.foldlM (passStep ev R) c = .ok c' →
      L.foldlM (passStep ev R) (flatSt c) = .ok (flatSt c') ∧ Side T0 c'
  | [], c, c', S, _, h => by
    simp only [List.foldlM_nil, pure, Except.pure, Except.ok.injEq] at h
    subst h
    exact ⟨rfl, S⟩
  | e :: L, c, c', S, hL, h => by
    rw [List.foldlM_cons] at h ⊢
    simp only [bind, Except.bind] at h ⊢
    cases hs : passStep ev R c e with
    | error x => rw [hs] at h; cases h
    | ok c1 =>
      rw [hs] at h
      simp only at h
      rw [passStep_act] at hs
      have hok : (passAct ev R c.exprs e).ok := passAct_ok ev R c.exprs e E hR (hL e List.mem_cons_self) S.expr_nlb
      obtain ⟨a1, a2, a3, a4, a5, a6⟩ := applyAct_sim _ _ _ _ S.tree S.vals_nlb hok hs
      have hflat : passStep ev R (flatSt c) e = .ok (flatSt c1) := by
        rw [passStep_act]; exact a1
      rw [hflat]
      simp only
      have S1 : Side T0 c1 := ⟨a2, a3.trans S.skel_eq, a4.trans S.dkeys, by rw [a6]; exact Act.ok_exprs hok, a5⟩
      exact fold_sim ev R T0 E hR L c1 c' S1 (fun e' he' => hL e' (List.mem_cons_of_mem _ he')) h


/-! ### placements -/

/-- **the domain**: `s` is a tree of nested dicts whose leaf declarations, read as one flat dictionary, are in the
    domain of `C05_complete_acyclic'`; the keys of the nested dicts are words (or integers) and are no declared names;
    no expression text and no scalar carries an index bracket `[` -/
structure Placed (s : SD) : Prop where
  tree : treeEs s.data = true
  sub_words : ∀ k ∈ dictKeys s.data, keyWord k = true
  sub_fresh : ∀ k ∈ dictKeys s.data, k ∉ keys (flatEs s.data)
  flat_ok : AcyclicFlat' (flatSD s)
  expr_nlb : ∀ e ∈ s.exprs, '[' ∉ e.2.expression
  vals_nlb : ∀ d ∈ flatEs s.data, valNlb d.2 = true

/-- the invariant of the loop on the nested state: the invariant of the flat proof for its flat image, and `Side` -/
structure NInv (ev : Str → EvalResult) (s : SD) (c : ExprSt) : Prop where
  inv : Inv ev (flatSD s) (flatSt c)
  side : Side s.data c

theorem rvOf_val {vars : List (Str × Val)} {r : Str} {v : Val} (h : rvOf vars r = some v) :
    resolveRef vars (vars.length + 1) [] r = .val v := by
  unfold rvOf at h
  split at h
  · rename_i v' hr; cases h; exact hr
  · cases h

section nested
set_option linter.unusedSectionVars false
variable {ev : Str → EvalResult} {s : SD} (P : Placed s) {c : ExprSt} (N : NInv ev s c)
include P N

/-- the references of the pending entries name declared (leaf) names -/
theorem pend_ref_key {r : Str} (hr : r ∈ pendRefs c.exprs) :
    ∃ w, r = '$' :: w ∧ w.all isWordChar = true ∧ Key.str w ∈ keys (flatEs s.data) := by
  have A := P.flat_ok
  obtain ⟨e, he, hre⟩ := mem_pendRefs.mp hr
  obtain ⟨e0, he0, _, _, σ, hσ, hT⟩ := N.inv.ex e he
  obtain ⟨hr0, hwf0, _, _⟩ := st_wf A he0
  have hwf := Segs.wf_fill hσ hwf0
  have hfr : findRefs e.2.expression = refsOf (fill σ (toSegs e0.2.expression).ps) := by
    rw [hT, findRefs_render _ hwf]; rfl
  rw [hfr, refsOf_fill, List.mem_filter] at hre
  have hr0' : r ∈ findRefs e0.2.expression := by
    rw [← hr0, findRefs_render _ hwf0]; exact hre.1
  have hisref : IsRef r := by
    simp only [Segs.wf, Bool.and_eq_true] at hwf0
    exact refsOf_isRef _ hwf0.2 _ hre.1
  obtain ⟨w, rfl, _, hww⟩ := hisref
  refine ⟨w, rfl, hww, ?_⟩
  have := (A.base.refs_ok e0 he0 _ hr0').2
  rw [refName_ref hww] at this
  apply Classical.byContradiction
  intro hnot
  have hn : lookup (Key.str w) (flatSD s).data = none := (lookup_none_iff _ _).mpr hnot
  rw [hn] at this
  cases this

/-- a declared name is no sub-dict key -/
theorem key_not_sub {w : Str} (h : Key.str w ∈ keys (flatEs s.data)) : Key.str w ∉ dictKeys s.data :=
  fun hk => P.sub_fresh _ hk h

theorem varsF_ok : VarsOK (varsEs c.exprs (flatEs c.data) []) (Good ev (flatSD s)) (ordS (flatSt c)) (pendS (flatSt c)) :=
  N.inv.varsOK P.flat_ok

/-- a pending text that is looked up as a name is no sub-dict key -/
theorem closure_ok (n t : Str) (hg : getVar n (varsEs c.exprs (flatEs c.data) []) = some (.leaf (.str t)))
    (hc : t.contains '$' = true) : Key.str (refName t) ∉ dictKeys s.data := by
  have hV := varsF_ok P N
  rcases hV.v1 n _ hg with ho | ⟨g, hp, hv0⟩
  · have := (okVal_str (hV.ord_ok _ _ ho)).2
    simp only [List.contains_eq_mem, decide_eq_true_eq] at hc
    exact absurd hc this
  · have ht : t = g.render := by cases hv0; rfl
    obtain ⟨hgwf, e, he, _, hre⟩ := hp
    have hnl : '[' ∉ t := by rw [ht, hre]; exact N.side.expr_nlb e he
    intro hK
    have hword : (refName t).all isWordChar = true := P.sub_words _ hK
    have hrn : refName t = afterD t := by
      rw [refName_eq]
      apply takeWhile_ne_of_not_mem
      intro hm
      apply hnl
      unfold afterD at hm
      split at hm
      · exact List.mem_cons_of_mem _ hm
      · exact hm
    rw [hrn] at hword hK
    have hd : '$' ∈ t := by simpa using hc
    cases t with
    | nil => cases hd
    | cons ch rest =>
      by_cases hch : ch = '$'
      · subst hch
        have hrest : afterD ('$' :: rest) = rest := rfl
        rw [hrest] at hword hK
        have hgs := segs_of_ref g hgwf rest hword ht.symm
        have hfr : findRefs e.2.expression = ['$' :: rest] := by
          rw [← hre, findRefs_render g hgwf, hgs]; rfl
        have hpr : ('$' :: rest) ∈ pendRefs c.exprs := mem_pendRefs.mpr ⟨e, he, by rw [hfr]; exact List.mem_cons_self⟩
        obtain ⟨w, hw, _, hkey⟩ := pend_ref_key P N hpr
        cases hw
        exact key_not_sub P N hkey hK
      · rw [afterD_of_head hch] at hword
        exact allWord_noD hword hd

/-- off the sub-dict keys, the variable table of the tree is the variable table of the leaf list -/
theorem agree_ok (n : Str) (hn : Key.str n ∉ dictKeys s.data) :
    getVar n (varsEs c.exprs c.data []) = getVar n (varsEs c.exprs (flatEs c.data) []) :=
  getVar_tree c.exprs n c.data N.side.tree (by rw [N.side.dkeys]; exact hn)

/-- **`resolveRef` on the tree is `resolveRef` on the leaf list**, with the same fuel -/
theorem resolve_eq (x : Str) (hx : Key.str (refName x) ∉ dictKeys s.data) (f : Nat) :
    resolveRef (varsEs c.exprs c.data []) f [] x = resolveRef (varsEs c.exprs (flatEs c.data) []) f [] x := by
  have hV := varsF_ok P N
  exact ((resolveRef_avoid (varsEs c.exprs c.data []) (varsEs c.exprs (flatEs c.data) [])
    (fun n => Key.str n ∈ dictKeys s.data) (agree_ok P N)
    (fun f vis x v h => (resolveRef_sound hV f vis x v h).1)
    (fun n t _ hg hc => closure_ok P N n t hg hc)) f).1 [] x hx

theorem varsF_vals (n : Str) (v0 : Val) (hg : getVar n (varsEs c.exprs (flatEs c.data) []) = some v0) :
    v0.isLeaf = true ∧ valNlb v0 = true := by
  have hV := varsF_ok P N
  rcases hV.v1 n _ hg with ho | ⟨g, hp, hv0⟩
  · obtain ⟨x, rfl, _⟩ := okVal_leaf (hV.ord_ok _ _ ho)
    exact ⟨rfl, N.side.vals_nlb _ (lookup_mem ho.1)⟩
  · obtain ⟨_, e, he, _, hre⟩ := hp
    subst hv0
    exact ⟨rfl, valNlb_str.mpr (by rw [hre]; exact N.side.expr_nlb e he)⟩

/-- what `resolveAll` returns on the tree -/
theorem resolvedN {R : List (Str × Val)} {nr : Nat} (h : resolveAll c.exprs c.data = .ok (R, nr)) :
    RSound ev (flatSD s) R ∧ RNlb R ∧
    (∀ r ∈ pendRefs c.exprs, unresIn R r = !isRes (varsEs c.exprs c.data []) r) ∧
    nr = ((pendRefs c.exprs).filter fun r => !isRes (varsEs c.exprs c.data []) r).length := by
  obtain ⟨hR, hnr⟩ := resolveAll_ok h
  have hV := varsF_ok P N
  have key : ∀ r p, R.find? (fun p => p.1 == r) = some p →
      p.1 = r ∧ usable p.2 = true ∧
      resolveRef (varsEs c.exprs (flatEs c.data) []) ((varsEs c.exprs c.data []).length + 1) [] r = .val p.2 := by
    intro r p hp
    rw [hR, find_filterMap] at hp
    by_cases hm : r ∈ pendRefs c.exprs
    · rw [if_pos hm] at hp
      simp only [resEntry] at hp
      cases hrv : rvOf (varsEs c.exprs c.data []) r with
      | none => rw [hrv] at hp; cases hp
      | some v =>
        rw [hrv] at hp
        simp only at hp
        cases hu : usable v with
        | false => rw [hu] at hp; cases hp
        | true =>
          rw [hu] at hp
          simp only [if_true, Option.some.injEq] at hp
          subst hp
          obtain ⟨w, rfl, hww, hkey⟩ := pend_ref_key P N hm
          have hres := rvOf_val hrv
          rw [resolve_eq P N _ (by rw [refName_ref hww]; exact key_not_sub P N hkey)] at hres
          exact ⟨rfl, hu, hres⟩
    · rw [if_neg hm] at hp; cases hp
  refine ⟨?_, ?_, ?_, hnr⟩
  · intro r p hp
    obtain ⟨h1, hu, hres⟩ := key r p hp
    obtain ⟨hd, hsound⟩ := resolveRef_sound hV _ _ _ _ hres
    refine ⟨h1, ?_, hsound⟩
    cases hp2 : p.2 with
    | leaf x => rw [hp2] at hu hd; simp only [okVal, okScalar, hu, Bool.true_and]; exact hd
    | dict _ => rw [hp2] at hd; cases hd
    | list _ => rw [hp2] at hd; cases hd
  · intro r p hp
    obtain ⟨_, _, hres⟩ := key r p hp
    exact ((resolveRef_val_pred _ (fun v => valNlb v = true) (varsF_vals P N)) _).1 _ _ _ hres
  · intro r hr
    simp only [unresIn, hR, find_filterMap, hr, if_true, resEntry, isRes]
    cases rvOf (varsEs c.exprs c.data []) r with
    | none => rfl
    | some v => cases hu : usable v <;> simp [hu]

/-- a reference to a settled name is resolved, on the tree -/
theorem settledN {w : Str} {tw : Val} (ho : ordS (flatSt c) w tw) : isRes (varsEs c.exprs c.data []) ('$' :: w) = true := by
  have hV := varsF_ok P N
  have hgv := hV.v2 _ _ ho
  have hw := hV.word _ _ hgv
  have hkey : Key.str w ∈ keys (flatEs s.data) := by
    have : Key.str w ∈ keys (flatSt c).data := List.mem_map.mpr ⟨_, lookup_mem ho.1, rfl⟩
    rw [N.inv.keys_eq] at this
    exact this
  have hnk := key_not_sub P N hkey
  have hgvN : getVar w (varsEs c.exprs c.data []) = some tw := by rw [agree_ok P N w hnk]; exact hgv
  have hpos := varsEs_length_pos c.exprs w c.data tw hgvN
  obtain ⟨f, hf⟩ : ∃ f, (varsEs c.exprs c.data []).length + 1 = f + 2 := ⟨(varsEs c.exprs c.data []).length - 1, by omega⟩
  have h1 := resolve_eq P N ('$' :: w) (by rw [refName_ref hw]; exact hnk) (f + 2)
  rw [resolveRef_settled hV w tw ho f] at h1
  simp only [isRes, rvOf, hf, h1]
  exact okVal_usable ho.2

end nested


/-! ### progress and the loop, on the tree -/

section loop
variable {ev : Str → EvalResult} {s : SD} (P : Placed s)
include P

/-- while the entry of a good name is pending, the number of unresolved references decreases -/
theorem progress_notResN (rank : Str → Nat) (hrank : rankOk rank (flatSD s) = true) {c c1 : ExprSt}
    (N : NInv ev s c) (N1 : NInv ev s c1) {R R1 : List (Str × Val)} {nr nr1 : Nat}
    (hres : resolveAll c.exprs c.data = .ok (R, nr)) (hres1 : resolveAll c1.exprs c1.data = .ok (R1, nr1))
    (hfrom : ∀ a ∈ c1.exprs, FromEntry R (flatSt c) a) (hgp : ¬ NoGP ev (flatSD s) (flatSt c1)) : nr1 < nr := by
  have A := P.flat_ok
  obtain ⟨_, _, hun, hnr⟩ := resolvedN P N hres
  obtain ⟨_, _, _, hnr1⟩ := resolvedN P N1 hres1
  obtain ⟨g, hg, n, tv, hG, hl, hmin⟩ := exists_min_good rank hgp
  obtain ⟨hne, hsettled⟩ := N1.inv.min_settled A rank hrank hg hG hl hmin
  obtain ⟨u, hu⟩ : ∃ u, u ∈ findRefs g.2.expression := by
    cases hx : findRefs g.2.expression with
    | nil => exact absurd hx hne
    | cons u _ => exact ⟨u, List.mem_cons_self⟩
  obtain ⟨w, tw, rfl, ho⟩ := hsettled u hu
  have hres_u : isRes (varsEs c1.exprs c1.data []) ('$' :: w) = true := settledN P N1 ho
  have hback : ∀ a ∈ c1.exprs, ∀ x ∈ findRefs a.2.expression,
      x ∈ (pendRefs c.exprs).filter fun r => !isRes (varsEs c.exprs c.data []) r := by
    intro a ha x hx
    obtain ⟨b, hb, _, _, hrefs⟩ := hfrom a ha
    rw [hrefs, List.mem_filter] at hx
    have hp : x ∈ pendRefs c.exprs := mem_pendRefs.mpr ⟨b, hb, hx.1⟩
    rw [List.mem_filter]
    exact ⟨hp, by rw [← hun x hp]; exact hx.2⟩
  rw [hnr, hnr1]
  apply nodup_subset_length_lt' _ _ ('$' :: w)
  · exact (pendRefs_nodup _).filter _
  · intro x hx
    rw [List.mem_filter] at hx
    obtain ⟨a, ha, hxa⟩ := mem_pendRefs.mp hx.1
    exact hback a ha x hxa
  · exact hback g hg _ hu
  · intro hm
    rw [List.mem_filter, hres_u] at hm
    cases hm.2

/-- while the entry of a good name is pending, a pass shortens the table -/
theorem progress_lengthN (rank : Str → Nat) (hrank : rankOk rank (flatSD s) = true) {c c1 : ExprSt}
    (N : NInv ev s c) (N1 : NInv ev s c1) {R : List (Str × Val)} {nr : Nat}
    (hres : resolveAll c.exprs c.data = .ok (R, nr))
    (hfrom : ∀ a ∈ c1.exprs, FromEntry R (flatSt c) a)
    (hready : ∀ b ∈ c.exprs, Ready ev (flatSD s) R b → ∀ a ∈ c1.exprs, a.1 ≠ b.1)
    (hgp : ¬ NoGP ev (flatSD s) (flatSt c1)) : c1.exprs.length < c.exprs.length := by
  have A := P.flat_ok
  obtain ⟨_, _, hun, _⟩ := resolvedN P N hres
  have hgp0 : ¬ NoGP ev (flatSD s) (flatSt c) := by
    intro h0
    apply hgp
    intro a ha hgood
    obtain ⟨b, hb, _, hnm, _⟩ := hfrom a ha
    exact h0 b hb (hnm ▸ hgood)
  obtain ⟨m, hm, n, tv, hG, hl, hmin⟩ := exists_min_good rank hgp0
  obtain ⟨_, hsettled⟩ := N.inv.min_settled A rank hrank hm hG hl hmin
  have hrd : Ready ev (flatSD s) R m := by
    refine ⟨⟨n, tv, hG, hl⟩, ?_⟩
    intro r hr
    obtain ⟨w, tw, rfl, ho⟩ := hsettled r hr
    have hp : ('$' :: w) ∈ pendRefs c.exprs := mem_pendRefs.mpr ⟨m, hm, hr⟩
    have h1 := hun _ hp
    rw [settledN P N ho] at h1
    simp only [unresIn, Bool.not_true] at h1
    cases hx : R.find? (fun p => p.1 == '$' :: w) with
    | none => rw [hx] at h1; cases h1
    | some _ => rfl
  have hgone := hready m hm hrd
  have := nodup_subset_length_lt' (c1.exprs.map (·.1)) (c.exprs.map (·.1)) m.1 N1.inv.ids_nodup
    (fun x hx => by
      obtain ⟨a, ha, rfl⟩ := List.mem_map.mp hx
      obtain ⟨b, hb, hid, _, _⟩ := hfrom a ha
      exact List.mem_map.mpr ⟨b, hb, hid⟩)
    (List.mem_map.mpr ⟨m, hm, rfl⟩)
    (fun hx => by
      obtain ⟨a, ha, hid⟩ := List.mem_map.mp hx
      exact hgone a ha hid)
  simpa using this

/-- the loop on the tree keeps the invariant and ends with no entry of a good name pending -/
theorem loop_invN (E : EvOK ev) (EL : EvNlb ev) (rank : Str → Nat) (hrank : rankOk rank (flatSD s) = true) :
    ∀ (f : Nat) (c c' : ExprSt) (R : List (Str × Val)) (nr : Nat), NInv ev s c →
      resolveAll c.exprs c.data = .ok (R, nr) → evalExpressions.loop ev f c R nr = .ok c' →
      NInv ev s c' ∧ ((NoGP ev (flatSD s) (flatSt c) ∨ c.exprs.length < f) → NoGP ev (flatSD s) (flatSt c'))
  | 0, c, c', R, nr, N, _, h => by
    rw [evalExpressions.loop.eq_1] at h
    cases h
    refine ⟨N, fun hc => ?_⟩
    rcases hc with h | h
    · exact h
    · cases h
  | f + 1, c, c', R, nr, N, hres, h => by
    have A := P.flat_ok
    rw [evalExpressions.loop.eq_2] at h
    simp only [bind, Except.bind] at h
    cases hp : evalPass ev R c with
    | error x => rw [hp] at h; cases h
    | ok c1 =>
      rw [hp] at h
      simp only at h
      cases hres1 : resolveAll c1.exprs c1.data with
      | error x => rw [hres1] at h; cases h
      | ok p =>
        obtain ⟨R1, nr1⟩ := p
        rw [hres1] at h
        simp only at h
        obtain ⟨hRs, hRn, _, _⟩ := resolvedN P N hres
        rw [evalPass_eq] at hp
        obtain ⟨hflat, S1⟩ := fold_sim ev R s.data EL hRn c.exprs c c1 N.side N.side.expr_nlb hp
        have hflat' : evalPass ev R (flatSt c) = .ok (flatSt c1) := by rw [evalPass_eq]; exact hflat
        obtain ⟨I1, hfrom, hready⟩ := evalPass_inv A E hRs N.inv hflat'
        have N1 : NInv ev s c1 := ⟨I1, S1⟩
        have hkeep : NoGP ev (flatSD s) (flatSt c) → NoGP ev (flatSD s) (flatSt c1) := by
          intro h0 a ha hgood
          obtain ⟨b, hb, _, hnm, _⟩ := hfrom a ha
          exact h0 b hb (hnm ▸ hgood)
        split at h
        · rename_i hlt
          obtain ⟨N', himp⟩ := loop_invN E EL rank hrank f c1 c' R1 nr1 N1 hres1 h
          refine ⟨N', fun hc => himp ?_⟩
          rcases hc with h0 | hlen
          · exact Or.inl (hkeep h0)
          · by_cases hg1 : NoGP ev (flatSD s) (flatSt c1)
            · exact Or.inl hg1
            · right
              have := progress_lengthN P rank hrank N N1 hres hfrom hready hg1
              omega
        · rename_i hnlt
          simp only [pure, Except.pure, Except.ok.injEq] at h
          subst h
          refine ⟨N1, fun _ => ?_⟩
          apply Classical.byContradiction
          intro hg1
          exact hnlt (progress_notResN P rank hrank N N1 hres hres1 hfrom hg1)

end loop

/-- the final write-back of the pending texts, on the tree and on its leaf list -/
theorem final_sim : ∀ (L : List (Nat × ExprEntry)) (T T' : Entries), treeEs T = true →
    L.foldlM (fun d e => substLeafEs e.2.name (.str e.2.expression) 1 d) T = .ok T' →
    L.foldlM (fun d e => substLeafEs e.2.name (.str e.2.expression) 1 d) (flatEs T) = .ok (flatEs T') ∧
      treeEs T' = true ∧ skel T' = skel T
  | [], T, T', ht, h => by
    simp only [List.foldlM_nil, pure, Except.pure, Except.ok.injEq] at h
    subst h
    exact ⟨rfl, ht, rfl⟩
  | e :: L, T, T', ht, h => by
    rw [List.foldlM_cons] at h ⊢
    simp only [bind, Except.bind] at h ⊢
    cases hs : substLeafEs e.2.name (.str e.2.expression) 1 T with
    | error x => rw [hs] at h; cases h
    | ok T1 =>
      rw [hs] at h
      simp only at h
      have hd := substLeafEs_tree _ _ T 1 T1 ht hs
      obtain ⟨m1, m2, m3, _⟩ := mapLeaves_spec (updV e.2.name (.leaf (.str e.2.expression))) (updV_isLeaf _ rfl) T ht
      subst hd
      rw [substLeafEs_flat _ _ _ (flatEs_leaf T ht)]
      simp only
      obtain ⟨i1, i2, i3⟩ := final_sim L _ T' m2 h
      refine ⟨?_, i2, i3.trans m3⟩
      rw [← i1, m1]
      rfl

/-! ### indexed references -/

/-- the text `[i][j]…` of an index path -/
def idxText : List Nat → Str
  | [] => []
  | i :: r => '[' :: (natDigits i ++ ']' :: idxText r)

theorem digit_facts : ∀ c, C04.IsAsciiDigit c → c ≠ ']' ∧ c ≠ '\n' ∧ c ≠ '[' ∧ isWordChar c = true := by
  unfold C04.IsAsciiDigit
  decide +kernel

theorem natDigits_chars (i : Nat) : ∀ c ∈ natDigits i, c ≠ ']' ∧ c ≠ '\n' ∧ c ≠ '[' ∧ isWordChar c = true :=
  fun c hc => digit_facts c (C04.natDigits_ascii i c hc)

theorem parseIndexingFuel_idxText : ∀ (path : List Nat) (f : Nat), (idxText path).length + 1 ≤ f →
    parseIndexingFuel f (idxText path) = some (path.map Int.ofNat)
  | [], f, hf => by
    obtain ⟨f', rfl⟩ : ∃ f', f = f' + 1 := ⟨f - 1, by simp [idxText] at hf; omega⟩
    simp [idxText, parseIndexingFuel]
  | i :: r, f, hf => by
    obtain ⟨f', rfl⟩ : ∃ f', f = f' + 1 := ⟨f - 1, by omega⟩
    have hch := natDigits_chars i
    obtain ⟨h1, h2⟩ := takeWhile_stop (· != ']') (natDigits i) (']' :: idxText r)
      (fun x hx => by simpa using (hch x hx).1) (by simp [headFails])
    have hlit : isIntLit (natDigits i) = true := C04.isIntLit_iff.mpr (C04.intRepr_isIntLit (Int.ofNat i))
    have hval : intOfLit (natDigits i) = Int.ofNat i := C04.intOfLit_intRepr (Int.ofNat i)
    have hnl : (natDigits i).contains '\n' = false := by
      cases hc : (natDigits i).contains '\n' with
      | false => rfl
      | true =>
        have : '\n' ∈ natDigits i := by simpa using hc
        exact absurd rfl (hch _ this).2.1
    have ih := parseIndexingFuel_idxText r f' (by simp only [idxText, List.length_cons, List.length_append] at hf; omega)
    simp only [idxText, parseIndexingFuel, h1, h2, hlit, hnl, ih, hval]
    simp

theorem parseIndexing_idxText (path : List Nat) : parseIndexing (idxText path) = some (path.map Int.ofNat) :=
  parseIndexingFuel_idxText path _ (Nat.le_refl _)

theorem getLast?_mid (b : Char) (c : Str) : ∀ a : Str, (a ++ b :: c).getLast? = (b :: c).getLast?
  | [] => rfl
  | x :: a => by
    have ih := getLast?_mid b c a
    cases h : a ++ b :: c with
    | nil => simp at h
    | cons y l =>
      rw [List.cons_append, h, List.getLast?_cons_cons, ← h, ih]

theorem idxText_shape : ∀ (path : List Nat), path ≠ [] →
    (idxText path).length ≥ 3 ∧ (idxText path).getLast? = some ']' ∧ (idxText path).head? = some '['
  | [], h => absurd rfl h
  | [i], _ => by
    have : 1 ≤ (natDigits i).length := List.length_pos_iff.mpr (C04.natDigits_ne_nil i)
    refine ⟨by simp only [idxText, List.length_cons, List.length_append, List.length_nil]; omega, ?_, rfl⟩
    exact getLast?_mid ']' [] ('[' :: natDigits i)
  | i :: j :: r, _ => by
    obtain ⟨h1, h2, _⟩ := idxText_shape (j :: r) (by simp)
    rw [idxText]
    refine ⟨by simp only [List.length_cons, List.length_append]; omega, ?_, rfl⟩
    cases hx : idxText (j :: r) with
    | nil => rw [hx] at h1; simp at h1
    | cons y l =>
      rw [hx] at h2
      have := getLast?_mid y l ('[' :: (natDigits i ++ [']']))
      simp only [List.cons_append, List.append_assoc, List.nil_append] at this
      rw [this, h2]

theorem follow_plain (vars : List (Str × Val)) (f : Nat) (vis : List Str) (v : Val) (last : Str)
    (hv : anyStrLeafV (·.contains '$') v = false) : (resolveRef.follow vars (f + 1) vis v last).1 = .val v := by
  rw [follow_succ]
  cases v with
  | leaf y =>
    cases y with
    | str t =>
      have : ¬ (t.contains '$' = true) := by simpa [anyStrLeafV] using hv
      simp only
      rw [if_neg this]
    | int _ => rfl
    | float _ => rfl
    | bool _ => rfl
    | none => rfl
  | dict d => simp only [hv]; rfl
  | list xs => simp only [hv]; rfl

/-- the shape of an indexed reference: name and index text -/
theorem indexed_parts (l : Str) (path : List Nat) (hl : l.all isWordChar = true) (hp : path ≠ []) :
    refName ('$' :: (l ++ idxText path)) = l ∧ idxOf ('$' :: (l ++ idxText path)) = some (idxText path) := by
  obtain ⟨h1, h2, h3⟩ := idxText_shape path hp
  have hnl : ∀ x ∈ l, (x != '[') = true := by
    intro x hx
    have : x ≠ '[' := fun e => allWord_noLb hl (e ▸ hx)
    simpa using this
  have hhead : headFails (· != '[') (idxText path) = true := by
    cases hx : idxText path with
    | nil => rfl
    | cons c r => rw [hx] at h3; cases h3; simp [headFails]
  obtain ⟨t1, t2⟩ := takeWhile_stop (· != '[') l (idxText path) hnl hhead
  refine ⟨?_, ?_⟩
  · rw [refName_eq]; exact t1
  · simp only [idxOf, afterD, t2, h2]
    have : decide (List.length (idxText path) ≥ 3) = true := by simpa using h1
    simp [this]

/-- **`C05_indexed`** (at `_resolve_reference`): the reference `$l[i][j]…` to a variable `l` whose value carries no `$`
    resolves to the addressed element `indexVal v [i, j, …]` when the index path is in range, and -- the exception of
    `eval("value[i]…")` being suppressed -- to the whole value when it is not -/
theorem resolveRef_indexed (vars : List (Str × Val)) (l : Str) (v : Val) (path : List Nat) (f : Nat)
    (hl : l.all isWordChar = true) (hg : getVar l vars = some v)
    (hv : anyStrLeafV (·.contains '$') v = false) (hp : path ≠ []) :
    resolveRef vars (f + 2) [] ('$' :: (l ++ idxText path)) =
      .val (match indexVal v (path.map Int.ofNat) with | some x => x | none => v) := by
  obtain ⟨hn, hi⟩ := indexed_parts l path hl hp
  obtain ⟨h1, _, _⟩ := idxText_shape path hp
  have hne : (idxText path).isEmpty = false := by
    cases hx : idxText path with
    | nil => rw [hx] at h1; simp at h1
    | cons _ _ => rfl
  rw [resolveRef_succ, hi, hn]
  simp only [List.contains_nil, Bool.false_eq_true, if_false, hg, follow_plain vars f _ v l hv, hne,
    parseIndexing_idxText]
  cases indexVal v (path.map Int.ofNat) <;> rfl

theorem indexVal_nil (v : Val) : indexVal v [] = some v := by
  cases v <;> simp [indexVal]

theorem indexVal_cons_in (xs : List Val) (i : Nat) (r : List Int) (x : Val) (h : xs[i]? = some x) :
    indexVal (.list xs) (Int.ofNat i :: r) = indexVal x r := by
  have hlt : i < xs.length := by
    apply Classical.byContradiction
    intro hn
    rw [List.getElem?_eq_none (by omega)] at h
    cases h
  have hp : pyIndex xs.length (Int.ofNat i) = some i := by
    simp only [pyIndex, Int.ofNat_eq_natCast, Int.natCast_nonneg, if_true, Int.toNat_natCast, hlt]
  rw [indexVal, hp]
  simp only [h]

theorem indexVal_cons_out (xs : List Val) (i : Nat) (r : List Int) (h : xs.length ≤ i) :
    indexVal (.list xs) (Int.ofNat i :: r) = none := by
  have hp : pyIndex xs.length (Int.ofNat i) = none := by
    have : ¬ i < xs.length := by omega
    simp only [pyIndex, Int.ofNat_eq_natCast, Int.natCast_nonneg, if_true, Int.toNat_natCast, this, if_false]
  rw [indexVal, hp]

theorem idxText_chars : ∀ (path : List Nat), ∀ c ∈ idxText path, isRefChar c = true ∧ isWs c = false
  | [], c, hc => by simp [idxText] at hc
  | i :: r, c, hc => by
    simp only [idxText, List.mem_cons, List.mem_append] at hc
    rcases hc with rfl | hc | rfl | hc
    · exact ⟨by simp [isRefChar], by decide⟩
    · have := (natDigits_chars i c hc).2.2.2
      exact ⟨isRefChar_of_word this, word_not_ws c this⟩
    · exact ⟨by simp [isRefChar], by decide⟩
    · exact idxText_chars r c hc

/-- the text `$l[i][j]…` is one reference, and nothing else -/
theorem findRefs_indexed (c : Char) (l : Str) (path : List Nat) (hc : isWordChar c = true) (hl : l.all isWordChar = true) :
    findRefs ('$' :: c :: (l ++ idxText path)) = ['$' :: c :: (l ++ idxText path)] ∧
    strip ('$' :: c :: (l ++ idxText path)) = '$' :: c :: (l ++ idxText path) := by
  have hall : ∀ x ∈ l ++ idxText path, isRefChar x = true ∧ isWs x = false := by
    intro x hx
    rcases List.mem_append.mp hx with hx | hx
    · have := List.all_eq_true.mp hl x hx
      exact ⟨isRefChar_of_word this, word_not_ws x this⟩
    · exact idxText_chars path x hx
  constructor
  · obtain ⟨t1, t2⟩ := takeWhile_stop isRefChar (l ++ idxText path) [] (fun x hx => (hall x hx).1) rfl
    simp only [List.append_nil] at t1 t2
    have hf : findRef ('$' :: c :: (l ++ idxText path)) = some ([], '$' :: c :: (l ++ idxText path), []) := by
      rw [findRef]
      simp only [hc, if_true, t1, t2]
    simp only [findRefs, List.length_cons, findRefsFuel, hf]
    cases (l ++ idxText path).length + 1 <;> simp [findRef]
  · apply strip_id
    intro x hx
    rcases List.mem_cons.mp hx with rfl | hx
    · exact isWs_dollar
    · rcases List.mem_cons.mp hx with rfl | hx
      · exact word_not_ws _ hc
      · exact (hall x hx).2


/-! ## property theorems -/


/-- **`variables_nested`** the variable table `evalExpressions` uses, for every dictionary (nested dicts, lists with and
    without dicts, at any depth): the name `n` holds what the *last* assignment to `n` in the order `declsEs` stored
    (`assigned`: the value itself; for a string the pending expression text in place of its placeholder; nothing for an
    integer key or a string that refers to its own key).  In particular a later declaration wins over an earlier one,
    a deeper one over an earlier shallower one, and the key of a dict over every declaration inside that dict. -/
theorem variables_nested (exprs : Tbl ExprEntry) (es : Entries) (n : Str) :
    getVar n (varsEs exprs es []) = lastDecl exprs n (declsEs es) := by
  rw [varsEs_eq, getVar_assignAll]
  cases lastDecl exprs n (declsEs es) <;> rfl

/-- `n` is declared exactly once in the tree, with the value `v` (at any depth, as a leaf, a list or a dict) -/
def DeclaredOnce (n : Str) (v : Val) (es : Entries) : Prop :=
  (declsEs es).filter (fun d => d.1 == Key.str n) = [(Key.str n, v)]

instance (n : Str) (v : Val) (es : Entries) : Decidable (DeclaredOnce n v es) := by
  unfold DeclaredOnce; infer_instance

/-- a name declared exactly once holds the value of that declaration, wherever it stands -/
theorem variables_nested_once (exprs : Tbl ExprEntry) (es : Entries) (n : Str) (v : Val) (h : DeclaredOnce n v es) :
    getVar n (varsEs exprs es []) = (assigned exprs (.str n) v).map (·.2) := by
  rw [variables_nested, lastDecl_filter, h]
  simp only [lastDecl]
  cases ha : assigned exprs (.str n) v with
  | none => rfl
  | some p =>
    have := assigned_key ha
    simp only [Key.str.injEq] at this
    simp [this]

/-- **`C05_placement_independent_vars`** two dictionaries of any shape in which `n` is declared exactly once, with the
    same value: the variable tables agree at `n` -- the depth and the position of the declaration do not matter -/
theorem C05_placement_independent_vars (exprs : Tbl ExprEntry) (es1 es2 : Entries) (n : Str) (v : Val)
    (h1 : DeclaredOnce n v es1) (h2 : DeclaredOnce n v es2) :
    getVar n (varsEs exprs es1 []) = getVar n (varsEs exprs es2 []) := by
  rw [variables_nested_once exprs es1 n v h1, variables_nested_once exprs es2 n v h2]

/-- an ordinary scalar (no `$`, no placeholder word) declared once under a name that is no comment placeholder is the
    value of the variable -/
theorem variables_nested_scalar (exprs : Tbl ExprEntry) (es : Entries) (n : Str) (v : Val) (h : DeclaredOnce n v es)
    (hv : okVal v = true) (hn : isPhKey n = false) : getVar n (varsEs exprs es []) = some v := by
  rw [variables_nested_once exprs es n v h]
  obtain ⟨x, rfl, _⟩ := okVal_leaf hv
  have hs := skipVar_ok exprs hv hn
  have hvv := varVal_ok exprs hv
  cases x with
  | str t =>
    simp only [skipVar] at hs
    simp only [varVal, Val.leaf.injEq, Scalar.str.injEq] at hvv
    rw [hvv] at hs
    simp [assigned, hs, hvv]
  | int _ => rfl
  | float _ => rfl
  | bool _ => rfl
  | none => rfl

/-- **`C05_placement_independent`**  Let `s` be any tree of nested dicts (`Placed s`): its leaf declarations, read as one
    flat dictionary `flatSD s`, form an acyclic reference graph in the domain of `C05_complete_acyclic'`; the sub-dict
    keys are words and no declared names; no `[` in texts and scalars.  If `evalExpressions` succeeds on the tree then
    no expression is left pending, the tree has its shape (keys and nesting) unchanged, and every declaration, wherever
    it was placed, holds the value the *flat* topological specification gives it -- the same value as in
    `C05_complete_acyclic'` for the flat dictionary. -/
theorem C05_placement_independent (ev : Str → EvalResult) (s s' : SD) (E : EvOK ev) (EL : EvNlb ev) (P : Placed s)
    (h : evalExpressions ev s = .ok s') :
    s'.exprs = [] ∧ skel s'.data = skel s.data ∧ keys (flatEs s'.data) = keys (flatEs s.data) ∧
    ∀ name v, topoVal ev (flatSD s) ((flatEs s.data).length + 1) name = some v →
      lookup (.str name) (flatEs s'.data) = some v := by
  refine ⟨evalExpressions_exprs_nil ev s s' h, ?_⟩
  have A := P.flat_ok
  obtain ⟨rank, hrank⟩ := A.base.acyclic
  rw [evalExpressions.eq_1] at h
  simp only [bind, Except.bind] at h
  cases hres : resolveAll s.exprs s.data with
  | error x => rw [hres] at h; cases h
  | ok p =>
    obtain ⟨R, nr⟩ := p
    rw [hres] at h
    simp only at h
    cases hloop : evalExpressions.loop ev (s.exprs.length + 2) ⟨s.data, s.exprs⟩ R nr with
    | error x => rw [hloop] at h; cases h
    | ok st =>
      rw [hloop] at h
      simp only at h
      cases hfin : st.exprs.foldlM (fun d e => substLeafEs e.2.name (.str e.2.expression) 1 d) st.data with
      | error x => rw [hfin] at h; cases h
      | ok d =>
        rw [hfin] at h
        simp only [pure, Except.pure, Except.ok.injEq] at h
        subst h
        have N0 : NInv ev s ⟨s.data, s.exprs⟩ :=
          ⟨Inv.init A, ⟨P.tree, rfl, rfl, P.expr_nlb, P.vals_nlb⟩⟩
        obtain ⟨N, hno⟩ := loop_invN P E EL rank hrank _ _ st R nr N0 hres hloop
        have hnoGP : NoGP ev (flatSD s) (flatSt st) := hno (Or.inr (by simp only; omega))
        obtain ⟨f1, _, f3⟩ := final_sim st.exprs st.data d N.side.tree hfin
        have I := N.inv
        obtain ⟨hk, hkeep⟩ := final_fold A I st.exprs (flatEs st.data) (flatEs d) (fun e he => he)
          (fun x hx => ((I.flat A).2 x hx).2) f1
        refine ⟨f3.trans N.side.skel_eq, by simp only; rw [hk]; exact I.keys_eq, ?_⟩
        intro name v hv
        have hG : Good ev (flatSD s) name v := hv
        simp only
        obtain ⟨vs, hls, hcase⟩ := hG.unfold
        rcases hcase with ⟨hnone, rfl⟩ | ⟨ex, hex, _⟩
        · obtain ⟨hl, hok⟩ := I.ord_val A hls hnone
          exact hkeep _ _ hl hok
        · obtain ⟨e0, he0, rfl, _⟩ := exprOf_some hex
          rcases I.good name v hG e0 he0 hls with ⟨hl, hok⟩ | ⟨σ, _, _, hmem, _⟩
          · exact hkeep _ _ hl hok
          · exact absurd ⟨name, v, hG, hls⟩ (hnoGP _ hmem)


/-! ### permutations of the declarations: the domain of `C05_complete_acyclic'` is closed under them -/

theorem exprOf_congr {g g' : SD} (he : g'.exprs = g.exprs) (v : Val) : exprOf g' v = exprOf g v := by
  cases v with
  | leaf x => cases x <;> simp [exprOf, he]
  | dict _ => rfl
  | list _ => rfl

theorem lookup_perm {es es' : Entries} (hn : (keys es).Nodup) (hp : es'.Perm es) (k : Key) :
    lookup k es' = lookup k es := by
  have hn' : (keys es').Nodup := (hp.map (·.1)).nodup_iff.mpr hn
  cases h : lookup k es with
  | none =>
    rw [lookup_none_iff] at h ⊢
    intro hm
    exact h ((hp.map (·.1)).mem_iff.mp hm)
  | some v => exact mem_lookup hn' (hp.mem_iff.mpr (lookup_mem h))

theorem acyclicFlat'_perm {g g' : SD} (hd : g'.data.Perm g.data) (he : g'.exprs = g.exprs) (A : AcyclicFlat' g) :
    AcyclicFlat' g' := by
  have hm : ∀ d, d ∈ g'.data ↔ d ∈ g.data := fun d => hd.mem_iff
  have hl := lookup_perm A.base.keys_nodup hd
  refine ⟨⟨?_, ?_, ?_, ?_, ?_, ?_, ?_, ?_⟩, ?_, ?_, ?_, ?_, ?_⟩
  · exact (hd.map (·.1)).nodup_iff.mpr A.base.keys_nodup
  · exact fun d hd' => A.base.flat d ((hm d).mp hd')
  · rw [he]; exact A.base.ids_nodup
  · rw [he]; exact A.base.names
  · rw [he]; intro e hee
    rw [(hd.filter _).length_eq]
    exact A.base.placed e hee
  · intro d hd' hx
    rw [exprOf_congr he] at hx
    exact A.base.plain_usable d ((hm d).mp hd') hx
  · rw [he]; intro e hee r hr
    rw [hl]
    exact A.base.refs_ok e hee r hr
  · obtain ⟨rank, hr⟩ := A.base.acyclic
    refine ⟨rank, ?_⟩
    simp only [rankOk, List.all_eq_true] at hr ⊢
    intro d hd'
    have := hr d ((hm d).mp hd')
    rw [exprOf_congr he]
    exact this
  · rw [he]; exact A.ids_small
  · exact fun d hd' => A.keys_words d ((hm d).mp hd')
  · exact fun d hd' => A.no_ph_keys d ((hm d).mp hd')
  · intro d hd'
    have := A.vals_text d ((hm d).mp hd')
    simp only [valText] at this ⊢
    rw [exprOf_congr he]
    exact this
  · rw [he]; exact A.expr_wf

/-- the topological specification does not depend on the order of the declarations -/
theorem topoVal_perm (ev : Str → EvalResult) {g g' : SD} (hn : (keys g.data).Nodup) (hd : g'.data.Perm g.data)
    (he : g'.exprs = g.exprs) : ∀ (fuel : Nat) (name : Str), topoVal ev g' fuel name = topoVal ev g fuel name
  | 0, _ => rfl
  | fuel + 1, name => by
    have ih : topoVal ev g' fuel = topoVal ev g fuel := funext (topoVal_perm ev hn hd he fuel)
    rw [topoVal_succ, topoVal_succ, lookup_perm hn hd, ih]
    cases lookup (Key.str name) g.data with
    | none => rfl
    | some v => simp only [exprOf_congr he]

/-- **order of declaration**: `C05_complete_acyclic'` already covers every permutation -- its domain `AcyclicFlat'` is
    closed under permuting the declarations (`acyclicFlat'_perm`) and its specification `topoVal` does not depend on
    the order (`topoVal_perm`); so a flat dictionary and any reordering of it give every name the same value -/
theorem C05_order_independent (ev : Str → EvalResult) (g g' r r' : SD) (E : EvOK ev) (A : AcyclicFlat' g)
    (hd : g'.data.Perm g.data) (he : g'.exprs = g.exprs)
    (h : evalExpressions ev g = .ok r) (h' : evalExpressions ev g' = .ok r') :
    ∀ name v, topoVal ev g (g.data.length + 1) name = some v →
      lookup (.str name) r.data = some v ∧ lookup (.str name) r'.data = some v := by
  intro name v hv
  refine ⟨(C05_complete_acyclic' ev g r E A h).2.2 name v hv, ?_⟩
  apply (C05_complete_acyclic' ev g' r' E (acyclicFlat'_perm hd he A) h').2.2 name v
  rw [hd.length_eq, topoVal_perm ev A.base.keys_nodup hd he]
  exact hv

/-- no index bracket in the expression texts and in the scalars of a flat graph -/
structure NoBracket (g : SD) : Prop where
  expr_nlb : ∀ e ∈ g.exprs, '[' ∉ e.2.expression
  vals_nlb : ∀ d ∈ g.data, valNlb d.2 = true

/-- **a placement of the flat graph `g`**: `s` is a tree of nested dicts whose leaves are the declarations of `g`, each
    once, in any order and at any depth; the keys of the nested dicts are words (or integers) and none of them is a
    name of `g` (so none is referenced); the expression table is that of `g` -/
structure Placement (g s : SD) : Prop where
  tree : treeEs s.data = true
  sub_words : ∀ k ∈ dictKeys s.data, keyWord k = true
  sub_fresh : ∀ k ∈ dictKeys s.data, k ∉ keys g.data
  leaves : (flatEs s.data).Perm g.data
  exprs_eq : s.exprs = g.exprs

theorem Placement.placed {g s : SD} (A : AcyclicFlat' g) (B : NoBracket g) (Pl : Placement g s) : Placed s where
  tree := Pl.tree
  sub_words := Pl.sub_words
  sub_fresh := fun k hk hm => Pl.sub_fresh k hk ((Pl.leaves.map (·.1)).mem_iff.mp hm)
  flat_ok := acyclicFlat'_perm (g' := flatSD s) Pl.leaves Pl.exprs_eq A
  expr_nlb := by rw [Pl.exprs_eq]; exact B.expr_nlb
  vals_nlb := fun d hd => B.vals_nlb d (Pl.leaves.mem_iff.mp hd)

/-- **`C05_placement_independent`, in terms of the flat graph**: for every flat acyclic graph `g` in the domain of
    `C05_complete_acyclic'` (without index brackets) and EVERY placement `s` of its declarations into a tree of nested
    dicts -- any permutation, any depth, any distribution -- a successful `evalExpressions` on `s` leaves no expression
    pending, keeps the shape of the tree, and gives every declaration the value `topoVal ev g` of the flat
    specification: the value `C05_complete_acyclic'` gives it in the flat dictionary `g`. -/
theorem C05_placement_independent_graph (ev : Str → EvalResult) (g s s' : SD) (E : EvOK ev) (EL : EvNlb ev)
    (A : AcyclicFlat' g) (B : NoBracket g) (Pl : Placement g s) (h : evalExpressions ev s = .ok s') :
    s'.exprs = [] ∧ skel s'.data = skel s.data ∧
    ∀ name v, topoVal ev g (g.data.length + 1) name = some v → lookup (.str name) (flatEs s'.data) = some v := by
  obtain ⟨h1, h2, _, h4⟩ := C05_placement_independent ev s s' E EL (Pl.placed A B) h
  refine ⟨h1, h2, fun name v hv => h4 name v ?_⟩
  have := topoVal_perm ev (g' := flatSD s) A.base.keys_nodup Pl.leaves Pl.exprs_eq (g.data.length + 1) name
  rw [Pl.leaves.length_eq, this]
  exact hv

/-- the tree and the flat dictionary of its leaves, both evaluated: every name to which the specification gives a
    value holds the same value in both results -/
theorem C05_placed_eq_flat (ev : Str → EvalResult) (s s' sF : SD) (E : EvOK ev) (EL : EvNlb ev) (P : Placed s)
    (h : evalExpressions ev s = .ok s') (hF : evalExpressions ev (flatSD s) = .ok sF) :
    ∀ name v, topoVal ev (flatSD s) ((flatEs s.data).length + 1) name = some v →
      lookup (.str name) (flatEs s'.data) = some v ∧ lookup (.str name) sF.data = some v :=
  fun name v hv => ⟨(C05_placement_independent ev s s' E EL P h).2.2.2 name v hv,
    (C05_complete_acyclic' ev (flatSD s) sF E P.flat_ok hF).2.2 name v hv⟩

theorem natDigits_nlb (n : Nat) : '[' ∉ natDigits n := by
  intro h
  have := C04.natDigits_ascii n _ h
  revert this
  unfold C04.IsAsciiDigit
  decide

theorem evNlb_evalInt : EvNlb evalInt := by
  intro t x h
  rcases evalInt_cases t with ⟨z, hz⟩ | hu
  · rw [hz] at h
    cases h
    simp only [valNlb, pyStrScalar, Bool.not_eq_true', List.contains_eq_mem, decide_eq_false_iff_not]
    cases z with
    | ofNat n => exact natDigits_nlb n
    | negSucc n =>
      simp only [intRepr, List.mem_cons, not_or]
      exact ⟨by decide, natDigits_nlb _⟩
  · rw [hu] at h; cases h


/-! ### indexed references: in range, out of range -/

/-- **`C05_indexed`** `$l[i]` for a list variable `l = xs` without `$` in it, `i` in range: the element `xs[i]` -/
theorem C05_indexed (vars : List (Str × Val)) (l : Str) (xs : List Val) (i : Nat) (x : Val) (f : Nat)
    (hl : l.all isWordChar = true) (hg : getVar l vars = some (.list xs))
    (hv : anyStrLeafXs (·.contains '$') xs = false) (hx : xs[i]? = some x) :
    resolveRef vars (f + 2) [] ('$' :: (l ++ idxText [i])) = .val x := by
  rw [resolveRef_indexed vars l (.list xs) [i] f hl hg (by simpa [anyStrLeafV] using hv) (by simp)]
  have h1 : indexVal (.list xs) ([i].map Int.ofNat) = some x := by
    rw [List.map_cons, List.map_nil, indexVal_cons_in xs i [] x hx, indexVal_nil]
  rw [h1]

/-- `$l[i][j]`: the element of the element -/
theorem C05_indexed2 (vars : List (Str × Val)) (l : Str) (xs ys : List Val) (i j : Nat) (y : Val) (f : Nat)
    (hl : l.all isWordChar = true) (hg : getVar l vars = some (.list xs))
    (hv : anyStrLeafXs (·.contains '$') xs = false) (hx : xs[i]? = some (.list ys)) (hy : ys[j]? = some y) :
    resolveRef vars (f + 2) [] ('$' :: (l ++ idxText [i, j])) = .val y := by
  rw [resolveRef_indexed vars l (.list xs) [i, j] f hl hg (by simpa [anyStrLeafV] using hv) (by simp)]
  have h1 : indexVal (.list xs) ([i, j].map Int.ofNat) = some y := by
    rw [List.map_cons, List.map_cons, List.map_nil, indexVal_cons_in xs i _ _ hx, indexVal_cons_in ys j [] y hy,
      indexVal_nil]
  rw [h1]

/-- **out of range** (`IndexError` inside the suppressed `eval`): the reference resolves to the whole list, whatever
    further indices follow -/
theorem C05_indexed_out_of_range (vars : List (Str × Val)) (l : Str) (xs : List Val) (i : Nat) (r : List Nat) (f : Nat)
    (hl : l.all isWordChar = true) (hg : getVar l vars = some (.list xs))
    (hv : anyStrLeafXs (·.contains '$') xs = false) (hx : xs.length ≤ i) :
    resolveRef vars (f + 2) [] ('$' :: (l ++ idxText (i :: r))) = .val (.list xs) := by
  rw [resolveRef_indexed vars l (.list xs) (i :: r) f hl hg (by simpa [anyStrLeafV] using hv) (by simp)]
  simp only [List.map_cons, indexVal_cons_out xs i _ hx]

/-- an index into a scalar (`TypeError`, suppressed): the scalar itself -/
theorem C05_indexed_scalar (vars : List (Str × Val)) (l : Str) (a : Scalar) (i : Nat) (r : List Nat) (f : Nat)
    (hl : l.all isWordChar = true) (hg : getVar l vars = some (.leaf a))
    (hv : anyStrLeafV (·.contains '$') (.leaf a) = false) :
    resolveRef vars (f + 2) [] ('$' :: (l ++ idxText (i :: r))) = .val (.leaf a) := by
  rw [resolveRef_indexed vars l (.leaf a) (i :: r) f hl hg hv (by simp)]
  simp [indexVal]

/-- the pass: an entry whose text is the indexed reference `$l[i]…`, resolved to `x`, takes `x` as it is -/
theorem C05_indexed_pass (ev : Str → EvalResult) (R : List (Str × Val)) (data : Entries) (i0 : Nat) (ph : Str)
    (c : Char) (l : Str) (path : List Nat) (x : Val) (hc : isWordChar c = true) (hl : l.all isWordChar = true)
    (hf : (R.find? fun p => p.1 == '$' :: c :: (l ++ idxText path)).map (·.2) = some x) :
    evalPass ev R ⟨data, [(i0, ⟨'$' :: c :: (l ++ idxText path), ph⟩)]⟩ = (substValEs ph x 1 data).map (fun d => ⟨d, []⟩) :=
  C05_plain_ref_takes_value ev R data i0 _ ph x (findRefs_indexed c l path hc hl).1 (findRefs_indexed c l path hc hl).2 hf

/-! ## non-vacuity, instances, refutations -/

/-- `b $x; c "$x + $b"; a { q { x 3; } } d "$c * 2";` as the native parser hands it over: `x` is declared two dicts deep,
    after its uses -/
def exN : SD :=
  { data := [(.str "b".toList, vP 2), (.str "c".toList, vP 0),
             (.str "a".toList, .dict [(.str "q".toList, .dict [(.str "x".toList, vI 3)])]), (.str "d".toList, vP 1)],
    exprs := [(0, ⟨"$x + $b".toList, phOf 0⟩), (1, ⟨"$c * 2".toList, phOf 1⟩), (2, ⟨"$x".toList, phOf 2⟩)] }

def parsedOf (text : String) : Option (Entries × Tbl ExprEntry) :=
  match parseNative true [] none text.toList with
  | .ok (sd, _) => some (sd.data, sd.exprs)
  | .error _ => none

theorem exN_is_parsed : parsedOf "b $x; c \"$x + $b\"; a { q { x 3; } } d \"$c * 2\";" = some (exN.data, exN.exprs) := by
  decide +kernel

/-- the flat graph of the same declarations, in another order: `x 3; b $x; c "$x + $b"; d "$c * 2";` -/
def exG : SD :=
  { data := [(.str "x".toList, vI 3), (.str "b".toList, vP 2), (.str "c".toList, vP 0), (.str "d".toList, vP 1)],
    exprs := exN.exprs }

theorem exG_acyclicFlat' : AcyclicFlat' exG :=
  AcyclicFlat'.of_checks
    { keys_nodup := by decide +kernel
      flat := by decide +kernel
      ids_nodup := by decide +kernel
      names := by decide +kernel
      placed := by decide +kernel
      plain_usable := by decide +kernel
      refs_ok := by decide +kernel
      acyclic := ⟨rankOf ["x", "b", "c", "d"], by decide +kernel⟩ }
    (by decide +kernel)

theorem exG_noBracket : NoBracket exG := ⟨by decide +kernel, by decide +kernel⟩

theorem exN_placement : Placement exG exN where
  tree := by decide +kernel
  sub_words := by decide +kernel
  sub_fresh := by decide +kernel
  leaves := by
    show List.Perm [(Key.str "b".toList, vP 2), (.str "c".toList, vP 0), (.str "x".toList, vI 3), (.str "d".toList, vP 1)]
      [(.str "x".toList, vI 3), (.str "b".toList, vP 2), (.str "c".toList, vP 0), (.str "d".toList, vP 1)]
    exact ((List.Perm.swap _ _ _).cons _).trans (List.Perm.swap _ _ _)
  exprs_eq := rfl

/-- the hypotheses of `C05_placement_independent` are satisfiable -/
theorem exN_placed : Placed exN := exN_placement.placed exG_acyclicFlat' exG_noBracket

/-- the model on the nested example: `b = 3`, `c = 6`, `d = 12`, the tree unchanged -/
theorem exN_eval : dataOf (evalExpressions evalInt exN)
    = some [(.str "b".toList, vI 3), (.str "c".toList, vI 6),
            (.str "a".toList, .dict [(.str "q".toList, .dict [(.str "x".toList, vI 3)])]), (.str "d".toList, vI 12)] := by
  decide +kernel

/-- the flat specification on the flat graph -/
theorem exG_topo : (["x", "b", "c", "d"].map fun n => topoVal evalInt exG 5 n.toList)
    = [some (vI 3), some (vI 3), some (vI 6), some (vI 12)] := by
  decide +kernel

/-- the theorem instantiated: whatever `evalExpressions` answers on the nested example, `d` holds 12 -/
example (s' : SD) (h : evalExpressions evalInt exN = .ok s') : lookup (.str "d".toList) (flatEs s'.data) = some (vI 12) :=
  (C05_placement_independent_graph evalInt exG exN s' evOK_evalInt evNlb_evalInt exG_acyclicFlat' exG_noBracket
    exN_placement h).2.2 _ _ (by decide +kernel)

/-- `variables_nested_scalar` instantiated: `x`, declared two dicts deep, is the variable `x = 3` -/
example : getVar "x".toList (varsEs exN.exprs exN.data []) = some (vI 3) :=
  variables_nested_scalar _ _ _ _ (by decide +kernel) (by decide +kernel) (by decide +kernel)

/-- `C05_placement_independent_vars` instantiated: the table of the tree and of the flat graph agree at `x` -/
example : getVar "x".toList (varsEs exN.exprs exN.data []) = getVar "x".toList (varsEs exG.exprs exG.data []) :=
  C05_placement_independent_vars _ _ _ "x".toList (vI 3) (by decide +kernel) (by decide +kernel)

/-- end to end, from the file text: the same values wherever `x` is declared -/
theorem C05_nested_end_to_end :
    readOne "a { x 3; } b $x; c \"$x + $b\";"
      = some [(.str "a".toList, .dict [(.str "x".toList, vI 3)]), (.str "b".toList, vI 3), (.str "c".toList, vI 6)] ∧
    readOne "b $x; c \"$x + $b\"; a { q { x 3; } }"
      = some [(.str "b".toList, vI 3), (.str "c".toList, vI 6),
              (.str "a".toList, .dict [(.str "q".toList, .dict [(.str "x".toList, vI 3)])])] ∧
    readOne "x 3; b $x; c \"$x + $b\";"
      = some [(.str "x".toList, vI 3), (.str "b".toList, vI 3), (.str "c".toList, vI 6)] := by
  decide +kernel

/-- which declaration wins when a name is declared twice (`variables_nested`: the last assignment in `declsEs` order):
    the later one; the deeper later one; and the key of a dict over a declaration inside it -/
theorem C05_declared_twice :
    readOne "x 1; sub { x 2; } b $x;"
      = some [(.str "x".toList, vI 1), (.str "sub".toList, .dict [(.str "x".toList, vI 2)]), (.str "b".toList, vI 2)] ∧
    readOne "sub { x 2; } x 1; b $x;"
      = some [(.str "sub".toList, .dict [(.str "x".toList, vI 2)]), (.str "x".toList, vI 1), (.str "b".toList, vI 1)] ∧
    readOne "x { x 3; } b $x;"
      = some [(.str "x".toList, .dict [(.str "x".toList, vI 3)]), (.str "b".toList, .dict [(.str "x".toList, vI 3)])] := by
  decide +kernel


/-! ### indexed references: instances -/

/-- the text of an index path, on an example -/
example : '$' :: ("l".toList ++ idxText [1, 0]) = "$l[1][0]".toList := by decide +kernel

/-- `C05_indexed2` instantiated on the table of `l ((1 2) (3 4));` -/
example : resolveRef [("l".toList, .list [.list [vI 1, vI 2], .list [vI 3, vI 4]])] 2 [] "$l[1][0]".toList = .val (vI 3) := by
  rw [show "$l[1][0]".toList = '$' :: ("l".toList ++ idxText [1, 0]) by decide +kernel]
  exact C05_indexed2 [("l".toList, .list [.list [vI 1, vI 2], .list [vI 3, vI 4]])] "l".toList
    [.list [vI 1, vI 2], .list [vI 3, vI 4]] [vI 3, vI 4] 1 0 (vI 3) 0 (by decide +kernel) (by decide +kernel)
    (by decide +kernel) rfl rfl

def isUnsupportedRead : Except ParseErr ReadOut → Bool
  | .error .unsupported => true
  | _ => false

def isTooDeepRead : Except ParseErr ReadOut → Bool
  | .error .tooDeep => true
  | _ => false

def readRaw (text : String) : Except ParseErr ReadOut := readFile evalInt (oneFile text) {} none ["d".toList, "f".toList]

/-- indexed references through the whole reader, from the file text: an element, an element of an element, elements
    inside an expression; an index out of range leaves the whole list -/
theorem C05_indexed_end_to_end :
    readOne "l (1 2 3); b $l[1]; c \"$l[0] + $l[2]\";"
      = some [(.str "l".toList, .list [vI 1, vI 2, vI 3]), (.str "b".toList, vI 2), (.str "c".toList, vI 4)] ∧
    readOne "l ((1 2) (3 4)); b $l[1][0];"
      = some [(.str "l".toList, .list [.list [vI 1, vI 2], .list [vI 3, vI 4]]), (.str "b".toList, vI 3)] ∧
    readOne "sub { l (1 2 3); } b $l[2];"
      = some [(.str "sub".toList, .dict [(.str "l".toList, .list [vI 1, vI 2, vI 3])]), (.str "b".toList, vI 3)] ∧
    readOne "l (1 2 3); c $l[5];"
      = some [(.str "l".toList, .list [vI 1, vI 2, vI 3]), (.str "c".toList, .list [vI 1, vI 2, vI 3])] := by
  decide +kernel

/-- outside the model (`unsupported`): a negative index (the reference pattern `\$\w[\w\[\]]*` stops at `-`, the index
    text is the lone `[`), and an out-of-range index inside an expression (`str(list)` would be substituted) -/
theorem C05_indexed_unsupported :
    isUnsupportedRead (readRaw "l (1 2 3); d $l[-1];") = true ∧
    isUnsupportedRead (readRaw "l (1 2 3); d \"$l[7] + 1\";") = true := by
  decide +kernel

/-! ### refutations: what the hypotheses of `Placed` exclude -/

/-- **a sub-dict key that is referenced** (`sub_fresh` violated, the name is declared nowhere else).
    File text `x { a 1; } b $x;`: the flat reading has no variable `x` (the reference would stay text), the tree makes
    the sub-dict itself the value of `b`. -/
theorem C05_refuted_subdict_referenced :
    readOne "x { a 1; } b $x;"
      = some [(.str "x".toList, .dict [(.str "a".toList, vI 1)]), (.str "b".toList, .dict [(.str "a".toList, vI 1)])] ∧
    readOne "a 1; b $x;" = some [(.str "a".toList, vI 1), (.str "b".toList, .leaf (.str "$x".toList))] := by
  decide +kernel

/-- `x { x 3; } b $x;` as the native parser hands it over -/
def exClash : SD :=
  { data := [(.str "x".toList, .dict [(.str "x".toList, vI 3)]), (.str "b".toList, vP 0)],
    exprs := [(0, ⟨"$x".toList, phOf 0⟩)] }

theorem exClash_is_parsed : parsedOf "x { x 3; } b $x;" = some (exClash.data, exClash.exprs) := by decide +kernel

/-- every hypothesis of `Placed` but `sub_fresh` -/
structure PlacedButFresh (s : SD) : Prop where
  tree : treeEs s.data = true
  sub_words : ∀ k ∈ dictKeys s.data, keyWord k = true
  flat_ok : AcyclicFlat' (flatSD s)
  expr_nlb : ∀ e ∈ s.exprs, '[' ∉ e.2.expression
  vals_nlb : ∀ d ∈ flatEs s.data, valNlb d.2 = true

theorem exClash_placedButFresh : PlacedButFresh exClash where
  tree := by decide +kernel
  sub_words := by decide +kernel
  flat_ok := AcyclicFlat'.of_checks
    { keys_nodup := by decide +kernel
      flat := by decide +kernel
      ids_nodup := by decide +kernel
      names := by decide +kernel
      placed := by decide +kernel
      plain_usable := by decide +kernel
      refs_ok := by decide +kernel
      acyclic := ⟨rankOf ["x", "b"], by decide +kernel⟩ }
    (by decide +kernel)
  expr_nlb := by decide +kernel
  vals_nlb := by decide +kernel

/-- **without `sub_fresh` the statement is false**: in `x { x 3; } b $x;` the name `x` is declared once as a leaf and is
    also the key of the dict around it; the flat specification gives `b` the value 3, the model gives it the dict
    `{x: 3}` (the key of a dict is assigned after its content, `variables_nested`) -/
theorem C05_placement_false_without_fresh :
    ¬ (∀ (s s' : SD), PlacedButFresh s → evalExpressions evalInt s = .ok s' →
        ∀ name v, topoVal evalInt (flatSD s) ((flatEs s.data).length + 1) name = some v →
          lookup (.str name) (flatEs s'.data) = some v) := by
  intro H
  have hd : dataOf (evalExpressions evalInt exClash)
      = some [(.str "x".toList, .dict [(.str "x".toList, vI 3)]), (.str "b".toList, .dict [(.str "x".toList, vI 3)])] := by
    decide +kernel
  cases he : evalExpressions evalInt exClash with
  | error e => rw [he] at hd; cases hd
  | ok s' =>
    rw [he] at hd
    simp only [dataOf, Option.some.injEq] at hd
    have := H exClash s' exClash_placedButFresh he "b".toList (vI 3) (by decide +kernel)
    rw [hd] at this
    revert this
    decide +kernel

/-- an evaluator without results: a text is a `NameError` (it stays text) unless it carries a placeholder word -/
def evText (t : Str) : EvalResult := if isInfix kwExpr t then .syntaxError else .nameError

theorem evOK_evText : EvOK evText where
  value_ok := by intro t x h; simp only [evText] at h; split at h <;> cases h
  name_ok := by
    intro t h
    simp only [evText] at h
    split at h
    · cases h
    · rename_i hi; simpa using hi

theorem evNlb_evText : EvNlb evText := by
  intro t x h; simp only [evText] at h; split at h <;> cases h

/-- `x { a 1; } c "x[0] + $a + y[1]"; d $c;` as the native parser hands it over -/
def exBr : SD :=
  { data := [(.str "x".toList, .dict [(.str "a".toList, vI 1)]), (.str "c".toList, vP 0), (.str "d".toList, vP 1)],
    exprs := [(0, ⟨"x[0] + $a + y[1]".toList, phOf 0⟩), (1, ⟨"$c".toList, phOf 1⟩)] }

theorem exBr_is_parsed : parsedOf "x { a 1; } c \"x[0] + $a + y[1]\"; d $c;" = some (exBr.data, exBr.exprs) := by
  decide +kernel

def isUnsupported' : Except ParseErr SD → Bool
  | .error .unsupported => true
  | _ => false

/-- **without the no-bracket hypothesis** (`expr_nlb` violated, everything else holds): the pending text
    `x[0] + $a + y[1]`, followed from `$c`, is read as the name `x` with the index text `[0] + $a + y[1]`.  Flat, there
    is no variable `x` and the reference waits (the evaluation succeeds: `d` becomes the text); in the tree `x` is the
    sub-dict, the index text is no index path and the model gives up (`unsupported`).
    (The library suppresses the `SyntaxError` of `eval("value[0] + $a + y[1]")` and makes the dict `{a: 1}` the value
    of `d`.) -/
theorem C05_placement_false_without_nobracket :
    treeEs exBr.data = true ∧ (∀ k ∈ dictKeys exBr.data, keyWord k = true) ∧
    (∀ k ∈ dictKeys exBr.data, k ∉ keys (flatEs exBr.data)) ∧ AcyclicFlat' (flatSD exBr) ∧
    (∀ d ∈ flatEs exBr.data, valNlb d.2 = true) ∧
    dataOf (evalExpressions evText (flatSD exBr))
      = some [(.str "a".toList, vI 1), (.str "c".toList, .leaf (.str "x[0] + 1 + y[1]".toList)),
              (.str "d".toList, .leaf (.str "x[0] + 1 + y[1]".toList))] ∧
    isUnsupported' (evalExpressions evText exBr) = true := by
  refine ⟨by decide +kernel, by decide +kernel, by decide +kernel, ?_, by decide +kernel, by decide +kernel,
    by decide +kernel⟩
  exact AcyclicFlat'.of_checks
    { keys_nodup := by decide +kernel
      flat := by decide +kernel
      ids_nodup := by decide +kernel
      names := by decide +kernel
      placed := by decide +kernel
      plain_usable := by decide +kernel
      refs_ok := by decide +kernel
      acyclic := ⟨rankOf ["a", "c", "d"], by decide +kernel⟩ }
    (by decide +kernel)

/-- **the depth bound of the code** (`set_global_key`, at most 10 keys on a path): a reference declared ten dicts deep is
    evaluated, eleven dicts deep reading fails (`tooDeep`); a plain value may stand at any depth -/
theorem C05_placement_depth_bound :
    readOne "s { a { b { c { d { e { f { g { h { k $x; } } } } } } } } } x 1;" ≠ none ∧
    isTooDeepRead (readRaw "s { a { b { c { d { e { f { g { h { i { k $x; } } } } } } } } } } x 1;") = true ∧
    readOne "s { a { b { c { d { e { f { g { h { i { k 2; } } } } } } } } } } x $k;" ≠ none := by
  decide +kernel

/- checked: every line below prints `[propext, Classical.choice, Quot.sound]`
#print axioms variables_nested
#print axioms variables_nested_once
#print axioms variables_nested_scalar
#print axioms C05_placement_independent_vars
#print axioms C05_placement_independent
#print axioms C05_placement_independent_graph
#print axioms C05_placed_eq_flat
#print axioms C05_order_independent
#print axioms resolveRef_indexed
#print axioms C05_indexed
#print axioms C05_indexed2
#print axioms C05_indexed_out_of_range
#print axioms C05_indexed_scalar
#print axioms C05_indexed_pass
#print axioms C05_indexed_end_to_end
#print axioms C05_indexed_unsupported
#print axioms exN_placed
#print axioms C05_nested_end_to_end
#print axioms C05_declared_twice
#print axioms C05_refuted_subdict_referenced
#print axioms C05_placement_false_without_fresh
#print axioms C05_placement_false_without_nobracket
#print axioms C05_placement_depth_bound
-/

end DictIO.C05nested
