/-
  C12 -- reading a document with comments AND `#include` directives.

  Documents (`IItem`: entry / lineC / blockC / incl q name, at the top level and inside nested dicts), their tokens
  (`itoksItems`: a directive is ONE token whose text is the directive line `#include 'name'`), admissible layouts
  (`GapsOKI` = `GapsOKC` + `DirGapsOK`: every directive stands alone on its line), the labelling `labelI` (ids: first
  ALL line comments in document order, then ALL directives in document order, from the one global counter; block
  comments 0,1,2,… locally) and the meaning `denI dir c doc` (placeholder entries `INCLUDEnnnnnn ↦ INCLUDEnnnnnn` where
  the directives stand, the tables lineC / blockC / incl, then `_clean`).

    1   `exI`, `exIText`, `exI_model`, `exI_model_off`   the definitions against `parseNative`, by kernel evaluation
    2   `parse_dirText`, `lexInclude_dir`                stage 2 on a directive line (extends `C18.parse_include_body`)
    3   `incMap`, `TL`, `H2`, `LM_step2`, `LM_pass2`, `LM_lineC2`, `LM_dir`
                                                         stage 2 over the lines stage 1 leaves, character by character
    4   `inclToks`, `stageA2`, `stage12_key`, `stages12I`    stages 1 and 2 on an admissible layout: stage 1 does not
                                                         touch directive lines, stage 2 replaces exactly those
    5   `include_stages_toks`                            + stage 3 (`C12stages.stageB` …), against `labelCToks`
    6   `itoksI_ok`, `bridgeI`, `labelledI_wfI`, …       token view ↔ document view
    7   `include_stages`                                 the three stages on a document, comments on
    8   `C12_read_included`                              the whole reader
    9   `exI_read`, `exI_incl`, `exI_keys`, `exI_directives`, `exI_read_off`    non-vacuity
    10  `C12_incl_table`, `C12_incl_table_stages`        the include table lists the directives, in document order
    11  `incl_needs_own_line`, `incl_name_no_line_comment`, `incl_indent_recorded`, `incl_clean_merges`,
        `incl_last_without_newline`                      what is excluded and why (witnesses)
    12  `clean_incl`, `C12_incl_table_result`, `C12_included_directives`
                                                         `_clean` keeps the table when no two directives have the same text
    13  `include_stages_off`, `C12_read_included_off`    comments switched off (`denIoff`)

  Well-formedness (`ISrcWFItems`) = `CSrcWFItems` + `isInclName q name` for every directive:
    no `//` in the name (stage 1 runs first: `incl_name_no_line_comment`); no line-break character; written bare: not
    empty, no quote, no white space; written in quotes: `q` is a quote character.  (`$`, `/*`, the other quote, … are fine.)
  Layout (`DirGapsOK`): the gap in front of a directive ends with a line-break character, or is empty at the very start
    of the text; what follows the directive starts with a line feed.  (Indentation / trailing blanks / `\r\n` would be
    accepted by the reader but become part of the recorded directive text: `incl_indent_recorded`; a last directive
    without line feed is read alike but not covered: `incl_last_without_newline`.)
  Other hypotheses: those of `C12_read_commented`.
-/
import DictIO.Props.C12off
import DictIO.Props.C08nat
import DictIO.Props.C18

namespace DictIO

/-! ## 0. documents with include directives -/

mutual
  inductive ISrc where
    | lit (l : Lit)
    | dict (items : List IItem)
    | list (xs : List Src)
  inductive IItem where
    | entry (k : Str) (v : ISrc)
    | lineC (text : Str)      -- the text after `//` (without the line end)
    | blockC (text : Str)     -- the text between `/*` and `*/`
    | incl (q : Option Char) (name : Str)   -- `#include 'name'`, `#include "name"` or `#include name`
end

/-- the file name as written: bare or between two quote characters -/
def quoteName : Option Char → Str → Str
  | none, n => n
  | some q, n => q :: n ++ [q]

/-- the text of an include directive -/
def dirText (q : Option Char) (name : Str) : Str := "#include ".toList ++ quoteName q name

/-- the placeholder word of include number `i` -/
def inclPh (i : Nat) : Str := kwIncl ++ padSix i

/-- the table entry the reader makes for a directive read in directory `dir` -/
def inclEntry (dir : Str) (q : Option Char) (name : Str) : InclEntry :=
  { directive := dirText q name, file := name,
    path := if name.head? == some '/' then name else dir ++ ['/'] ++ name }

/-- a file name the reader reads back from its directive, whatever stands around it:
    no line-break character (the directive is one line), no `//` (the line-comment stage runs first and would cut it);
    written bare: not empty, no quote and no white space; written in quotes: `q` is a quote character -/
def isInclName (q : Option Char) (name : Str) : Bool :=
  !isInfix ['/', '/'] name &&
  (match q with
   | none => !name.isEmpty && name.all (fun c => !isQuote c && !isWs c)
   | some q => isQuote q && name.all (fun c => !isLineBreak c))

mutual
  /-- the source tokens; a directive is ONE token whose text is the directive (`CTok.tok (.word (dirText q name))`:
      its first character is `#`, which no source word starts with) -/
  def itoksV : ISrc → List CTok
    | .lit l => [.tok l.tok]
    | .dict items => .tok (.word ['{']) :: itoksItems items ++ [.tok (.word ['}'])]
    | .list xs => .tok (.word ['(']) :: (srcToksXs xs).map .tok ++ [.tok (.word [')'])]
  def itoksItems : List IItem → List CTok
    | [] => []
    | .entry k (.lit l) :: r => .tok (.word k) :: .tok l.tok :: .tok (.word [';']) :: itoksItems r
    | .entry k (.dict items) :: r =>
        .tok (.word k) :: .tok (.word ['{']) :: itoksItems items ++ [.tok (.word ['}'])] ++ itoksItems r
    | .entry k (.list xs) :: r =>
        .tok (.word k) :: .tok (.word ['(']) :: (srcToksXs xs).map .tok ++ [.tok (.word [')']), .tok (.word [';'])] ++ itoksItems r
    | .lineC x :: r => .lineC x :: itoksItems r
    | .blockC x :: r => .blockC x :: itoksItems r
    | .incl q n :: r => .tok (.word (dirText q n)) :: itoksItems r
end

/-- a directive token -/
def isDirTok : CTok → Bool
  | .tok (.word w) => w.head? == some '#'
  | _ => false

/-- the extra layout conditions of directives: a directive stands alone on its line.  The gap in front of it ends with a
    line-break character, or is empty and the directive is the first thing of the text; what follows it starts with a
    line feed. -/
def dirNext : List CTok → List Str → Str → Bool
  | [], _, tail => tail.head? == some '\n'
  | _ :: _, gs, _ => (gs.headD []).head? == some '\n'

def DirGapsOK : Bool → List CTok → List Str → Str → Bool
  | _, [], _, _ => true
  | _, _ :: _, [], _ => false
  | first, t :: ts, g :: gs, tail =>
    (!isDirTok t ||
      ((first && g.isEmpty) || (match g.getLast? with | some c => isLineBreak c | none => false)) &&
      dirNext ts gs tail) &&
    DirGapsOK false ts gs tail

/-- admissible layout of a document with comments and include directives -/
def GapsOKI (ts : List CTok) (gaps : List Str) (tail : Str) : Bool :=
  GapsOKC ts gaps tail && DirGapsOK true ts gaps tail

/-! ### what the reader's first three stages must produce -/

/-- labelling state: `c` the comment part (the counter in it serves the line comments), `icounter` serves the
    directives -/
structure ILabelSt where
  c : CLabelSt
  icounter : Counter
  incl : Tbl InclEntry := []

mutual
  def labelIV (dir : Str) (st : ILabelSt) : ISrc → ILabelSt × Src
    | .lit l => (st, .lit l)
    | .dict items => let (st', es) := labelIItems dir st items; (st', .dict es)
    | .list xs => (st, .list xs)
  /-- every comment and every directive replaced by a placeholder entry `ph ↦ ph` -/
  def labelIItems (dir : Str) (st : ILabelSt) : List IItem → ILabelSt × SrcEntries
    | [] => (st, [])
    | .entry k v :: r =>
      let (st1, v') := labelIV dir st v
      let (st2, r') := labelIItems dir st1 r
      (st2, (k, v') :: r')
    | .lineC x :: r =>
      let (i, c) := Counter.next Gen.counterLimit st.c.counter
      let (st', r') := labelIItems dir { st with c := { st.c with counter := c, lineC := st.c.lineC.set i ('/' :: '/' :: x) } } r
      (st', (linePh i, .lit (.bare (linePh i))) :: r')
    | .blockC x :: r =>
      let n := st.c.blockC.length
      let (st', r') := labelIItems dir { st with c := { st.c with blockC := st.c.blockC ++ [(n, '/' :: '*' :: x ++ ['*', '/'])] } } r
      (st', (blockPh n, .lit (.bare (blockPh n))) :: r')
    | .incl q name :: r =>
      let (i, c) := Counter.next Gen.counterLimit st.icounter
      let (st', r') := labelIItems dir { st with icounter := c, incl := st.incl.set i (inclEntry dir q name) } r
      (st', (inclPh i, .lit (.bare (inclPh i))) :: r')
end

mutual
  /-- number of line comments -/
  def countLineV : ISrc → Nat
    | .lit _ => 0
    | .dict items => countLineItems items
    | .list _ => 0
  def countLineItems : List IItem → Nat
    | [] => 0
    | .entry _ v :: r => countLineV v + countLineItems r
    | .lineC _ :: r => 1 + countLineItems r
    | .blockC _ :: r => countLineItems r
    | .incl _ _ :: r => countLineItems r
end

/-- the labelling of a whole document read from counter `c`: the line comments draw first (all of them), then the
    directives -/
def labelI (dir : Str) (c : Counter) (items : List IItem) : ILabelSt × SrcEntries :=
  labelIItems dir { c := { counter := c }, icounter := C02.adv Gen.counterLimit (countLineItems items) c } items

/-- what a document with comments and include directives means -/
def denI (dir : Str) (c : Counter) (items : List IItem) : SD :=
  let (st, es) := labelI dir c items
  ({ data := denPEs es [], lineC := st.c.lineC, blockC := st.c.blockC, incl := st.incl } : SD).clean

mutual
  def ISrcWFV (depth : Nat) : ISrc → Bool
    | .lit l => l.ok && depth ≤ 10
    | .dict items => ISrcWFItems (depth + 1) items
    | .list xs => SrcWFXs (depth + 1) xs
  def ISrcWFItems (depth : Nat) : List IItem → Bool
    | [] => true
    | .entry k v :: r => isSrcWord k && (keyOfScalar (parseKey k)).isSome && ISrcWFV depth v && ISrcWFItems depth r
    | .lineC x :: r => isLineCText x && ISrcWFItems depth r
    | .blockC x :: r => isBlockCText x && ISrcWFItems depth r
    | .incl q n :: r => isInclName q n && ISrcWFItems depth r
end

mutual
  /-- the document without comments and directives -/
  def plainIV : ISrc → Src
    | .lit l => .lit l
    | .dict items => .dict (plainIItems items)
    | .list xs => .list xs
  def plainIItems : List IItem → SrcEntries
    | [] => []
    | .entry k v :: r => (k, plainIV v) :: plainIItems r
    | .lineC _ :: r => plainIItems r
    | .blockC _ :: r => plainIItems r
    | .incl _ _ :: r => plainIItems r
end

mutual
  /-- the document with its comments dropped (the directives stay) -/
  def dropCV : ISrc → ISrc
    | .lit l => .lit l
    | .dict items => .dict (dropCItems items)
    | .list xs => .list xs
  def dropCItems : List IItem → List IItem
    | [] => []
    | .entry k v :: r => .entry k (dropCV v) :: dropCItems r
    | .lineC _ :: r => dropCItems r
    | .blockC _ :: r => dropCItems r
    | .incl q n :: r => .incl q n :: dropCItems r
end

/-- what a document with comments and include directives means when it is read with comments switched off: the comment
    entries are gone, the include entries stay (stage 2 has no switch); all three tables are filled as before -/
def denIoff (dir : Str) (c : Counter) (items : List IItem) : SD :=
  let es := (labelIItems dir { c := { counter := c }, icounter := C02.adv Gen.counterLimit (countLineItems items) c }
    (dropCItems items)).2
  ({ data := denPEs es [], lineC := (labelI dir c items).1.c.lineC, blockC := (labelI dir c items).1.c.blockC,
     incl := (labelI dir c items).1.incl } : SD).clean

end DictIO

namespace DictIO.C12
open DictIO

set_option linter.unusedSimpArgs false
set_option linter.unusedVariables false
set_option linter.unnecessarySimpa false

/-! ## 1. the definitions against the executable model -/

/-- two line comments, a block comment, a top-level `#include 'inc/a'`, a nested `#include "../b"` -/
def exI : List IItem := [
  .lineC " head".toList,
  .entry ['a'] (.lit (.bare ['1'])),
  .incl (some '\'') "inc/a".toList,
  .blockC " blk ".toList,
  .entry ['n'] (.dict [.entry ['p'] (.lit (.quoted '\'' "x y".toList)), .incl (some '"') "../b".toList,
    .lineC " in".toList]),
  .incl none "/abs/c".toList]

def exIText : Str :=
  " // head\na 1;\n#include 'inc/a'\n /* blk */ n {\n  p 'x y';\n#include \"../b\"\n  // in\n}\n#include /abs/c\n".toList

set_option synthInstance.maxSize 1000 in
/-- the reader on the example text, from counter 6, in directory `/d`: field by field what `denI` says -/
theorem exI_model :
    (parseNative true "/d".toList (some 6) exIText).toOption.map
        (fun r => (r.1.data, r.1.exprs, r.1.lineC, r.1.blockC, r.1.incl, r.2)) =
      some ((denI "/d".toList (some 6) exI).data, [], (denI "/d".toList (some 6) exI).lineC,
        (denI "/d".toList (some 6) exI).blockC, (denI "/d".toList (some 6) exI).incl, some 12) := by decide +kernel

set_option synthInstance.maxSize 1000 in
/-- the same with comments switched off -/
theorem exI_model_off :
    (parseNative false "/d".toList (some 6) exIText).toOption.map
        (fun r => (r.1.data, r.1.exprs, r.1.lineC, r.1.blockC, r.1.incl, r.2)) =
      some ((denIoff "/d".toList (some 6) exI).data, [], (denIoff "/d".toList (some 6) exI).lineC,
        (denIoff "/d".toList (some 6) exI).blockC, (denIoff "/d".toList (some 6) exI).incl, some 12) := by decide +kernel

/-! ## 2. stage 2 on a directive line -/

namespace Incl
open Stages
open DictIO.C02.Main (nextSt noHash lineSt)

theorem dropWhile_ws_append : ∀ (r b : Str), r.all isWs = true → (r ++ b).dropWhile isWs = b.dropWhile isWs
  | [], _, _ => rfl
  | c :: r, b, h => by
    simp only [List.all_cons, Bool.and_eq_true] at h
    simp [List.dropWhile, h.1, dropWhile_ws_append r b h.2]

/-- `\s*$` removes the white space behind the argument -/
theorem rstrip_ws {body ws : Str} {l : Char} (hl : body.getLast? = some l) (hw : isWs l = false)
    (hws : ws.all isWs = true) : ((body ++ ws).reverse.dropWhile isWs).reverse = body := by
  rw [List.reverse_append, dropWhile_ws_append _ _ (by simpa using hws)]
  exact C18.rstrip_of_last hl hw

/-- `C18.parse_include_body` with white space (the line end) behind the argument -/
theorem parse_dir_line {b l : Char} {bs ws : Str} (hb : isWs b = false) (hl : (b :: bs).getLast? = some l)
    (hlw : isWs l = false) (hws : ws.all isWs = true) :
    parseIncludeLine ("#include ".toList ++ (b :: bs) ++ ws) = some (removeQuotes (b :: bs)) := by
  rw [C18.includeKw_lit]
  simp only [parseIncludeLine, C18.include_lit, dropWs, List.cons_append, List.nil_append, List.dropWhile, C18.isWs_hash,
    C18.isWs_i]
  simp only [List.isPrefixOf, List.drop, beq_self_eq_true, Bool.true_and, if_true, List.dropWhile, C18.isWs_space, hb]
  have := rstrip_ws hl hlw hws
  simp only [List.cons_append] at this
  rw [this]

theorem quote_cases {q : Char} (h : isQuote q = true) : q = '\'' ∨ q = '"' := by
  simp only [isQuote, Bool.or_eq_true, beq_iff_eq] at h
  rcases h with h | h
  · exact Or.inl h
  · exact Or.inr h

/-- everything `isInclName` says -/
theorem inclName_iff {q : Option Char} {name : Str} : isInclName q name = true ↔
    isInfix ['/', '/'] name = false ∧
    (match q with
     | none => name ≠ [] ∧ ∀ c ∈ name, isQuote c = false ∧ isWs c = false
     | some q => isQuote q = true ∧ ∀ c ∈ name, isLineBreak c = false) := by
  cases q <;>
    simp [isInclName, List.all_eq_true, List.isEmpty_iff]

/-- the directive is read back, whatever white space follows it on its line -/
theorem parse_dirText {q : Option Char} {name ws : Str} (h : isInclName q name = true) (hws : ws.all isWs = true) :
    parseIncludeLine (dirText q name ++ ws) = some name := by
  obtain ⟨_, h2⟩ := inclName_iff.mp h
  cases q with
  | none =>
    obtain ⟨hne, hc⟩ := h2
    cases name with
    | nil => exact absurd rfl hne
    | cons b bs =>
      have hl : (b :: bs).getLast? = some ((b :: bs).getLast (by simp)) := List.getLast?_eq_some_getLast _
      refine (parse_dir_line (hc b (by simp)).2 hl (hc _ (List.getLast_mem _)).2 hws).trans ?_
      congr 1
      apply C18.removeQuotes_plain
      intro c hm
      refine ⟨(hc c hm).1, ?_⟩
      rintro rfl
      have := (hc _ hm).2
      rw [C18.isWs_nl] at this
      cases this
  | some q =>
    obtain ⟨hq, _⟩ := h2
    have hqw : isWs q = false := by rcases quote_cases hq with rfl | rfl <;> decide
    refine (parse_dir_line (b := q) (l := q) (bs := name ++ [q]) hqw (by simp [List.getLast?_cons]) hqw hws).trans ?_
    simp only [removeQuotes, hq, if_true]
    rw [C18.dropEndQuote_append_quote hq]

theorem dirText_eq (q : Option Char) (n : Str) :
    dirText q n = '#' :: 'i' :: 'n' :: 'c' :: 'l' :: 'u' :: 'd' :: 'e' :: ' ' :: quoteName q n := by
  unfold dirText
  rw [C18.includeKw_lit]
  rfl

theorem quote_facts' {q : Char} (h : isQuote q = true) : isLineBreak q = false ∧ q ≠ '/' ∧ isWs q = false := by
  rcases quote_cases h with rfl | rfl <;> decide

theorem quoteName_nobreak {q : Option Char} {n : Str} (h : isInclName q n = true) :
    ∀ c ∈ quoteName q n, isLineBreak c = false := by
  obtain ⟨_, h2⟩ := inclName_iff.mp h
  cases q with
  | none =>
    intro c hc
    exact C02.Main.not_lineBreak_of_not_ws (h2.2 c hc).2
  | some q =>
    intro c hc
    simp only [quoteName, List.mem_cons, List.mem_append, List.not_mem_nil, or_false] at hc
    rcases hc with (rfl | hc) | rfl
    · exact (quote_facts' h2.1).1
    · exact h2.2 c hc
    · exact (quote_facts' h2.1).1

/-- a directive has no line-break character -/
theorem dir_nobreak {q : Option Char} {n : Str} (h : isInclName q n = true) :
    ∀ c ∈ dirText q n, isLineBreak c = false := by
  intro c hc
  rw [dirText_eq] at hc
  simp only [List.mem_cons] at hc
  rcases hc with rfl | rfl | rfl | rfl | rfl | rfl | rfl | rfl | rfl | hc
  any_goals decide
  exact quoteName_nobreak h c hc

theorem quoteName_noSS {q : Option Char} {n : Str} (h : isInclName q n = true) :
    isInfix ['/', '/'] (quoteName q n) = false := by
  obtain ⟨h1, h2⟩ := inclName_iff.mp h
  cases q with
  | none => exact h1
  | some q =>
    have hq := (quote_facts' h2.1).2.1
    have e : quoteName (some q) n = ([q] ++ n) ++ [q] := by simp [quoteName]
    rw [e]
    refine C02.Main.infix2_append (C02.Main.infix2_append (C02.Main.infix2_single _ _ _) h1 ?_)
      (C02.Main.infix2_single _ _ _) ?_
    · intro hl _; simp at hl; exact hq hl
    · intro _ hh; simp at hh; exact hq hh

/-- a directive line has no `//`: the line-comment stage leaves it alone -/
theorem dir_noSS {q : Option Char} {n : Str} (h : isInclName q n = true) (nl : Str) (hnl : nl = [] ∨ nl = ['\n']) :
    isInfix ['/', '/'] (dirText q n ++ nl) = false := by
  have h0 : isInfix ['/', '/'] (dirText q n) = false := by
    have e : dirText q n = ['#', 'i', 'n', 'c', 'l', 'u', 'd', 'e', ' '] ++ quoteName q n := dirText_eq q n
    rw [e]
    refine C02.Main.infix2_append (by decide) (quoteName_noSS h) ?_
    intro hl _; simp at hl
  rcases hnl with rfl | rfl
  · simpa using h0
  · refine C02.Main.infix2_append h0 (C02.Main.infix2_single _ _ _) ?_
    intro _ hh; simp at hh

theorem dropFinalNl_snoc (d : Str) : dropFinalNl (d ++ ['\n']) = (d, ['\n']) := by
  simp [dropFinalNl]

/-- the lexer state after a directive -/
def stI (dir : Str) (st : LexSt) (q : Option Char) (n : Str) : LexSt :=
  { st.fresh.2 with incl := st.fresh.2.incl.set st.fresh.1 (inclEntry dir q n) }

/-- **stage 2 on a directive line** -/
theorem lexInclude_dir (dir : Str) (st : LexSt) {q : Option Char} {n : Str} (h : isInclName q n = true) :
    lexInclude dir st (dirText q n ++ ['\n']) = (stI dir st q n, inclPh st.fresh.1 ++ ['\n']) := by
  unfold lexInclude
  rw [parse_dirText h (ws := ['\n']) rfl]
  simp only [dropFinalNl_snoc]
  rfl

/-! ## 3. stage 2 over the lines stage 1 leaves, character by character -/

/-- stage 2 over a list of lines, as a recursive function -/
def incMap (dir : Str) : LexSt → List Str → LexSt × List Str
  | st, [] => (st, [])
  | st, l :: ls =>
    ((incMap dir (lexInclude dir st l).1 ls).1,
     (lexInclude dir st l).2 :: (incMap dir (lexInclude dir st l).1 ls).2)

theorem foldl_incMap (dir : Str) : ∀ (ls : List Str) (st : LexSt) (acc : List Str),
    ls.foldl (fun (acc : LexSt × List Str) l =>
      let (st, l') := lexInclude dir acc.1 l; (st, acc.2 ++ [l'])) (st, acc) =
      ((incMap dir st ls).1, acc ++ (incMap dir st ls).2)
  | [], st, acc => by simp [incMap]
  | l :: ls, st, acc => by
    rw [List.foldl_cons]
    rcases h : lexInclude dir st l with ⟨st1, l'⟩
    simp only [h, incMap]
    rw [foldl_incMap dir ls st1 (acc ++ [l'])]
    simp

/-- stage 2 over the lines, the output joined -/
def incFlat (dir : Str) (st : LexSt) (ls : List Str) : LexSt × Str :=
  ((incMap dir st ls).1, (incMap dir st ls).2.flatten)

/-- stage 2 over all lines but the first, which is copied (it is incomplete: more text will be put in front of it) -/
def TL (dir : Str) (st : LexSt) (ls : List Str) : LexSt × Str :=
  ((incMap dir st ls.tail).1, ls.headD [] ++ (incMap dir st ls.tail).2.flatten)

/-- when only white space precedes it on its line, the first line is no directive -/
def H2 (bit : Bool) (ls : List Str) : Prop := bit = true → ∀ l ∈ ls.head?, IFree l

theorem h2_weaken {ls : List Str} (h : H2 true ls) (b : Bool) : H2 b ls := fun _ => h rfl

theorem TL_nil (dir : Str) (st : LexSt) : TL dir st [] = (st, []) := rfl

theorem TL_cons (dir : Str) (st : LexSt) (l : Str) (ls : List Str) :
    TL dir st (l :: ls) = ((incMap dir st ls).1, l ++ (incMap dir st ls).2.flatten) := rfl

theorem incFlat_of_free (dir : Str) (st : LexSt) {ls : List Str} (h : H2 true ls) : incFlat dir st ls = TL dir st ls := by
  cases ls with
  | nil => rfl
  | cons l ls =>
    have := C02.lexInclude_id dir st (h rfl l (by simp))
    simp only [incFlat, incMap, this, TL_cons, List.flatten_cons]

theorem TL_consLine (dir : Str) (st : LexSt) (c : Char) (ls : List Str) :
    TL dir st (consLine c ls) = ((TL dir st ls).1, c :: (TL dir st ls).2) := by
  cases ls <;> rfl

/-- `LM_step` for stage 2: one more character in front of the text -/
theorem LM_step2 (cm : Bool) (dir : Str) (st : LexSt) (c : Char) (r : Str) (h : PassC c r) :
    ∀ b, (b = true → c ≠ '#') → H2 (nextSt b c) (LM cm st r).2 →
      H2 b (LM cm st (c :: r)).2 ∧
      ∀ st2, TL dir st2 (LM cm st (c :: r)).2 = ((TL dir st2 (LM cm st r).2).1, c :: (TL dir st2 (LM cm st r).2).2) := by
  intro b hc hinv
  by_cases hb : isLineBreak c = true
  · have hws := C02.Main.lineBreak_ws hb
    have hnext : nextSt b c = true := by simp [nextSt, hb]
    rw [hnext] at hinv
    by_cases hcr : c = '\r' ∧ r.head? = some '\n'
    · obtain ⟨rfl, hr⟩ := hcr
      cases r with
      | nil => simp at hr
      | cons d r2 =>
        simp only [List.head?_cons, Option.some.injEq] at hr
        subst hr
        have e2 := LM_break cm st r2 C02.isLineBreak_nl (by simp)
        rw [LM_crlf, e2]
        refine ⟨?_, fun st2 => ?_⟩
        · intro _ l hl
          simp only [List.head?_cons, Option.mem_def, Option.some.injEq] at hl
          subst hl
          simp [IFree]; decide
        · simp only [TL_cons]; rfl
    · rw [LM_break cm st r hb hcr]
      refine ⟨?_, fun st2 => ?_⟩
      · intro _ l hl
        simp only [List.head?_cons, Option.mem_def, Option.some.injEq] at hl
        subst hl
        exact (iFree_ws hws []).mpr iFree_nil
      · have := incFlat_of_free dir st2 hinv
        simp only [incFlat] at this
        rw [TL_cons, ← this]
        rfl
  · have hb' : isLineBreak c = false := by simpa using hb
    rw [LM_plain cm st r hb' h.1 h.2]
    refine ⟨?_, fun st2 => TL_consLine dir st2 c _⟩
    have hnext : nextSt b c = (b && isWs c) := by simp [nextSt, hb']
    rw [hnext] at hinv
    intro hbt l hl
    cases hls : (LM cm st r).2 with
    | nil =>
      rw [hls] at hl
      simp only [consLine, List.head?_cons, Option.mem_def, Option.some.injEq] at hl
      subst hl
      exact iFree_any (hc hbt)
    | cons l0 ls =>
      rw [hls] at hl hinv
      simp only [consLine, List.head?_cons, Option.mem_def, Option.some.injEq] at hl
      subst hl
      cases hw : isWs c with
      | true =>
        rw [iFree_ws hw]
        exact hinv (by simp [hbt, hw]) l0 (by simp)
      | false => exact iFree_nws hw (hc hbt) _

/-- `LM_pass` for stage 2: a stretch that stage 1 passes and that has no `#` behind white space at a line start -/
theorem LM_pass2 (cm : Bool) (dir : Str) : ∀ (p q : Str) (st : LexSt), PassA p q →
    ∀ b, noHash b p = true → H2 (lineSt b p) (LM cm st q).2 →
      H2 b (LM cm st (p ++ q)).2 ∧
      ∀ st2, TL dir st2 (LM cm st (p ++ q)).2 = ((TL dir st2 (LM cm st q).2).1, p ++ (TL dir st2 (LM cm st q).2).2)
  | [], q, st, _, b, _, hinv => ⟨hinv, fun _ => rfl⟩
  | c :: p, q, st, h, b, hn, hinv => by
    simp only [noHash, Bool.and_eq_true, Bool.not_eq_true', Bool.and_eq_false_imp, beq_eq_false_iff_ne] at hn
    obtain ⟨i1, i2⟩ := LM_pass2 cm dir p q st h.2 (nextSt b c) hn.2 (by simpa [lineSt] using hinv)
    obtain ⟨s1, s2⟩ := LM_step2 cm dir st c (p ++ q) h.1 b (fun hb => hn.1 hb) i1
    rw [List.cons_append]
    refine ⟨s1, fun st2 => ?_⟩
    rw [s2 st2, i2 st2]
    rfl

/-- `LM_lineC` for stage 2 -/
theorem LM_lineC2 (cm : Bool) (dir : Str) (st : LexSt) (x q : Str) (hx : ∀ c ∈ x, isLineBreak c = false)
    (hq : q = [] ∨ q.head? = some '\n') :
    H2 true (LM cm st ('/' :: '/' :: x ++ q)).2 ∧
    ∀ st2, TL dir st2 (LM cm st ('/' :: '/' :: x ++ q)).2 =
      ((TL dir st2 (LM cm (stL st x) q).2).1, phL cm st ++ (TL dir st2 (LM cm (stL st x) q).2).2) := by
  have hx' : ∀ c ∈ '/' :: '/' :: x, isLineBreak c = false := by
    intro c hc
    simp only [List.mem_cons] at hc
    rcases hc with rfl | rfl | hc
    · decide
    · decide
    · exact hx c hc
  rcases hq with rfl | hq
  · have h1 := lexLine_comment cm st x [] hx (Or.inl rfl)
    simp only [List.append_nil] at h1 ⊢
    simp only [LM, lines_nobreak _ (by simp) hx', lineMap, h1, splitLinesKeep]
    refine ⟨?_, fun st2 => by simp [TL_cons, TL_nil, incMap]⟩
    intro _ l hl
    simp only [List.head?_cons, Option.mem_def, Option.some.injEq] at hl
    subst hl
    simpa using iFree_ph cm st [] (Or.inl rfl)
  · cases q with
    | nil => simp at hq
    | cons d q' =>
      simp only [List.head?_cons, Option.some.injEq] at hq
      subst hq
      have h1 := lexLine_comment cm st x ['\n'] hx (Or.inr rfl)
      have e2 := LM_break cm (stL st x) q' C02.isLineBreak_nl (by simp)
      rw [e2]
      simp only [LM, lines_nobreak_nl _ q' hx', lineMap, h1]
      refine ⟨?_, fun st2 => by simp [TL_cons]⟩
      intro _ l hl
      simp only [List.head?_cons, Option.mem_def, Option.some.injEq] at hl
      subst hl
      exact iFree_ph cm st ['\n'] (Or.inr rfl)

/-- **a directive line** (with the line-break character in front of it): stage 1 leaves it alone, stage 2 puts the
    placeholder word in its place -/
theorem LM_dir (cm : Bool) (dir : Str) (st : LexSt) {q : Option Char} {n : Str} (hn : isInclName q n = true)
    (brk : Char) (hbrk : isLineBreak brk = true) (Q : Str) (hQ : Q.head? = some '\n') (b : Bool) :
    (LM cm st (brk :: (dirText q n ++ Q))).1 = (LM cm st Q).1 ∧
    H2 b (LM cm st (brk :: (dirText q n ++ Q))).2 ∧
    ∀ st2, TL dir st2 (LM cm st (brk :: (dirText q n ++ Q))).2 =
      ((TL dir (stI dir st2 q n) (LM cm st Q).2).1,
       brk :: (inclPh st2.fresh.1 ++ (TL dir (stI dir st2 q n) (LM cm st Q).2).2)) := by
  cases Q with
  | nil => simp at hQ
  | cons d q' =>
    simp only [List.head?_cons, Option.some.injEq] at hQ
    subst hQ
    have hhead : ¬(brk = '\r' ∧ (dirText q n ++ '\n' :: q').head? = some '\n') := by
      rw [dirText_eq]; simp
    have e1 := LM_break cm st (dirText q n ++ '\n' :: q') hbrk hhead
    have e2 := LM_break cm st q' C02.isLineBreak_nl (by simp)
    have e3 : LM cm st (dirText q n ++ '\n' :: q') =
        ((LM cm st q').1, (dirText q n ++ ['\n']) :: (LM cm st q').2) := by
      simp only [LM, lines_nobreak_nl _ q' (dir_nobreak hn), lineMap,
        C02.lexLineComment_id cm st (dir_noSS hn ['\n'] (Or.inr rfl))]
    rw [e1, e2, e3]
    refine ⟨rfl, ?_, fun st2 => ?_⟩
    · intro _ l hl
      simp only [List.head?_cons, Option.mem_def, Option.some.injEq] at hl
      subst hl
      exact (iFree_ws (C02.Main.lineBreak_ws hbrk) []).mpr iFree_nil
    · simp only [TL_cons, incMap, lexInclude_dir dir st2 hn]
      simp

/-! ## 4. stages 1 and 2 on an admissible layout -/

/-- the tokens after stage 2: a directive has become its placeholder word -/
def inclToks (dir : Str) : LexSt → List CTok → LexSt × List CTok
  | st, [] => (st, [])
  | st, t :: r =>
    if isDirTok t then
      ((inclToks dir (lexInclude dir st (t.text ++ ['\n'])).1 r).1,
       .tok (.word (inclPh st.fresh.1)) :: (inclToks dir (lexInclude dir st (t.text ++ ['\n'])).1 r).2)
    else ((inclToks dir st r).1, t :: (inclToks dir st r).2)

/-- an admissible token of a document with directives -/
def AOKI (t : CTok) : Prop := AOK t ∨ ∃ q n, t = .tok (.word (dirText q n)) ∧ isInclName q n = true

theorem isDirTok_dir (q : Option Char) (n : Str) : isDirTok (.tok (.word (dirText q n))) = true := by
  rw [dirText_eq]; rfl

theorem aok_notDir {t : CTok} (h : AOK t) : isDirTok t = false := by
  cases t with
  | lineC x => rfl
  | blockC x => rfl
  | tok a =>
    cases a with
    | quoted q b => rfl
    | word w =>
      rcases h with h | h
      · simp only [isSrcWord, Bool.and_eq_true, Bool.not_eq_true'] at h
        exact h.2
      · obtain ⟨d, rfl, hd⟩ := C02.delimTok_inv h
        have := (delim_ne d hd).2.2.2.1
        simp [isDirTok, this]

theorem inclToks_plain (dir : Str) (st : LexSt) {t : CTok} (h : isDirTok t = false) (r : List CTok) :
    inclToks dir st (t :: r) = ((inclToks dir st r).1, t :: (inclToks dir st r).2) := by
  simp only [inclToks, h, Bool.false_eq_true, if_false]

theorem inclToks_dir (dir : Str) (st : LexSt) {q : Option Char} {n : Str} (hn : isInclName q n = true) (r : List CTok) :
    inclToks dir st (.tok (.word (dirText q n)) :: r) =
      ((inclToks dir (stI dir st q n) r).1, .tok (.word (inclPh st.fresh.1)) :: (inclToks dir (stI dir st q n) r).2) := by
  simp only [inclToks, isDirTok_dir, if_true, CTok.text, STok.text, lexInclude_dir dir st hn]

theorem dropLast_snoc {α} : ∀ (l : List α) (a : α), l.getLast? = some a → l = l.dropLast ++ [a]
  | [], a, h => by simp at h
  | [b], a, h => by simp at h; simp [h]
  | b :: c :: l, a, h => by
    have : (c :: l).getLast? = some a := by simpa [List.getLast?_cons_cons] using h
    have ih := dropLast_snoc (c :: l) a this
    simp only [List.dropLast_cons_cons, List.cons_append]
    rw [← ih]

theorem mem_of_dropLast {α} {l : List α} {a : α} (h : a ∈ l.dropLast) : a ∈ l := (List.dropLast_sublist l).subset h

theorem dirGaps_cons {first : Bool} {t : CTok} {ts : List CTok} {g : Str} {gs : List Str} {tail : Str}
    (h : DirGapsOK first (t :: ts) (g :: gs) tail = true) :
    (isDirTok t = true →
      ((first = true ∧ g = []) ∨ ∃ brk, g.getLast? = some brk ∧ isLineBreak brk = true) ∧
      dirNext ts gs tail = true) ∧
    DirGapsOK false ts gs tail = true := by
  simp only [DirGapsOK, Bool.and_eq_true, Bool.or_eq_true, Bool.not_eq_true'] at h
  refine ⟨fun hd => ?_, h.2⟩
  rcases h.1 with h1 | h1
  · rw [hd] at h1; cases h1
  · refine ⟨?_, ?_⟩
    · rcases h1.1 with h2 | h2
      · exact Or.inl ⟨h2.1, by simpa using h2.2⟩
      · right
        cases hl : g.getLast? with
        | none => rw [hl] at h2; cases h2
        | some c => rw [hl] at h2; exact ⟨c, rfl, h2⟩
    · exact h1.2

/-- what follows a directive starts with a line feed -/
theorem dir_next {ts : List CTok} {gs : List Str} {tail : Str} (hg : GapsOKC ts gs tail = true)
    (h : dirNext ts gs tail = true) : (spreadC ts gs tail).head? = some '\n' := by
  cases ts with
  | nil => simpa [spreadC_nil, dirNext] using h
  | cons u ts =>
    cases gs with
    | nil => cases ts <;> simp [GapsOKC] at hg
    | cons g' gs =>
      rw [spreadC_cons]
      simp only [dirNext, List.headD_cons, beq_iff_eq] at h
      cases g' with
      | nil => simp at h
      | cons d g' => simpa using h

/-- **stages 1 and 2** on an admissible layout, seen from a token boundary that is preceded by a line break or by
    other text on the line: the state after stage 1; the first line is no directive; stage 2 over the remaining lines
    (from any state) replaces the directives -/
theorem stageA2 (cm : Bool) (dir : Str) : ∀ (ts : List CTok) (gaps : List Str) (tail : Str) (st : LexSt),
    (∀ t ∈ ts, AOKI t) → GapsOKC ts gaps tail = true → DirGapsOK false ts gaps tail = true → tail.all isWs = true →
    (LM cm st (spreadC ts gaps tail)).1 = (lineToks cm st ts).1 ∧
    H2 true (LM cm st (spreadC ts gaps tail)).2 ∧
    ∀ st2, TL dir st2 (LM cm st (spreadC ts gaps tail)).2 =
      ((inclToks dir st2 ts).1, spreadC (lineToks cm st (inclToks dir st2 ts).2).2 gaps tail)
  | [], gaps, tail, st, _, _, _, htail => by
    have hws := List.all_eq_true.mp htail
    have hpass := passA_plain tail [] fun c hc => ⟨(ws_ne (hws c hc)).1, (ws_ne (hws c hc)).2.1⟩
    obtain ⟨p1, _, _⟩ := LM_pass cm tail [] st hpass
    obtain ⟨q1, q2⟩ := LM_pass2 cm dir tail [] st hpass true (C02.Main.noHash_ws tail true htail)
      (by rw [LM_nil]; intro _ l hl; cases hl)
    simp only [List.append_nil, LM_nil] at p1 q1 q2
    rw [spreadC_nil]
    refine ⟨p1, q1, fun st2 => ?_⟩
    rw [q2 st2]
    simp [TL_nil, inclToks, lineToks, spreadC_nil]
  | t :: ts, gaps, tail, st, hts, hg, hd, htail => by
    obtain ⟨g, gs, rfl, hgws, hrest, hnext⟩ := gapsOKC_inv hg htail
    have hws := List.all_eq_true.mp hgws
    have hts' : ∀ u ∈ ts, AOKI u := fun u hu => hts u (by simp [hu])
    obtain ⟨hdt, hd'⟩ := dirGaps_cons hd
    rw [spreadC_cons]
    rcases hts t (by simp) with hA | ⟨q, n, rfl, hn⟩
    · -- a token that is no directive
      have hnd : isDirTok t = false := aok_notDir hA
      have hgpass := passA_plain g (t.text ++ spreadC ts gs tail)
        fun c hc => ⟨(ws_ne (hws c hc)).1, (ws_ne (hws c hc)).2.1⟩
      obtain ⟨p1, _, _⟩ := LM_pass cm g (t.text ++ spreadC ts gs tail) st hgpass
      suffices hin : (LM cm st (t.text ++ spreadC ts gs tail)).1 = (lineToks cm st (t :: ts)).1 ∧
          H2 true (LM cm st (t.text ++ spreadC ts gs tail)).2 ∧
          ∀ st2, (TL dir st2 (LM cm st (t.text ++ spreadC ts gs tail)).2).1 = (inclToks dir st2 (t :: ts)).1 ∧
            g ++ (TL dir st2 (LM cm st (t.text ++ spreadC ts gs tail)).2).2 =
              spreadC (lineToks cm st (inclToks dir st2 (t :: ts)).2).2 (g :: gs) tail by
        obtain ⟨q1, q2⟩ := LM_pass2 cm dir g (t.text ++ spreadC ts gs tail) st hgpass true
          (C02.Main.noHash_ws g true hgws) (h2_weaken hin.2.1 _)
        refine ⟨p1.trans hin.1, q1, fun st2 => ?_⟩
        rw [q2 st2, ← (hin.2.2 st2).1, ← (hin.2.2 st2).2]
      cases t with
      | tok a =>
        have ha : C02.TokOK a := hA
        obtain ⟨i1, i2, i3⟩ := stageA2 cm dir ts gs tail st hts' hrest hd' htail
        obtain ⟨r1, _, _⟩ := LM_pass cm a.text (spreadC ts gs tail) st (tok_passA ha hnext)
        obtain ⟨q1, q2⟩ := LM_pass2 cm dir a.text (spreadC ts gs tail) st (tok_passA ha hnext) true
          (C02.Main.noHash_tok ha true).1 (h2_weaken i2 _)
        simp only [CTok.text]
        refine ⟨r1.trans (by simpa only [lineToks] using i1), q1, fun st2 => ?_⟩
        rw [q2 st2, i3 st2, inclToks_plain dir st2 hnd]
        simp only [lineToks, spreadC_cons, CTok.text]
        exact ⟨trivial, trivial⟩
      | blockC x =>
        have hx : isBlockCText x = true := hA
        obtain ⟨i1, i2, i3⟩ := stageA2 cm dir ts gs tail st hts' hrest hd' htail
        have hpass : PassA ('/' :: '*' :: x ++ ['*', '/']) (spreadC ts gs tail) := by
          refine passA_of _ _ (blockTok_noSS hx) ?_
          intro hh
          exact (ws_ne (hnext.2 _ hh)).1 rfl
        obtain ⟨r1, _, _⟩ := LM_pass cm _ (spreadC ts gs tail) st hpass
        obtain ⟨q1, q2⟩ := LM_pass2 cm dir _ (spreadC ts gs tail) st hpass true
          (blockTok_noHash hx true).1 (h2_weaken i2 _)
        simp only [CTok.text]
        refine ⟨r1.trans (by simpa only [lineToks] using i1), q1, fun st2 => ?_⟩
        rw [q2 st2, i3 st2, inclToks_plain dir st2 hnd]
        simp only [lineToks, spreadC_cons, CTok.text]
        exact ⟨trivial, trivial⟩
      | lineC x =>
        have hx : isLineCText x = true := hA
        have hx' : ∀ c ∈ x, isLineBreak c = false := by
          simpa [isLineCText, List.all_eq_true] using hx
        obtain ⟨i1, i2, i3⟩ := stageA2 cm dir ts gs tail (stL st x) hts' hrest hd' htail
        obtain ⟨r1, _, _⟩ := LM_lineC cm st x (spreadC ts gs tail) hx' hnext.2
        obtain ⟨q1, q2⟩ := LM_lineC2 cm dir st x (spreadC ts gs tail) hx' hnext.2
        simp only [CTok.text]
        refine ⟨r1.trans (by simpa only [lineToks] using i1), q1, fun st2 => ?_⟩
        rw [q2 st2, i3 st2, inclToks_plain dir st2 hnd]
        simp only [lineToks, spreadC_cons, CTok.text, STok.text]
        exact ⟨trivial, trivial⟩
    · -- a directive
      obtain ⟨hgap, hnx⟩ := hdt (isDirTok_dir q n)
      have hQ := dir_next hrest hnx
      obtain ⟨brk, hlast, hbrk⟩ : ∃ brk, g.getLast? = some brk ∧ isLineBreak brk = true := by
        rcases hgap with ⟨hf, _⟩ | h
        · cases hf
        · exact h
      have hgsplit : g = g.dropLast ++ [brk] := dropLast_snoc g brk hlast
      have hws0 : ∀ c ∈ g.dropLast, isWs c = true := fun c hc => hws c (mem_of_dropLast hc)
      have hg0 : g.dropLast.all isWs = true := List.all_eq_true.mpr hws0
      obtain ⟨i1, i2, i3⟩ := stageA2 cm dir ts gs tail st hts' hrest hd' htail
      obtain ⟨d1, d2, d3⟩ := LM_dir cm dir st hn brk hbrk (spreadC ts gs tail) hQ (lineSt true g.dropLast)
      have hgpass := passA_plain g.dropLast (brk :: (dirText q n ++ spreadC ts gs tail))
        fun c hc => ⟨(ws_ne (hws0 c hc)).1, (ws_ne (hws0 c hc)).2.1⟩
      obtain ⟨p1, _, _⟩ := LM_pass cm g.dropLast _ st hgpass
      obtain ⟨q1, q2⟩ := LM_pass2 cm dir g.dropLast _ st hgpass true (C02.Main.noHash_ws _ true hg0) d2
      have etext : g ++ ((CTok.tok (.word (dirText q n))).text ++ spreadC ts gs tail) =
          g.dropLast ++ brk :: (dirText q n ++ spreadC ts gs tail) := by
        conv => lhs; rw [hgsplit]
        simp [CTok.text, STok.text]
      rw [etext]
      refine ⟨p1.trans (d1.trans (by simpa only [lineToks] using i1)), q1, fun st2 => ?_⟩
      rw [q2 st2, d3 st2, i3 (stI dir st2 q n), inclToks_dir dir st2 hn]
      simp only [lineToks, spreadC_cons, CTok.text, STok.text]
      conv => rhs; rw [hgsplit]
      simp

/-! ### the whole text: a line feed in front of it makes its start a line start like any other -/

theorem gapsOKC_nl {t : CTok} {ts : List CTok} {g : Str} {gs : List Str} {tail : Str}
    (h : GapsOKC (t :: ts) (g :: gs) tail = true) : GapsOKC (t :: ts) (('\n' :: g) :: gs) tail = true := by
  have hnl : isWs '\n' = true := by decide
  cases ts with
  | nil =>
    simp only [GapsOKC, Bool.and_eq_true, List.all_cons, hnl, Bool.true_and] at h ⊢
    refine ⟨h.1, ?_⟩
    cases t <;> simp_all
  | cons u ts =>
    cases gs with
    | nil => simp [GapsOKC] at h
    | cons g' gs =>
      simp only [GapsOKC, Bool.and_eq_true, List.all_cons, hnl, Bool.true_and] at h ⊢
      refine ⟨⟨h.1.1, ?_⟩, h.2⟩
      cases t <;> simp_all

theorem dirGaps_nl {t : CTok} {ts : List CTok} {g : Str} {gs : List Str} {tail : Str}
    (h : DirGapsOK true (t :: ts) (g :: gs) tail = true) : DirGapsOK false (t :: ts) (('\n' :: g) :: gs) tail = true := by
  obtain ⟨h1, h2⟩ := dirGaps_cons h
  simp only [DirGapsOK, Bool.and_eq_true, Bool.or_eq_true, Bool.not_eq_true', h2, and_true]
  cases hd : isDirTok t with
  | false => exact Or.inl rfl
  | true =>
    right
    obtain ⟨h3, h4⟩ := h1 hd
    refine ⟨Or.inr ?_, h4⟩
    rcases h3 with ⟨_, rfl⟩ | ⟨brk, hl, hb⟩
    · simp; decide
    · cases g with
      | nil => simp at hl
      | cons d g => rw [List.getLast?_cons_cons, hl]; exact hb

theorem spreadC_nl : ∀ (ts : List CTok) (g : Str) (gs : List Str) (tail : Str), ts ≠ [] →
    spreadC ts (('\n' :: g) :: gs) tail = '\n' :: spreadC ts (g :: gs) tail
  | [], _, _, _, h => absurd rfl h
  | t :: ts, g, gs, tail, _ => by simp [spreadC_cons]

theorem lineToks_ne (cm : Bool) (st : LexSt) : ∀ (ts : List CTok), ts ≠ [] → (lineToks cm st ts).2 ≠ []
  | [], h => absurd rfl h
  | .tok a :: r, _ => by simp [lineToks]
  | .lineC x :: r, _ => by simp [lineToks]
  | .blockC x :: r, _ => by simp [lineToks]

theorem inclToks_ne (dir : Str) (st : LexSt) : ∀ (ts : List CTok), ts ≠ [] → (inclToks dir st ts).2 ≠ []
  | [], h => absurd rfl h
  | t :: r, _ => by
    simp only [inclToks]
    split <;> simp

/-- **stages 1 and 2 on a whole text** -/
theorem stage12_key (cm : Bool) (dir : Str) (ts : List CTok) (gaps : List Str) (tail : Str) (st : LexSt)
    (hts : ∀ t ∈ ts, AOKI t) (hg : GapsOKC ts gaps tail = true) (hd : DirGapsOK true ts gaps tail = true)
    (htail : tail.all isWs = true) :
    (LM cm st (spreadC ts gaps tail)).1 = (lineToks cm st ts).1 ∧
    ∀ st2, incFlat dir st2 (LM cm st (spreadC ts gaps tail)).2 =
      ((inclToks dir st2 ts).1, spreadC (lineToks cm st (inclToks dir st2 ts).2).2 gaps tail) := by
  cases ts with
  | nil =>
    obtain ⟨a1, a2, a3⟩ := stageA2 cm dir [] gaps tail st hts hg (by simp [DirGapsOK]) htail
    exact ⟨a1, fun st2 => (incFlat_of_free dir st2 a2).trans (a3 st2)⟩
  | cons t ts =>
    obtain ⟨g, gs, rfl, _, _, _⟩ := gapsOKC_inv hg htail
    obtain ⟨b1, _, b3⟩ := stageA2 cm dir (t :: ts) (('\n' :: g) :: gs) tail st hts (gapsOKC_nl hg) (dirGaps_nl hd) htail
    rw [spreadC_nl _ _ _ _ (by simp), LM_break cm st _ C02.isLineBreak_nl (by simp)] at b1 b3
    refine ⟨b1, fun st2 => ?_⟩
    have := b3 st2
    rw [spreadC_nl _ _ _ _ (lineToks_ne cm st _ (inclToks_ne dir st2 _ (by simp))), TL_cons] at this
    simp only [List.singleton_append, Prod.mk.injEq, List.cons.injEq, true_and] at this
    simp only [incFlat, this.1, this.2]

/-- **the first two stages of the reader** on an admissible layout of a document with comments and directives:
    what remains is stage 3 on a layout of the tokens in which every line comment and every directive has become
    its placeholder word -/
theorem stages12I (cm : Bool) (dir : Str) (c : Counter) (ts : List CTok) (gaps : List Str) (tail : Str)
    (hts : ∀ t ∈ ts, AOKI t) (hg : GapsOKC ts gaps tail = true) (hd : DirGapsOK true ts gaps tail = true)
    (htail : tail.all isWs = true) :
    commentStages cm dir c (spreadC ts gaps tail) =
      ({ (inclToks dir (lineToks cm { counter := c } ts).1 ts).1 with
          blockC := (BL cm 0 [] (spreadC (lineToks cm { counter := c }
            (inclToks dir (lineToks cm { counter := c } ts).1 ts).2).2 gaps tail)).1 },
       (BL cm 0 [] (spreadC (lineToks cm { counter := c }
            (inclToks dir (lineToks cm { counter := c } ts).1 ts).2).2 gaps tail)).2) := by
  obtain ⟨a1, a2⟩ := stage12_key cm dir ts gaps tail { counter := c } hts hg hd htail
  have f1 := foldl_lineMap cm (splitLinesKeep (spreadC ts gaps tail)) { counter := c } []
  have f2 := foldl_incMap dir (LM cm { counter := c } (spreadC ts gaps tail)).2
    (LM cm { counter := c } (spreadC ts gaps tail)).1 []
  have a3 := a2 (LM cm { counter := c } (spreadC ts gaps tail)).1
  simp only [incFlat, Prod.mk.injEq] at a3
  simp only [List.nil_append] at f1 f2
  unfold commentStages
  simp only [f1]
  simp only [LM] at f2 a1 a3
  simp only [f2]
  simp only [a3.1, a3.2]
  simp only [a1]
  rfl

/-! ## 5. stage 3, and the result against `labelCToks` -/

theorem kwIncl_facts : ∀ c ∈ kwIncl, isQuote c = false ∧ c ≠ '$' ∧ c ≠ '\\' ∧ c ≠ 'S' ∧ c ≠ 'X' ∧ c ≠ '/' ∧
    c ≠ '*' ∧ c ≠ '#' ∧ c ≠ ':' ∧ isLineBreak c = false ∧ isWs c = false ∧ Gen.delimiters.contains c = false := by
  decide

theorem inclPh_facts (i : Nat) : ∀ c ∈ inclPh i, isQuote c = false ∧ c ≠ '$' ∧ c ≠ '\\' ∧ c ≠ 'S' ∧ c ≠ 'X' ∧ c ≠ '/' ∧
    c ≠ '*' ∧ c ≠ '#' ∧ c ≠ ':' ∧ isLineBreak c = false ∧ isWs c = false := by
  intro c hc
  rcases List.mem_append.mp hc with h | h
  · have := kwIncl_facts c h
    exact ⟨this.1, this.2.1, this.2.2.1, this.2.2.2.1, this.2.2.2.2.1, this.2.2.2.2.2.1, this.2.2.2.2.2.2.1,
      this.2.2.2.2.2.2.2.1, this.2.2.2.2.2.2.2.2.1, this.2.2.2.2.2.2.2.2.2.1, this.2.2.2.2.2.2.2.2.2.2.1⟩
  · have h1 := digit_facts c (C02.padSix_ascii i c h)
    have h2 := C02.asciiDigits_facts c (C02.padSix_ascii i c h)
    exact ⟨h1.1, h1.2.1, h1.2.2.1, h1.2.2.2.1, h1.2.2.2.2.1, h1.2.2.2.2.2.1, h1.2.2.2.2.2.2.1, h1.2.2.2.2.2.2.2.1,
      h1.2.2.2.2.2.2.2.2.1, h1.2.2.2.2.2.2.2.2.2, h2.2.1⟩

/-- the include placeholder `INCLUDE%06d` is a word token and a placeholder token -/
theorem inclPh_tok (i : Nat) : isWordTok (inclPh i) = true ∧ isPhTok (inclPh i) = true := by
  constructor
  · have h : ∀ c ∈ inclPh i, isWs c = false ∧ Gen.delimiters.contains c = false := by
      intro c hc
      rcases List.mem_append.mp hc with h | h
      · exact ⟨(kwIncl_facts c h).2.2.2.2.2.2.2.2.2.2.1, (kwIncl_facts c h).2.2.2.2.2.2.2.2.2.2.2⟩
      · have := C02.asciiDigits_facts c (C02.padSix_ascii i c h)
        exact ⟨this.2.1, this.2.2.1⟩
    have e : inclPh i = 'I' :: 'N' :: ("CLUDE".toList ++ padSix i) := rfl
    rw [e] at h ⊢
    simp only [isWordTok, List.isEmpty_cons, Bool.not_false, Bool.true_and, Bool.and_true, List.all_eq_true,
      Bool.and_eq_true, Bool.not_eq_true']
    exact fun c hc => ⟨(h c hc).1, (h c hc).2⟩
  · have : isIncludeTok (inclPh i) = true := by
      unfold isIncludeTok
      rw [C01.isInfix_iff]
      exact ⟨[], padSix i, rfl⟩
    simp [isPhTok, this]

/-- what `GapsOKC` looks at -/
def kind : CTok → Nat × Bool
  | .tok a => (0, isDelimSTok a)
  | .lineC _ => (1, false)
  | .blockC _ => (2, false)

theorem gapsOKC_kind : ∀ (ts ts' : List CTok) (gaps : List Str) (tail : Str), ts.map kind = ts'.map kind →
    GapsOKC ts gaps tail = GapsOKC ts' gaps tail
  | [], [], _, _, _ => rfl
  | [], _ :: _, _, _, h => by simp at h
  | _ :: _, [], _, _, h => by simp at h
  | [t], [t'], [], _, _ => by simp [GapsOKC]
  | [t], [t'], g :: gs, tail, h => by
    cases t <;> cases t' <;> simp [kind] at h <;> simp [GapsOKC]
  | [t], _ :: _ :: _, _, _, h => by simp at h
  | _ :: _ :: _, [t'], _, _, h => by simp at h
  | t :: u :: ts, t' :: u' :: ts', [], _, _ => by simp [GapsOKC]
  | t :: u :: ts, t' :: u' :: ts', [g], _, _ => by simp [GapsOKC]
  | t :: u :: ts, t' :: u' :: ts', g :: g' :: gs, tail, h => by
    simp only [List.map_cons, List.cons.injEq] at h
    have ih := gapsOKC_kind (u :: ts) (u' :: ts') (g' :: gs) tail (by simp [h.2.1, h.2.2])
    simp only [GapsOKC, ih]
    congr 2
    cases t <;> cases t' <;> simp [kind] at h <;> try rfl
    rename_i a a'
    cases u <;> cases u' <;> simp [kind] at h <;> simp [h]

theorem dir_not_delim (q : Option Char) (n : Str) : isDelimSTok (.word (dirText q n)) = false := by
  rw [dirText_eq]; rfl

theorem inclToks_kind (dir : Str) : ∀ (ts : List CTok) (st : LexSt), (∀ t ∈ ts, AOKI t) →
    (inclToks dir st ts).2.map kind = ts.map kind
  | [], _, _ => rfl
  | t :: r, st, h => by
    rcases h t (by simp) with hA | ⟨q, n, rfl, hn⟩
    · rw [inclToks_plain dir st (aok_notDir hA)]
      simp only [List.map_cons, inclToks_kind dir r st (fun u hu => h u (by simp [hu]))]
    · rw [inclToks_dir dir st hn]
      simp only [List.map_cons, inclToks_kind dir r _ (fun u hu => h u (by simp [hu])), kind, dir_not_delim,
        word_not_delim (inclPh_tok _).1]

/-- a token after stage 2 -/
def AOKM (t : CTok) : Prop := AOK t ∨ ∃ i, t = .tok (.word (inclPh i))

theorem inclToks_aokm (dir : Str) : ∀ (ts : List CTok) (st : LexSt), (∀ t ∈ ts, AOKI t) →
    ∀ t ∈ (inclToks dir st ts).2, AOKM t
  | [], _, _, t, ht => by simp [inclToks] at ht
  | t :: r, st, h, u, hu => by
    have ih := inclToks_aokm dir r
    rcases h t (by simp) with hA | ⟨q, n, rfl, hn⟩
    · rw [inclToks_plain dir st (aok_notDir hA)] at hu
      rcases List.mem_cons.mp hu with rfl | hu
      · exact Or.inl hA
      · exact ih st (fun v hv => h v (by simp [hv])) u hu
    · rw [inclToks_dir dir st hn] at hu
      rcases List.mem_cons.mp hu with rfl | hu
      · exact Or.inr ⟨_, rfl⟩
      · exact ih _ (fun v hv => h v (by simp [hv])) u hu

theorem lineToks_from (cm : Bool) : ∀ (ts : List CTok) (st : LexSt), ∀ u ∈ (lineToks cm st ts).2,
    ∃ t ∈ ts, ∃ st', u ∈ (lineToks cm st' [t]).2
  | [], _, u, hu => by simp [lineToks] at hu
  | .tok a :: r, st, u, hu => by
    simp only [lineToks, List.mem_cons] at hu
    rcases hu with rfl | hu
    · exact ⟨.tok a, by simp, st, by simp [lineToks]⟩
    · obtain ⟨t, ht, st', h⟩ := lineToks_from cm r st u hu
      exact ⟨t, by simp [ht], st', h⟩
  | .blockC x :: r, st, u, hu => by
    simp only [lineToks, List.mem_cons] at hu
    rcases hu with rfl | hu
    · exact ⟨.blockC x, by simp, st, by simp [lineToks]⟩
    · obtain ⟨t, ht, st', h⟩ := lineToks_from cm r st u hu
      exact ⟨t, by simp [ht], st', h⟩
  | .lineC x :: r, st, u, hu => by
    simp only [lineToks, List.mem_cons] at hu
    rcases hu with rfl | hu
    · exact ⟨.lineC x, by simp, st, by simp [lineToks]⟩
    · obtain ⟨t, ht, st', h⟩ := lineToks_from cm r _ u hu
      exact ⟨t, by simp [ht], st', h⟩

theorem lineToks_BOK' (cm : Bool) (ts : List CTok) (st : LexSt) (h : ∀ t ∈ ts, AOKM t) :
    ∀ t ∈ (lineToks cm st ts).2, BOK t := by
  intro u hu
  obtain ⟨t, ht, st', hu'⟩ := lineToks_from cm ts st u hu
  rcases h t ht with hA | ⟨i, rfl⟩
  · exact lineToks_BOK cm [t] st' (fun v hv => by simp at hv; subst hv; exact hA) u hu'
  · simp only [lineToks, List.mem_singleton] at hu'
    subst hu'
    have hph : ∀ c ∈ inclPh i, c ≠ '/' := fun c hc => (inclPh_facts i c hc).2.2.2.2.2.1
    exact ⟨C02.isInfix_head_notin '/' _ _ (fun hm => hph _ hm rfl), fun _ => hph⟩

theorem lexInclude_fields (dir : Str) (st : LexSt) (l : Str) :
    (lexInclude dir st l).1.lineC = st.lineC ∧ (lexInclude dir st l).1.blockC = st.blockC ∧
    (lexInclude dir st l).1.lits = st.lits ∧ (lexInclude dir st l).1.exprs = st.exprs := by
  unfold lexInclude
  split <;> simp [LexSt.fresh]

/-- stage 2 touches the counter and the include table only -/
theorem inclToks_fields (dir : Str) : ∀ (ts : List CTok) (st : LexSt),
    (inclToks dir st ts).1.lineC = st.lineC ∧ (inclToks dir st ts).1.blockC = st.blockC ∧
    (inclToks dir st ts).1.lits = st.lits ∧ (inclToks dir st ts).1.exprs = st.exprs
  | [], _ => ⟨rfl, rfl, rfl, rfl⟩
  | t :: r, st => by
    simp only [inclToks]
    split
    · obtain ⟨a1, a2, a3, a4⟩ := inclToks_fields dir r (lexInclude dir st (t.text ++ ['\n'])).1
      obtain ⟨b1, b2, b3, b4⟩ := lexInclude_fields dir st (t.text ++ ['\n'])
      exact ⟨a1.trans b1, a2.trans b2, a3.trans b3, a4.trans b4⟩
    · exact inclToks_fields dir r st

/-- the comment labelling does not look at what a word says -/
theorem labelCToks_inclToks (dir : Str) : ∀ (ts : List CTok) (s : CLabelSt) (st2 : LexSt),
    (labelCToks s (inclToks dir st2 ts).2).1 = (labelCToks s ts).1
  | [], _, _ => rfl
  | .tok a :: r, s, st2 => by
    simp only [inclToks]
    split <;> simp only [labelCToks_tok, labelCToks_inclToks dir r]
  | .lineC x :: r, s, st2 => by
    rw [inclToks_plain dir st2 rfl, labelCToks_lineC, labelCToks_lineC, labelCToks_inclToks dir r]
  | .blockC x :: r, s, st2 => by
    rw [inclToks_plain dir st2 rfl, labelCToks_blockC, labelCToks_blockC, labelCToks_inclToks dir r]

theorem gapsOKI_iff {ts : List CTok} {gaps : List Str} {tail : Str} :
    GapsOKI ts gaps tail = true ↔ GapsOKC ts gaps tail = true ∧ DirGapsOK true ts gaps tail = true := by
  simp [GapsOKI]

theorem lexSt_eq {a b : LexSt} (h1 : a.counter = b.counter) (h2 : a.lineC = b.lineC) (h3 : a.incl = b.incl)
    (h4 : a.blockC = b.blockC) (h5 : a.lits = b.lits) (h6 : a.exprs = b.exprs) : a = b := by
  cases a; cases b; simp_all

/-- **the three stages, token form.**  On an admissible layout of admissible tokens (source tokens, comments,
    directives) the three stages, comments on, leave: the counter after all line comments and then all directives;
    the comment tables of `labelCToks`; the include table stage 2 builds (`inclToks`); and a layout of the labelled
    tokens in which every directive has become its placeholder word. -/
theorem include_stages_toks {ts : List CTok} {gaps : List Str} {tail : Str} (dir : Str) (c : Counter)
    (hts : ∀ t ∈ ts, AOKI t) (hg : GapsOKI ts gaps tail = true) (htail : tail.all isWs = true) :
    commentStages true dir c (spreadC ts gaps tail) =
      ({ counter := (inclToks dir (lineToks true { counter := c } ts).1 ts).1.counter,
         lineC := (labelCToks { counter := c } (inclToks dir (lineToks true { counter := c } ts).1 ts).2).1.lineC,
         incl := (inclToks dir (lineToks true { counter := c } ts).1 ts).1.incl,
         blockC := (labelCToks { counter := c } (inclToks dir (lineToks true { counter := c } ts).1 ts).2).1.blockC },
       spreadS (labelCToks { counter := c } (inclToks dir (lineToks true { counter := c } ts).1 ts).2).2
         (padGaps false (inclToks dir (lineToks true { counter := c } ts).1 ts).2 gaps tail).1
         (padGaps false (inclToks dir (lineToks true { counter := c } ts).1 ts).2 gaps tail).2) ∧
    GapsOKS (labelCToks { counter := c } (inclToks dir (lineToks true { counter := c } ts).1 ts).2).2
      (padGaps false (inclToks dir (lineToks true { counter := c } ts).1 ts).2 gaps tail).1 = true ∧
    (padGaps false (inclToks dir (lineToks true { counter := c } ts).1 ts).2 gaps tail).2.all isWs = true := by
  obtain ⟨hgc, hgd⟩ := gapsOKI_iff.mp hg
  have h12 := stages12I true dir c ts gaps tail hts hgc hgd htail
  obtain ⟨t1, _⟩ := stages_state true ts { counter := c } []
  generalize hst1 : (lineToks true { counter := c } ts).1 = st1 at h12 t1 ⊢
  have hgm : GapsOKC (inclToks dir st1 ts).2 gaps tail = true := by
    rw [gapsOKC_kind _ ts gaps tail (inclToks_kind dir ts st1 hts)]; exact hgc
  obtain ⟨f1, f2, f3, f4⟩ := inclToks_fields dir ts st1
  have hlab := labelCToks_inclToks dir ts { counter := c } st1
  generalize htm : (inclToks dir st1 ts).2 = tsm at h12 hgm hlab ⊢
  have hB := stageB true (lineToks true { counter := c } tsm).2 gaps tail 0 []
    (lineToks_BOK' true tsm _ (by rw [← htm]; exact inclToks_aokm dir ts st1 hts))
    (gapsOKC_lineToks true tsm gaps tail _ hgm) htail
  obtain ⟨_, s2⟩ := stages_state true tsm { counter := c } []
  have s3 := stages_texts_on tsm { counter := c } []
  have hrel := relToks_label tsm { counter := c }
  have e1 := on_text tsm _ false gaps tail hrel
  have e2 := on_gaps tsm _ false gaps tail hrel hgm htail
  simp only [List.length_nil] at s2 s3
  refine ⟨?_, e2⟩
  rw [h12, hB, s2, s3, ← e1]
  refine Prod.ext (lexSt_eq rfl ?_ rfl rfl ?_ ?_) rfl
  · show (inclToks dir st1 ts).1.lineC = _
    rw [f1, t1]
    show (labelCToks { counter := c } ts).1.lineC = _
    rw [← hlab]
  · show (inclToks dir st1 ts).1.lits = _
    rw [f3, t1]
  · show (inclToks dir st1 ts).1.exprs = _
    rw [f4, t1]

/-! ## 6. the bridges between the token view and the document view -/

mutual
  theorem itoksV_ok : ∀ (v : ISrc) (d : Nat), ISrcWFV d v = true → ∀ t ∈ itoksV v, AOKI t
    | .lit l, d, h, t, ht => by
      simp only [ISrcWFV, Bool.and_eq_true] at h
      simp only [itoksV, List.mem_singleton] at ht
      subst ht
      cases l with
      | bare w => exact Or.inl (Or.inl h.1)
      | quoted q b => exact Or.inl h.1
    | .dict items, d, h, t, ht => by
      simp only [ISrcWFV] at h
      simp only [itoksV, List.mem_cons, List.mem_append, List.not_mem_nil, or_false] at ht
      rcases ht with (rfl | ht) | rfl
      · exact Or.inl (C02.tokOK_delim (by decide))
      · exact itoksI_ok items (d + 1) h t ht
      · exact Or.inl (C02.tokOK_delim (by decide))
    | .list xs, d, h, t, ht => by
      simp only [ISrcWFV] at h
      simp only [itoksV, List.mem_cons, List.mem_append, List.not_mem_nil, or_false, List.mem_map] at ht
      rcases ht with (rfl | ⟨a, ha, rfl⟩) | rfl
      · exact Or.inl (C02.tokOK_delim (by decide))
      · exact Or.inl (C02.srcToksXs_ok xs (d + 1) h a ha)
      · exact Or.inl (C02.tokOK_delim (by decide))
  /-- every token of a well-formed document is admissible -/
  theorem itoksI_ok : ∀ (items : List IItem) (d : Nat), ISrcWFItems d items = true → ∀ t ∈ itoksItems items, AOKI t
    | [], _, _, t, ht => by simp [itoksItems] at ht
    | .entry k (.lit l) :: r, d, h, t, ht => by
      simp only [ISrcWFItems, Bool.and_eq_true] at h
      obtain ⟨⟨⟨hk, _⟩, hv⟩, hr⟩ := h
      simp only [itoksItems, List.mem_cons] at ht
      rcases ht with rfl | rfl | rfl | ht
      · exact Or.inl (Or.inl hk)
      · exact itoksV_ok (.lit l) d hv _ (by simp [itoksV])
      · exact Or.inl (C02.tokOK_delim (by decide))
      · exact itoksI_ok r d hr t ht
    | .entry k (.dict dd) :: r, d, h, t, ht => by
      simp only [ISrcWFItems, ISrcWFV, Bool.and_eq_true] at h
      obtain ⟨⟨⟨hk, _⟩, hv⟩, hr⟩ := h
      simp only [itoksItems, List.mem_cons, List.mem_append, List.not_mem_nil, or_false] at ht
      rcases ht with ((rfl | rfl | ht) | rfl) | ht
      · exact Or.inl (Or.inl hk)
      · exact Or.inl (C02.tokOK_delim (by decide))
      · exact itoksI_ok dd (d + 1) hv t ht
      · exact Or.inl (C02.tokOK_delim (by decide))
      · exact itoksI_ok r d hr t ht
    | .entry k (.list l) :: r, d, h, t, ht => by
      simp only [ISrcWFItems, ISrcWFV, Bool.and_eq_true] at h
      obtain ⟨⟨⟨hk, _⟩, hv⟩, hr⟩ := h
      simp only [itoksItems, List.mem_cons, List.mem_append, List.not_mem_nil, or_false, List.mem_map] at ht
      rcases ht with ((rfl | rfl | ⟨a, ha, rfl⟩) | rfl | rfl) | ht
      · exact Or.inl (Or.inl hk)
      · exact Or.inl (C02.tokOK_delim (by decide))
      · exact Or.inl (C02.srcToksXs_ok l (d + 1) hv a ha)
      · exact Or.inl (C02.tokOK_delim (by decide))
      · exact Or.inl (C02.tokOK_delim (by decide))
      · exact itoksI_ok r d hr t ht
    | .lineC x :: r, d, h, t, ht => by
      simp only [ISrcWFItems, Bool.and_eq_true] at h
      simp only [itoksItems, List.mem_cons] at ht
      rcases ht with rfl | ht
      · exact Or.inl h.1
      · exact itoksI_ok r d h.2 t ht
    | .blockC x :: r, d, h, t, ht => by
      simp only [ISrcWFItems, Bool.and_eq_true] at h
      simp only [itoksItems, List.mem_cons] at ht
      rcases ht with rfl | ht
      · exact Or.inl h.1
      · exact itoksI_ok r d h.2 t ht
    | .incl q n :: r, d, h, t, ht => by
      simp only [ISrcWFItems, Bool.and_eq_true] at h
      simp only [itoksItems, List.mem_cons] at ht
      rcases ht with rfl | ht
      · exact Or.inr ⟨q, n, rfl, h.1⟩
      · exact itoksI_ok r d h.2 t ht
end

theorem inclToks_append (dir : Str) : ∀ (a b : List CTok) (st : LexSt),
    inclToks dir st (a ++ b) =
      ((inclToks dir (inclToks dir st a).1 b).1, (inclToks dir st a).2 ++ (inclToks dir (inclToks dir st a).1 b).2)
  | [], b, st => rfl
  | t :: a, b, st => by
    simp only [List.cons_append, inclToks]
    split
    · rw [inclToks_append dir a b]; rfl
    · rw [inclToks_append dir a b]; rfl

theorem inclToks_toks (dir : Str) (st : LexSt) : ∀ (l : List STok), (∀ a ∈ l, C02.TokOK a) →
    inclToks dir st (l.map .tok) = (st, l.map .tok)
  | [], _ => rfl
  | a :: l, h => by
    rw [List.map_cons, inclToks_plain dir st (aok_notDir (t := .tok a) (h a (by simp))),
      inclToks_toks dir st l (fun b hb => h b (by simp [hb]))]

/-- the labelling state made of the comment part and of the counter and include table of the lexer state -/
def ist (cst : CLabelSt) (st2 : LexSt) : ILabelSt := { c := cst, icounter := st2.counter, incl := st2.incl }

theorem delimTok_ok {c : Char} (h : Gen.delimiters.contains c = true) : isDirTok (.tok (.word [c])) = false :=
  aok_notDir (t := .tok (.word [c])) (C02.tokOK_delim h)

theorem lit_notDir {l : Lit} (h : l.ok = true) : isDirTok (.tok l.tok) = false := by
  cases l with
  | bare w => exact aok_notDir (t := .tok (.word w)) (Or.inl h)
  | quoted q b => rfl

theorem ist_eq {a b : ILabelSt} (h1 : a.c = b.c) (h2 : a.icounter = b.icounter) (h3 : a.incl = b.incl) : a = b := by
  cases a; cases b; simp_all

mutual
  theorem bridgeV (dir : Str) : ∀ (v : ISrc) (d : Nat) (cst : CLabelSt) (st2 : LexSt), ISrcWFV d v = true →
      ist (labelCToks cst (inclToks dir st2 (itoksV v)).2).1 (inclToks dir st2 (itoksV v)).1 =
        (labelIV dir (ist cst st2) v).1 ∧
      (labelCToks cst (inclToks dir st2 (itoksV v)).2).2 = srcToksPV (labelIV dir (ist cst st2) v).2
    | .lit l, d, cst, st2, h => by
      simp only [ISrcWFV, Bool.and_eq_true] at h
      simp only [itoksV, inclToks_plain dir st2 (lit_notDir h.1), inclToks, labelCToks_tok, labelCToks, labelIV,
        srcToksPV, and_self]
    | .dict items, d, cst, st2, h => by
      simp only [ISrcWFV] at h
      obtain ⟨ih1, ih2⟩ := bridgeI dir items (d + 1) cst st2 h
      simp only [itoksV, labelIV, srcToksPV, List.cons_append]
      rw [inclToks_plain dir st2 (delimTok_ok (by decide)), inclToks_append,
        inclToks_plain dir _ (delimTok_ok (c := '}') (by decide))]
      simp only [inclToks, labelCToks_tok, labelCToks_append, labelCToks]
      exact ⟨ih1, by rw [ih2]⟩
    | .list xs, d, cst, st2, h => by
      simp only [ISrcWFV] at h
      simp only [itoksV, labelIV, srcToksPV, List.cons_append]
      rw [inclToks_plain dir st2 (delimTok_ok (by decide)), inclToks_append,
        inclToks_toks dir st2 _ (C02.srcToksXs_ok xs (d + 1) h),
        inclToks_plain dir _ (delimTok_ok (c := ')') (by decide))]
      simp only [inclToks, labelCToks_tok, labelCToks_append, labelCToks_map, labelCToks, and_self]
  /-- **bridge**: labelling the tokens (stage 2 on the directive tokens, `labelCToks` on the rest) is labelling the
      document -/
  theorem bridgeI (dir : Str) : ∀ (items : List IItem) (d : Nat) (cst : CLabelSt) (st2 : LexSt),
      ISrcWFItems d items = true →
      ist (labelCToks cst (inclToks dir st2 (itoksItems items)).2).1 (inclToks dir st2 (itoksItems items)).1 =
        (labelIItems dir (ist cst st2) items).1 ∧
      (labelCToks cst (inclToks dir st2 (itoksItems items)).2).2 = srcToksPEs (labelIItems dir (ist cst st2) items).2
    | [], _, cst, st2, _ => by
      simp only [itoksItems, inclToks, labelCToks, labelIItems, srcToksPEs, and_self]
    | .entry k (.lit l) :: r, d, cst, st2, h => by
      simp only [ISrcWFItems, ISrcWFV, Bool.and_eq_true] at h
      obtain ⟨⟨⟨hk, _⟩, hv⟩, hr⟩ := h
      have hph : isPhTok k = false := (C02.srcWord_facts hk).2.1
      have hkd : isDirTok (.tok (.word k)) = false := aok_notDir (t := .tok (.word k)) (Or.inl hk)
      obtain ⟨ir1, ir2⟩ := bridgeI dir r d cst st2 hr
      simp only [itoksItems, labelIItems, labelIV, srcToksPEs, hph]
      rw [inclToks_plain dir st2 hkd, inclToks_plain dir st2 (lit_notDir hv.1),
        inclToks_plain dir st2 (delimTok_ok (c := ';') (by decide))]
      simp only [labelCToks_tok]
      exact ⟨ir1, by rw [ir2]; rfl⟩
    | .entry k (.dict dd) :: r, d, cst, st2, h => by
      simp only [ISrcWFItems, ISrcWFV, Bool.and_eq_true] at h
      obtain ⟨⟨⟨hk, _⟩, hv⟩, hr⟩ := h
      have hkd : isDirTok (.tok (.word k)) = false := aok_notDir (t := .tok (.word k)) (Or.inl hk)
      obtain ⟨iv1, iv2⟩ := bridgeI dir dd (d + 1) cst st2 hv
      obtain ⟨ir1, ir2⟩ := bridgeI dir r d (labelCToks cst (inclToks dir st2 (itoksItems dd)).2).1
        (inclToks dir st2 (itoksItems dd)).1 hr
      rw [iv1] at ir1 ir2
      simp only [itoksItems, labelIItems, labelIV, srcToksPEs, List.cons_append, List.append_assoc, List.nil_append]
      rw [inclToks_plain dir st2 hkd, inclToks_plain dir st2 (delimTok_ok (c := '{') (by decide)), inclToks_append,
        inclToks_plain dir _ (delimTok_ok (c := '}') (by decide))]
      simp only [labelCToks_tok, labelCToks_append]
      exact ⟨ir1, by rw [iv2, ir2]⟩
    | .entry k (.list xs) :: r, d, cst, st2, h => by
      simp only [ISrcWFItems, ISrcWFV, Bool.and_eq_true] at h
      obtain ⟨⟨⟨hk, _⟩, hv⟩, hr⟩ := h
      have hkd : isDirTok (.tok (.word k)) = false := aok_notDir (t := .tok (.word k)) (Or.inl hk)
      obtain ⟨ir1, ir2⟩ := bridgeI dir r d cst st2 hr
      simp only [itoksItems, labelIItems, labelIV, srcToksPEs, List.cons_append, List.append_assoc, List.nil_append]
      rw [inclToks_plain dir st2 hkd, inclToks_plain dir st2 (delimTok_ok (c := '(') (by decide)), inclToks_append,
        inclToks_toks dir st2 _ (C02.srcToksXs_ok xs (d + 1) hv),
        inclToks_plain dir _ (delimTok_ok (c := ')') (by decide)),
        inclToks_plain dir _ (delimTok_ok (c := ';') (by decide))]
      simp only [labelCToks_tok, labelCToks_append, labelCToks_map]
      exact ⟨ir1, by rw [ir2]⟩
    | .lineC x :: r, d, cst, st2, h => by
      simp only [ISrcWFItems, Bool.and_eq_true] at h
      obtain ⟨ih1, ih2⟩ := bridgeI dir r d (stLine cst x) st2 h.2
      have hp := (linePh_tok (idLine cst)).2
      simp only [itoksItems, labelIItems, srcToksPEs]
      rw [inclToks_plain dir st2 rfl, labelCToks_lineC]
      refine ⟨ih1, ?_⟩
      simp only [ih2]
      simp only [stLine, idLine, linePh, ist] at hp ⊢
      simp [hp, Lit.tok]
    | .blockC x :: r, d, cst, st2, h => by
      simp only [ISrcWFItems, Bool.and_eq_true] at h
      obtain ⟨ih1, ih2⟩ := bridgeI dir r d (stBlock cst x) st2 h.2
      have hp := (blockPh_tok cst.blockC.length).2
      simp only [itoksItems, labelIItems, srcToksPEs]
      rw [inclToks_plain dir st2 rfl, labelCToks_blockC]
      refine ⟨ih1, ?_⟩
      simp only [ih2]
      simp only [stBlock, blockPh, ist] at hp ⊢
      simp [hp, Lit.tok]
    | .incl q n :: r, d, cst, st2, h => by
      simp only [ISrcWFItems, Bool.and_eq_true] at h
      obtain ⟨ih1, ih2⟩ := bridgeI dir r d cst (stI dir st2 q n) h.2
      have hp := (inclPh_tok st2.fresh.1).2
      simp only [itoksItems, labelIItems, srcToksPEs]
      rw [inclToks_dir dir st2 h.1, labelCToks_tok]
      refine ⟨ih1, ?_⟩
      simp only [ih2]
      simp only [ist, stI, LexSt.fresh] at hp ⊢
      simp [hp, Lit.tok]
end

mutual
  theorem labelledI_wfV (dir : Str) : ∀ (v : ISrc) (d : Nat) (st : ILabelSt), ISrcWFV d v = true →
      SrcPWFV d (labelIV dir st v).2 = true
    | .lit l, d, st, h => by simpa only [ISrcWFV, labelIV, SrcPWFV] using h
    | .dict items, d, st, h => by
      simp only [ISrcWFV] at h
      simp only [labelIV, SrcPWFV]
      exact labelledI_wfI dir items (d + 1) st h
    | .list xs, d, st, h => by simpa only [ISrcWFV, labelIV, SrcPWFV] using h
  /-- the labelled document is a well-formed labelled document -/
  theorem labelledI_wfI (dir : Str) : ∀ (items : List IItem) (d : Nat) (st : ILabelSt), ISrcWFItems d items = true →
      SrcPWFEs d (labelIItems dir st items).2 = true
    | [], _, st, _ => by simp only [labelIItems, SrcPWFEs]
    | .entry k v :: r, d, st, h => by
      simp only [ISrcWFItems, Bool.and_eq_true] at h
      obtain ⟨⟨⟨hk, hkey⟩, hv⟩, hr⟩ := h
      have hph : isPhTok k = false := (C02.srcWord_facts hk).2.1
      simp only [labelIItems, SrcPWFEs, hph, Bool.false_eq_true, if_false, Bool.and_eq_true]
      exact ⟨⟨⟨hk, hkey⟩, labelledI_wfV dir v d st hv⟩, labelledI_wfI dir r d _ hr⟩
    | .lineC x :: r, d, st, h => by
      simp only [ISrcWFItems, Bool.and_eq_true] at h
      have hp : isWordTok (linePh (idLine st.c)) = true ∧ isPhTok (linePh (idLine st.c)) = true := linePh_tok _
      have ih := labelledI_wfI dir r d
        { st with c := { st.c with counter := (Counter.next Gen.counterLimit st.c.counter).2,
                                   lineC := st.c.lineC.set (Counter.next Gen.counterLimit st.c.counter).1 ('/' :: '/' :: x) } } h.2
      simp only [labelIItems, SrcPWFEs]
      simp only [idLine] at hp
      simp only [hp.2, if_true, ih, Bool.and_true]
      exact ph_entry_ok hp.1 (linePh_facts _)
    | .blockC x :: r, d, st, h => by
      simp only [ISrcWFItems, Bool.and_eq_true] at h
      have hp : isWordTok (blockPh st.c.blockC.length) = true ∧ isPhTok (blockPh st.c.blockC.length) = true :=
        blockPh_tok _
      have ih := labelledI_wfI dir r d
        { st with c := { st.c with blockC := st.c.blockC ++ [(st.c.blockC.length, '/' :: '*' :: x ++ ['*', '/'])] } } h.2
      simp only [labelIItems, SrcPWFEs]
      simp only [hp.2, if_true, ih, Bool.and_true]
      exact ph_entry_ok hp.1 (blockPh_facts _)
    | .incl q n :: r, d, st, h => by
      simp only [ISrcWFItems, Bool.and_eq_true] at h
      have hp := inclPh_tok (Counter.next Gen.counterLimit st.icounter).1
      have ih := labelledI_wfI dir r d
        { st with icounter := (Counter.next Gen.counterLimit st.icounter).2,
                  incl := st.incl.set (Counter.next Gen.counterLimit st.icounter).1 (inclEntry dir q n) } h.2
      simp only [labelIItems, SrcPWFEs]
      simp only [hp.2, if_true, ih, Bool.and_true]
      exact ph_entry_ok hp.1 (inclPh_facts _)
end

mutual
  theorem countQuoted_labelIV (dir : Str) : ∀ (v : ISrc) (st : ILabelSt),
      C02.countQuotedV (labelIV dir st v).2 = C02.countQuotedV (plainIV v)
    | .lit l, st => by simp only [labelIV, plainIV]
    | .dict items, st => by
      simp only [labelIV, plainIV, C02.countQuotedV]
      exact countQuoted_labelII dir items st
    | .list xs, st => by simp only [labelIV, plainIV]
  /-- placeholder entries hold a bare word: the labelled document has the quoted strings of the plain one -/
  theorem countQuoted_labelII (dir : Str) : ∀ (items : List IItem) (st : ILabelSt),
      countQuotedEs' (labelIItems dir st items).2 = C02.countQuotedEs (plainIItems items)
    | [], st => by simp only [labelIItems, plainIItems]
    | .entry k v :: r, st => by
      simp only [labelIItems, plainIItems, C02.countQuotedEs, countQuoted_labelIV dir v st]
      exact congrArg _ (countQuoted_labelII dir r _)
    | .lineC x :: r, st => by
      simp only [labelIItems, plainIItems, C02.countQuotedEs, C02.countQuotedV, Nat.zero_add]
      exact countQuoted_labelII dir r _
    | .blockC x :: r, st => by
      simp only [labelIItems, plainIItems, C02.countQuotedEs, C02.countQuotedV, Nat.zero_add]
      exact countQuoted_labelII dir r _
    | .incl q n :: r, st => by
      simp only [labelIItems, plainIItems, C02.countQuotedEs, C02.countQuotedV, Nat.zero_add]
      exact countQuoted_labelII dir r _
end

/-- placeholder words are none of the documentation keys -/
theorem docKeys_labelI (dir : Str) : ∀ (items : List IItem) (st : ILabelSt), C02.DocKeysAbsent (plainIItems items) →
    DocKeysAbsentP (labelIItems dir st items).2
  | [], st, _ => by simp only [labelIItems]; intro e he; cases he
  | .entry k v :: r, st, h => by
    simp only [labelIItems, plainIItems] at h ⊢
    intro e he
    rcases List.mem_cons.mp he with rfl | he
    · exact h (k, plainIV v) List.mem_cons_self
    · exact docKeys_labelI dir r _ (fun e he => h e (List.mem_cons_of_mem _ he)) e he
  | .lineC x :: r, st, h => by
    simp only [labelIItems, plainIItems] at h ⊢
    intro e he
    rcases List.mem_cons.mp he with rfl | he
    · have e1 : ∀ i, linePh i = 'L' :: ("INECOMMENT".toList ++ padSix i) := fun _ => rfl
      simp only [e1]
      exact ⟨fun h => absurd (List.cons.inj (h.trans docKey_heads.1)).1 (by decide),
        fun h => absurd (List.cons.inj (h.trans docKey_heads.2)).1 (by decide)⟩
    · exact docKeys_labelI dir r _ h e he
  | .blockC x :: r, st, h => by
    simp only [labelIItems, plainIItems] at h ⊢
    intro e he
    rcases List.mem_cons.mp he with rfl | he
    · have e1 : ∀ i, blockPh i = 'B' :: ("LOCKCOMMENT".toList ++ padSix i) := fun _ => rfl
      simp only [e1]
      exact ⟨fun h => absurd (List.cons.inj (h.trans docKey_heads.1)).1 (by decide),
        fun h => absurd (List.cons.inj (h.trans docKey_heads.2)).1 (by decide)⟩
    · exact docKeys_labelI dir r _ h e he
  | .incl q n :: r, st, h => by
    simp only [labelIItems, plainIItems] at h ⊢
    intro e he
    rcases List.mem_cons.mp he with rfl | he
    · have e1 : ∀ i, inclPh i = 'I' :: ("NCLUDE".toList ++ padSix i) := fun _ => rfl
      simp only [e1]
      exact ⟨fun h => absurd (List.cons.inj (h.trans docKey_heads.1)).1 (by decide),
        fun h => absurd (List.cons.inj (h.trans docKey_heads.2)).1 (by decide)⟩
    · exact docKeys_labelI dir r _ h e he

mutual
  theorem icounter_labelIV (dir : Str) : ∀ (v : ISrc) (st : ILabelSt), C13.ValidCounter Gen.counterLimit st.icounter →
      C13.ValidCounter Gen.counterLimit (labelIV dir st v).1.icounter
    | .lit l, st, h => by simpa only [labelIV] using h
    | .dict items, st, h => by simpa only [labelIV] using icounter_labelII dir items st h
    | .list xs, st, h => by simpa only [labelIV] using h
  /-- the counter the stages leave is valid -/
  theorem icounter_labelII (dir : Str) : ∀ (items : List IItem) (st : ILabelSt),
      C13.ValidCounter Gen.counterLimit st.icounter →
      C13.ValidCounter Gen.counterLimit (labelIItems dir st items).1.icounter
    | [], st, h => by simpa only [labelIItems] using h
    | .entry k v :: r, st, h => by
      simp only [labelIItems]
      exact icounter_labelII dir r _ (icounter_labelIV dir v st h)
    | .lineC x :: r, st, h => by
      simp only [labelIItems]
      exact icounter_labelII dir r _ h
    | .blockC x :: r, st, h => by
      simp only [labelIItems]
      exact icounter_labelII dir r _ h
    | .incl q n :: r, st, h => by
      simp only [labelIItems]
      exact icounter_labelII dir r _ (C13.next_valid h)
end

mutual
  theorem lcounter_labelIV (dir : Str) : ∀ (v : ISrc) (st : ILabelSt),
      (labelIV dir st v).1.c.counter = C02.adv Gen.counterLimit (countLineV v) st.c.counter
    | .lit l, st => by simp only [labelIV, countLineV, C02.adv]
    | .dict items, st => by simpa only [labelIV, countLineV] using lcounter_labelII dir items st
    | .list xs, st => by simp only [labelIV, countLineV, C02.adv]
  /-- the line comments of a document advance the counter by their number -/
  theorem lcounter_labelII (dir : Str) : ∀ (items : List IItem) (st : ILabelSt),
      (labelIItems dir st items).1.c.counter = C02.adv Gen.counterLimit (countLineItems items) st.c.counter
    | [], st => by simp only [labelIItems, countLineItems, C02.adv]
    | .entry k v :: r, st => by
      simp only [labelIItems, countLineItems]
      rw [lcounter_labelII dir r, lcounter_labelIV dir v, C02.adv_add]
    | .lineC x :: r, st => by
      simp only [labelIItems, countLineItems]
      rw [lcounter_labelII dir r, C02.adv_add]
      rfl
    | .blockC x :: r, st => by
      simp only [labelIItems, countLineItems]
      rw [lcounter_labelII dir r]
    | .incl q n :: r, st => by
      simp only [labelIItems, countLineItems]
      rw [lcounter_labelII dir r]
end

theorem itoksItems_ne : ∀ (items : List IItem), items ≠ [] → itoksItems items ≠ []
  | [], h => absurd rfl h
  | .entry k (.lit l) :: r, _ => by simp [itoksItems]
  | .entry k (.dict dd) :: r, _ => by simp [itoksItems]
  | .entry k (.list l) :: r, _ => by simp [itoksItems]
  | .lineC x :: r, _ => by simp [itoksItems]
  | .blockC x :: r, _ => by simp [itoksItems]
  | .incl q n :: r, _ => by simp [itoksItems]

theorem tailI_ws {items : List IItem} {gaps : List Str} {tail : Str}
    (hg : GapsOKI (itoksItems items) gaps tail = true) (htail : items = [] → tail.all isWs = true) :
    tail.all isWs = true := by
  by_cases h : items = []
  · exact htail h
  · exact gapsOKC_tail_ws _ gaps tail (itoksItems_ne items h) (gapsOKI_iff.mp hg).1

end Incl

open Incl Stages

/-! ## 7. the three stages on a document with comments and include directives -/

/-- **include_stages.**  For a well-formed document with comments and include directives and ANY admissible layout of
    it, the first three stages of the reader (line comments, include directives, block comments), comments on,
    produce exactly what `labelI` says: the counter has advanced by the number of line comments and then by the
    number of directives; the two comment tables and the include table hold the texts / entries under the ids drawn
    in that order; every other table is empty; and the text is an admissible layout (`GapsOKS`) of the token stream
    of the labelled document, in which every comment and every directive line has become its placeholder word. -/
theorem include_stages {d : Nat} {items : List IItem} {gaps : List Str} {tail : Str} (dir : Str) (c : Counter)
    (hwf : ISrcWFItems d items = true) (hg : GapsOKI (itoksItems items) gaps tail = true)
    (htail : items = [] → tail.all isWs = true) :
    ∃ gaps' tail', commentStages true dir c (spreadC (itoksItems items) gaps tail)
        = ({ counter := (labelI dir c items).1.icounter,
             lineC := (labelI dir c items).1.c.lineC,
             incl := (labelI dir c items).1.incl,
             blockC := (labelI dir c items).1.c.blockC },
           spreadS (srcToksPEs (labelI dir c items).2) gaps' tail')
      ∧ GapsOKS (srcToksPEs (labelI dir c items).2) gaps' = true ∧ tail'.all isWs = true := by
  obtain ⟨h1, h2, h3⟩ := include_stages_toks dir c (itoksI_ok items d hwf) hg (tailI_ws hg htail)
  obtain ⟨t1, _⟩ := stages_state true (itoksItems items) { counter := c } []
  generalize (lineToks true { counter := c } (itoksItems items)).1 = st1 at h1 h2 h3 t1
  obtain ⟨b1, b2⟩ := bridgeI dir items d { counter := c } st1 hwf
  have hlab := labelCToks_inclToks dir (itoksItems items) { counter := c } st1
  -- the state in which stage 2 starts is the one `labelI` starts the directives in
  have hst : ist { counter := c } st1 =
      { c := { counter := c }, icounter := C02.adv Gen.counterLimit (countLineItems items) c } := by
    refine ist_eq rfl ?_ ?_
    · show st1.counter = _
      have e1 : st1.counter = (labelCToks { counter := c } (itoksItems items)).1.counter := by rw [t1]; rfl
      rw [e1, ← hlab]
      have e2 := congrArg (fun s => s.c.counter) b1
      simp only [ist] at e2
      rw [e2]
      exact lcounter_labelII dir items _
    · show st1.incl = _
      rw [t1]
  rw [hst] at b1 b2
  have e0 : labelIItems dir { c := { counter := c }, icounter := C02.adv Gen.counterLimit (countLineItems items) c } items =
      labelI dir c items := rfl
  rw [e0] at b1 b2
  refine ⟨(padGaps false (inclToks dir st1 (itoksItems items)).2 gaps tail).1,
    (padGaps false (inclToks dir st1 (itoksItems items)).2 gaps tail).2, ?_, ?_, h3⟩
  · rw [h1, b2]
    refine Prod.ext (lexSt_eq ?_ ?_ ?_ ?_ rfl rfl) rfl
    · exact congrArg (fun s => s.icounter) b1
    · exact congrArg (fun s => s.c.lineC) b1
    · exact congrArg (fun s => s.incl) b1
    · exact congrArg (fun s => s.c.blockC) b1
  · rw [← b2]; exact h2

/-! ## 8. the whole reader -/

/-- **C12_read_included.**  For every well-formed document with comments and include directives, every admissible
    layout of it, every directory and every valid counter value, the reader (comments on) returns exactly
    `denI dir c items`: the data with one `LINECOMMENTnnnnnn` / `BLOCKCOMMENTnnnnnn` / `INCLUDEnnnnnn` entry per comment /
    directive at the place and dict level where it stands, and the three tables; the counter has advanced by the
    number of line comments, directives and quoted strings. -/
theorem C12_read_included {items : List IItem} {gaps : List Str} {tail : Str} (dir : Str) (c : Counter)
    (hwf : ISrcWFItems 1 items = true) (hg : GapsOKI (itoksItems items) gaps tail = true)
    (htail : items = [] → tail.all isWs = true)
    (hc : C13.ValidCounter Gen.counterLimit c)
    (hn : C02.countQuotedEs (plainIItems items) ≤ Gen.counterLimit + 1)
    (hd : C02.DocKeysAbsent (plainIItems items)) :
    parseNative true dir c (spreadC (itoksItems items) gaps tail) =
      .ok (denI dir c items,
           C02.adv Gen.counterLimit (C02.countQuotedEs (plainIItems items)) (labelI dir c items).1.icounter) := by
  obtain ⟨gaps', tail', hst, hgs, ht⟩ := include_stages dir c hwf hg htail
  have hq : countQuotedEs' (labelI dir c items).2 = C02.countQuotedEs (plainIItems items) :=
    countQuoted_labelII dir items _
  have hv : C13.ValidCounter Gen.counterLimit (labelI dir c items).1.icounter :=
    icounter_labelII dir items
      { c := { counter := c }, icounter := C02.adv Gen.counterLimit (countLineItems items) c } (C02.adv_valid _ hc)
  have hw : SrcPWFEs 1 (labelI dir c items).2 = true := labelledI_wfI dir items 1 _ hwf
  have hk : DocKeysAbsentP (labelI dir c items).2 := docKeys_labelI dir items _ hd
  rw [parseNative_stages, hst]
  show parseRest _ (spreadS (srcToksPEs (labelI dir c items).2) gaps' tail') = _
  rw [parseRest_labelled_clean hw hgs ht rfl rfl hv (by rw [hq]; exact hn) hk, hq]
  rfl

/-! ## 9. non-vacuity: the example of section 1 through the theorem -/

/-- the tokens of the example (`itoksItems` is defined by well-founded recursion: unfolded with its equations) -/
def exIToks : List CTok :=
  [.lineC " head".toList, .tok (.word ['a']), .tok (.word ['1']), .tok (.word [';']),
   .tok (.word "#include 'inc/a'".toList), .blockC " blk ".toList, .tok (.word ['n']), .tok (.word ['{']),
   .tok (.word ['p']), .tok (.quoted '\'' "x y".toList), .tok (.word [';']), .tok (.word "#include \"../b\"".toList),
   .lineC " in".toList, .tok (.word ['}']), .tok (.word "#include /abs/c".toList)]

theorem exIToks_eq : itoksItems exI = exIToks := by
  have e1 : dirText (some '\'') "inc/a".toList = "#include 'inc/a'".toList := by decide
  have e2 : dirText (some '"') "../b".toList = "#include \"../b\"".toList := by decide
  have e3 : dirText none "/abs/c".toList = "#include /abs/c".toList := by decide
  simp only [exI, exIToks, itoksItems, Lit.tok, e1, e2, e3, List.cons_append, List.nil_append]

/-- the layout of `exIText`: every directive alone on its line -/
def exIGaps : List Str :=
  [[' '], ['\n'], [' '], [], ['\n'], ['\n', ' '], [' '], [' '], ['\n', ' ', ' '], [' '], [], ['\n'], ['\n', ' ', ' '],
   ['\n'], ['\n']]

theorem exI_wf : ISrcWFItems 1 exI = true := by decide +kernel
theorem exIGaps_ok : GapsOKI (itoksItems exI) exIGaps ['\n'] = true := by rw [exIToks_eq]; decide +kernel
theorem exI_text : spreadC (itoksItems exI) exIGaps ['\n'] = exIText := by rw [exIToks_eq]; decide +kernel

/-- the theorem on the example, any directory, any valid counter -/
theorem exI_read (dir : Str) (c : Counter) (hc : C13.ValidCounter Gen.counterLimit c) :
    parseNative true dir c exIText =
      .ok (denI dir c exI, C02.adv Gen.counterLimit (C02.countQuotedEs (plainIItems exI)) (labelI dir c exI).1.icounter) := by
  rw [← exI_text]
  exact C12_read_included dir c exI_wf exIGaps_ok (fun h => by cases h) hc (by decide +kernel) (by decide +kernel)

/-- what the example means, read in `/d` from counter 6 (the line comments draw 7 and 8, the directives 9, 10, 11):
    the include table, in document order, with the exact directive texts, file names and paths -/
theorem exI_incl : (denI "/d".toList (some 6) exI).incl =
    [(9, { directive := "#include 'inc/a'".toList, file := "inc/a".toList, path := "/d/inc/a".toList }),
     (10, { directive := "#include \"../b\"".toList, file := "../b".toList, path := "/d/../b".toList }),
     (11, { directive := "#include /abs/c".toList, file := "/abs/c".toList, path := "/abs/c".toList })] := by
  decide +kernel

theorem exI_keys : keys (denI "/d".toList (some 6) exI).data =
    [.str "LINECOMMENT000007".toList, .str ['a'], .str "INCLUDE000009".toList, .str "BLOCKCOMMENT000000".toList,
     .str ['n'], .str "INCLUDE000011".toList] ∧
    lookup (.str ['n']) (denI "/d".toList (some 6) exI).data =
      some (.dict [(.str ['p'], .leaf (.str "x y".toList)),
                   (.str "INCLUDE000010".toList, .leaf (.str "INCLUDE000010".toList)),
                   (.str "LINECOMMENT000008".toList, .leaf (.str "LINECOMMENT000008".toList))]) := by
  decide +kernel

/-! ## 10. the include table lists the directives of the source, in document order -/

mutual
  /-- the directives of a document, in document order -/
  def inclsV : ISrc → List (Option Char × Str)
    | .lit _ => []
    | .dict items => inclsItems items
    | .list _ => []
  def inclsItems : List IItem → List (Option Char × Str)
    | [] => []
    | .entry _ v :: r => inclsV v ++ inclsItems r
    | .lineC _ :: r => inclsItems r
    | .blockC _ :: r => inclsItems r
    | .incl q n :: r => (q, n) :: inclsItems r
end

/-- table update with a list of entries -/
def setAllI (t : Tbl InclEntry) (l : List (Nat × InclEntry)) : Tbl InclEntry := l.foldl (fun t p => t.set p.1 p.2) t

theorem setAllI_append (t : Tbl InclEntry) (l l' : List (Nat × InclEntry)) :
    setAllI t (l ++ l') = setAllI (setAllI t l) l' := by simp [setAllI, List.foldl_append]

theorem TblI_set_fresh {i : Nat} {a : InclEntry} : ∀ {t : Tbl InclEntry}, i ∉ t.map (·.1) → Tbl.set i a t = t ++ [(i, a)]
  | [], _ => rfl
  | (j, b) :: t, h => by
    simp only [List.map_cons, List.mem_cons, not_or] at h
    have : ¬ j = i := fun e => h.1 e.symm
    simp only [Tbl.set, this, if_false, List.cons_append, TblI_set_fresh h.2]

theorem setAllI_nodup : ∀ (l : List (Nat × InclEntry)) (t : Tbl InclEntry), (t.map (·.1) ++ l.map (·.1)).Nodup →
    setAllI t l = t ++ l
  | [], t, _ => by simp [setAllI]
  | (i, a) :: l, t, h => by
    have hi : i ∉ t.map (·.1) := by
      intro hm
      have := (List.nodup_append.mp h).2.2 i hm i (by simp)
      exact this rfl
    have h' : ((t ++ [(i, a)]).map (·.1) ++ l.map (·.1)).Nodup := by
      simpa using h
    show setAllI (Tbl.set i a t) l = _
    rw [TblI_set_fresh hi, setAllI_nodup l _ h']
    simp

/-- the entries of the directives with the ids drawn for them, in document order -/
def drawnIncl (dir : Str) (c : Counter) (l : List (Option Char × Str)) : List (Nat × InclEntry) :=
  List.zip (alloc Gen.counterLimit l.length c) (l.map fun p => inclEntry dir p.1 p.2)

theorem drawnIncl_append (dir : Str) (c : Counter) (l l' : List (Option Char × Str)) :
    drawnIncl dir c (l ++ l') = drawnIncl dir c l ++ drawnIncl dir (C02.adv Gen.counterLimit l.length c) l' := by
  simp only [drawnIncl, List.length_append, C02.alloc_add, List.map_append]
  exact List.zip_append (by simp [C13.alloc_length])

mutual
  theorem incl_stateV (dir : Str) : ∀ (v : ISrc) (st : ILabelSt),
      (labelIV dir st v).1.incl = setAllI st.incl (drawnIncl dir st.icounter (inclsV v)) ∧
      (labelIV dir st v).1.icounter = C02.adv Gen.counterLimit (inclsV v).length st.icounter
    | .lit l, st => by simp [labelIV, inclsV, drawnIncl, setAllI, alloc, C02.adv]
    | .dict items, st => by simpa only [labelIV, inclsV] using incl_stateI dir items st
    | .list xs, st => by simp [labelIV, inclsV, drawnIncl, setAllI, alloc, C02.adv]
  /-- the include table after the labelling: the entries of the directives, set in document order under the ids drawn
      in that order; the counter has advanced by their number -/
  theorem incl_stateI (dir : Str) : ∀ (items : List IItem) (st : ILabelSt),
      (labelIItems dir st items).1.incl = setAllI st.incl (drawnIncl dir st.icounter (inclsItems items)) ∧
      (labelIItems dir st items).1.icounter = C02.adv Gen.counterLimit (inclsItems items).length st.icounter
    | [], st => by simp [labelIItems, inclsItems, drawnIncl, setAllI, alloc, C02.adv]
    | .entry k v :: r, st => by
      obtain ⟨h1, h2⟩ := incl_stateV dir v st
      obtain ⟨h3, h4⟩ := incl_stateI dir r (labelIV dir st v).1
      simp only [labelIItems, inclsItems, drawnIncl_append, setAllI_append, List.length_append, C02.adv_add]
      rw [h3, h4, h1, h2]
      exact ⟨rfl, rfl⟩
    | .lineC x :: r, st => by
      simp only [labelIItems, inclsItems]
      exact incl_stateI dir r _
    | .blockC x :: r, st => by
      simp only [labelIItems, inclsItems]
      exact incl_stateI dir r _
    | .incl q n :: r, st => by
      obtain ⟨h3, h4⟩ := incl_stateI dir r
        { st with icounter := (Counter.next Gen.counterLimit st.icounter).2,
                  incl := st.incl.set (Counter.next Gen.counterLimit st.icounter).1 (inclEntry dir q n) }
      simp only [labelIItems, inclsItems]
      rw [h3, h4]
      simp [drawnIncl, alloc, setAllI, C02.adv]
end

/-- **every `#include` directive of the source is in the include table the reader builds, with its exact directive
    text, its file name and its path, in document order**, under consecutive ids that follow those of the line
    comments.  This is the table in the reader's state after its stages, i.e. the table `_clean` starts from
    (`denI` is `_clean` of it): `_clean` deletes an entry only when the same level holds a second directive with the
    same text, see `incl_clean_merges`. -/
theorem C12_incl_table {items : List IItem} (dir : Str) (c : Counter)
    (hc : C13.ValidCounter Gen.counterLimit c) (hm : (inclsItems items).length ≤ Gen.counterLimit + 1) :
    (labelI dir c items).1.incl =
      List.zip (alloc Gen.counterLimit (inclsItems items).length (C02.adv Gen.counterLimit (countLineItems items) c))
        ((inclsItems items).map fun p =>
          ({ directive := dirText p.1 p.2, file := p.2,
             path := if p.2.head? == some '/' then p.2 else dir ++ ['/'] ++ p.2 } : InclEntry)) := by
  have h := (incl_stateI dir items
    { c := { counter := c }, icounter := C02.adv Gen.counterLimit (countLineItems items) c }).1
  have e : (labelI dir c items).1.incl = _ := h
  rw [e, setAllI_nodup _ [] ?_]
  · rfl
  · have : (drawnIncl dir (C02.adv Gen.counterLimit (countLineItems items) c) (inclsItems items)).map (·.1) =
        alloc Gen.counterLimit (inclsItems items).length (C02.adv Gen.counterLimit (countLineItems items) c) := by
      simp only [drawnIncl]
      rw [List.map_fst_zip]
      simp [C13.alloc_length]
    simp only [List.map_nil, List.nil_append, this]
    exact C13.alloc_nodup hm (C02.adv_valid _ hc)

/-- … and that table is what the reader's stages leave in its state -/
theorem C12_incl_table_stages {d : Nat} {items : List IItem} {gaps : List Str} {tail : Str} (dir : Str) (c : Counter)
    (hwf : ISrcWFItems d items = true) (hg : GapsOKI (itoksItems items) gaps tail = true)
    (htail : items = [] → tail.all isWs = true) :
    (commentStages true dir c (spreadC (itoksItems items) gaps tail)).1.incl = (labelI dir c items).1.incl := by
  obtain ⟨_, _, h, _, _⟩ := include_stages dir c hwf hg htail
  rw [h]

/-! ## 11. what is excluded, and why -/

/-- a directive must stand alone on its line: behind other text it is no directive (no table entry, no placeholder) -/
theorem incl_needs_own_line :
    (parseNative true "/d".toList none "a 1; #include 'x'\n".toList).toOption.map (fun r => (keys r.1.data, r.1.incl)) =
      some ([.str ['a']], []) := by decide +kernel

/-- … and so it is inside a dict on the line of the opening brace -/
theorem incl_needs_own_line_nested :
    (parseNative true "/d".toList none "b { #include \"sub/y\"\n }\n".toList).toOption.map
        (fun r => (keys r.1.data, r.1.incl)) = some ([.str ['b']], []) := by decide +kernel

/-- a file name must not contain `//`: the line-comment stage runs first and cuts the directive -/
theorem incl_name_no_line_comment :
    (parseNative true "/d".toList none "#include 'a//b'\n".toList).toOption.map (fun r => r.1.incl.map (·.2.file)) =
      some ["aLINECOMMENT000000".toList] := by decide +kernel

/-- white space in front of `#` (after the line break) and behind the name is accepted by the reader but becomes part
    of the recorded directive text: the layouts of `GapsOKI` have none (the gap in front ends with the line break, the
    gap behind starts with the line feed) -/
theorem incl_indent_recorded :
    (parseNative true "/d".toList none "  #include 'x'  \n".toList).toOption.map
        (fun r => r.1.incl.map (fun e => (e.2.directive, e.2.file))) =
      some [("  #include 'x'  ".toList, ['x'])] := by decide +kernel

/-- `_clean` merges identical directives of one dict level: the second `#include 'x'` loses its table entry (and its
    placeholder entry).  `denI` says so, and the reader agrees (`C12_read_included`). -/
theorem incl_clean_merges :
    (labelI "/d".toList none [.incl (some '\'') ['x'], .incl (some '\'') ['x']]).1.incl.length = 2 ∧
    (denI "/d".toList none [.incl (some '\'') ['x'], .incl (some '\'') ['x']]).incl =
      [(0, { directive := "#include 'x'".toList, file := ['x'], path := "/d/x".toList })] ∧
    keys (denI "/d".toList none [.incl (some '\'') ['x'], .incl (some '\'') ['x']]).data = [.str "INCLUDE000000".toList] ∧
    (parseNative true "/d".toList none "#include 'x'\n#include 'x'\n".toList).toOption.map (fun r => r.1.incl) =
      some (denI "/d".toList none [.incl (some '\'') ['x'], .incl (some '\'') ['x']]).incl := by
  refine ⟨?_, ?_, ?_, ?_⟩ <;> decide +kernel

/-- not covered (but handled by the reader in the same way): a directive that ends the text without a line feed; the
    layouts of `GapsOKI` demand the line feed -/
theorem incl_last_without_newline :
    (parseNative true "/d".toList none "#include 'x'".toList).toOption.map (fun r => (keys r.1.data, r.1.incl)) =
      some ([.str "INCLUDE000000".toList],
        [(0, { directive := "#include 'x'".toList, file := ['x'], path := "/d/x".toList })]) := by decide +kernel

/-! ## 12. `_clean` keeps the include table when no two directives have the same text -/

namespace Incl

/-- the table has no value twice -/
def TblInj {α} (t : Tbl α) : Prop := ∀ i j a, t.get? i = some a → t.get? j = some a → i = j

/-- the id `_clean_data` reads off a key -/
def fsdK : Key → Option Nat
  | .str x => firstSixDigits x
  | .int _ => none

/-- the loop of `_clean_data` for one class of keys leaves the table alone when the candidates are distinct keys with
    distinct ids and the table has no value twice -/
theorem cfold_tbl {α} [BEq α] [LawfulBEq α] (t : Tbl α) (ht : TblInj t) : ∀ (cand : List Key), cand.Nodup →
    (∀ k ∈ cand, ∀ k' ∈ cand, fsdK k = fsdK k' → fsdK k ≠ none → k = k') →
    ∀ (d : Entries) (seen : List α),
      (∀ a ∈ seen, ∀ k ∈ cand, ∀ i, fsdK k = some i → t.get? i ≠ some a) →
      (cand.foldl C08.cstep (d, t, seen)).2.1 = t
  | [], _, _, _, _, _ => rfl
  | k :: cand, hnd, hinj, d, seen, hseen => by
    rw [List.foldl_cons]
    obtain ⟨hk, hnd'⟩ := List.nodup_cons.mp hnd
    have hinj' : ∀ k1 ∈ cand, ∀ k2 ∈ cand, fsdK k1 = fsdK k2 → fsdK k1 ≠ none → k1 = k2 :=
      fun k1 h1 k2 h2 => hinj k1 (List.mem_cons_of_mem _ h1) k2 (List.mem_cons_of_mem _ h2)
    have hseen' : ∀ a ∈ seen, ∀ k ∈ cand, ∀ i, fsdK k = some i → t.get? i ≠ some a :=
      fun a ha k' hk' => hseen a ha k' (List.mem_cons_of_mem _ hk')
    cases k with
    | int z => exact cfold_tbl t ht cand hnd' hinj' d seen hseen'
    | str x =>
      cases hf : firstSixDigits x with
      | none =>
        simp only [C08.cstep, hf]
        exact cfold_tbl t ht cand hnd' hinj' d seen hseen'
      | some i =>
        cases hg : Tbl.get? i t with
        | none =>
          simp only [C08.cstep, hf, hg]
          exact cfold_tbl t ht cand hnd' hinj' d seen hseen'
        | some txt =>
          simp only [C08.cstep, hf, hg]
          have hns : seen.contains txt = false := by
            cases hc : seen.contains txt with
            | false => rfl
            | true =>
              have hm : txt ∈ seen := by simpa using hc
              exact absurd hg (hseen txt hm (.str x) List.mem_cons_self i hf)
          simp only [hns, Bool.false_eq_true, if_false]
          refine cfold_tbl t ht cand hnd' hinj' d (seen ++ [txt]) ?_
          intro a ha k' hk' i' hi' hget
          rcases List.mem_append.mp ha with ha | ha
          · exact hseen' a ha k' hk' i' hi' hget
          · simp only [List.mem_singleton] at ha
            subst ha
            have hii : i' = i := ht i' i a hget hg
            subst hii
            have : k' = .str x := hinj k' (List.mem_cons_of_mem _ hk') (.str x) List.mem_cons_self
              (by rw [hi']; exact hf.symm) (by rw [hi']; simp)
            subst this
            exact hk hk'

theorem cleanStep_tbl {α} [BEq α] [LawfulBEq α] (sel : Key → Bool) (lvl : Entries) (t : Tbl α) (ht : TblInj t)
    (hn : (keys lvl).Nodup)
    (hinj : ∀ k ∈ keys lvl, ∀ k' ∈ keys lvl, sel k = true → sel k' = true → fsdK k = fsdK k' → fsdK k ≠ none → k = k') :
    (C06.cleanStep sel lvl t).2 = t := by
  rw [C08.cleanStep_eq]
  refine cfold_tbl t ht _ (hn.filter _) ?_ lvl [] (by intro a ha; cases ha)
  intro k hk k' hk' h1 h2
  exact hinj k (List.mem_filter.mp hk).1 k' (List.mem_filter.mp hk').1 (List.mem_filter.mp hk).2
    (List.mem_filter.mp hk').2 h1 h2

/-- an include key is the reader's own placeholder word -/
def SelIOK (k : Key) : Prop := C06.selI k = true → ∃ i, i < 1000000 ∧ k = .str (inclPh i)

mutual
  /-- at every dict level (not inside lists) the include keys are the reader's own placeholder words -/
  def PhOKV : Val → Prop
    | .dict es => PhOKEs es
    | _ => True
  def PhOKEs : Entries → Prop
    | [] => True
    | (k, v) :: es => SelIOK k ∧ PhOKV v ∧ PhOKEs es
end

theorem phOKEs_iff : ∀ {es : Entries}, PhOKEs es ↔ ∀ e ∈ es, SelIOK e.1 ∧ PhOKV e.2
  | [] => by simp [PhOKEs]
  | (k, v) :: es => by simp [PhOKEs, phOKEs_iff (es := es), and_assoc]

theorem kwIncl_nodigit : ∀ c ∈ kwIncl, digitVal c = none := by decide

theorem firstSix_inclPh {n : Nat} (h : n < 1000000) : firstSixDigits (inclPh n) = some n := by
  rw [inclPh, C08.firstSix_skip _ _ kwIncl_nodigit, C08.firstSix_padSix h]

theorem inclPh_inj {i j : Nat} (hi : i < 1000000) (hj : j < 1000000) (h : inclPh i = inclPh j) : i = j := by
  have := congrArg firstSixDigits h
  rw [firstSix_inclPh hi, firstSix_inclPh hj] at this
  exact Option.some.inj this

theorem keyInj_of_phOK {lvl : Entries} (h : PhOKEs lvl) :
    ∀ k ∈ keys lvl, ∀ k' ∈ keys lvl, C06.selI k = true → C06.selI k' = true → fsdK k = fsdK k' → fsdK k ≠ none → k = k' := by
  intro k hk k' hk' hs hs' hf _
  obtain ⟨e, he, rfl⟩ := List.mem_map.mp hk
  obtain ⟨e', he', rfl⟩ := List.mem_map.mp hk'
  obtain ⟨i, hi, ei⟩ := (phOKEs_iff.mp h e he).1 hs
  obtain ⟨j, hj, ej⟩ := (phOKEs_iff.mp h e' he').1 hs'
  rw [ei, ej] at hf ⊢
  simp only [fsdK, firstSix_inclPh hi, firstSix_inclPh hj, Option.some.injEq] at hf
  rw [hf]

theorem cleanLevel_incl (s : SD) (lvl : Entries) (ht : TblInj s.incl) (hn : (keys lvl).Nodup) (hp : PhOKEs lvl) :
    (cleanLevel s lvl).1.incl = s.incl := by
  rw [C08.cleanLevel_eq]
  show (C06.cleanStep C06.selI (C06.cleanStep C06.selB lvl s.blockC).1 s.incl).2 = s.incl
  have hsub : (C06.cleanStep C06.selB lvl s.blockC).1.Sublist lvl :=
    C06.cleanStep_inv (fun d => d.Sublist lvl) (fun k d _ hd => (C07.delKey_sublist k d).trans hd) _
      (fun _ => C06.selB_ph) lvl s.blockC (List.Sublist.refl _)
  have hks : (keys (C06.cleanStep C06.selB lvl s.blockC).1).Sublist (keys lvl) := hsub.map _
  refine cleanStep_tbl _ _ _ ht (hks.nodup hn) ?_
  intro k hk k' hk'
  exact keyInj_of_phOK hp k (hks.subset hk) k' (hks.subset hk')

theorem cleanRec_incl : ∀ (fuel : Nat) (s : SD) (lvl : Entries), TblInj s.incl → NodupKeysV (.dict lvl) → PhOKEs lvl →
    (cleanRec fuel s lvl).1.incl = s.incl
  | 0, _, _, _, _, _ => rfl
  | fuel + 1, s, lvl, ht, hn, hp => by
    have hl := cleanLevel_incl s lvl ht hn.1 hp
    have hsub := (C06.cleanLevel_spec s lvl).1
    simp only [cleanRec]
    suffices H : ∀ (l : Entries) (acc : SD × Entries), (∀ e ∈ l, e ∈ lvl) → acc.1.incl = s.incl →
        (l.foldl (fun (acc : SD × Entries) e =>
          match e.2 with
          | .dict sub => ((cleanRec fuel acc.1 sub).1, setKey e.1 (.dict (cleanRec fuel acc.1 sub).2) acc.2)
          | _ => acc) acc).1.incl = s.incl from
      H (cleanLevel s lvl).2 ((cleanLevel s lvl).1, (cleanLevel s lvl).2) (fun e he => hsub.subset he) hl
    intro l
    induction l with
    | nil => intro acc _ h; exact h
    | cons e l ih =>
      intro acc hmem hacc
      obtain ⟨k, v⟩ := e
      have hm : (k, v) ∈ lvl := hmem _ List.mem_cons_self
      simp only [List.foldl_cons]
      apply ih _ (fun e he => hmem e (List.mem_cons_of_mem _ he))
      cases v with
      | leaf x => exact hacc
      | list xs => exact hacc
      | dict sub =>
        have h1 : NodupKeysV (.dict sub) := C07.nodupKeysEs_iff.mp hn.2 _ hm
        have h2 : PhOKEs sub := (phOKEs_iff.mp hp _ hm).2
        show (cleanRec fuel acc.1 sub).1.incl = s.incl
        rw [cleanRec_incl fuel acc.1 sub (by rw [hacc]; exact ht) h1 h2, hacc]

/-- `_clean` keeps the include table -/
theorem clean_incl (s : SD) (ht : TblInj s.incl) (hn : NodupKeysV (.dict s.data)) (hp : PhOKEs s.data) :
    s.clean.incl = s.incl := by
  show (cleanRec (depthV (.dict s.data) + 1) s s.data).1.incl = s.incl
  exact cleanRec_incl _ s s.data ht hn hp

theorem phOK_setKey {k : Key} {v : Val} {acc : Entries} (hk : SelIOK k) (hv : PhOKV v) (ha : PhOKEs acc) :
    PhOKEs (setKey k v acc) := by
  rw [phOKEs_iff] at ha ⊢
  intro e he
  rcases C07.mem_setKey he with rfl | he
  · exact ⟨hk, hv⟩
  · exact ha e he

theorem selIOK_typed {k : Str} {key : Key} (hk : isSrcWord k = true) (h : keyOfScalar (parseKey k) = some key) :
    SelIOK key := by
  intro hs
  rcases C02.Main.typedKey_cases hk h with ⟨z, rfl⟩ | rfl
  · cases hs
  · have hp : isPhTok k = false := (C02.srcWord_facts hk).2.1
    simp only [isPhTok, Bool.or_eq_false_iff] at hp
    simp only [C06.selI, Bool.and_eq_true] at hs
    have := C02.Main.containsPh_infix hs.2
    have e : isIncludeTok k = isInfix kwIncl k := rfl
    rw [e, this] at hp
    exact absurd hp.2 (by simp)

theorem selIOK_linePh (i : Nat) : SelIOK (.str (linePh i)) := by
  intro hs
  simp [C06.selI, C08.containsIncl_linePh] at hs

theorem selIOK_blockPh (i : Nat) : SelIOK (.str (blockPh i)) := by
  intro hs
  simp [C06.selI, C08.containsIncl_blockPh] at hs

theorem next_lt (c : Counter) : (Counter.next Gen.counterLimit c).1 < 1000000 := by
  cases c with
  | none => simp [Counter.next]
  | some n =>
    simp only [Counter.next]
    split
    · simp
    · rename_i h
      have : Gen.counterLimit = 999999 := rfl
      simp only
      omega

mutual
  theorem phOK_V (dir : Str) : ∀ (v : ISrc) (d : Nat) (st : ILabelSt), ISrcWFV d v = true →
      PhOKV (denPV (labelIV dir st v).2)
    | .lit l, _, st, _ => by simp only [labelIV, denPV, PhOKV]
    | .dict items, d, st, h => by
      simp only [ISrcWFV] at h
      simp only [labelIV, denPV, PhOKV]
      exact phOK_I dir items (d + 1) st [] h (by simp only [PhOKEs])
    | .list xs, _, st, _ => by simp only [labelIV, denPV, PhOKV]
  /-- in the meaning of a labelled document every include key is a placeholder word of the reader -/
  theorem phOK_I (dir : Str) : ∀ (items : List IItem) (d : Nat) (st : ILabelSt) (acc : Entries),
      ISrcWFItems d items = true → PhOKEs acc → PhOKEs (denPEs (labelIItems dir st items).2 acc)
    | [], _, st, acc, _, ha => by simpa only [labelIItems, denPEs] using ha
    | .entry k v :: r, d, st, acc, h, ha => by
      simp only [ISrcWFItems, Bool.and_eq_true] at h
      obtain ⟨⟨⟨hk, hkey⟩, hv⟩, hr⟩ := h
      obtain ⟨key, hkey⟩ := Option.isSome_iff_exists.mp hkey
      have hp : isPhTok k = false := (C02.srcWord_facts hk).2.1
      simp only [labelIItems]
      rw [denPEs_cons hp hkey]
      exact phOK_I dir r d _ _ hr (phOK_setKey (selIOK_typed hk hkey) (phOK_V dir v d st hv) ha)
    | .lineC x :: r, d, st, acc, h, ha => by
      simp only [ISrcWFItems, Bool.and_eq_true] at h
      simp only [labelIItems]
      have hp : ∀ i, isPhTok (linePh i) = true := fun i => (linePh_tok i).2
      rw [denPEs_cons_ph (hp _)]
      exact phOK_I dir r d _ _ h.2 (phOK_setKey (selIOK_linePh _) (by simp only [PhOKV]) ha)
    | .blockC x :: r, d, st, acc, h, ha => by
      simp only [ISrcWFItems, Bool.and_eq_true] at h
      simp only [labelIItems]
      have hp : ∀ i, isPhTok (blockPh i) = true := fun i => (blockPh_tok i).2
      rw [denPEs_cons_ph (hp _)]
      exact phOK_I dir r d _ _ h.2 (phOK_setKey (selIOK_blockPh _) (by simp only [PhOKV]) ha)
    | .incl q n :: r, d, st, acc, h, ha => by
      simp only [ISrcWFItems, Bool.and_eq_true] at h
      simp only [labelIItems]
      rw [denPEs_cons_ph (inclPh_tok _).2]
      exact phOK_I dir r d _ _ h.2 (phOK_setKey (fun _ => ⟨_, next_lt _, rfl⟩) (by simp only [PhOKV]) ha)
end

theorem get_mem {α} {i : Nat} {a : α} : ∀ {t : Tbl α}, t.get? i = some a → (i, a) ∈ t
  | [], h => by simp [Tbl.get?] at h
  | (j, b) :: t, h => by
    simp only [Tbl.get?] at h
    split at h
    · rename_i e
      cases h
      rw [e]
      exact List.mem_cons_self
    · exact List.mem_cons_of_mem _ (get_mem h)

theorem zip_snd_inj {α} : ∀ (ids : List Nat) (vals : List α), vals.Nodup →
    ∀ i j a, (i, a) ∈ List.zip ids vals → (j, a) ∈ List.zip ids vals → i = j
  | [], _, _, i, j, a, h, _ => by simp at h
  | _ :: _, [], _, i, j, a, h, _ => by simp at h
  | x :: ids, v :: vals, hn, i, j, a, h1, h2 => by
    obtain ⟨hv, hn'⟩ := List.nodup_cons.mp hn
    simp only [List.zip_cons_cons, List.mem_cons, Prod.mk.injEq] at h1 h2
    rcases h1 with ⟨rfl, rfl⟩ | h1 <;> rcases h2 with ⟨rfl, e⟩ | h2
    · rfl
    · exact absurd (List.of_mem_zip h2).2 hv
    · subst e; exact absurd (List.of_mem_zip h1).2 hv
    · exact zip_snd_inj ids vals hn' i j a h1 h2

theorem nodup_of_map {α β} (f : α → β) : ∀ (l : List α), (l.map f).Nodup → l.Nodup
  | [], _ => List.nodup_nil
  | a :: l, h => by
    simp only [List.map_cons, List.nodup_cons] at h ⊢
    exact ⟨fun hm => h.1 (List.mem_map_of_mem hm), nodup_of_map f l h.2⟩

theorem tblInj_zip {α} (ids : List Nat) (vals : List α) (hv : vals.Nodup) : TblInj (List.zip ids vals) :=
  fun i j a h1 h2 => zip_snd_inj ids vals hv i j a (get_mem h1) (get_mem h2)

end Incl
open Incl

/-- **the include table of the result.**  When no two directives of the document have the same text (`_clean` merges
    those when they stand at one level, `incl_clean_merges`), every `#include` directive of the source is in the
    include table of what the document means — hence of what the reader returns (`C12_read_included`) — with its exact
    directive text, its file name and its path, in document order, under consecutive ids that follow those of the
    line comments. -/
theorem C12_incl_table_result {d : Nat} {items : List IItem} (dir : Str) (c : Counter)
    (hwf : ISrcWFItems d items = true) (hc : C13.ValidCounter Gen.counterLimit c)
    (hm : (inclsItems items).length ≤ Gen.counterLimit + 1)
    (hdist : ((inclsItems items).map fun p => dirText p.1 p.2).Nodup) :
    (denI dir c items).incl =
      List.zip (alloc Gen.counterLimit (inclsItems items).length (C02.adv Gen.counterLimit (countLineItems items) c))
        ((inclsItems items).map fun p =>
          ({ directive := dirText p.1 p.2, file := p.2,
             path := if p.2.head? == some '/' then p.2 else dir ++ ['/'] ++ p.2 } : InclEntry)) := by
  have htab := C12_incl_table (items := items) dir c hc hm
  have e : denI dir c items =
      ({ data := denPEs (labelI dir c items).2 [], lineC := (labelI dir c items).1.c.lineC,
         blockC := (labelI dir c items).1.c.blockC, incl := (labelI dir c items).1.incl } : SD).clean := rfl
  rw [e, clean_incl _ ?_ (denP_nodup _ [] C07.nodupV_nil) (phOK_I dir items d _ [] hwf (by simp only [PhOKEs]))]
  · exact htab
  · show TblInj (labelI dir c items).1.incl
    rw [htab]
    refine tblInj_zip _ _ (nodup_of_map (fun e : InclEntry => e.directive) _ ?_)
    rw [List.map_map]
    exact hdist

/-- the reader and the include directives of its input, in one statement -/
theorem C12_included_directives {items : List IItem} {gaps : List Str} {tail : Str} (dir : Str) (c : Counter)
    (hwf : ISrcWFItems 1 items = true) (hg : GapsOKI (itoksItems items) gaps tail = true)
    (htail : items = [] → tail.all isWs = true)
    (hc : C13.ValidCounter Gen.counterLimit c)
    (hn : C02.countQuotedEs (plainIItems items) ≤ Gen.counterLimit + 1)
    (hd : C02.DocKeysAbsent (plainIItems items))
    (hm : (inclsItems items).length ≤ Gen.counterLimit + 1)
    (hdist : ((inclsItems items).map fun p => dirText p.1 p.2).Nodup) :
    ∃ sd c', parseNative true dir c (spreadC (itoksItems items) gaps tail) = .ok (sd, c') ∧
      sd.incl =
        List.zip (alloc Gen.counterLimit (inclsItems items).length (C02.adv Gen.counterLimit (countLineItems items) c))
          ((inclsItems items).map fun p =>
            ({ directive := dirText p.1 p.2, file := p.2,
               path := if p.2.head? == some '/' then p.2 else dir ++ ['/'] ++ p.2 } : InclEntry)) :=
  ⟨_, _, C12_read_included dir c hwf hg htail hc hn hd, C12_incl_table_result dir c hwf hc hm hdist⟩

/-! ## 13. comments switched off -/

namespace Incl

/-- **the three stages, token form, comments off**: the same state; the text is a layout of the tokens that are no
    comments, every directive replaced by its placeholder word (stage 2 has no switch) -/
theorem include_stages_toks_off {ts : List CTok} {gaps : List Str} {tail : Str} (dir : Str) (c : Counter)
    (hts : ∀ t ∈ ts, AOKI t) (hg : GapsOKI ts gaps tail = true) (htail : tail.all isWs = true) :
    commentStages false dir c (spreadC ts gaps tail) =
      ({ counter := (inclToks dir (lineToks true { counter := c } ts).1 ts).1.counter,
         lineC := (labelCToks { counter := c } (inclToks dir (lineToks true { counter := c } ts).1 ts).2).1.lineC,
         incl := (inclToks dir (lineToks true { counter := c } ts).1 ts).1.incl,
         blockC := (labelCToks { counter := c } (inclToks dir (lineToks true { counter := c } ts).1 ts).2).1.blockC },
       spreadS (plainToks (inclToks dir (lineToks true { counter := c } ts).1 ts).2)
         (mergeGaps [] (inclToks dir (lineToks true { counter := c } ts).1 ts).2 gaps tail).1
         (mergeGaps [] (inclToks dir (lineToks true { counter := c } ts).1 ts).2 gaps tail).2) ∧
    GapsOKS (plainToks (inclToks dir (lineToks true { counter := c } ts).1 ts).2)
      (mergeGaps [] (inclToks dir (lineToks true { counter := c } ts).1 ts).2 gaps tail).1 = true ∧
    (mergeGaps [] (inclToks dir (lineToks true { counter := c } ts).1 ts).2 gaps tail).2.all isWs = true := by
  obtain ⟨hgc, hgd⟩ := gapsOKI_iff.mp hg
  have h12 := stages12I false dir c ts gaps tail hts hgc hgd htail
  obtain ⟨t1, _⟩ := stages_state false ts { counter := c } []
  obtain ⟨t1', _⟩ := stages_state true ts { counter := c } []
  have est : (lineToks false { counter := c } ts).1 = (lineToks true { counter := c } ts).1 := t1.trans t1'.symm
  rw [est] at h12 t1
  generalize hst1 : (lineToks true { counter := c } ts).1 = st1 at h12 t1 ⊢
  have hgm : GapsOKC (inclToks dir st1 ts).2 gaps tail = true := by
    rw [gapsOKC_kind _ ts gaps tail (inclToks_kind dir ts st1 hts)]; exact hgc
  obtain ⟨f1, f2, f3, f4⟩ := inclToks_fields dir ts st1
  have hlab := labelCToks_inclToks dir ts { counter := c } st1
  generalize htm : (inclToks dir st1 ts).2 = tsm at h12 hgm hlab ⊢
  have hB := stageB false (lineToks false { counter := c } tsm).2 gaps tail 0 []
    (lineToks_BOK' false tsm _ (by rw [← htm]; exact inclToks_aokm dir ts st1 hts))
    (gapsOKC_lineToks false tsm gaps tail _ hgm) htail
  obtain ⟨_, s2⟩ := stages_state false tsm { counter := c } []
  have s3 := stages_texts_off tsm { counter := c } 0 []
  have e1 := off_text tsm [] gaps tail
  have e2 := off_gaps tsm [] gaps tail rfl hgm htail
  simp only [List.length_nil] at s2
  simp only [List.nil_append] at e1
  refine ⟨?_, e2⟩
  rw [h12, hB, s2, s3, e1]
  refine Prod.ext (lexSt_eq rfl ?_ rfl rfl ?_ ?_) rfl
  · show (inclToks dir st1 ts).1.lineC = _
    rw [f1, t1]
    show (labelCToks { counter := c } ts).1.lineC = _
    rw [← hlab]
  · show (inclToks dir st1 ts).1.lits = _
    rw [f3, t1]
  · show (inclToks dir st1 ts).1.exprs = _
    rw [f4, t1]

/-- no comment token -/
def notC : CTok → Bool
  | .tok _ => true
  | _ => false

/-- the comment tokens removed -/
def stripC (ts : List CTok) : List CTok := ts.filter notC

theorem stripC_nil : stripC [] = [] := rfl
theorem stripC_tok (a : STok) (r : List CTok) : stripC (.tok a :: r) = .tok a :: stripC r := rfl
theorem stripC_lineC (x : Str) (r : List CTok) : stripC (.lineC x :: r) = stripC r := rfl
theorem stripC_blockC (x : Str) (r : List CTok) : stripC (.blockC x :: r) = stripC r := rfl
theorem stripC_append (a b : List CTok) : stripC (a ++ b) = stripC a ++ stripC b := List.filter_append ..
theorem stripC_map : ∀ (l : List STok), stripC (l.map .tok) = l.map .tok
  | [] => rfl
  | a :: l => by rw [List.map_cons, stripC_tok, stripC_map l]

mutual
  theorem itoks_dropV : ∀ (v : ISrc), itoksV (dropCV v) = stripC (itoksV v)
    | .lit l => by simp only [dropCV, itoksV, stripC_tok, stripC_nil]
    | .dict items => by
      simp only [dropCV, itoksV, itoks_dropI items, List.cons_append, stripC_tok, stripC_append, stripC_nil]
    | .list xs => by
      simp only [dropCV, itoksV, List.cons_append, stripC_tok, stripC_append, stripC_nil, stripC_map]
  /-- the tokens of the comment-free document are the tokens that are no comments -/
  theorem itoks_dropI : ∀ (items : List IItem), itoksItems (dropCItems items) = stripC (itoksItems items)
    | [] => by simp only [dropCItems, itoksItems, stripC_nil]
    | .entry k (.lit l) :: r => by
      simp only [dropCItems, dropCV, itoksItems, itoks_dropI r, stripC_tok]
    | .entry k (.dict dd) :: r => by
      simp only [dropCItems, dropCV, itoksItems, itoks_dropI r, itoks_dropI dd, List.cons_append, List.append_assoc,
        stripC_tok, stripC_append, stripC_nil]
    | .entry k (.list xs) :: r => by
      simp only [dropCItems, dropCV, itoksItems, itoks_dropI r, List.cons_append, List.append_assoc,
        stripC_tok, stripC_append, stripC_nil, stripC_map]
    | .lineC x :: r => by
      simp only [dropCItems, itoksItems, itoks_dropI r, stripC_lineC]
    | .blockC x :: r => by
      simp only [dropCItems, itoksItems, itoks_dropI r, stripC_blockC]
    | .incl q n :: r => by
      simp only [dropCItems, itoksItems, itoks_dropI r, stripC_tok]
end

theorem inclToks_strip (dir : Str) : ∀ (ts : List CTok) (st : LexSt),
    inclToks dir st (stripC ts) = ((inclToks dir st ts).1, stripC (inclToks dir st ts).2)
  | [], _ => rfl
  | .tok a :: r, st => by
    rw [stripC_tok]
    simp only [inclToks]
    split
    · rw [inclToks_strip dir r, stripC_tok]
    · rw [inclToks_strip dir r, stripC_tok]
  | .lineC x :: r, st => by
    rw [stripC_lineC, inclToks_plain dir st rfl, inclToks_strip dir r, stripC_lineC]
  | .blockC x :: r, st => by
    rw [stripC_blockC, inclToks_plain dir st rfl, inclToks_strip dir r, stripC_blockC]

theorem labelCToks_strip (cst : CLabelSt) : ∀ (ts : List CTok), labelCToks cst (stripC ts) = (cst, plainToks ts)
  | [] => rfl
  | .tok a :: r => by
    rw [stripC_tok, labelCToks_tok, labelCToks_strip cst r, plainToks_tok]
  | .lineC x :: r => by
    rw [stripC_lineC, labelCToks_strip cst r, plainToks_lineC]
  | .blockC x :: r => by
    rw [stripC_blockC, labelCToks_strip cst r, plainToks_blockC]

mutual
  theorem dropC_wfV : ∀ (v : ISrc) (d : Nat), ISrcWFV d v = true → ISrcWFV d (dropCV v) = true
    | .lit l, d, h => by simpa only [dropCV] using h
    | .dict items, d, h => by
      simp only [ISrcWFV] at h
      simp only [dropCV, ISrcWFV]
      exact dropC_wfI items (d + 1) h
    | .list xs, d, h => by simpa only [dropCV] using h
  theorem dropC_wfI : ∀ (items : List IItem) (d : Nat), ISrcWFItems d items = true → ISrcWFItems d (dropCItems items) = true
    | [], _, _ => by simp only [dropCItems, ISrcWFItems]
    | .entry k v :: r, d, h => by
      simp only [ISrcWFItems, Bool.and_eq_true] at h
      obtain ⟨⟨⟨hk, hkey⟩, hv⟩, hr⟩ := h
      simp only [dropCItems, ISrcWFItems, Bool.and_eq_true]
      exact ⟨⟨⟨hk, hkey⟩, dropC_wfV v d hv⟩, dropC_wfI r d hr⟩
    | .lineC x :: r, d, h => by
      simp only [ISrcWFItems, Bool.and_eq_true] at h
      simp only [dropCItems]
      exact dropC_wfI r d h.2
    | .blockC x :: r, d, h => by
      simp only [ISrcWFItems, Bool.and_eq_true] at h
      simp only [dropCItems]
      exact dropC_wfI r d h.2
    | .incl q n :: r, d, h => by
      simp only [ISrcWFItems, Bool.and_eq_true] at h
      simp only [dropCItems, ISrcWFItems, Bool.and_eq_true]
      exact ⟨h.1, dropC_wfI r d h.2⟩
end

mutual
  theorem dropC_plainV : ∀ (v : ISrc), plainIV (dropCV v) = plainIV v
    | .lit l => by simp only [dropCV]
    | .dict items => by simp only [dropCV, plainIV, dropC_plainI items]
    | .list xs => by simp only [dropCV]
  theorem dropC_plainI : ∀ (items : List IItem), plainIItems (dropCItems items) = plainIItems items
    | [] => by simp only [dropCItems]
    | .entry k v :: r => by simp only [dropCItems, plainIItems, dropC_plainV v, dropC_plainI r]
    | .lineC x :: r => by simp only [dropCItems, plainIItems, dropC_plainI r]
    | .blockC x :: r => by simp only [dropCItems, plainIItems, dropC_plainI r]
    | .incl q n :: r => by simp only [dropCItems, plainIItems, dropC_plainI r]
end

mutual
  theorem dropC_inclsV : ∀ (v : ISrc), inclsV (dropCV v) = inclsV v
    | .lit l => by simp only [dropCV]
    | .dict items => by simp only [dropCV, inclsV, dropC_inclsI items]
    | .list xs => by simp only [dropCV]
  theorem dropC_inclsI : ∀ (items : List IItem), inclsItems (dropCItems items) = inclsItems items
    | [] => by simp only [dropCItems]
    | .entry k v :: r => by simp only [dropCItems, inclsItems, dropC_inclsV v, dropC_inclsI r]
    | .lineC x :: r => by simp only [dropCItems, inclsItems, dropC_inclsI r]
    | .blockC x :: r => by simp only [dropCItems, inclsItems, dropC_inclsI r]
    | .incl q n :: r => by simp only [dropCItems, inclsItems, dropC_inclsI r]
end

end Incl
open Incl

/-- **include_stages, comments off** -/
theorem include_stages_off {d : Nat} {items : List IItem} {gaps : List Str} {tail : Str} (dir : Str) (c : Counter)
    (hwf : ISrcWFItems d items = true) (hg : GapsOKI (itoksItems items) gaps tail = true)
    (htail : items = [] → tail.all isWs = true) :
    ∃ gaps' tail', commentStages false dir c (spreadC (itoksItems items) gaps tail)
        = ({ counter := (labelI dir c items).1.icounter,
             lineC := (labelI dir c items).1.c.lineC,
             incl := (labelI dir c items).1.incl,
             blockC := (labelI dir c items).1.c.blockC },
           spreadS (srcToksPEs (labelIItems dir
             { c := { counter := c }, icounter := C02.adv Gen.counterLimit (countLineItems items) c }
             (dropCItems items)).2) gaps' tail')
      ∧ GapsOKS (srcToksPEs (labelIItems dir
             { c := { counter := c }, icounter := C02.adv Gen.counterLimit (countLineItems items) c }
             (dropCItems items)).2) gaps' = true ∧ tail'.all isWs = true := by
  obtain ⟨h1, h2, h3⟩ := include_stages_toks_off dir c (itoksI_ok items d hwf) hg (tailI_ws hg htail)
  obtain ⟨t1, _⟩ := stages_state true (itoksItems items) { counter := c } []
  generalize (lineToks true { counter := c } (itoksItems items)).1 = st1 at h1 h2 h3 t1
  obtain ⟨b1, _⟩ := bridgeI dir items d { counter := c } st1 hwf
  obtain ⟨_, b2'⟩ := bridgeI dir (dropCItems items) d { counter := c } st1 (dropC_wfI items d hwf)
  have hlab := labelCToks_inclToks dir (itoksItems items) { counter := c } st1
  have hst : ist { counter := c } st1 =
      { c := { counter := c }, icounter := C02.adv Gen.counterLimit (countLineItems items) c } := by
    refine ist_eq rfl ?_ ?_
    · show st1.counter = _
      have e1 : st1.counter = (labelCToks { counter := c } (itoksItems items)).1.counter := by rw [t1]; rfl
      rw [e1, ← hlab]
      have e2 := congrArg (fun s => s.c.counter) b1
      simp only [ist] at e2
      rw [e2]
      exact lcounter_labelII dir items _
    · show st1.incl = _
      rw [t1]
  rw [hst] at b1 b2'
  have e0 : labelIItems dir { c := { counter := c }, icounter := C02.adv Gen.counterLimit (countLineItems items) c } items =
      labelI dir c items := rfl
  rw [e0] at b1
  -- the tokens that are no comments are the labelled tokens of the comment-free document
  have hpl : plainToks (inclToks dir st1 (itoksItems items)).2 =
      srcToksPEs (labelIItems dir
        { c := { counter := c }, icounter := C02.adv Gen.counterLimit (countLineItems items) c } (dropCItems items)).2 := by
    rw [← b2', itoks_dropI, inclToks_strip, labelCToks_strip]
  refine ⟨(mergeGaps [] (inclToks dir st1 (itoksItems items)).2 gaps tail).1,
    (mergeGaps [] (inclToks dir st1 (itoksItems items)).2 gaps tail).2, ?_, ?_, h3⟩
  · rw [h1, hpl]
    refine Prod.ext (lexSt_eq ?_ ?_ ?_ ?_ rfl rfl) rfl
    · exact congrArg (fun s => s.icounter) b1
    · exact congrArg (fun s => s.c.lineC) b1
    · exact congrArg (fun s => s.incl) b1
    · exact congrArg (fun s => s.c.blockC) b1
  · rw [← hpl]; exact h2

/-- **C12_read_included_off**: the reader with comments switched off, same hypotheses: the comment entries are gone,
    the include entries stay, the three tables are filled as with comments on, the counter ends where it ends with
    comments on -/
theorem C12_read_included_off {items : List IItem} {gaps : List Str} {tail : Str} (dir : Str) (c : Counter)
    (hwf : ISrcWFItems 1 items = true) (hg : GapsOKI (itoksItems items) gaps tail = true)
    (htail : items = [] → tail.all isWs = true)
    (hc : C13.ValidCounter Gen.counterLimit c)
    (hn : C02.countQuotedEs (plainIItems items) ≤ Gen.counterLimit + 1)
    (hd : C02.DocKeysAbsent (plainIItems items)) :
    parseNative false dir c (spreadC (itoksItems items) gaps tail) =
      .ok (denIoff dir c items,
           C02.adv Gen.counterLimit (C02.countQuotedEs (plainIItems items)) (labelI dir c items).1.icounter) := by
  obtain ⟨gaps', tail', hst, hgs, ht⟩ := include_stages_off dir c hwf hg htail
  generalize hes : (labelIItems dir
      { c := { counter := c }, icounter := C02.adv Gen.counterLimit (countLineItems items) c } (dropCItems items)).2 = es
    at hst hgs
  have hq : countQuotedEs' es = C02.countQuotedEs (plainIItems items) := by
    rw [← hes, countQuoted_labelII, dropC_plainI]
  have hv : C13.ValidCounter Gen.counterLimit (labelI dir c items).1.icounter :=
    icounter_labelII dir items
      { c := { counter := c }, icounter := C02.adv Gen.counterLimit (countLineItems items) c } (C02.adv_valid _ hc)
  have hw : SrcPWFEs 1 es = true := by rw [← hes]; exact labelledI_wfI dir _ 1 _ (dropC_wfI items 1 hwf)
  have hk : DocKeysAbsentP es := by
    rw [← hes]; exact docKeys_labelI dir _ _ (by rw [dropC_plainI]; exact hd)
  rw [parseNative_stages, hst]
  show parseRest _ (spreadS (srcToksPEs es) gaps' tail') = _
  rw [parseRest_labelled_clean hw hgs ht rfl rfl hv (by rw [hq]; exact hn) hk, hq, ← hes]
  rfl

/-- the example with comments off, any directory, any valid counter -/
theorem exI_read_off (dir : Str) (c : Counter) (hc : C13.ValidCounter Gen.counterLimit c) :
    parseNative false dir c exIText =
      .ok (denIoff dir c exI,
        C02.adv Gen.counterLimit (C02.countQuotedEs (plainIItems exI)) (labelI dir c exI).1.icounter) := by
  rw [← exI_text]
  exact C12_read_included_off dir c exI_wf exIGaps_ok (fun h => by cases h) hc (by decide +kernel) (by decide +kernel)

/-- … and its include table through the corollary: three directives with distinct texts -/
theorem exI_directives (dir : Str) (c : Counter) (hc : C13.ValidCounter Gen.counterLimit c) :
    ∃ sd c', parseNative true dir c exIText = .ok (sd, c') ∧
      sd.incl = List.zip (alloc Gen.counterLimit 3 (C02.adv Gen.counterLimit 2 c))
        [{ directive := "#include 'inc/a'".toList, file := "inc/a".toList, path := dir ++ ['/'] ++ "inc/a".toList },
         { directive := "#include \"../b\"".toList, file := "../b".toList, path := dir ++ ['/'] ++ "../b".toList },
         { directive := "#include /abs/c".toList, file := "/abs/c".toList, path := "/abs/c".toList }] := by
  have h := C12_included_directives dir c exI_wf exIGaps_ok (fun h => by cases h) hc (by decide +kernel)
    (by decide +kernel) (by decide +kernel) (by decide +kernel)
  rw [exI_text] at h
  obtain ⟨sd, c', h1, h2⟩ := h
  refine ⟨sd, c', h1, ?_⟩
  rw [h2]
  have e1 : inclsItems exI = [(some '\'', "inc/a".toList), (some '"', "../b".toList), (none, "/abs/c".toList)] := by
    decide +kernel
  have e2 : countLineItems exI = 2 := by decide +kernel
  rw [e1, e2]
  have d1 : dirText (some '\'') "inc/a".toList = "#include 'inc/a'".toList := by decide
  have d2 : dirText (some '"') "../b".toList = "#include \"../b\"".toList := by decide
  have d3 : dirText none "/abs/c".toList = "#include /abs/c".toList := by decide
  have p1 : ("inc/a".toList.head? == some '/') = false := by decide
  have p2 : ("../b".toList.head? == some '/') = false := by decide
  have p3 : ("/abs/c".toList.head? == some '/') = true := by decide
  simp only [List.length_cons, List.length_nil, List.map_cons, List.map_nil, d1, d2, d3, p1, p2, p3, if_true,
    Bool.false_eq_true, if_false]

end DictIO.C12
