/-
  C04 -- Scalar typing: `Parser.parse_value` (the regex cascade int / float / bool / None / str),
  `remove_quotes_from_string`, and the Native / Foam `Formatter.format_value`, `format_string`.
  Model: `parseValue`, `parseScalar`, `removeQuotes`, `formatScalar`, `formatString` (Model/Scalar.lean).
  Single file: specification vocabulary, helper lemmas (including (1) the recogniser correctness theorems, on which
  later helpers depend), then the property theorems (2)-(8), then non-vacuity examples (9).

  The vocabulary is the *documented* element-type table, written as grammars / inductive predicates, independently of
  the recognisers of the model (`isIntLit`, `isFloatLit`, `isFloatExpLit`, `boolNoneWord`).
-/
import DictIO.Model.Scalar

namespace DictIO.C04
open DictIO

/-! #### specification vocabulary -/

/-- an optional sign `[+-]?` -/
def IsSign (s : Str) : Prop := s = [] ∨ s = ['+'] ∨ s = ['-']

/-- what Python's `$` tolerates after the match: nothing, or one final line feed -/
def IsTail (s : Str) : Prop := s = [] ∨ s = ['\n']

/-- `\d*` -/
def Digits (ds : Str) : Prop := ∀ c ∈ ds, isDigit c = true

instance (ds : Str) : Decidable (Digits ds) := by unfold Digits; infer_instance

/-- `^[+-]?\d+$` -/
def IsIntLit (s : Str) : Prop :=
  ∃ sign ds tail, s = sign ++ ds ++ tail ∧ IsSign sign ∧ ds ≠ [] ∧ Digits ds ∧ IsTail tail

/-- `\d+(\.\d*)?|\.\d+` -/
inductive IsMantissa : Str → Prop
  | int (ds : Str) : ds ≠ [] → Digits ds → IsMantissa ds
  | intFrac (ds fs : Str) : ds ≠ [] → Digits ds → Digits fs → IsMantissa (ds ++ '.' :: fs)
  | frac (fs : Str) : fs ≠ [] → Digits fs → IsMantissa ('.' :: fs)

/-- `([eE][-+]?\d+)?` -/
inductive IsExponent : Str → Prop
  | none : IsExponent []
  | exp (e : Char) (sign ds : Str) : e = 'e' ∨ e = 'E' → IsSign sign → ds ≠ [] → Digits ds → IsExponent (e :: (sign ++ ds))

/-- `^[+-]?(\d+(\.\d*)?|\.\d+)([eE][-+]?\d+)?$` -/
def IsFloatLit (s : Str) : Prop :=
  ∃ sign m e tail, s = sign ++ m ++ e ++ tail ∧ IsSign sign ∧ IsMantissa m ∧ IsExponent e ∧ IsTail tail

/-- sign applied to a magnitude -/
def applySign (sign : Str) (n : Nat) : Int := if sign = ['-'] then -(n : Int) else n

/-- the three strings that are kept as they are -/
def IsSpecial (s : Str) : Prop := s = ['-'] ∨ s = ['_'] ∨ s = ['.']

instance (s : Str) : Decidable (IsSpecial s) := by unfold IsSpecial; infer_instance

/-- `s.strip().lower() == w` (ASCII lower-casing: see `C04_lower_safe`) -/
def IsWord (w : String) (s : Str) : Prop := (strip s).map asciiLower = w.toList

instance (w : String) (s : Str) : Decidable (IsWord w s) := by unfold IsWord; infer_instance

/-- one of the six words -/
def IsAnyWord (s : Str) : Prop :=
  IsWord "true" s ∨ IsWord "on" s ∨ IsWord "false" s ∨ IsWord "off" s ∨ IsWord "none" s ∨ IsWord "null" s

/-- rows 1 and 2 do not apply -/
def NotTrivial (s : Str) : Prop := removeQuotes s ≠ [] ∧ ¬ IsSpecial s

instance (s : Str) : Decidable (NotTrivial s) := by unfold NotTrivial; infer_instance

/-- rows 1 to 4 do not apply -/
def NotNumeric (s : Str) : Prop := NotTrivial s ∧ ¬ IsIntLit s ∧ ¬ IsFloatLit s

/-- the documented element-type table, in cascade order; each row is guarded by the negation of the rows above it
    (the six word rows are mutually exclusive by themselves: `isWord_unique`) -/
inductive Classifies : Str → Scalar → Prop
  | empty {s : Str} : removeQuotes s = [] → Classifies s (.str [])
  | special {s : Str} : removeQuotes s ≠ [] → IsSpecial s → Classifies s (.str s)
  | int {s : Str} (sign ds tail : Str) : NotTrivial s →
      s = sign ++ ds ++ tail → IsSign sign → ds ≠ [] → Digits ds → IsTail tail →
      Classifies s (.int (applySign sign (digitsVal ds)))
  | float {s : Str} : NotTrivial s → ¬ IsIntLit s → IsFloatLit s → Classifies s (.float s)
  | wTrue {s : Str} : NotNumeric s → IsWord "true" s ∨ IsWord "on" s → Classifies s (.bool true)
  | wFalse {s : Str} : NotNumeric s → IsWord "false" s ∨ IsWord "off" s → Classifies s (.bool false)
  | wNone {s : Str} : NotNumeric s → IsWord "none" s ∨ IsWord "null" s → Classifies s .none
  | other {s : Str} : NotNumeric s → ¬ IsAnyWord s → Classifies s (.str (removeQuotes s))

/-- `0`..`9` -/
def IsAsciiDigit (c : Char) : Prop := c ∈ ['0', '1', '2', '3', '4', '5', '6', '7', '8', '9']

instance (c : Char) : Decidable (IsAsciiDigit c) := by unfold IsAsciiDigit; infer_instance

/-- `[0-9]*` -/
def AsciiDigits (ds : Str) : Prop := ∀ c ∈ ds, IsAsciiDigit c

instance (ds : Str) : Decidable (AsciiDigits ds) := by unfold AsciiDigits; infer_instance

/-- exponent of `repr(float)`: `e`, a sign, at least two digits -/
inductive IsPyExp : Str → Prop
  | mk (sg : Char) (ds : Str) : sg = '+' ∨ sg = '-' → 2 ≤ ds.length → AsciiDigits ds → IsPyExp ('e' :: sg :: ds)

/-- `repr(x)` for a finite float `x`: `-?\d+(\.\d+(e[+-]\d\d+)?|e[+-]\d\d+)` over ASCII digits -/
inductive IsPyFloatRepr : Str → Prop
  | frac (neg ds fs : Str) : neg = [] ∨ neg = ['-'] → ds ≠ [] → AsciiDigits ds → fs ≠ [] → AsciiDigits fs →
      IsPyFloatRepr (neg ++ ds ++ ('.' :: fs))
  | fracExp (neg ds fs e : Str) : neg = [] ∨ neg = ['-'] → ds ≠ [] → AsciiDigits ds → fs ≠ [] → AsciiDigits fs →
      IsPyExp e → IsPyFloatRepr (neg ++ ds ++ ('.' :: fs) ++ e)
  | exp (neg ds e : Str) : neg = [] ∨ neg = ['-'] → ds ≠ [] → AsciiDigits ds → IsPyExp e →
      IsPyFloatRepr (neg ++ ds ++ e)

/-- the string may be written bare: non-empty, no `$`, no quote, no character of the "complex" class, and it does not
    start like an include directive (`#include…`) -/
def Bare (s : Str) : Prop :=
  s ≠ [] ∧ s.contains '$' = false ∧ s.all (fun c => !isQuote c && !isComplexChar c) = true ∧ startsInclude s = false

/-! ## helper lemmas -/

/-- the next character is not a digit (or there is none) -/
def NDH : Str → Prop
  | [] => True
  | c :: _ => isDigit c = false

/-- the next character is not a sign -/
def NSH : Str → Prop
  | [] => True
  | c :: _ => c ≠ '+' ∧ c ≠ '-'

theorem isDigit_dot : isDigit '.' = false := by decide
theorem isDigit_e : isDigit 'e' = false := by decide
theorem isDigit_E : isDigit 'E' = false := by decide
theorem isDigit_plus : isDigit '+' = false := by decide
theorem isDigit_minus : isDigit '-' = false := by decide
theorem isDigit_nl : isDigit '\n' = false := by decide
theorem isDigit_underscore : isDigit '_' = false := by decide
theorem isDigit_sq : isDigit '\'' = false := by decide
theorem isDigit_dq : isDigit '"' = false := by decide

theorem Digits.nil : Digits [] := fun _ h => by cases h
theorem Digits.cons {c : Char} {ds : Str} (hc : isDigit c = true) (h : Digits ds) : Digits (c :: ds) := by
  intro x hx
  rcases List.mem_cons.mp hx with rfl | hx
  · exact hc
  · exact h x hx
theorem Digits.head {c : Char} {ds : Str} (h : Digits (c :: ds)) : isDigit c = true := h c List.mem_cons_self
theorem Digits.tail {c : Char} {ds : Str} (h : Digits (c :: ds)) : Digits ds := fun x hx => h x (List.mem_cons_of_mem _ hx)

theorem IsTail.ndh {t : Str} (h : IsTail t) : NDH t := by
  rcases h with rfl | rfl
  · trivial
  · exact isDigit_nl

theorem IsTail.atDollar {t : Str} (h : IsTail t) : atDollar t = true := by
  rcases h with rfl | rfl <;> decide

theorem atDollar_iff {t : Str} : atDollar t = true ↔ IsTail t := by
  simp [atDollar, IsTail]

/-! ##### `spanDigits` -/

theorem spanDigits_split : ∀ {s d r : Str}, spanDigits s = (d, r) → s = d ++ r ∧ Digits d ∧ NDH r
  | [], d, r, h => by
    simp only [spanDigits, Prod.mk.injEq] at h
    obtain ⟨rfl, rfl⟩ := h
    exact ⟨rfl, Digits.nil, trivial⟩
  | c :: cs, d, r, h => by
    simp only [spanDigits] at h
    by_cases hc : isDigit c = true
    · obtain ⟨h1, h2, h3⟩ := spanDigits_split (s := cs) (d := (spanDigits cs).1) (r := (spanDigits cs).2) rfl
      simp only [hc, if_true, Prod.mk.injEq] at h
      obtain ⟨rfl, rfl⟩ := h
      refine ⟨by rw [List.cons_append, ← h1], Digits.cons hc h2, h3⟩
    · simp only [hc] at h
      obtain ⟨rfl, rfl⟩ := h
      exact ⟨rfl, Digits.nil, by simpa [NDH] using hc⟩

/-- uniqueness: the longest digit prefix is the only split with a non-digit next -/
theorem spanDigits_append : ∀ {d r : Str}, Digits d → NDH r → spanDigits (d ++ r) = (d, r)
  | [], [], _, _ => rfl
  | [], c :: r, _, h => by
    have : isDigit c = false := h
    simp [spanDigits, this]
  | c :: d, r, hd, hr => by
    simp [spanDigits, hd.head, spanDigits_append hd.tail hr]

/-- the statement of the task, in its literal form -/
theorem spanDigits_spec {s d r : Str} (h : spanDigits s = (d, r)) :
    s = d ++ r ∧ (∀ c ∈ d, isDigit c = true) ∧ (r = [] ∨ ∃ c r', r = c :: r' ∧ isDigit c = false) := by
  obtain ⟨h1, h2, h3⟩ := spanDigits_split h
  refine ⟨h1, h2, ?_⟩
  cases r with
  | nil => exact Or.inl rfl
  | cons c r' => exact Or.inr ⟨c, r', rfl, h3⟩

theorem spanDigits_unique {s d r : Str} (h1 : s = d ++ r) (h2 : ∀ c ∈ d, isDigit c = true)
    (h3 : r = [] ∨ ∃ c r', r = c :: r' ∧ isDigit c = false) : spanDigits s = (d, r) := by
  subst h1
  apply spanDigits_append h2
  rcases h3 with rfl | ⟨c, r', rfl, hc⟩
  · trivial
  · exact hc

/-! ##### `dropSign` -/

theorem dropSign_spec (s : Str) : ∃ sign, IsSign sign ∧ s = sign ++ dropSign s := by
  unfold dropSign
  split
  · exact ⟨['+'], Or.inr (Or.inl rfl), rfl⟩
  · exact ⟨['-'], Or.inr (Or.inr rfl), rfl⟩
  · exact ⟨[], Or.inl rfl, rfl⟩

theorem dropSign_of_nsh : ∀ {r : Str}, NSH r → dropSign r = r
  | [], _ => rfl
  | c :: r, h => by
    obtain ⟨h1, h2⟩ := h
    unfold dropSign
    split
    · rename_i heq; cases heq; exact absurd rfl h1
    · rename_i heq; cases heq; exact absurd rfl h2
    · rfl

theorem dropSign_append {sign r : Str} (hs : IsSign sign) (hr : NSH r) : dropSign (sign ++ r) = r := by
  rcases hs with rfl | rfl | rfl
  · exact dropSign_of_nsh hr
  · rfl
  · rfl

theorem nsh_of_isDigit {c : Char} (h : isDigit c = true) (r : Str) : NSH (c :: r) := by
  refine ⟨?_, ?_⟩ <;> rintro rfl
  · rw [isDigit_plus] at h; cases h
  · rw [isDigit_minus] at h; cases h

theorem Digits.nsh {ds : Str} (hne : ds ≠ []) (h : Digits ds) (r : Str) : NSH (ds ++ r) := by
  cases ds with
  | nil => exact absurd rfl hne
  | cons c ds => exact nsh_of_isDigit h.head _

theorem IsMantissa.nsh {m : Str} (h : IsMantissa m) (r : Str) : NSH (m ++ r) := by
  cases h with
  | int ds hne hd => exact hd.nsh hne r
  | intFrac ds fs hne hd hf => rw [List.append_assoc]; exact hd.nsh hne _
  | frac fs hne hf => exact ⟨by decide, by decide⟩

/-! ##### `dropMantissa` -/

/-- the next character is not a `.` -/
def NDot : Str → Prop
  | [] => True
  | c :: _ => c ≠ '.'

theorem spanDigits_of_ndh {r : Str} (h : NDH r) : spanDigits r = ([], r) :=
  spanDigits_append (d := []) Digits.nil h

theorem dropMantissa_spec {s r : Str} (h : dropMantissa s = some r) : ∃ m, s = m ++ r ∧ IsMantissa m := by
  unfold dropMantissa at h
  cases hsd : spanDigits s with
  | mk d r0 =>
  obtain ⟨h1, h2, h3⟩ := spanDigits_split hsd
  rw [hsd] at h
  simp only at h
  by_cases hd : d = []
  · subst hd
    simp only [List.isEmpty_nil, Bool.not_true, Bool.false_eq_true, if_false] at h
    split at h
    · rename_i r'
      obtain ⟨g1, g2, g3⟩ := spanDigits_split (s := r') (d := (spanDigits r').1) (r := (spanDigits r').2) rfl
      split at h
      · rename_i hne
        cases h
        refine ⟨'.' :: (spanDigits r').1, ?_, IsMantissa.frac _ (by simpa using hne) g2⟩
        rw [h1, List.nil_append, List.cons_append, ← g1]
      · cases h
    · cases h
  · have hne : (!d.isEmpty) = true := by simpa using hd
    simp only [hne, if_true] at h
    split at h
    · rename_i r'
      obtain ⟨g1, g2, g3⟩ := spanDigits_split (s := r') (d := (spanDigits r').1) (r := (spanDigits r').2) rfl
      cases h
      refine ⟨d ++ '.' :: (spanDigits r').1, ?_, IsMantissa.intFrac d _ hd h2 g2⟩
      rw [h1, List.append_assoc, List.cons_append, ← g1]
    · cases h
      exact ⟨d, h1, IsMantissa.int d hd h2⟩

theorem dropMantissa_append {m r : Str} (hm : IsMantissa m) (hr : NDH r) (hdot : NDot r) :
    dropMantissa (m ++ r) = some r := by
  cases hm with
  | int _ hne hd =>
    have hne' : (!List.isEmpty m) = true := by simpa using hne
    unfold dropMantissa
    rw [spanDigits_append hd hr]
    simp only [hne', if_true]
    split
    · exact absurd rfl hdot
    · rfl
  | intFrac ds fs hne hd hf =>
    have hne' : (!ds.isEmpty) = true := by simpa using hne
    unfold dropMantissa
    rw [List.append_assoc, spanDigits_append hd (r := ('.' :: fs) ++ r) isDigit_dot]
    simp only [hne', if_true, List.cons_append, spanDigits_append hf hr]
  | frac fs hne hf =>
    have hne' : (!fs.isEmpty) = true := by simpa using hne
    unfold dropMantissa
    rw [List.cons_append, spanDigits_of_ndh (r := '.' :: (fs ++ r)) isDigit_dot]
    simp only [List.isEmpty_nil, Bool.not_true, Bool.false_eq_true, if_false, spanDigits_append hf hr, hne', if_true]

/-! #### (1) recogniser correctness: the hand-written recognisers accept exactly the documented grammars
     (required theorems `isIntLit_iff`, `isFloat_iff`; `spanDigits_spec`, `spanDigits_unique` are above) -/

theorem isIntLit_iff {s : Str} : isIntLit s = true ↔ IsIntLit s := by
  constructor
  · intro h
    unfold isIntLit at h
    obtain ⟨sign, hs, hsplit⟩ := dropSign_spec s
    obtain ⟨h1, h2, h3⟩ := spanDigits_split (s := dropSign s) (d := (spanDigits (dropSign s)).1) (r := (spanDigits (dropSign s)).2) rfl
    simp only [Bool.and_eq_true, Bool.not_eq_true', List.isEmpty_eq_false_iff] at h
    refine ⟨sign, _, _, ?_, hs, h.1, h2, atDollar_iff.mp h.2⟩
    rw [List.append_assoc, ← h1]; exact hsplit
  · rintro ⟨sign, ds, tail, rfl, hs, hne, hd, ht⟩
    unfold isIntLit
    rw [List.append_assoc, dropSign_append hs (hd.nsh hne _), spanDigits_append hd ht.ndh]
    simp [hne, ht.atDollar]

theorem isFloatLit_imp_exp {s : Str} (h : isFloatLit s = true) : isFloatExpLit s = true := by
  unfold isFloatLit at h
  unfold isFloatExpLit
  split at h
  · simp [h]
  · cases h

theorem IsTail.ndot {t : Str} (h : IsTail t) : NDot t := by
  rcases h with rfl | rfl
  · trivial
  · show '\n' ≠ '.'; decide

/-- the exponent part of `isFloatExpLit`, as a function of what follows the mantissa -/
def expTail (r : Str) : Bool :=
  match r with
  | c :: r' => (c == 'e' || c == 'E') &&
      (let (d, r'') := spanDigits (dropSign r'); !d.isEmpty && atDollar r'')
  | [] => false

theorem isFloatExpLit_eq (s : Str) : isFloatExpLit s =
    match dropMantissa (dropSign s) with
    | some r => atDollar r || expTail r
    | none => false := rfl

theorem expTail_spec {r : Str} (h : expTail r = true) :
    ∃ e tail, r = e ++ tail ∧ IsExponent e ∧ e ≠ [] ∧ IsTail tail := by
  cases r with
  | nil => cases h
  | cons c r' =>
    simp only [expTail] at h
    obtain ⟨sign2, hs2, hsplit2⟩ := dropSign_spec r'
    obtain ⟨h1, h2, h3⟩ := spanDigits_split (s := dropSign r') (d := (spanDigits (dropSign r')).1) (r := (spanDigits (dropSign r')).2) rfl
    simp only [Bool.and_eq_true, Bool.or_eq_true, beq_iff_eq, Bool.not_eq_true', List.isEmpty_eq_false_iff] at h
    refine ⟨c :: (sign2 ++ (spanDigits (dropSign r')).1), (spanDigits (dropSign r')).2, ?_,
      IsExponent.exp c sign2 _ h.1 hs2 h.2.1 h2, by simp, atDollar_iff.mp h.2.2⟩
    rw [List.cons_append, List.append_assoc, ← h1, ← hsplit2]

theorem expTail_append {c : Char} {sign ds tail : Str} (hc : c = 'e' ∨ c = 'E') (hs : IsSign sign) (hne : ds ≠ [])
    (hd : Digits ds) (ht : IsTail tail) : expTail (c :: (sign ++ ds) ++ tail) = true := by
  have : (c == 'e' || c == 'E') = true := by rcases hc with rfl | rfl <;> decide
  simp only [expTail, List.cons_append, List.append_assoc, dropSign_append hs (hd.nsh hne _), spanDigits_append hd ht.ndh]
  simp [this, hne, ht.atDollar]

theorem isFloatExpLit_iff {s : Str} : isFloatExpLit s = true ↔ IsFloatLit s := by
  constructor
  · intro h
    rw [isFloatExpLit_eq] at h
    obtain ⟨sign, hs, hsplit⟩ := dropSign_spec s
    split at h
    · rename_i r hr
      obtain ⟨m, hm, hM⟩ := dropMantissa_spec hr
      rcases Bool.or_eq_true_iff.mp h with h | h
      · refine ⟨sign, m, [], r, ?_, hs, hM, IsExponent.none, atDollar_iff.mp h⟩
        rw [List.append_nil, List.append_assoc, ← hm]; exact hsplit
      · obtain ⟨e, tail, rfl, he, _, ht⟩ := expTail_spec h
        refine ⟨sign, m, e, tail, ?_, hs, hM, he, ht⟩
        rw [List.append_assoc, List.append_assoc, ← List.append_assoc m, ← hm] at *; exact hsplit
    · cases h
  · rintro ⟨sign, m, e, tail, rfl, hs, hm, he, ht⟩
    rw [isFloatExpLit_eq, List.append_assoc, List.append_assoc, dropSign_append hs (hm.nsh _)]
    cases he with
    | none =>
      rw [List.nil_append, dropMantissa_append hm ht.ndh ht.ndot]
      simp [ht.atDollar]
    | exp c sign2 ds hc hs2 hne hd =>
      have hcd : isDigit c = false := by rcases hc with rfl | rfl <;> decide
      have hcdot : c ≠ '.' := by rcases hc with rfl | rfl <;> decide
      rw [List.cons_append, dropMantissa_append hm (r := c :: _) hcd hcdot]
      simp only
      rw [← List.cons_append, expTail_append hc hs2 hne hd ht, Bool.or_true]

theorem isFloat_iff {s : Str} : (isFloatLit s || isFloatExpLit s) = true ↔ IsFloatLit s := by
  rw [← isFloatExpLit_iff, Bool.or_eq_true]
  exact ⟨fun h => h.elim isFloatLit_imp_exp id, Or.inr⟩

/-- the first float regex (no exponent) is subsumed by the second -/
theorem isFloatLit_iff {s : Str} : isFloatLit s = true ↔
    ∃ sign m tail, s = sign ++ m ++ tail ∧ IsSign sign ∧ IsMantissa m ∧ IsTail tail := by
  constructor
  · intro h
    unfold isFloatLit at h
    obtain ⟨sign, hs, hsplit⟩ := dropSign_spec s
    split at h
    · rename_i r hr
      obtain ⟨m, hm, hM⟩ := dropMantissa_spec hr
      exact ⟨sign, m, r, by rw [List.append_assoc, ← hm]; exact hsplit, hs, hM, atDollar_iff.mp h⟩
    · cases h
  · rintro ⟨sign, m, tail, rfl, hs, hm, ht⟩
    unfold isFloatLit
    rw [List.append_assoc, dropSign_append hs (hm.nsh _), dropMantissa_append hm ht.ndh ht.ndot]
    exact ht.atDollar

/-! ##### quotes -/

/-- no quote character occurs -/
def QF (s : Str) : Prop := ∀ c ∈ s, isQuote c = false

instance (s : Str) : Decidable (QF s) := by unfold QF; infer_instance

theorem QF.nil : QF [] := fun _ h => by cases h
theorem QF.append {a b : Str} (ha : QF a) (hb : QF b) : QF (a ++ b) := fun c hc =>
  (List.mem_append.mp hc).elim (ha c) (hb c)
theorem QF.cons {c : Char} {s : Str} (hc : isQuote c = false) (hs : QF s) : QF (c :: s) := by
  intro x hx
  rcases List.mem_cons.mp hx with rfl | hx
  · exact hc
  · exact hs x hx
theorem QF.head {c : Char} {s : Str} (h : QF (c :: s)) : isQuote c = false := h c List.mem_cons_self
theorem QF.tail {c : Char} {s : Str} (h : QF (c :: s)) : QF s := fun x hx => h x (List.mem_cons_of_mem _ hx)

theorem isQuote_of_isDigit {c : Char} (h : isDigit c = true) : isQuote c = false := by
  cases hq : isQuote c with
  | false => rfl
  | true =>
    simp only [isQuote, Bool.or_eq_true, beq_iff_eq] at hq
    rcases hq with rfl | rfl
    · rw [isDigit_sq] at h; cases h
    · rw [isDigit_dq] at h; cases h

theorem Digits.qf {ds : Str} (h : Digits ds) : QF ds := fun c hc => isQuote_of_isDigit (h c hc)
theorem IsSign.qf {s : Str} (h : IsSign s) : QF s := by
  rcases h with rfl | rfl | rfl <;> decide
theorem IsTail.qf {s : Str} (h : IsTail s) : QF s := by
  rcases h with rfl | rfl <;> decide
theorem IsMantissa.qf {m : Str} (h : IsMantissa m) : QF m := by
  cases h with
  | int _ hne hd => exact hd.qf
  | intFrac ds fs hne hd hf => exact hd.qf.append (QF.cons (by decide) hf.qf)
  | frac fs hne hf => exact QF.cons (by decide) hf.qf
theorem IsExponent.qf {e : Str} (h : IsExponent e) : QF e := by
  cases h with
  | none => exact QF.nil
  | exp c sign ds hc hs hne hd =>
    exact QF.cons (by rcases hc with rfl | rfl <;> decide) (hs.qf.append hd.qf)

theorem IsIntLit.qf {s : Str} (h : IsIntLit s) : QF s := by
  obtain ⟨sign, ds, tail, rfl, hs, _, hd, ht⟩ := h
  exact (hs.qf.append hd.qf).append ht.qf

theorem IsFloatLit.qf {s : Str} (h : IsFloatLit s) : QF s := by
  obtain ⟨sign, m, e, tail, rfl, hs, hm, he, ht⟩ := h
  exact ((hs.qf.append hm.qf).append he.qf).append ht.qf

theorem dropEndQuote_of_qf (s : Str) (h : QF s) : dropEndQuote s = s := by
  fun_induction dropEndQuote s with
  | case1 => rfl
  | case2 c hq => rw [h.head] at hq; cases hq
  | case3 c hq => rfl
  | case4 c hq => rw [h.head] at hq; cases hq
  | case5 c hq => rfl
  | case6 c cs h1 h2 ih => rw [ih h.tail]

/-- a string without quote characters is left alone by `remove_quotes_from_string` -/
theorem removeQuotes_of_qf {s : Str} (h : QF s) : removeQuotes s = s := by
  cases s with
  | nil => rfl
  | cons c cs => simp only [removeQuotes, h.head, Bool.false_eq_true, if_false]; exact dropEndQuote_of_qf _ h

/-! ##### `intOfLit` -/

theorem intOfLit_eq {sign ds tail : Str} (hs : IsSign sign) (hne : ds ≠ []) (hd : Digits ds) (ht : IsTail tail) :
    intOfLit (sign ++ ds ++ tail) = applySign sign (digitsVal ds) := by
  unfold intOfLit
  rw [List.append_assoc, dropSign_append hs (hd.nsh hne _), spanDigits_append hd ht.ndh]
  rcases hs with rfl | rfl | rfl
  · cases ds with
    | nil => exact absurd rfl hne
    | cons c ds' =>
      have hc : c ≠ '-' := by
        rintro rfl
        have := hd.head
        rw [isDigit_minus] at this; cases this
      simp only [List.nil_append, List.cons_append, applySign]
      split
      · rename_i heq; cases heq; exact absurd rfl hc
      · simp
  · simp [applySign]
  · simp [applySign]

/-- the decomposition of an int literal is unique, so its value is well defined -/
theorem intLit_value_unique {sign ds tail sign' ds' tail' : Str}
    (h : sign ++ ds ++ tail = sign' ++ ds' ++ tail')
    (hs : IsSign sign) (hne : ds ≠ []) (hd : Digits ds) (ht : IsTail tail)
    (hs' : IsSign sign') (hne' : ds' ≠ []) (hd' : Digits ds') (ht' : IsTail tail') :
    applySign sign (digitsVal ds) = applySign sign' (digitsVal ds') := by
  rw [← intOfLit_eq hs hne hd ht, ← intOfLit_eq hs' hne' hd' ht', h]

/-! ##### the cascade, restated with the declarative guards -/

theorem isWord_unique {w w' : String} {s : Str} (h : IsWord w s) (h' : IsWord w' s) : w.toList = w'.toList :=
  h.symm.trans h'

theorem boolNoneWord_eq (s : Str) : boolNoneWord s =
    if IsWord "true" s then some (.bool true)
    else if IsWord "false" s then some (.bool false)
    else if IsWord "on" s then some (.bool true)
    else if IsWord "off" s then some (.bool false)
    else if IsWord "none" s then some .none
    else if IsWord "null" s then some .none
    else none := by
  simp only [boolNoneWord, wordForm, IsWord, beq_iff_eq]

theorem parseValue_eq (s : Str) : parseValue s =
    if removeQuotes s = [] then .str []
    else if IsSpecial s then .str s
    else if isIntLit s = true then .int (intOfLit s)
    else if isFloatExpLit s = true then .float s
    else match boolNoneWord s with
      | some v => v
      | none => .str (removeQuotes s) := by
  unfold parseValue
  by_cases h0 : removeQuotes s = []
  · simp [h0]
  · have h0' : (removeQuotes s).isEmpty = false := by simpa using h0
    simp only [h0', h0, Bool.false_eq_true, if_false]
    by_cases h1 : IsSpecial s
    · have : (s == ['-'] || s == ['_'] || s == ['.']) = true := by simpa [IsSpecial, or_assoc] using h1
      simp only [this, h1, if_true]
    · have : (s == ['-'] || s == ['_'] || s == ['.']) = false := by simpa [IsSpecial, and_assoc] using h1
      simp only [this, h1, Bool.false_eq_true, if_false]
      by_cases h2 : isIntLit s = true
      · simp only [h2, if_true]
      · simp only [h2, Bool.false_eq_true, if_false]
        by_cases h3 : isFloatLit s = true
        · simp only [h3, isFloatLit_imp_exp h3, if_true]
        · simp only [h3, Bool.false_eq_true, if_false]
          rfl

theorem parseValue_empty {s : Str} (h : removeQuotes s = []) : parseValue s = .str [] := by
  rw [parseValue_eq, if_pos h]

theorem parseValue_special {s : Str} (h0 : removeQuotes s ≠ []) (h : IsSpecial s) : parseValue s = .str s := by
  rw [parseValue_eq, if_neg h0, if_pos h]

theorem parseValue_int {s : Str} (h0 : NotTrivial s) (h : IsIntLit s) : parseValue s = .int (intOfLit s) := by
  rw [parseValue_eq, if_neg h0.1, if_neg h0.2, if_pos (isIntLit_iff.mpr h)]

theorem parseValue_float {s : Str} (h0 : NotTrivial s) (hi : ¬ IsIntLit s) (h : IsFloatLit s) : parseValue s = .float s := by
  rw [parseValue_eq, if_neg h0.1, if_neg h0.2, if_neg (mt isIntLit_iff.mp hi), if_pos (isFloatExpLit_iff.mpr h)]

theorem parseValue_word {s : Str} (h : NotNumeric s) : parseValue s =
    match boolNoneWord s with
    | some v => v
    | none => .str (removeQuotes s) := by
  rw [parseValue_eq, if_neg h.1.1, if_neg h.1.2, if_neg (mt isIntLit_iff.mp h.2.1), if_neg (mt isFloatExpLit_iff.mp h.2.2)]

theorem str_ne {a b : String} (h : decide (a.toList = b.toList) = false) {s : Str} (ha : IsWord a s) : ¬ IsWord b s :=
  fun hb => by rw [isWord_unique ha hb] at h; simp at h

theorem boolNoneWord_true {s : Str} (h : IsWord "true" s ∨ IsWord "on" s) : boolNoneWord s = some (.bool true) := by
  rw [boolNoneWord_eq]
  rcases h with h | h
  · rw [if_pos h]
  · rw [if_neg (str_ne (by decide) h), if_neg (str_ne (by decide) h), if_pos h]

theorem boolNoneWord_false {s : Str} (h : IsWord "false" s ∨ IsWord "off" s) : boolNoneWord s = some (.bool false) := by
  rw [boolNoneWord_eq]
  rcases h with h | h
  · rw [if_neg (str_ne (by decide) h), if_pos h]
  · rw [if_neg (str_ne (by decide) h), if_neg (str_ne (by decide) h), if_neg (str_ne (by decide) h), if_pos h]

theorem boolNoneWord_none {s : Str} (h : IsWord "none" s ∨ IsWord "null" s) : boolNoneWord s = some .none := by
  rw [boolNoneWord_eq]
  rcases h with h | h
  · rw [if_neg (str_ne (by decide) h), if_neg (str_ne (by decide) h), if_neg (str_ne (by decide) h),
      if_neg (str_ne (by decide) h), if_pos h]
  · rw [if_neg (str_ne (by decide) h), if_neg (str_ne (by decide) h), if_neg (str_ne (by decide) h),
      if_neg (str_ne (by decide) h), if_neg (str_ne (by decide) h), if_pos h]

theorem boolNoneWord_other {s : Str} (h : ¬ IsAnyWord s) : boolNoneWord s = none := by
  simp only [IsAnyWord, not_or] at h
  rw [boolNoneWord_eq, if_neg h.1, if_neg h.2.2.1, if_neg h.2.1, if_neg h.2.2.2.1, if_neg h.2.2.2.2.1, if_neg h.2.2.2.2.2]

/-! ##### decimal digits of a number -/

theorem asciiDigit_isDigit : ∀ k, k < 10 → isDigit (Char.ofNat (48 + k)) = true := by decide
theorem asciiDigit_digitVal : ∀ k, k < 10 → digitVal (Char.ofNat (48 + k)) = some k := by decide
theorem asciiDigit_isAscii : ∀ k, k < 10 → IsAsciiDigit (Char.ofNat (48 + k)) := by decide
theorem IsAsciiDigit.isDigit : ∀ c, IsAsciiDigit c → isDigit c = true := by
  unfold IsAsciiDigit; decide

theorem AsciiDigits.digits {ds : Str} (h : AsciiDigits ds) : Digits ds := fun c hc => (h c hc).isDigit

theorem digitsVal_append_singleton (a : Str) (c : Char) :
    digitsVal (a ++ [c]) = digitsVal a * 10 + (digitVal c).getD 0 := by
  simp [digitsVal, List.foldl_append]

theorem natDigits_ne_nil (n : Nat) : natDigits n ≠ [] := by
  rw [natDigits]; split <;> simp

theorem natDigits_ascii (n : Nat) : AsciiDigits (natDigits n) := by
  induction n using Nat.strongRecOn with
  | _ n ih =>
    rw [natDigits]
    split
    · rename_i h
      intro c hc
      rw [List.mem_singleton] at hc
      subst hc
      exact asciiDigit_isAscii n h
    · intro c hc
      rcases List.mem_append.mp hc with hc | hc
      · exact ih (n / 10) (by omega) c hc
      · rw [List.mem_singleton] at hc
        subst hc
        exact asciiDigit_isAscii _ (Nat.mod_lt _ (by decide))

theorem digitsVal_natDigits (n : Nat) : digitsVal (natDigits n) = n := by
  induction n using Nat.strongRecOn with
  | _ n ih =>
    rw [natDigits]
    split
    · rename_i h
      simp [digitsVal, asciiDigit_digitVal n h]
    · rw [digitsVal_append_singleton, ih (n / 10) (by omega), asciiDigit_digitVal _ (Nat.mod_lt _ (by decide))]
      simp only [Option.getD_some]
      omega

theorem intRepr_isIntLit (z : Int) : IsIntLit (intRepr z) := by
  cases z with
  | ofNat n =>
    exact ⟨[], natDigits n, [], by simp [intRepr], Or.inl rfl, natDigits_ne_nil n, (natDigits_ascii n).digits, Or.inl rfl⟩
  | negSucc n =>
    exact ⟨['-'], natDigits (n + 1), [], by simp [intRepr], Or.inr (Or.inr rfl), natDigits_ne_nil _,
      (natDigits_ascii _).digits, Or.inl rfl⟩

theorem intOfLit_intRepr (z : Int) : intOfLit (intRepr z) = z := by
  cases z with
  | ofNat n =>
    have := intOfLit_eq (sign := []) (tail := []) (Or.inl rfl) (natDigits_ne_nil n) (natDigits_ascii n).digits (Or.inl rfl)
    simp only [List.nil_append, List.append_nil] at this
    simp only [intRepr, this, applySign, digitsVal_natDigits]
    simp
  | negSucc n =>
    have := intOfLit_eq (sign := ['-']) (tail := []) (Or.inr (Or.inr rfl)) (natDigits_ne_nil (n + 1))
      (natDigits_ascii _).digits (Or.inl rfl)
    simp only [List.append_nil, List.singleton_append] at this
    simp only [intRepr, this, applySign, digitsVal_natDigits]
    simp [Int.negSucc_eq]

/-! ##### `repr(float)` -/

theorem isSign_of_neg {neg : Str} (h : neg = [] ∨ neg = ['-']) : IsSign neg :=
  h.elim Or.inl fun h => Or.inr (Or.inr h)

theorem IsPyExp.isExponent {e : Str} (h : IsPyExp e) : IsExponent e := by
  cases h with
  | mk sg ds hsg hlen hd =>
    have hne : ds ≠ [] := by rintro rfl; simp at hlen
    have : IsSign [sg] := by rcases hsg with rfl | rfl; exact Or.inr (Or.inl rfl); exact Or.inr (Or.inr rfl)
    exact IsExponent.exp 'e' [sg] ds (Or.inl rfl) this hne hd.digits

theorem IsPyExp.head {e : Str} (h : IsPyExp e) : ∃ r, e = 'e' :: r := by
  cases h with
  | mk sg ds _ _ _ => exact ⟨_, rfl⟩

theorem not_intLit_of {sign ds rest : Str} (hs : IsSign sign) (hne : ds ≠ []) (hd : Digits ds) (hr : NDH rest)
    (ht : ¬ IsTail rest) : ¬ IsIntLit (sign ++ ds ++ rest) := by
  rw [← isIntLit_iff]
  unfold isIntLit
  rw [List.append_assoc, dropSign_append hs (hd.nsh hne _), spanDigits_append hd hr]
  have : atDollar rest = false := by
    cases h : atDollar rest with
    | false => rfl
    | true => exact absurd (atDollar_iff.mp h) ht
  simp [this]

theorem IsPyFloatRepr.isFloatLit {l : Str} (h : IsPyFloatRepr l) : IsFloatLit l := by
  cases h with
  | frac neg ds fs hn hne hd hfne hf =>
    exact ⟨neg, ds ++ '.' :: fs, [], [], by simp, isSign_of_neg hn, .intFrac ds fs hne hd.digits hf.digits, .none, Or.inl rfl⟩
  | fracExp neg ds fs e hn hne hd hfne hf he =>
    exact ⟨neg, ds ++ '.' :: fs, e, [], by simp, isSign_of_neg hn, .intFrac ds fs hne hd.digits hf.digits,
      he.isExponent, Or.inl rfl⟩
  | exp neg ds e hn hne hd he =>
    exact ⟨neg, ds, e, [], by simp, isSign_of_neg hn, .int ds hne hd.digits, he.isExponent, Or.inl rfl⟩

theorem IsPyFloatRepr.not_intLit {l : Str} (h : IsPyFloatRepr l) : ¬ IsIntLit l := by
  cases h with
  | frac neg ds fs hn hne hd hfne hf =>
    exact not_intLit_of (isSign_of_neg hn) hne hd.digits isDigit_dot (by simp [IsTail])
  | fracExp neg ds fs e hn hne hd hfne hf he =>
    rw [List.append_assoc]
    exact not_intLit_of (isSign_of_neg hn) hne hd.digits isDigit_dot (by simp [IsTail])
  | exp neg ds e hn hne hd he =>
    obtain ⟨r, rfl⟩ := he.head
    exact not_intLit_of (isSign_of_neg hn) hne hd.digits isDigit_e (by simp [IsTail])

/-! ##### the writer's quoting decision -/

theorem sq_ne (s : Str) : sq s ≠ s := fun h => by
  have := congrArg List.length h
  simp [sq] at this
  omega

theorem dq_ne (s : Str) : dq s ≠ s := fun h => by
  have := congrArg List.length h
  simp [dq] at this
  omega

theorem sq_ne_dq (s : Str) : sq s ≠ dq s := fun h => by
  simp [sq, dq] at h

theorem escapeDq_length : ∀ s : Str, s.length ≤ (escapeDq s).length
  | [] => Nat.le_refl _
  | c :: r => by
    have := escapeDq_length r
    by_cases hc : c = '"'
    · subst hc; simp only [escapeDq, List.length_cons]; omega
    · rw [escapeDq]
      · simp only [List.length_cons]; omega
      · exact hc

theorem dq_escape_ne (s : Str) : dq (escapeDq s) ≠ s := fun h => by
  have := congrArg List.length h
  have := escapeDq_length s
  simp only [dq, List.length_cons, List.length_append, List.length_nil] at *
  omega

theorem all_plain_iff (s : Str) :
    s.all (fun c => !isQuote c && !isComplexChar c) = true ↔ s.any isQuote = false ∧ s.any isComplexChar = false := by
  induction s with
  | nil => simp
  | cons c s ih =>
    simp only [List.all_cons, List.any_cons, Bool.and_eq_true, Bool.or_eq_false_iff, ih, Bool.not_eq_true']
    constructor
    · rintro ⟨⟨a, b⟩, c, d⟩; exact ⟨⟨a, c⟩, b, d⟩
    · rintro ⟨⟨a, c⟩, b, d⟩; exact ⟨⟨a, b⟩, c, d⟩

theorem any_isQuote (s : Str) : s.any isQuote = (s.contains '\'' || s.contains '"') := by
  rw [Bool.eq_iff_iff]
  simp only [List.any_eq_true, isQuote, Bool.or_eq_true, beq_iff_eq, List.contains_iff_mem]
  constructor
  · rintro ⟨c, hc, rfl | rfl⟩
    · exact Or.inl hc
    · exact Or.inr hc
  · rintro (h | h)
    · exact ⟨_, h, Or.inl rfl⟩
    · exact ⟨_, h, Or.inr rfl⟩

/-- (unfolding lemma, stated by hand: the equation compiler does not produce one for this definition) -/
theorem formatString_def (fl : Flavor) (s : Str) : formatString fl s =
    if s.contains '$' then
      if isReferenceString s then s
      else match fl with | .base => s | _ => dq s
    else if s.isEmpty then
      match fl with | .native => sq s | .foam => dq s | .base => s
    else if s.any isQuote then
      match fl with
      | .native => if s.contains '"' then sq s else dq s
      | .foam => if s.contains '"' then dq (escapeDq s) else dq s
      | .base => sq s
    else if s.any isComplexChar || startsInclude s then
      match fl with | .native => sq s | .foam => dq s | .base => s
    else s := rfl

theorem formatString_of_ref {fl : Flavor} {s : Str} (hd : s.contains '$' = true) (hr : isReferenceString s = true) :
    formatString fl s = s := by
  simp only [formatString_def, hd, hr, if_true]

theorem formatString_of_dollar {fl : Flavor} (hfl : fl = .native ∨ fl = .foam) {s : Str} (hd : s.contains '$' = true)
    (hr : isReferenceString s = false) : formatString fl s = dq s := by
  rcases hfl with rfl | rfl <;> simp only [formatString_def, hd, hr, if_true, Bool.false_eq_true, if_false]

theorem formatString_of_bare {fl : Flavor} {s : Str} (h : Bare s) : formatString fl s = s := by
  obtain ⟨hne, hd, hall, hi⟩ := h
  obtain ⟨hq, hc⟩ := (all_plain_iff s).mp hall
  have he : s.isEmpty = false := by simpa using hne
  simp only [formatString_def, hd, he, hq, hc, hi, Bool.or_self, Bool.false_eq_true, if_false]

/-! ## the property -/

/-- the table is sound for the cascade: whatever the table says is what the cascade computes -/
theorem classifies_eq {s : Str} {v : Scalar} (h : Classifies s v) : v = parseValue s := by
  cases h with
  | empty h0 => rw [parseValue_empty h0]
  | special h0 h1 => rw [parseValue_special h0 h1]
  | int sign ds tail h0 hsplit hs hne hd ht =>
    rw [parseValue_int h0 ⟨sign, ds, tail, hsplit, hs, hne, hd, ht⟩, hsplit, intOfLit_eq hs hne hd ht]
  | float h0 hi hf => rw [parseValue_float h0 hi hf]
  | wTrue h0 hw => rw [parseValue_word h0, boolNoneWord_true hw]
  | wFalse h0 hw => rw [parseValue_word h0, boolNoneWord_false hw]
  | wNone h0 hw => rw [parseValue_word h0, boolNoneWord_none hw]
  | other h0 hw => rw [parseValue_word h0, boolNoneWord_other hw]

/-- (2) the cascade *is* the documented table, for every string -/
theorem C04_total_table (s : Str) : Classifies s (parseValue s) := by
  by_cases h0 : removeQuotes s = []
  · rw [parseValue_empty h0]; exact .empty h0
  by_cases h1 : IsSpecial s
  · rw [parseValue_special h0 h1]; exact .special h0 h1
  have hT : NotTrivial s := ⟨h0, h1⟩
  by_cases h2 : IsIntLit s
  · rw [parseValue_int hT h2]
    obtain ⟨sign, ds, tail, hsplit, hs, hne, hd, ht⟩ := h2
    have := intOfLit_eq hs hne hd ht
    rw [← hsplit] at this
    rw [this]
    exact .int sign ds tail hT hsplit hs hne hd ht
  by_cases h3 : IsFloatLit s
  · rw [parseValue_float hT h2 h3]; exact .float hT h2 h3
  have hN : NotNumeric s := ⟨hT, h2, h3⟩
  by_cases w1 : IsWord "true" s ∨ IsWord "on" s
  · rw [parseValue_word hN, boolNoneWord_true w1]; exact .wTrue hN w1
  by_cases w2 : IsWord "false" s ∨ IsWord "off" s
  · rw [parseValue_word hN, boolNoneWord_false w2]; exact .wFalse hN w2
  by_cases w3 : IsWord "none" s ∨ IsWord "null" s
  · rw [parseValue_word hN, boolNoneWord_none w3]; exact .wNone hN w3
  have hw : ¬ IsAnyWord s := by
    simp only [IsAnyWord]
    rintro (h | h | h | h | h | h)
    · exact w1 (Or.inl h)
    · exact w1 (Or.inr h)
    · exact w2 (Or.inl h)
    · exact w2 (Or.inr h)
    · exact w3 (Or.inl h)
    · exact w3 (Or.inr h)
  rw [parseValue_word hN, boolNoneWord_other hw]
  exact .other hN hw

/-- (2) the table is deterministic -/
theorem classifies_functional {s : Str} {a b : Scalar} (ha : Classifies s a) (hb : Classifies s b) : a = b :=
  (classifies_eq ha).trans (classifies_eq hb).symm

/-- the table and the cascade are the same relation -/
theorem classifies_iff {s : Str} {v : Scalar} : Classifies s v ↔ parseValue s = v :=
  ⟨fun h => (classifies_eq h).symm, fun h => h ▸ C04_total_table s⟩

/-- remark: row 2 of the table (`-`, `_`, `.` kept as they are) is redundant -- these three strings are no number and
    no word and carry no quotes, so the last row would return them unchanged as well -/
theorem C04_special_redundant {s : Str} (h : IsSpecial s) :
    ¬ IsIntLit s ∧ ¬ IsFloatLit s ∧ ¬ IsAnyWord s ∧ removeQuotes s = s := by
  rw [← isIntLit_iff, ← isFloatExpLit_iff]
  rcases h with rfl | rfl | rfl <;> refine ⟨by decide, by decide, ?_, by decide⟩ <;>
    (unfold IsAnyWord; decide)

/-! #### (3) only strings of the right grammar reach `int()` / `float()` -/

theorem C04_int_sound {s : Str} {z : Int} (h : parseValue s = .int z) : IsIntLit s ∧ z = intOfLit s := by
  have hc := C04_total_table s
  rw [h] at hc
  cases hc with
  | int sign ds tail h0 hsplit hs hne hd ht =>
    exact ⟨⟨sign, ds, tail, hsplit, hs, hne, hd, ht⟩, by rw [hsplit, intOfLit_eq hs hne hd ht]⟩

/-- the value, spelled out: sign and positional value of the (unique) digit run -/
theorem C04_int_value {s : Str} {z : Int} (h : parseValue s = .int z) :
    ∃ sign ds tail, s = sign ++ ds ++ tail ∧ IsSign sign ∧ ds ≠ [] ∧ Digits ds ∧ IsTail tail ∧
      z = applySign sign (digitsVal ds) := by
  obtain ⟨⟨sign, ds, tail, hsplit, hs, hne, hd, ht⟩, hz⟩ := C04_int_sound h
  exact ⟨sign, ds, tail, hsplit, hs, hne, hd, ht, by rw [hz, hsplit, intOfLit_eq hs hne hd ht]⟩

theorem C04_float_sound {s l : Str} (h : parseValue s = .float l) : l = s ∧ IsFloatLit s := by
  have hc := C04_total_table s
  rw [h] at hc
  cases hc with
  | float h0 hi hf => exact ⟨rfl, hf⟩

/-- … and never an int literal (those are typed `int`) -/
theorem C04_float_not_int {s l : Str} (h : parseValue s = .float l) : ¬ IsIntLit s := by
  have hc := C04_total_table s
  rw [h] at hc
  cases hc with
  | float h0 hi hf => exact hi

/-- conversely every int literal is typed int, every other float literal float (numeric literals are never special
    or quoted) -/
theorem IsIntLit.notTrivial {s : Str} (h : IsIntLit s) : NotTrivial s := by
  refine ⟨?_, ?_⟩
  · rw [removeQuotes_of_qf h.qf]
    obtain ⟨sign, ds, tail, rfl, _, hne, _, _⟩ := h
    simp [hne]
  · have := isIntLit_iff.mpr h
    rintro (rfl | rfl | rfl) <;> revert this <;> decide

theorem IsFloatLit.notTrivial {s : Str} (h : IsFloatLit s) : NotTrivial s := by
  refine ⟨?_, ?_⟩
  · rw [removeQuotes_of_qf h.qf]
    obtain ⟨sign, m, e, tail, rfl, _, hm, _, _⟩ := h
    have : m ≠ [] := by
      cases hm with
      | int _ hne _ => exact hne
      | intFrac ds fs hne _ _ => simp
      | frac fs _ _ => simp
    simp [this]
  · have := isFloatExpLit_iff.mpr h
    rintro (rfl | rfl | rfl) <;> revert this <;> decide

theorem C04_int_complete {s : Str} (h : IsIntLit s) : parseValue s = .int (intOfLit s) :=
  parseValue_int h.notTrivial h

theorem C04_float_complete {s : Str} (h : IsFloatLit s) (hi : ¬ IsIntLit s) : parseValue s = .float s :=
  parseValue_float h.notTrivial hi h

/-- every int literal is also a float literal (which is why the int row has to come first) -/
theorem IsIntLit.isFloatLit {s : Str} (h : IsIntLit s) : IsFloatLit s := by
  obtain ⟨sign, ds, tail, rfl, hs, hne, hd, ht⟩ := h
  exact ⟨sign, ds, [], tail, by simp, hs, .int ds hne hd, .none, ht⟩

/-! #### (4) the bool / None words -/

theorem C04_bool_true_sound {s : Str} (h : parseValue s = .bool true) : IsWord "true" s ∨ IsWord "on" s := by
  have hc := C04_total_table s
  rw [h] at hc
  cases hc with
  | wTrue h0 hw => exact hw

theorem C04_bool_false_sound {s : Str} (h : parseValue s = .bool false) : IsWord "false" s ∨ IsWord "off" s := by
  have hc := C04_total_table s
  rw [h] at hc
  cases hc with
  | wFalse h0 hw => exact hw

theorem C04_none_sound {s : Str} (h : parseValue s = .none) : IsWord "none" s ∨ IsWord "null" s := by
  have hc := C04_total_table s
  rw [h] at hc
  cases hc with
  | wNone h0 hw => exact hw

theorem C04_bool_none_sound {s : Str} :
    (∀ b, parseValue s = .bool b →
      if b then IsWord "true" s ∨ IsWord "on" s else IsWord "false" s ∨ IsWord "off" s) ∧
    (parseValue s = .none → IsWord "none" s ∨ IsWord "null" s) := by
  refine ⟨fun b h => ?_, C04_none_sound⟩
  cases b
  · exact C04_bool_false_sound h
  · exact C04_bool_true_sound h

/-- … and, as for the numbers, the words are never numeric, special or empty (so the rows above do not shadow them) -/
theorem C04_word_not_numeric {s : Str} (h : parseValue s = .bool true ∨ parseValue s = .bool false ∨ parseValue s = .none) :
    NotNumeric s := by
  have hc := C04_total_table s
  rcases h with h | h | h <;> rw [h] at hc <;> cases hc <;> assumption

/-! #### (5) idempotence -/

/-- general form: a string that `remove_quotes_from_string` leaves alone and that is typed `str` comes back unchanged -/
theorem C04_idem' {s t : Str} (h : parseValue s = .str t) (hq : removeQuotes s = s) : t = s := by
  have hc := C04_total_table s
  rw [h] at hc
  cases hc with
  | empty h0 => rw [← hq, h0]
  | special h0 h1 => rfl
  | other h0 hw => exact hq

theorem C04_idem {s t : Str} (h : parseValue s = .str t) (hq : ∀ c ∈ s, isQuote c = false) : t = s :=
  C04_idem' h (removeQuotes_of_qf hq)

theorem parseScalar_idem' {v : Scalar} (hq : ∀ s, v = .str s → removeQuotes s = s) :
    parseScalar (parseScalar v) = parseScalar v := by
  cases v with
  | str s =>
    simp only [parseScalar]
    cases hp : parseValue s with
    | str t =>
      have := C04_idem' hp (hq s rfl)
      subst this
      simp only [hp]
    | _ => rfl
  | _ => rfl

theorem parseScalar_idem {v : Scalar} (hq : ∀ s, v = .str s → ∀ c ∈ s, isQuote c = false) :
    parseScalar (parseScalar v) = parseScalar v :=
  parseScalar_idem' fun s hs => removeQuotes_of_qf (hq s hs)

/-- without the hypothesis, idempotence is false: `'"1"'` is typed `str` and becomes `'1'`, which is typed `int` -/
theorem parseScalar_idem_cex : ¬ ∀ v : Scalar, parseScalar (parseScalar v) = parseScalar v := by
  intro h
  have := h (.str ['"', '1', '"'])
  revert this
  decide

theorem C04_idem_cex : ¬ ∀ s t : Str, parseValue s = .str t → t = s := by
  intro h
  have := h ['"', '1', '"'] ['1'] (by decide)
  revert this
  decide

/-! #### (6) what the formatter writes, the reader types back -/

theorem C04_format_parse_bool {fl : Flavor} (hfl : fl = .native ∨ fl = .foam) (b : Bool) :
    parseValue (formatScalar fl (.bool b)) = .bool b := by
  rcases hfl with rfl | rfl <;> cases b <;> decide

theorem C04_format_parse_none {fl : Flavor} (hfl : fl = .native ∨ fl = .foam) :
    parseValue (formatScalar fl .none) = .none := by
  rcases hfl with rfl | rfl <;> decide

/-- (holds for every flavour: ints are written by `str(z)` everywhere) -/
theorem C04_format_parse_int (fl : Flavor) (z : Int) : parseValue (formatScalar fl (.int z)) = .int z := by
  simp only [formatScalar]
  rw [C04_int_complete (intRepr_isIntLit z), intOfLit_intRepr]

theorem C04_format_parse_float (fl : Flavor) {l : Str} (h : IsPyFloatRepr l) :
    parseValue (formatScalar fl (.float l)) = .float l := by
  simp only [formatScalar]
  exact C04_float_complete h.isFloatLit h.not_intLit

/-- more generally any float literal that is not an int literal survives (e.g. a lexeme that was read, not computed) -/
theorem C04_format_parse_float' (fl : Flavor) {l : Str} (h : IsFloatLit l) (hi : ¬ IsIntLit l) :
    parseValue (formatScalar fl (.float l)) = .float l := by
  simp only [formatScalar]
  exact C04_float_complete h hi

/-- known finding: the non-finite floats are written as `inf`, `-inf`, `nan` and come back as strings -/
theorem C04_format_parse_nonfinite :
    parseValue "inf".toList = .str "inf".toList ∧ parseValue "-inf".toList = .str "-inf".toList ∧
    parseValue "nan".toList = .str "nan".toList := by decide

/-- (6) collected -/
theorem C04_format_parse {fl : Flavor} (hfl : fl = .native ∨ fl = .foam) :
    (∀ b, parseValue (formatScalar fl (.bool b)) = .bool b) ∧
    parseValue (formatScalar fl .none) = .none ∧
    (∀ z, parseValue (formatScalar fl (.int z)) = .int z) ∧
    (∀ l, IsPyFloatRepr l → parseValue (formatScalar fl (.float l)) = .float l) :=
  ⟨C04_format_parse_bool hfl, C04_format_parse_none hfl, C04_format_parse_int fl, fun _ h => C04_format_parse_float fl h⟩

/-! #### (7) `str.lower()` versus ASCII lower-casing -/

/-- no non-ASCII character lower-cases into a letter of the six words (t r u e f a l s o n) -/
theorem C04_lower_safe : ∀ e ∈ Gen.lowersIntoAscii, ∀ x ∈ e.2, x ∉ [116, 114, 117, 101, 102, 97, 108, 115, 111, 110] := by
  decide

/-! #### (8) when the writer quotes -/

theorem formatString_bare_iff {fl : Flavor} (hfl : fl = .native ∨ fl = .foam) (s : Str) :
    formatString fl s = s ↔
      (s ≠ [] ∧ s.contains '$' = false ∧ s.all (fun c => !isQuote c && !isComplexChar c) = true ∧ startsInclude s = false) ∨
      (s.contains '$' = true ∧ isReferenceString s = true) := by
  constructor
  · intro h
    cases hd : s.contains '$' with
    | true =>
      cases hr : isReferenceString s with
      | true => exact Or.inr ⟨rfl, rfl⟩
      | false => rw [formatString_of_dollar hfl hd hr] at h; exact absurd h (dq_ne s)
    | false =>
      refine Or.inl ?_
      by_cases hne : s = []
      · subst hne
        rcases hfl with rfl | rfl <;> simp [formatString_def, sq, dq] at h
      · have he : s.isEmpty = false := by simpa using hne
        cases hq : s.any isQuote with
        | true =>
          exfalso
          rcases hfl with rfl | rfl
          · simp only [formatString_def, hd, he, hq, Bool.false_eq_true, if_false, if_true] at h
            split at h
            · exact sq_ne s h
            · exact dq_ne s h
          · simp only [formatString_def, hd, he, hq, Bool.false_eq_true, if_false, if_true] at h
            split at h
            · exact dq_escape_ne s h
            · exact dq_ne s h
        | false =>
          cases hc : s.any isComplexChar with
          | true =>
            exfalso
            rcases hfl with rfl | rfl
            · simp only [formatString_def, hd, he, hq, hc, Bool.true_or, Bool.false_eq_true, if_false, if_true] at h
              exact sq_ne s h
            · simp only [formatString_def, hd, he, hq, hc, Bool.true_or, Bool.false_eq_true, if_false, if_true] at h
              exact dq_ne s h
          | false =>
            cases hi : startsInclude s with
            | true =>
              exfalso
              rcases hfl with rfl | rfl
              · simp only [formatString_def, hd, he, hq, hc, hi, Bool.or_true, Bool.false_eq_true, if_false, if_true] at h
                exact sq_ne s h
              · simp only [formatString_def, hd, he, hq, hc, hi, Bool.or_true, Bool.false_eq_true, if_false, if_true] at h
                exact dq_ne s h
            | false => exact ⟨hne, rfl, (all_plain_iff s).mpr ⟨hq, hc⟩, rfl⟩
  · rintro (h | ⟨hd, hr⟩)
    · exact formatString_of_bare h
    · exact formatString_of_ref hd hr

/-- Native flavour, no `$`: the three ways a string is written, and exactly when -/
theorem formatString_native_cases {s : Str} (hd : s.contains '$' = false) :
    (formatString .native s = s ∧
        s ≠ [] ∧ s.all (fun c => !isQuote c && !isComplexChar c) = true ∧ startsInclude s = false) ∨
    (formatString .native s = sq s ∧
        (s = [] ∨ s.contains '"' = true ∨ ((s.any isComplexChar = true ∨ startsInclude s = true) ∧ s.any isQuote = false))) ∨
    (formatString .native s = dq s ∧
        s.contains '\'' = true ∧ s.contains '"' = false) := by
  by_cases hne : s = []
  · subst hne
    exact Or.inr (Or.inl ⟨rfl, Or.inl rfl⟩)
  · have he : s.isEmpty = false := by simpa using hne
    cases hq : s.any isQuote with
    | true =>
      cases hdq : s.contains '"' with
      | true =>
        refine Or.inr (Or.inl ⟨?_, Or.inr (Or.inl rfl)⟩)
        simp only [formatString_def, hd, he, hq, hdq, Bool.false_eq_true, if_false, if_true]
      | false =>
        refine Or.inr (Or.inr ⟨?_, ?_, rfl⟩)
        · simp only [formatString_def, hd, he, hq, hdq, Bool.false_eq_true, if_false, if_true]
        · rw [any_isQuote, hdq, Bool.or_false] at hq; exact hq
    | false =>
      cases hc : s.any isComplexChar with
      | true =>
        refine Or.inr (Or.inl ⟨?_, Or.inr (Or.inr ⟨Or.inl rfl, rfl⟩)⟩)
        simp only [formatString_def, hd, he, hq, hc, Bool.true_or, Bool.false_eq_true, if_false, if_true]
      | false =>
        cases hi : startsInclude s with
        | true =>
          refine Or.inr (Or.inl ⟨?_, Or.inr (Or.inr ⟨Or.inr rfl, rfl⟩)⟩)
          simp only [formatString_def, hd, he, hq, hc, hi, Bool.or_true, Bool.false_eq_true, if_false, if_true]
        | false =>
          refine Or.inl ⟨?_, hne, (all_plain_iff s).mpr ⟨hq, hc⟩, rfl⟩
          simp only [formatString_def, hd, he, hq, hc, hi, Bool.or_self, Bool.false_eq_true, if_false]

/-- the three outcomes are distinct strings, so the three conditions of `formatString_native_cases` exclude each other -/
theorem formatString_native_outcomes_distinct (s : Str) : s ≠ sq s ∧ s ≠ dq s ∧ sq s ≠ dq s :=
  ⟨fun h => sq_ne s h.symm, fun h => dq_ne s h.symm, sq_ne_dq s⟩

/-- every character the tokenizer splits on forces quoting -/
theorem delims_are_complex : ∀ c ∈ Gen.delimiters, isComplexChar c = true := by decide

theorem brackets_are_complex :
    (∀ p ∈ Gen.brackets, isComplexChar p.1 = true ∧ isComplexChar p.2 = true) ∧
    (∀ c ∈ Gen.openingBrackets, isComplexChar c = true) ∧
    (∀ c ∈ Gen.closingBrackets, isComplexChar c = true) := by decide

/-- hence a string containing a delimiter or a bracket is never written bare (Native / Foam), unless it is a `$` reference -/
theorem formatString_quotes_delims {fl : Flavor} (hfl : fl = .native ∨ fl = .foam) {s : Str} {c : Char} (hc : c ∈ s)
    (hcc : isComplexChar c = true) (hd : s.contains '$' = false) : formatString fl s ≠ s := by
  intro h
  rcases (formatString_bare_iff hfl s).mp h with ⟨_, _, hall, _⟩ | ⟨hd', _⟩
  · have := List.all_eq_true.mp hall c hc
    simp [hcc] at this
  · rw [hd] at hd'; cases hd'

/-! #### (9) non-vacuity -/

section Examples

/-- one instance for each row of the table -/
example : parseValue "''".toList = .str [] := by decide
example : parseValue "-".toList = .str "-".toList := by decide
example : parseValue "-12".toList = .int (-12) := by decide
example : parseValue "+7\n".toList = .int 7 := by decide
example : parseValue "١٢".toList = .int 12 := by decide
example : parseValue "1.e-03".toList = .float "1.e-03".toList := by decide
example : parseValue ".5E3".toList = .float ".5E3".toList := by decide
example : parseValue " TrUe ".toList = .bool true := by decide
example : parseValue "ON".toList = .bool true := by decide
example : parseValue "False".toList = .bool false := by decide
example : parseValue "off".toList = .bool false := by decide
example : parseValue "None".toList = .none := by decide
example : parseValue "NULL".toList = .none := by decide
example : parseValue "2024-01".toList = .str "2024-01".toList := by decide
example : parseValue "'a b'".toList = .str "a b".toList := by decide
example : parseValue "1e".toList = .str "1e".toList := by decide

/-- the declarative side is inhabited too (not via the recognisers) -/
example : IsIntLit "+7\n".toList :=
  ⟨['+'], ['7'], ['\n'], rfl, Or.inr (Or.inl rfl), by decide, by decide, Or.inr rfl⟩

example : IsFloatLit "-1.e-03".toList :=
  ⟨['-'], ['1', '.'], ['e', '-', '0', '3'], [], rfl, Or.inr (Or.inr rfl),
    .intFrac ['1'] [] (by decide) (by decide) (by decide),
    .exp 'e' ['-'] ['0', '3'] (Or.inl rfl) (Or.inr (Or.inr rfl)) (by decide) (by decide), Or.inl rfl⟩

example : Classifies " TrUe ".toList (.bool true) := C04_total_table " TrUe ".toList

example : Classifies "١٢".toList (.int 12) :=
  .int [] "١٢".toList [] (by decide) rfl (Or.inl rfl) (by decide) (by decide) (Or.inl rfl)

/-- instances of the `repr(float)` grammar, and of (6c) -/
theorem repr_max : IsPyFloatRepr "1.7976931348623157e+308".toList :=
  .fracExp [] ['1'] "7976931348623157".toList "e+308".toList (Or.inl rfl) (by decide) (by decide) (by decide) (by decide)
    (.mk '+' ['3', '0', '8'] (Or.inl rfl) (by decide) (by decide))

example : IsPyFloatRepr "-0.0".toList :=
  .frac ['-'] ['0'] ['0'] (Or.inr rfl) (by decide) (by decide) (by decide) (by decide)

example : IsPyFloatRepr "1e-05".toList :=
  .exp [] ['1'] "e-05".toList (Or.inl rfl) (by decide) (by decide) (.mk '-' ['0', '5'] (Or.inr rfl) (by decide) (by decide))

example : parseValue (formatScalar .native (.float "1.7976931348623157e+308".toList)) = .float "1.7976931348623157e+308".toList :=
  C04_format_parse_float .native repr_max

/-- (6b) instantiated -/
example : parseValue (formatScalar .foam (.int (-120))) = .int (-120) := C04_format_parse_int .foam (-120)

example : natDigits 120 = "120".toList := by simp [natDigits]

/-- (5) instantiated -/
example : parseScalar (parseScalar (.str "2024-01".toList)) = parseScalar (.str "2024-01".toList) :=
  parseScalar_idem fun s hs => by cases hs; decide

/-- (8) instantiated: the three Native spellings, a reference, a `$` that is no reference -/
example : formatString .native "abc".toList = "abc".toList := by decide
example : formatString .native "a b".toList = "'a b'".toList := by decide
example : formatString .native "a;b".toList = "'a;b'".toList := by decide
example : formatString .native "it's".toList = "\"it's\"".toList := by decide
example : formatString .native "say \"x\"".toList = "'say \"x\"'".toList := by decide
example : formatString .native [] = "''".toList := by decide
example : formatString .foam "say \"x\"".toList = "\"say \\\"x\\\"\"".toList := by decide
example : formatString .native "$ref[0]".toList = "$ref[0]".toList := by decide +kernel
example : formatString .native "$a b".toList = "\"$a b\"".toList := by decide +kernel

end Examples

end DictIO.C04
