/-
  C12 -- reading a commented document with comments switched OFF, and "in either mode the non-comment data is identical".

    1  `srcToksPEs_plain`, `srcPWF_plain`, `denPEs_plain`, `parseRest_plain`
           a comment-free document is a labelled document without comment entries: the rest of the reader
           (`C12rest.parseRest_labelled_clean`) on a plain document, from any lexer state
       `C12_read_commented_off`   the companion of `C12read.C12_read_commented` (same hypotheses): with comments off the
           reader returns `denCoff c items`; the counter is the one of the comments-on read
       `C12_layout_tolerant_commented_off`
    2  `phKey`, `stripPhV` / `stripPhEs` / `stripPhXs`   drop every entry whose key is a placeholder word (`isPhTok`), at
           every dict level, also of dicts inside lists (the documents of the model have comment-free lists, so on
           their meanings the recursion through lists is the identity: `strip_denSrcXs`)
       `strip_setKey`, `strip_setKey_ph`, `strip_delKey_ph`, `strip_cleanLevel`, `strip_cleanRec`, `strip_clean`
           `_clean` only deletes placeholder entries (keys unique at every level: `denP_nodup`)
       `strip_denSrcEs`, `strip_denI`, `denCoff_data`
       `C12_data_on_off`          `stripPhEs (denC c items).data = (denCoff c items).data` (needs only `CSrcWFItems`)
    3  `read_commented_data`, `C02_comments_transparent`, `C02_comments_transparent_ok`
           commented document, any commented layout, comments on or off, any valid counter  vs.
           comment-free document, any layout, comments on or off, any directory, any valid counter: same data
    4  `exDoc_read_off`, `exDoc_data_on_off`, `exDoc_off_data`, `exDoc_transparent`, `exDoc_on_keys`, `exDoc_strip_proper`

  Hypotheses beyond those of `C12_read_commented`: none.  Nothing was found false.
-/
import DictIO.Props.C12read
import DictIO.Props.C02main
import DictIO.Props.C06

namespace DictIO.C12
open DictIO

set_option linter.unusedSimpArgs false
set_option linter.unusedVariables false
set_option linter.unnecessarySimpa false

/-! ## 1. a comment-free document is a labelled document without comment entries -/

theorem wf_cons {d : Nat} {k : Str} {v : Src} {es : SrcEntries} (h : SrcWFEs d ((k, v) :: es) = true) :
    isSrcWord k = true ∧ isPhTok k = false ∧ (keyOfScalar (parseKey k)).isSome = true ∧ SrcWFV d v = true ∧
      SrcWFEs d es = true := by
  simp only [SrcWFEs, Bool.and_eq_true] at h
  exact ⟨h.1.1.1, (C02.srcWord_facts h.1.1.1).2.1, h.1.1.2, h.1.2, h.2⟩

/-- the token stream of a comment-free document, read as a labelled document -/
theorem srcToksPEs_plain : ∀ (es : SrcEntries) (d : Nat), SrcWFEs d es = true → srcToksPEs es = srcToksEs es
  | [], _, _ => by simp only [srcToksPEs, srcToksEs]
  | (k, .lit l) :: es, d, h => by
    obtain ⟨_, hp, _, _, hes⟩ := wf_cons h
    simp only [srcToksPEs, srcToksEs, hp, Bool.false_eq_true, if_false, srcToksPEs_plain es d hes, List.cons_append,
      List.nil_append]
  | (k, .dict dd) :: es, d, h => by
    obtain ⟨_, hp, _, hv, hes⟩ := wf_cons h
    simp only [SrcWFV] at hv
    simp only [srcToksPEs, srcToksEs, srcToksPEs_plain es d hes, srcToksPEs_plain dd (d + 1) hv]
  | (k, .list l) :: es, d, h => by
    obtain ⟨_, hp, _, hv, hes⟩ := wf_cons h
    simp only [srcToksPEs, srcToksEs, srcToksPEs_plain es d hes]

/-- a well-formed comment-free document is a well-formed labelled document -/
theorem srcPWF_plain : ∀ (es : SrcEntries) (d : Nat), SrcWFEs d es = true → SrcPWFEs d es = true
  | [], _, _ => by simp only [SrcPWFEs]
  | (k, .lit l) :: es, d, h => by
    obtain ⟨hk, hp, hkey, hv, hes⟩ := wf_cons h
    simp only [SrcWFV] at hv
    simp only [SrcPWFEs, SrcPWFV, hp, Bool.false_eq_true, if_false, hk, hkey, hv, srcPWF_plain es d hes, Bool.and_self]
  | (k, .dict dd) :: es, d, h => by
    obtain ⟨hk, hp, hkey, hv, hes⟩ := wf_cons h
    simp only [SrcWFV] at hv
    simp only [SrcPWFEs, SrcPWFV, hp, Bool.false_eq_true, if_false, hk, hkey, srcPWF_plain dd (d + 1) hv,
      srcPWF_plain es d hes, Bool.and_self]
  | (k, .list l) :: es, d, h => by
    obtain ⟨hk, hp, hkey, hv, hes⟩ := wf_cons h
    simp only [SrcWFV] at hv
    simp only [SrcPWFEs, SrcPWFV, hp, Bool.false_eq_true, if_false, hk, hkey, hv, srcPWF_plain es d hes, Bool.and_self]

/-- … and means the same -/
theorem denPEs_plain : ∀ (es : SrcEntries) (d : Nat) (acc : Entries), SrcWFEs d es = true →
    denPEs es acc = denSrcEs es acc
  | [], _, _, _ => by simp only [denPEs, denSrcEs]
  | (k, .lit l) :: es, d, acc, h => by
    obtain ⟨hk, hp, hkey, hv, hes⟩ := wf_cons h
    obtain ⟨key, hkey⟩ := Option.isSome_iff_exists.mp hkey
    rw [denPEs_cons hp hkey]
    simp only [denSrcEs, hkey, denPV, denSrcV]
    exact denPEs_plain es d _ hes
  | (k, .dict dd) :: es, d, acc, h => by
    obtain ⟨hk, hp, hkey, hv, hes⟩ := wf_cons h
    obtain ⟨key, hkey⟩ := Option.isSome_iff_exists.mp hkey
    simp only [SrcWFV] at hv
    rw [denPEs_cons hp hkey]
    simp only [denSrcEs, hkey, denPV, denSrcV, denPEs_plain dd (d + 1) [] hv]
    exact denPEs_plain es d _ hes
  | (k, .list l) :: es, d, acc, h => by
    obtain ⟨hk, hp, hkey, hv, hes⟩ := wf_cons h
    obtain ⟨key, hkey⟩ := Option.isSome_iff_exists.mp hkey
    rw [denPEs_cons hp hkey]
    simp only [denSrcEs, hkey, denPV, denSrcV]
    exact denPEs_plain es d _ hes

/-- the reader after its comment stages on a comment-free document, from any lexer state -/
theorem parseRest_plain {es : SrcEntries} {gaps : List Str} {tail : Str} {st : LexSt}
    (h : SrcWFEs 1 es = true) (hg : GapsOKS (srcToksEs es) gaps = true) (ht : tail.all isWs = true)
    (hl : st.lits = []) (he : st.exprs = []) (hc : C13.ValidCounter Gen.counterLimit st.counter)
    (hn : C02.countQuotedEs es ≤ Gen.counterLimit + 1) (hd : C02.DocKeysAbsent es) :
    parseRest st (spreadS (srcToksEs es) gaps tail) =
      .ok (({ data := denSrcEs es [], exprs := [], lineC := st.lineC, blockC := st.blockC, incl := st.incl } : SD).clean,
        C02.adv Gen.counterLimit (C02.countQuotedEs es) st.counter) := by
  have e := srcToksPEs_plain es 1 h
  rw [← e] at hg ⊢
  rw [parseRest_labelled_clean (srcPWF_plain es 1 h) hg ht hl he hc hn hd, denPEs_plain es 1 [] h]

/-- **the reader with comments switched off, on a commented document, any admissible layout** -/
theorem C12_read_commented_off {items : List CItem} {gaps : List Str} {tail : Str} (dir : Str) (c : Counter)
    (hwf : CSrcWFItems 1 items = true) (hg : GapsOKC (ctoksItems items) gaps tail = true)
    (htail : items = [] → tail.all isWs = true)
    (hc : C13.ValidCounter Gen.counterLimit c)
    (hn : C02.countQuotedEs (plainItems items) ≤ Gen.counterLimit + 1)
    (hd : C02.DocKeysAbsent (plainItems items)) :
    parseNative false dir c (spreadC (ctoksItems items) gaps tail) =
      .ok (denCoff c items,
           C02.adv Gen.counterLimit (C02.countQuotedEs (plainItems items)) (labelCItems { counter := c } items).1.counter) := by
  obtain ⟨gaps', tail', hst, hgs, ht⟩ := comment_stages_off_doc dir c hwf hg htail
  rw [parseNative_stages, hst]
  rw [parseRest_plain (plain_wf hwf) hgs ht rfl rfl (counter_labelI items { counter := c } hc) hn hd]
  rfl

/-! ## 2. the data with the comment entries stripped -/

/-- a key that is a comment / include placeholder word -/
def phKey : Key → Bool
  | .str k => isPhTok k
  | .int _ => false

mutual
  /-- drop every entry whose key is a placeholder word, at every dict level (also of dicts inside lists) -/
  def stripPhV : Val → Val
    | .leaf x => .leaf x
    | .dict es => .dict (stripPhEs es)
    | .list xs => .list (stripPhXs xs)
  def stripPhEs : Entries → Entries
    | [] => []
    | (k, v) :: es => if phKey k then stripPhEs es else (k, stripPhV v) :: stripPhEs es
  def stripPhXs : List Val → List Val
    | [] => []
    | v :: xs => stripPhV v :: stripPhXs xs
end

theorem stripPhEs_cons_ph {k : Key} (h : phKey k = true) (v : Val) (es : Entries) :
    stripPhEs ((k, v) :: es) = stripPhEs es := by
  simp only [stripPhEs, h, if_true]

theorem stripPhEs_cons {k : Key} (h : phKey k = false) (v : Val) (es : Entries) :
    stripPhEs ((k, v) :: es) = (k, stripPhV v) :: stripPhEs es := by
  simp only [stripPhEs, h, Bool.false_eq_true, if_false]

theorem stripPhEs_nil : stripPhEs [] = [] := by simp only [stripPhEs]

/-- `d[k] = v` for an ordinary key commutes with stripping -/
theorem strip_setKey {k : Key} (hk : phKey k = false) (v : Val) : ∀ acc : Entries,
    stripPhEs (setKey k v acc) = setKey k (stripPhV v) (stripPhEs acc)
  | [] => by simp only [setKey, stripPhEs_cons hk, stripPhEs_nil]
  | (k', v') :: es => by
    by_cases h : k' = k
    · subst h
      simp only [setKey, if_true, stripPhEs_cons hk]
    · cases hp : phKey k' with
      | true => simp only [setKey, h, if_false, stripPhEs_cons_ph hp, strip_setKey hk v es]
      | false => simp only [setKey, h, if_false, stripPhEs_cons hp, strip_setKey hk v es]

/-- `d[ph] = v` for a placeholder key is invisible after stripping -/
theorem strip_setKey_ph {k : Key} (hk : phKey k = true) (v : Val) : ∀ acc : Entries,
    stripPhEs (setKey k v acc) = stripPhEs acc
  | [] => by simp only [setKey, stripPhEs_cons_ph hk, stripPhEs_nil]
  | (k', v') :: es => by
    by_cases h : k' = k
    · subst h
      simp only [setKey, if_true, stripPhEs_cons_ph hk]
    · cases hp : phKey k' with
      | true => simp only [setKey, h, if_false, stripPhEs_cons_ph hp, strip_setKey_ph hk v es]
      | false => simp only [setKey, h, if_false, stripPhEs_cons hp, strip_setKey_ph hk v es]

/-- `del d[ph]` for a placeholder key is invisible after stripping -/
theorem strip_delKey_ph {k : Key} (hk : phKey k = true) : ∀ acc : Entries,
    stripPhEs (delKey k acc) = stripPhEs acc
  | [] => by simp only [delKey]
  | (k', v') :: es => by
    by_cases h : k' = k
    · subst h
      simp only [delKey, if_true, stripPhEs_cons_ph hk]
    · cases hp : phKey k' with
      | true => simp only [delKey, h, if_false, stripPhEs_cons_ph hp, strip_delKey_ph hk es]
      | false => simp only [delKey, h, if_false, stripPhEs_cons hp, strip_delKey_ph hk es]

theorem strip_mem {k : Key} {v : Val} (hk : phKey k = false) : ∀ {es : Entries}, (k, v) ∈ es →
    (k, stripPhV v) ∈ stripPhEs es
  | [], h => by cases h
  | (k', v') :: es, h => by
    rcases List.mem_cons.mp h with e | h
    · cases e
      rw [stripPhEs_cons hk]; exact List.mem_cons_self
    · cases hp : phKey k' with
      | true => rw [stripPhEs_cons_ph hp]; exact strip_mem hk h
      | false => rw [stripPhEs_cons hp]; exact List.mem_cons_of_mem _ (strip_mem hk h)

theorem strip_keys_sublist : ∀ es : Entries, (keys (stripPhEs es)).Sublist (keys es)
  | [] => by simp only [stripPhEs_nil]; exact List.Sublist.refl _
  | (k', v') :: es => by
    cases hp : phKey k' with
    | true => rw [stripPhEs_cons_ph hp]; exact (strip_keys_sublist es).cons _
    | false => rw [stripPhEs_cons hp]; exact (strip_keys_sublist es).cons_cons _

/-- a placeholder key in the sense of `_clean` (`…COMMENT\d{6}`, `INCLUDE\d{6}`) is a placeholder word -/
theorem phKey_of_isPhKey {k : Key} (h : C07.isPhKey k = true) : phKey k = true := by
  cases k with
  | int z => cases h
  | str s =>
    simp only [C07.isPhKey, Bool.or_eq_true] at h
    simp only [phKey, isPhTok, isCommentTok, isIncludeTok, Bool.or_eq_true]
    rcases h with (h | h) | h
    · exact Or.inl (C02.Front.isInfix_trans (p := "COMMENT".toList) (by decide) (C02.Main.containsPh_infix h))
    · exact Or.inr (C02.Main.containsPh_infix h)
    · exact Or.inl (C02.Front.isInfix_trans (p := "COMMENT".toList) (by decide) (C02.Main.containsPh_infix h))

/-! ### `_clean` only deletes placeholder entries: invisible after stripping (keys unique at every level) -/

theorem strip_cleanLevel (s : SD) (lvl : Entries) : stripPhEs (cleanLevel s lvl).2 = stripPhEs lvl :=
  C06.cleanLevel_inv (fun d => stripPhEs d = stripPhEs lvl)
    (fun k d hk hd => (strip_delKey_ph (phKey_of_isPhKey hk) d).trans hd) s lvl rfl

theorem strip_cleanRec : ∀ (fuel : Nat) (s : SD) (lvl : Entries), NodupKeysV (.dict lvl) →
    stripPhEs (cleanRec fuel s lvl).2 = stripPhEs lvl
  | 0, _, _, _ => rfl
  | fuel + 1, s, lvl, hn => by
    have hsub := (C06.cleanLevel_spec s lvl).1
    have hn1 : (keys (cleanLevel s lvl).2).Nodup := (hsub.map (·.1)).nodup hn.1
    have hmem : ∀ e ∈ (cleanLevel s lvl).2, NodupKeysV e.2 := fun e he =>
      C07.nodupKeysEs_iff.mp hn.2 e (hsub.subset he)
    have hl := strip_cleanLevel s lvl
    simp only [cleanRec]
    generalize (cleanLevel s lvl).2 = lvl1 at hn1 hmem hl
    generalize (cleanLevel s lvl).1 = s1
    rw [← hl]
    have hns : (keys (stripPhEs lvl1)).Nodup := (strip_keys_sublist lvl1).nodup hn1
    suffices H : ∀ (l : Entries) (acc : SD × Entries), (∀ e ∈ l, e ∈ lvl1) → stripPhEs acc.2 = stripPhEs lvl1 →
        stripPhEs (l.foldl (fun (acc : SD × Entries) e =>
          match e.2 with
          | .dict sub => ((cleanRec fuel acc.1 sub).1, setKey e.1 (.dict (cleanRec fuel acc.1 sub).2) acc.2)
          | _ => acc) acc).2 = stripPhEs lvl1 from H lvl1 (s1, lvl1) (fun _ h => h) rfl
    intro l
    induction l with
    | nil => intro acc _ h; exact h
    | cons e l ih =>
      intro acc hsub' hacc
      rw [List.foldl_cons]
      apply ih _ (fun e' he' => hsub' e' (List.mem_cons_of_mem _ he'))
      obtain ⟨k0, v0⟩ := e
      have hm : (k0, v0) ∈ lvl1 := hsub' _ List.mem_cons_self
      cases v0 with
      | leaf x => exact hacc
      | list xs => exact hacc
      | dict sub =>
        dsimp only
        have ihs := strip_cleanRec fuel acc.1 sub (hmem _ hm)
        cases hp : phKey k0 with
        | true => rw [strip_setKey_ph hp]; exact hacc
        | false =>
          rw [strip_setKey hp, hacc]
          have : (k0, stripPhV (.dict sub)) ∈ stripPhEs lvl1 := strip_mem hp hm
          simp only [stripPhV] at this ⊢
          rw [ihs]
          exact C07.setKey_of_mem_nodup hns this

theorem strip_clean (s : SD) (hn : NodupKeysV (.dict s.data)) : stripPhEs s.clean.data = stripPhEs s.data := by
  have h : s.clean.data = (cleanRec (depthV (.dict s.data) + 1) s s.data).2 := rfl
  rw [h]
  exact strip_cleanRec _ s s.data hn

/-! ### the meaning of a labelled document has unique keys at every level -/

theorem denP_nodup : ∀ (es : SrcEntries) (acc : Entries), NodupKeysV (.dict acc) → NodupKeysV (.dict (denPEs es acc))
  | [], _, hacc => by simpa only [denPEs] using hacc
  | (k, .lit l) :: es, acc, hacc => by
    simp only [denPEs]
    split
    · exact denP_nodup es _ (C07.nodupV_setKey hacc (by simp only [NodupKeysV]))
    · split
      · exact denP_nodup es _ (C07.nodupV_setKey hacc (by simp only [denPV, NodupKeysV]))
      · exact denP_nodup es _ hacc
  | (k, .dict dd) :: es, acc, hacc => by
    simp only [denPEs]
    split
    · exact denP_nodup es _ (C07.nodupV_setKey hacc (by simp only [NodupKeysV]))
    · split
      · exact denP_nodup es _ (C07.nodupV_setKey hacc (by simp only [denPV]; exact denP_nodup dd [] C07.nodupV_nil))
      · exact denP_nodup es _ hacc
  | (k, .list xs) :: es, acc, hacc => by
    simp only [denPEs]
    split
    · exact denP_nodup es _ (C07.nodupV_setKey hacc (by simp only [NodupKeysV]))
    · split
      · exact denP_nodup es _ (C07.nodupV_setKey hacc (by simp only [denPV, NodupKeysV]; exact C02.Main.den_nodupXs xs))
      · exact denP_nodup es _ hacc

/-! ### stripping the meaning of a document -/

/-- a key typed from a bare source word is no placeholder word -/
theorem typedKey_not_phKey {k : Str} {key : Key} (hk : isSrcWord k = true) (h : keyOfScalar (parseKey k) = some key) :
    phKey key = false := by
  rcases C02.Main.typedKey_cases hk h with ⟨z, rfl⟩ | rfl
  · rfl
  · exact (C02.srcWord_facts hk).2.1

mutual
  /-- the meaning of a comment-free document has no placeholder entry, at any level, also inside lists -/
  theorem strip_denSrcV : ∀ (v : Src) (d : Nat), SrcWFV d v = true → stripPhV (denSrcV v) = denSrcV v
    | .lit l, _, _ => by simp only [denSrcV, stripPhV]
    | .dict es, d, h => by
      simp only [SrcWFV] at h
      simp only [denSrcV, stripPhV, strip_denSrcEs es (d + 1) [] h, stripPhEs_nil]
    | .list xs, d, h => by
      simp only [SrcWFV] at h
      simp only [denSrcV, stripPhV, strip_denSrcXs xs (d + 1) h]
  theorem strip_denSrcEs : ∀ (es : SrcEntries) (d : Nat) (acc : Entries), SrcWFEs d es = true →
      stripPhEs (denSrcEs es acc) = denSrcEs es (stripPhEs acc)
    | [], _, _, _ => by simp only [denSrcEs]
    | (k, v) :: es, d, acc, h => by
      obtain ⟨hk, hp, hkey, hv, hes⟩ := wf_cons h
      obtain ⟨key, hkey⟩ := Option.isSome_iff_exists.mp hkey
      simp only [denSrcEs, hkey]
      rw [strip_denSrcEs es d _ hes, strip_setKey (typedKey_not_phKey hk hkey), strip_denSrcV v d hv]
  theorem strip_denSrcXs : ∀ (xs : List Src) (d : Nat), SrcWFXs d xs = true → stripPhXs (denSrcXs xs) = denSrcXs xs
    | [], _, _ => by simp only [denSrcXs, stripPhXs]
    | v :: xs, d, h => by
      simp only [SrcWFXs, Bool.and_eq_true] at h
      simp only [denSrcXs, stripPhXs, strip_denSrcV v d h.1, strip_denSrcXs xs d h.2]
end

mutual
  theorem strip_denV : ∀ (v : CSrc) (d : Nat) (st : CLabelSt), CSrcWFV d v = true →
      stripPhV (denPV (labelCV st v).2) = denSrcV (plainV v)
    | .lit l, _, _, _ => by simp only [labelCV, denPV, stripPhV, plainV, denSrcV]
    | .dict items, d, st, h => by
      simp only [CSrcWFV] at h
      simp only [labelCV, denPV, stripPhV, plainV, denSrcV, strip_denI items (d + 1) st [] h, stripPhEs_nil]
    | .list xs, d, st, h => by
      simp only [CSrcWFV] at h
      simp only [labelCV, denPV, stripPhV, plainV, denSrcV, strip_denSrcXs xs (d + 1) h]
  /-- stripping the meaning of the labelled document gives the meaning of the comment-free document -/
  theorem strip_denI : ∀ (items : List CItem) (d : Nat) (st : CLabelSt) (acc : Entries), CSrcWFItems d items = true →
      stripPhEs (denPEs (labelCItems st items).2 acc) = denSrcEs (plainItems items) (stripPhEs acc)
    | [], _, _, _, _ => by simp only [labelCItems, denPEs, plainItems, denSrcEs]
    | .entry k v :: r, d, st, acc, h => by
      simp only [CSrcWFItems, Bool.and_eq_true] at h
      obtain ⟨⟨⟨hk, hkey⟩, hv⟩, hr⟩ := h
      obtain ⟨key, hkey⟩ := Option.isSome_iff_exists.mp hkey
      have hp : isPhTok k = false := (C02.srcWord_facts hk).2.1
      simp only [labelCItems, plainItems]
      rw [denPEs_cons hp hkey, strip_denI r d _ _ hr, strip_setKey (typedKey_not_phKey hk hkey), strip_denV v d st hv]
      simp only [denSrcEs, hkey]
    | .lineC x :: r, d, st, acc, h => by
      simp only [CSrcWFItems, Bool.and_eq_true] at h
      simp only [labelCItems, plainItems]
      have hp : ∀ i, isPhTok (linePh i) = true := fun i => (linePh_tok i).2
      rw [denPEs_cons_ph (hp _), strip_denI r d _ _ h.2, strip_setKey_ph (k := .str _) (hp _)]
    | .blockC x :: r, d, st, acc, h => by
      simp only [CSrcWFItems, Bool.and_eq_true] at h
      simp only [labelCItems, plainItems]
      have hp : ∀ i, isPhTok (blockPh i) = true := fun i => (blockPh_tok i).2
      rw [denPEs_cons_ph (hp _), strip_denI r d _ _ h.2, strip_setKey_ph (k := .str _) (hp _)]
end

/-- with comments off the data is the meaning of the comment-free document (`_clean` finds nothing to delete) -/
theorem denCoff_data {d : Nat} {items : List CItem} (c : Counter) (hwf : CSrcWFItems d items = true) :
    (denCoff c items).data = denSrcEs (plainItems items) [] := by
  have h : denCoff c items =
      ({ data := denSrcEs (plainItems items) [],
         lineC := (labelCItems { counter := c } items).1.lineC,
         blockC := (labelCItems { counter := c } items).1.blockC } : SD).clean := rfl
  rw [h, C07.clean_id _ (C02.den_nodup _) (C02.den_noPh (plain_wf hwf))]

/-- **in either mode the non-comment data is identical**: the data read with comments on, with the comment entries
    stripped at every dict level, is the data read with comments off -/
theorem C12_data_on_off {d : Nat} {items : List CItem} (c : Counter) (hwf : CSrcWFItems d items = true) :
    stripPhEs (denC c items).data = (denCoff c items).data := by
  have h : denC c items =
      ({ data := denPEs (labelCItems { counter := c } items).2 [],
         lineC := (labelCItems { counter := c } items).1.lineC,
         blockC := (labelCItems { counter := c } items).1.blockC } : SD).clean := rfl
  rw [h, strip_clean _ (denP_nodup _ [] C07.nodupV_nil), denCoff_data c hwf]
  exact (strip_denI items d _ [] hwf).trans (by rw [stripPhEs_nil])

/-- layout tolerance with comments switched off: two admissible layouts of the same commented document read alike -/
theorem C12_layout_tolerant_commented_off {items : List CItem} {g₁ g₂ : List Str} {t₁ t₂ : Str} (dir : Str) (c : Counter)
    (hwf : CSrcWFItems 1 items = true)
    (h₁ : GapsOKC (ctoksItems items) g₁ t₁ = true) (h₂ : GapsOKC (ctoksItems items) g₂ t₂ = true)
    (ht₁ : items = [] → t₁.all isWs = true) (ht₂ : items = [] → t₂.all isWs = true)
    (hc : C13.ValidCounter Gen.counterLimit c)
    (hn : C02.countQuotedEs (plainItems items) ≤ Gen.counterLimit + 1)
    (hd : C02.DocKeysAbsent (plainItems items)) :
    parseNative false dir c (spreadC (ctoksItems items) g₁ t₁) = parseNative false dir c (spreadC (ctoksItems items) g₂ t₂) := by
  rw [C12_read_commented_off dir c hwf h₁ ht₁ hc hn hd, C12_read_commented_off dir c hwf h₂ ht₂ hc hn hd]

/-! ## 3. comments are transparent for the data -/

/-- the data a commented document is read to, in either mode, with the comment entries stripped: the meaning of the
    comment-free document -/
theorem read_commented_data {items : List CItem} {gaps : List Str} {tail : Str} (cm : Bool) (dir : Str) (c : Counter)
    (hwf : CSrcWFItems 1 items = true) (hg : GapsOKC (ctoksItems items) gaps tail = true)
    (htail : items = [] → tail.all isWs = true)
    (hc : C13.ValidCounter Gen.counterLimit c)
    (hn : C02.countQuotedEs (plainItems items) ≤ Gen.counterLimit + 1)
    (hd : C02.DocKeysAbsent (plainItems items)) :
    (parseNative cm dir c (spreadC (ctoksItems items) gaps tail)).map (fun r => stripPhEs r.1.data) =
      .ok (denSrcEs (plainItems items) []) := by
  cases cm with
  | true =>
    rw [C12_read_commented dir c hwf hg htail hc hn hd]
    simp only [Except.map]
    rw [C12_data_on_off c hwf, denCoff_data c hwf]
  | false =>
    rw [C12_read_commented_off dir c hwf hg htail hc hn hd]
    simp only [Except.map]
    rw [denCoff_data c hwf]
    exact congrArg _ ((strip_denSrcEs _ 1 [] (plain_wf hwf)).trans (by rw [stripPhEs_nil]))

/-- **comments are transparent.**  A well-formed commented document in ANY admissible commented layout, read with
    comments on or off from any valid counter, and the same document without its comments in ANY admissible layout,
    read (with comments on or off, from any directory) from ANY valid counter, give the same data, once the comment
    entries `…COMMENTnnnnnn ↦ …COMMENTnnnnnn` are stripped from the former at every dict level.  Both reads succeed. -/
theorem C02_comments_transparent {items : List CItem} {gaps : List Str} {tail : Str} {gaps₂ : List Str} {tail₂ : Str}
    (cm cm₂ : Bool) (dir dir₂ : Str) (c c₂ : Counter)
    (hwf : CSrcWFItems 1 items = true) (hg : GapsOKC (ctoksItems items) gaps tail = true)
    (htail : items = [] → tail.all isWs = true)
    (hc : C13.ValidCounter Gen.counterLimit c)
    (hn : C02.countQuotedEs (plainItems items) ≤ Gen.counterLimit + 1)
    (hd : C02.DocKeysAbsent (plainItems items))
    (hg₂ : GapsOKS (srcToksEs (plainItems items)) gaps₂ = true) (ht₂ : tail₂.all isWs = true)
    (hc₂ : C13.ValidCounter Gen.counterLimit c₂) :
    (parseNative cm dir c (spreadC (ctoksItems items) gaps tail)).map (fun r => stripPhEs r.1.data) =
      (parseNative cm₂ dir₂ c₂ (spreadS (srcToksEs (plainItems items)) gaps₂ tail₂)).map (fun r => r.1.data) := by
  rw [read_commented_data cm dir c hwf hg htail hc hn hd,
    C02.C02_layout_tolerant_counter cm₂ dir₂ (plain_wf hwf) hg₂ ht₂ hc₂ hn hd]
  rfl

/-- the same as "both reads succeed and the data agree" -/
theorem C02_comments_transparent_ok {items : List CItem} {gaps : List Str} {tail : Str} {gaps₂ : List Str} {tail₂ : Str}
    (cm cm₂ : Bool) (dir dir₂ : Str) (c c₂ : Counter)
    (hwf : CSrcWFItems 1 items = true) (hg : GapsOKC (ctoksItems items) gaps tail = true)
    (htail : items = [] → tail.all isWs = true)
    (hc : C13.ValidCounter Gen.counterLimit c)
    (hn : C02.countQuotedEs (plainItems items) ≤ Gen.counterLimit + 1)
    (hd : C02.DocKeysAbsent (plainItems items))
    (hg₂ : GapsOKS (srcToksEs (plainItems items)) gaps₂ = true) (ht₂ : tail₂.all isWs = true)
    (hc₂ : C13.ValidCounter Gen.counterLimit c₂) :
    ∃ sd c' sd₂ c₂', parseNative cm dir c (spreadC (ctoksItems items) gaps tail) = .ok (sd, c') ∧
      parseNative cm₂ dir₂ c₂ (spreadS (srcToksEs (plainItems items)) gaps₂ tail₂) = .ok (sd₂, c₂') ∧
      stripPhEs sd.data = sd₂.data := by
  have h₂ := C02.C02_layout_tolerant_counter cm₂ dir₂ (plain_wf hwf) hg₂ ht₂ hc₂ hn hd
  cases cm with
  | true =>
    exact ⟨_, _, _, _, C12_read_commented dir c hwf hg htail hc hn hd, h₂,
      (C12_data_on_off c hwf).trans (denCoff_data c hwf)⟩
  | false =>
    refine ⟨_, _, _, _, C12_read_commented_off dir c hwf hg htail hc hn hd, h₂, ?_⟩
    rw [denCoff_data c hwf]
    exact (strip_denSrcEs _ 1 [] (plain_wf hwf)).trans (by rw [stripPhEs_nil])

/-! ## 4. non-vacuity: the example document of `C12stages` (five line comments, two block comments, a nested dict, a
    quoted string, a list; two comment texts occur twice at their level) -/

theorem exDoc_read_off (dir : Str) :
    parseNative false dir none (spreadC (ctoksItems exDoc) exGaps ['\n']) =
      .ok (denCoff none exDoc,
           C02.adv Gen.counterLimit (C02.countQuotedEs (plainItems exDoc)) (labelCItems { counter := none } exDoc).1.counter) :=
  C12_read_commented_off dir none exDoc_wf exGaps_ok (fun h => by cases h) (Or.inl rfl) (by decide +kernel) (by decide +kernel)

theorem exDoc_data_on_off : stripPhEs (denC none exDoc).data = (denCoff none exDoc).data :=
  C12_data_on_off none exDoc_wf

/-- the data of the example with comments off, evaluated -/
theorem exDoc_off_data : (denCoff none exDoc).data =
    [ (.str ['a'], .leaf (.int 1)),
      (.str ['n'], .dict [(.str ['p'], .leaf (.str "x y".toList))]),
      (.str ['l'], .list [.leaf (.int 1), .leaf (.str "it's".toList)]) ] := by
  rw [denCoff_data none exDoc_wf]
  decide +kernel

/-- the comment-free example in a layout of its own: `a 1;n{p 'x y';}` … with a tab, a CR LF and no final white space -/
def exPlainGaps : List Str :=
  [[], ['\t'], [], [], [], [], ['\r', '\n'], [], [], [' ', ' '], [' '], [], [' '], [], []]

theorem exPlainGaps_ok : GapsOKS (srcToksEs (plainItems exDoc)) exPlainGaps = true := by decide +kernel

theorem exDoc_transparent (cm cm₂ : Bool) (dir dir₂ : Str) :
    (parseNative cm dir none (spreadC (ctoksItems exDoc) exGaps ['\n'])).map (fun r => stripPhEs r.1.data) =
      (parseNative cm₂ dir₂ (some 7) (spreadS (srcToksEs (plainItems exDoc)) exPlainGaps [])).map (fun r => r.1.data) :=
  C02_comments_transparent cm cm₂ dir dir₂ none (some 7) exDoc_wf exGaps_ok (fun h => by cases h) (Or.inl rfl)
    (by decide +kernel) (by decide +kernel) exPlainGaps_ok rfl (Or.inr ⟨7, rfl, by decide⟩)

theorem exPlain_text : spreadS (srcToksEs (plainItems exDoc)) exPlainGaps [] =
    "a\t1;n{p\r\n'x y';}  l (1 \"it's\");".toList := by decide +kernel

/-- stripping is not the identity on the example: with comments on, the top level holds three comment entries (the
    fifth line comment repeats the text of the first and is deleted by `_clean`) -/
theorem exDoc_on_keys : keys (denC none exDoc).data =
    [.str "LINECOMMENT000000".toList, .str "BLOCKCOMMENT000000".toList, .str ['a'], .str "LINECOMMENT000001".toList,
     .str ['n'], .str ['l']] := by decide +kernel

theorem exDoc_strip_proper : stripPhEs (denC none exDoc).data ≠ (denC none exDoc).data := by
  rw [exDoc_data_on_off, exDoc_off_data]
  intro h
  have := congrArg keys h
  rw [exDoc_on_keys] at this
  revert this
  decide

end DictIO.C12
