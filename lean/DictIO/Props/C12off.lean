import DictIO.Props.C12read
import DictIO.Props.C02main

namespace DictIO.C12
open DictIO

set_option linter.unusedSimpArgs false
set_option linter.unusedVariables false
set_option linter.unnecessarySimpa false

/-! ## 1. a comment-free document is a labelled document without comment entries -/

theorem wf_cons {d : Nat} {k : Str} {v : Src} {es : SrcEntries} (h : SrcWFEs d ((k, v) :: es) = true) :
    isSrcWord k = true ∧ isPhTok k = false ∧ (keyOfScalar (parseKey k)).isSome = true ∧ SrcWFV d v = true ∧
      SrcWFEs d es = true := by
  simp only [SrcWFEs, Bool.and_eq_true] at h
  exact ⟨h.1.1.1, (C02.srcWord_facts h.1.1.1).2.1, h.1.1.2, h.1.2, h.2⟩

/-- the token stream of a comment-free document, read as a labelled document -/
theorem srcToksPEs_plain : ∀ (es : SrcEntries) (d : Nat), SrcWFEs d es = true → srcToksPEs es = srcToksEs es
  | [], _, _ => by simp only [srcToksPEs, srcToksEs]
  | (k, .lit l) :: es, d, h => by
    obtain ⟨_, hp, _, _, hes⟩ := wf_cons h
    simp only [srcToksPEs, srcToksEs, hp, Bool.false_eq_true, if_false, srcToksPEs_plain es d hes, List.cons_append,
      List.nil_append]
  | (k, .dict dd) :: es, d, h => by
    obtain ⟨_, hp, _, hv, hes⟩ := wf_cons h
    simp only [SrcWFV] at hv
    simp only [srcToksPEs, srcToksEs, srcToksPEs_plain es d hes, srcToksPEs_plain dd (d + 1) hv]
  | (k, .list l) :: es, d, h => by
    obtain ⟨_, hp, _, hv, hes⟩ := wf_cons h
    simp only [srcToksPEs, srcToksEs, srcToksPEs_plain es d hes]

/-- a well-formed comment-free document is a well-formed labelled document -/
theorem srcPWF_plain : ∀ (es : SrcEntries) (d : Nat), SrcWFEs d es = true → SrcPWFEs d es = true
  | [], _, _ => by simp only [SrcPWFEs]
  | (k, .lit l) :: es, d, h => by
    obtain ⟨hk, hp, hkey, hv, hes⟩ := wf_cons h
    simp only [SrcWFV] at hv
    simp only [SrcPWFEs, SrcPWFV, hp, Bool.false_eq_true, if_false, hk, hkey, hv, srcPWF_plain es d hes, Bool.and_self]
  | (k, .dict dd) :: es, d, h => by
    obtain ⟨hk, hp, hkey, hv, hes⟩ := wf_cons h
    simp only [SrcWFV] at hv
    simp only [SrcPWFEs, SrcPWFV, hp, Bool.false_eq_true, if_false, hk, hkey, srcPWF_plain dd (d + 1) hv,
      srcPWF_plain es d hes, Bool.and_self]
  | (k, .list l) :: es, d, h => by
    obtain ⟨hk, hp, hkey, hv, hes⟩ := wf_cons h
    simp only [SrcWFV] at hv
    simp only [SrcPWFEs, SrcPWFV, hp, Bool.false_eq_true, if_false, hk, hkey, hv, srcPWF_plain es d hes, Bool.and_self]

/-- … and means the same -/
theorem denPEs_plain : ∀ (es : SrcEntries) (d : Nat) (acc : Entries), SrcWFEs d es = true →
    denPEs es acc = denSrcEs es acc
  | [], _, _, _ => by simp only [denPEs, denSrcEs]
  | (k, .lit l) :: es, d, acc, h => by
    obtain ⟨hk, hp, hkey, hv, hes⟩ := wf_cons h
    obtain ⟨key, hkey⟩ := Option.isSome_iff_exists.mp hkey
    rw [denPEs_cons hp hkey]
    simp only [denSrcEs, hkey, denPV, denSrcV]
    exact denPEs_plain es d _ hes
  | (k, .dict dd) :: es, d, acc, h => by
    obtain ⟨hk, hp, hkey, hv, hes⟩ := wf_cons h
    obtain ⟨key, hkey⟩ := Option.isSome_iff_exists.mp hkey
    simp only [SrcWFV] at hv
    rw [denPEs_cons hp hkey]
    simp only [denSrcEs, hkey, denPV, denSrcV, denPEs_plain dd (d + 1) [] hv]
    exact denPEs_plain es d _ hes
  | (k, .list l) :: es, d, acc, h => by
    obtain ⟨hk, hp, hkey, hv, hes⟩ := wf_cons h
    obtain ⟨key, hkey⟩ := Option.isSome_iff_exists.mp hkey
    rw [denPEs_cons hp hkey]
    simp only [denSrcEs, hkey, denPV, denSrcV]
    exact denPEs_plain es d _ hes

/-- the reader after its comment stages on a comment-free document, from any lexer state -/
theorem parseRest_plain {es : SrcEntries} {gaps : List Str} {tail : Str} {st : LexSt}
    (h : SrcWFEs 1 es = true) (hg : GapsOKS (srcToksEs es) gaps = true) (ht : tail.all isWs = true)
    (hl : st.lits = []) (he : st.exprs = []) (hc : C13.ValidCounter Gen.counterLimit st.counter)
    (hn : C02.countQuotedEs es ≤ Gen.counterLimit + 1) (hd : C02.DocKeysAbsent es) :
    parseRest st (spreadS (srcToksEs es) gaps tail) =
      .ok (({ data := denSrcEs es [], exprs := [], lineC := st.lineC, blockC := st.blockC, incl := st.incl } : SD).clean,
        C02.adv Gen.counterLimit (C02.countQuotedEs es) st.counter) := by
  have e := srcToksPEs_plain es 1 h
  rw [← e] at hg ⊢
  rw [parseRest_labelled_clean (srcPWF_plain es 1 h) hg ht hl he hc hn hd, denPEs_plain es 1 [] h]

/-- **the reader with comments switched off, on a commented document, any admissible layout** -/
theorem C12_read_commented_off {items : List CItem} {gaps : List Str} {tail : Str} (dir : Str) (c : Counter)
    (hwf : CSrcWFItems 1 items = true) (hg : GapsOKC (ctoksItems items) gaps tail = true)
    (htail : items = [] → tail.all isWs = true)
    (hc : C13.ValidCounter Gen.counterLimit c)
    (hn : C02.countQuotedEs (plainItems items) ≤ Gen.counterLimit + 1)
    (hd : C02.DocKeysAbsent (plainItems items)) :
    parseNative false dir c (spreadC (ctoksItems items) gaps tail) =
      .ok (denCoff c items,
           C02.adv Gen.counterLimit (C02.countQuotedEs (plainItems items)) (labelCItems { counter := c } items).1.counter) := by
  obtain ⟨gaps', tail', hst, hgs, ht⟩ := comment_stages_off_doc dir c hwf hg htail
  rw [parseNative_stages, hst]
  rw [parseRest_plain (plain_wf hwf) hgs ht rfl rfl (counter_labelI items { counter := c } hc) hn hd]
  rfl

end DictIO.C12
