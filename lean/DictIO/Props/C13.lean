/-
  C13 -- reads write nothing, writes touch only their target, failures destroy nothing.
  Model: the effect lists of `Model/Writer.lean` (the order of the steps of `DictWriter.write`: optional read of the
  target, serialise, create parent directories, open the target) and `targetName` (`create_target_file_name`,
  theorems in `Props/C13name.lean`).  The OS semantics of `open`/`mkdir` are outside the model; the effect lists are
  tied to the code by the audit-hook correspondence of harness/props/c13.py.
-/
import DictIO.Model.Writer
import DictIO.Props.C13name

namespace DictIO.C13
open DictIO

def Effect.isRead : Effect → Bool | .read _ => true | _ => false
def Effect.isWrite : Effect → Bool | .write _ => true | _ => false
def Effect.isMkdirs : Effect → Bool | .mkdirs _ => true | _ => false

/-- reading only reads -/
theorem C13_read_pure (files : List Comps) : ∀ e ∈ readEffects files, Effect.isRead e = true := by
  intro e he
  obtain ⟨p, _, rfl⟩ := List.mem_map.mp he
  rfl

/-- a successful write opens exactly one file for writing: the target; the only directories it creates are the
    target's parents; the only file it reads is the target itself (append mode) -/
theorem C13_write_one (t : Comps) (ex : Bool) (mode : Str) :
    (writeEffects t ex mode true).filter Effect.isWrite = [.write t] ∧
    (writeEffects t ex mode true).filter Effect.isMkdirs = [.mkdirs t.dropLast] ∧
    ∀ e ∈ writeEffects t ex mode true, Effect.isRead e = true → e = .read t := by
  unfold writeEffects
  by_cases h : (mode == ['a'] && ex) = true
  · simp [h, List.filter, Effect.isWrite, Effect.isMkdirs, Effect.isRead]
  · simp [h, List.filter, Effect.isWrite, Effect.isMkdirs, Effect.isRead]

/-- if serialisation fails nothing is created, opened for writing or truncated: the existing target stays intact -/
theorem C13_fail_safe (t : Comps) (ex : Bool) (mode : Str) :
    ∀ e ∈ writeEffects t ex mode false, Effect.isWrite e = false ∧ Effect.isMkdirs e = false := by
  unfold writeEffects
  by_cases h : (mode == ['a'] && ex) = true <;> simp [h, Effect.isWrite, Effect.isMkdirs]

/-- serialisation comes before any change to the file system: every effect before the first write/mkdir is a read -/
theorem C13_serialise_first (t : Comps) (ex : Bool) (mode : Str) (ok : Bool) :
    ∃ reads rest, writeEffects t ex mode ok = reads ++ rest ∧ (∀ e ∈ reads, Effect.isRead e = true) ∧
      (rest = [] ∨ rest = [.mkdirs t.dropLast, .write t]) := by
  unfold writeEffects
  refine ⟨_, _, rfl, ?_, ?_⟩
  · intro e he
    by_cases h : (mode == ['a'] && ex) = true <;> simp [h] at he
    subst he; rfl
  · cases ok <;> simp

/-- an unrecognised mode never reads the target (it behaves as overwrite) -/
theorem C13_junk_mode_no_read (t : Comps) (ex ok : Bool) (mode : Str) (h : mode ≠ ['a']) :
    ∀ e ∈ writeEffects t ex mode ok, Effect.isRead e = false := by
  unfold writeEffects
  have : (mode == ['a']) = false := by simpa using h
  cases ok <;> simp [this, Effect.isRead]

/-- `DictParser.parse` writes exactly one file: the derived target in the source's directory; source and included files
    are only read -/
theorem C13_parse_one (src : Comps) (inc : List Comps) (name : Str) (ex : Bool) (mode : Str) :
    (parseEffects src inc name ex mode true).filter Effect.isWrite = [.write (src.dropLast ++ [name])] := by
  unfold parseEffects readEffects
  rw [List.filter_append]
  have h1 : (List.map Effect.read (src :: inc)).filter Effect.isWrite = [] := by
    apply List.filter_eq_nil_iff.mpr
    intro e he
    obtain ⟨p, _, rfl⟩ := List.mem_map.mp he
    simp [Effect.isWrite]
  rw [h1, (C13_write_one _ ex mode).1]
  rfl

/-- the derived name lives in the source's directory and carries the prefix (see `targetName_prefix`, `targetName_idem_*`,
    `targetName_ext` in C13name.lean for the name itself) -/
theorem C13_target_dir (src : Comps) (inc : List Comps) (name : Str) (ex : Bool) (mode : Str) :
    ∀ e ∈ parseEffects src inc name ex mode true, Effect.isWrite e = true → e = .write (src.dropLast ++ [name]) := by
  intro e he hw
  have : e ∈ (parseEffects src inc name ex mode true).filter Effect.isWrite := List.mem_filter.mpr ⟨he, hw⟩
  rw [C13_parse_one] at this
  simpa using this

/-! #### non-vacuity -/
example : writeEffects ["d".toList, "t".toList] true "a".toList true =
    [.read ["d".toList, "t".toList], .mkdirs ["d".toList], .write ["d".toList, "t".toList]] := by decide
example : writeEffects ["d".toList, "t".toList] true "a".toList false = [.read ["d".toList, "t".toList]] := by decide
example : writeEffects ["d".toList, "t".toList] true "x".toList true = [.mkdirs ["d".toList], .write ["d".toList, "t".toList]] := by decide

end DictIO.C13
