/-
  C05 -- from the TEXT of a file to the completeness theorem of `_eval_expressions` (flat documents).

  C05acyclic proves `C05_complete_acyclic'` for an `SD` "as the native parser hands it over" (`AcyclicFlat'`).  This file
  supplies the missing link: the text of a file ↦ that `SD`, and composes everything through `DictReader.read`.

  Documents (`Doc`): a list of entries `key value;`, the value a plain literal (bare word / quoted string without `$`,
  `Lit` of Model/Grammar), a bare reference `$name` (`DV.ref`), or a double-quoted expression text (`DV.expr`).
  Layout: `renderG doc lay tail` -- ANY admissible layout (`LayOK`): per entry three white-space gaps (in front of the key,
  between key and value -- not empty --, between value and `;`), any white space at the end; gaps may hold line breaks,
  tabs, blank lines.  `render doc` is the fixed layout `key value;⏎` (`render_eq`: an instance).
  Meaning (`exprSD c doc`): `labelAll` threads the lexer state through the values in the reader's order -- pass 1: every
  quoted string draws an id (`STRINGLITERALnnnnnn`, text order); pass 2: every double-quoted expression draws an id
  (`EXPRESSIONnnnnnn`, text order); pass 3: every bare reference draws an id (text order) -- the data hold the typed
  literals and the placeholder words, the table the texts.  (Checked against `parseNative` by kernel evaluation on three
  documents: `ex1_parse`, `ex2_parse`, `ex3_parse`; `ex3` wraps the counter at 999999.)

  Well-formedness (`DocWF`, decidable):
    names      `keyOK`: a source word (`isSrcWord`), all `\w`, typed as a *string* key (`parseKey k = .str k`: a name like
               `1` would be an int key), not `_variables` / `_includes`; pairwise distinct
    literals   `Lit.ok` (C02); that their values are usable scalars is proved (`lit_okScalar`)
    references `$name`, `name` a non-empty `\w` word (`wfExpr_ref`: its text is a well-formed expression text)
    expression texts `exprOK`: `wfExpr` of C05acyclic; no `"`; one line; no `//`, `/*` (the comment stages run first); the
               first non-blank character is not `;`; pairwise distinct.  The last two are NECESSARY, see `exSemi_differs`,
               `exDup_differs`: `lexExpressions` replaces every occurrence of the matched text in the whole block
               (`str.replace`).
  Further hypotheses: `C13.ValidCounter` for the counter, `countIds doc ≤ limit + 1` (one id per quoted string, expression,
  reference: no id is handed out twice).

  Proved (no `sorry`; axioms: propext, Classical.choice, Quot.sound):
   §3  `renderG_noMarkup`, `normalise_renderG`   the comment/include stages are the identity; newline removal + `strip`
                                 leave the same document in the layout `normLay lay`
   §4  `lex1_segs`, `lex1_all`   the literal stage: quoted strings ↦ placeholder words, `"…$…"` kept verbatim (`lex_expr`)
   §5  `findExprs_all`, `foldE_all` (`replaceAll_once`, `noInfix_segs`)   the matches of `"[^"]*\$.*?"` and the loop over them
   §6  `lexRefs_all`, **`lexExpressions_segs`**   the expression stage: which substrings become which placeholders, the table,
                                 the layout untouched
   §7–9 **`parse_flat_exprs_layout`** :
          `parseNative comments dir c (renderG doc lay tail) = .ok (exprSD c doc, (labelAll c doc).1.counter)`
        (`…_layout'`: the counter is `adv limit (countIds doc) c`; `parse_layout_independent`; `parse_flat_exprs`: the fixed
        layout); after the expression stage the text is `$`-free and the `EXPRESSION…` words are ordinary word tokens, so
        tokenizer/scanner/literal re-insertion/`_clean` are those of C02
   §10–11 **`exprSD_acyclicFlat`** : `docRefsOK doc` (references unindexed, naming entries) and `docAcyclic doc` (longest-chain
        rank decreases along every reference; both decidable on the document) give `AcyclicFlat' (exprSD c doc)`
   §12 `readFile_layout`, **`C05_read_layout`** (any `ev` with `EvOK`), `C05_read_layout_evalInt`, and the fixed-layout
        instances `readFile_flat`, `C05_read_flat`, `C05_read_flat_evalInt`: reading the file with `DictReader.read` -- if it
        succeeds -- leaves no expression, keeps the keys in file order, and every variable holds the value `topoVal` gives
   §13 non-vacuity: `a 1; ab 20; c "$d * 2 + $ab"; d "$a + $ab"; e $c;` end to end by `decide +kernel` (`ex1_read_eval`, and
        `ex1_loose_read_eval` in a loose layout) and through the theorem (`ex1_read_thm`): c = 62, d = 21, e = 62; the two
        necessity witnesses.
-/
import DictIO.Props.C05acyclic
import DictIO.Props.C12rest

namespace DictIO.C05R
open DictIO

set_option linter.unusedSimpArgs false
set_option linter.unusedVariables false
set_option linter.unnecessarySimpa false

/-! ## 1. flat source documents with references and expressions -/

/-- a written value: a plain literal (bare word or quoted string), a bare reference `$name`, or a double-quoted
    expression text -/
inductive DV where
  | lit (l : Lit)
  | ref (name : Str)
  | expr (body : Str)
  deriving DecidableEq, Repr, Inhabited

abbrev Doc := List (Str × DV)

def DV.text : DV → Str
  | .lit l => l.tok.text
  | .ref n => '$' :: n
  | .expr b => '"' :: (b ++ ['"'])

/-- `key value;` -/
def etext (e : Str × DV) : Str := e.1 ++ ' ' :: (e.2.text ++ [';'])

/-- the fixed layout: one entry per line -/
def render (doc : Doc) : Str := doc.flatMap fun e => etext e ++ ['\n']

/-- a value after (some of) the reader's labelling passes: a word standing in the text together with the scalar it
    will mean, or a reference / an expression still to be labelled -/
inductive LV where
  | done (w : Str) (x : Scalar)
  | ref (name : Str)
  | expr (body : Str)
  deriving DecidableEq, Repr, Inhabited

abbrev LDoc := List (Str × LV)

def LV.text : LV → Str
  | .done w _ => w
  | .ref n => '$' :: n
  | .expr b => '"' :: (b ++ ['"'])

def LV.val : LV → Scalar
  | .done _ x => x
  | .ref n => .str ('$' :: n)
  | .expr b => .str b

/-- thread the lexer state through the values of a flat document, in text order -/
def mapSt {α β : Type} (f : LexSt → α → LexSt × β) : LexSt → List (Str × α) → LexSt × List (Str × β)
  | st, [] => (st, [])
  | st, (k, v) :: es => ((mapSt f (f st v).1 es).1, (k, (f st v).2) :: (mapSt f (f st v).1 es).2)

/-- pass 1: quoted strings become `STRINGLITERALnnnnnn` -/
def lab1 (st : LexSt) : DV → LexSt × LV
  | .lit (.bare w) => (st, .done w (parseValue w))
  | .lit (.quoted _ b) =>
    ({ st.fresh.2 with lits := st.fresh.2.lits.set st.fresh.1 b }, .done (litPh st.fresh.1) (C02.litVal b))
  | .ref n => (st, .ref n)
  | .expr b => (st, .expr b)

def selE : LV → Option Str
  | .expr b => some b
  | _ => none

def selR : LV → Option Str
  | .ref n => some ('$' :: n)
  | _ => none

/-- passes 2 and 3: the selected values become `EXPRESSIONnnnnnn`, their text goes to the expression table -/
def labE (sel : LV → Option Str) (st : LexSt) (v : LV) : LexSt × LV :=
  match sel v with
  | some t => ({ st.fresh.2 with exprs := st.fresh.2.exprs.set st.fresh.1 ⟨t, C05.phOf st.fresh.1⟩ },
                .done (C05.phOf st.fresh.1) (.str (C05.phOf st.fresh.1)))
  | none => (st, v)

/-- the three passes in the reader's order: all quoted strings, then all double-quoted expressions, then all bare
    references, each in text order -/
def labelAll (c : Counter) (doc : Doc) : LexSt × LDoc :=
  let r1 := mapSt lab1 { counter := c } doc
  let r2 := mapSt (labE selE) r1.1 r1.2
  mapSt (labE selR) r2.1 r2.2

def ldata (d : LDoc) : Entries := d.map fun e => (.str e.1, .leaf e.2.val)

/-- what a flat document with expressions means to the native parser -/
def exprSD (c : Counter) (doc : Doc) : SD :=
  { data := ldata (labelAll c doc).2, exprs := (labelAll c doc).1.exprs }

/-! ### examples: `exprSD` against `parseNative` -/

def ex1 : Doc :=
  [("a".toList, .lit (.bare "1".toList)), ("ab".toList, .lit (.bare "20".toList)),
   ("c".toList, .expr "$d * 2 + $ab".toList), ("d".toList, .expr "$a + $ab".toList), ("e".toList, .ref "c".toList)]

def ex2 : Doc :=
  [("s".toList, .lit (.quoted '\'' "x y".toList)), ("r".toList, .ref "s".toList),
   ("t".toList, .lit (.quoted '"' "lit".toList)), ("u".toList, .expr "$s + 1".toList), ("v".toList, .ref "u".toList),
   ("w".toList, .expr "($r)".toList)]

def ex3 : Doc :=
  [("x".toList, .ref "y".toList), ("y".toList, .expr "$z*$z".toList), ("z".toList, .lit (.bare "3".toList)),
   ("n".toList, .lit (.quoted '"' "7".toList))]

theorem ex1_render : render ex1 = "a 1;\nab 20;\nc \"$d * 2 + $ab\";\nd \"$a + $ab\";\ne $c;\n".toList := by decide +kernel

/-- all of a parse result that matters, as a decidable tuple -/
def fieldsOf (r : Except ParseErr (SD × Counter)) : Option (Entries × Tbl ExprEntry × Tbl Str × Tbl Str × Tbl InclEntry × Counter) :=
  match r with
  | .ok (s, c) => some (s.data, s.exprs, s.lineC, s.blockC, s.incl, c)
  | .error _ => none

theorem eq_of_fieldsOf {r : Except ParseErr (SD × Counter)} {s : SD} {c : Counter}
    (h : fieldsOf r = some (s.data, s.exprs, s.lineC, s.blockC, s.incl, c)) : r = .ok (s, c) := by
  cases r with
  | error e => simp [fieldsOf] at h
  | ok v =>
    obtain ⟨⟨d, x, l, b, i⟩, c'⟩ := v
    simp only [fieldsOf, Option.some.injEq, Prod.mk.injEq] at h
    obtain ⟨rfl, rfl, rfl, rfl, rfl, rfl⟩ := h
    rfl

set_option synthInstance.maxSize 1000 in
theorem ex1_sd : fieldsOf (.ok (exprSD none ex1, none)) = fieldsOf (.ok (C05.exSD, none)) := by decide +kernel

set_option synthInstance.maxSize 1000 in
theorem ex1_parse : parseNative true [] none (render ex1) = .ok (exprSD none ex1, (labelAll none ex1).1.counter) :=
  eq_of_fieldsOf (by decide +kernel)

set_option synthInstance.maxSize 1000 in
theorem ex2_parse : parseNative true ['d'] (some 5) (render ex2) = .ok (exprSD (some 5) ex2, (labelAll (some 5) ex2).1.counter) :=
  eq_of_fieldsOf (by decide +kernel)

set_option synthInstance.maxSize 1000 in
theorem ex3_parse : parseNative true ['d'] (some 999998) (render ex3) =
    .ok (exprSD (some 999998) ex3, (labelAll (some 999998) ex3).1.counter) :=
  eq_of_fieldsOf (by decide +kernel)


/-! ## 2. well-formed documents -/

/-- a name: a source word made of word characters that types as a string key and is none of the two documentation keys -/
def keyOK (k : Str) : Bool :=
  isSrcWord k && k.all isWordChar && decide (parseKey k = .str k) &&
  decide (k ≠ "_variables".toList) && decide (k ≠ "_includes".toList)

/-- an expression text: well formed in the sense of C05acyclic, on one line, without `"`, `//`, `/*`, and its first
    non-blank character is not `;` (see `exSemi_differs`) -/
def exprOK (b : Str) : Bool :=
  C05.wfExpr b && !b.contains '"' && b.all (fun c => !isLineBreak c) &&
  !isInfix ['/', '/'] b && !isInfix ['/', '*'] b && !((b.dropWhile isWs).head? == some ';')

def dvOK : DV → Bool
  | .lit l => l.ok
  | .ref n => !n.isEmpty && n.all isWordChar
  | .expr b => exprOK b

def exprBodies (doc : Doc) : List Str := doc.filterMap fun e => match e.2 with | .expr b => some b | _ => none

def DocWF (doc : Doc) : Bool :=
  doc.all (fun e => keyOK e.1 && dvOK e.2) && decide (doc.map (·.1)).Nodup && decide (exprBodies doc).Nodup

/-! ### character facts -/

theorem wc_slash : isWordChar '/' = false := by decide +kernel
theorem wc_dquote : isWordChar '"' = false := by decide +kernel
theorem wc_squote : isWordChar '\'' = false := by decide +kernel
theorem wc_backslash : isWordChar '\\' = false := by decide +kernel
theorem wc_star : isWordChar '*' = false := by decide +kernel
theorem wc_semi : isWordChar ';' = false := by decide +kernel

theorem word_chars {n : Str} (h : n.all isWordChar = true) :
    ∀ c ∈ n, isWs c = false ∧ isQuote c = false ∧ c ≠ '\\' ∧ c ≠ '$' ∧ c ≠ '/' ∧ c ≠ '"' ∧ isLineBreak c = false := by
  intro c hc
  have hw := List.all_eq_true.mp h c hc
  have hws := C05.word_not_ws c hw
  refine ⟨hws, ?_, ?_, ?_, ?_, ?_, C02.Main.not_lineBreak_of_not_ws hws⟩
  · simp only [isQuote, Bool.or_eq_false_iff, beq_eq_false_iff_ne, ne_eq]
    constructor
    · rintro rfl; rw [wc_squote] at hw; cases hw
    · rintro rfl; rw [wc_dquote] at hw; cases hw
  · rintro rfl; rw [wc_backslash] at hw; cases hw
  · rintro rfl; rw [C05.isWordChar_dollar] at hw; cases hw
  · rintro rfl; rw [wc_slash] at hw; cases hw
  · rintro rfl; rw [wc_dquote] at hw; cases hw

theorem keyOK_iff {k : Str} : keyOK k = true ↔ isSrcWord k = true ∧ k.all isWordChar = true ∧ parseKey k = .str k ∧
    k ≠ "_variables".toList ∧ k ≠ "_includes".toList := by
  simp only [keyOK, Bool.and_eq_true, decide_eq_true_eq, and_assoc]

theorem exprOK_iff {b : Str} : exprOK b = true ↔ C05.wfExpr b = true ∧ '"' ∉ b ∧ (∀ c ∈ b, isLineBreak c = false) ∧
    isInfix ['/', '/'] b = false ∧ isInfix ['/', '*'] b = false ∧ (b.dropWhile isWs).head? ≠ some ';' := by
  simp only [exprOK, Bool.and_eq_true, Bool.not_eq_true', List.all_eq_true, List.contains_eq_mem,
    decide_eq_false_iff_not, and_assoc, beq_eq_false_iff_ne, ne_eq]

theorem docWF_iff {doc : Doc} : DocWF doc = true ↔
    (∀ e ∈ doc, keyOK e.1 = true ∧ dvOK e.2 = true) ∧ (doc.map (·.1)).Nodup ∧ (exprBodies doc).Nodup := by
  simp only [DocWF, Bool.and_eq_true, List.all_eq_true, decide_eq_true_eq, and_assoc]

theorem docWF_cons {e : Str × DV} {doc : Doc} (h : DocWF (e :: doc) = true) :
    keyOK e.1 = true ∧ dvOK e.2 = true ∧ DocWF doc = true := by
  rw [docWF_iff] at h
  obtain ⟨h1, h2, h3⟩ := h
  refine ⟨(h1 e (by simp)).1, (h1 e (by simp)).2, docWF_iff.mpr ⟨fun x hx => h1 x (by simp [hx]), ?_, ?_⟩⟩
  · exact (List.nodup_cons.mp (by simpa using h2)).2
  · unfold exprBodies at h3 ⊢
    rw [List.filterMap_cons] at h3
    split at h3
    · exact h3
    · exact (List.nodup_cons.mp h3).2

/-- an expression text contains `$` -/
theorem wfExpr_dollar {b : Str} (h : C05.wfExpr b = true) : '$' ∈ b := by
  simp only [C05.wfExpr, Bool.and_eq_true, beq_iff_eq, Bool.not_eq_true', List.isEmpty_eq_false_iff] at h
  obtain ⟨⟨⟨h1, _⟩, h3⟩, _⟩ := h
  rw [← h1, C05.Segs.render]
  exact List.mem_append_right _ (C05.rend_hasD _ h3)

/-- what the stages need to know about a written value -/
structure VFacts (s : Str) : Prop where
  nolb : ∀ c ∈ s, isLineBreak c = false
  noSS : isInfix ['/', '/'] s = false
  noSA : isInfix ['/', '*'] s = false

theorem isInfix_slash_notin {s : Str} (b : Char) (h : '/' ∉ s) : isInfix ['/', b] s = false :=
  C02.isInfix_head_notin '/' [b] s h

theorem vfacts_word {n : Str} (h : n.all isWordChar = true) : VFacts n :=
  ⟨fun c hc => (word_chars h c hc).2.2.2.2.2.2, isInfix_slash_notin _ fun hm => (word_chars h _ hm).2.2.2.2.1 rfl,
   isInfix_slash_notin _ fun hm => (word_chars h _ hm).2.2.2.2.1 rfl⟩

theorem vfacts_tok {t : STok} (ht : C02.TokOK t) : VFacts t.text := by
  obtain ⟨c0, r, e, hws, _, hr⟩ := C02.Main.tok_shape ht
  refine ⟨?_, (C02.Main.tok_noPair ht (Or.inl rfl)).1, (C02.Main.tok_noPair ht (Or.inr rfl)).1⟩
  rw [e]
  intro c hc
  rcases List.mem_cons.mp hc with rfl | hc
  · exact C02.Main.not_lineBreak_of_not_ws hws
  · exact hr c hc

theorem lit_tokOK {l : Lit} (h : l.ok = true) : C02.TokOK l.tok := by
  cases l with
  | bare w => exact Or.inl h
  | quoted q b => exact h

theorem vfacts_cons {c : Char} {s : Str} (hc : isLineBreak c = false) (hc' : c ≠ '/') (h : VFacts s) : VFacts (c :: s) := by
  refine ⟨?_, ?_, ?_⟩
  · intro x hx
    rcases List.mem_cons.mp hx with rfl | hx
    · exact hc
    · exact h.nolb x hx
  · exact C02.Main.infix2_append (x := [c]) (C02.Main.infix2_single _ _ _) h.noSS (fun h1 _ => by simp at h1; exact hc' h1)
  · exact C02.Main.infix2_append (x := [c]) (C02.Main.infix2_single _ _ _) h.noSA (fun h1 _ => by simp at h1; exact hc' h1)

theorem vfacts_snoc {c : Char} {s : Str} (hc : isLineBreak c = false) (h1 : c ≠ '/') (h2 : c ≠ '*') (h : VFacts s) :
    VFacts (s ++ [c]) := by
  refine ⟨?_, ?_, ?_⟩
  · intro x hx
    rcases List.mem_append.mp hx with hx | hx
    · exact h.nolb x hx
    · simp at hx; subst hx; exact hc
  · exact C02.Main.infix2_append h.noSS (C02.Main.infix2_single _ _ _) (fun _ h' => by simp at h'; exact h1 h')
  · exact C02.Main.infix2_append h.noSA (C02.Main.infix2_single _ _ _) (fun _ h' => by simp at h'; exact h2 h')

theorem vfacts_append {x y : Str} (hx : VFacts x) (hy : VFacts y) (h : y.head? ≠ some '/' ∧ y.head? ≠ some '*') :
    VFacts (x ++ y) := by
  refine ⟨?_, ?_, ?_⟩
  · intro c hc
    rcases List.mem_append.mp hc with hc | hc
    · exact hx.nolb c hc
    · exact hy.nolb c hc
  · exact C02.Main.infix2_append hx.noSS hy.noSS (fun _ h' => h.1 h')
  · exact C02.Main.infix2_append hx.noSA hy.noSA (fun _ h' => h.2 h')

theorem vfacts_dv {v : DV} (h : dvOK v = true) : VFacts v.text := by
  cases v with
  | lit l => exact vfacts_tok (lit_tokOK h)
  | ref n =>
    simp only [dvOK, Bool.and_eq_true, Bool.not_eq_true', List.isEmpty_eq_false_iff] at h
    exact vfacts_cons (by decide) (by decide) (vfacts_word h.2)
  | expr b =>
    obtain ⟨_, _, h3, h4, h5, _⟩ := exprOK_iff.mp h
    exact vfacts_cons (by decide) (by decide) (vfacts_snoc (by decide) (by decide) (by decide) ⟨h3, h4, h5⟩)

theorem key_tokOK {k : Str} (h : keyOK k = true) : C02.TokOK (.word k) := Or.inl (keyOK_iff.mp h).1

/-! ## 3. layouts; the front stages and the normalisation -/

/-- the white space in front of the key, between key and value, and between value and `;` -/
abbrev Gaps := Str × Str × Str

/-- a layout: one triple of gaps per entry -/
abbrev Lay := List Gaps

/-- the entries laid out one after the other -/
def segs {α : Type} (txt : α → Str) : Lay → List (Str × α) → Str
  | l :: ls, e :: es => l.1 ++ (e.1 ++ (l.2.1 ++ (txt e.2 ++ (l.2.2 ++ ';' :: segs txt ls es))))
  | _, _ => []

/-- the document in a given layout, followed by `tail` -/
def renderG (doc : Doc) (lay : Lay) (tail : Str) : Str := segs DV.text lay doc ++ tail

/-- gaps are white space; key and value are separated -/
def gapsOKb (l : Gaps) : Bool := l.1.all isWs && l.2.1.all isWs && !l.2.1.isEmpty && l.2.2.all isWs

/-- an admissible layout of a document with `n` entries -/
def LayOK (lay : Lay) (n : Nat) : Bool := decide (lay.length = n) && lay.all gapsOKb

theorem gapsOKb_iff {l : Gaps} : gapsOKb l = true ↔
    l.1.all isWs = true ∧ l.2.1.all isWs = true ∧ l.2.1 ≠ [] ∧ l.2.2.all isWs = true := by
  simp only [gapsOKb, Bool.and_eq_true, Bool.not_eq_true', List.isEmpty_eq_false_iff, and_assoc]

theorem layOK_nil {lay : Lay} (h : LayOK lay 0 = true) : lay = [] := by
  simp only [LayOK, Bool.and_eq_true, decide_eq_true_eq] at h
  exact List.eq_nil_of_length_eq_zero h.1

theorem layOK_succ {lay : Lay} {n : Nat} (h : LayOK lay (n + 1) = true) :
    ∃ l ls, lay = l :: ls ∧ gapsOKb l = true ∧ LayOK ls n = true := by
  simp only [LayOK, Bool.and_eq_true, decide_eq_true_eq] at h
  cases lay with
  | nil => simp at h
  | cons l ls =>
    simp only [List.length_cons, Nat.add_right_cancel_iff, List.all_cons, Bool.and_eq_true] at h
    exact ⟨l, ls, rfl, h.2.1, by simp [LayOK, h.1, h.2.2]⟩

theorem segs_nil {α : Type} (txt : α → Str) (lay : Lay) : segs txt lay [] = [] := by
  cases lay <;> rfl

theorem segs_cons {α : Type} (txt : α → Str) (l : Gaps) (ls : Lay) (e : Str × α) (es : List (Str × α)) :
    segs txt (l :: ls) (e :: es) = l.1 ++ (e.1 ++ (l.2.1 ++ (txt e.2 ++ (l.2.2 ++ ';' :: segs txt ls es)))) := rfl

/-! ### tokens and gaps under the front stages -/

/-- a token starts with a character that is neither blank nor `#` and contains no line break -/
def TokShape (t : Str) : Prop := ∃ c0 r, t = c0 :: r ∧ isWs c0 = false ∧ c0 ≠ '#' ∧ ∀ c ∈ r, isLineBreak c = false

theorem tokShape_key {k : Str} (hk : keyOK k = true) : TokShape k := by
  obtain ⟨c0, r, e', hws, hh, hr⟩ := C02.Main.tok_shape (key_tokOK hk)
  exact ⟨c0, r, e', hws, hh, hr⟩

theorem tokShape_dv {v : DV} (hv : dvOK v = true) : TokShape v.text := by
  have hf := vfacts_dv hv
  cases v with
  | lit l =>
    obtain ⟨c0, r, e', hws, hh, hr⟩ := C02.Main.tok_shape (lit_tokOK hv)
    exact ⟨c0, r, e', hws, hh, hr⟩
  | ref n => exact ⟨'$', n, rfl, by decide, by decide, fun c hc => hf.nolb c (by simp [DV.text, hc])⟩
  | expr b => exact ⟨'"', b ++ ['"'], rfl, by decide, by decide, fun c hc => hf.nolb c (by simp [DV.text] at hc ⊢; exact Or.inr hc)⟩

theorem tokShape_semi : TokShape [';'] := ⟨';', [], rfl, by decide, by decide, fun _ h => by cases h⟩

theorem noHash_token {t : Str} (h : TokShape t) (st : Bool) (s : Str) :
    C02.Main.noHash st (t ++ s) = C02.Main.noHash false s := by
  obtain ⟨c0, r, rfl, hws, hh, hr⟩ := h
  have hlb := C02.Main.not_lineBreak_of_not_ws hws
  have hc : (c0 == '#') = false := by simpa using hh
  have h2 := C02.Main.noHash_false r hr
  rw [List.cons_append]
  simp only [C02.Main.noHash, C02.Main.nextSt, hlb, hws, hc, Bool.and_false, Bool.false_eq_true, if_false, Bool.not_false,
    Bool.true_and]
  rw [C02.Main.noHash_append, h2.1, h2.2]
  rfl

theorem noHash_gap {g : Str} (hg : g.all isWs = true) (st : Bool) (s : Str) :
    C02.Main.noHash st (g ++ s) = C02.Main.noHash (C02.Main.lineSt st g) s := by
  rw [C02.Main.noHash_append, C02.Main.noHash_ws g st hg]; rfl

theorem segs_noHash : ∀ (doc : Doc) (lay : Lay) (tail : Str), DocWF doc = true → LayOK lay doc.length = true →
    tail.all isWs = true → ∀ st, C02.Main.noHash st (segs DV.text lay doc ++ tail) = true
  | [], lay, tail, _, _, ht, st => by rw [segs_nil]; exact C02.Main.noHash_ws tail st ht
  | e :: es, lay, tail, h, hl, ht, st => by
    obtain ⟨hk, hv, hes⟩ := docWF_cons h
    obtain ⟨l, ls, rfl, hg, hls⟩ := layOK_succ hl
    obtain ⟨g1, g2, _, g3⟩ := gapsOKb_iff.mp hg
    have ih := segs_noHash es ls tail hes hls ht false
    rw [segs_cons]
    simp only [List.append_assoc]
    rw [noHash_gap g1, noHash_token (tokShape_key hk), noHash_gap g2, noHash_token (tokShape_dv hv), noHash_gap g3]
    have := noHash_token tokShape_semi (C02.Main.lineSt false l.2.2) (segs DV.text ls es ++ tail)
    simp only [List.cons_append, List.nil_append] at this ⊢
    rw [this]; exact ih

theorem isInfix_skip (a : Char) (q : Str) : ∀ (A s : Str), a ∉ A → isInfix (a :: q) (A ++ s) = isInfix (a :: q) s
  | [], _, _ => rfl
  | x :: A, s, h => by
    have ha : (a == x) = false := by
      simp only [beq_eq_false_iff_ne, ne_eq]; rintro rfl; exact h (by simp)
    rw [List.cons_append, C02.isInfix_cons, C02.isPrefixOf_cc, ha, isInfix_skip a q A s (fun hm => h (by simp [hm]))]
    simp

theorem ws_no_slash {g : Str} (hg : g.all isWs = true) : '/' ∉ g := fun hm =>
  (C02.Main.ws_facts (List.all_eq_true.mp hg _ hm)).1 rfl

/-- the first character of white space followed by `;` is neither `/` nor `*` -/
theorem gap_semi_head {g : Str} (hg : g.all isWs = true) (s : Str) {b : Char} (hb : b = '/' ∨ b = '*') :
    (g ++ ';' :: s).head? ≠ some b := by
  cases g with
  | nil => simp; rcases hb with rfl | rfl <;> decide
  | cons c g =>
    simp only [List.all_cons, Bool.and_eq_true] at hg
    have := C02.Main.ws_facts hg.1
    simp only [List.cons_append, List.head?_cons, ne_eq, Option.some.injEq]
    rcases hb with rfl | rfl
    · exact this.1
    · exact this.2.1

theorem segs_noPair {b : Char} (hb : b = '/' ∨ b = '*') : ∀ (doc : Doc) (lay : Lay) (tail : Str), DocWF doc = true →
    LayOK lay doc.length = true → tail.all isWs = true → isInfix ['/', b] (segs DV.text lay doc ++ tail) = false
  | [], lay, tail, _, _, ht => by rw [segs_nil]; exact C02.isInfix_head_notin _ _ _ (ws_no_slash ht)
  | e :: es, lay, tail, h, hl, ht => by
    obtain ⟨hk, hv, hes⟩ := docWF_cons h
    obtain ⟨l, ls, rfl, hg, hls⟩ := layOK_succ hl
    obtain ⟨g1, g2, g2ne, g3⟩ := gapsOKb_iff.mp hg
    have ih := segs_noPair hb es ls tail hes hls ht
    have hkf := vfacts_tok (t := .word e.1) (key_tokOK hk)
    have hvf := vfacts_dv hv
    have pk : isInfix ['/', b] e.1 = false := by rcases hb with rfl | rfl; exact hkf.noSS; exact hkf.noSA
    have pv : isInfix ['/', b] e.2.text = false := by rcases hb with rfl | rfl; exact hvf.noSS; exact hvf.noSA
    rw [segs_cons]
    simp only [List.append_assoc]
    rw [isInfix_skip _ _ _ _ (ws_no_slash g1)]
    -- `;` and what follows
    have h1 : isInfix ['/', b] (';' :: (segs DV.text ls es ++ tail)) = false := by
      rw [show ';' :: (segs DV.text ls es ++ tail) = [';'] ++ (segs DV.text ls es ++ tail) from rfl,
        isInfix_skip _ _ _ _ (by decide)]
      exact ih
    have h2 : isInfix ['/', b] (l.2.2 ++ ';' :: (segs DV.text ls es ++ tail)) = false := by
      rw [isInfix_skip _ _ _ _ (ws_no_slash g3)]; exact h1
    have h3 : isInfix ['/', b] (e.2.text ++ (l.2.2 ++ ';' :: (segs DV.text ls es ++ tail))) = false :=
      C02.Main.infix2_append pv h2 (fun _ h' => gap_semi_head g3 _ hb h')
    have h4 : isInfix ['/', b] (l.2.1 ++ (e.2.text ++ (l.2.2 ++ ';' :: (segs DV.text ls es ++ tail)))) = false := by
      rw [isInfix_skip _ _ _ _ (ws_no_slash g2)]; exact h3
    refine C02.Main.infix2_append pk h4 (fun _ h' => ?_)
    cases hg2 : l.2.1 with
    | nil => exact g2ne hg2
    | cons c g =>
      rw [hg2] at h' g2
      simp only [List.all_cons, Bool.and_eq_true] at g2
      have := C02.Main.ws_facts g2.1
      simp only [List.cons_append, List.head?_cons, Option.some.injEq] at h'
      rcases hb with rfl | rfl
      · exact this.1 h'
      · exact this.2.1 h'

theorem renderG_noMarkup {doc : Doc} {lay : Lay} {tail : Str} (h : DocWF doc = true) (hl : LayOK lay doc.length = true)
    (ht : tail.all isWs = true) : C02.NoMarkup (renderG doc lay tail) :=
  ⟨segs_noPair (Or.inl rfl) doc lay tail h hl ht, segs_noPair (Or.inr rfl) doc lay tail h hl ht,
   C02.Main.noHash_sound (segs_noHash doc lay tail h hl ht true)⟩

/-! ### newline removal and `strip` -/

def nlmap (s : Str) : Str := s.map fun ch => if ch == '\n' then ' ' else ch

def nlGaps (l : Gaps) : Gaps := (nlmap l.1, nlmap l.2.1, nlmap l.2.2)

/-- the layout after newline removal and `strip`: no line feed in a gap, nothing in front of the first key -/
def normLay : Lay → Lay
  | [] => []
  | l :: ls => ([], nlmap l.2.1, nlmap l.2.2) :: ls.map nlGaps

theorem nlGaps_ok {l : Gaps} (h : gapsOKb l = true) : gapsOKb (nlGaps l) = true := by
  obtain ⟨g1, g2, g2ne, g3⟩ := gapsOKb_iff.mp h
  rw [gapsOKb_iff]
  refine ⟨C02.nl_ws_all _ g1, C02.nl_ws_all _ g2, ?_, C02.nl_ws_all _ g3⟩
  simp only [nlGaps, nlmap]
  intro h0
  exact g2ne (List.map_eq_nil_iff.mp h0)

theorem layOK_map {lay : Lay} {n : Nat} (h : LayOK lay n = true) : LayOK (lay.map nlGaps) n = true := by
  simp only [LayOK, Bool.and_eq_true, decide_eq_true_eq, List.all_eq_true, List.length_map, List.mem_map] at h ⊢
  refine ⟨h.1, ?_⟩
  rintro x ⟨l, hl, rfl⟩
  exact nlGaps_ok (h.2 l hl)

theorem normLay_ok {lay : Lay} {n : Nat} (h : LayOK lay n = true) : LayOK (normLay lay) n = true := by
  cases lay with
  | nil => exact h
  | cons l ls =>
    have := layOK_map h
    simp only [LayOK, Bool.and_eq_true, decide_eq_true_eq, List.map_cons, List.all_cons, List.length_cons,
      List.length_map] at this
    simp only [normLay, LayOK, Bool.and_eq_true, decide_eq_true_eq, List.all_cons, List.length_cons, List.length_map]
    refine ⟨this.1, ?_, this.2.2⟩
    obtain ⟨_, g2, g2ne, g3⟩ := gapsOKb_iff.mp this.2.1
    exact gapsOKb_iff.mpr ⟨rfl, g2, g2ne, g3⟩

theorem dv_no_nl {v : DV} (hv : dvOK v = true) : ∀ c ∈ v.text, c ≠ '\n' := by
  intro c hc
  rintro rfl
  have := (vfacts_dv hv).nolb _ hc
  rw [C02.isLineBreak_nl] at this; cases this

theorem key_no_nl {k : Str} (hk : keyOK k = true) : ∀ c ∈ k, c ≠ '\n' := by
  intro c hc
  rintro rfl
  have := (vfacts_tok (t := .word k) (key_tokOK hk)).nolb _ hc
  rw [C02.isLineBreak_nl] at this; cases this

theorem nlmap_append (a b : Str) : nlmap (a ++ b) = nlmap a ++ nlmap b := by simp [nlmap]

theorem nlmap_semi (s : Str) : nlmap (';' :: s) = ';' :: nlmap s := by simp [nlmap]

theorem nlmap_segs : ∀ (doc : Doc) (lay : Lay), (∀ e ∈ doc, keyOK e.1 = true ∧ dvOK e.2 = true) →
    nlmap (segs DV.text lay doc) = segs DV.text (lay.map nlGaps) doc
  | [], lay, _ => by rw [segs_nil, segs_nil]; rfl
  | e :: es, [], _ => rfl
  | e :: es, l :: ls, h => by
    obtain ⟨hk, hv⟩ := h e (by simp)
    have ih := nlmap_segs es ls (fun x hx => h x (by simp [hx]))
    have e1 : nlmap e.1 = e.1 := C02.map_nl_id _ (key_no_nl hk)
    have e2 : nlmap e.2.text = e.2.text := C02.map_nl_id _ (dv_no_nl hv)
    rw [List.map_cons, segs_cons, segs_cons]
    simp only [nlmap_append, nlmap_semi, e1, e2, ih, nlGaps]

theorem segs_last : ∀ (doc : Doc) (lay : Lay) (x : Str), lay.length = doc.length →
    ∃ y, x ++ [';'] ++ segs DV.text lay doc = y ++ [';']
  | [], lay, x, _ => ⟨x, by rw [segs_nil]; simp⟩
  | e :: es, [], x, h => by simp at h
  | e :: es, l :: ls, x, h => by
    obtain ⟨y, hy⟩ := segs_last es ls (l.1 ++ (e.1 ++ (l.2.1 ++ (e.2.text ++ l.2.2)))) (by simpa using h)
    refine ⟨x ++ [';'] ++ y, ?_⟩
    rw [segs_cons]
    simp only [List.append_assoc, List.cons_append, List.nil_append] at hy ⊢
    rw [hy]

/-- newline removal and `strip` on a document in an admissible layout -/
theorem normalise_renderG {doc : Doc} {lay : Lay} {tail : Str} (h : DocWF doc = true)
    (hl : LayOK lay doc.length = true) (ht : tail.all isWs = true) :
    strip ((renderG doc lay tail).map fun ch => if ch == '\n' then ' ' else ch) = segs DV.text (normLay lay) doc := by
  have hall := (docWF_iff.mp h).1
  have hm : (renderG doc lay tail).map (fun ch => if ch == '\n' then ' ' else ch) =
      segs DV.text (lay.map nlGaps) doc ++ nlmap tail := by
    rw [renderG, List.map_append]
    exact congrArg (· ++ nlmap tail) (nlmap_segs doc lay hall)
  rw [hm]
  have ht' : (nlmap tail).all isWs = true := C02.nl_ws_all _ ht
  cases doc with
  | nil =>
    rw [segs_nil, segs_nil, List.nil_append]
    exact C02.strip_ws _ ht'
  | cons e es =>
    obtain ⟨l, ls, rfl, hg, hls⟩ := layOK_succ hl
    obtain ⟨hk, hv⟩ := hall e (by simp)
    obtain ⟨g1, _, _, _⟩ := gapsOKb_iff.mp (nlGaps_ok hg)
    obtain ⟨c0, r, he, hws, _, _⟩ := tokShape_key hk
    have hlen : (ls.map nlGaps).length = es.length := by
      simp only [LayOK, Bool.and_eq_true, decide_eq_true_eq] at hls
      simpa using hls.1
    obtain ⟨y, hy⟩ := segs_last es (ls.map nlGaps) (e.1 ++ (nlmap l.2.1 ++ (e.2.text ++ nlmap l.2.2))) hlen
    have hcore : segs DV.text (normLay (l :: ls)) (e :: es) =
        e.1 ++ (nlmap l.2.1 ++ (e.2.text ++ nlmap l.2.2)) ++ [';'] ++ segs DV.text (ls.map nlGaps) es := by
      simp [normLay, segs_cons]
    have hfull : segs DV.text ((l :: ls).map nlGaps) (e :: es) ++ nlmap tail =
        nlmap l.1 ++ segs DV.text (normLay (l :: ls)) (e :: es) ++ nlmap tail := by
      simp [normLay, segs_cons, nlGaps]
    rw [hfull]
    refine C02.strip_core (nlmap l.1) _ (nlmap tail) (r ++ (nlmap l.2.1 ++ (e.2.text ++ nlmap l.2.2)) ++ [';'] ++
      segs DV.text (ls.map nlGaps) es) y c0 ';' g1 ht' ?_ (by rw [hcore, hy]) hws (by decide)
    rw [hcore, he]
    simp
/-! ## 4. pass 1: the literal stage -/

theorem mapSt_cons {α β : Type} (f : LexSt → α → LexSt × β) (st : LexSt) (k : Str) (v : α) (es : List (Str × α)) :
    mapSt f st ((k, v) :: es) = ((mapSt f (f st v).1 es).1, (k, (f st v).2) :: (mapSt f (f st v).1 es).2) := rfl

theorem mapSt_nil {α β : Type} (f : LexSt → α → LexSt × β) (st : LexSt) : mapSt f st [] = (st, []) := rfl

/-- a double-quoted text with `$` is kept verbatim by the literal stage -/
theorem lex_expr (b rest : Str) (st st' : LexSt) (out : Str) (hq : '"' ∉ b) (hd : '$' ∈ b)
    (hrest : ∀ fuel prev, rest.length ≤ fuel → prev ≠ some '\\' → lexLiteralsFuel fuel st prev rest = .ok (st', out)) :
    ∀ fuel prev, ('"' :: (b ++ ['"']) ++ rest).length ≤ fuel → prev ≠ some '\\' →
      lexLiteralsFuel fuel st prev ('"' :: (b ++ ['"']) ++ rest) = .ok (st', '"' :: (b ++ ['"']) ++ out) := by
  intro fuel prev hf hp
  cases fuel with
  | zero => simp at hf
  | succ f =>
    have hpe : (prev == some '\\') = false := by simpa using hp
    have hs : splitAtChar '"' (b ++ ['"'] ++ rest) = some (b, rest) := by
      simpa using C02.splitAtChar_skip '"' b rest hq
    have hc : b.contains '$' = true := by simpa using hd
    have hr := hrest f (some '"') (by simp at hf ⊢; omega) (by decide)
    have hqq : isQuote '"' = true := by decide
    simp only [List.cons_append, lexLiteralsFuel, hqq, if_true, hpe, Bool.false_eq_true, if_false, hs, hc,
      beq_self_eq_true, Bool.and_self, hr]
    simp [bind, Except.bind, pure, Except.pure]

theorem lab1_quoted (st : LexSt) (q : Char) (b : Str) :
    (lab1 st (.lit (.quoted q b))).1 = C02.withLab st (C02.labelTok (C02.labOf st) (.quoted q b)).1 ∧
    (lab1 st (.lit (.quoted q b))).2.text = (C02.labelTok (C02.labOf st) (.quoted q b)).2 := ⟨rfl, rfl⟩

theorem lex1_val (v : DV) (hv : dvOK v = true) (rest : Str) (st st' : LexSt) (out : Str)
    (hrest : ∀ fuel prev, rest.length ≤ fuel → prev ≠ some '\\' →
      lexLiteralsFuel fuel (lab1 st v).1 prev rest = .ok (st', out)) :
    ∀ fuel prev, (v.text ++ rest).length ≤ fuel → prev ≠ some '\\' →
      lexLiteralsFuel fuel st prev (v.text ++ rest) = .ok (st', (lab1 st v).2.text ++ out) := by
  cases v with
  | lit l =>
    cases l with
    | bare w =>
      have hc := C02.okWord_chars (Or.inl hv)
      exact C02.lex_copy w rest st st' out (fun c hc' => (hc c hc').1) (fun c hc' => (hc c hc').2.2.1) hrest
    | quoted q b =>
      have := C02.lex_quoted q b rest st st' out hv (by rw [← (lab1_quoted st q b).1]; exact hrest)
      rw [← (lab1_quoted st q b).2] at this
      exact this
  | ref n =>
    simp only [dvOK, Bool.and_eq_true, Bool.not_eq_true', List.isEmpty_eq_false_iff] at hv
    have hc := word_chars hv.2
    refine C02.lex_copy ('$' :: n) rest st st' out ?_ ?_ hrest
    · intro c hc'
      rcases List.mem_cons.mp hc' with rfl | hc'
      · decide
      · exact (hc c hc').2.1
    · intro c hc'
      rcases List.mem_cons.mp hc' with rfl | hc'
      · decide
      · exact (hc c hc').2.2.1
  | expr b =>
    obtain ⟨h1, h2, _⟩ := exprOK_iff.mp hv
    exact lex_expr b rest st st' out h2 (wfExpr_dollar h1) hrest

theorem lex_ws (g rest : Str) (st st' : LexSt) (t : Str) (hg : g.all isWs = true)
    (hrest : ∀ fuel prev, rest.length ≤ fuel → prev ≠ some '\\' → lexLiteralsFuel fuel st prev rest = .ok (st', t)) :
    ∀ fuel prev, (g ++ rest).length ≤ fuel → prev ≠ some '\\' →
      lexLiteralsFuel fuel st prev (g ++ rest) = .ok (st', g ++ t) :=
  C02.lex_copy g rest st st' t (fun c hc => C02.ws_not_quote (List.all_eq_true.mp hg c hc))
    (fun c hc => C02.ws_ne_backslash (List.all_eq_true.mp hg c hc)) hrest

/-- the literal stage on a document in an admissible layout, whatever follows: the quoted strings are replaced by
    `STRINGLITERALnnnnnn` (ids in text order), references and `"…$…"` are copied, the layout stays -/
theorem lex1_segs : ∀ (doc : Doc) (lay : Lay), (∀ e ∈ doc, keyOK e.1 = true ∧ dvOK e.2 = true) →
    LayOK lay doc.length = true → ∀ (rest : Str) (st st' : LexSt) (out : Str),
    (∀ fuel prev, rest.length ≤ fuel → prev ≠ some '\\' →
      lexLiteralsFuel fuel (mapSt lab1 st doc).1 prev rest = .ok (st', out)) →
    ∀ fuel prev, (segs DV.text lay doc ++ rest).length ≤ fuel → prev ≠ some '\\' →
      lexLiteralsFuel fuel st prev (segs DV.text lay doc ++ rest) =
        .ok (st', segs LV.text lay (mapSt lab1 st doc).2 ++ out)
  | [], lay, _, _, rest, st, st', out, hrest => by simpa [segs_nil, mapSt_nil] using hrest
  | (k, v) :: es, lay, h, hl, rest, st, st', out, hrest => by
    obtain ⟨hk, hv⟩ := h (k, v) (by simp)
    obtain ⟨l, ls, rfl, hg, hls⟩ := layOK_succ hl
    obtain ⟨g1, g2, _, g3⟩ := gapsOKb_iff.mp hg
    have hkc := C02.okWord_chars (Or.inl (keyOK_iff.mp hk).1)
    rw [mapSt_cons, segs_cons, segs_cons]
    simp only [List.append_assoc]
    refine lex_ws _ _ st st' _ g1 ?_
    refine C02.lex_copy k _ st st' _ (fun c hc => (hkc c hc).1) (fun c hc => (hkc c hc).2.2.1) ?_
    refine lex_ws _ _ st st' _ g2 ?_
    refine lex1_val v hv _ st st' _ ?_
    refine lex_ws _ _ _ st' _ g3 ?_
    have := C02.lex_copy [';'] (segs DV.text ls es ++ rest) (lab1 st v).1 st'
      (segs LV.text ls (mapSt lab1 (lab1 st v).1 es).2 ++ out) (by decide) (by decide)
      (lex1_segs es ls (fun e he => h e (by simp [he])) hls rest _ st' out (by rw [mapSt_cons] at hrest; exact hrest))
    simpa using this

theorem lex1_all {doc : Doc} {lay : Lay} (h : DocWF doc = true) (hl : LayOK lay doc.length = true) (st : LexSt) :
    lexLiteralsFuel ((segs DV.text lay doc).length + 1) st none (segs DV.text lay doc) =
      .ok ((mapSt lab1 st doc).1, segs LV.text lay (mapSt lab1 st doc).2) := by
  have := lex1_segs doc lay (docWF_iff.mp h).1 hl [] st (mapSt lab1 st doc).1 []
    (fun fuel prev _ _ => C02.lex_nil fuel _ prev) ((segs DV.text lay doc).length + 1) none (by simp) (by simp)
  simpa using this
/-! ## 5. pass 2: double-quoted expressions -/

/-- a word standing in the text after a labelling pass -/
def wordOK (w : Str) : Prop := isWordTok w = true ∧ isPhTok w = false ∧ ∀ c ∈ w, c ≠ '"' ∧ c ≠ '$'

def lvOK : LV → Prop
  | .done w _ => wordOK w
  | .ref n => n ≠ [] ∧ n.all isWordChar = true
  | .expr b => exprOK b = true

def ldocOK (d : LDoc) : Prop := ∀ e ∈ d, keyOK e.1 = true ∧ lvOK e.2

def quoteE (b : Str) : Str := '"' :: (b ++ ['"'])

def exprBodiesL (d : LDoc) : List Str := d.filterMap fun e => selE e.2

def exprTexts (d : LDoc) : List Str := (exprBodiesL d).map quoteE

/-- the loop over the matches of `"[^"]*\$.*?"` in `lexExpressions` -/
def foldE (found : List Str) (st : LexSt) (s : Str) : LexSt × Str :=
  found.foldl (fun (acc : LexSt × Str) e =>
    ({ acc.1.fresh.2 with
        exprs := acc.1.fresh.2.exprs.set acc.1.fresh.1 ⟨e.filter (· != '"'), kwExpr ++ padSix acc.1.fresh.1⟩ },
      replaceAll e (kwExpr ++ padSix acc.1.fresh.1) acc.2)) (st, s)

theorem lexExpressions_eq (st : LexSt) (s : Str) :
    lexExpressions st s =
      lexRefsFuel ((foldE (findExprsFuel (s.length + 1) s) st s).2.length + 1)
        (foldE (findExprsFuel (s.length + 1) s) st s).1 (foldE (findExprsFuel (s.length + 1) s) st s).2 := rfl

theorem foldE_nil (st : LexSt) (s : Str) : foldE [] st s = (st, s) := rfl

theorem foldE_cons (e : Str) (fs : List Str) (st : LexSt) (s : Str) :
    foldE (e :: fs) st s =
      foldE fs { st.fresh.2 with
          exprs := st.fresh.2.exprs.set st.fresh.1 ⟨e.filter (· != '"'), kwExpr ++ padSix st.fresh.1⟩ }
        (replaceAll e (kwExpr ++ padSix st.fresh.1) s) := rfl

/-! ### `replaceAll` -/

theorem replaceAllFuel_nil (p rep : Str) (fuel : Nat) : replaceAllFuel p rep fuel [] = [] := by
  cases fuel <;> rfl

theorem replaceAllFuel_id (p rep : Str) : ∀ (fuel : Nat) (s : Str), isInfix p s = false → s.length ≤ fuel →
    replaceAllFuel p rep fuel s = s
  | 0, s, _, hf => by cases s with | nil => rfl | cons c r => simp at hf
  | fuel + 1, [], _, _ => rfl
  | fuel + 1, c :: r, h, hf => by
    rw [C02.isInfix_cons] at h
    simp only [Bool.or_eq_false_iff] at h
    simp only [replaceAllFuel, h.1, Bool.false_and, Bool.false_eq_true, if_false]
    rw [replaceAllFuel_id p rep fuel r h.2 (by simp at hf; omega)]

theorem replaceAllFuel_skip (q rep : Str) : ∀ (A s : Str) (fuel : Nat), '"' ∉ A →
    replaceAllFuel ('"' :: q) rep (fuel + A.length) (A ++ s) = A ++ replaceAllFuel ('"' :: q) rep fuel s
  | [], s, fuel, _ => by simp
  | a :: A, s, fuel, h => by
    have ha : ('"' == a) = false := by
      simp only [beq_eq_false_iff_ne, ne_eq]; rintro rfl; exact h (by simp)
    have ih := replaceAllFuel_skip q rep A s fuel (fun hm => h (by simp [hm]))
    have e : fuel + (a :: A).length = (fuel + A.length) + 1 := by simp; omega
    rw [e, List.cons_append]
    simp only [replaceAllFuel, C02.isPrefixOf_cc, ha, Bool.false_and, Bool.false_eq_true, if_false, ih]
    rfl

theorem replaceAllFuel_hit (p rep s : Str) (fuel : Nat) (hp : p ≠ []) :
    replaceAllFuel p rep (fuel + 1) (p ++ s) = rep ++ replaceAllFuel p rep fuel s := by
  cases p with
  | nil => exact absurd rfl hp
  | cons a p =>
    have h1 : (a :: p).isPrefixOf (a :: (p ++ s)) = true := by
      have := C05.isPrefixOf_append (a :: p) s
      simpa using this
    have h2 : (a :: (p ++ s)).drop (a :: p).length = s := by
      have := C05.drop_len_append (a :: p) s
      simpa using this
    rw [List.cons_append]
    simp only [replaceAllFuel, h1, h2, List.isEmpty_cons, Bool.not_false, Bool.and_self, if_true]

/-- one occurrence, in front of which there is no `"` and behind which the pattern does not occur -/
theorem replaceAll_once (q rep A s : Str) (hA : '"' ∉ A) (hs : isInfix ('"' :: q) s = false) :
    replaceAll ('"' :: q) rep (A ++ ('"' :: q) ++ s) = A ++ rep ++ s := by
  unfold replaceAll
  have e : (A ++ ('"' :: q) ++ s).length + 1 = ((('"' :: q).length + s.length) + 1) + A.length := by
    simp; omega
  rw [e, List.append_assoc, replaceAllFuel_skip q rep A _ _ hA, replaceAllFuel_hit _ _ _ _ (by simp),
    replaceAllFuel_id _ _ _ _ hs (by omega)]
  simp

/-! ### where a quoted pattern can occur -/

theorem isInfix_skipQ (q : Str) : ∀ (A s : Str), '"' ∉ A → isInfix ('"' :: q) (A ++ s) = isInfix ('"' :: q) s
  | [], _, _ => rfl
  | a :: A, s, h => by
    have ha : ('"' == a) = false := by
      simp only [beq_eq_false_iff_ne, ne_eq]; rintro rfl; exact h (by simp)
    rw [List.cons_append, C02.isInfix_cons, C02.isPrefixOf_cc, ha, isInfix_skipQ q A s (fun hm => h (by simp [hm]))]
    simp

theorem prefix_qf : ∀ (b b' R : Str), '"' ∉ b → '"' ∉ b' → (b ++ ['"']).isPrefixOf (b' ++ '"' :: R) = true → b = b'
  | [], [], _, _, _, _ => rfl
  | [], c :: b', R, _, h', h => by
    simp only [List.nil_append, List.cons_append, C02.isPrefixOf_cc, Bool.and_eq_true, beq_iff_eq] at h
    exact absurd h.1 (fun e => h' (by simp [← e]))
  | c :: b, [], R, hb, _, h => by
    simp only [List.nil_append, List.cons_append, C02.isPrefixOf_cc, Bool.and_eq_true, beq_iff_eq] at h
    exact absurd h.1 (fun e => hb (by simp [e]))
  | c :: b, c' :: b', R, hb, hb', h => by
    simp only [List.cons_append, C02.isPrefixOf_cc, Bool.and_eq_true, beq_iff_eq] at h
    rw [h.1, prefix_qf b b' R (fun hm => hb (by simp [hm])) (fun hm => hb' (by simp [hm])) h.2]

theorem lvOK_text_noq {v : LV} (hv : lvOK v) (hs : selE v = none) : '"' ∉ v.text := by
  cases v with
  | done w x => exact fun hm => (hv.2.2 _ hm).1 rfl
  | ref n =>
    intro hm
    rcases List.mem_cons.mp hm with h | hm
    · cases h
    · exact (word_chars hv.2 _ hm).2.2.2.2.2.1 rfl
  | expr b => simp [selE] at hs

theorem key_noq {k : Str} (hk : keyOK k = true) : '"' ∉ k := fun hm =>
  (word_chars (keyOK_iff.mp hk).2.1 _ hm).2.2.2.2.2.1 rfl

theorem exprBodiesL_cons_none {e : Str × LV} (d : LDoc) (hs : selE e.2 = none) :
    exprBodiesL (e :: d) = exprBodiesL d := by simp [exprBodiesL, hs]

theorem exprBodiesL_cons_some {e : Str × LV} {b : Str} (d : LDoc) (hs : selE e.2 = some b) :
    exprBodiesL (e :: d) = b :: exprBodiesL d := by simp [exprBodiesL, hs]

theorem selE_cases (v : LV) : (selE v = none) ∨ (∃ b, v = .expr b ∧ selE v = some b) := by
  cases v <;> simp [selE]

/-- the quoted form of an expression text does not occur in the text of a document that does not hold it -/
theorem ws_noq {g : Str} (hg : g.all isWs = true) : '"' ∉ g := by
  intro hm
  have := C02.ws_not_quote (List.all_eq_true.mp hg _ hm)
  simp [isQuote] at this

theorem ws_nod {g : Str} (hg : g.all isWs = true) : '$' ∉ g := fun hm =>
  C02.ws_ne_dollar (List.all_eq_true.mp hg _ hm) rfl

theorem notin_append {a : Char} {x y : Str} (hx : a ∉ x) (hy : a ∉ y) : a ∉ x ++ y := by
  intro hm
  rcases List.mem_append.mp hm with h | h
  · exact hx h
  · exact hy h

/-- the quoted form of a text whose first non-blank character is not `;` does not start at a closing quote -/
theorem prefix_gap_semi : ∀ (g b rest : Str), g.all isWs = true → '$' ∈ b → (b.dropWhile isWs).head? ≠ some ';' →
    (b ++ ['"']).isPrefixOf (g ++ ';' :: rest) = false
  | [], [], _, _, hd, _ => by cases hd
  | [], c :: b, rest, _, _, hh => by
    have hc : (c == ';') = false := by
      simp only [beq_eq_false_iff_ne, ne_eq]
      rintro rfl
      exact hh (by simp [List.dropWhile, show isWs ';' = false by decide])
    simp [C02.isPrefixOf_cc, hc]
  | a :: g, [], _, _, hd, _ => by cases hd
  | a :: g, c :: b, rest, hg, hd, hh => by
    simp only [List.all_cons, Bool.and_eq_true] at hg
    simp only [List.cons_append, C02.isPrefixOf_cc]
    cases hca : c == a with
    | false => rfl
    | true =>
      have hca' : c = a := by simpa using hca
      subst hca'
      have hd' : '$' ∈ b := by
        rcases List.mem_cons.mp hd with h | h
        · exact absurd h.symm (C02.ws_ne_dollar hg.1)
        · exact h
      have := prefix_gap_semi g b rest hg.2 hd' (by simpa [List.dropWhile, hg.1] using hh)
      simpa using this

/-- the quoted form of an expression text does not occur in the text of a document that does not hold it -/
theorem noInfix_segs (b : Str) (hq : '"' ∉ b) (hd : '$' ∈ b) (hh : (b.dropWhile isWs).head? ≠ some ';') :
    ∀ (d : LDoc) (lay : Lay), ldocOK d → LayOK lay d.length = true → b ∉ exprBodiesL d →
    ∀ (P : Str), '"' ∉ P → isInfix (quoteE b) (P ++ segs LV.text lay d) = false
  | [], lay, _, _, _, P, hP => by
    rw [quoteE, segs_nil, List.append_nil]
    exact C02.isInfix_head_notin _ _ _ hP
  | (k, v) :: d, lay, hd', hl, hb, P, hP => by
    obtain ⟨hk, hv⟩ := hd' (k, v) (by simp)
    have hd'' : ldocOK d := fun e he => hd' e (by simp [he])
    obtain ⟨l, ls, rfl, hg, hls⟩ := layOK_succ hl
    obtain ⟨g1, g2, _, g3⟩ := gapsOKb_iff.mp hg
    rw [segs_cons]
    rcases selE_cases v with hs | ⟨b', rfl, hs⟩
    · rw [exprBodiesL_cons_none d hs] at hb
      have := noInfix_segs b hq hd hh d ls hd'' hls hb (P ++ (l.1 ++ (k ++ (l.2.1 ++ (v.text ++ (l.2.2 ++ [';']))))))
        (notin_append hP (notin_append (ws_noq g1) (notin_append (key_noq hk) (notin_append (ws_noq g2)
          (notin_append (lvOK_text_noq hv hs) (notin_append (ws_noq g3) (by simp)))))))
      simpa [List.append_assoc] using this
    · rw [exprBodiesL_cons_some d hs] at hb
      simp only [List.mem_cons, not_or] at hb
      obtain ⟨hne, hb⟩ := hb
      have hq' : '"' ∉ b' := (exprOK_iff.mp hv).2.1
      have ih := noInfix_segs b hq hd hh d ls hd'' hls hb [] (by simp)
      have e : P ++ (l.1 ++ (k ++ (l.2.1 ++ ((LV.expr b').text ++ (l.2.2 ++ ';' :: segs LV.text ls d))))) =
          (P ++ (l.1 ++ (k ++ l.2.1))) ++ ('"' :: (b' ++ ('"' :: ((l.2.2 ++ [';']) ++ segs LV.text ls d)))) := by
        simp [LV.text]
      rw [e, quoteE, isInfix_skip _ _ _ _ (notin_append hP (notin_append (ws_noq g1) (notin_append (key_noq hk) (ws_noq g2))))]
      rw [C02.isInfix_cons, isInfix_skip _ _ _ _ hq', C02.isInfix_cons,
        isInfix_skip _ _ _ _ (notin_append (ws_noq g3) (by simp))]
      rw [quoteE, List.nil_append] at ih
      rw [ih]
      simp only [C02.isPrefixOf_cc, beq_self_eq_true, Bool.true_and, Bool.or_false, Bool.or_eq_false_iff]
      constructor
      · cases hp : (b ++ ['"']).isPrefixOf (b' ++ '"' :: (l.2.2 ++ [';'] ++ segs LV.text ls d)) with
        | false => rfl
        | true => exact absurd (prefix_qf b b' _ hq hq' hp) hne
      · have := prefix_gap_semi l.2.2 b (segs LV.text ls d) g3 hd hh
        simpa [List.append_assoc] using this

/-! ### the matches -/

theorem matchExprAt_ne {c : Char} (r : Str) (hc : c ≠ '"') : matchExprAt (c :: r) = none := by
  rw [matchExprAt.eq_def]
  split
  · rename_i h; simp only [List.cons.injEq] at h; exact absurd h.1 hc
  · rfl

theorem findExprsFuel_nil' (fuel : Nat) : findExprsFuel fuel [] = [] := by cases fuel <;> rfl

theorem findExprsFuel_skip : ∀ (A s : Str) (fuel : Nat), '"' ∉ A →
    findExprsFuel (fuel + A.length) (A ++ s) = findExprsFuel fuel s
  | [], s, fuel, _ => by simp
  | a :: A, s, fuel, h => by
    have ha : a ≠ '"' := by rintro rfl; exact h (by simp)
    have e : fuel + (a :: A).length = (fuel + A.length) + 1 := by simp; omega
    rw [e, List.cons_append]
    simp only [findExprsFuel, matchExprAt_ne _ ha]
    exact findExprsFuel_skip A s fuel (fun hm => h (by simp [hm]))

theorem findExprsFuel_hit (b s : Str) (fuel : Nat) (hq : '"' ∉ b) (hd : '$' ∈ b) :
    findExprsFuel (fuel + 1) ('"' :: (b ++ '"' :: s)) = quoteE b :: findExprsFuel fuel s := by
  have hs : splitAtChar '"' (b ++ '"' :: s) = some (b, s) := C02.splitAtChar_skip '"' b s hq
  have hc : b.contains '$' = true := by simpa using hd
  simp only [findExprsFuel, matchExprAt, hs, hc, if_true, quoteE]
  rfl

theorem findExprs_segs : ∀ (d : LDoc) (lay : Lay), ldocOK d → LayOK lay d.length = true → ∀ (P : Str) (fuel : Nat),
    '"' ∉ P → (P ++ segs LV.text lay d).length ≤ fuel → findExprsFuel fuel (P ++ segs LV.text lay d) = exprTexts d
  | [], lay, _, _, P, fuel, hP, hf => by
    rw [segs_nil] at hf ⊢
    obtain ⟨f, rfl⟩ : ∃ f, fuel = f + P.length := ⟨fuel - P.length, by simp at hf; omega⟩
    rw [findExprsFuel_skip P _ f hP]
    simp [findExprsFuel_nil', exprTexts, exprBodiesL]
  | (k, v) :: d, lay, hd, hl, P, fuel, hP, hf => by
    obtain ⟨hk, hv⟩ := hd (k, v) (by simp)
    have hd' : ldocOK d := fun e he => hd e (by simp [he])
    obtain ⟨l, ls, rfl, hg, hls⟩ := layOK_succ hl
    obtain ⟨g1, g2, _, g3⟩ := gapsOKb_iff.mp hg
    rw [segs_cons] at hf ⊢
    rcases selE_cases v with hs | ⟨b', rfl, hs⟩
    · have := findExprs_segs d ls hd' hls (P ++ (l.1 ++ (k ++ (l.2.1 ++ (v.text ++ (l.2.2 ++ [';'])))))) fuel
        (notin_append hP (notin_append (ws_noq g1) (notin_append (key_noq hk) (notin_append (ws_noq g2)
          (notin_append (lvOK_text_noq hv hs) (notin_append (ws_noq g3) (by simp)))))))
        (by simpa [List.append_assoc] using hf)
      rw [exprTexts, exprBodiesL_cons_none d hs]
      simpa [List.append_assoc, exprTexts] using this
    · obtain ⟨h1, hq', _⟩ := exprOK_iff.mp hv
      have e : P ++ (l.1 ++ (k ++ (l.2.1 ++ ((LV.expr b').text ++ (l.2.2 ++ ';' :: segs LV.text ls d))))) =
          (P ++ (l.1 ++ (k ++ l.2.1))) ++ ('"' :: (b' ++ ('"' :: ((l.2.2 ++ [';']) ++ segs LV.text ls d)))) := by
        simp [LV.text]
      rw [e] at hf ⊢
      obtain ⟨f, rfl⟩ : ∃ f, fuel = (f + 1) + (P ++ (l.1 ++ (k ++ l.2.1))).length :=
        ⟨fuel - 1 - (P ++ (l.1 ++ (k ++ l.2.1))).length, by simp at hf ⊢; omega⟩
      rw [findExprsFuel_skip _ _ _ (notin_append hP (notin_append (ws_noq g1) (notin_append (key_noq hk) (ws_noq g2)))),
        findExprsFuel_hit _ _ _ hq' (wfExpr_dollar h1),
        findExprs_segs d ls hd' hls (l.2.2 ++ [';']) f (notin_append (ws_noq g3) (by simp)) (by simp at hf ⊢; omega)]
      simp [exprTexts, exprBodiesL, selE]

/-! ### the placeholder word `EXPRESSIONnnnnnn` -/

theorem kwExpr_chars : ∀ c ∈ kwExpr, isWs c = false ∧ Gen.delimiters.contains c = false ∧ c ≠ '$' ∧ c ≠ '"' ∧
    isQuote c = false := by decide

theorem digit_chars : ∀ c ∈ C02.asciiDigits, isWs c = false ∧ Gen.delimiters.contains c = false ∧ c ≠ '$' ∧ c ≠ '"' ∧
    isQuote c = false ∧ c ≠ 'S' ∧ c ≠ 'C' ∧ c ≠ 'I' := by decide

theorem phOf_chars (i : Nat) : ∀ c ∈ C05.phOf i, isWs c = false ∧ Gen.delimiters.contains c = false ∧ c ≠ '$' ∧
    c ≠ '"' ∧ isQuote c = false := by
  intro c hc
  simp only [C05.phOf, List.mem_append] at hc
  rcases hc with hc | hc
  · exact kwExpr_chars c hc
  · have := digit_chars c (C02.padSix_ascii i c hc)
    exact ⟨this.1, this.2.1, this.2.2.1, this.2.2.2.1, this.2.2.2.2.1⟩

theorem phOf_shape (i : Nat) :
    C05.phOf i = 'E' :: 'X' :: (['P', 'R', 'E', 'S', 'S', 'I', 'O', 'N'] ++ padSix i) := rfl

theorem phOf_word (i : Nat) : isWordTok (C05.phOf i) = true := by
  have h := phOf_chars i
  rw [phOf_shape] at h ⊢
  simp only [isWordTok, List.isEmpty_cons, Bool.not_false, Bool.true_and, Bool.and_true, List.all_eq_true,
    Bool.and_eq_true, Bool.not_eq_true']
  exact fun c hc => ⟨(h c hc).1, (h c hc).2.1⟩

theorem phOf_not_ph (i : Nat) : isPhTok (C05.phOf i) = false := by
  have hC : 'C' ∉ padSix i := fun h => (digit_chars _ (C02.padSix_ascii i _ h)).2.2.2.2.2.2.1 rfl
  have hI : 'I' ∉ padSix i := fun h => (digit_chars _ (C02.padSix_ascii i _ h)).2.2.2.2.2.2.2 rfl
  have e1 : "COMMENT".toList = ['C', 'O', 'M', 'M', 'E', 'N', 'T'] := rfl
  have e2 : "INCLUDE".toList = ['I', 'N', 'C', 'L', 'U', 'D', 'E'] := rfl
  simp only [isPhTok, isCommentTok, isIncludeTok, phOf_shape, e1, e2, List.cons_append, List.nil_append,
    C02.isInfix_cons, C02.isInfix_head_notin _ _ _ hC, C02.isInfix_head_notin _ _ _ hI]
  simp [C02.isPrefixOf_cc]

theorem phOf_noLit (i : Nat) : isInfix kwLit (C05.phOf i) = false := by
  have hS : 'S' ∉ padSix i := fun h => (digit_chars _ (C02.padSix_ascii i _ h)).2.2.2.2.2.1 rfl
  have e3 : kwLit = ['S', 'T', 'R', 'I', 'N', 'G', 'L', 'I', 'T', 'E', 'R', 'A', 'L'] := rfl
  simp only [phOf_shape, e3, List.cons_append, List.nil_append, C02.isInfix_cons, C02.isInfix_head_notin _ _ _ hS]
  simp [C02.isPrefixOf_cc]

theorem phOf_wordOK (i : Nat) : wordOK (C05.phOf i) :=
  ⟨phOf_word i, phOf_not_ph i, fun c hc => ⟨(phOf_chars i c hc).2.2.2.1, (phOf_chars i c hc).2.2.1⟩⟩

/-! ### the loop -/

theorem filter_quoteE {b : Str} (hq : '"' ∉ b) : (quoteE b).filter (· != '"') = b := by
  have : b.filter (· != '"') = b := by
    apply List.filter_eq_self.mpr
    intro c hc
    simp only [bne_iff_ne, ne_eq]
    rintro rfl; exact hq hc
  simp [quoteE, List.filter_cons, List.filter_append, this]

theorem labE_none {sel : LV → Option Str} {v : LV} (st : LexSt) (h : sel v = none) : labE sel st v = (st, v) := by
  simp [labE, h]

theorem labE_some {sel : LV → Option Str} {v : LV} {t : Str} (st : LexSt) (h : sel v = some t) :
    labE sel st v = ({ st.fresh.2 with exprs := st.fresh.2.exprs.set st.fresh.1 ⟨t, C05.phOf st.fresh.1⟩ },
      .done (C05.phOf st.fresh.1) (.str (C05.phOf st.fresh.1))) := by
  simp [labE, h]

theorem foldE_segs : ∀ (d : LDoc) (lay : Lay), ldocOK d → LayOK lay d.length = true → (exprBodiesL d).Nodup →
    ∀ (P : Str) (st : LexSt), '"' ∉ P →
    foldE (exprTexts d) st (P ++ segs LV.text lay d) =
      ((mapSt (labE selE) st d).1, P ++ segs LV.text lay (mapSt (labE selE) st d).2)
  | [], lay, _, _, _, P, st, _ => by simp [segs_nil, mapSt_nil, exprTexts, exprBodiesL, foldE_nil]
  | (k, v) :: d, lay, hd, hl, hn, P, st, hP => by
    obtain ⟨hk, hv⟩ := hd (k, v) (by simp)
    have hd' : ldocOK d := fun e he => hd e (by simp [he])
    obtain ⟨l, ls, rfl, hg, hls⟩ := layOK_succ hl
    obtain ⟨g1, g2, _, g3⟩ := gapsOKb_iff.mp hg
    rcases selE_cases v with hs | ⟨b, rfl, hs⟩
    · rw [exprBodiesL_cons_none d hs] at hn
      have := foldE_segs d ls hd' hls hn (P ++ (l.1 ++ (k ++ (l.2.1 ++ (v.text ++ (l.2.2 ++ [';'])))))) st
        (notin_append hP (notin_append (ws_noq g1) (notin_append (key_noq hk) (notin_append (ws_noq g2)
          (notin_append (lvOK_text_noq hv hs) (notin_append (ws_noq g3) (by simp)))))))
      rw [mapSt_cons, labE_none st hs, exprTexts, exprBodiesL_cons_none d hs, segs_cons, segs_cons]
      simpa [List.append_assoc, exprTexts] using this
    · rw [exprBodiesL_cons_some d hs] at hn
      obtain ⟨hnb, hn⟩ := List.nodup_cons.mp hn
      obtain ⟨h1, hq, _, _, _, hh⟩ := exprOK_iff.mp hv
      have hdl := wfExpr_dollar h1
      have hni : isInfix (quoteE b) ((l.2.2 ++ [';']) ++ segs LV.text ls d) = false :=
        noInfix_segs b hq hdl hh d ls hd' hls hnb (l.2.2 ++ [';']) (notin_append (ws_noq g3) (by simp))
      have hA : '"' ∉ P ++ (l.1 ++ (k ++ l.2.1)) :=
        notin_append hP (notin_append (ws_noq g1) (notin_append (key_noq hk) (ws_noq g2)))
      have e : P ++ segs LV.text (l :: ls) ((k, LV.expr b) :: d) =
          (P ++ (l.1 ++ (k ++ l.2.1))) ++ quoteE b ++ ((l.2.2 ++ [';']) ++ segs LV.text ls d) := by
        simp [segs_cons, LV.text, quoteE]
      have hrep : replaceAll (quoteE b) (kwExpr ++ padSix st.fresh.1)
          ((P ++ (l.1 ++ (k ++ l.2.1))) ++ quoteE b ++ ((l.2.2 ++ [';']) ++ segs LV.text ls d)) =
          (P ++ (l.1 ++ (k ++ l.2.1))) ++ (kwExpr ++ padSix st.fresh.1) ++ ((l.2.2 ++ [';']) ++ segs LV.text ls d) :=
        replaceAll_once (b ++ ['"']) (kwExpr ++ padSix st.fresh.1) _ _ hA hni
      have ih := foldE_segs d ls hd' hls hn ((P ++ (l.1 ++ (k ++ l.2.1))) ++ C05.phOf st.fresh.1 ++ (l.2.2 ++ [';']))
        { st.fresh.2 with exprs := st.fresh.2.exprs.set st.fresh.1 ⟨b, C05.phOf st.fresh.1⟩ }
        (notin_append (notin_append hA (fun hm => (phOf_chars _ _ hm).2.2.2.1 rfl)) (notin_append (ws_noq g3) (by simp)))
      rw [exprTexts, exprBodiesL_cons_some d hs, List.map_cons, foldE_cons, filter_quoteE hq, e]
      rw [hrep, mapSt_cons, labE_some st hs, segs_cons]
      rw [show kwExpr ++ padSix st.fresh.1 = C05.phOf st.fresh.1 from rfl]
      simp only [List.append_assoc] at ih ⊢
      rw [exprTexts] at ih
      rw [ih]
      simp [LV.text]

theorem mapSt_length {α β : Type} (f : LexSt → α → LexSt × β) : ∀ (st : LexSt) (d : List (Str × α)),
    (mapSt f st d).2.length = d.length
  | _, [] => rfl
  | st, (k, v) :: d => by rw [mapSt_cons]; simp [mapSt_length f _ d]

/-- the matches of the expression pattern in the text after the literal stage -/
theorem findExprs_all {d : LDoc} {lay : Lay} (hd : ldocOK d) (hl : LayOK lay d.length = true) :
    findExprsFuel ((segs LV.text lay d).length + 1) (segs LV.text lay d) = exprTexts d := by
  have := findExprs_segs d lay hd hl [] ((segs LV.text lay d).length + 1) (by simp) (by simp)
  simpa using this

/-- the loop over the matches replaces every double-quoted expression by its placeholder word -/
theorem foldE_all {d : LDoc} {lay : Lay} (hd : ldocOK d) (hl : LayOK lay d.length = true) (hn : (exprBodiesL d).Nodup)
    (st : LexSt) :
    foldE (exprTexts d) st (segs LV.text lay d) =
      ((mapSt (labE selE) st d).1, segs LV.text lay (mapSt (labE selE) st d).2) := by
  have := foldE_segs d lay hd hl hn [] st (by simp)
  simpa using this
/-! ## 6. pass 3: bare references -/

def countR (d : LDoc) : Nat := (d.filter fun e => (selR e.2).isSome).length

theorem lexRefs_zero (st : LexSt) (s : Str) : lexRefsFuel 0 st s = (st, s) := rfl

theorem lexRefs_none (fuel : Nat) (st : LexSt) (s : Str) (h : findRef s = none) : lexRefsFuel fuel st s = (st, s) := by
  cases fuel with
  | zero => rfl
  | succ f => simp [lexRefsFuel, h]

theorem lexRefs_some (f : Nat) (st : LexSt) (s b x a : Str) (h : findRef s = some (b, x, a)) :
    lexRefsFuel (f + 1) st s =
      lexRefsFuel f { st.fresh.2 with exprs := st.fresh.2.exprs.set st.fresh.1 ⟨x, C05.phOf st.fresh.1⟩ }
        (b ++ C05.phOf st.fresh.1 ++ a) := by
  simp only [lexRefsFuel, h]
  rfl

theorem selR_cases {v : LV} (h : selE v = none) : (∃ w x, v = .done w x ∧ selR v = none) ∨ (∃ n, v = .ref n ∧ selR v = some ('$' :: n)) := by
  cases v with
  | done w x => exact Or.inl ⟨w, x, rfl, rfl⟩
  | ref n => exact Or.inr ⟨n, rfl, rfl⟩
  | expr b => simp [selE] at h

theorem key_nod {k : Str} (hk : keyOK k = true) : '$' ∉ k := fun hm =>
  (word_chars (keyOK_iff.mp hk).2.1 _ hm).2.2.2.1 rfl

theorem countR_cons_none {e : Str × LV} (d : LDoc) (h : selR e.2 = none) : countR (e :: d) = countR d := by
  simp [countR, List.filter_cons, h]

theorem countR_cons_some {e : Str × LV} {t : Str} (d : LDoc) (h : selR e.2 = some t) : countR (e :: d) = countR d + 1 := by
  simp [countR, List.filter_cons, h]

theorem ws_not_refChar {c : Char} (h : isWs c = true) : isRefChar c = false := by
  have hw : isWordChar c = false := by
    cases hw : isWordChar c with
    | false => rfl
    | true => rw [C05.word_not_ws c hw] at h; cases h
  have h1 : (c == '[') = false := by
    simp only [beq_eq_false_iff_ne, ne_eq]; rintro rfl; revert h; decide
  have h2 : (c == ']') = false := by
    simp only [beq_eq_false_iff_ne, ne_eq]; rintro rfl; revert h; decide
  simp [isRefChar, hw, h1, h2]

/-- white space or `;` ends a reference -/
theorem refStop_gap {g : Str} (hg : g.all isWs = true) (s : Str) : C05.refStop (g ++ ';' :: s) = true := by
  cases g with
  | nil => simp [C05.refStop, isRefChar, wc_semi]
  | cons c g =>
    simp only [List.all_cons, Bool.and_eq_true] at hg
    simp [C05.refStop, ws_not_refChar hg.1]

theorem lexRefs_segs : ∀ (d : LDoc) (lay : Lay), ldocOK d → LayOK lay d.length = true → (∀ e ∈ d, selE e.2 = none) →
    ∀ (P : Str) (st : LexSt) (fuel : Nat), '$' ∉ P → countR d < fuel →
    lexRefsFuel fuel st (P ++ segs LV.text lay d) =
      ((mapSt (labE selR) st d).1, P ++ segs LV.text lay (mapSt (labE selR) st d).2)
  | [], lay, _, _, _, P, st, fuel, hP, _ => by
    simpa [mapSt_nil, segs_nil] using lexRefs_none fuel st P (C05.findRef_none P hP)
  | (k, v) :: d, lay, hd, hl, hE, P, st, fuel, hP, hf => by
    obtain ⟨hk, hv⟩ := hd (k, v) (by simp)
    have hd' : ldocOK d := fun e he => hd e (by simp [he])
    have hE' : ∀ e ∈ d, selE e.2 = none := fun e he => hE e (by simp [he])
    obtain ⟨l, ls, rfl, hg, hls⟩ := layOK_succ hl
    obtain ⟨g1, g2, _, g3⟩ := gapsOKb_iff.mp hg
    rcases selR_cases (hE (k, v) (by simp)) with ⟨w, x, rfl, hs⟩ | ⟨n, rfl, hs⟩
    · rw [countR_cons_none d hs] at hf
      have := lexRefs_segs d ls hd' hls hE' (P ++ (l.1 ++ (k ++ (l.2.1 ++ (w ++ (l.2.2 ++ [';'])))))) st fuel
        (notin_append hP (notin_append (ws_nod g1) (notin_append (key_nod hk) (notin_append (ws_nod g2)
          (notin_append (fun hm => (hv.2.2 _ hm).2 rfl) (notin_append (ws_nod g3) (by simp))))))) hf
      rw [mapSt_cons, labE_none st hs, segs_cons, segs_cons]
      simpa [List.append_assoc, LV.text] using this
    · rw [countR_cons_some d hs] at hf
      obtain ⟨f, rfl⟩ : ∃ f, fuel = f + 1 := ⟨fuel - 1, by omega⟩
      have hA : '$' ∉ P ++ (l.1 ++ (k ++ l.2.1)) :=
        notin_append hP (notin_append (ws_nod g1) (notin_append (key_nod hk) (ws_nod g2)))
      have e : P ++ segs LV.text (l :: ls) ((k, LV.ref n) :: d) =
          (P ++ (l.1 ++ (k ++ l.2.1))) ++ ('$' :: n ++ (l.2.2 ++ ';' :: segs LV.text ls d)) := by
        simp [segs_cons, LV.text]
      have hfind : findRef (P ++ segs LV.text (l :: ls) ((k, LV.ref n) :: d)) =
          some (P ++ (l.1 ++ (k ++ l.2.1)), '$' :: n, l.2.2 ++ ';' :: segs LV.text ls d) := by
        rw [e, C05.findRef_skip _ _ hA, C05.findRef_hit n _ hv.1 hv.2 (refStop_gap g3 _)]
        simp
      rw [lexRefs_some f st _ _ _ _ hfind]
      have ih := lexRefs_segs d ls hd' hls hE' ((P ++ (l.1 ++ (k ++ l.2.1))) ++ C05.phOf st.fresh.1 ++ (l.2.2 ++ [';']))
        { st.fresh.2 with exprs := st.fresh.2.exprs.set st.fresh.1 ⟨'$' :: n, C05.phOf st.fresh.1⟩ } f
        (notin_append (notin_append hA (fun hm => (phOf_chars _ _ hm).2.2.1 rfl)) (notin_append (ws_nod g3) (by simp)))
        (by omega)
      rw [mapSt_cons, labE_some st hs, segs_cons]
      simp only [List.append_assoc] at ih ⊢
      rw [show (l.2.2 ++ ';' :: segs LV.text ls d) = l.2.2 ++ ([';'] ++ segs LV.text ls d) from rfl, ih]
      simp [LV.text]

theorem segs_length {α : Type} (txt : α → Str) : ∀ (d : List (Str × α)) (lay : Lay), lay.length = d.length →
    d.length ≤ (segs txt lay d).length
  | [], _, _ => Nat.zero_le _
  | e :: d, [], h => by simp at h
  | e :: d, l :: ls, h => by
    have := segs_length txt d ls (by simpa using h)
    rw [segs_cons]; simp; omega

theorem countR_le (d : LDoc) : countR d ≤ d.length := List.length_filter_le _ _

/-- the reference loop replaces every bare reference by its placeholder word -/
theorem lexRefs_all {d : LDoc} {lay : Lay} (hd : ldocOK d) (hl : LayOK lay d.length = true)
    (hE : ∀ e ∈ d, selE e.2 = none) (st : LexSt) :
    lexRefsFuel ((segs LV.text lay d).length + 1) st (segs LV.text lay d) =
      ((mapSt (labE selR) st d).1, segs LV.text lay (mapSt (labE selR) st d).2) := by
  have hlen : lay.length = d.length := by
    simp only [LayOK, Bool.and_eq_true, decide_eq_true_eq] at hl; exact hl.1
  have h1 := countR_le d
  have h2 := segs_length LV.text d lay hlen
  have := lexRefs_segs d lay hd hl hE [] st ((segs LV.text lay d).length + 1) (by simp) (by omega)
  simpa using this

/-! ### what the passes keep -/

theorem mapSt_mem {α β : Type} (f : LexSt → α → LexSt × β) : ∀ (st : LexSt) (d : List (Str × α)) (e : Str × β),
    e ∈ (mapSt f st d).2 → ∃ st' v, (e.1, v) ∈ d ∧ e.2 = (f st' v).2
  | _, [], e, h => by simp [mapSt_nil] at h
  | st, (k, v) :: d, e, h => by
    rw [mapSt_cons] at h
    rcases List.mem_cons.mp h with rfl | h
    · exact ⟨st, v, by simp, rfl⟩
    · obtain ⟨st', v', h1, h2⟩ := mapSt_mem f _ d e h
      exact ⟨st', v', by simp [h1], h2⟩

theorem mapSt_keys {α β : Type} (f : LexSt → α → LexSt × β) : ∀ (st : LexSt) (d : List (Str × α)),
    (mapSt f st d).2.map (·.1) = d.map (·.1)
  | _, [] => rfl
  | st, (k, v) :: d => by rw [mapSt_cons]; simp [mapSt_keys f _ d]

theorem srcWord_wordOK {w : Str} (h : isSrcWord w = true) : wordOK w := by
  obtain ⟨h1, h2, h3⟩ := C02.srcWord_facts h
  refine ⟨h1, h2, fun c hc => ⟨?_, (h3 c hc).2.1⟩⟩
  rintro rfl
  have := (h3 _ hc).1
  simp [isQuote] at this

theorem litPh_wordOK (i : Nat) : wordOK (litPh i) := by
  refine ⟨C02.litPh_word i, C02.litPh_not_ph i, fun c hc => ⟨?_, (C02.litPh_chars i c hc).2.2⟩⟩
  rintro rfl
  have := C02.litPh_qf i _ hc
  simp [isQuote] at this

theorem lab1_ok {v : DV} (st : LexSt) (h : dvOK v = true) : lvOK (lab1 st v).2 := by
  cases v with
  | lit l =>
    cases l with
    | bare w => exact srcWord_wordOK h
    | quoted q b => exact litPh_wordOK _
  | ref n =>
    simp only [dvOK, Bool.and_eq_true, Bool.not_eq_true', List.isEmpty_eq_false_iff] at h
    exact h
  | expr b => exact h

theorem labE_ok {sel : LV → Option Str} {v : LV} (st : LexSt) (h : lvOK v) : lvOK (labE sel st v).2 := by
  cases hs : sel v with
  | none => rw [labE_none st hs]; exact h
  | some t => rw [labE_some st hs]; exact phOf_wordOK _

theorem pass1_ok {doc : Doc} (h : DocWF doc = true) (st : LexSt) : ldocOK (mapSt lab1 st doc).2 := by
  intro e he
  obtain ⟨st', v, hm, hv⟩ := mapSt_mem lab1 st doc e he
  obtain ⟨hk, hv'⟩ := (docWF_iff.mp h).1 _ hm
  exact ⟨hk, by rw [hv]; exact lab1_ok st' hv'⟩

theorem passE_ok {sel : LV → Option Str} {d : LDoc} (h : ldocOK d) (st : LexSt) : ldocOK (mapSt (labE sel) st d).2 := by
  intro e he
  obtain ⟨st', v, hm, hv⟩ := mapSt_mem (labE sel) st d e he
  obtain ⟨hk, hv'⟩ := h _ hm
  exact ⟨hk, by rw [hv]; exact labE_ok st' hv'⟩

theorem pass1_bodies : ∀ (doc : Doc) (st : LexSt), exprBodiesL (mapSt lab1 st doc).2 = exprBodies doc
  | [], _ => rfl
  | (k, v) :: d, st => by
    rw [mapSt_cons]
    have ih := pass1_bodies d (lab1 st v).1
    cases v with
    | lit l => cases l <;> simpa [exprBodiesL, exprBodies, lab1, selE] using ih
    | ref n => simpa [exprBodiesL, exprBodies, lab1, selE] using ih
    | expr b => simpa [exprBodiesL, exprBodies, lab1, selE] using ih

theorem passE_noexpr {d : LDoc} (st : LexSt) : ∀ e ∈ (mapSt (labE selE) st d).2, selE e.2 = none := by
  intro e he
  obtain ⟨st', v, _, hv⟩ := mapSt_mem (labE selE) st d e he
  rw [hv]
  cases hs : selE v with
  | none => rw [labE_none st' hs]; exact hs
  | some t => rw [labE_some st' hs]; rfl

/-- **the expression stage** on the text the literal stage leaves, in any admissible layout: first every double-quoted
    expression, then every bare reference, each in text order, becomes `EXPRESSIONnnnnnn` with the next id of the counter;
    the layout stays -/
theorem lexExpressions_segs {d : LDoc} {lay : Lay} (hd : ldocOK d) (hl : LayOK lay d.length = true)
    (hn : (exprBodiesL d).Nodup) (st : LexSt) :
    lexExpressions st (segs LV.text lay d) =
      ((mapSt (labE selR) (mapSt (labE selE) st d).1 (mapSt (labE selE) st d).2).1,
        segs LV.text lay (mapSt (labE selR) (mapSt (labE selE) st d).1 (mapSt (labE selE) st d).2).2) := by
  rw [lexExpressions_eq, findExprs_all hd hl, foldE_all hd hl hn]
  exact lexRefs_all (passE_ok hd st) (by rw [mapSt_length]; exact hl) (passE_noexpr st) _
/-! ## 7. tokens, scanner, literal re-insertion -/

theorem phOf_qf (i : Nat) : C04.QF (C05.phOf i) := fun c hc => (phOf_chars i c hc).2.2.2.2

theorem not_anyWord_E (r : Str) : ¬ C04.IsAnyWord ('E' :: r) := by
  obtain ⟨r', h⟩ := C02.strip_cons (c := 'E') (by decide) r
  have hl : asciiLower 'E' = 'e' := by decide
  simp only [C04.IsAnyWord, C04.IsWord, h, List.map_cons, hl]
  rintro (h | h | h | h | h | h) <;> simp at h

theorem phOf_cons (i : Nat) : C05.phOf i = 'E' :: ("XPRESSION".toList ++ padSix i) := rfl

theorem parseValue_phOf (i : Nat) : parseValue (C05.phOf i) = .str (C05.phOf i) := by
  have hq := C04.removeQuotes_of_qf (phOf_qf i)
  have hne : C05.phOf i ≠ [] := by rw [phOf_cons]; simp
  have hs : ¬ C04.IsSpecial (C05.phOf i) := by
    rw [phOf_cons]; simp [C04.IsSpecial]
  have hint : ¬ C04.IsIntLit (C05.phOf i) := by
    rw [← C04.isIntLit_iff, phOf_cons]
    have : isDigit 'E' = false := by decide
    simp [isIntLit, dropSign, spanDigits, this]
  have hfl : ¬ C04.IsFloatLit (C05.phOf i) := by
    rw [← C04.isFloatExpLit_iff, phOf_cons]
    have : isDigit 'E' = false := by decide
    simp [isFloatExpLit, dropSign, dropMantissa, spanDigits, this]
  have hw : ¬ C04.IsAnyWord (C05.phOf i) := by rw [phOf_cons]; exact not_anyWord_E _
  rw [C04.parseValue_word ⟨⟨by rw [hq]; exact hne, hs⟩, hint, hfl⟩, C04.boolNoneWord_other hw, hq]

def allDone (d : LDoc) : Prop := ∀ e ∈ d, ∃ w x, e.2 = .done w x

/-- the token tree of a fully labelled document -/
def treeOf (d : LDoc) : Entries := d.map fun e => (.str e.1, .leaf (.str e.2.text))

theorem key_facts {k : Str} (hk : keyOK k = true) :
    isWordTok k = true ∧ isPhTok k = false ∧ keyOfScalar (parseKey k) = some (.str k) := by
  obtain ⟨h1, _, h3, _⟩ := keyOK_iff.mp hk
  obtain ⟨h4, h5, _⟩ := C02.srcWord_facts h1
  exact ⟨h4, h5, by rw [h3]; rfl⟩

theorem toks_tree : ∀ (d : LDoc), ldocOK d → toksEs (treeOf d) = d.flatMap fun e => [e.1, e.2.text, [';']]
  | [], _ => rfl
  | (k, v) :: d, hd => by
    obtain ⟨hk, _⟩ := hd (k, v) (by simp)
    have ih := toks_tree d (fun e he => hd e (by simp [he]))
    rw [treeOf] at ih ⊢
    simp only [List.map_cons, toksEs, (key_facts hk).2.1, Bool.false_eq_true, if_false, ih, List.flatMap_cons]

theorem gapsOK_step (t u : Str) (ts : List Str) (g g' : Str) (gs : List Str) :
    GapsOK (t :: u :: ts) (g :: g' :: gs) =
      (g.all isWs && (isDelimTok t || isDelimTok u || !g'.isEmpty) && GapsOK (u :: ts) (g' :: gs)) := rfl

theorem nodup_map_inj {α β : Type} {f : α → β} (hf : ∀ a b, f a = f b → a = b) {l : List α} (h : l.Nodup) :
    (l.map f).Nodup := by
  rw [List.Nodup, List.pairwise_map]
  exact List.Pairwise.imp (fun hab e => hab (hf _ _ e)) h

/-- the gaps of a layout, one per token -/
def gapsOfLay (lay : Lay) : List Str := lay.flatMap fun l => [l.1, l.2.1, l.2.2]

theorem spread_segs : ∀ (d : LDoc) (lay : Lay), ldocOK d → lay.length = d.length →
    spread (toksEs (treeOf d)) (gapsOfLay lay) [] = segs LV.text lay d
  | [], lay, _, _ => by rw [segs_nil]; rfl
  | (k, v) :: d, [], _, h => by simp at h
  | (k, v) :: d, l :: ls, hd, h => by
    have ih := spread_segs d ls (fun e he => hd e (by simp [he])) (by simpa using h)
    rw [toks_tree _ hd]
    rw [toks_tree _ (fun e he => hd e (by simp [he]))] at ih
    simp only [List.flatMap_cons, List.cons_append, List.nil_append, gapsOfLay, spread, segs_cons]
    rw [gapsOfLay] at ih
    rw [ih]
    simp

theorem gapsOK_lay : ∀ (d : LDoc) (lay : Lay) (k w : Str) (l : Gaps), gapsOKb l = true → ldocOK d →
    LayOK lay d.length = true →
    GapsOK (k :: w :: [';'] :: toksEs (treeOf d)) (l.1 :: l.2.1 :: l.2.2 :: gapsOfLay lay) = true
  | [], lay, k, w, l, hg, _, hl => by
    obtain ⟨g1, g2, g2ne, g3⟩ := gapsOKb_iff.mp hg
    rw [layOK_nil hl]
    have hs : isDelimTok [';'] = true := by decide
    have hne : l.2.1.isEmpty = false := by simpa using g2ne
    simp [treeOf, toksEs, gapsOfLay, gapsOK_step, GapsOK, g1, g2, g3, hs, hne]
  | (k', v') :: d, lay, k, w, l, hg, hd, hl => by
    obtain ⟨g1, g2, g2ne, g3⟩ := gapsOKb_iff.mp hg
    obtain ⟨l', ls, rfl, hg', hls⟩ := layOK_succ hl
    have ih := gapsOK_lay d ls k' v'.text l' hg' (fun e he => hd e (by simp [he])) hls
    rw [toks_tree _ hd, List.flatMap_cons]
    rw [toks_tree _ (fun e he => hd e (by simp [he]))] at ih
    have hs : isDelimTok [';'] = true := by decide
    have hne : l.2.1.isEmpty = false := by simpa using g2ne
    simp only [List.cons_append, List.nil_append, gapsOfLay, List.flatMap_cons] at ih ⊢
    rw [gapsOK_step, gapsOK_step, gapsOK_step, ih]
    simp [g1, g2, g3, hs, hne]

theorem gapsOK_all : ∀ (d : LDoc) (lay : Lay), ldocOK d → LayOK lay d.length = true →
    GapsOK (toksEs (treeOf d)) (gapsOfLay lay) = true
  | [], _, _, _ => rfl
  | (k, v) :: d, lay, hd, hl => by
    obtain ⟨l, ls, rfl, hg, hls⟩ := layOK_succ hl
    have := gapsOK_lay d ls k v.text l hg (fun e he => hd e (by simp [he])) hls
    rw [toks_tree _ hd, List.flatMap_cons]
    rw [toks_tree _ (fun e he => hd e (by simp [he]))] at this
    simpa [gapsOfLay] using this

theorem tokWF_tree : ∀ (d : LDoc), ldocOK d → allDone d → TokWFEs (treeOf d) = true
  | [], _, _ => rfl
  | (k, v) :: d, hd, ha => by
    obtain ⟨hk, hv⟩ := hd (k, v) (by simp)
    obtain ⟨w, x, hw⟩ := ha (k, v) (by simp)
    simp only at hw
    subst hw
    have ih := tokWF_tree d (fun e he => hd e (by simp [he])) (fun e he => ha e (by simp [he]))
    obtain ⟨h1, h2, h3⟩ := key_facts hk
    have ht : (LV.done w x).text = w := rfl
    have hv1 : isWordTok w = true := hv.1
    have hv2 : isPhTok w = false := hv.2.1
    rw [treeOf] at ih ⊢
    simp only [List.map_cons, TokWFEs, h2, Bool.false_eq_true, if_false, h1, h3, Option.isSome_some, ht, hv1, hv2,
      Bool.not_false, Bool.and_self, ih]

/-- entries assigned one after the other (`d[key] = value`) -/
def denAcc (f : LV → Val) : LDoc → Entries → Entries
  | [], acc => acc
  | e :: d, acc => denAcc f d (setKey (.str e.1) (f e.2) acc)

theorem denEs_tree : ∀ (d : LDoc), ldocOK d → ∀ (acc : Entries),
    denEs (treeOf d) acc = denAcc (fun v => .leaf (parseValue v.text)) d acc
  | [], _, _ => rfl
  | (k, v) :: d, hd, acc => by
    obtain ⟨hk, _⟩ := hd (k, v) (by simp)
    obtain ⟨_, h2, h3⟩ := key_facts hk
    have ih := denEs_tree d (fun e he => hd e (by simp [he])) (setKey (.str k) (.leaf (parseValue v.text)) acc)
    rw [treeOf] at ih ⊢
    simp only [List.map_cons, denEs, h2, Bool.false_eq_true, if_false, h3, denAcc, ih]

theorem denAcc_nodup (f : LV → Val) : ∀ (d : LDoc) (acc : Entries),
    (keys acc ++ d.map fun e => Key.str e.1).Nodup → denAcc f d acc = acc ++ d.map fun e => (.str e.1, f e.2)
  | [], acc, _ => by simp [denAcc]
  | e :: d, acc, h => by
    have hi : Key.str e.1 ∉ keys acc := by
      intro hm
      exact (List.nodup_append.mp h).2.2 _ hm _ (by simp) rfl
    rw [denAcc, C07.setKey_of_not_mem _ _ _ hi, denAcc_nodup f d _ (by simpa [keys] using h)]
    simp

/-- what a labelled word means, through the literal table -/
def DoneRel (T : Tbl Str) : LV → Prop
  | .done w x => C02.RV T 1 (.leaf (parseValue w)) (.leaf x)
  | _ => True

theorem REs_denAcc (T : Tbl Str) : ∀ (d : LDoc), allDone d → (∀ e ∈ d, DoneRel T e.2) → ∀ (acc acc' : Entries),
    C02.REs T 1 acc acc' →
    C02.REs T 1 (denAcc (fun v => .leaf (parseValue v.text)) d acc) (denAcc (fun v => .leaf v.val) d acc')
  | [], _, _, acc, acc', h => h
  | (k, v) :: d, ha, hr, acc, acc', h => by
    obtain ⟨w, x, hw⟩ := ha (k, v) (by simp)
    simp only at hw
    subst hw
    have hrel := hr (k, .done w x) (by simp)
    exact REs_denAcc T d (fun e he => ha e (by simp [he])) (fun e he => hr e (by simp [he])) _ _
      (C02.REs_setKey (.str k) hrel acc acc' h)

theorem ldata_eq {d : LDoc} (hn : (d.map (·.1)).Nodup) : denAcc (fun v => .leaf v.val) d [] = ldata d := by
  rw [denAcc_nodup _ d [] (by
    simp only [keys, List.map_nil, List.nil_append]
    have : (d.map fun e => Key.str e.1) = (d.map (·.1)).map Key.str := by simp
    rw [this]
    exact nodup_map_inj (fun a b h => by cases h; rfl) hn)]
  simp [ldata]

theorem doneRel_ph (T : Tbl Str) (i : Nat) : DoneRel T (.done (C05.phOf i) (.str (C05.phOf i))) := by
  simp only [DoneRel, C02.RV, parseValue_phOf]
  exact Or.inl ⟨phOf_noLit i, trivial⟩

theorem labE_doneRel {T : Tbl Str} {sel : LV → Option Str} {v : LV} (st : LexSt) (h : DoneRel T v) :
    DoneRel T (labE sel st v).2 := by
  cases hs : sel v with
  | none => rw [labE_none st hs]; exact h
  | some t => rw [labE_some st hs]; exact doneRel_ph T _

/-! ## 8. the ids and tables of the passes -/

def cnt {α : Type} (p : α → Bool) (d : List (Str × α)) : Nat := (d.filter fun e => p e.2).length

theorem cnt_cons {α : Type} (p : α → Bool) (e : Str × α) (d : List (Str × α)) :
    cnt p (e :: d) = (if p e.2 then 1 else 0) + cnt p d := by
  simp only [cnt, List.filter_cons]
  split <;> simp <;> omega

theorem mapSt_cnt {α β : Type} (f : LexSt → α → LexSt × β) (p : α → Bool) (q : β → Bool)
    (h : ∀ st v, q (f st v).2 = p v) : ∀ (st : LexSt) (d : List (Str × α)), cnt q (mapSt f st d).2 = cnt p d
  | _, [] => rfl
  | st, (k, v) :: d => by rw [mapSt_cons, cnt_cons, cnt_cons, h, mapSt_cnt f p q h]

def isQuotedDV : DV → Bool
  | .lit (.quoted _ _) => true
  | _ => false

def isExprDV : DV → Bool
  | .expr _ => true
  | _ => false

def isRefDV : DV → Bool
  | .ref _ => true
  | _ => false

/-- number of ids a document draws: one per quoted string, expression and reference -/
def countIds (doc : Doc) : Nat := cnt isQuotedDV doc + cnt isExprDV doc + cnt isRefDV doc

theorem fresh_fst (st : LexSt) : st.fresh.1 = (Counter.next Gen.counterLimit st.counter).1 := rfl
theorem fresh_counter (st : LexSt) : st.fresh.2.counter = (Counter.next Gen.counterLimit st.counter).2 := rfl

/-- the `(id, body)` pairs pass 1 records -/
def drawn1 : LexSt → Doc → List (Nat × Str)
  | _, [] => []
  | st, (_, v) :: d =>
    (match v with | .lit (.quoted _ b) => [(st.fresh.1, b)] | _ => []) ++ drawn1 (lab1 st v).1 d

theorem lab1_other {st : LexSt} {v : DV} (h : isQuotedDV v = false) : (lab1 st v).1 = st := by
  cases v with
  | lit l => cases l with
    | bare w => rfl
    | quoted q b => simp [isQuotedDV] at h
  | ref n => rfl
  | expr b => rfl

theorem pass1_state : ∀ (doc : Doc) (st : LexSt),
    (mapSt lab1 st doc).1.lits = C02.setAll st.lits (drawn1 st doc) ∧
    (drawn1 st doc).map (·.1) = alloc Gen.counterLimit (cnt isQuotedDV doc) st.counter ∧
    (mapSt lab1 st doc).1.counter = C02.adv Gen.counterLimit (cnt isQuotedDV doc) st.counter ∧
    C02.Front.SameT (mapSt lab1 st doc).1 st
  | [], st => ⟨rfl, rfl, rfl, C02.Front.SameT.rfl' st⟩
  | (k, v) :: d, st => by
    obtain ⟨h1, h2, h3, h4⟩ := pass1_state d (lab1 st v).1
    rw [mapSt_cons, cnt_cons]
    cases hq : isQuotedDV v with
    | false =>
      have hst := lab1_other (st := st) hq
      have hd : drawn1 st ((k, v) :: d) = drawn1 (lab1 st v).1 d := by
        cases v with
        | lit l => cases l with
          | bare w => rfl
          | quoted q b => simp [isQuotedDV] at hq
        | ref n => rfl
        | expr b => rfl
      rw [hd]
      simp only [Bool.false_eq_true, if_false, Nat.zero_add]
      rw [hst] at h1 h2 h3 h4 ⊢
      exact ⟨h1, h2, h3, h4⟩
    | true =>
      obtain ⟨q, b, rfl⟩ : ∃ q b, v = .lit (.quoted q b) := by
        cases v with
        | lit l => cases l with
          | bare w => simp [isQuotedDV] at hq
          | quoted q b => exact ⟨q, b, rfl⟩
        | ref n => simp [isQuotedDV] at hq
        | expr b => simp [isQuotedDV] at hq
      simp only [if_true]
      rw [show 1 + cnt isQuotedDV d = cnt isQuotedDV d + 1 by omega]
      refine ⟨?_, ?_, ?_, ?_⟩
      · rw [h1]; rfl
      · simp only [drawn1, List.singleton_append, List.map_cons, h2, C13.alloc_succ]
        rfl
      · rw [h3]; rfl
      · exact C02.Front.SameT.trans h4 ⟨rfl, rfl, rfl, rfl⟩

theorem drawn1_clean : ∀ (doc : Doc) (st : LexSt), (∀ e ∈ doc, dvOK e.2 = true) →
    ∀ p ∈ drawn1 st doc, isInfix kwLit p.2 = false
  | [], _, _, p, hp => by simp [drawn1] at hp
  | (k, v) :: d, st, h, p, hp => by
    simp only [drawn1, List.mem_append] at hp
    rcases hp with hp | hp
    · cases v with
      | lit l => cases l with
        | bare w => simp at hp
        | quoted q b =>
          simp only [List.mem_singleton] at hp
          subst hp
          have := h (k, .lit (.quoted q b)) (by simp)
          exact C02.isSrcQuoted_clean this
      | ref n => simp at hp
      | expr b => simp at hp
    · exact drawn1_clean d _ (fun e he => h e (by simp [he])) p hp

theorem pass1_rel (T : Tbl Str) : ∀ (doc : Doc) (st : LexSt), (∀ e ∈ doc, dvOK e.2 = true) →
    (∀ p ∈ drawn1 st doc, p ∈ T) → ∀ e ∈ (mapSt lab1 st doc).2, DoneRel T e.2
  | [], _, _, _, e, he => by simp [mapSt_nil] at he
  | (k, v) :: d, st, h, hT, e, he => by
    rw [mapSt_cons] at he
    simp only [drawn1, List.mem_append] at hT
    rcases List.mem_cons.mp he with rfl | he
    · cases v with
      | lit l =>
        have hv := h (k, .lit l) (by simp)
        cases l with
        | bare w =>
          simp only [lab1, DoneRel, C02.RV]
          exact Or.inl ⟨C02.clean_parseValue_word hv, trivial⟩
        | quoted q b =>
          simp only [lab1, DoneRel, C02.RV, C02.parseValue_litPh]
          exact Or.inr ⟨st.fresh.1, b, hT _ (Or.inl (by simp)), rfl, rfl, by decide⟩
      | ref n => trivial
      | expr b => trivial
    · exact pass1_rel T d _ (fun e he => h e (by simp [he])) (fun p hp => hT p (Or.inr hp)) e he

/-! ### passes 2 and 3 -/

/-- the `(id, key, text)` triples an expression pass records -/
def drawnE (sel : LV → Option Str) : LexSt → LDoc → List (Nat × Str × Str)
  | _, [] => []
  | st, (k, v) :: d =>
    (match sel v with | some t => [(st.fresh.1, k, t)] | none => []) ++ drawnE sel (labE sel st v).1 d

def toTbl (D : List (Nat × Str × Str)) : Tbl ExprEntry := D.map fun e => (e.1, ⟨e.2.2, C05.phOf e.1⟩)

def setAllE (t l : Tbl ExprEntry) : Tbl ExprEntry := l.foldl (fun t p => t.set p.1 p.2) t

theorem tbl_set_fresh {α : Type} {i : Nat} {a : α} : ∀ {t : Tbl α}, i ∉ t.map (·.1) → Tbl.set i a t = t ++ [(i, a)]
  | [], _ => rfl
  | (j, b) :: t, h => by
    have hj : ¬ j = i := fun e => h (by simp [e])
    have h' : i ∉ t.map (·.1) := fun hm => h (by simp [hm])
    simp only [Tbl.set, hj, if_false, List.cons_append, tbl_set_fresh h']

theorem setAllE_nodup : ∀ (l t : Tbl ExprEntry), (t.map (·.1) ++ l.map (·.1)).Nodup → setAllE t l = t ++ l
  | [], t, _ => by simp [setAllE]
  | (i, a) :: l, t, h => by
    have hi : i ∉ t.map (·.1) := by
      intro hm
      exact (List.nodup_append.mp h).2.2 i hm i (by simp) rfl
    have h' : ((t ++ [(i, a)]).map (·.1) ++ l.map (·.1)).Nodup := by simpa using h
    show setAllE (Tbl.set i a t) l = _
    rw [tbl_set_fresh hi, setAllE_nodup l _ h']
    simp

theorem setAllE_append (t l l' : Tbl ExprEntry) : setAllE t (l ++ l') = setAllE (setAllE t l) l' := by
  simp [setAllE, List.foldl_append]

theorem passE_state (sel : LV → Option Str) : ∀ (d : LDoc) (st : LexSt),
    (mapSt (labE sel) st d).1.exprs = setAllE st.exprs (toTbl (drawnE sel st d)) ∧
    (drawnE sel st d).map (·.1) = alloc Gen.counterLimit (cnt (fun v => (sel v).isSome) d) st.counter ∧
    (mapSt (labE sel) st d).1.counter = C02.adv Gen.counterLimit (cnt (fun v => (sel v).isSome) d) st.counter ∧
    (mapSt (labE sel) st d).1.lits = st.lits ∧ C02.Front.SameC (mapSt (labE sel) st d).1 st
  | [], st => ⟨rfl, rfl, rfl, rfl, rfl, rfl, rfl⟩
  | (k, v) :: d, st => by
    obtain ⟨h1, h2, h3, h4, h5⟩ := passE_state sel d (labE sel st v).1
    rw [mapSt_cons, cnt_cons]
    cases hs : sel v with
    | none =>
      rw [labE_none st hs] at h1 h2 h3 h4 h5 ⊢
      simp only [drawnE, hs, List.nil_append, Option.isSome_none, Bool.false_eq_true, if_false, Nat.zero_add,
        labE_none st hs]
      exact ⟨h1, h2, h3, h4, h5⟩
    | some t =>
      rw [labE_some st hs] at h1 h2 h3 h4 h5 ⊢
      simp only [drawnE, hs, Option.isSome_some, if_true, labE_some st hs]
      rw [show 1 + cnt (fun v => (sel v).isSome) d = cnt (fun v => (sel v).isSome) d + 1 by omega]
      refine ⟨?_, ?_, ?_, ?_, ?_⟩
      · rw [h1]; rfl
      · simp only [List.singleton_append, List.map_cons, h2, C13.alloc_succ]
        rfl
      · rw [h3]; rfl
      · rw [h4]; rfl
      · exact C02.Front.SameC.trans h5 ⟨rfl, rfl, rfl⟩

/-! ## 9. the native parser on a flat document with expressions -/

theorem passE_rel {T : Tbl Str} {sel : LV → Option Str} {d : LDoc} (st : LexSt) (h : ∀ e ∈ d, DoneRel T e.2) :
    ∀ e ∈ (mapSt (labE sel) st d).2, DoneRel T e.2 := by
  intro e he
  obtain ⟨st', v, hm, hv⟩ := mapSt_mem (labE sel) st d e he
  rw [hv]
  exact labE_doneRel st' (h _ hm)

theorem passR_allDone {d : LDoc} (st : LexSt) (hE : ∀ e ∈ d, selE e.2 = none) : allDone (mapSt (labE selR) st d).2 := by
  intro e he
  obtain ⟨st', v, hm, hv⟩ := mapSt_mem (labE selR) st d e he
  rcases selR_cases (hE _ hm) with ⟨w, x, rfl, hs⟩ | ⟨n, rfl, hs⟩
  · rw [labE_none st' hs] at hv; exact ⟨w, x, hv⟩
  · rw [labE_some st' hs] at hv; exact ⟨_, _, hv⟩

theorem limit_eq : Gen.counterLimit = 999999 := by decide

theorem ldata_keys (d : LDoc) : keys (ldata d) = (d.map (·.1)).map Key.str := by
  simp [ldata, keys]

theorem ldata_clean {d : LDoc} (hd : ldocOK d) (hn : (d.map (·.1)).Nodup) (x : Tbl ExprEntry) :
    (({ data := ldata d, exprs := x } : SD).clean) = { data := ldata d, exprs := x } := by
  apply C07.clean_id
  · refine ⟨?_, ?_⟩
    · rw [ldata_keys]; exact nodup_map_inj (fun a b h => by cases h; rfl) hn
    · rw [C07.nodupKeysEs_iff]
      intro e he
      simp only [ldata, List.mem_map] at he
      obtain ⟨a, _, rfl⟩ := he
      trivial
  · rw [C07.noPhEs_iff]
    intro e he
    simp only [ldata, List.mem_map] at he
    obtain ⟨a, ha, rfl⟩ := he
    obtain ⟨hk, _⟩ := hd a ha
    exact ⟨C02.Main.typedKey_noPh (keyOK_iff.mp hk).1 (key_facts hk).2.2, trivial⟩

theorem ldata_docKeys {d : LDoc} (hd : ldocOK d) : dropDocKeys (ldata d) = ldata d := by
  apply C02.dropDocKeys_id
  · rw [lookup_eq_none_iff, ldata_keys]
    intro hm
    simp only [List.mem_map] at hm
    obtain ⟨k, ⟨a, ha, rfl⟩, hk⟩ := hm
    exact (keyOK_iff.mp (hd a ha).1).2.2.2.1 (Key.str.inj hk)
  · rw [lookup_eq_none_iff, ldata_keys]
    intro hm
    simp only [List.mem_map] at hm
    obtain ⟨k, ⟨a, ha, rfl⟩, hk⟩ := hm
    exact (keyOK_iff.mp (hd a ha).1).2.2.2.2 (Key.str.inj hk)

/-- **the native parser on a well-formed flat document with references and expressions, in any admissible layout**: the
    data hold the typed literals and, for every reference and expression, the placeholder word `EXPRESSIONnnnnnn`; the
    expression table holds the texts; ids are drawn from the global counter: first one per quoted string, then one per
    double-quoted expression, then one per bare reference, each group in text order -/
theorem parse_flat_exprs_layout {doc : Doc} {lay : Lay} {tail : Str} (comments : Bool) (dir : Str) (c : Counter)
    (h : DocWF doc = true) (hl : LayOK lay doc.length = true) (ht : tail.all isWs = true)
    (hc : C13.ValidCounter Gen.counterLimit c) (hn : countIds doc ≤ Gen.counterLimit + 1) :
    parseNative comments dir c (renderG doc lay tail) = .ok (exprSD c doc, (labelAll c doc).1.counter) := by
  obtain ⟨hall, hkeys, hbod⟩ := docWF_iff.mp h
  have hl0 : LayOK (normLay lay) doc.length = true := normLay_ok hl
  -- names for the three passes
  have hd1 : ldocOK (mapSt lab1 { counter := c } doc).2 := pass1_ok h _
  have hl1 : LayOK (normLay lay) (mapSt lab1 { counter := c } doc).2.length = true := by rw [mapSt_length]; exact hl0
  have hb1 : (exprBodiesL (mapSt lab1 { counter := c } doc).2).Nodup := by rw [pass1_bodies]; exact hbod
  have hd2 := passE_ok (sel := selE) hd1 (mapSt lab1 { counter := c } doc).1
  have hE2 := passE_noexpr (d := (mapSt lab1 { counter := c } doc).2) (mapSt lab1 { counter := c } doc).1
  have hd3 : ldocOK (labelAll c doc).2 := passE_ok (sel := selR) hd2 _
  have ha3 : allDone (labelAll c doc).2 := passR_allDone _ hE2
  have hk3 : ((labelAll c doc).2.map (·.1)).Nodup := by
    simp only [labelAll, mapSt_keys]; exact hkeys
  have hlen3 : (labelAll c doc).2.length = doc.length := by simp only [labelAll, mapSt_length]
  have hl3 : LayOK (normLay lay) (labelAll c doc).2.length = true := by rw [hlen3]; exact hl0
  -- the literal table
  obtain ⟨p1, p2, _, _⟩ := pass1_state doc { counter := c }
  have hq : cnt isQuotedDV doc ≤ Gen.counterLimit + 1 := by unfold countIds at hn; omega
  have hnd : ((drawn1 { counter := c } doc).map (·.1)).Nodup := by rw [p2]; exact C13.alloc_nodup hq hc
  have hle : ∀ p ∈ drawn1 { counter := c } doc, p.1 ≤ 999999 := by
    intro p hp
    have : p.1 ∈ alloc Gen.counterLimit (cnt isQuotedDV doc) c := by
      rw [← p2]; exact List.mem_map.mpr ⟨p, hp, rfl⟩
    have := C13.alloc_le hc _ _ this
    rw [limit_eq] at this; exact this
  have hT : (labelAll c doc).1.lits = drawn1 { counter := c } doc := by
    simp only [labelAll]
    rw [(passE_state selR _ _).2.2.2.1, (passE_state selE _ _).2.2.2.1, p1,
      C02.setAll_nodup _ _ (by simpa using hnd)]
    rfl
  have hrel : ∀ e ∈ (labelAll c doc).2, DoneRel (drawn1 { counter := c } doc) e.2 :=
    passE_rel _ (passE_rel _ (pass1_rel _ doc _ (fun e he => (hall e he).2) (fun _ hp => hp)))
  have hins : insertLiterals (labelAll c doc).1.lits (denEs (treeOf (labelAll c doc).2) []) = .ok (ldata (labelAll c doc).2) := by
    rw [hT, denEs_tree _ hd3, ← ldata_eq hk3]
    exact C02.insertLiterals_of_rel _ hnd hle (drawn1_clean doc _ (fun e he => (hall e he).2)) _ _
      (REs_denAcc _ _ ha3 hrel [] [] (by simp only [C02.REs]))
  have hscan := C02.C02_layout_tolerant_tokens (treeOf (labelAll c doc).2) (gapsOfLay (normLay lay)) []
    (tokWF_tree _ hd3 ha3) (gapsOK_all _ _ hd3 hl3) rfl
  have hlen : (normLay lay).length = (labelAll c doc).2.length := by
    simp only [LayOK, Bool.and_eq_true, decide_eq_true_eq] at hl3; exact hl3.1
  rw [spread_segs _ _ hd3 hlen] at hscan
  have hX : C02.parseBlockX c (renderG doc lay tail) =
      .ok (ldata (labelAll c doc).2, (labelAll c doc).1.exprs, (labelAll c doc).1.counter) := by
    unfold C02.parseBlockX
    simp only [normalise_renderG h hl ht, lex1_all h hl0, bind, Except.bind, lexExpressions_segs hd1 hl1 hb1]
    have e3 : mapSt (labE selR) (mapSt (labE selE) (mapSt lab1 { counter := c } doc).1 (mapSt lab1 { counter := c } doc).2).1
        (mapSt (labE selE) (mapSt lab1 { counter := c } doc).1 (mapSt lab1 { counter := c } doc).2).2 = labelAll c doc := rfl
    simp only [e3, hscan, hins]
    rfl
  rw [C02.front_gen comments dir c (renderG_noMarkup h hl ht), hX]
  simp only [Except.map, ldata_clean hd3 hk3, ldata_docKeys hd3]
  rfl

/-- layout tolerance: two admissible layouts of the same document parse alike -/
theorem parse_layout_independent {doc : Doc} {lay₁ lay₂ : Lay} {tail₁ tail₂ : Str} (comments : Bool) (dir : Str)
    (c : Counter) (h : DocWF doc = true) (h₁ : LayOK lay₁ doc.length = true) (h₂ : LayOK lay₂ doc.length = true)
    (t₁ : tail₁.all isWs = true) (t₂ : tail₂.all isWs = true)
    (hc : C13.ValidCounter Gen.counterLimit c) (hn : countIds doc ≤ Gen.counterLimit + 1) :
    parseNative comments dir c (renderG doc lay₁ tail₁) = parseNative comments dir c (renderG doc lay₂ tail₂) := by
  rw [parse_flat_exprs_layout comments dir c h h₁ t₁ hc hn, parse_flat_exprs_layout comments dir c h h₂ t₂ hc hn]

/-! ### the fixed layout `key value;⏎` -/

def fixedLay : Doc → Lay
  | [] => []
  | _ :: es => ([], [' '], []) :: es.map fun _ => (['\n'], [' '], [])

def fixedTail (doc : Doc) : Str := if doc.isEmpty then [] else ['\n']

theorem render_cons (e : Str × DV) (es : Doc) : render (e :: es) = etext e ++ '\n' :: render es := by
  simp [render]

theorem render_rest : ∀ (es : Doc), segs DV.text (es.map fun _ => (['\n'], [' '], [])) es ++ ['\n'] = '\n' :: render es
  | [] => rfl
  | e :: es => by
    have ih := render_rest es
    rw [render_cons, List.map_cons, segs_cons]
    simp only [List.append_assoc, List.cons_append, List.nil_append, etext] at ih ⊢
    rw [ih]

theorem render_eq (doc : Doc) : render doc = renderG doc (fixedLay doc) (fixedTail doc) := by
  cases doc with
  | nil => rfl
  | cons e es =>
    have ih := render_rest es
    rw [render_cons, renderG, fixedLay, segs_cons]
    simp only [fixedTail, List.isEmpty_cons, Bool.false_eq_true, if_false, List.append_assoc, List.cons_append,
      List.nil_append, etext] at ih ⊢
    rw [ih]

theorem fixedLay_ok (doc : Doc) : LayOK (fixedLay doc) doc.length = true := by
  cases doc with
  | nil => rfl
  | cons e es =>
    simp only [LayOK, fixedLay, Bool.and_eq_true, decide_eq_true_eq, List.length_cons, List.length_map, List.all_cons,
      List.all_map, List.all_eq_true, true_and]
    exact ⟨by decide, fun _ _ => (by decide : gapsOKb (['\n'], [' '], []) = true)⟩

theorem fixedTail_ws (doc : Doc) : (fixedTail doc).all isWs = true := by
  unfold fixedTail; split <;> decide

/-- the parser on the fixed layout -/
theorem parse_flat_exprs {doc : Doc} (comments : Bool) (dir : Str) (c : Counter) (h : DocWF doc = true)
    (hc : C13.ValidCounter Gen.counterLimit c) (hn : countIds doc ≤ Gen.counterLimit + 1) :
    parseNative comments dir c (render doc) = .ok (exprSD c doc, (labelAll c doc).1.counter) := by
  rw [render_eq]
  exact parse_flat_exprs_layout comments dir c h (fixedLay_ok doc) (fixedTail_ws doc) hc hn

/-! ## 10. the shape of `exprSD` -/

theorem passE_fwd (sel : LV → Option Str) : ∀ (d : LDoc) (st : LexSt) (e : Str × LV), e ∈ (mapSt (labE sel) st d).2 →
    (∃ v, (e.1, v) ∈ d ∧ sel v = none ∧ e.2 = v) ∨
    (∃ i t v, (e.1, v) ∈ d ∧ sel v = some t ∧ (i, e.1, t) ∈ drawnE sel st d ∧
      e.2 = .done (C05.phOf i) (.str (C05.phOf i)))
  | [], _, e, h => by simp [mapSt_nil] at h
  | (k, v) :: d, st, e, h => by
    rw [mapSt_cons] at h
    rcases List.mem_cons.mp h with rfl | h
    · cases hs : sel v with
      | none => exact Or.inl ⟨v, by simp, hs, by rw [labE_none st hs]⟩
      | some t =>
        refine Or.inr ⟨st.fresh.1, t, v, by simp, hs, ?_, by rw [labE_some st hs]⟩
        simp [drawnE, hs]
    · rcases passE_fwd sel d _ e h with ⟨v', h1, h2, h3⟩ | ⟨i, t, v', h1, h2, h3, h4⟩
      · exact Or.inl ⟨v', by simp [h1], h2, h3⟩
      · exact Or.inr ⟨i, t, v', by simp [h1], h2, by simp only [drawnE, List.mem_append]; exact Or.inr h3, h4⟩

theorem passE_bwd (sel : LV → Option Str) : ∀ (d : LDoc) (st : LexSt) (p : Nat × Str × Str), p ∈ drawnE sel st d →
    ∃ v, (p.2.1, v) ∈ d ∧ sel v = some p.2.2 ∧
      (p.2.1, LV.done (C05.phOf p.1) (.str (C05.phOf p.1))) ∈ (mapSt (labE sel) st d).2
  | [], _, p, h => by simp [drawnE] at h
  | (k, v) :: d, st, p, h => by
    simp only [drawnE, List.mem_append] at h
    rw [mapSt_cons]
    rcases h with h | h
    · cases hs : sel v with
      | none => simp [hs] at h
      | some t =>
        simp only [hs, List.mem_singleton] at h
        subst h
        exact ⟨v, by simp, hs, by rw [labE_some st hs]; simp⟩
    · obtain ⟨v', h1, h2, h3⟩ := passE_bwd sel d _ p h
      exact ⟨v', by simp [h1], h2, by simp [h3]⟩

theorem passE_keep (sel : LV → Option Str) : ∀ (d : LDoc) (st : LexSt) (k : Str) (v : LV), (k, v) ∈ d → sel v = none →
    (k, v) ∈ (mapSt (labE sel) st d).2
  | [], _, _, _, h, _ => by cases h
  | (k', v') :: d, st, k, v, h, hs => by
    rw [mapSt_cons]
    rcases List.mem_cons.mp h with h | h
    · cases h
      rw [labE_none st hs]; simp
    · exact List.mem_cons_of_mem _ (passE_keep sel d _ k v h hs)

/-- the text a written value contributes to the expression table -/
def textOfDV : DV → Option Str
  | .lit _ => none
  | .ref n => some ('$' :: n)
  | .expr b => some b

/-- everything the proofs below use about `exprSD c doc`: `D` lists `(id, name, text)` of the table -/
structure Shape (c : Counter) (doc : Doc) (D : List (Nat × Str × Str)) : Prop where
  exprs_eq : (exprSD c doc).exprs = toTbl D
  ids_nodup : (D.map (·.1)).Nodup
  ids_le : ∀ p ∈ D, p.1 ≤ 999999
  keys_eq : (labelAll c doc).2.map (·.1) = doc.map (·.1)
  fwd : ∀ e ∈ (labelAll c doc).2, ∃ v, (e.1, v) ∈ doc ∧
    ((∃ l w, v = .lit l ∧ e.2 = .done w l.den) ∨
     (∃ i t, textOfDV v = some t ∧ (i, e.1, t) ∈ D ∧ e.2 = .done (C05.phOf i) (.str (C05.phOf i))))
  bwd : ∀ p ∈ D, (∃ v, (p.2.1, v) ∈ doc ∧ textOfDV v = some p.2.2) ∧
    (p.2.1, LV.done (C05.phOf p.1) (.str (C05.phOf p.1))) ∈ (labelAll c doc).2

theorem lab1_cases (st : LexSt) (v : DV) :
    (∃ l w, v = .lit l ∧ (lab1 st v).2 = .done w l.den) ∨ (∃ n, v = .ref n ∧ (lab1 st v).2 = .ref n) ∨
    (∃ b, v = .expr b ∧ (lab1 st v).2 = .expr b) := by
  cases v with
  | lit l => cases l with
    | bare w => exact Or.inl ⟨_, w, rfl, rfl⟩
    | quoted q b => exact Or.inl ⟨_, _, rfl, rfl⟩
  | ref n => exact Or.inr (Or.inl ⟨n, rfl, rfl⟩)
  | expr b => exact Or.inr (Or.inr ⟨b, rfl, rfl⟩)

theorem cnt_pass1_E (st : LexSt) (doc : Doc) : cnt (fun v => (selE v).isSome) (mapSt lab1 st doc).2 = cnt isExprDV doc :=
  mapSt_cnt lab1 isExprDV _ (fun st v => by
    rcases lab1_cases st v with ⟨l, w, rfl, e⟩ | ⟨n, rfl, e⟩ | ⟨b, rfl, e⟩ <;> rw [e] <;> rfl) _ _

theorem cnt_pass1_R (st : LexSt) (doc : Doc) : cnt (fun v => (selR v).isSome) (mapSt lab1 st doc).2 = cnt isRefDV doc :=
  mapSt_cnt lab1 isRefDV _ (fun st v => by
    rcases lab1_cases st v with ⟨l, w, rfl, e⟩ | ⟨n, rfl, e⟩ | ⟨b, rfl, e⟩ <;> rw [e] <;> rfl) _ _

theorem cnt_pass2_R (st : LexSt) (d : LDoc) :
    cnt (fun v => (selR v).isSome) (mapSt (labE selE) st d).2 = cnt (fun v => (selR v).isSome) d :=
  mapSt_cnt (labE selE) _ _ (fun st v => by
    cases hs : selE v with
    | none => rw [labE_none st hs]
    | some t =>
      rw [labE_some st hs]
      cases v <;> simp [selE] at hs
      rfl) _ _

/-- the counter after the document: it has advanced by the number of ids drawn -/
theorem labelAll_counter (c : Counter) (doc : Doc) :
    (labelAll c doc).1.counter = C02.adv Gen.counterLimit (countIds doc) c := by
  obtain ⟨_, _, p3, _⟩ := pass1_state doc { counter := c }
  obtain ⟨_, _, q3, _, _⟩ := passE_state selE (mapSt lab1 { counter := c } doc).2 (mapSt lab1 { counter := c } doc).1
  obtain ⟨_, _, s3, _, _⟩ := passE_state selR
    (mapSt (labE selE) (mapSt lab1 { counter := c } doc).1 (mapSt lab1 { counter := c } doc).2).2
    (mapSt (labE selE) (mapSt lab1 { counter := c } doc).1 (mapSt lab1 { counter := c } doc).2).1
  show (mapSt (labE selR) _ _).1.counter = _
  rw [s3, q3, p3, cnt_pass2_R, cnt_pass1_R, cnt_pass1_E, countIds, C02.adv_add, C02.adv_add]

theorem toTbl_ids (D : List (Nat × Str × Str)) : (toTbl D).map (·.1) = D.map (·.1) := by
  simp [toTbl]

theorem toTbl_append (D D' : List (Nat × Str × Str)) : toTbl (D ++ D') = toTbl D ++ toTbl D' := by
  simp [toTbl]

theorem exprSD_shape {doc : Doc} (c : Counter) (h : DocWF doc = true)
    (hc : C13.ValidCounter Gen.counterLimit c) (hn : countIds doc ≤ Gen.counterLimit + 1) :
    ∃ D, Shape c doc D := by
  -- the three passes
  let r1 := mapSt lab1 { counter := c } doc
  let r2 := mapSt (labE selE) r1.1 r1.2
  let D2 := drawnE selE r1.1 r1.2
  let D3 := drawnE selR r2.1 r2.2
  have e3 : labelAll c doc = mapSt (labE selR) r2.1 r2.2 := rfl
  obtain ⟨_, _, p3, p4⟩ := pass1_state doc { counter := c }
  obtain ⟨q1, q2, q3, _, _⟩ := passE_state selE r1.2 r1.1
  obtain ⟨s1, s2, _, _, _⟩ := passE_state selR r2.2 r2.1
  -- counts
  have cE : cnt (fun v => (selE v).isSome) r1.2 = cnt isExprDV doc := cnt_pass1_E _ _
  have cR : cnt (fun v => (selR v).isSome) r2.2 = cnt isRefDV doc := by
    rw [← cnt_pass1_R { counter := c } doc]; exact cnt_pass2_R _ _
  -- ids
  have hc1 : C13.ValidCounter Gen.counterLimit r1.1.counter := by
    show C13.ValidCounter _ (mapSt lab1 { counter := c } doc).1.counter
    rw [p3]; exact C02.adv_valid _ hc
  have hids : (D2 ++ D3).map (·.1) = alloc Gen.counterLimit (cnt isExprDV doc + cnt isRefDV doc) r1.1.counter := by
    rw [List.map_append, C02.alloc_add]
    show (drawnE selE r1.1 r1.2).map (·.1) ++ (drawnE selR r2.1 r2.2).map (·.1) = _
    rw [q2, s2, cE, cR]
    show _ ++ alloc _ _ (mapSt (labE selE) r1.1 r1.2).1.counter = _
    rw [q3, cE]
  have hnd : ((D2 ++ D3).map (·.1)).Nodup := by
    rw [hids]; exact C13.alloc_nodup (by unfold countIds at hn; omega) hc1
  have hle : ∀ p ∈ D2 ++ D3, p.1 ≤ 999999 := by
    intro p hp
    have : p.1 ∈ alloc Gen.counterLimit (cnt isExprDV doc + cnt isRefDV doc) r1.1.counter := by
      rw [← hids]; exact List.mem_map.mpr ⟨p, hp, rfl⟩
    have := C13.alloc_le hc1 _ _ this
    rw [limit_eq] at this; exact this
  have hex1 : r1.1.exprs = [] := p4.2.2.2
  refine ⟨D2 ++ D3, ⟨?_, hnd, hle, ?_, ?_, ?_⟩⟩
  · -- the table
    show (mapSt (labE selR) r2.1 r2.2).1.exprs = _
    rw [s1]
    show setAllE (mapSt (labE selE) r1.1 r1.2).1.exprs _ = _
    rw [q1, hex1, ← setAllE_append, ← toTbl_append, setAllE_nodup _ _ (by simpa [toTbl_ids] using hnd)]
    rfl
  · simp only [labelAll, mapSt_keys]
  · -- forward
    intro e he
    rw [e3] at he
    rcases passE_fwd selR r2.2 r2.1 e he with ⟨v2, h1, h2, h3⟩ | ⟨i, t, v2, h1, h2, h3, h4⟩
    · rcases passE_fwd selE r1.2 r1.1 (e.1, v2) h1 with ⟨v1, g1, g2, g3⟩ | ⟨i, t, v1, g1, g2, g3, g4⟩
      · obtain ⟨st', v, hm, hv⟩ := mapSt_mem lab1 _ doc (e.1, v1) g1
        simp only at hm hv g3
        refine ⟨v, hm, ?_⟩
        rcases lab1_cases st' v with ⟨l, w, rfl, e'⟩ | ⟨n, rfl, e'⟩ | ⟨b, rfl, e'⟩
        · exact Or.inl ⟨l, w, rfl, by rw [h3, g3, hv, e']⟩
        · rw [g3, hv, e'] at h2; simp [selR] at h2
        · rw [hv, e'] at g2; simp [selE] at g2
      · obtain ⟨st', v, hm, hv⟩ := mapSt_mem lab1 _ doc (e.1, v1) g1
        simp only at hm hv g4 g3
        refine ⟨v, hm, Or.inr ⟨i, t, ?_, List.mem_append_left _ g3, by rw [h3, g4]⟩⟩
        rcases lab1_cases st' v with ⟨l, w, rfl, e'⟩ | ⟨n, rfl, e'⟩ | ⟨b, rfl, e'⟩
        · rw [hv, e'] at g2; simp [selE] at g2
        · rw [hv, e'] at g2; simp [selE] at g2
        · rw [hv, e'] at g2; simp only [selE, Option.some.injEq] at g2; rw [← g2]; rfl
    · rcases passE_fwd selE r1.2 r1.1 (e.1, v2) h1 with ⟨v1, g1, g2, g3⟩ | ⟨i', t', v1, g1, g2, g3, g4⟩
      · obtain ⟨st', v, hm, hv⟩ := mapSt_mem lab1 _ doc (e.1, v1) g1
        simp only at hm hv g3
        refine ⟨v, hm, Or.inr ⟨i, t, ?_, List.mem_append_right _ h3, h4⟩⟩
        rcases lab1_cases st' v with ⟨l, w, rfl, e'⟩ | ⟨n, rfl, e'⟩ | ⟨b, rfl, e'⟩
        · rw [g3, hv, e'] at h2; simp [selR] at h2
        · rw [g3, hv, e'] at h2; simp only [selR, Option.some.injEq] at h2; rw [← h2]; rfl
        · rw [hv, e'] at g2; simp [selE] at g2
      · simp only at g4
        rw [g4] at h2; simp [selR] at h2
  · -- backward
    intro p hp
    rcases List.mem_append.mp hp with hp | hp
    · obtain ⟨v1, g1, g2, g3⟩ := passE_bwd selE r1.2 r1.1 p hp
      obtain ⟨st', v, hm, hv⟩ := mapSt_mem lab1 _ doc (p.2.1, v1) g1
      simp only at hm hv
      refine ⟨⟨v, hm, ?_⟩, ?_⟩
      · rcases lab1_cases st' v with ⟨l, w, rfl, e'⟩ | ⟨n, rfl, e'⟩ | ⟨b, rfl, e'⟩
        · rw [hv, e'] at g2; simp [selE] at g2
        · rw [hv, e'] at g2; simp [selE] at g2
        · rw [hv, e'] at g2; simp only [selE, Option.some.injEq] at g2; rw [← g2]; rfl
      · rw [e3]
        exact passE_keep selR r2.2 r2.1 _ _ g3 rfl
    · obtain ⟨v2, h1, h2, h3⟩ := passE_bwd selR r2.2 r2.1 p hp
      rw [e3]
      refine ⟨?_, h3⟩
      rcases passE_fwd selE r1.2 r1.1 (p.2.1, v2) h1 with ⟨v1, g1, g2, g3⟩ | ⟨i', t', v1, g1, g2, g3, g4⟩
      · obtain ⟨st', v, hm, hv⟩ := mapSt_mem lab1 _ doc (p.2.1, v1) g1
        simp only at hm hv g3
        refine ⟨v, hm, ?_⟩
        rcases lab1_cases st' v with ⟨l, w, rfl, e'⟩ | ⟨n, rfl, e'⟩ | ⟨b, rfl, e'⟩
        · rw [g3, hv, e'] at h2; simp [selR] at h2
        · rw [g3, hv, e'] at h2; simp only [selR, Option.some.injEq] at h2; rw [← h2]; rfl
        · rw [hv, e'] at g2; simp [selE] at g2
      · simp only at g4
        rw [g4] at h2; simp [selR] at h2

/-! ## 11. acyclic documents: `AcyclicFlat'` -/

theorem wfExpr_ref {n : Str} (hne : n ≠ []) (hw : n.all isWordChar = true) : C05.wfExpr ('$' :: n) = true := by
  have hf : findRef ('$' :: n) = some ([], '$' :: n, []) := by
    have := C05.findRef_hit n [] hne hw rfl
    simpa using this
  have hf0 : findRef [] = none := rfl
  have hne' : n.isEmpty = false := by cases n <;> simp_all
  simp [C05.wfExpr, C05.toSegs, hf, C05.toPs, hf0, C05.Segs.render, C05.rend, C05.Pc.text, C05.Segs.wf, C05.noD,
    C05.wfPs, C05.pcOk, C05.refsOf, hw, hne']

/-- the expression text written under a name -/
def textOfKey (doc : Doc) (k : Str) : Option Str := (doc.find? fun e => e.1 == k).bind fun e => textOfDV e.2

/-- length of the longest reference chain that starts at a name (`fuel` = number of entries) -/
def rankF (doc : Doc) : Nat → Str → Nat
  | 0, _ => 0
  | f + 1, k => match textOfKey doc k with
    | some t => 1 + ((findRefs t).map fun r => rankF doc f (C05.refName r)).foldl max 0
    | none => 0

def docRank (doc : Doc) : Str → Nat := rankF doc doc.length

/-- every reference is unindexed and names an entry of the document -/
def docRefsOK (doc : Doc) : Bool := doc.all fun e => match textOfDV e.2 with
  | some t => (findRefs t).all fun r => !r.contains '[' && (doc.map (·.1)).contains (C05.refName r)
  | none => true

/-- the reference graph is acyclic: the longest-chain rank strictly decreases along every reference -/
def docAcyclic (doc : Doc) : Bool := doc.all fun e => match textOfDV e.2 with
  | some t => (findRefs t).all fun r => decide (docRank doc (C05.refName r) < docRank doc e.1)
  | none => true

theorem filter_unique {L : Entries} (hn : (keys L).Nodup) (p : Key × Val → Bool) (k0 : Key)
    (hex : ∃ x ∈ L, p x = true) (hall : ∀ x ∈ L, p x = true → x.1 = k0) : (L.filter p).length = 1 := by
  have hsub : ((L.filter p).map (·.1)).Nodup := hn.sublist (List.filter_sublist.map _)
  have hk : ∀ x ∈ L.filter p, x.1 = k0 := fun x hx => hall x (List.mem_filter.mp hx).1 (List.mem_filter.mp hx).2
  obtain ⟨x, hx, hpx⟩ := hex
  have hmem : x ∈ L.filter p := List.mem_filter.mpr ⟨hx, hpx⟩
  match hF : L.filter p, hsub, hk, hmem with
  | [], _, _, hmem => cases hmem
  | [a], _, _, _ => rfl
  | a :: b :: r, hsub, hk, _ =>
    have h1 := hk a (by simp)
    have h2 := hk b (by simp)
    simp only [List.map_cons, List.nodup_cons, List.mem_cons, not_or] at hsub
    exact absurd (h1.trans h2.symm) hsub.1.1

theorem find_toTbl : ∀ (D : List (Nat × Str × Str)) (i : Nat) (k t : Str), (D.map (·.1)).Nodup → (i, k, t) ∈ D →
    (toTbl D).find? (fun e => e.2.name == C05.phOf i) = some (i, ⟨t, C05.phOf i⟩)
  | [], _, _, _, _, h => by cases h
  | (j, k', t') :: D, i, k, t, hn, h => by
    simp only [List.map_cons, List.nodup_cons] at hn
    rw [toTbl, List.map_cons, List.find?_cons]
    by_cases hj : j = i
    · subst hj
      have : (j, k, t) = (j, k', t') := by
        rcases List.mem_cons.mp h with h | h
        · exact h
        · exact absurd (List.mem_map.mpr ⟨_, h, rfl⟩) hn.1
      cases this
      simp
    · have hne : (C05.phOf j == C05.phOf i) = false := by
        simp only [beq_eq_false_iff_ne, ne_eq]
        exact fun e => hj (C05.phOf_inj e)
      simp only [hne]
      rcases List.mem_cons.mp h with h | h
      · cases h; exact absurd rfl hj
      · exact find_toTbl D i k t hn.2 h

theorem usable_nonstr {x : Scalar} (hx : ∀ t, x ≠ .str t) : usable (.leaf x) = true := by
  cases x with
  | str t => exact absurd rfl (hx t)
  | _ => rfl

theorem okScalar_parse_nonstr {s : Str} {x : Scalar} (hd : '$' ∉ s) (hp : parseValue s = x) (hx : ∀ t, x ≠ .str t) :
    C05.okScalar x = true := by
  simp only [C05.okScalar, Bool.and_eq_true]
  refine ⟨usable_nonstr hx, ?_⟩
  cases x with
  | str t => exact absurd rfl (hx t)
  | int z => exact C05.noD_iff.mpr (C05.intRepr_noD z)
  | float l =>
    obtain ⟨rfl, _⟩ := C04.C04_float_sound hp
    exact C05.noD_iff.mpr hd
  | bool b => cases b <;> decide
  | none => decide

theorem okScalar_str {y : Str} (h1 : isInfix kwExpr y = false) (h2 : '$' ∉ y) : C05.okScalar (.str y) = true := by
  simp [C05.okScalar, usable, anyStrLeafV, h1, C05.noD, pyStrScalar]
  exact h2

/-- the value of a plain literal of a source document is a scalar the evaluation may use: its text carries neither `$`
    nor the placeholder word -/
theorem lit_okScalar {l : Lit} (h : l.ok = true) : C05.okScalar l.den = true := by
  cases l with
  | bare w =>
    obtain ⟨_, _, _, _, he, hc, _⟩ := C02.Main.srcWord_iff.mp h
    have hd : '$' ∉ w := fun hm => (hc _ hm).2.1 rfl
    cases hp : parseValue w with
    | str t =>
      have := C04.C04_idem hp (fun c hc' => (hc c hc').1)
      subst this
      simp only [Lit.den, hp]
      exact okScalar_str he hd
    | int z => simp only [Lit.den, hp]; exact okScalar_parse_nonstr hd hp (fun t => by simp)
    | float z => simp only [Lit.den, hp]; exact okScalar_parse_nonstr hd hp (fun t => by simp)
    | bool z => simp only [Lit.den, hp]; exact okScalar_parse_nonstr hd hp (fun t => by simp)
    | none => simp only [Lit.den, hp]; exact okScalar_parse_nonstr hd hp (fun t => by simp)
  | quoted q b =>
    obtain ⟨_, _, hc, _, _, _, he, _⟩ := C02.Main.srcQuoted_iff.mp h
    have hd : '$' ∉ b := fun hm => (hc _ hm).2 rfl
    cases hp : parseValue b with
    | str t => simp only [Lit.den, hp]; exact okScalar_str he hd
    | int z => simp only [Lit.den, hp]; exact okScalar_parse_nonstr hd hp (fun t => by simp)
    | float z => simp only [Lit.den, hp]; exact okScalar_parse_nonstr hd hp (fun t => by simp)
    | bool z => simp only [Lit.den, hp]; exact okScalar_parse_nonstr hd hp (fun t => by simp)
    | none => simp only [Lit.den, hp]; exact okScalar_parse_nonstr hd hp (fun t => by simp)

theorem okScalar_iff {x : Scalar} : C05.okScalar x = true ↔ usable (.leaf x) = true ∧ C05.noD (pyStrScalar x) = true := by
  simp [C05.okScalar]

theorem usable_str {y : Str} (h : usable (.leaf (.str y)) = true) : isInfix kwExpr y = false := by
  simp only [usable, anyStrLeafV, Bool.not_eq_true', Bool.or_eq_false_iff] at h
  exact h.1

theorem mem_ldata {d : LDoc} {x : Key × Val} : x ∈ ldata d ↔ ∃ e ∈ d, x = (.str e.1, .leaf e.2.val) := by
  simp only [ldata, List.mem_map]
  constructor
  · rintro ⟨e, he, rfl⟩; exact ⟨e, he, rfl⟩
  · rintro ⟨e, he, rfl⟩; exact ⟨e, he, rfl⟩

theorem prefix_infix {p s : Str} (h : p.isPrefixOf s = true) : isInfix p s = true := by
  cases s with
  | nil => simpa [isInfix, tails] using h
  | cons c r => rw [C02.isInfix_cons, h]; rfl

theorem key_noPhKey {k : Str} (hk : keyOK k = true) : C05.isPhKey k = false := by
  obtain ⟨_, hc, hi, _⟩ := C02.Main.srcWord_iff.mp (keyOK_iff.mp hk).1
  have pre : ∀ (kw sub : Str), isInfix sub kw = true → isInfix sub k = false → isExactPh kw k = false := by
    intro kw sub h1 h2
    cases hp : kw.isPrefixOf k with
    | false => simp [isExactPh, hp]
    | true =>
      have := C02.Front.isInfix_trans h1 (prefix_infix hp)
      rw [h2] at this; cases this
  simp only [C05.isPhKey, pre kwBlock "COMMENT".toList (by decide) hc, pre kwIncl "INCLUDE".toList (by decide) hi,
    pre kwLine "COMMENT".toList (by decide) hc, Bool.or_self]

section shape
variable {c : Counter} {doc : Doc} {D : List (Nat × Str × Str)} (S : Shape c doc D)
include S

theorem Shape.exprOf_ph {i : Nat} {k t : Str} (h : (i, k, t) ∈ D) :
    C05.exprOf (exprSD c doc) (.leaf (.str (C05.phOf i))) = some t := by
  simp only [C05.exprOf, S.exprs_eq, find_toTbl D i k t S.ids_nodup h, Option.map_some]

theorem Shape.exprOf_lit {x : Scalar} (h : C05.okScalar x = true) : C05.exprOf (exprSD c doc) (.leaf x) = none := by
  cases x with
  | str y =>
    have hy := usable_str (okScalar_iff.mp h).1
    simp only [C05.exprOf, S.exprs_eq, Option.map_eq_none_iff, List.find?_eq_none]
    intro e he
    simp only [toTbl, List.mem_map] at he
    obtain ⟨p, _, rfl⟩ := he
    simp only [beq_iff_eq]
    intro e'
    have := C05.isInfix_kw_phOf p.1
    rw [e', hy] at this; cases this
  | _ => rfl

end shape

/-- **a well-formed flat document whose references name entries of the document and whose reference graph is acyclic
    is, as the native parser hands it over, in the domain of the completeness theorem** -/
theorem exprSD_acyclicFlat {doc : Doc} (c : Counter) (h : DocWF doc = true)
    (hc : C13.ValidCounter Gen.counterLimit c) (hn : countIds doc ≤ Gen.counterLimit + 1)
    (hr : docRefsOK doc = true) (ha : docAcyclic doc = true) : C05.AcyclicFlat' (exprSD c doc) := by
  obtain ⟨D, S⟩ := exprSD_shape c h hc hn
  obtain ⟨hall, hkeys, _⟩ := docWF_iff.mp h
  have hdata : (exprSD c doc).data = ldata (labelAll c doc).2 := rfl
  have hdk : keys (exprSD c doc).data = (doc.map (·.1)).map Key.str := by rw [hdata, ldata_keys, S.keys_eq]
  have hkn : (keys (exprSD c doc).data).Nodup := by
    rw [hdk]; exact nodup_map_inj (fun a b h => by cases h; rfl) hkeys
  -- a data entry comes from a document entry
  have hent : ∀ d ∈ (exprSD c doc).data, ∃ k v, (k, v) ∈ doc ∧ d.1 = .str k ∧
      ((∃ l, v = .lit l ∧ d.2 = .leaf l.den) ∨
       (∃ i t, textOfDV v = some t ∧ (i, k, t) ∈ D ∧ d.2 = .leaf (.str (C05.phOf i)))) := by
    intro d hd
    rw [hdata, mem_ldata] at hd
    obtain ⟨e, he, rfl⟩ := hd
    obtain ⟨v, hm, hv⟩ := S.fwd e he
    refine ⟨e.1, v, hm, rfl, ?_⟩
    rcases hv with ⟨l, w, rfl, e2⟩ | ⟨i, t, ht, hD, e2⟩
    · exact Or.inl ⟨l, rfl, by rw [e2]; rfl⟩
    · exact Or.inr ⟨i, t, ht, hD, by rw [e2]; rfl⟩
  have hlit : ∀ {k : Str} {l : Lit}, (k, DV.lit l) ∈ doc → C05.okScalar l.den = true := by
    intro k l hm
    exact lit_okScalar (hall _ hm).2
  have htbl : ∀ e ∈ (exprSD c doc).exprs, ∃ p ∈ D, e = (p.1, ⟨p.2.2, C05.phOf p.1⟩) := by
    intro e he
    rw [S.exprs_eq, toTbl, List.mem_map] at he
    obtain ⟨p, hp, rfl⟩ := he
    exact ⟨p, hp, rfl⟩
  have hbase : C05.AcyclicFlat (exprSD c doc) := by
    refine ⟨hkn, ?_, ?_, ?_, ?_, ?_, ?_, ?_⟩
    · -- flat
      intro d hd
      rw [hdata, mem_ldata] at hd
      obtain ⟨e, _, rfl⟩ := hd
      exact ⟨rfl, rfl⟩
    · rw [S.exprs_eq, toTbl_ids]; exact S.ids_nodup
    · intro e he
      obtain ⟨p, _, rfl⟩ := htbl e he
      rfl
    · -- placed
      intro e he
      obtain ⟨p, hp, rfl⟩ := htbl e he
      obtain ⟨i, k, t⟩ := p
      refine filter_unique hkn _ (.str k) ?_ ?_
      · refine ⟨(.str k, .leaf (.str (C05.phOf i))), ?_, by simp⟩
        rw [hdata, mem_ldata]
        exact ⟨_, (S.bwd _ hp).2, rfl⟩
      · intro d hd hpd
        simp only [beq_iff_eq] at hpd
        obtain ⟨k', v, hm, hk', hv⟩ := hent d hd
        rcases hv with ⟨l, rfl, e2⟩ | ⟨i', t', _, hD', e2⟩
        · rw [e2] at hpd
          have := S.exprOf_lit (hlit hm)
          rw [hpd, S.exprOf_ph hp] at this
          cases this
        · rw [e2] at hpd
          have hi : i' = i := C05.phOf_inj (by injection hpd with hpd; injection hpd)
          subst hi
          have := C05.nodup_fst_eq S.ids_nodup hD' hp rfl
          cases this
          exact hk'
    · -- plain_usable
      intro d hd hnone
      obtain ⟨k', v, hm, _, hv⟩ := hent d hd
      rcases hv with ⟨l, rfl, e2⟩ | ⟨i', t', _, hD', e2⟩
      · rw [e2]; exact (okScalar_iff.mp (hlit hm)).1
      · rw [e2, S.exprOf_ph hD'] at hnone; cases hnone
    · -- refs_ok
      intro e he r hr'
      obtain ⟨p, hp, rfl⟩ := htbl e he
      obtain ⟨⟨v, hm, ht⟩, _⟩ := S.bwd p hp
      have := List.all_eq_true.mp hr _ hm
      simp only [ht, List.all_eq_true, Bool.and_eq_true, Bool.not_eq_true', List.contains_eq_mem,
        decide_eq_false_iff_not, decide_eq_true_eq] at this
      obtain ⟨h1, h2⟩ := this r hr'
      refine ⟨h1, ?_⟩
      cases hl : lookup (.str (C05.refName r)) (exprSD c doc).data with
      | some x => rfl
      | none =>
        rw [C05.lookup_none_iff, hdk] at hl
        exact absurd (List.mem_map.mpr ⟨_, h2, rfl⟩) hl
    · -- acyclic
      refine ⟨docRank doc, ?_⟩
      simp only [C05.rankOk, List.all_eq_true]
      intro d hd
      obtain ⟨k', v, hm, hk', hv⟩ := hent d hd
      rcases hv with ⟨l, rfl, e2⟩ | ⟨i', t', ht, hD', e2⟩
      · rw [e2, S.exprOf_lit (hlit hm)]
        cases d.1 <;> rfl
      · rw [e2, S.exprOf_ph hD', hk']
        have := List.all_eq_true.mp ha _ hm
        simp only [ht] at this
        exact this
  refine ⟨hbase, ?_, ?_, ?_, ?_, ?_⟩
  · intro e he
    obtain ⟨p, hp, rfl⟩ := htbl e he
    have := S.ids_le p hp
    show p.1 < 1000000
    omega
  · intro d hd
    obtain ⟨k', v, hm, hk', _⟩ := hent d hd
    rw [hk']
    exact (keyOK_iff.mp (hall _ hm).1).2.1
  · intro d hd
    obtain ⟨k', v, hm, hk', _⟩ := hent d hd
    rw [hk']
    simp only [C05.keyNoPh, key_noPhKey (hall _ hm).1, Bool.not_false]
  · intro d hd
    obtain ⟨k', v, hm, _, hv⟩ := hent d hd
    rcases hv with ⟨l, rfl, e2⟩ | ⟨i', t', _, hD', e2⟩
    · simp only [C05.valText, e2, S.exprOf_lit (hlit hm)]
      exact (okScalar_iff.mp (hlit hm)).2
    · simp only [C05.valText, e2, S.exprOf_ph hD']
  · intro e he
    obtain ⟨p, hp, rfl⟩ := htbl e he
    obtain ⟨⟨v, hm, ht⟩, _⟩ := S.bwd p hp
    have hv := (hall _ hm).2
    cases v with
    | lit l => cases ht
    | ref n =>
      simp only [dvOK, Bool.and_eq_true, Bool.not_eq_true', List.isEmpty_eq_false_iff] at hv
      simp only [textOfDV, Option.some.injEq] at ht
      show C05.wfExpr p.2.2 = true
      rw [← ht]; exact wfExpr_ref hv.1 hv.2
    | expr b =>
      simp only [textOfDV, Option.some.injEq] at ht
      show C05.wfExpr p.2.2 = true
      rw [← ht]; exact (exprOK_iff.mp hv).1

/-- `parse_flat_exprs_layout` with the counter spelled out -/
theorem parse_flat_exprs_layout' {doc : Doc} {lay : Lay} {tail : Str} (comments : Bool) (dir : Str) (c : Counter)
    (h : DocWF doc = true) (hl : LayOK lay doc.length = true) (ht : tail.all isWs = true)
    (hc : C13.ValidCounter Gen.counterLimit c) (hn : countIds doc ≤ Gen.counterLimit + 1) :
    parseNative comments dir c (renderG doc lay tail) =
      .ok (exprSD c doc, C02.adv Gen.counterLimit (countIds doc) c) := by
  rw [parse_flat_exprs_layout comments dir c h hl ht hc hn, labelAll_counter]

/-- `parse_flat_exprs` with the counter spelled out -/
theorem parse_flat_exprs' {doc : Doc} (comments : Bool) (dir : Str) (c : Counter) (h : DocWF doc = true)
    (hc : C13.ValidCounter Gen.counterLimit c) (hn : countIds doc ≤ Gen.counterLimit + 1) :
    parseNative comments dir c (render doc) = .ok (exprSD c doc, C02.adv Gen.counterLimit (countIds doc) c) := by
  rw [parse_flat_exprs comments dir c h hc hn, labelAll_counter]

/-! ## 12. reading the file -/

theorem ldata_nodupV {d : LDoc} (hn : (d.map (·.1)).Nodup) : NodupKeysV (.dict (ldata d)) := by
  refine ⟨?_, ?_⟩
  · rw [ldata_keys]; exact nodup_map_inj (fun a b h => by cases h; rfl) hn
  · rw [C07.nodupKeysEs_iff]
    intro e he
    simp only [ldata, List.mem_map] at he
    obtain ⟨a, _, rfl⟩ := he
    trivial

theorem ldata_noPh {d : LDoc} (hd : ldocOK d) : C07.NoPhEs (ldata d) := by
  rw [C07.noPhEs_iff]
  intro e he
  simp only [ldata, List.mem_map] at he
  obtain ⟨a, ha, rfl⟩ := he
  obtain ⟨hk, _⟩ := hd a ha
  exact ⟨C02.Main.typedKey_noPh (keyOK_iff.mp hk).1 (key_facts hk).2.2, trivial⟩

theorem labelAll_ok {doc : Doc} (c : Counter) (h : DocWF doc = true) : ldocOK (labelAll c doc).2 :=
  passE_ok (sel := selR) (passE_ok (sel := selE) (pass1_ok h _) _) _

theorem labelAll_keys (c : Counter) (doc : Doc) : (labelAll c doc).2.map (·.1) = doc.map (·.1) := by
  simp only [labelAll, mapSt_keys]

theorem exprSD_length (c : Counter) (doc : Doc) : (exprSD c doc).data.length = doc.length := by
  show (ldata (labelAll c doc).2).length = _
  simp only [ldata, List.length_map, labelAll, mapSt_length]

/-- `DictReader.read` (default options) on a one-file file system holding the document in an admissible layout: parsing
    is `parse_flat_exprs_layout`, `_merge_includes` changes nothing, and what remains is `_eval_expressions` on
    `exprSD c doc` -/
theorem readFile_layout {doc : Doc} {lay : Lay} {tail : Str} (ev : Str → EvalResult) (p : Comps) (c : Counter)
    (h : DocWF doc = true) (hl : LayOK lay doc.length = true) (ht : tail.all isWs = true)
    (hc : C13.ValidCounter Gen.counterLimit c) (hn : countIds doc ≤ Gen.counterLimit + 1)
    (hj : isJsonPath p = false) (hx : isXmlPath p = false) (hres : resolveSpelled p = p) :
    readFile ev [(p, .native (renderG doc lay tail))] {} c p =
      (evalExpressions ev (exprSD c doc)).map fun s' => ReadOut.ok s' (labelAll c doc).1.counter := by
  have hparse := parse_flat_exprs_layout true (pathStr p.dropLast) c h hl ht hc hn
  have hpf : parseFile [(p, .native (renderG doc lay tail))] true c p =
      .ok (exprSD c doc, (labelAll c doc).1.counter) := by
    simp only [parseFile, hx, hres, C01.fs_get_single, hj, hparse]
    rfl
  have hkeys : ((labelAll c doc).2.map (·.1)).Nodup := by
    rw [labelAll_keys]; exact (docWF_iff.mp h).2.1
  have hmi := C01.mergeIncludes_noincl [(p, .native (renderG doc lay tail))] true (exprSD c doc) p.dropLast
    (labelAll c doc).1.counter rfl (ldata_noPh (labelAll_ok c h)) (ldata_nodupV hkeys)
  simp only [readFile, hpf, bind, Except.bind, pure, Except.pure]
  simp only [if_true, hmi]
  cases evalExpressions ev (exprSD c doc) with
  | error e => rfl
  | ok s' => rfl

/-- **C05 from the text of a file.**  A well-formed flat document `key value;` (values: plain literals, bare references
    `$name`, double-quoted expression texts) whose references name entries of the document and form an acyclic graph is
    written in any admissible layout and read with `DictReader.read`: if the read succeeds (the evaluator does not leave
    the model), no expression is left, the keys are those of the file in file order, and every variable holds the value
    the topological specification gives -- for every evaluator with `EvOK`. -/
theorem C05_read_layout {doc : Doc} {lay : Lay} {tail : Str} (ev : Str → EvalResult) (E : C05.EvOK ev) (p : Comps)
    (c : Counter) (h : DocWF doc = true) (hl : LayOK lay doc.length = true) (ht : tail.all isWs = true)
    (hc : C13.ValidCounter Gen.counterLimit c) (hn : countIds doc ≤ Gen.counterLimit + 1)
    (hr : docRefsOK doc = true) (ha : docAcyclic doc = true)
    (hj : isJsonPath p = false) (hx : isXmlPath p = false) (hres : resolveSpelled p = p)
    {out : ReadOut} (hread : readFile ev [(p, .native (renderG doc lay tail))] {} c p = .ok out) :
    ∃ s', out = .ok s' (labelAll c doc).1.counter ∧ s'.exprs = [] ∧
      keys s'.data = (doc.map (·.1)).map Key.str ∧
      ∀ name v, C05.topoVal ev (exprSD c doc) (doc.length + 1) name = some v → lookup (.str name) s'.data = some v := by
  rw [readFile_layout ev p c h hl ht hc hn hj hx hres] at hread
  cases hev : evalExpressions ev (exprSD c doc) with
  | error e => rw [hev] at hread; cases hread
  | ok s' =>
    rw [hev] at hread
    simp only [Except.map, Except.ok.injEq] at hread
    obtain ⟨h1, h2, h3⟩ := C05.C05_complete_acyclic' ev _ s' E (exprSD_acyclicFlat c h hc hn hr ha) hev
    refine ⟨s', hread.symm, h1, ?_, ?_⟩
    · rw [h2]
      show keys (ldata (labelAll c doc).2) = _
      rw [ldata_keys, labelAll_keys]
    · rw [exprSD_length] at h3; exact h3

/-- the fixed layout `key value;⏎` -/
theorem readFile_flat {doc : Doc} (ev : Str → EvalResult) (p : Comps) (c : Counter) (h : DocWF doc = true)
    (hc : C13.ValidCounter Gen.counterLimit c) (hn : countIds doc ≤ Gen.counterLimit + 1)
    (hj : isJsonPath p = false) (hx : isXmlPath p = false) (hres : resolveSpelled p = p) :
    readFile ev [(p, .native (render doc))] {} c p =
      (evalExpressions ev (exprSD c doc)).map fun s' => ReadOut.ok s' (labelAll c doc).1.counter := by
  rw [render_eq]
  exact readFile_layout ev p c h (fixedLay_ok doc) (fixedTail_ws doc) hc hn hj hx hres

theorem C05_read_flat {doc : Doc} (ev : Str → EvalResult) (E : C05.EvOK ev) (p : Comps) (c : Counter)
    (h : DocWF doc = true) (hc : C13.ValidCounter Gen.counterLimit c) (hn : countIds doc ≤ Gen.counterLimit + 1)
    (hr : docRefsOK doc = true) (ha : docAcyclic doc = true)
    (hj : isJsonPath p = false) (hx : isXmlPath p = false) (hres : resolveSpelled p = p)
    {out : ReadOut} (hread : readFile ev [(p, .native (render doc))] {} c p = .ok out) :
    ∃ s', out = .ok s' (labelAll c doc).1.counter ∧ s'.exprs = [] ∧
      keys s'.data = (doc.map (·.1)).map Key.str ∧
      ∀ name v, C05.topoVal ev (exprSD c doc) (doc.length + 1) name = some v → lookup (.str name) s'.data = some v := by
  rw [render_eq] at hread
  exact C05_read_layout ev E p c h (fixedLay_ok doc) (fixedTail_ws doc) hc hn hr ha hj hx hres hread

/-- the same for the executable integer evaluator -/
theorem C05_read_layout_evalInt {doc : Doc} {lay : Lay} {tail : Str} (p : Comps) (c : Counter)
    (h : DocWF doc = true) (hl : LayOK lay doc.length = true) (ht : tail.all isWs = true)
    (hc : C13.ValidCounter Gen.counterLimit c) (hn : countIds doc ≤ Gen.counterLimit + 1)
    (hr : docRefsOK doc = true) (ha : docAcyclic doc = true)
    (hj : isJsonPath p = false) (hx : isXmlPath p = false) (hres : resolveSpelled p = p)
    {out : ReadOut} (hread : readFile evalInt [(p, .native (renderG doc lay tail))] {} c p = .ok out) :
    ∃ s', out = .ok s' (labelAll c doc).1.counter ∧ s'.exprs = [] ∧
      keys s'.data = (doc.map (·.1)).map Key.str ∧
      ∀ name v, C05.topoVal evalInt (exprSD c doc) (doc.length + 1) name = some v →
        lookup (.str name) s'.data = some v :=
  C05_read_layout evalInt C05.evOK_evalInt p c h hl ht hc hn hr ha hj hx hres hread

theorem C05_read_flat_evalInt {doc : Doc} (p : Comps) (c : Counter)
    (h : DocWF doc = true) (hc : C13.ValidCounter Gen.counterLimit c) (hn : countIds doc ≤ Gen.counterLimit + 1)
    (hr : docRefsOK doc = true) (ha : docAcyclic doc = true)
    (hj : isJsonPath p = false) (hx : isXmlPath p = false) (hres : resolveSpelled p = p)
    {out : ReadOut} (hread : readFile evalInt [(p, .native (render doc))] {} c p = .ok out) :
    ∃ s', out = .ok s' (labelAll c doc).1.counter ∧ s'.exprs = [] ∧
      keys s'.data = (doc.map (·.1)).map Key.str ∧
      ∀ name v, C05.topoVal evalInt (exprSD c doc) (doc.length + 1) name = some v →
        lookup (.str name) s'.data = some v :=
  C05_read_flat evalInt C05.evOK_evalInt p c h hc hn hr ha hj hx hres hread

/-! ## 13. non-vacuity: `a 1; ab 20; c "$d * 2 + $ab"; d "$a + $ab"; e $c;` -/

theorem ex1_wf : DocWF ex1 = true := by decide +kernel
theorem ex1_count : countIds ex1 = 3 := by decide +kernel
theorem ex1_refsOK : docRefsOK ex1 = true := by decide +kernel
theorem ex1_acyclic : docAcyclic ex1 = true := by decide +kernel

def exPath : Comps := ["d".toList, "f".toList]

/-- the parser on the example, through the theorem -/
theorem ex1_parse_thm (dir : Str) :
    parseNative true dir none (render ex1) = .ok (exprSD none ex1, (labelAll none ex1).1.counter) :=
  parse_flat_exprs true dir none ex1_wf (Or.inl rfl) (by rw [ex1_count]; decide)

theorem ex1_acyclicFlat : C05.AcyclicFlat' (exprSD none ex1) :=
  exprSD_acyclicFlat none ex1_wf (Or.inl rfl) (by rw [ex1_count]; decide) ex1_refsOK ex1_acyclic

/-- the specification on the example: c = 62, d = 21, e = 62 -/
theorem ex1_topo : (["a", "ab", "c", "d", "e"].map fun n => C05.topoVal evalInt (exprSD none ex1) (ex1.length + 1) n.toList)
    = [some (.leaf (.int 1)), some (.leaf (.int 20)), some (.leaf (.int 62)), some (.leaf (.int 21)),
       some (.leaf (.int 62))] := by
  decide +kernel

/-- end to end by kernel evaluation: the whole reader on the text of the file -/
theorem ex1_read_eval :
    C05.readData (readFile evalInt [(exPath, .native (render ex1))] {} none exPath) =
      some [(.str "a".toList, .leaf (.int 1)), (.str "ab".toList, .leaf (.int 20)), (.str "c".toList, .leaf (.int 62)),
            (.str "d".toList, .leaf (.int 21)), (.str "e".toList, .leaf (.int 62))] := by
  decide +kernel

/-- … and through the theorem: whatever the read returns, `c = 62`, `d = 21`, `e = 62` (and `a = 1`, `ab = 20`), no
    expression is left, the keys are `a ab c d e` -/
theorem ex1_read_thm {out : ReadOut}
    (hread : readFile evalInt [(exPath, .native (render ex1))] {} none exPath = .ok out) :
    ∃ s' c', out = .ok s' c' ∧ s'.exprs = [] ∧
      keys s'.data = [.str "a".toList, .str "ab".toList, .str "c".toList, .str "d".toList, .str "e".toList] ∧
      lookup (.str "a".toList) s'.data = some (.leaf (.int 1)) ∧
      lookup (.str "ab".toList) s'.data = some (.leaf (.int 20)) ∧
      lookup (.str "c".toList) s'.data = some (.leaf (.int 62)) ∧
      lookup (.str "d".toList) s'.data = some (.leaf (.int 21)) ∧
      lookup (.str "e".toList) s'.data = some (.leaf (.int 62)) := by
  obtain ⟨s', h1, h2, h3, h4⟩ := C05_read_flat_evalInt exPath none ex1_wf (Or.inl rfl) (by rw [ex1_count]; decide)
    ex1_refsOK ex1_acyclic (by decide) (by decide) (by decide) hread
  have ht := ex1_topo
  simp only [List.map_cons, List.map_nil, List.cons.injEq, and_true] at ht
  obtain ⟨t1, t2, t3, t4, t5⟩ := ht
  exact ⟨s', _, h1, h2, h3, h4 _ _ t1, h4 _ _ t2, h4 _ _ t3, h4 _ _ t4, h4 _ _ t5⟩

/-- the read does succeed on the example -/
theorem ex1_read_ok : ∃ out, readFile evalInt [(exPath, .native (render ex1))] {} none exPath = .ok out := by
  have h := ex1_read_eval
  cases hr : readFile evalInt [(exPath, .native (render ex1))] {} none exPath with
  | error e => rw [hr] at h; simp [C05.readData] at h
  | ok out => exact ⟨out, rfl⟩


/-- two more documents through the theorem: quoted strings draw the first ids, then the expressions, then the references;
    the counter wraps at its limit -/
theorem ex2_parse_thm (dir : Str) :
    parseNative true dir (some 5) (render ex2) = .ok (exprSD (some 5) ex2, (labelAll (some 5) ex2).1.counter) :=
  parse_flat_exprs true dir (some 5) (by decide +kernel) (Or.inr ⟨5, rfl, by decide⟩) (by decide +kernel)

theorem ex3_parse_thm (dir : Str) :
    parseNative true dir (some 999998) (render ex3) =
      .ok (exprSD (some 999998) ex3, (labelAll (some 999998) ex3).1.counter) :=
  parse_flat_exprs true dir (some 999998) (by decide +kernel) (Or.inr ⟨999998, rfl, by decide⟩) (by decide +kernel)

theorem ex3_ids : (exprSD (some 999998) ex3).exprs.map (·.1) = [0, 1] ∧ (labelAll (some 999998) ex3).1.counter = some 1 := by
  decide +kernel

/-! ### the same document in a loose layout: tabs, blank lines, a value on the next line, `;` on a line of its own,
    two entries on one line -/

def exLay1 : Lay :=
  [(['\n', ' '], ['\t'], [' ']), ([' '], [' ', ' '], []), (['\n'], ['\n', ' '], []), ([], [' '], ['\r', '\n']),
   (['\n', '\n'], [' '], [])]

theorem exLay1_ok : LayOK exLay1 ex1.length = true := by decide

theorem ex1_loose_text : renderG ex1 exLay1 "  \n".toList =
    "\n a\t1 ; ab  20;\nc\n \"$d * 2 + $ab\";d \"$a + $ab\"\r\n;\n\ne $c;  \n".toList := by decide +kernel

theorem ex1_loose_parse (dir : Str) :
    parseNative true dir none (renderG ex1 exLay1 "  \n".toList) = .ok (exprSD none ex1, some 2) := by
  rw [parse_flat_exprs_layout' true dir none ex1_wf exLay1_ok (by decide) (Or.inl rfl) (by rw [ex1_count]; decide),
    ex1_count]
  rfl

theorem ex1_loose_read_eval :
    C05.readData (readFile evalInt [(exPath, .native (renderG ex1 exLay1 "  \n".toList))] {} none exPath) =
      some [(.str "a".toList, .leaf (.int 1)), (.str "ab".toList, .leaf (.int 20)), (.str "c".toList, .leaf (.int 62)),
            (.str "d".toList, .leaf (.int 21)), (.str "e".toList, .leaf (.int 62))] := by
  decide +kernel

/-- a reference cycle is rejected by the check -/
theorem exCycle_rejected :
    docAcyclic [("a".toList, .ref "b".toList), ("b".toList, .ref "a".toList)] = false := by decide +kernel

/-! ### why `DocWF` asks for distinct expression texts and for texts that do not begin with `;`

  Both conditions are necessary for `parse_flat_exprs` as stated: `lexExpressions` replaces *every* occurrence of the
  matched text `"…"` in the whole block (`str.replace`). -/

/-- `a "$x"; b "$x"; x 1;` : the first match replaces both occurrences, the second match draws an id, records an entry
    and replaces nothing: `a` and `b` share `EXPRESSION000000`, entry 1 of the table stands nowhere -/
def exDup : Doc :=
  [("a".toList, .expr "$x".toList), ("b".toList, .expr "$x".toList), ("x".toList, .lit (.bare "1".toList))]

set_option synthInstance.maxSize 1000 in
theorem exDup_differs :
    (exDup.all fun e => keyOK e.1 && dvOK e.2) = true ∧ (exDup.map (·.1)).Nodup ∧ ¬ (exprBodies exDup).Nodup ∧
    fieldsOf (parseNative true [] none (render exDup)) =
      some ([(.str "a".toList, .leaf (.str "EXPRESSION000000".toList)),
             (.str "b".toList, .leaf (.str "EXPRESSION000000".toList)), (.str "x".toList, .leaf (.int 1))],
            [(0, ⟨"$x".toList, "EXPRESSION000000".toList⟩), (1, ⟨"$x".toList, "EXPRESSION000001".toList⟩)],
            [], [], [], some 1) ∧
    fieldsOf (parseNative true [] none (render exDup)) ≠
      fieldsOf (.ok (exprSD none exDup, (labelAll none exDup).1.counter)) := by
  refine ⟨by decide +kernel, by decide +kernel, by decide +kernel, by decide +kernel, by decide +kernel⟩

/-- an expression text that begins with `;` can occur a second time, between the closing quote of one expression and
    the opening quote of the next: in `a "; b $c; d "; x "$y"; b $c; d "$z"; …` the text `"; b $c; d "` is also what
    stands between `"$y` and `$z"`; the replacement glues `x`'s and `d`'s expressions together and the entries `b`, `d`
    disappear -/
def exSemi : Doc :=
  [("a".toList, .expr "; b $c; d ".toList), ("x".toList, .expr "$y".toList), ("b".toList, .ref "c".toList),
   ("d".toList, .expr "$z".toList), ("c".toList, .lit (.bare "1".toList)), ("y".toList, .lit (.bare "2".toList)),
   ("z".toList, .lit (.bare "3".toList))]

set_option synthInstance.maxSize 1000 in
theorem exSemi_differs :
    (exSemi.all fun e => keyOK e.1 && (match e.2 with
      | .expr b => C05.wfExpr b && !b.contains '"' && b.all (fun c => !isLineBreak c) && !isInfix ['/', '/'] b &&
          !isInfix ['/', '*'] b
      | v => dvOK v)) = true ∧
    (exSemi.map (·.1)).Nodup ∧ (exprBodies exSemi).Nodup ∧ DocWF exSemi = false ∧
    (fieldsOf (parseNative true [] none (render exSemi))).map (fun r => keys r.1) =
      some [.str "a".toList, .str "x".toList, .str "c".toList, .str "y".toList, .str "z".toList] ∧
    fieldsOf (parseNative true [] none (render exSemi)) ≠
      fieldsOf (.ok (exprSD none exSemi, (labelAll none exSemi).1.counter)) := by
  refine ⟨by decide +kernel, by decide +kernel, by decide +kernel, by decide +kernel, by decide +kernel,
    by decide +kernel⟩


end DictIO.C05R
