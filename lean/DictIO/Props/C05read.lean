import DictIO.Props.C05acyclic
import DictIO.Props.C12rest

namespace DictIO.C05R
open DictIO

set_option linter.unusedSimpArgs false
set_option linter.unusedVariables false
set_option linter.unnecessarySimpa false

/-! ## 1. flat source documents with references and expressions -/

/-- a written value: a plain literal (bare word or quoted string), a bare reference `$name`, or a double-quoted
    expression text -/
inductive DV where
  | lit (l : Lit)
  | ref (name : Str)
  | expr (body : Str)
  deriving DecidableEq, Repr, Inhabited

abbrev Doc := List (Str × DV)

def DV.text : DV → Str
  | .lit l => l.tok.text
  | .ref n => '$' :: n
  | .expr b => '"' :: (b ++ ['"'])

/-- `key value;` -/
def etext (e : Str × DV) : Str := e.1 ++ ' ' :: (e.2.text ++ [';'])

/-- the fixed layout: one entry per line -/
def render (doc : Doc) : Str := doc.flatMap fun e => etext e ++ ['\n']

/-- a value after (some of) the reader's labelling passes: a word standing in the text together with the scalar it
    will mean, or a reference / an expression still to be labelled -/
inductive LV where
  | done (w : Str) (x : Scalar)
  | ref (name : Str)
  | expr (body : Str)
  deriving DecidableEq, Repr, Inhabited

abbrev LDoc := List (Str × LV)

def LV.text : LV → Str
  | .done w _ => w
  | .ref n => '$' :: n
  | .expr b => '"' :: (b ++ ['"'])

def LV.val : LV → Scalar
  | .done _ x => x
  | .ref n => .str ('$' :: n)
  | .expr b => .str b

/-- thread the lexer state through the values of a flat document, in text order -/
def mapSt {α β : Type} (f : LexSt → α → LexSt × β) : LexSt → List (Str × α) → LexSt × List (Str × β)
  | st, [] => (st, [])
  | st, (k, v) :: es => ((mapSt f (f st v).1 es).1, (k, (f st v).2) :: (mapSt f (f st v).1 es).2)

/-- pass 1: quoted strings become `STRINGLITERALnnnnnn` -/
def lab1 (st : LexSt) : DV → LexSt × LV
  | .lit (.bare w) => (st, .done w (parseValue w))
  | .lit (.quoted _ b) =>
    ({ st.fresh.2 with lits := st.fresh.2.lits.set st.fresh.1 b }, .done (litPh st.fresh.1) (C02.litVal b))
  | .ref n => (st, .ref n)
  | .expr b => (st, .expr b)

def selE : LV → Option Str
  | .expr b => some b
  | _ => none

def selR : LV → Option Str
  | .ref n => some ('$' :: n)
  | _ => none

/-- passes 2 and 3: the selected values become `EXPRESSIONnnnnnn`, their text goes to the expression table -/
def labE (sel : LV → Option Str) (st : LexSt) (v : LV) : LexSt × LV :=
  match sel v with
  | some t => ({ st.fresh.2 with exprs := st.fresh.2.exprs.set st.fresh.1 ⟨t, C05.phOf st.fresh.1⟩ },
                .done (C05.phOf st.fresh.1) (.str (C05.phOf st.fresh.1)))
  | none => (st, v)

/-- the three passes in the reader's order: all quoted strings, then all double-quoted expressions, then all bare
    references, each in text order -/
def labelAll (c : Counter) (doc : Doc) : LexSt × LDoc :=
  let r1 := mapSt lab1 { counter := c } doc
  let r2 := mapSt (labE selE) r1.1 r1.2
  mapSt (labE selR) r2.1 r2.2

def ldata (d : LDoc) : Entries := d.map fun e => (.str e.1, .leaf e.2.val)

/-- what a flat document with expressions means to the native parser -/
def exprSD (c : Counter) (doc : Doc) : SD :=
  { data := ldata (labelAll c doc).2, exprs := (labelAll c doc).1.exprs }

/-! ### examples: `exprSD` against `parseNative` -/

def ex1 : Doc :=
  [("a".toList, .lit (.bare "1".toList)), ("ab".toList, .lit (.bare "20".toList)),
   ("c".toList, .expr "$d * 2 + $ab".toList), ("d".toList, .expr "$a + $ab".toList), ("e".toList, .ref "c".toList)]

def ex2 : Doc :=
  [("s".toList, .lit (.quoted '\'' "x y".toList)), ("r".toList, .ref "s".toList),
   ("t".toList, .lit (.quoted '"' "lit".toList)), ("u".toList, .expr "$s + 1".toList), ("v".toList, .ref "u".toList),
   ("w".toList, .expr "($r)".toList)]

def ex3 : Doc :=
  [("x".toList, .ref "y".toList), ("y".toList, .expr "$z*$z".toList), ("z".toList, .lit (.bare "3".toList)),
   ("n".toList, .lit (.quoted '"' "7".toList))]

theorem ex1_render : render ex1 = "a 1;\nab 20;\nc \"$d * 2 + $ab\";\nd \"$a + $ab\";\ne $c;\n".toList := by decide +kernel

/-- all of a parse result that matters, as a decidable tuple -/
def fieldsOf (r : Except ParseErr (SD × Counter)) : Option (Entries × Tbl ExprEntry × Tbl Str × Tbl Str × Tbl InclEntry × Counter) :=
  match r with
  | .ok (s, c) => some (s.data, s.exprs, s.lineC, s.blockC, s.incl, c)
  | .error _ => none

theorem eq_of_fieldsOf {r : Except ParseErr (SD × Counter)} {s : SD} {c : Counter}
    (h : fieldsOf r = some (s.data, s.exprs, s.lineC, s.blockC, s.incl, c)) : r = .ok (s, c) := by
  cases r with
  | error e => simp [fieldsOf] at h
  | ok v =>
    obtain ⟨⟨d, x, l, b, i⟩, c'⟩ := v
    simp only [fieldsOf, Option.some.injEq, Prod.mk.injEq] at h
    obtain ⟨rfl, rfl, rfl, rfl, rfl, rfl⟩ := h
    rfl

set_option synthInstance.maxSize 1000 in
theorem ex1_sd : fieldsOf (.ok (exprSD none ex1, none)) = fieldsOf (.ok (C05.exSD, none)) := by decide +kernel

set_option synthInstance.maxSize 1000 in
theorem ex1_parse : parseNative true [] none (render ex1) = .ok (exprSD none ex1, (labelAll none ex1).1.counter) :=
  eq_of_fieldsOf (by decide +kernel)

set_option synthInstance.maxSize 1000 in
theorem ex2_parse : parseNative true ['d'] (some 5) (render ex2) = .ok (exprSD (some 5) ex2, (labelAll (some 5) ex2).1.counter) :=
  eq_of_fieldsOf (by decide +kernel)

set_option synthInstance.maxSize 1000 in
theorem ex3_parse : parseNative true ['d'] (some 999998) (render ex3) =
    .ok (exprSD (some 999998) ex3, (labelAll (some 999998) ex3).1.counter) :=
  eq_of_fieldsOf (by decide +kernel)


/-! ## 2. well-formed documents -/

/-- a name: a source word made of word characters that types as a string key and is none of the two documentation keys -/
def keyOK (k : Str) : Bool :=
  isSrcWord k && k.all isWordChar && decide (parseKey k = .str k) &&
  decide (k ≠ "_variables".toList) && decide (k ≠ "_includes".toList)

/-- an expression text: well formed in the sense of C05acyclic, on one line, without `"`, `//`, `/*`, and not
    beginning with `;` (see `ex_false_match`) -/
def exprOK (b : Str) : Bool :=
  C05.wfExpr b && !b.contains '"' && b.all (fun c => !isLineBreak c) &&
  !isInfix ['/', '/'] b && !isInfix ['/', '*'] b && !(b.head? == some ';')

def dvOK : DV → Bool
  | .lit l => l.ok && C05.okScalar l.den
  | .ref n => !n.isEmpty && n.all isWordChar
  | .expr b => exprOK b

def exprBodies (doc : Doc) : List Str := doc.filterMap fun e => match e.2 with | .expr b => some b | _ => none

/-- number of ids a document draws from the counter -/
def countIds (doc : Doc) : Nat := (doc.filter fun e => match e.2 with | .lit (.bare _) => false | _ => true).length

def DocWF (doc : Doc) : Bool :=
  doc.all (fun e => keyOK e.1 && dvOK e.2) && decide (doc.map (·.1)).Nodup && decide (exprBodies doc).Nodup

/-! ### character facts -/

theorem wc_slash : isWordChar '/' = false := by decide +kernel
theorem wc_dquote : isWordChar '"' = false := by decide +kernel
theorem wc_squote : isWordChar '\'' = false := by decide +kernel
theorem wc_backslash : isWordChar '\\' = false := by decide +kernel
theorem wc_star : isWordChar '*' = false := by decide +kernel
theorem wc_semi : isWordChar ';' = false := by decide +kernel

theorem word_chars {n : Str} (h : n.all isWordChar = true) :
    ∀ c ∈ n, isWs c = false ∧ isQuote c = false ∧ c ≠ '\\' ∧ c ≠ '$' ∧ c ≠ '/' ∧ c ≠ '"' ∧ isLineBreak c = false := by
  intro c hc
  have hw := List.all_eq_true.mp h c hc
  have hws := C05.word_not_ws c hw
  refine ⟨hws, ?_, ?_, ?_, ?_, ?_, C02.Main.not_lineBreak_of_not_ws hws⟩
  · simp only [isQuote, Bool.or_eq_false_iff, beq_eq_false_iff_ne, ne_eq]
    constructor
    · rintro rfl; rw [wc_squote] at hw; cases hw
    · rintro rfl; rw [wc_dquote] at hw; cases hw
  · rintro rfl; rw [wc_backslash] at hw; cases hw
  · rintro rfl; rw [C05.isWordChar_dollar] at hw; cases hw
  · rintro rfl; rw [wc_slash] at hw; cases hw
  · rintro rfl; rw [wc_dquote] at hw; cases hw

theorem keyOK_iff {k : Str} : keyOK k = true ↔ isSrcWord k = true ∧ k.all isWordChar = true ∧ parseKey k = .str k ∧
    k ≠ "_variables".toList ∧ k ≠ "_includes".toList := by
  simp only [keyOK, Bool.and_eq_true, decide_eq_true_eq, and_assoc]

theorem exprOK_iff {b : Str} : exprOK b = true ↔ C05.wfExpr b = true ∧ '"' ∉ b ∧ (∀ c ∈ b, isLineBreak c = false) ∧
    isInfix ['/', '/'] b = false ∧ isInfix ['/', '*'] b = false ∧ b.head? ≠ some ';' := by
  simp only [exprOK, Bool.and_eq_true, Bool.not_eq_true', List.all_eq_true, List.contains_eq_mem,
    decide_eq_false_iff_not, and_assoc, beq_eq_false_iff_ne, ne_eq]

theorem docWF_iff {doc : Doc} : DocWF doc = true ↔
    (∀ e ∈ doc, keyOK e.1 = true ∧ dvOK e.2 = true) ∧ (doc.map (·.1)).Nodup ∧ (exprBodies doc).Nodup := by
  simp only [DocWF, Bool.and_eq_true, List.all_eq_true, decide_eq_true_eq, and_assoc]

theorem docWF_cons {e : Str × DV} {doc : Doc} (h : DocWF (e :: doc) = true) :
    keyOK e.1 = true ∧ dvOK e.2 = true ∧ DocWF doc = true := by
  rw [docWF_iff] at h
  obtain ⟨h1, h2, h3⟩ := h
  refine ⟨(h1 e (by simp)).1, (h1 e (by simp)).2, docWF_iff.mpr ⟨fun x hx => h1 x (by simp [hx]), ?_, ?_⟩⟩
  · exact (List.nodup_cons.mp (by simpa using h2)).2
  · unfold exprBodies at h3 ⊢
    rw [List.filterMap_cons] at h3
    split at h3
    · exact h3
    · exact (List.nodup_cons.mp h3).2

/-- an expression text contains `$` -/
theorem wfExpr_dollar {b : Str} (h : C05.wfExpr b = true) : '$' ∈ b := by
  simp only [C05.wfExpr, Bool.and_eq_true, beq_iff_eq, Bool.not_eq_true', List.isEmpty_eq_false_iff] at h
  obtain ⟨⟨⟨h1, _⟩, h3⟩, _⟩ := h
  rw [← h1, C05.Segs.render]
  exact List.mem_append_right _ (C05.rend_hasD _ h3)

/-- what the stages need to know about a written value -/
structure VFacts (s : Str) : Prop where
  nolb : ∀ c ∈ s, isLineBreak c = false
  noSS : isInfix ['/', '/'] s = false
  noSA : isInfix ['/', '*'] s = false

theorem isInfix_slash_notin {s : Str} (b : Char) (h : '/' ∉ s) : isInfix ['/', b] s = false :=
  C02.isInfix_head_notin '/' [b] s h

theorem vfacts_word {n : Str} (h : n.all isWordChar = true) : VFacts n :=
  ⟨fun c hc => (word_chars h c hc).2.2.2.2.2.2, isInfix_slash_notin _ fun hm => (word_chars h _ hm).2.2.2.2.1 rfl,
   isInfix_slash_notin _ fun hm => (word_chars h _ hm).2.2.2.2.1 rfl⟩

theorem vfacts_tok {t : STok} (ht : C02.TokOK t) : VFacts t.text := by
  obtain ⟨c0, r, e, hws, _, hr⟩ := C02.Main.tok_shape ht
  refine ⟨?_, (C02.Main.tok_noPair ht (Or.inl rfl)).1, (C02.Main.tok_noPair ht (Or.inr rfl)).1⟩
  rw [e]
  intro c hc
  rcases List.mem_cons.mp hc with rfl | hc
  · exact C02.Main.not_lineBreak_of_not_ws hws
  · exact hr c hc

theorem lit_tokOK {l : Lit} (h : l.ok = true) : C02.TokOK l.tok := by
  cases l with
  | bare w => exact Or.inl h
  | quoted q b => exact h

theorem vfacts_cons {c : Char} {s : Str} (hc : isLineBreak c = false) (hc' : c ≠ '/') (h : VFacts s) : VFacts (c :: s) := by
  refine ⟨?_, ?_, ?_⟩
  · intro x hx
    rcases List.mem_cons.mp hx with rfl | hx
    · exact hc
    · exact h.nolb x hx
  · exact C02.Main.infix2_append (x := [c]) (C02.Main.infix2_single _ _ _) h.noSS (fun h1 _ => by simp at h1; exact hc' h1)
  · exact C02.Main.infix2_append (x := [c]) (C02.Main.infix2_single _ _ _) h.noSA (fun h1 _ => by simp at h1; exact hc' h1)

theorem vfacts_snoc {c : Char} {s : Str} (hc : isLineBreak c = false) (h1 : c ≠ '/') (h2 : c ≠ '*') (h : VFacts s) :
    VFacts (s ++ [c]) := by
  refine ⟨?_, ?_, ?_⟩
  · intro x hx
    rcases List.mem_append.mp hx with hx | hx
    · exact h.nolb x hx
    · simp at hx; subst hx; exact hc
  · exact C02.Main.infix2_append h.noSS (C02.Main.infix2_single _ _ _) (fun _ h' => by simp at h'; exact h1 h')
  · exact C02.Main.infix2_append h.noSA (C02.Main.infix2_single _ _ _) (fun _ h' => by simp at h'; exact h2 h')

theorem vfacts_append {x y : Str} (hx : VFacts x) (hy : VFacts y) (h : y.head? ≠ some '/' ∧ y.head? ≠ some '*') :
    VFacts (x ++ y) := by
  refine ⟨?_, ?_, ?_⟩
  · intro c hc
    rcases List.mem_append.mp hc with hc | hc
    · exact hx.nolb c hc
    · exact hy.nolb c hc
  · exact C02.Main.infix2_append hx.noSS hy.noSS (fun _ h' => h.1 h')
  · exact C02.Main.infix2_append hx.noSA hy.noSA (fun _ h' => h.2 h')

theorem vfacts_dv {v : DV} (h : dvOK v = true) : VFacts v.text := by
  cases v with
  | lit l =>
    simp only [dvOK, Bool.and_eq_true] at h
    exact vfacts_tok (lit_tokOK h.1)
  | ref n =>
    simp only [dvOK, Bool.and_eq_true, Bool.not_eq_true', List.isEmpty_eq_false_iff] at h
    exact vfacts_cons (by decide) (by decide) (vfacts_word h.2)
  | expr b =>
    obtain ⟨_, _, h3, h4, h5, _⟩ := exprOK_iff.mp h
    exact vfacts_cons (by decide) (by decide) (vfacts_snoc (by decide) (by decide) (by decide) ⟨h3, h4, h5⟩)

theorem key_tokOK {k : Str} (h : keyOK k = true) : C02.TokOK (.word k) := Or.inl (keyOK_iff.mp h).1

theorem vfacts_etext {e : Str × DV} (hk : keyOK e.1 = true) (hv : dvOK e.2 = true) : VFacts (etext e) := by
  unfold etext
  have h1 : VFacts (e.2.text ++ [';']) := vfacts_snoc (by decide) (by decide) (by decide) (vfacts_dv hv)
  have h2 : VFacts (' ' :: (e.2.text ++ [';'])) := vfacts_cons (by decide) (by decide) h1
  exact vfacts_append (vfacts_tok (t := .word e.1) (key_tokOK hk)) h2 (by simp)

/-- an entry starts with a character that is neither blank nor `#` and ends with `;` -/
theorem etext_shape {e : Str × DV} (hk : keyOK e.1 = true) :
    ∃ c0 r, etext e = c0 :: r ∧ isWs c0 = false ∧ c0 ≠ '#' := by
  obtain ⟨c0, r, e', hws, hh, _⟩ := C02.Main.tok_shape (key_tokOK hk)
  simp only [STok.text] at e'
  exact ⟨c0, r ++ ' ' :: (e.2.text ++ [';']), by rw [etext, e']; rfl, hws, hh⟩

/-! ## 3. the front stages and the normalisation -/

def tailD (es : Doc) : Str := es.flatMap fun e => ' ' :: etext e

def bodyD : Doc → Str
  | [] => []
  | e :: es => etext e ++ tailD es

theorem lineSt_append : ∀ (x y : Str) (st : Bool), C02.Main.lineSt st (x ++ y) = C02.Main.lineSt (C02.Main.lineSt st x) y
  | [], _, _ => rfl
  | c :: x, y, st => by simp [C02.Main.lineSt, lineSt_append x y]

theorem noHash_line {e : Str × DV} (hk : keyOK e.1 = true) (hv : dvOK e.2 = true) (rest : Str) :
    C02.Main.noHash true (etext e ++ '\n' :: rest) = C02.Main.noHash true rest := by
  obtain ⟨c0, r, he, hws, hh⟩ := etext_shape (e := e) hk
  have hf := vfacts_etext hk hv
  rw [he] at hf ⊢
  have hlb : isLineBreak c0 = false := hf.nolb c0 (by simp)
  have hc : (c0 == '#') = false := by simpa using hh
  have h2 := C02.Main.noHash_false r (fun c hc => hf.nolb c (by simp [hc]))
  have hnl : isLineBreak '\n' = true := by decide
  have e1 : c0 :: r ++ '\n' :: rest = c0 :: (r ++ ('\n' :: rest)) := rfl
  rw [e1]
  simp only [C02.Main.noHash, C02.Main.nextSt, hlb, hws, hc, Bool.and_false, Bool.false_eq_true, if_false, Bool.not_false,
    Bool.true_and]
  rw [C02.Main.noHash_append, h2.1, h2.2]
  simp [C02.Main.noHash, C02.Main.nextSt, hnl]

theorem render_cons (e : Str × DV) (es : Doc) : render (e :: es) = etext e ++ '\n' :: render es := by
  simp [render]

theorem render_noHash : ∀ (doc : Doc), DocWF doc = true → C02.Main.noHash true (render doc) = true
  | [], _ => rfl
  | e :: es, h => by
    obtain ⟨hk, hv, hes⟩ := docWF_cons h
    rw [render_cons, noHash_line hk hv]
    exact render_noHash es hes

theorem render_noPair {b : Char} (hb : b = '/' ∨ b = '*') : ∀ (doc : Doc), DocWF doc = true →
    isInfix ['/', b] (render doc) = false
  | [], _ => rfl
  | e :: es, h => by
    obtain ⟨hk, hv, hes⟩ := docWF_cons h
    have hf := vfacts_etext hk hv
    have e1 : render (e :: es) = (etext e ++ ['\n']) ++ render es := by rw [render_cons]; simp
    rw [e1]
    refine C02.Main.infix2_append ?_ (render_noPair hb es hes) (fun h1 _ => by simp at h1)
    refine C02.Main.infix2_append ?_ (C02.Main.infix2_single _ _ _) (fun _ h' => by rcases hb with rfl | rfl <;> simp at h')
    rcases hb with rfl | rfl
    · exact hf.noSS
    · exact hf.noSA

theorem render_noMarkup {doc : Doc} (h : DocWF doc = true) : C02.NoMarkup (render doc) :=
  ⟨render_noPair (Or.inl rfl) doc h, render_noPair (Or.inr rfl) doc h, C02.Main.noHash_sound (render_noHash doc h)⟩

theorem etext_no_nl {e : Str × DV} (hk : keyOK e.1 = true) (hv : dvOK e.2 = true) : ∀ c ∈ etext e, c ≠ '\n' := by
  intro c hc
  rintro rfl
  have := (vfacts_etext hk hv).nolb _ hc
  rw [C02.isLineBreak_nl] at this; cases this

theorem map_render : ∀ (doc : Doc), DocWF doc = true →
    ' ' :: (render doc).map (fun ch => if ch == '\n' then ' ' else ch) = tailD doc ++ [' ']
  | [], _ => rfl
  | e :: es, h => by
    obtain ⟨hk, hv, hes⟩ := docWF_cons h
    have ih := map_render es hes
    rw [render_cons, List.map_append, C02.map_nl_id _ (etext_no_nl hk hv), List.map_cons]
    simp only [beq_self_eq_true, if_true]
    rw [ih]
    simp [tailD]

theorem tailD_cons (e : Str × DV) (es : Doc) : tailD (e :: es) = ' ' :: (etext e ++ tailD es) := by
  simp [tailD]

theorem etext_last (e : Str × DV) : etext e = (e.1 ++ ' ' :: e.2.text) ++ [';'] := by simp [etext]

theorem tailD_last : ∀ (es : Doc) (x : Str), ∃ y, x ++ [';'] ++ tailD es = y ++ [';']
  | [], x => ⟨x, by simp [tailD]⟩
  | e :: es, x => by
    obtain ⟨y, hy⟩ := tailD_last es (e.1 ++ ' ' :: e.2.text)
    refine ⟨x ++ [';'] ++ [' '] ++ y, ?_⟩
    rw [tailD_cons, etext_last]
    simp only [List.append_assoc, List.cons_append, List.nil_append] at hy ⊢
    rw [hy]

/-- newline removal and `strip` on the rendered document -/
theorem normalise_render {doc : Doc} (h : DocWF doc = true) :
    strip ((render doc).map fun ch => if ch == '\n' then ' ' else ch) = bodyD doc := by
  cases doc with
  | nil => rfl
  | cons e es =>
    obtain ⟨hk, hv, hes⟩ := docWF_cons h
    have hm := map_render (e :: es) h
    rw [tailD_cons] at hm
    simp only [List.cons_append, List.cons.injEq, true_and] at hm
    rw [hm]
    obtain ⟨c0, r, he, hws, _⟩ := etext_shape (e := e) hk
    obtain ⟨y, hy⟩ := tailD_last es (e.1 ++ ' ' :: e.2.text)
    rw [← etext_last] at hy
    have := C02.strip_core [] (etext e ++ tailD es) [' '] (r ++ tailD es) y c0 ';' rfl (by decide)
      (by rw [he]; rfl) hy hws (by decide)
    simpa [bodyD, List.append_assoc] using this

/-! ## 4. pass 1: the literal stage -/

def etextL (e : Str × LV) : Str := e.1 ++ ' ' :: (e.2.text ++ [';'])

def tailB (es : LDoc) : Str := es.flatMap fun e => ' ' :: etextL e

def bodyB : LDoc → Str
  | [] => []
  | e :: es => etextL e ++ tailB es

theorem tailB_cons (e : Str × LV) (es : LDoc) : tailB (e :: es) = ' ' :: (etextL e ++ tailB es) := by
  simp [tailB]

theorem mapSt_cons {α β : Type} (f : LexSt → α → LexSt × β) (st : LexSt) (k : Str) (v : α) (es : List (Str × α)) :
    mapSt f st ((k, v) :: es) = ((mapSt f (f st v).1 es).1, (k, (f st v).2) :: (mapSt f (f st v).1 es).2) := rfl

theorem mapSt_nil {α β : Type} (f : LexSt → α → LexSt × β) (st : LexSt) : mapSt f st [] = (st, []) := rfl

/-- a double-quoted text with `$` is kept verbatim by the literal stage -/
theorem lex_expr (b rest : Str) (st st' : LexSt) (out : Str) (hq : '"' ∉ b) (hd : '$' ∈ b)
    (hrest : ∀ fuel prev, rest.length ≤ fuel → prev ≠ some '\\' → lexLiteralsFuel fuel st prev rest = .ok (st', out)) :
    ∀ fuel prev, ('"' :: (b ++ ['"']) ++ rest).length ≤ fuel → prev ≠ some '\\' →
      lexLiteralsFuel fuel st prev ('"' :: (b ++ ['"']) ++ rest) = .ok (st', '"' :: (b ++ ['"']) ++ out) := by
  intro fuel prev hf hp
  cases fuel with
  | zero => simp at hf
  | succ f =>
    have hpe : (prev == some '\\') = false := by simpa using hp
    have hs : splitAtChar '"' (b ++ ['"'] ++ rest) = some (b, rest) := by
      simpa using C02.splitAtChar_skip '"' b rest hq
    have hc : b.contains '$' = true := by simpa using hd
    have hr := hrest f (some '"') (by simp at hf ⊢; omega) (by decide)
    have hqq : isQuote '"' = true := by decide
    simp only [List.cons_append, lexLiteralsFuel, hqq, if_true, hpe, Bool.false_eq_true, if_false, hs, hc,
      beq_self_eq_true, Bool.and_self, hr]
    simp [bind, Except.bind, pure, Except.pure]

theorem lab1_quoted (st : LexSt) (q : Char) (b : Str) :
    (lab1 st (.lit (.quoted q b))).1 = C02.withLab st (C02.labelTok (C02.labOf st) (.quoted q b)).1 ∧
    (lab1 st (.lit (.quoted q b))).2.text = (C02.labelTok (C02.labOf st) (.quoted q b)).2 := ⟨rfl, rfl⟩

theorem lex1_val (v : DV) (hv : dvOK v = true) (rest : Str) (st st' : LexSt) (out : Str)
    (hrest : ∀ fuel prev, rest.length ≤ fuel → prev ≠ some '\\' →
      lexLiteralsFuel fuel (lab1 st v).1 prev rest = .ok (st', out)) :
    ∀ fuel prev, (v.text ++ rest).length ≤ fuel → prev ≠ some '\\' →
      lexLiteralsFuel fuel st prev (v.text ++ rest) = .ok (st', (lab1 st v).2.text ++ out) := by
  cases v with
  | lit l =>
    simp only [dvOK, Bool.and_eq_true] at hv
    cases l with
    | bare w =>
      have hc := C02.okWord_chars (Or.inl hv.1)
      exact C02.lex_copy w rest st st' out (fun c hc' => (hc c hc').1) (fun c hc' => (hc c hc').2.2.1) hrest
    | quoted q b =>
      have := C02.lex_quoted q b rest st st' out hv.1 (by rw [← (lab1_quoted st q b).1]; exact hrest)
      rw [← (lab1_quoted st q b).2] at this
      exact this
  | ref n =>
    simp only [dvOK, Bool.and_eq_true, Bool.not_eq_true', List.isEmpty_eq_false_iff] at hv
    have hc := word_chars hv.2
    refine C02.lex_copy ('$' :: n) rest st st' out ?_ ?_ hrest
    · intro c hc'
      rcases List.mem_cons.mp hc' with rfl | hc'
      · decide
      · exact (hc c hc').2.1
    · intro c hc'
      rcases List.mem_cons.mp hc' with rfl | hc'
      · decide
      · exact (hc c hc').2.2.1
  | expr b =>
    obtain ⟨h1, h2, _⟩ := exprOK_iff.mp hv
    exact lex_expr b rest st st' out h2 (wfExpr_dollar h1) hrest

theorem lex1_entry (e : Str × DV) (hk : keyOK e.1 = true) (hv : dvOK e.2 = true) (rest : Str) (st st' : LexSt) (out : Str)
    (hrest : ∀ fuel prev, rest.length ≤ fuel → prev ≠ some '\\' →
      lexLiteralsFuel fuel (lab1 st e.2).1 prev rest = .ok (st', out)) :
    ∀ fuel prev, (etext e ++ rest).length ≤ fuel → prev ≠ some '\\' →
      lexLiteralsFuel fuel st prev (etext e ++ rest) = .ok (st', etextL (e.1, (lab1 st e.2).2) ++ out) := by
  have hkc := C02.okWord_chars (Or.inl (keyOK_iff.mp hk).1)
  have e1 : etext e ++ rest = (e.1 ++ [' ']) ++ (e.2.text ++ ([';'] ++ rest)) := by simp [etext]
  have e2 : etextL (e.1, (lab1 st e.2).2) ++ out = (e.1 ++ [' ']) ++ ((lab1 st e.2).2.text ++ ([';'] ++ out)) := by
    simp [etextL]
  rw [e1, e2]
  refine C02.lex_copy (e.1 ++ [' ']) _ st st' _ ?_ ?_ ?_
  · intro c hc
    rcases List.mem_append.mp hc with hc | hc
    · exact (hkc c hc).1
    · simp at hc; subst hc; decide
  · intro c hc
    rcases List.mem_append.mp hc with hc | hc
    · exact (hkc c hc).2.2.1
    · simp at hc; subst hc; decide
  · refine lex1_val e.2 hv _ st st' _ ?_
    exact C02.lex_copy [';'] rest _ st' out (by decide) (by decide) hrest

theorem lex1_tail : ∀ (es : Doc), (∀ e ∈ es, keyOK e.1 = true ∧ dvOK e.2 = true) →
    ∀ (rest : Str) (st st' : LexSt) (out : Str),
    (∀ fuel prev, rest.length ≤ fuel → prev ≠ some '\\' →
      lexLiteralsFuel fuel (mapSt lab1 st es).1 prev rest = .ok (st', out)) →
    ∀ fuel prev, (tailD es ++ rest).length ≤ fuel → prev ≠ some '\\' →
      lexLiteralsFuel fuel st prev (tailD es ++ rest) = .ok (st', tailB (mapSt lab1 st es).2 ++ out)
  | [], _, rest, st, st', out, hrest => by simpa [tailD, tailB, mapSt_nil] using hrest
  | (k, v) :: es, h, rest, st, st', out, hrest => by
    obtain ⟨hk, hv⟩ := h (k, v) (by simp)
    rw [mapSt_cons, tailD_cons, tailB_cons]
    have e1 : ' ' :: (etext (k, v) ++ tailD es) ++ rest = [' '] ++ (etext (k, v) ++ (tailD es ++ rest)) := by simp
    have e2 : ' ' :: (etextL (k, (lab1 st v).2) ++ tailB (mapSt lab1 (lab1 st v).1 es).2) ++ out =
        [' '] ++ (etextL (k, (lab1 st v).2) ++ (tailB (mapSt lab1 (lab1 st v).1 es).2 ++ out)) := by simp
    rw [e1, e2]
    refine C02.lex_copy [' '] _ st st' _ (by decide) (by decide) ?_
    refine lex1_entry (k, v) hk hv _ st st' _ ?_
    exact lex1_tail es (fun e he => h e (by simp [he])) rest _ st' out (by rw [mapSt_cons] at hrest; exact hrest)

/-- the literal stage on the normalised text of a well-formed document -/
theorem lex1_body {doc : Doc} (h : DocWF doc = true) (st : LexSt) :
    lexLiteralsFuel ((bodyD doc).length + 1) st none (bodyD doc) =
      .ok ((mapSt lab1 st doc).1, bodyB (mapSt lab1 st doc).2) := by
  have hall := (docWF_iff.mp h).1
  cases doc with
  | nil => rfl
  | cons e es =>
    obtain ⟨k, v⟩ := e
    obtain ⟨hk, hv⟩ := hall (k, v) (by simp)
    have := lex1_entry (k, v) hk hv (tailD es ++ []) st (mapSt lab1 (lab1 st v).1 es).1
      (tailB (mapSt lab1 (lab1 st v).1 es).2 ++ [])
      (lex1_tail es (fun e he => hall e (by simp [he])) [] _ _ []
        (fun fuel prev _ _ => C02.lex_nil fuel _ prev))
      ((bodyD ((k, v) :: es)).length + 1) none (by simp [bodyD]) (by simp)
    simpa [bodyD, bodyB, mapSt_cons] using this

/-! ## 5. pass 2: double-quoted expressions -/

/-- a word standing in the text after a labelling pass -/
def wordOK (w : Str) : Prop := isWordTok w = true ∧ isPhTok w = false ∧ ∀ c ∈ w, c ≠ '"' ∧ c ≠ '$'

def lvOK : LV → Prop
  | .done w _ => wordOK w
  | .ref n => n ≠ [] ∧ n.all isWordChar = true
  | .expr b => exprOK b = true

def ldocOK (d : LDoc) : Prop := ∀ e ∈ d, keyOK e.1 = true ∧ lvOK e.2

def quoteE (b : Str) : Str := '"' :: (b ++ ['"'])

def exprBodiesL (d : LDoc) : List Str := d.filterMap fun e => selE e.2

def exprTexts (d : LDoc) : List Str := (exprBodiesL d).map quoteE

/-- the loop over the matches of `"[^"]*\$.*?"` in `lexExpressions` -/
def foldE (found : List Str) (st : LexSt) (s : Str) : LexSt × Str :=
  found.foldl (fun (acc : LexSt × Str) e =>
    ({ acc.1.fresh.2 with
        exprs := acc.1.fresh.2.exprs.set acc.1.fresh.1 ⟨e.filter (· != '"'), kwExpr ++ padSix acc.1.fresh.1⟩ },
      replaceAll e (kwExpr ++ padSix acc.1.fresh.1) acc.2)) (st, s)

theorem lexExpressions_eq (st : LexSt) (s : Str) :
    lexExpressions st s =
      lexRefsFuel ((foldE (findExprsFuel (s.length + 1) s) st s).2.length + 1)
        (foldE (findExprsFuel (s.length + 1) s) st s).1 (foldE (findExprsFuel (s.length + 1) s) st s).2 := rfl

theorem foldE_nil (st : LexSt) (s : Str) : foldE [] st s = (st, s) := rfl

theorem foldE_cons (e : Str) (fs : List Str) (st : LexSt) (s : Str) :
    foldE (e :: fs) st s =
      foldE fs { st.fresh.2 with
          exprs := st.fresh.2.exprs.set st.fresh.1 ⟨e.filter (· != '"'), kwExpr ++ padSix st.fresh.1⟩ }
        (replaceAll e (kwExpr ++ padSix st.fresh.1) s) := rfl

/-! ### `replaceAll` -/

theorem replaceAllFuel_nil (p rep : Str) (fuel : Nat) : replaceAllFuel p rep fuel [] = [] := by
  cases fuel <;> rfl

theorem replaceAllFuel_id (p rep : Str) : ∀ (fuel : Nat) (s : Str), isInfix p s = false → s.length ≤ fuel →
    replaceAllFuel p rep fuel s = s
  | 0, s, _, hf => by cases s with | nil => rfl | cons c r => simp at hf
  | fuel + 1, [], _, _ => rfl
  | fuel + 1, c :: r, h, hf => by
    rw [C02.isInfix_cons] at h
    simp only [Bool.or_eq_false_iff] at h
    simp only [replaceAllFuel, h.1, Bool.false_and, Bool.false_eq_true, if_false]
    rw [replaceAllFuel_id p rep fuel r h.2 (by simp at hf; omega)]

theorem replaceAllFuel_skip (q rep : Str) : ∀ (A s : Str) (fuel : Nat), '"' ∉ A →
    replaceAllFuel ('"' :: q) rep (fuel + A.length) (A ++ s) = A ++ replaceAllFuel ('"' :: q) rep fuel s
  | [], s, fuel, _ => by simp
  | a :: A, s, fuel, h => by
    have ha : ('"' == a) = false := by
      simp only [beq_eq_false_iff_ne, ne_eq]; rintro rfl; exact h (by simp)
    have ih := replaceAllFuel_skip q rep A s fuel (fun hm => h (by simp [hm]))
    have e : fuel + (a :: A).length = (fuel + A.length) + 1 := by simp; omega
    rw [e, List.cons_append]
    simp only [replaceAllFuel, C02.isPrefixOf_cc, ha, Bool.false_and, Bool.false_eq_true, if_false, ih]
    rfl

theorem replaceAllFuel_hit (p rep s : Str) (fuel : Nat) (hp : p ≠ []) :
    replaceAllFuel p rep (fuel + 1) (p ++ s) = rep ++ replaceAllFuel p rep fuel s := by
  cases p with
  | nil => exact absurd rfl hp
  | cons a p =>
    have h1 : (a :: p).isPrefixOf (a :: (p ++ s)) = true := by
      have := C05.isPrefixOf_append (a :: p) s
      simpa using this
    have h2 : (a :: (p ++ s)).drop (a :: p).length = s := by
      have := C05.drop_len_append (a :: p) s
      simpa using this
    rw [List.cons_append]
    simp only [replaceAllFuel, h1, h2, List.isEmpty_cons, Bool.not_false, Bool.and_self, if_true]

/-- one occurrence, in front of which there is no `"` and behind which the pattern does not occur -/
theorem replaceAll_once (q rep A s : Str) (hA : '"' ∉ A) (hs : isInfix ('"' :: q) s = false) :
    replaceAll ('"' :: q) rep (A ++ ('"' :: q) ++ s) = A ++ rep ++ s := by
  unfold replaceAll
  have e : (A ++ ('"' :: q) ++ s).length + 1 = ((('"' :: q).length + s.length) + 1) + A.length := by
    simp; omega
  rw [e, List.append_assoc, replaceAllFuel_skip q rep A _ _ hA, replaceAllFuel_hit _ _ _ _ (by simp),
    replaceAllFuel_id _ _ _ _ hs (by omega)]
  simp

/-! ### where a quoted pattern can occur -/

theorem isInfix_skipQ (q : Str) : ∀ (A s : Str), '"' ∉ A → isInfix ('"' :: q) (A ++ s) = isInfix ('"' :: q) s
  | [], _, _ => rfl
  | a :: A, s, h => by
    have ha : ('"' == a) = false := by
      simp only [beq_eq_false_iff_ne, ne_eq]; rintro rfl; exact h (by simp)
    rw [List.cons_append, C02.isInfix_cons, C02.isPrefixOf_cc, ha, isInfix_skipQ q A s (fun hm => h (by simp [hm]))]
    simp

theorem prefix_qf : ∀ (b b' R : Str), '"' ∉ b → '"' ∉ b' → (b ++ ['"']).isPrefixOf (b' ++ '"' :: R) = true → b = b'
  | [], [], _, _, _, _ => rfl
  | [], c :: b', R, _, h', h => by
    simp only [List.nil_append, List.cons_append, C02.isPrefixOf_cc, Bool.and_eq_true, beq_iff_eq] at h
    exact absurd h.1 (fun e => h' (by simp [← e]))
  | c :: b, [], R, hb, _, h => by
    simp only [List.nil_append, List.cons_append, C02.isPrefixOf_cc, Bool.and_eq_true, beq_iff_eq] at h
    exact absurd h.1 (fun e => hb (by simp [e]))
  | c :: b, c' :: b', R, hb, hb', h => by
    simp only [List.cons_append, C02.isPrefixOf_cc, Bool.and_eq_true, beq_iff_eq] at h
    rw [h.1, prefix_qf b b' R (fun hm => hb (by simp [hm])) (fun hm => hb' (by simp [hm])) h.2]

theorem lvOK_text_noq {v : LV} (hv : lvOK v) (hs : selE v = none) : '"' ∉ v.text := by
  cases v with
  | done w x => exact fun hm => (hv.2.2 _ hm).1 rfl
  | ref n =>
    intro hm
    rcases List.mem_cons.mp hm with h | hm
    · cases h
    · exact (word_chars hv.2 _ hm).2.2.2.2.2.1 rfl
  | expr b => simp [selE] at hs

theorem key_noq {k : Str} (hk : keyOK k = true) : '"' ∉ k := fun hm =>
  (word_chars (keyOK_iff.mp hk).2.1 _ hm).2.2.2.2.2.1 rfl

theorem etextL_noq {e : Str × LV} (hk : keyOK e.1 = true) (hv : lvOK e.2) (hs : selE e.2 = none) : '"' ∉ etextL e := by
  intro hm
  simp only [etextL, List.mem_append, List.mem_cons, List.mem_singleton] at hm
  rcases hm with hm | hm | hm | hm
  · exact key_noq hk hm
  · cases hm
  · exact lvOK_text_noq hv hs hm
  · rcases hm with hm | hm
    · cases hm
    · cases hm

theorem exprBodiesL_cons_none {e : Str × LV} (d : LDoc) (hs : selE e.2 = none) :
    exprBodiesL (e :: d) = exprBodiesL d := by simp [exprBodiesL, hs]

theorem exprBodiesL_cons_some {e : Str × LV} {b : Str} (d : LDoc) (hs : selE e.2 = some b) :
    exprBodiesL (e :: d) = b :: exprBodiesL d := by simp [exprBodiesL, hs]

theorem selE_cases (v : LV) : (selE v = none) ∨ (∃ b, v = .expr b ∧ selE v = some b) := by
  cases v <;> simp [selE]

/-- the quoted form of an expression text does not occur in the text of a document that does not hold it -/
theorem noInfix_tail (b : Str) (hq : '"' ∉ b) (hh : ∃ c r, b = c :: r ∧ c ≠ ';') : ∀ (d : LDoc), ldocOK d →
    b ∉ exprBodiesL d → ∀ (P : Str), '"' ∉ P → isInfix (quoteE b) (P ++ tailB d) = false
  | [], _, _, P, hP => by
    rw [quoteE, tailB, List.flatMap_nil, List.append_nil]
    exact C02.isInfix_head_notin _ _ _ hP
  | (k, v) :: d, hd, hb, P, hP => by
    obtain ⟨hk, hv⟩ := hd (k, v) (by simp)
    have hd' : ldocOK d := fun e he => hd e (by simp [he])
    rcases selE_cases v with hs | ⟨b', rfl, hs⟩
    · rw [exprBodiesL_cons_none d hs] at hb
      have := noInfix_tail b hq hh d hd' hb (P ++ ' ' :: etextL (k, v)) (by
        intro hm
        rcases List.mem_append.mp hm with hm | hm
        · exact hP hm
        · rcases List.mem_cons.mp hm with hm | hm
          · cases hm
          · exact etextL_noq hk hv hs hm)
      rw [tailB_cons]
      simpa [List.append_assoc] using this
    · rw [exprBodiesL_cons_some d hs] at hb
      simp only [List.mem_cons, not_or] at hb
      obtain ⟨hne, hb⟩ := hb
      have hq' : '"' ∉ b' := (exprOK_iff.mp hv).2.1
      have ih := noInfix_tail b hq hh d hd' hb [';'] (by simp)
      have e : P ++ tailB ((k, LV.expr b') :: d) =
          (P ++ ' ' :: k ++ [' ']) ++ ('"' :: (b' ++ ('"' :: ([';'] ++ tailB d)))) := by
        simp [tailB_cons, etextL, LV.text]
      rw [e, quoteE, isInfix_skipQ _ _ _ (by
        intro hm
        simp only [List.mem_append, List.mem_cons, List.mem_singleton, List.not_mem_nil, or_false] at hm
        rcases hm with (hm | hm | hm) | hm
        · exact hP hm
        · cases hm
        · exact key_noq hk hm
        · cases hm)]
      rw [C02.isInfix_cons, isInfix_skipQ _ _ _ hq', C02.isInfix_cons]
      rw [quoteE] at ih
      rw [ih]
      simp only [C02.isPrefixOf_cc, beq_self_eq_true, Bool.true_and, Bool.or_false, Bool.or_eq_false_iff]
      constructor
      · cases hp : (b ++ ['"']).isPrefixOf (b' ++ '"' :: ([';'] ++ tailB d)) with
        | false => rfl
        | true => exact absurd (prefix_qf b b' _ hq hq' hp) hne
      · obtain ⟨c, r, rfl, hc⟩ := hh
        have : (c == ';') = false := by simpa using hc
        simp [C02.isPrefixOf_cc, this]

/-! ### the matches -/

theorem matchExprAt_ne {c : Char} (r : Str) (hc : c ≠ '"') : matchExprAt (c :: r) = none := by
  rw [matchExprAt.eq_def]
  split
  · rename_i h; simp only [List.cons.injEq] at h; exact absurd h.1 hc
  · rfl

theorem findExprsFuel_nil' (fuel : Nat) : findExprsFuel fuel [] = [] := by cases fuel <;> rfl

theorem findExprsFuel_skip : ∀ (A s : Str) (fuel : Nat), '"' ∉ A →
    findExprsFuel (fuel + A.length) (A ++ s) = findExprsFuel fuel s
  | [], s, fuel, _ => by simp
  | a :: A, s, fuel, h => by
    have ha : a ≠ '"' := by rintro rfl; exact h (by simp)
    have e : fuel + (a :: A).length = (fuel + A.length) + 1 := by simp; omega
    rw [e, List.cons_append]
    simp only [findExprsFuel, matchExprAt_ne _ ha]
    exact findExprsFuel_skip A s fuel (fun hm => h (by simp [hm]))

theorem findExprsFuel_hit (b s : Str) (fuel : Nat) (hq : '"' ∉ b) (hd : '$' ∈ b) :
    findExprsFuel (fuel + 1) ('"' :: (b ++ '"' :: s)) = quoteE b :: findExprsFuel fuel s := by
  have hs : splitAtChar '"' (b ++ '"' :: s) = some (b, s) := C02.splitAtChar_skip '"' b s hq
  have hc : b.contains '$' = true := by simpa using hd
  simp only [findExprsFuel, matchExprAt, hs, hc, if_true, quoteE]
  rfl

theorem findExprs_tail : ∀ (d : LDoc), ldocOK d → ∀ (P : Str) (fuel : Nat), '"' ∉ P → (P ++ tailB d).length ≤ fuel →
    findExprsFuel fuel (P ++ tailB d) = exprTexts d
  | [], _, P, fuel, hP, hf => by
    obtain ⟨f, rfl⟩ : ∃ f, fuel = f + P.length := ⟨fuel - P.length, by simp [tailB] at hf; omega⟩
    rw [findExprsFuel_skip P _ f hP]
    simp [tailB, findExprsFuel_nil', exprTexts, exprBodiesL]
  | (k, v) :: d, hd, P, fuel, hP, hf => by
    obtain ⟨hk, hv⟩ := hd (k, v) (by simp)
    have hd' : ldocOK d := fun e he => hd e (by simp [he])
    rcases selE_cases v with hs | ⟨b', rfl, hs⟩
    · have := findExprs_tail d hd' (P ++ ' ' :: etextL (k, v)) fuel (by
        intro hm
        rcases List.mem_append.mp hm with hm | hm
        · exact hP hm
        · rcases List.mem_cons.mp hm with hm | hm
          · cases hm
          · exact etextL_noq hk hv hs hm) (by simpa [tailB_cons, List.append_assoc] using hf)
      rw [exprTexts, exprBodiesL_cons_none d hs, tailB_cons]
      simpa [List.append_assoc, exprTexts] using this
    · obtain ⟨h1, hq', _⟩ := exprOK_iff.mp hv
      have e : P ++ tailB ((k, LV.expr b') :: d) =
          (P ++ ' ' :: k ++ [' ']) ++ ('"' :: (b' ++ ('"' :: ([';'] ++ tailB d)))) := by
        simp [tailB_cons, etextL, LV.text]
      rw [e] at hf ⊢
      obtain ⟨f, rfl⟩ : ∃ f, fuel = (f + 1) + (P ++ ' ' :: k ++ [' ']).length :=
        ⟨fuel - 1 - (P ++ ' ' :: k ++ [' ']).length, by simp at hf ⊢; omega⟩
      rw [findExprsFuel_skip _ _ _ (by
        intro hm
        simp only [List.mem_append, List.mem_cons, List.mem_singleton, List.not_mem_nil, or_false] at hm
        rcases hm with (hm | hm | hm) | hm
        · exact hP hm
        · cases hm
        · exact key_noq hk hm
        · cases hm), findExprsFuel_hit _ _ _ hq' (wfExpr_dollar h1),
        findExprs_tail d hd' [';'] f (by simp) (by simp at hf ⊢; omega)]
      simp [exprTexts, exprBodiesL, selE]

/-! ### the placeholder word `EXPRESSIONnnnnnn` -/

theorem kwExpr_chars : ∀ c ∈ kwExpr, isWs c = false ∧ Gen.delimiters.contains c = false ∧ c ≠ '$' ∧ c ≠ '"' ∧
    isQuote c = false := by decide

theorem digit_chars : ∀ c ∈ C02.asciiDigits, isWs c = false ∧ Gen.delimiters.contains c = false ∧ c ≠ '$' ∧ c ≠ '"' ∧
    isQuote c = false ∧ c ≠ 'S' ∧ c ≠ 'C' ∧ c ≠ 'I' := by decide

theorem phOf_chars (i : Nat) : ∀ c ∈ C05.phOf i, isWs c = false ∧ Gen.delimiters.contains c = false ∧ c ≠ '$' ∧
    c ≠ '"' ∧ isQuote c = false := by
  intro c hc
  simp only [C05.phOf, List.mem_append] at hc
  rcases hc with hc | hc
  · exact kwExpr_chars c hc
  · have := digit_chars c (C02.padSix_ascii i c hc)
    exact ⟨this.1, this.2.1, this.2.2.1, this.2.2.2.1, this.2.2.2.2.1⟩

theorem phOf_shape (i : Nat) :
    C05.phOf i = 'E' :: 'X' :: (['P', 'R', 'E', 'S', 'S', 'I', 'O', 'N'] ++ padSix i) := rfl

theorem phOf_word (i : Nat) : isWordTok (C05.phOf i) = true := by
  have h := phOf_chars i
  rw [phOf_shape] at h ⊢
  simp only [isWordTok, List.isEmpty_cons, Bool.not_false, Bool.true_and, Bool.and_true, List.all_eq_true,
    Bool.and_eq_true, Bool.not_eq_true']
  exact fun c hc => ⟨(h c hc).1, (h c hc).2.1⟩

theorem phOf_not_ph (i : Nat) : isPhTok (C05.phOf i) = false := by
  have hC : 'C' ∉ padSix i := fun h => (digit_chars _ (C02.padSix_ascii i _ h)).2.2.2.2.2.2.1 rfl
  have hI : 'I' ∉ padSix i := fun h => (digit_chars _ (C02.padSix_ascii i _ h)).2.2.2.2.2.2.2 rfl
  have e1 : "COMMENT".toList = ['C', 'O', 'M', 'M', 'E', 'N', 'T'] := rfl
  have e2 : "INCLUDE".toList = ['I', 'N', 'C', 'L', 'U', 'D', 'E'] := rfl
  simp only [isPhTok, isCommentTok, isIncludeTok, phOf_shape, e1, e2, List.cons_append, List.nil_append,
    C02.isInfix_cons, C02.isInfix_head_notin _ _ _ hC, C02.isInfix_head_notin _ _ _ hI]
  simp [C02.isPrefixOf_cc]

theorem phOf_noLit (i : Nat) : isInfix kwLit (C05.phOf i) = false := by
  have hS : 'S' ∉ padSix i := fun h => (digit_chars _ (C02.padSix_ascii i _ h)).2.2.2.2.2.1 rfl
  have e3 : kwLit = ['S', 'T', 'R', 'I', 'N', 'G', 'L', 'I', 'T', 'E', 'R', 'A', 'L'] := rfl
  simp only [phOf_shape, e3, List.cons_append, List.nil_append, C02.isInfix_cons, C02.isInfix_head_notin _ _ _ hS]
  simp [C02.isPrefixOf_cc]

theorem phOf_wordOK (i : Nat) : wordOK (C05.phOf i) :=
  ⟨phOf_word i, phOf_not_ph i, fun c hc => ⟨(phOf_chars i c hc).2.2.2.1, (phOf_chars i c hc).2.2.1⟩⟩

/-! ### the loop -/

theorem filter_quoteE {b : Str} (hq : '"' ∉ b) : (quoteE b).filter (· != '"') = b := by
  have : b.filter (· != '"') = b := by
    apply List.filter_eq_self.mpr
    intro c hc
    simp only [bne_iff_ne, ne_eq]
    rintro rfl; exact hq hc
  simp [quoteE, List.filter_cons, List.filter_append, this]

theorem labE_none {sel : LV → Option Str} {v : LV} (st : LexSt) (h : sel v = none) : labE sel st v = (st, v) := by
  simp [labE, h]

theorem labE_some {sel : LV → Option Str} {v : LV} {t : Str} (st : LexSt) (h : sel v = some t) :
    labE sel st v = ({ st.fresh.2 with exprs := st.fresh.2.exprs.set st.fresh.1 ⟨t, C05.phOf st.fresh.1⟩ },
      .done (C05.phOf st.fresh.1) (.str (C05.phOf st.fresh.1))) := by
  simp [labE, h]

theorem foldE_tail : ∀ (d : LDoc), ldocOK d → (exprBodiesL d).Nodup → ∀ (P : Str) (st : LexSt), '"' ∉ P →
    foldE (exprTexts d) st (P ++ tailB d) =
      ((mapSt (labE selE) st d).1, P ++ tailB (mapSt (labE selE) st d).2)
  | [], _, _, P, st, _ => rfl
  | (k, v) :: d, hd, hn, P, st, hP => by
    obtain ⟨hk, hv⟩ := hd (k, v) (by simp)
    have hd' : ldocOK d := fun e he => hd e (by simp [he])
    rcases selE_cases v with hs | ⟨b, rfl, hs⟩
    · rw [exprBodiesL_cons_none d hs] at hn
      have := foldE_tail d hd' hn (P ++ ' ' :: etextL (k, v)) st (by
        intro hm
        rcases List.mem_append.mp hm with hm | hm
        · exact hP hm
        · rcases List.mem_cons.mp hm with hm | hm
          · cases hm
          · exact etextL_noq hk hv hs hm)
      rw [mapSt_cons, labE_none st hs, exprTexts, exprBodiesL_cons_none d hs, tailB_cons, tailB_cons]
      simpa [List.append_assoc, exprTexts] using this
    · rw [exprBodiesL_cons_some d hs] at hn
      obtain ⟨hnb, hn⟩ := List.nodup_cons.mp hn
      obtain ⟨h1, hq, _, _, _, hh⟩ := exprOK_iff.mp hv
      have hne : ∃ c r, b = c :: r ∧ c ≠ ';' := by
        cases b with
        | nil => exact absurd (wfExpr_dollar h1) (by simp)
        | cons c r => exact ⟨c, r, rfl, fun e => hh (by simp [e])⟩
      have hni := noInfix_tail b hq hne d hd' hnb [';'] (by simp)
      have e : P ++ tailB ((k, LV.expr b) :: d) = (P ++ ' ' :: k ++ [' ']) ++ quoteE b ++ ([';'] ++ tailB d) := by
        simp [tailB_cons, etextL, LV.text, quoteE]
      have hA : '"' ∉ P ++ ' ' :: k ++ [' '] := by
        intro hm
        simp only [List.mem_append, List.mem_cons, List.mem_singleton, List.not_mem_nil, or_false] at hm
        rcases hm with (hm | hm | hm) | hm
        · exact hP hm
        · cases hm
        · exact key_noq hk hm
        · cases hm
      have hrep : replaceAll (quoteE b) (kwExpr ++ padSix st.fresh.1)
          ((P ++ ' ' :: k ++ [' ']) ++ quoteE b ++ ([';'] ++ tailB d)) =
          (P ++ ' ' :: k ++ [' ']) ++ (kwExpr ++ padSix st.fresh.1) ++ ([';'] ++ tailB d) :=
        replaceAll_once (b ++ ['"']) (kwExpr ++ padSix st.fresh.1) _ _ hA hni
      have ih := foldE_tail d hd' hn ((P ++ ' ' :: k ++ [' ']) ++ C05.phOf st.fresh.1 ++ [';'])
        { st.fresh.2 with exprs := st.fresh.2.exprs.set st.fresh.1 ⟨b, C05.phOf st.fresh.1⟩ } (by
          intro hm
          simp only [List.mem_append, List.mem_singleton] at hm
          rcases hm with (hm | hm) | hm
          · exact hA (by simpa using hm)
          · exact (phOf_chars _ _ hm).2.2.2.1 rfl
          · cases hm)
      rw [exprTexts, exprBodiesL_cons_some d hs, List.map_cons, foldE_cons, filter_quoteE hq, e]
      rw [hrep, mapSt_cons, labE_some st hs, tailB_cons]
      rw [show kwExpr ++ padSix st.fresh.1 = C05.phOf st.fresh.1 from rfl]
      simp only [List.append_assoc] at ih ⊢
      rw [exprTexts] at ih
      rw [ih]
      simp [etextL, LV.text]

theorem foldE_prefix (c : Char) (hc : c ≠ '"') : ∀ (fs : List Str), (∀ f ∈ fs, ∃ q, f = '"' :: q) → ∀ (st : LexSt) (s : Str),
    foldE fs st (c :: s) = ((foldE fs st s).1, c :: (foldE fs st s).2)
  | [], _, _, _ => rfl
  | f :: fs, h, st, s => by
    obtain ⟨q, rfl⟩ := h f (by simp)
    have e : replaceAll ('"' :: q) (kwExpr ++ padSix st.fresh.1) (c :: s) =
        c :: replaceAll ('"' :: q) (kwExpr ++ padSix st.fresh.1) s := by
      unfold replaceAll
      have := replaceAllFuel_skip q (kwExpr ++ padSix st.fresh.1) [c] s (s.length + 1) (by simpa using hc.symm)
      simpa using this
    rw [foldE_cons, foldE_cons, e]
    exact foldE_prefix c hc fs (fun f hf => h f (by simp [hf])) _ _

theorem tailB_body : ∀ (d : LDoc), d ≠ [] → tailB d = ' ' :: bodyB d
  | e :: d, _ => by rw [tailB_cons]; rfl

theorem exprTexts_quoted (d : LDoc) : ∀ f ∈ exprTexts d, ∃ q, f = '"' :: q := by
  intro f hf
  simp only [exprTexts, List.mem_map] at hf
  obtain ⟨b, _, rfl⟩ := hf
  exact ⟨_, rfl⟩

theorem mapSt_length {α β : Type} (f : LexSt → α → LexSt × β) : ∀ (st : LexSt) (d : List (Str × α)),
    (mapSt f st d).2.length = d.length
  | _, [] => rfl
  | st, (k, v) :: d => by rw [mapSt_cons]; simp [mapSt_length f _ d]

/-- the matches of the expression pattern in the text after the literal stage -/
theorem findExprs_body {d : LDoc} (hd : ldocOK d) :
    findExprsFuel ((bodyB d).length + 1) (bodyB d) = exprTexts d := by
  cases d with
  | nil => rfl
  | cons e d =>
    have := findExprs_tail (e :: d) hd [] ((bodyB (e :: d)).length + 1 + 1) (by simp)
      (by rw [List.nil_append, tailB_body _ (by simp)]; simp)
    rw [List.nil_append, tailB_body _ (by simp)] at this
    rw [← this]
    exact (findExprsFuel_skip [' '] (bodyB (e :: d)) ((bodyB (e :: d)).length + 1) (by simp)).symm

/-- the loop over the matches replaces every double-quoted expression by its placeholder word -/
theorem foldE_body {d : LDoc} (hd : ldocOK d) (hn : (exprBodiesL d).Nodup) (st : LexSt) :
    foldE (exprTexts d) st (bodyB d) = ((mapSt (labE selE) st d).1, bodyB (mapSt (labE selE) st d).2) := by
  cases d with
  | nil => rfl
  | cons e d =>
    have h := foldE_tail (e :: d) hd hn [] st (by simp)
    have hne : (mapSt (labE selE) st (e :: d)).2 ≠ [] := by
      intro h0
      have := mapSt_length (labE selE) st (e :: d)
      rw [h0] at this; simp at this
    rw [List.nil_append, List.nil_append, tailB_body _ (by simp), tailB_body _ hne,
      foldE_prefix ' ' (by decide) _ (exprTexts_quoted _)] at h
    simp only [Prod.mk.injEq, List.cons.injEq, true_and] at h
    exact Prod.ext h.1 h.2

/-! ## 6. pass 3: bare references -/

def countR (d : LDoc) : Nat := (d.filter fun e => (selR e.2).isSome).length

theorem lexRefs_zero (st : LexSt) (s : Str) : lexRefsFuel 0 st s = (st, s) := rfl

theorem lexRefs_none (fuel : Nat) (st : LexSt) (s : Str) (h : findRef s = none) : lexRefsFuel fuel st s = (st, s) := by
  cases fuel with
  | zero => rfl
  | succ f => simp [lexRefsFuel, h]

theorem lexRefs_some (f : Nat) (st : LexSt) (s b x a : Str) (h : findRef s = some (b, x, a)) :
    lexRefsFuel (f + 1) st s =
      lexRefsFuel f { st.fresh.2 with exprs := st.fresh.2.exprs.set st.fresh.1 ⟨x, C05.phOf st.fresh.1⟩ }
        (b ++ C05.phOf st.fresh.1 ++ a) := by
  simp only [lexRefsFuel, h]
  rfl

theorem selR_cases {v : LV} (h : selE v = none) : (∃ w x, v = .done w x ∧ selR v = none) ∨ (∃ n, v = .ref n ∧ selR v = some ('$' :: n)) := by
  cases v with
  | done w x => exact Or.inl ⟨w, x, rfl, rfl⟩
  | ref n => exact Or.inr ⟨n, rfl, rfl⟩
  | expr b => simp [selE] at h

theorem key_nod {k : Str} (hk : keyOK k = true) : '$' ∉ k := fun hm =>
  (word_chars (keyOK_iff.mp hk).2.1 _ hm).2.2.2.1 rfl

theorem countR_cons_none {e : Str × LV} (d : LDoc) (h : selR e.2 = none) : countR (e :: d) = countR d := by
  simp [countR, List.filter_cons, h]

theorem countR_cons_some {e : Str × LV} {t : Str} (d : LDoc) (h : selR e.2 = some t) : countR (e :: d) = countR d + 1 := by
  simp [countR, List.filter_cons, h]

theorem refStop_semi (s : Str) : C05.refStop (';' :: s) = true := by
  simp [C05.refStop, isRefChar, wc_semi]

theorem lexRefs_tail : ∀ (d : LDoc), ldocOK d → (∀ e ∈ d, selE e.2 = none) → ∀ (P : Str) (st : LexSt) (fuel : Nat),
    '$' ∉ P → countR d < fuel →
    lexRefsFuel fuel st (P ++ tailB d) = ((mapSt (labE selR) st d).1, P ++ tailB (mapSt (labE selR) st d).2)
  | [], _, _, P, st, fuel, hP, _ => by
    simpa [mapSt_nil, tailB] using lexRefs_none fuel st P (C05.findRef_none P hP)
  | (k, v) :: d, hd, hE, P, st, fuel, hP, hf => by
    obtain ⟨hk, hv⟩ := hd (k, v) (by simp)
    have hd' : ldocOK d := fun e he => hd e (by simp [he])
    have hE' : ∀ e ∈ d, selE e.2 = none := fun e he => hE e (by simp [he])
    rcases selR_cases (hE (k, v) (by simp)) with ⟨w, x, rfl, hs⟩ | ⟨n, rfl, hs⟩
    · rw [countR_cons_none d hs] at hf
      have := lexRefs_tail d hd' hE' (P ++ ' ' :: etextL (k, .done w x)) st fuel (by
        intro hm
        simp only [etextL, LV.text, List.mem_append, List.mem_cons, List.mem_singleton, List.not_mem_nil, or_false] at hm
        rcases hm with hm | hm | hm | hm | hm | hm
        · exact hP hm
        · cases hm
        · exact key_nod hk hm
        · cases hm
        · exact (hv.2.2 _ hm).2 rfl
        · cases hm) hf
      rw [mapSt_cons, labE_none st hs, tailB_cons, tailB_cons]
      simpa [List.append_assoc] using this
    · rw [countR_cons_some d hs] at hf
      obtain ⟨f, rfl⟩ : ∃ f, fuel = f + 1 := ⟨fuel - 1, by omega⟩
      have hA : '$' ∉ P ++ ' ' :: k ++ [' '] := by
        intro hm
        simp only [List.mem_append, List.mem_cons, List.mem_singleton, List.not_mem_nil, or_false] at hm
        rcases hm with (hm | hm | hm) | hm
        · exact hP hm
        · cases hm
        · exact key_nod hk hm
        · cases hm
      have e : P ++ tailB ((k, LV.ref n) :: d) = (P ++ ' ' :: k ++ [' ']) ++ ('$' :: n ++ (';' :: tailB d)) := by
        simp [tailB_cons, etextL, LV.text]
      have hfind : findRef (P ++ tailB ((k, LV.ref n) :: d)) =
          some (P ++ ' ' :: k ++ [' '], '$' :: n, ';' :: tailB d) := by
        rw [e, C05.findRef_skip _ _ hA, C05.findRef_hit n _ hv.1 hv.2 (refStop_semi _)]
        simp
      rw [lexRefs_some f st _ _ _ _ hfind]
      have ih := lexRefs_tail d hd' hE' ((P ++ ' ' :: k ++ [' ']) ++ C05.phOf st.fresh.1 ++ [';'])
        { st.fresh.2 with exprs := st.fresh.2.exprs.set st.fresh.1 ⟨'$' :: n, C05.phOf st.fresh.1⟩ } f (by
          intro hm
          simp only [List.mem_append, List.mem_singleton] at hm
          rcases hm with (hm | hm) | hm
          · exact hA (by simpa using hm)
          · exact (phOf_chars _ _ hm).2.2.1 rfl
          · cases hm) (by omega)
      rw [mapSt_cons, labE_some st hs, tailB_cons]
      simp only [List.append_assoc] at ih ⊢
      rw [show (';' :: tailB d) = [';'] ++ tailB d from rfl, ih]
      simp [etextL, LV.text]

theorem lexRefs_prefix (c : Char) (hc : c ≠ '$') : ∀ (fuel : Nat) (st : LexSt) (s : Str),
    lexRefsFuel fuel st (c :: s) = ((lexRefsFuel fuel st s).1, c :: (lexRefsFuel fuel st s).2)
  | 0, _, _ => rfl
  | f + 1, st, s => by
    have h := C05.findRef_cons_ne s hc
    cases hs : findRef s with
    | none =>
      rw [hs] at h
      rw [lexRefs_none _ _ _ hs, lexRefs_none _ _ _ (by simpa using h)]
    | some r =>
      obtain ⟨b, x, a⟩ := r
      rw [hs] at h
      rw [lexRefs_some f st s b x a hs, lexRefs_some f st (c :: s) (c :: b) x a (by simpa using h)]
      exact lexRefs_prefix c hc f _ _

theorem tailB_length : ∀ (d : LDoc), 2 * d.length ≤ (tailB d).length
  | [] => Nat.le_refl _
  | e :: d => by
    have := tailB_length d
    rw [tailB_cons]; simp [etextL]; omega

theorem countR_le (d : LDoc) : countR d ≤ d.length := List.length_filter_le _ _

/-- the reference loop replaces every bare reference by its placeholder word -/
theorem lexRefs_body {d : LDoc} (hd : ldocOK d) (hE : ∀ e ∈ d, selE e.2 = none) (st : LexSt) :
    lexRefsFuel ((bodyB d).length + 1) st (bodyB d) =
      ((mapSt (labE selR) st d).1, bodyB (mapSt (labE selR) st d).2) := by
  cases d with
  | nil => rfl
  | cons e d =>
    have hlen : countR (e :: d) < (bodyB (e :: d)).length + 1 := by
      have h1 := countR_le (e :: d)
      have h2 := tailB_length (e :: d)
      rw [tailB_body _ (by simp)] at h2
      simp at h1 h2 ⊢; omega
    have h := lexRefs_tail (e :: d) hd hE [] st _ (by simp) hlen
    have hne : (mapSt (labE selR) st (e :: d)).2 ≠ [] := by
      intro h0
      have := mapSt_length (labE selR) st (e :: d)
      rw [h0] at this; simp at this
    rw [List.nil_append, List.nil_append, tailB_body _ (by simp), tailB_body _ hne,
      lexRefs_prefix ' ' (by decide)] at h
    simp only [Prod.mk.injEq, List.cons.injEq, true_and] at h
    exact Prod.ext h.1 h.2

/-! ### what the passes keep -/

theorem mapSt_mem {α β : Type} (f : LexSt → α → LexSt × β) : ∀ (st : LexSt) (d : List (Str × α)) (e : Str × β),
    e ∈ (mapSt f st d).2 → ∃ st' v, (e.1, v) ∈ d ∧ e.2 = (f st' v).2
  | _, [], e, h => by simp [mapSt_nil] at h
  | st, (k, v) :: d, e, h => by
    rw [mapSt_cons] at h
    rcases List.mem_cons.mp h with rfl | h
    · exact ⟨st, v, by simp, rfl⟩
    · obtain ⟨st', v', h1, h2⟩ := mapSt_mem f _ d e h
      exact ⟨st', v', by simp [h1], h2⟩

theorem mapSt_keys {α β : Type} (f : LexSt → α → LexSt × β) : ∀ (st : LexSt) (d : List (Str × α)),
    (mapSt f st d).2.map (·.1) = d.map (·.1)
  | _, [] => rfl
  | st, (k, v) :: d => by rw [mapSt_cons]; simp [mapSt_keys f _ d]

theorem srcWord_wordOK {w : Str} (h : isSrcWord w = true) : wordOK w := by
  obtain ⟨h1, h2, h3⟩ := C02.srcWord_facts h
  refine ⟨h1, h2, fun c hc => ⟨?_, (h3 c hc).2.1⟩⟩
  rintro rfl
  have := (h3 _ hc).1
  simp [isQuote] at this

theorem litPh_wordOK (i : Nat) : wordOK (litPh i) := by
  refine ⟨C02.litPh_word i, C02.litPh_not_ph i, fun c hc => ⟨?_, (C02.litPh_chars i c hc).2.2⟩⟩
  rintro rfl
  have := C02.litPh_qf i _ hc
  simp [isQuote] at this

theorem lab1_ok {v : DV} (st : LexSt) (h : dvOK v = true) : lvOK (lab1 st v).2 := by
  cases v with
  | lit l =>
    simp only [dvOK, Bool.and_eq_true] at h
    cases l with
    | bare w => exact srcWord_wordOK h.1
    | quoted q b => exact litPh_wordOK _
  | ref n =>
    simp only [dvOK, Bool.and_eq_true, Bool.not_eq_true', List.isEmpty_eq_false_iff] at h
    exact h
  | expr b => exact h

theorem labE_ok {sel : LV → Option Str} {v : LV} (st : LexSt) (h : lvOK v) : lvOK (labE sel st v).2 := by
  cases hs : sel v with
  | none => rw [labE_none st hs]; exact h
  | some t => rw [labE_some st hs]; exact phOf_wordOK _

theorem pass1_ok {doc : Doc} (h : DocWF doc = true) (st : LexSt) : ldocOK (mapSt lab1 st doc).2 := by
  intro e he
  obtain ⟨st', v, hm, hv⟩ := mapSt_mem lab1 st doc e he
  obtain ⟨hk, hv'⟩ := (docWF_iff.mp h).1 _ hm
  exact ⟨hk, by rw [hv]; exact lab1_ok st' hv'⟩

theorem passE_ok {sel : LV → Option Str} {d : LDoc} (h : ldocOK d) (st : LexSt) : ldocOK (mapSt (labE sel) st d).2 := by
  intro e he
  obtain ⟨st', v, hm, hv⟩ := mapSt_mem (labE sel) st d e he
  obtain ⟨hk, hv'⟩ := h _ hm
  exact ⟨hk, by rw [hv]; exact labE_ok st' hv'⟩

theorem pass1_bodies : ∀ (doc : Doc) (st : LexSt), exprBodiesL (mapSt lab1 st doc).2 = exprBodies doc
  | [], _ => rfl
  | (k, v) :: d, st => by
    rw [mapSt_cons]
    have ih := pass1_bodies d (lab1 st v).1
    cases v with
    | lit l => cases l <;> simpa [exprBodiesL, exprBodies, lab1, selE] using ih
    | ref n => simpa [exprBodiesL, exprBodies, lab1, selE] using ih
    | expr b => simpa [exprBodiesL, exprBodies, lab1, selE] using ih

theorem passE_noexpr {d : LDoc} (st : LexSt) : ∀ e ∈ (mapSt (labE selE) st d).2, selE e.2 = none := by
  intro e he
  obtain ⟨st', v, _, hv⟩ := mapSt_mem (labE selE) st d e he
  rw [hv]
  cases hs : selE v with
  | none => rw [labE_none st' hs]; exact hs
  | some t => rw [labE_some st' hs]; rfl

/-- **the expression stage** on the text the literal stage leaves: first every double-quoted expression, then every
    bare reference, each in text order, becomes `EXPRESSIONnnnnnn` with the next id of the counter -/
theorem lexExpressions_body {d : LDoc} (hd : ldocOK d) (hn : (exprBodiesL d).Nodup) (st : LexSt) :
    lexExpressions st (bodyB d) =
      ((mapSt (labE selR) (mapSt (labE selE) st d).1 (mapSt (labE selE) st d).2).1,
        bodyB (mapSt (labE selR) (mapSt (labE selE) st d).1 (mapSt (labE selE) st d).2).2) := by
  rw [lexExpressions_eq, findExprs_body hd, foldE_body hd hn]
  exact lexRefs_body (passE_ok hd st) (passE_noexpr st) _


/-! ## 7. tokens, scanner, literal re-insertion -/

theorem phOf_qf (i : Nat) : C04.QF (C05.phOf i) := fun c hc => (phOf_chars i c hc).2.2.2.2

theorem not_anyWord_E (r : Str) : ¬ C04.IsAnyWord ('E' :: r) := by
  obtain ⟨r', h⟩ := C02.strip_cons (c := 'E') (by decide) r
  have hl : asciiLower 'E' = 'e' := by decide
  simp only [C04.IsAnyWord, C04.IsWord, h, List.map_cons, hl]
  rintro (h | h | h | h | h | h) <;> simp at h

theorem phOf_cons (i : Nat) : C05.phOf i = 'E' :: ("XPRESSION".toList ++ padSix i) := rfl

theorem parseValue_phOf (i : Nat) : parseValue (C05.phOf i) = .str (C05.phOf i) := by
  have hq := C04.removeQuotes_of_qf (phOf_qf i)
  have hne : C05.phOf i ≠ [] := by rw [phOf_cons]; simp
  have hs : ¬ C04.IsSpecial (C05.phOf i) := by
    rw [phOf_cons]; simp [C04.IsSpecial]
  have hint : ¬ C04.IsIntLit (C05.phOf i) := by
    rw [← C04.isIntLit_iff, phOf_cons]
    have : isDigit 'E' = false := by decide
    simp [isIntLit, dropSign, spanDigits, this]
  have hfl : ¬ C04.IsFloatLit (C05.phOf i) := by
    rw [← C04.isFloatExpLit_iff, phOf_cons]
    have : isDigit 'E' = false := by decide
    simp [isFloatExpLit, dropSign, dropMantissa, spanDigits, this]
  have hw : ¬ C04.IsAnyWord (C05.phOf i) := by rw [phOf_cons]; exact not_anyWord_E _
  rw [C04.parseValue_word ⟨⟨by rw [hq]; exact hne, hs⟩, hint, hfl⟩, C04.boolNoneWord_other hw, hq]

def allDone (d : LDoc) : Prop := ∀ e ∈ d, ∃ w x, e.2 = .done w x

/-- the token tree of a fully labelled document -/
def treeOf (d : LDoc) : Entries := d.map fun e => (.str e.1, .leaf (.str e.2.text))

def gapsT : LDoc → List Str
  | [] => []
  | _ :: d => [' '] :: [' '] :: [] :: gapsT d

def gapsB : LDoc → List Str
  | [] => []
  | _ :: d => [] :: [' '] :: [] :: gapsT d

theorem key_facts {k : Str} (hk : keyOK k = true) :
    isWordTok k = true ∧ isPhTok k = false ∧ keyOfScalar (parseKey k) = some (.str k) := by
  obtain ⟨h1, _, h3, _⟩ := keyOK_iff.mp hk
  obtain ⟨h4, h5, _⟩ := C02.srcWord_facts h1
  exact ⟨h4, h5, by rw [h3]; rfl⟩

theorem toks_tree : ∀ (d : LDoc), ldocOK d → toksEs (treeOf d) = d.flatMap fun e => [e.1, e.2.text, [';']]
  | [], _ => rfl
  | (k, v) :: d, hd => by
    obtain ⟨hk, _⟩ := hd (k, v) (by simp)
    have ih := toks_tree d (fun e he => hd e (by simp [he]))
    rw [treeOf] at ih ⊢
    simp only [List.map_cons, toksEs, (key_facts hk).2.1, Bool.false_eq_true, if_false, ih, List.flatMap_cons]

theorem spread_tailB : ∀ (d : LDoc), ldocOK d → spread (toksEs (treeOf d)) (gapsT d) [] = tailB d
  | [], _ => rfl
  | (k, v) :: d, hd => by
    have ih := spread_tailB d (fun e he => hd e (by simp [he]))
    rw [toks_tree _ hd]
    rw [toks_tree _ (fun e he => hd e (by simp [he]))] at ih
    simp only [List.flatMap_cons, List.cons_append, List.nil_append, gapsT, spread, ih, tailB_cons, etextL]
    simp

theorem spread_bodyB : ∀ (d : LDoc), ldocOK d → spread (toksEs (treeOf d)) (gapsB d) [] = bodyB d
  | [], _ => rfl
  | (k, v) :: d, hd => by
    have ih := spread_tailB d (fun e he => hd e (by simp [he]))
    rw [toks_tree _ hd]
    rw [toks_tree _ (fun e he => hd e (by simp [he]))] at ih
    simp only [List.flatMap_cons, List.cons_append, List.nil_append, gapsB, spread, ih, bodyB, etextL]
    simp

theorem gapsOK_step (t u : Str) (ts : List Str) (g g' : Str) (gs : List Str) :
    GapsOK (t :: u :: ts) (g :: g' :: gs) =
      (g.all isWs && (isDelimTok t || isDelimTok u || !g'.isEmpty) && GapsOK (u :: ts) (g' :: gs)) := rfl

theorem nodup_map_inj {α β : Type} {f : α → β} (hf : ∀ a b, f a = f b → a = b) {l : List α} (h : l.Nodup) :
    (l.map f).Nodup := by
  rw [List.Nodup, List.pairwise_map]
  exact List.Pairwise.imp (fun hab e => hab (hf _ _ e)) h

theorem gapsOK_doc : ∀ (d : LDoc) (k w g : Str), g.all isWs = true → ldocOK d →
    GapsOK (k :: w :: [';'] :: toksEs (treeOf d)) (g :: [' '] :: [] :: gapsT d) = true
  | [], k, w, g, hg, _ => by
    simp [GapsOK, treeOf, toksEs, gapsT, hg, isDelimTok, Gen.delimiters]
    decide
  | (k', v') :: d, k, w, g, hg, hd => by
    have ih := gapsOK_doc d k' v'.text [' '] (by decide) (fun e he => hd e (by simp [he]))
    rw [toks_tree _ hd, List.flatMap_cons]
    rw [toks_tree _ (fun e he => hd e (by simp [he]))] at ih
    have hs : isDelimTok [';'] = true := by decide
    have hw : [' '].all isWs = true := by decide
    simp only [List.cons_append, List.nil_append, gapsT] at ih ⊢
    rw [gapsOK_step, gapsOK_step, gapsOK_step, ih]
    simp [hg, hs, hw]

theorem gapsOK_body : ∀ (d : LDoc), ldocOK d → GapsOK (toksEs (treeOf d)) (gapsB d) = true
  | [], _ => rfl
  | (k, v) :: d, hd => by
    have := gapsOK_doc d k v.text [] rfl (fun e he => hd e (by simp [he]))
    rw [toks_tree _ hd, List.flatMap_cons]
    rw [toks_tree _ (fun e he => hd e (by simp [he]))] at this
    exact this

theorem tokWF_tree : ∀ (d : LDoc), ldocOK d → allDone d → TokWFEs (treeOf d) = true
  | [], _, _ => rfl
  | (k, v) :: d, hd, ha => by
    obtain ⟨hk, hv⟩ := hd (k, v) (by simp)
    obtain ⟨w, x, hw⟩ := ha (k, v) (by simp)
    simp only at hw
    subst hw
    have ih := tokWF_tree d (fun e he => hd e (by simp [he])) (fun e he => ha e (by simp [he]))
    obtain ⟨h1, h2, h3⟩ := key_facts hk
    have ht : (LV.done w x).text = w := rfl
    have hv1 : isWordTok w = true := hv.1
    have hv2 : isPhTok w = false := hv.2.1
    rw [treeOf] at ih ⊢
    simp only [List.map_cons, TokWFEs, h2, Bool.false_eq_true, if_false, h1, h3, Option.isSome_some, ht, hv1, hv2,
      Bool.not_false, Bool.and_self, ih]

/-- entries assigned one after the other (`d[key] = value`) -/
def denAcc (f : LV → Val) : LDoc → Entries → Entries
  | [], acc => acc
  | e :: d, acc => denAcc f d (setKey (.str e.1) (f e.2) acc)

theorem denEs_tree : ∀ (d : LDoc), ldocOK d → ∀ (acc : Entries),
    denEs (treeOf d) acc = denAcc (fun v => .leaf (parseValue v.text)) d acc
  | [], _, _ => rfl
  | (k, v) :: d, hd, acc => by
    obtain ⟨hk, _⟩ := hd (k, v) (by simp)
    obtain ⟨_, h2, h3⟩ := key_facts hk
    have ih := denEs_tree d (fun e he => hd e (by simp [he])) (setKey (.str k) (.leaf (parseValue v.text)) acc)
    rw [treeOf] at ih ⊢
    simp only [List.map_cons, denEs, h2, Bool.false_eq_true, if_false, h3, denAcc, ih]

theorem denAcc_nodup (f : LV → Val) : ∀ (d : LDoc) (acc : Entries),
    (keys acc ++ d.map fun e => Key.str e.1).Nodup → denAcc f d acc = acc ++ d.map fun e => (.str e.1, f e.2)
  | [], acc, _ => by simp [denAcc]
  | e :: d, acc, h => by
    have hi : Key.str e.1 ∉ keys acc := by
      intro hm
      exact (List.nodup_append.mp h).2.2 _ hm _ (by simp) rfl
    rw [denAcc, C07.setKey_of_not_mem _ _ _ hi, denAcc_nodup f d _ (by simpa [keys] using h)]
    simp

/-- what a labelled word means, through the literal table -/
def DoneRel (T : Tbl Str) : LV → Prop
  | .done w x => C02.RV T 1 (.leaf (parseValue w)) (.leaf x)
  | _ => True

theorem REs_denAcc (T : Tbl Str) : ∀ (d : LDoc), allDone d → (∀ e ∈ d, DoneRel T e.2) → ∀ (acc acc' : Entries),
    C02.REs T 1 acc acc' →
    C02.REs T 1 (denAcc (fun v => .leaf (parseValue v.text)) d acc) (denAcc (fun v => .leaf v.val) d acc')
  | [], _, _, acc, acc', h => h
  | (k, v) :: d, ha, hr, acc, acc', h => by
    obtain ⟨w, x, hw⟩ := ha (k, v) (by simp)
    simp only at hw
    subst hw
    have hrel := hr (k, .done w x) (by simp)
    exact REs_denAcc T d (fun e he => ha e (by simp [he])) (fun e he => hr e (by simp [he])) _ _
      (C02.REs_setKey (.str k) hrel acc acc' h)

theorem ldata_eq {d : LDoc} (hn : (d.map (·.1)).Nodup) : denAcc (fun v => .leaf v.val) d [] = ldata d := by
  rw [denAcc_nodup _ d [] (by
    simp only [keys, List.map_nil, List.nil_append]
    have : (d.map fun e => Key.str e.1) = (d.map (·.1)).map Key.str := by simp
    rw [this]
    exact nodup_map_inj (fun a b h => by cases h; rfl) hn)]
  simp [ldata]

theorem doneRel_ph (T : Tbl Str) (i : Nat) : DoneRel T (.done (C05.phOf i) (.str (C05.phOf i))) := by
  simp only [DoneRel, C02.RV, parseValue_phOf]
  exact Or.inl ⟨phOf_noLit i, trivial⟩

theorem labE_doneRel {T : Tbl Str} {sel : LV → Option Str} {v : LV} (st : LexSt) (h : DoneRel T v) :
    DoneRel T (labE sel st v).2 := by
  cases hs : sel v with
  | none => rw [labE_none st hs]; exact h
  | some t => rw [labE_some st hs]; exact doneRel_ph T _

/-! ## 8. the ids and tables of the passes -/

def cnt {α : Type} (p : α → Bool) (d : List (Str × α)) : Nat := (d.filter fun e => p e.2).length

theorem cnt_cons {α : Type} (p : α → Bool) (e : Str × α) (d : List (Str × α)) :
    cnt p (e :: d) = (if p e.2 then 1 else 0) + cnt p d := by
  simp only [cnt, List.filter_cons]
  split <;> simp <;> omega

theorem mapSt_cnt {α β : Type} (f : LexSt → α → LexSt × β) (p : α → Bool) (q : β → Bool)
    (h : ∀ st v, q (f st v).2 = p v) : ∀ (st : LexSt) (d : List (Str × α)), cnt q (mapSt f st d).2 = cnt p d
  | _, [] => rfl
  | st, (k, v) :: d => by rw [mapSt_cons, cnt_cons, cnt_cons, h, mapSt_cnt f p q h]

def isQuotedDV : DV → Bool
  | .lit (.quoted _ _) => true
  | _ => false

def isExprDV : DV → Bool
  | .expr _ => true
  | _ => false

def isRefDV : DV → Bool
  | .ref _ => true
  | _ => false

/-- number of ids a document draws: one per quoted string, expression and reference -/
def countIds' (doc : Doc) : Nat := cnt isQuotedDV doc + cnt isExprDV doc + cnt isRefDV doc

theorem fresh_fst (st : LexSt) : st.fresh.1 = (Counter.next Gen.counterLimit st.counter).1 := rfl
theorem fresh_counter (st : LexSt) : st.fresh.2.counter = (Counter.next Gen.counterLimit st.counter).2 := rfl

/-- the `(id, body)` pairs pass 1 records -/
def drawn1 : LexSt → Doc → List (Nat × Str)
  | _, [] => []
  | st, (_, v) :: d =>
    (match v with | .lit (.quoted _ b) => [(st.fresh.1, b)] | _ => []) ++ drawn1 (lab1 st v).1 d

theorem lab1_other {st : LexSt} {v : DV} (h : isQuotedDV v = false) : (lab1 st v).1 = st := by
  cases v with
  | lit l => cases l with
    | bare w => rfl
    | quoted q b => simp [isQuotedDV] at h
  | ref n => rfl
  | expr b => rfl

theorem pass1_state : ∀ (doc : Doc) (st : LexSt),
    (mapSt lab1 st doc).1.lits = C02.setAll st.lits (drawn1 st doc) ∧
    (drawn1 st doc).map (·.1) = alloc Gen.counterLimit (cnt isQuotedDV doc) st.counter ∧
    (mapSt lab1 st doc).1.counter = C02.adv Gen.counterLimit (cnt isQuotedDV doc) st.counter ∧
    C02.Front.SameT (mapSt lab1 st doc).1 st
  | [], st => ⟨rfl, rfl, rfl, C02.Front.SameT.rfl' st⟩
  | (k, v) :: d, st => by
    obtain ⟨h1, h2, h3, h4⟩ := pass1_state d (lab1 st v).1
    rw [mapSt_cons, cnt_cons]
    cases hq : isQuotedDV v with
    | false =>
      have hst := lab1_other (st := st) hq
      have hd : drawn1 st ((k, v) :: d) = drawn1 (lab1 st v).1 d := by
        cases v with
        | lit l => cases l with
          | bare w => rfl
          | quoted q b => simp [isQuotedDV] at hq
        | ref n => rfl
        | expr b => rfl
      rw [hd]
      simp only [Bool.false_eq_true, if_false, Nat.zero_add]
      rw [hst] at h1 h2 h3 h4 ⊢
      exact ⟨h1, h2, h3, h4⟩
    | true =>
      obtain ⟨q, b, rfl⟩ : ∃ q b, v = .lit (.quoted q b) := by
        cases v with
        | lit l => cases l with
          | bare w => simp [isQuotedDV] at hq
          | quoted q b => exact ⟨q, b, rfl⟩
        | ref n => simp [isQuotedDV] at hq
        | expr b => simp [isQuotedDV] at hq
      simp only [if_true]
      rw [show 1 + cnt isQuotedDV d = cnt isQuotedDV d + 1 by omega]
      refine ⟨?_, ?_, ?_, ?_⟩
      · rw [h1]; rfl
      · simp only [drawn1, List.singleton_append, List.map_cons, h2, C13.alloc_succ]
        rfl
      · rw [h3]; rfl
      · exact C02.Front.SameT.trans h4 ⟨rfl, rfl, rfl, rfl⟩

theorem drawn1_clean : ∀ (doc : Doc) (st : LexSt), (∀ e ∈ doc, dvOK e.2 = true) →
    ∀ p ∈ drawn1 st doc, isInfix kwLit p.2 = false
  | [], _, _, p, hp => by simp [drawn1] at hp
  | (k, v) :: d, st, h, p, hp => by
    simp only [drawn1, List.mem_append] at hp
    rcases hp with hp | hp
    · cases v with
      | lit l => cases l with
        | bare w => simp at hp
        | quoted q b =>
          simp only [List.mem_singleton] at hp
          subst hp
          have := h (k, .lit (.quoted q b)) (by simp)
          simp only [dvOK, Bool.and_eq_true] at this
          exact C02.isSrcQuoted_clean this.1
      | ref n => simp at hp
      | expr b => simp at hp
    · exact drawn1_clean d _ (fun e he => h e (by simp [he])) p hp

theorem pass1_rel (T : Tbl Str) : ∀ (doc : Doc) (st : LexSt), (∀ e ∈ doc, dvOK e.2 = true) →
    (∀ p ∈ drawn1 st doc, p ∈ T) → ∀ e ∈ (mapSt lab1 st doc).2, DoneRel T e.2
  | [], _, _, _, e, he => by simp [mapSt_nil] at he
  | (k, v) :: d, st, h, hT, e, he => by
    rw [mapSt_cons] at he
    simp only [drawn1, List.mem_append] at hT
    rcases List.mem_cons.mp he with rfl | he
    · cases v with
      | lit l =>
        have hv := h (k, .lit l) (by simp)
        simp only [dvOK, Bool.and_eq_true] at hv
        cases l with
        | bare w =>
          simp only [lab1, DoneRel, C02.RV]
          exact Or.inl ⟨C02.clean_parseValue_word hv.1, trivial⟩
        | quoted q b =>
          simp only [lab1, DoneRel, C02.RV, C02.parseValue_litPh]
          exact Or.inr ⟨st.fresh.1, b, hT _ (Or.inl (by simp)), rfl, rfl, by decide⟩
      | ref n => trivial
      | expr b => trivial
    · exact pass1_rel T d _ (fun e he => h e (by simp [he])) (fun p hp => hT p (Or.inr hp)) e he

/-! ### passes 2 and 3 -/

/-- the `(id, key, text)` triples an expression pass records -/
def drawnE (sel : LV → Option Str) : LexSt → LDoc → List (Nat × Str × Str)
  | _, [] => []
  | st, (k, v) :: d =>
    (match sel v with | some t => [(st.fresh.1, k, t)] | none => []) ++ drawnE sel (labE sel st v).1 d

def toTbl (D : List (Nat × Str × Str)) : Tbl ExprEntry := D.map fun e => (e.1, ⟨e.2.2, C05.phOf e.1⟩)

def setAllE (t l : Tbl ExprEntry) : Tbl ExprEntry := l.foldl (fun t p => t.set p.1 p.2) t

theorem tbl_set_fresh {α : Type} {i : Nat} {a : α} : ∀ {t : Tbl α}, i ∉ t.map (·.1) → Tbl.set i a t = t ++ [(i, a)]
  | [], _ => rfl
  | (j, b) :: t, h => by
    have hj : ¬ j = i := fun e => h (by simp [e])
    have h' : i ∉ t.map (·.1) := fun hm => h (by simp [hm])
    simp only [Tbl.set, hj, if_false, List.cons_append, tbl_set_fresh h']

theorem setAllE_nodup : ∀ (l t : Tbl ExprEntry), (t.map (·.1) ++ l.map (·.1)).Nodup → setAllE t l = t ++ l
  | [], t, _ => by simp [setAllE]
  | (i, a) :: l, t, h => by
    have hi : i ∉ t.map (·.1) := by
      intro hm
      exact (List.nodup_append.mp h).2.2 i hm i (by simp) rfl
    have h' : ((t ++ [(i, a)]).map (·.1) ++ l.map (·.1)).Nodup := by simpa using h
    show setAllE (Tbl.set i a t) l = _
    rw [tbl_set_fresh hi, setAllE_nodup l _ h']
    simp

theorem setAllE_append (t l l' : Tbl ExprEntry) : setAllE t (l ++ l') = setAllE (setAllE t l) l' := by
  simp [setAllE, List.foldl_append]

theorem passE_state (sel : LV → Option Str) : ∀ (d : LDoc) (st : LexSt),
    (mapSt (labE sel) st d).1.exprs = setAllE st.exprs (toTbl (drawnE sel st d)) ∧
    (drawnE sel st d).map (·.1) = alloc Gen.counterLimit (cnt (fun v => (sel v).isSome) d) st.counter ∧
    (mapSt (labE sel) st d).1.counter = C02.adv Gen.counterLimit (cnt (fun v => (sel v).isSome) d) st.counter ∧
    (mapSt (labE sel) st d).1.lits = st.lits ∧ C02.Front.SameC (mapSt (labE sel) st d).1 st
  | [], st => ⟨rfl, rfl, rfl, rfl, rfl, rfl, rfl⟩
  | (k, v) :: d, st => by
    obtain ⟨h1, h2, h3, h4, h5⟩ := passE_state sel d (labE sel st v).1
    rw [mapSt_cons, cnt_cons]
    cases hs : sel v with
    | none =>
      rw [labE_none st hs] at h1 h2 h3 h4 h5 ⊢
      simp only [drawnE, hs, List.nil_append, Option.isSome_none, Bool.false_eq_true, if_false, Nat.zero_add,
        labE_none st hs]
      exact ⟨h1, h2, h3, h4, h5⟩
    | some t =>
      rw [labE_some st hs] at h1 h2 h3 h4 h5 ⊢
      simp only [drawnE, hs, Option.isSome_some, if_true, labE_some st hs]
      rw [show 1 + cnt (fun v => (sel v).isSome) d = cnt (fun v => (sel v).isSome) d + 1 by omega]
      refine ⟨?_, ?_, ?_, ?_, ?_⟩
      · rw [h1]; rfl
      · simp only [List.singleton_append, List.map_cons, h2, C13.alloc_succ]
        rfl
      · rw [h3]; rfl
      · rw [h4]; rfl
      · exact C02.Front.SameC.trans h5 ⟨rfl, rfl, rfl⟩

/-! ## 9. the native parser on a flat document with expressions -/

theorem passE_rel {T : Tbl Str} {sel : LV → Option Str} {d : LDoc} (st : LexSt) (h : ∀ e ∈ d, DoneRel T e.2) :
    ∀ e ∈ (mapSt (labE sel) st d).2, DoneRel T e.2 := by
  intro e he
  obtain ⟨st', v, hm, hv⟩ := mapSt_mem (labE sel) st d e he
  rw [hv]
  exact labE_doneRel st' (h _ hm)

theorem passR_allDone {d : LDoc} (st : LexSt) (hE : ∀ e ∈ d, selE e.2 = none) : allDone (mapSt (labE selR) st d).2 := by
  intro e he
  obtain ⟨st', v, hm, hv⟩ := mapSt_mem (labE selR) st d e he
  rcases selR_cases (hE _ hm) with ⟨w, x, rfl, hs⟩ | ⟨n, rfl, hs⟩
  · rw [labE_none st' hs] at hv; exact ⟨w, x, hv⟩
  · rw [labE_some st' hs] at hv; exact ⟨_, _, hv⟩

theorem limit_eq : Gen.counterLimit = 999999 := by decide

theorem ldata_keys (d : LDoc) : keys (ldata d) = (d.map (·.1)).map Key.str := by
  simp [ldata, keys]

theorem ldata_clean {d : LDoc} (hd : ldocOK d) (hn : (d.map (·.1)).Nodup) (x : Tbl ExprEntry) :
    (({ data := ldata d, exprs := x } : SD).clean) = { data := ldata d, exprs := x } := by
  apply C07.clean_id
  · refine ⟨?_, ?_⟩
    · rw [ldata_keys]; exact nodup_map_inj (fun a b h => by cases h; rfl) hn
    · rw [C07.nodupKeysEs_iff]
      intro e he
      simp only [ldata, List.mem_map] at he
      obtain ⟨a, _, rfl⟩ := he
      trivial
  · rw [C07.noPhEs_iff]
    intro e he
    simp only [ldata, List.mem_map] at he
    obtain ⟨a, ha, rfl⟩ := he
    obtain ⟨hk, _⟩ := hd a ha
    exact ⟨C02.Main.typedKey_noPh (keyOK_iff.mp hk).1 (key_facts hk).2.2, trivial⟩

theorem ldata_docKeys {d : LDoc} (hd : ldocOK d) : dropDocKeys (ldata d) = ldata d := by
  apply C02.dropDocKeys_id
  · rw [lookup_eq_none_iff, ldata_keys]
    intro hm
    simp only [List.mem_map] at hm
    obtain ⟨k, ⟨a, ha, rfl⟩, hk⟩ := hm
    exact (keyOK_iff.mp (hd a ha).1).2.2.2.1 (Key.str.inj hk)
  · rw [lookup_eq_none_iff, ldata_keys]
    intro hm
    simp only [List.mem_map] at hm
    obtain ⟨k, ⟨a, ha, rfl⟩, hk⟩ := hm
    exact (keyOK_iff.mp (hd a ha).1).2.2.2.2 (Key.str.inj hk)

/-- **the native parser on a well-formed flat document with references and expressions**: the data hold the typed
    literals and, for every reference and expression, the placeholder word `EXPRESSIONnnnnnn`; the expression table holds
    the texts; ids are drawn from the global counter: first one per quoted string, then one per double-quoted expression,
    then one per bare reference, each group in text order -/
theorem parse_flat_exprs {doc : Doc} (comments : Bool) (dir : Str) (c : Counter) (h : DocWF doc = true)
    (hc : C13.ValidCounter Gen.counterLimit c) (hn : countIds' doc ≤ Gen.counterLimit + 1) :
    parseNative comments dir c (render doc) = .ok (exprSD c doc, (labelAll c doc).1.counter) := by
  obtain ⟨hall, hkeys, hbod⟩ := docWF_iff.mp h
  -- names for the three passes
  have hd1 : ldocOK (mapSt lab1 { counter := c } doc).2 := pass1_ok h _
  have hb1 : (exprBodiesL (mapSt lab1 { counter := c } doc).2).Nodup := by rw [pass1_bodies]; exact hbod
  have hd2 := passE_ok (sel := selE) hd1 (mapSt lab1 { counter := c } doc).1
  have hE2 := passE_noexpr (d := (mapSt lab1 { counter := c } doc).2) (mapSt lab1 { counter := c } doc).1
  have hd3 : ldocOK (labelAll c doc).2 := passE_ok (sel := selR) hd2 _
  have ha3 : allDone (labelAll c doc).2 := passR_allDone _ hE2
  have hk3 : ((labelAll c doc).2.map (·.1)).Nodup := by
    simp only [labelAll, mapSt_keys]; exact hkeys
  -- the literal table
  obtain ⟨p1, p2, _, _⟩ := pass1_state doc { counter := c }
  have hq : cnt isQuotedDV doc ≤ Gen.counterLimit + 1 := by unfold countIds' at hn; omega
  have hnd : ((drawn1 { counter := c } doc).map (·.1)).Nodup := by rw [p2]; exact C13.alloc_nodup hq hc
  have hle : ∀ p ∈ drawn1 { counter := c } doc, p.1 ≤ 999999 := by
    intro p hp
    have : p.1 ∈ alloc Gen.counterLimit (cnt isQuotedDV doc) c := by
      rw [← p2]; exact List.mem_map.mpr ⟨p, hp, rfl⟩
    have := C13.alloc_le hc _ _ this
    rw [limit_eq] at this; exact this
  have hT : (labelAll c doc).1.lits = drawn1 { counter := c } doc := by
    simp only [labelAll]
    rw [(passE_state selR _ _).2.2.2.1, (passE_state selE _ _).2.2.2.1, p1,
      C02.setAll_nodup _ _ (by simpa using hnd)]
    rfl
  have hrel : ∀ e ∈ (labelAll c doc).2, DoneRel (drawn1 { counter := c } doc) e.2 :=
    passE_rel _ (passE_rel _ (pass1_rel _ doc _ (fun e he => (hall e he).2) (fun _ hp => hp)))
  have hins : insertLiterals (labelAll c doc).1.lits (denEs (treeOf (labelAll c doc).2) []) = .ok (ldata (labelAll c doc).2) := by
    rw [hT, denEs_tree _ hd3, ← ldata_eq hk3]
    exact C02.insertLiterals_of_rel _ hnd hle (drawn1_clean doc _ (fun e he => (hall e he).2)) _ _
      (REs_denAcc _ _ ha3 hrel [] [] (by simp only [C02.REs]))
  have hscan := C02.C02_layout_tolerant_tokens (treeOf (labelAll c doc).2) (gapsB (labelAll c doc).2) []
    (tokWF_tree _ hd3 ha3) (gapsOK_body _ hd3) rfl
  rw [spread_bodyB _ hd3] at hscan
  have hX : C02.parseBlockX c (render doc) =
      .ok (ldata (labelAll c doc).2, (labelAll c doc).1.exprs, (labelAll c doc).1.counter) := by
    unfold C02.parseBlockX
    simp only [normalise_render h, lex1_body h, bind, Except.bind, lexExpressions_body hd1 hb1]
    have e3 : mapSt (labE selR) (mapSt (labE selE) (mapSt lab1 { counter := c } doc).1 (mapSt lab1 { counter := c } doc).2).1
        (mapSt (labE selE) (mapSt lab1 { counter := c } doc).1 (mapSt lab1 { counter := c } doc).2).2 = labelAll c doc := rfl
    simp only [e3, hscan, hins]
    rfl
  rw [C02.front_gen comments dir c (render_noMarkup h), hX]
  simp only [Except.map, ldata_clean hd3 hk3, ldata_docKeys hd3]
  rfl

end DictIO.C05R
