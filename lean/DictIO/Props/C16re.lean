/-
  C16 -- the regular expressions of the library functions this property's model was written against, pinned against the
  table regenerated from the sources on every run (Generated/Regex.lean, harness/extract_regex.py).  A changed pattern
  breaks the `rfl` below: the hand-written recogniser of the model is then no longer justified, and the check searches
  for a failing input.  GENERATED ONCE by tools/mkrepins.py; committed.
-/
import DictIO.Generated.Regex

namespace DictIO.C16.Re
open DictIO.Gen

theorem re_dict__value_contains_circular_reference :
    regexesOf "dict.py" "_value_contains_circular_reference" = ["fullmatch:(BLOCKCOMMENT|INCLUDE|LINECOMMENT)\\d{6}", "search:\\${re.escape(key)}(?!\\w)"] := rfl

theorem re_dict__insert_expression :
    regexesOf "dict.py" "_insert_expression" = ["search:EXPRESSION\\d{6}", "search:\\d{6}"] := rfl

theorem re_formatter_Formatter_format_string :
    regexesOf "formatter.py" "Formatter.format_string" = ["search:[$]", "search:^\\$\\w[\\w\\[\\]]*$", "search:[\\\"']", "search:[\\s:/\\\\;,{}()<>\\[\\]]|^#(include|$)"] := rfl

theorem re_formatter_NativeFormatter_format_string_with_nested_string :
    regexesOf "formatter.py" "NativeFormatter.format_string_with_nested_string" = ["search:\"", "search:'"] := rfl

theorem re_formatter_NativeFormatter_to_string :
    regexesOf "formatter.py" "NativeFormatter.to_string" = ["search:BLOCKCOMMENT\\d{6}", "search:INCLUDE\\d{6}"] := rfl

theorem re_formatter_NativeFormatter_insert_block_comments :
    regexesOf "formatter.py" "NativeFormatter.insert_block_comments" = ["search:{re.escape(block_comment)}", "findall:search_pattern=[BLOCKCOMMENT{key:06d}\\s+BLOCKCOMMENT{key:06d};]", "sub:search_pattern=[BLOCKCOMMENT{key:06d}\\s+BLOCKCOMMENT{key:06d};]", "sub:\\\\"] := rfl

theorem re_formatter_NativeFormatter_insert_includes :
    regexesOf "formatter.py" "NativeFormatter.insert_includes" = ["sub:search_pattern=[INCLUDE{key:06d}\\s+INCLUDE{key:06d};]"] := rfl

theorem re_formatter_NativeFormatter_insert_line_comments :
    regexesOf "formatter.py" "NativeFormatter.insert_line_comments" = ["sub:search_pattern=[LINECOMMENT{key:06d}\\s+LINECOMMENT{key:06d};]"] := rfl

theorem re_formatter_NativeFormatter_make_default_block_comment :
    regexesOf "formatter.py" "NativeFormatter.make_default_block_comment" = ["search:\\s[Cc]\\+{2}\\s"] := rfl

theorem re_formatter_NativeFormatter_remove_trailing_spaces :
    regexesOf "formatter.py" "NativeFormatter.remove_trailing_spaces" = ["search:[\r\n]*$", "sub:\\s+$"] := rfl

end DictIO.C16.Re
