/-
  C14 -- Key paths: `set_global_key` / `find_global_key` / `global_key_exists` / `reduce_scope`.
  Model: `setPath`, `getPath`, `findKey`, `pathExists`, `scopeOf`, `SD.reduceScope` (Model/KeyPath.lean).
  Single file: helper lemmas first, then the property theorems, then non-vacuity examples.
-/
import DictIO.Model.KeyPath
import DictIO.Lemmas.Order
import DictIO.Lemmas.Assoc

namespace DictIO.C14
open DictIO

/-! #### specification vocabulary -/

/-- an int key is a non-negative index (Python negative list indices alias positions) -/
def KeyNonNeg : Key → Bool
  | .int z => decide (0 ≤ z)
  | .str _ => true

/-- every `.int z` key of the path has `0 ≤ z` -/
def NonNeg (p : List Key) : Prop := ∀ k ∈ p, KeyNonNeg k = true

instance (p : List Key) : Decidable (NonNeg p) := by unfold NonNeg; infer_instance

/-- neither path is a prefix of the other -/
def Incomparable (p q : List Key) : Prop := ¬ p <+: q ∧ ¬ q <+: p

instance (p q : List Key) : Decidable (Incomparable p q) := by unfold Incomparable; infer_instance

/-- `node[key] = value` would succeed on this node -/
def Assignable : Val → Key → Bool
  | .dict _, _ => true
  | .list xs, .int z => (pyIndex xs.length z).isSome
  | .list _, .str _ => false
  | .leaf _, _ => false

/-! ## helper lemmas -/

/-! ##### paths -/

theorem NonNeg.head {k : Key} {p : List Key} (h : NonNeg (k :: p)) : KeyNonNeg k = true :=
  h k List.mem_cons_self

theorem NonNeg.tail {k : Key} {p : List Key} (h : NonNeg (k :: p)) : NonNeg p :=
  fun k' hk => h k' (List.mem_cons_of_mem _ hk)

theorem Incomparable.tail {k : Key} {p q : List Key} (h : Incomparable (k :: p) (k :: q)) : Incomparable p q :=
  ⟨fun hp => h.1 (List.cons_prefix_cons.mpr ⟨rfl, hp⟩), fun hq => h.2 (List.cons_prefix_cons.mpr ⟨rfl, hq⟩)⟩

/-! ##### association lists -/

theorem lookup_setKey_self (k : Key) (x : Val) : ∀ es : Entries, lookup k (setKey k x es) = some x
  | [] => by simp [setKey, lookup]
  | (k', v) :: es => by
    by_cases h : k' = k
    · simp [setKey, lookup, h]
    · simp [setKey, lookup, h, lookup_setKey_self k x es]

theorem lookup_setKey_ne {k k' : Key} (x : Val) (h : k' ≠ k) : ∀ es : Entries, lookup k' (setKey k x es) = lookup k' es
  | [] => by
    have h' : ¬ k = k' := fun e => h e.symm
    simp [setKey, lookup, h']
  | (k0, v) :: es => by
    by_cases h0 : k0 = k
    · have h' : ¬ k = k' := fun e => h e.symm
      subst h0
      simp [setKey, lookup, h']
    · by_cases h1 : k0 = k'
      · subst h1
        simp [setKey, lookup, h0]
      · simp [setKey, lookup, h0, h1, lookup_setKey_ne x h es]

theorem keys_setKey_of_lookup {k : Key} {v : Val} (x : Val) : ∀ {es : Entries}, lookup k es = some v → keys (setKey k x es) = keys es
  | [], h => by simp [lookup] at h
  | (k0, v0) :: es, h => by
    by_cases h0 : k0 = k
    · simp [setKey, h0]
    · simp only [lookup, h0, if_false] at h
      have := keys_setKey_of_lookup x h
      simp only [keys] at this
      simp [setKey, h0, this]

theorem setKey_of_not_mem {k : Key} (x : Val) : ∀ {es : Entries}, k ∉ keys es → setKey k x es = es ++ [(k, x)]
  | [], _ => rfl
  | (k0, v0) :: es, h => by
    have h0 : ¬ k0 = k := fun e => h (by simp [e])
    have h1 : k ∉ keys es := fun hm => h (by simp only [keys, List.map_cons, List.mem_cons]; exact Or.inr hm)
    simp [setKey, h0, setKey_of_not_mem x h1]

theorem updateD_append : ∀ (sub acc : Entries), (keys (acc ++ sub)).Nodup → updateD acc sub = acc ++ sub
  | [], acc, _ => by simp [updateD]
  | (k, v) :: sub, acc, h => by
    have hk : k ∉ keys acc := by
      intro hm
      simp only [keys, List.map_append, List.map_cons] at h hm
      have := (List.nodup_append.mp h).2.2 k hm k List.mem_cons_self
      exact this rfl
    have h' : (keys ((acc ++ [(k, v)]) ++ sub)).Nodup := by
      simpa [List.append_assoc] using h
    have ih := updateD_append sub (acc ++ [(k, v)]) h'
    simp only [updateD] at ih ⊢
    simp only [List.foldl_cons, setKey_of_not_mem v hk, ih, List.append_assoc, List.singleton_append]

/-! ##### list indexing -/

theorem pyIndex_lt {n : Nat} {z : Int} {i : Nat} (h : pyIndex n z = some i) : i < n := by
  unfold pyIndex at h
  split at h
  · split at h
    · cases h; assumption
    · cases h
  · split at h
    · cases h; omega
    · cases h

theorem pyIndex_nonneg {n : Nat} {z : Int} (hz : 0 ≤ z) : pyIndex n z = if z.toNat < n then some z.toNat else none := by
  simp [pyIndex, hz]

/-! ##### one step: `child`, `assign`, `putChild` -/

theorem assign_eq_putChild {v v' : Val} {k : Key} {x : Val} (h : assign v k x = .ok v') : v' = putChild v k x := by
  cases v with
  | leaf s => simp [assign] at h
  | dict es => simp only [assign] at h; cases h; rfl
  | list xs =>
    cases k with
    | str s => simp [assign] at h
    | int z =>
      simp only [assign] at h
      simp only [putChild]
      split at h
      · cases h; simp
      · cases h

theorem child_assign_self {v v' : Val} {k : Key} {x : Val} (h : assign v k x = .ok v') : child v' k = .ok x := by
  cases v with
  | leaf s => simp [assign] at h
  | dict es => simp only [assign] at h; cases h; simp [child, lookup_setKey_self]
  | list xs =>
    cases k with
    | str s => simp [assign] at h
    | int z =>
      simp only [assign] at h
      split at h
      · rename_i i hi
        cases h
        have := pyIndex_lt hi
        simp [child, hi, this]
      · cases h

theorem child_putChild_self {v c c' : Val} {k : Key} (h : child v k = .ok c) : child (putChild v k c') k = .ok c' := by
  cases v with
  | leaf s => simp [child] at h
  | dict es => simp [putChild, child, lookup_setKey_self]
  | list xs =>
    cases k with
    | str s => simp [child] at h
    | int z =>
      simp only [child] at h
      split at h
      · rename_i i hi
        have := pyIndex_lt hi
        simp [putChild, child, hi, this]
      · cases h

theorem child_putChild_ne {v c' : Val} {k k' : Key} (hne : k' ≠ k) (hk : KeyNonNeg k = true) (hk' : KeyNonNeg k' = true) :
    child (putChild v k c') k' = child v k' := by
  cases v with
  | leaf s => cases k <;> rfl
  | dict es => simp [putChild, child, lookup_setKey_ne c' hne]
  | list xs =>
    cases k with
    | str s => simp [putChild]
    | int z =>
      simp only [putChild]
      split
      · rename_i i hi
        cases k' with
        | str s => simp [child]
        | int z' =>
          simp only [KeyNonNeg, decide_eq_true_eq] at hk hk'
          have hzz : z' ≠ z := fun e => hne (by rw [e])
          rw [pyIndex_nonneg hk] at hi
          simp only [child, List.length_set, pyIndex_nonneg hk']
          split at hi
          · cases hi
            have : z.toNat ≠ z'.toNat := by omega
            by_cases hlt : z'.toNat < xs.length
            · simp [hlt, List.getElem_set_ne this]
            · simp [hlt]
          · cases hi
      · rfl

/-! ##### `setPathAux` unfolding -/

theorem setPathAux_cons {ii : Nat} {v : Val} {k : Key} {p : List Key} {x : Val} (hp : p ≠ []) :
    setPathAux ii v (k :: p) x =
      match child v k with
      | .error e => .error e
      | .ok c =>
        if c.isLeaf then .error .keyError
        else if ii + 1 = 10 then .error .recursionError
        else match setPathAux (ii + 1) c p x with
          | .error e => .error e
          | .ok c' => .ok (putChild v k c') := by
  cases p with
  | nil => exact absurd rfl hp
  | cons k' p' => rfl

/-- a successful non-final step of `set_global_key`, inverted -/
theorem setPathAux_cons_ok {ii : Nat} {v t' : Val} {k : Key} {p : List Key} {x : Val} (hp : p ≠ [])
    (h : setPathAux ii v (k :: p) x = .ok t') :
    ∃ c c', child v k = .ok c ∧ c.isLeaf = false ∧ setPathAux (ii + 1) c p x = .ok c' ∧ t' = putChild v k c' := by
  rw [setPathAux_cons hp] at h
  cases hc : child v k with
  | error e => simp [hc] at h
  | ok c =>
    simp only [hc] at h
    split at h
    · cases h
    · rename_i hleaf
      split at h
      · cases h
      · cases hc' : setPathAux (ii + 1) c p x with
        | error e => simp [hc'] at h
        | ok c' =>
          simp only [hc', Except.ok.injEq] at h
          exact ⟨c, c', rfl, by simpa using hleaf, hc', h.symm⟩

theorem getPath_leaf_cons (s : Scalar) (k : Key) (p : List Key) : getPath (.leaf s) (k :: p) = none := by
  simp [getPath, child]

/-! ##### unique keys: closure properties -/

theorem nodupEs_mem : ∀ {es : Entries}, NodupKeysEs es → ∀ e ∈ es, NodupKeysV e.2
  | [], _, e, he => by simp at he
  | (k, v) :: es, h, e, he => by
    rcases List.mem_cons.mp he with rfl | hm
    · exact h.1
    · exact nodupEs_mem h.2 e hm

theorem nodupEs_of_forall : ∀ {es : Entries}, (∀ e ∈ es, NodupKeysV e.2) → NodupKeysEs es
  | [], _ => trivial
  | (k, v) :: _, h => ⟨h (k, v) List.mem_cons_self, nodupEs_of_forall fun e he => h e (List.mem_cons_of_mem _ he)⟩

theorem nodupXs_mem : ∀ {xs : List Val}, NodupKeysXs xs → ∀ v ∈ xs, NodupKeysV v
  | [], _, v, hv => by simp at hv
  | w :: xs, h, v, hv => by
    rcases List.mem_cons.mp hv with rfl | hm
    · exact h.1
    · exact nodupXs_mem h.2 v hm

theorem child_mem_list {xs : List Val} {k : Key} {c : Val} (h : child (.list xs) k = .ok c) : c ∈ xs := by
  cases k with
  | str s => simp [child] at h
  | int z =>
    simp only [child] at h
    split at h
    · split at h
      · rename_i i _ c' hc'
        cases h
        exact List.mem_of_getElem? hc'
      · cases h
    · cases h

theorem child_dict {es : Entries} {k : Key} {c : Val} (h : child (.dict es) k = .ok c) : lookup k es = some c := by
  simp only [child] at h
  split at h
  · rename_i c' hc'; cases h; exact hc'
  · cases h

theorem nodup_child {t c : Val} {k : Key} (hn : NodupKeysV t) (h : child t k = .ok c) : NodupKeysV c := by
  cases t with
  | leaf s => simp [child] at h
  | dict es => exact nodupEs_mem hn.2 _ (lookup_some_mem (child_dict h))
  | list xs => exact nodupXs_mem hn _ (child_mem_list h)

/-! ##### `deepSortV` -/

theorem deepSortXs_eq_map : ∀ xs : List Val, deepSortXs xs = xs.map deepSortV
  | [] => rfl
  | v :: xs => by simp [deepSortXs, deepSortXs_eq_map xs]

theorem keys_deepSortEs : ∀ es : Entries, keys (deepSortEs es) = keys es
  | [] => rfl
  | (k, v) :: es => by simp [deepSortEs, keys_deepSortEs es]

theorem lookup_deepSortEs (k : Key) : ∀ es : Entries, lookup k (deepSortEs es) = (lookup k es).map deepSortV
  | [] => rfl
  | (k', v) :: es => by
    by_cases h : k' = k <;> simp [deepSortEs, lookup, h, lookup_deepSortEs k es]

theorem lookup_deepSort_sorted {es : Entries} (hn : (keys es).Nodup) (k : Key) :
    lookup k (sortByKey (deepSortEs es)) = (lookup k es).map deepSortV := by
  rw [lookup_perm (sortBy_perm (deepSortEs es)).symm (by rw [keys_deepSortEs]; exact hn) k, lookup_deepSortEs]

theorem deepSortV_eq_leaf {w : Val} {x : Scalar} (h : deepSortV w = .leaf x) : w = .leaf x := by
  cases w with
  | leaf y => simpa [deepSortV] using h
  | dict es => simp [deepSortV] at h
  | list xs => simp [deepSortV] at h

theorem deepSortV_isLeaf (w : Val) : (deepSortV w).isLeaf = w.isLeaf := by
  cases w <;> simp [deepSortV, Val.isLeaf]

mutual
  theorem nodup_deepSortV : ∀ v : Val, NodupKeysV v → NodupKeysV (deepSortV v)
    | .leaf _, _ => trivial
    | .dict es, h => by
      simp only [deepSortV]
      have hp := sortBy_perm (le := Key.le) (deepSortEs es)
      refine ⟨?_, nodupEs_of_forall fun e he => nodupEs_mem (nodup_deepSortEs es h.2) e (hp.mem_iff.mp he)⟩
      have := (hp.map (·.1)).nodup_iff
      rw [show List.map (·.1) (deepSortEs es) = keys es from keys_deepSortEs es] at this
      exact this.mpr h.1
    | .list xs, h => by
      simp only [deepSortV]
      exact nodup_deepSortXs xs h
  theorem nodup_deepSortEs : ∀ es : Entries, NodupKeysEs es → NodupKeysEs (deepSortEs es)
    | [], _ => trivial
    | (_, v) :: es, h => ⟨nodup_deepSortV v h.1, nodup_deepSortEs es h.2⟩
  theorem nodup_deepSortXs : ∀ xs : List Val, NodupKeysXs xs → NodupKeysXs (deepSortXs xs)
    | [], _ => trivial
    | v :: xs, h => ⟨nodup_deepSortV v h.1, nodup_deepSortXs xs h.2⟩
end

/-- one step of dereferencing commutes with the deep sort -/
theorem child_deepSort {t : Val} (hn : NodupKeysV t) (k : Key) :
    child (deepSortV t) k = match child t k with
      | .ok c => .ok (deepSortV c)
      | .error e => .error e := by
  cases t with
  | leaf s => simp [deepSortV, child]
  | dict es =>
    simp only [deepSortV, child, lookup_deepSort_sorted hn.1]
    cases lookup k es <;> simp
  | list xs =>
    cases k with
    | str s => simp [deepSortV, child]
    | int z =>
      simp only [deepSortV, child, deepSortXs_eq_map, List.length_map]
      cases pyIndex xs.length z with
      | none => simp
      | some i =>
        simp only [List.getElem?_map]
        cases xs[i]? <;> simp

/-- dereferencing a path commutes with the deep sort (needs unique keys: lookup is then invariant
    under the sort permutation) -/
theorem getPath_deepSort : ∀ (p : List Key) (t : Val), NodupKeysV t →
    getPath (deepSortV t) p = (getPath t p).map deepSortV
  | [], _, _ => rfl
  | k :: p, t, hn => by
    simp only [getPath, child_deepSort hn]
    cases hc : child t k with
    | error e => simp
    | ok c => simpa using getPath_deepSort p c (nodup_child hn hc)

/-! ##### the raw depth-first search -/

/-- what a container learns from looking at one of its members: the member is a matching leaf
    (empty rest path), or the search inside the member succeeds -/
def hit (m : Scalar → Bool) : Val → Option (List Key)
  | .leaf x => if m x then some [] else none
  | .dict es => findRawEs m es
  | .list xs => findRawXs m 0 xs

theorem findRawEs_cons (m : Scalar → Bool) (k : Key) (v : Val) (es : Entries) :
    findRawEs m ((k, v) :: es) = match hit m v with
      | some p => some (k :: p)
      | none => findRawEs m es := by
  cases v with
  | leaf x => simp only [findRawEs, hit]; split <;> simp
  | dict d => simp only [findRawEs, hit]; rfl
  | list l => simp only [findRawEs, hit]; rfl

theorem findRawXs_cons (m : Scalar → Bool) (i : Nat) (v : Val) (xs : List Val) :
    findRawXs m i (v :: xs) = match hit m v with
      | some p => some (.int i :: p)
      | none => findRawXs m (i + 1) xs := by
  cases v with
  | leaf x => simp only [findRawXs, hit]; split <;> simp
  | dict d => simp only [findRawXs, hit]; rfl
  | list l => simp only [findRawXs, hit]; rfl

theorem hit_of_findRawV {m : Scalar → Bool} {v : Val} {p : List Key} (h : findRawV m v = some p) : hit m v = some p := by
  cases v with
  | leaf x => simp [findRawV] at h
  | dict es => simpa [findRawV, hit] using h
  | list xs => simpa [findRawV, hit] using h

theorem findRawV_of_not_leaf {m : Scalar → Bool} {v : Val} (h : v.isLeaf = false) : findRawV m v = hit m v := by
  cases v with
  | leaf x => simp [Val.isLeaf] at h
  | dict es => rfl
  | list xs => rfl

theorem getPath_dict_of_mem {d : Entries} {k : Key} {v : Val} (hn : (keys d).Nodup) (hm : (k, v) ∈ d) (p : List Key) :
    getPath (.dict d) (k :: p) = getPath v p := by
  simp [getPath, child, lookup_of_mem_nodup hn hm]

theorem getPath_list_of_get {xs : List Val} {j : Nat} {v : Val} (h : xs[j]? = some v) (p : List Key) :
    getPath (.list xs) (.int j :: p) = getPath v p := by
  obtain ⟨hj, rfl⟩ := List.getElem?_eq_some_iff.mp h
  simp [getPath, child, pyIndex, hj]

mutual
  /-- a hit is a path to a matching leaf -/
  theorem hit_sound (m : Scalar → Bool) : ∀ (v : Val) (p : List Key), NodupKeysV v → hit m v = some p →
      ∃ x, getPath v p = some (.leaf x) ∧ m x = true
    | .leaf x, p, _, h => by
      simp only [hit] at h
      split at h
      · cases h; exact ⟨x, rfl, by assumption⟩
      · cases h
    | .dict es, p, hn, h => by
      obtain ⟨k, v, p', rfl, hmem, x, hx, hm⟩ := es_sound m es p hn.2 h
      exact ⟨x, by rw [getPath_dict_of_mem hn.1 hmem]; exact hx, hm⟩
    | .list xs, p, hn, h => by
      obtain ⟨j, v, p', rfl, hj, x, hx, hm⟩ := xs_sound m xs 0 p hn h
      refine ⟨x, ?_, hm⟩
      rw [Nat.zero_add, getPath_list_of_get hj]; exact hx
  theorem es_sound (m : Scalar → Bool) : ∀ (es : Entries) (p : List Key), NodupKeysEs es → findRawEs m es = some p →
      ∃ k v p', p = k :: p' ∧ (k, v) ∈ es ∧ ∃ x, getPath v p' = some (.leaf x) ∧ m x = true
    | [], p, _, h => by simp [findRawEs] at h
    | (k, v) :: es, p, hn, h => by
      rw [findRawEs_cons] at h
      cases hh : hit m v with
      | some p' =>
        simp only [hh, Option.some.injEq] at h
        obtain ⟨x, hx, hm⟩ := hit_sound m v p' hn.1 hh
        exact ⟨k, v, p', h.symm, List.mem_cons_self, x, hx, hm⟩
      | none =>
        simp only [hh] at h
        obtain ⟨k', v', p', hp, hmem, r⟩ := es_sound m es p hn.2 h
        exact ⟨k', v', p', hp, List.mem_cons_of_mem _ hmem, r⟩
  theorem xs_sound (m : Scalar → Bool) : ∀ (xs : List Val) (i : Nat) (p : List Key), NodupKeysXs xs → findRawXs m i xs = some p →
      ∃ j v p', p = .int ((i + j : Nat) : Int) :: p' ∧ xs[j]? = some v ∧ ∃ x, getPath v p' = some (.leaf x) ∧ m x = true
    | [], i, p, _, h => by simp [findRawXs] at h
    | v :: xs, i, p, hn, h => by
      rw [findRawXs_cons] at h
      cases hh : hit m v with
      | some p' =>
        simp only [hh, Option.some.injEq] at h
        obtain ⟨x, hx, hm⟩ := hit_sound m v p' hn.1 hh
        exact ⟨0, v, p', by simpa using h.symm, rfl, x, hx, hm⟩
      | none =>
        simp only [hh] at h
        obtain ⟨j, v', p', hp, hj, r⟩ := xs_sound m xs (i + 1) p hn.2 h
        refine ⟨j + 1, v', p', ?_, by simpa using hj, r⟩
        rw [hp, show i + 1 + j = i + (j + 1) by omega]
end

mutual
  /-- no hit: no path (through any index, negative ones included) leads to a matching leaf -/
  theorem hit_none (m : Scalar → Bool) : ∀ (v : Val), hit m v = none →
      ∀ (p : List Key) (x : Scalar), getPath v p = some (.leaf x) → m x = false
    | .leaf y, h, p, x, hp => by
      cases p with
      | nil =>
        simp only [getPath, Option.some.injEq, Val.leaf.injEq] at hp
        subst hp
        simp only [hit] at h
        split at h
        · cases h
        · simpa using ‹¬ m y = true›
      | cons k p' => simp [getPath_leaf_cons] at hp
    | .dict es, h, p, x, hp => by
      cases p with
      | nil => simp [getPath] at hp
      | cons k p' =>
        simp only [getPath] at hp
        cases hc : child (.dict es) k with
        | error e => simp [hc] at hp
        | ok c =>
          simp only [hc] at hp
          exact es_none m es h k c (lookup_some_mem (child_dict hc)) p' x hp
    | .list xs, h, p, x, hp => by
      cases p with
      | nil => simp [getPath] at hp
      | cons k p' =>
        simp only [getPath] at hp
        cases hc : child (.list xs) k with
        | error e => simp [hc] at hp
        | ok c =>
          simp only [hc] at hp
          exact xs_none m xs 0 h c (child_mem_list hc) p' x hp
  theorem es_none (m : Scalar → Bool) : ∀ (es : Entries), findRawEs m es = none →
      ∀ (k : Key) (c : Val), (k, c) ∈ es → ∀ (p : List Key) (x : Scalar), getPath c p = some (.leaf x) → m x = false
    | [], _, k, c, hm, _, _, _ => by simp at hm
    | (k0, v) :: es, h, k, c, hm, p, x, hp => by
      rw [findRawEs_cons] at h
      cases hh : hit m v with
      | some p' => simp [hh] at h
      | none =>
        simp only [hh] at h
        rcases List.mem_cons.mp hm with heq | hm'
        · cases heq; exact hit_none m v hh p x hp
        · exact es_none m es h k c hm' p x hp
  theorem xs_none (m : Scalar → Bool) : ∀ (xs : List Val) (i : Nat), findRawXs m i xs = none →
      ∀ (c : Val), c ∈ xs → ∀ (p : List Key) (x : Scalar), getPath c p = some (.leaf x) → m x = false
    | [], _, _, c, hm, _, _, _ => by simp at hm
    | v :: xs, i, h, c, hm, p, x, hp => by
      rw [findRawXs_cons] at h
      cases hh : hit m v with
      | some p' => simp [hh] at h
      | none =>
        simp only [hh] at h
        rcases List.mem_cons.mp hm with heq | hm'
        · cases heq; exact hit_none m v hh p x hp
        · exact xs_none m xs (i + 1) h c hm' p x hp
end

/-- the search proper never reports the root itself, so only non-empty paths are excluded -/
theorem findRawV_none {m : Scalar → Bool} {v : Val} (h : findRawV m v = none) (k : Key) (p : List Key) (x : Scalar)
    (hp : getPath v (k :: p) = some (.leaf x)) : m x = false := by
  cases v with
  | leaf y => simp [getPath_leaf_cons] at hp
  | dict es => exact hit_none m (.dict es) (by simpa [hit, findRawV] using h) (k :: p) x hp
  | list xs => exact hit_none m (.list xs) (by simpa [hit, findRawV] using h) (k :: p) x hp

/-! ## the property -/

/-! #### `set_global_key` -/

theorem setAux_get {x : Val} : ∀ (p : List Key) (ii : Nat) (t t' : Val),
    setPathAux ii t p x = .ok t' → p ≠ [] → getPath t' p = some x
  | [], _, _, _, _, hp => absurd rfl hp
  | [k], ii, t, t', h, _ => by
    simp only [setPathAux] at h
    simp [getPath, child_assign_self h]
  | k :: k2 :: p', ii, t, t', h, _ => by
    obtain ⟨c, c', hc, _, hc', rfl⟩ := setPathAux_cons_ok (by simp) h
    simp only [getPath, child_putChild_self hc]
    exact setAux_get (k2 :: p') (ii + 1) c c' hc' (by simp)

/-- (1) reading back the path that was assigned yields the assigned value -/
theorem set_get {t t' x : Val} {p : List Key} (h : setPath t p x = .ok t') (hp : p ≠ []) : getPath t' p = some x :=
  setAux_get p 0 t t' h hp

theorem setAux_frame {x : Val} : ∀ (p : List Key) (ii : Nat) (t t' : Val) (q : List Key),
    setPathAux ii t p x = .ok t' → NonNeg p → NonNeg q → Incomparable p q → getPath t' q = getPath t q
  | [], _, _, _, _, _, _, _, hi => absurd List.nil_prefix hi.1
  | [k], ii, t, t', q, h, hp, hq, hi => by
    simp only [setPathAux] at h
    cases q with
    | nil => exact absurd List.nil_prefix hi.2
    | cons k' q' =>
      have hne : k' ≠ k := by
        intro e; subst e
        exact hi.1 (List.cons_prefix_cons.mpr ⟨rfl, List.nil_prefix⟩)
      rw [assign_eq_putChild h]
      simp only [getPath, child_putChild_ne hne hp.head hq.head]
  | k :: k2 :: p', ii, t, t', q, h, hp, hq, hi => by
    obtain ⟨c, c', hc, _, hc', rfl⟩ := setPathAux_cons_ok (by simp) h
    cases q with
    | nil => exact absurd List.nil_prefix hi.2
    | cons k' q' =>
      by_cases e : k' = k
      · subst e
        simp only [getPath, child_putChild_self hc, hc]
        exact setAux_frame (k2 :: p') (ii + 1) c c' q' hc' hp.tail hq.tail hi.tail
      · simp only [getPath, child_putChild_ne e hp.head hq.head]

/-- (2) assigning through a path changes nothing at any place that is not on or under the path -/
theorem set_frame {t t' x : Val} {p q : List Key} (h : setPath t p x = .ok t')
    (hp : NonNeg p) (hq : NonNeg q) (hi : Incomparable p q) : getPath t' q = getPath t q :=
  setAux_frame p 0 t t' q h hp hq hi

/-- `set_frame` is false without `NonNeg`: index `-1` aliases index `0` of a one-element list -/
example : ¬ ∀ (t t' x : Val) (p q : List Key), setPath t p x = .ok t' → Incomparable p q → getPath t' q = getPath t q := by
  intro h
  have := h (.list [.leaf .none]) (.list [.leaf (.int 1)]) (.leaf (.int 1)) [.int 0] [.int (-1)] rfl (by decide)
  revert this
  decide

theorem setAux_keeps_key_order {x : Val} : ∀ (p : List Key) (ii : Nat) (t t' : Val) (q : List Key) (d : Entries),
    setPathAux ii t p x = .ok t' → (∃ v, getPath t p = some v) → q <+: p → q ≠ p →
    getPath t q = some (.dict d) → ∃ d', getPath t' q = some (.dict d') ∧ keys d' = keys d
  | [], _, _, _, q, _, _, _, hq, hne, _ => absurd (List.prefix_nil.mp hq) hne
  | [k], ii, t, t', q, d, h, hex, hq, hne, hd => by
    simp only [setPathAux] at h
    cases q with
    | cons k' q' =>
      obtain ⟨rfl, hq'⟩ := List.cons_prefix_cons.mp hq
      rw [List.prefix_nil.mp hq'] at hne
      exact absurd rfl hne
    | nil =>
      simp only [getPath, Option.some.injEq] at hd
      subst hd
      simp only [assign, Except.ok.injEq] at h
      subst h
      obtain ⟨v, hv⟩ := hex
      refine ⟨_, rfl, ?_⟩
      simp only [getPath, child] at hv
      cases hl : lookup k d with
      | none => simp [hl] at hv
      | some w => exact keys_setKey_of_lookup x hl
  | k :: k2 :: p', ii, t, t', q, d, h, hex, hq, hne, hd => by
    obtain ⟨c, c', hc, _, hc', rfl⟩ := setPathAux_cons_ok (by simp) h
    cases q with
    | nil =>
      simp only [getPath, Option.some.injEq] at hd
      subst hd
      simp only [child] at hc
      cases hl : lookup k d with
      | none => simp [hl] at hc
      | some w => exact ⟨_, rfl, keys_setKey_of_lookup c' hl⟩
    | cons k' q' =>
      obtain ⟨rfl, hq'⟩ := List.cons_prefix_cons.mp hq
      simp only [getPath, hc] at hd hex
      simp only [getPath, child_putChild_self hc]
      exact setAux_keeps_key_order (k2 :: p') (ii + 1) c c' q' d hc' hex hq' (fun e => hne (by rw [e])) hd

/-- (3, general) when the assigned path already exists, every dict on the way keeps its key order -/
theorem set_keeps_key_order_at {t t' x : Val} {p q : List Key} {d : Entries} (h : setPath t p x = .ok t')
    (hex : ∃ v, getPath t p = some v) (hq : q <+: p) (hne : q ≠ p) (hd : getPath t q = some (.dict d)) :
    ∃ d', getPath t' q = some (.dict d') ∧ keys d' = keys d :=
  setAux_keeps_key_order p 0 t t' q d h hex hq hne hd

/-- (3) assigning to an existing path keeps the key order of the top-level dict -/
theorem set_keeps_key_order {es es' : Entries} {p : List Key} {x : Val} (h : setPath (.dict es) p x = .ok (.dict es'))
    (hex : ∃ v, getPath (.dict es) p = some v) : keys es' = keys es := by
  cases p with
  | nil =>
    simp only [setPath, setPathAux, Except.ok.injEq, Val.dict.injEq] at h
    rw [h]
  | cons k p' =>
    obtain ⟨d', hd', hk⟩ := set_keeps_key_order_at (q := []) h hex List.nil_prefix (by simp) rfl
    simp only [getPath, Option.some.injEq, Val.dict.injEq] at hd'
    rw [hd']; exact hk

/-- the existence hypothesis of (3) is needed: assigning a new key appends it -/
example : ¬ ∀ (es es' : Entries) (p : List Key) (x : Val), setPath (.dict es) p x = .ok (.dict es') → keys es' = keys es := by
  intro h
  have := h [] [(.int 0, .leaf .none)] [.int 0] (.leaf .none) rfl
  revert this
  decide

/-! ##### when `set_global_key` fails -/

theorem set_nil (t x : Val) : setPath t [] x = .ok t := rfl

theorem assign_ok_iff {c : Val} {k : Key} {x : Val} : (∃ c', assign c k x = .ok c') ↔ Assignable c k = true := by
  cases c with
  | leaf s => simp [assign, Assignable]
  | dict es => simp [assign, Assignable]
  | list xs =>
    cases k with
    | str s => simp [assign, Assignable]
    | int z =>
      simp only [assign, Assignable]
      cases pyIndex xs.length z <;> simp

theorem not_assignable_under_leaf {c : Val} (hc : c.isLeaf = true) (k : Key) :
    ∀ q : List Key, ¬ ∃ c2, getPath c q = some c2 ∧ Assignable c2 k = true := by
  cases c with
  | leaf s =>
    intro q
    cases q with
    | nil => simp [getPath, Assignable]
    | cons k' q' => simp [getPath_leaf_cons]
  | dict es => simp [Val.isLeaf] at hc
  | list xs => simp [Val.isLeaf] at hc

theorem setAux_ok_iff {k : Key} {x : Val} : ∀ (q : List Key) (ii : Nat) (t : Val), ii + q.length + 1 ≤ 10 →
    ((∃ t', setPathAux ii t (q ++ [k]) x = .ok t') ↔ ∃ c, getPath t q = some c ∧ Assignable c k = true)
  | [], ii, t, _ => by
    simp only [List.nil_append, setPathAux, getPath, Option.some.injEq, exists_eq_left']
    exact assign_ok_iff
  | k1 :: q', ii, t, hlen => by
    have hne : q' ++ [k] ≠ [] := by simp
    simp only [List.cons_append, setPathAux_cons hne, getPath]
    cases hc : child t k1 with
    | error e => simp
    | ok c =>
      simp only
      by_cases hleaf : c.isLeaf = true
      · have := not_assignable_under_leaf hleaf k q'
        simp [hleaf, this]
      · have hii : ¬ ii + 1 = 10 := by simp only [List.length_cons] at hlen; omega
        have ih := setAux_ok_iff (k := k) (x := x) q' (ii + 1) c (by simp only [List.length_cons] at hlen; omega)
        simp only [hleaf, hii, if_false, Bool.false_eq_true]
        rw [← ih]
        cases setPathAux (ii + 1) c (q' ++ [k]) x <;> simp

/-- (4a) for paths of length ≤ 10, `set_global_key` succeeds exactly when the parent path
    resolves to a node on which the final item assignment is possible -/
theorem set_ok_iff {t x : Val} {q : List Key} {k : Key} (hlen : (q ++ [k]).length ≤ 10) :
    (∃ t', setPath t (q ++ [k]) x = .ok t') ↔ ∃ c, getPath t q = some c ∧ Assignable c k = true :=
  setAux_ok_iff q 0 t (by simpa using hlen)

/-- (4b) for paths of length ≤ 10, `set_global_key` raises exactly when an intermediate node is missing
    (or is a leaf / a list indexed by a str / a list indexed out of range: `getPath t q = none`),
    the parent is a leaf, or the parent is a list and the last key is a str or out of range -/
theorem set_fails_iff {t x : Val} {q : List Key} {k : Key} (hlen : (q ++ [k]).length ≤ 10) :
    (∃ e, setPath t (q ++ [k]) x = .error e) ↔
      (getPath t q = none ∨ (∃ s, getPath t q = some (.leaf s)) ∨
       (∃ xs, getPath t q = some (.list xs) ∧ ((∃ s, k = .str s) ∨ (∃ z, k = .int z ∧ pyIndex xs.length z = none)))) := by
  have hok := set_ok_iff (t := t) (x := x) hlen
  have hne : (∃ e, setPath t (q ++ [k]) x = .error e) ↔ ¬ ∃ t', setPath t (q ++ [k]) x = .ok t' := by
    cases setPath t (q ++ [k]) x <;> simp
  rw [hne, hok]
  cases hg : getPath t q with
  | none => simp
  | some c =>
    cases c with
    | leaf s => simp [Assignable]
    | dict es => simp [Assignable]
    | list xs =>
      cases k with
      | str s => simp [Assignable]
      | int z => cases hz : pyIndex xs.length z <;> simp [Assignable, hz]

theorem setAux_too_deep {x : Val} : ∀ (n : Nat) (p : List Key) (ii : Nat) (t c : Val), ii + n = 9 → n + 2 ≤ p.length →
    getPath t (p.take (n + 1)) = some c → c.isLeaf = false → setPathAux ii t p x = .error .recursionError
  | _, [], _, _, _, _, hl, _, _ => by simp at hl
  | _, [_], _, _, _, _, hl, _, _ => by simp at hl
  | 0, k :: k2 :: p', ii, t, c, hii, _, hg, hc => by
    simp only [List.take_succ_cons, List.take_zero, getPath] at hg
    simp only [setPathAux]
    cases hch : child t k with
    | error e => simp [hch] at hg
    | ok c1 =>
      simp only [hch, Option.some.injEq] at hg
      subst hg
      have : ii + 1 = 10 := by omega
      simp [hc, this]
  | n + 1, k :: k2 :: p', ii, t, c, hii, hl, hg, hc => by
    simp only [List.take_succ_cons, getPath] at hg
    simp only [setPathAux]
    cases hch : child t k with
    | error e => simp [hch] at hg
    | ok c1 =>
      simp only [hch] at hg
      have hleaf : c1.isLeaf = false := by
        cases c1 with
        | leaf s => simp [child] at hg
        | dict es => rfl
        | list xs => rfl
      have hne : ¬ ii + 1 = 10 := by omega
      have ih := setAux_too_deep (x := x) n (k2 :: p') (ii + 1) c1 c (by omega) (by simp only [List.length_cons] at hl ⊢; omega)
        (by simpa only [List.take_succ_cons, getPath] using hg) hc
      simp [hleaf, hne, ih]

/-- (4c) a path of 11 or more keys whose first ten descents all succeed into containers raises
    `RecursionError` (whatever follows) -/
theorem set_too_deep {t c x : Val} {p : List Key} (hlen : p.length ≥ 11)
    (hg : getPath t (p.take 10) = some c) (hc : c.isLeaf = false) : setPath t p x = .error .recursionError :=
  setAux_too_deep 9 p 0 t c rfl (by omega) hg hc

/-! #### `find_global_key` -/

/-- (5) a found path leads to a scalar leaf that matches -/
theorem find_sound {m : Scalar → Bool} {t : Val} {p : List Key} (hn : NodupKeysV t) (h : findKey m t = some p) :
    ∃ x, getPath t p = some (.leaf x) ∧ m x = true := by
  unfold findKey at h
  obtain ⟨x, hx, hm⟩ := hit_sound m (deepSortV t) p (nodup_deepSortV t hn) (hit_of_findRawV h)
  rw [getPath_deepSort p t hn] at hx
  cases hg : getPath t p with
  | none => simp [hg] at hx
  | some w =>
    simp only [hg, Option.map_some, Option.some.injEq] at hx
    exact ⟨x, by rw [deepSortV_eq_leaf hx], hm⟩

/-- a found path is never empty -/
theorem find_ne_nil {m : Scalar → Bool} {t : Val} {p : List Key} (hn : NodupKeysV t) (h : findKey m t = some p) : p ≠ [] := by
  intro e
  subst e
  obtain ⟨x, hx, _⟩ := find_sound hn h
  simp only [getPath, Option.some.injEq] at hx
  subst hx
  simp [findKey, deepSortV, findRawV] at h

/-- (6, general form, any `t`) the search fails exactly when no *non-empty* path leads to a matching leaf -/
theorem find_complete' {m : Scalar → Bool} {t : Val} (hn : NodupKeysV t) :
    findKey m t = none ↔ ¬ ∃ p x, p ≠ [] ∧ getPath t p = some (.leaf x) ∧ m x = true := by
  constructor
  · rintro h ⟨p, x, hp, hg, hm⟩
    cases p with
    | nil => exact hp rfl
    | cons k p' =>
      have hg' : getPath (deepSortV t) (k :: p') = some (.leaf x) := by
        rw [getPath_deepSort _ t hn, hg]; rfl
      have := findRawV_none h k p' x hg'
      rw [hm] at this
      cases this
  · intro h
    cases hf : findKey m t with
    | none => rfl
    | some p =>
      obtain ⟨x, hx, hm⟩ := find_sound hn hf
      exact absurd ⟨p, x, find_ne_nil hn hf, hx, hm⟩ h

/-- the full statement of (6) as first written, for reference: it is false for a root that is itself a
    matching leaf (`getPath t [] = some t`, while the search only looks *inside* `t`), see `find_complete_leaf_cex` -/
def FindCompleteUnrestricted : Prop :=
  ∀ (m : Scalar → Bool) (t : Val), NodupKeysV t →
    (findKey m t = none ↔ ¬ ∃ p x, getPath t p = some (.leaf x) ∧ m x = true)

theorem find_complete_leaf_cex : ¬ FindCompleteUnrestricted := by
  intro h
  have := (h (fun _ => true) (.leaf .none) trivial).mp rfl
  exact this ⟨[], .none, rfl, rfl⟩

/-- (6) for a container root (`find_global_key` is called on a dict) the search fails exactly when no path
    leads to a matching leaf.  Added hypothesis: `t.isLeaf = false` (decidable), needed by `find_complete_leaf_cex`. -/
theorem find_complete {m : Scalar → Bool} {t : Val} (hn : NodupKeysV t) (ht : t.isLeaf = false) :
    findKey m t = none ↔ ¬ ∃ p x, getPath t p = some (.leaf x) ∧ m x = true := by
  rw [find_complete' hn]
  constructor
  · rintro h ⟨p, x, hg, hm⟩
    refine h ⟨p, x, ?_, hg, hm⟩
    rintro rfl
    simp only [getPath, Option.some.injEq] at hg
    subst hg
    simp [Val.isLeaf] at ht
  · rintro h ⟨p, x, _, hg, hm⟩
    exact h ⟨p, x, hg, hm⟩

/-- the unique-keys hypothesis of (5) is needed: with a duplicated key the search looks into an entry
    that `d[k]` cannot reach -/
example : ¬ ∀ (m : Scalar → Bool) (t : Val) (p : List Key), findKey m t = some p → ∃ x, getPath t p = some (.leaf x) ∧ m x = true := by
  intro h
  obtain ⟨x, hx, hm⟩ := h (fun s => s == .int 1) (.dict [(.int 0, .leaf .none), (.int 0, .leaf (.int 1))]) [.int 0]
    (by simp [findKey, deepSortV, deepSortEs, sortBy, insertBy, Key.le, findRawV, findRawEs])
  simp only [getPath, child, lookup, if_true, Option.some.injEq, Val.leaf.injEq] at hx
  subst hx
  simp at hm

/-! #### `global_key_exists` -/

/-- (7a) the existence test is true exactly for paths that lead to a dict through dict nesting only -/
theorem exists_iff_dict_path : ∀ (p : List Key) (es : Entries), pathExists es p = true ↔ ∃ sub, scopeOf es p = some sub
  | [], es => by simp [pathExists, scopeOf]
  | k :: p, es => by
    simp only [pathExists, scopeOf]
    cases hl : lookup k es with
    | none => simp
    | some v =>
      cases v with
      | leaf s => simp
      | list xs => simp
      | dict sub => exact exists_iff_dict_path p sub

/-- (7b) … and such a path dereferences to that dict -/
theorem scopeOf_getPath : ∀ (p : List Key) (es sub : Entries), scopeOf es p = some sub → getPath (.dict es) p = some (.dict sub)
  | [], es, sub, h => by
    simp only [scopeOf, Option.some.injEq] at h
    simp [getPath, h]
  | k :: p, es, sub, h => by
    simp only [scopeOf] at h
    cases hl : lookup k es with
    | none => simp [hl] at h
    | some v =>
      cases v with
      | leaf s => simp [hl] at h
      | list xs => simp [hl] at h
      | dict d =>
        simp only [hl] at h
        simp only [getPath, child, hl]
        exact scopeOf_getPath p d sub h

/-- (7c) the test is *false* for a path that reaches a dict through a list element -/
example : getPath (.dict [(.str ['a'], .list [.dict []])]) [.str ['a'], .int 0] = some (.dict []) ∧
    pathExists [(.str ['a'], .list [.dict []])] [.str ['a'], .int 0] = false := by decide

/-! #### `reduce_scope` -/

/-- builtin `dict(pairs)` of pairs with distinct keys is those pairs -/
theorem updateD_nil_of_nodup {sub : Entries} (h : (keys sub).Nodup) : updateD [] sub = sub := by
  simpa using updateD_append sub [] (by simpa using h)

/-- (8a) reducing to an existing dict scope: the data become that sub-dict (rebuilt by `update`, then `_clean`) -/
theorem reduce_scope_exact {s : SD} {scope : List Key} {sub : Entries} (hs : scope ≠ []) (h : scopeOf s.data scope = some sub) :
    s.reduceScope scope = SD.clean { s with data := updateD [] sub } := by
  cases scope with
  | nil => exact absurd rfl hs
  | cons k p => simp only [SD.reduceScope, h]

theorem reduce_scope_exact_data {s : SD} {scope : List Key} {sub : Entries} (hs : scope ≠ []) (h : scopeOf s.data scope = some sub) :
    (s.reduceScope scope).data = (SD.clean { s with data := updateD [] sub }).data := by
  rw [reduce_scope_exact hs h]

/-- (8a') with unique keys in the sub-dict, the rebuilt dict is the sub-dict itself -/
theorem reduce_scope_exact_nodup {s : SD} {scope : List Key} {sub : Entries} (hs : scope ≠ []) (h : scopeOf s.data scope = some sub)
    (hn : (keys sub).Nodup) : s.reduceScope scope = SD.clean { s with data := sub } := by
  rw [reduce_scope_exact hs h, updateD_nil_of_nodup hn]

/-- (8b) a scope that does not lead to a dict through dicts leaves everything as it was -/
theorem reduce_scope_noop {s : SD} {scope : List Key} (h : scopeOf s.data scope = none) : s.reduceScope scope = s := by
  cases scope with
  | nil => rfl
  | cons k p => simp only [SD.reduceScope, h]

/-- (8c) the empty scope is a no-op -/
theorem reduce_scope_empty (s : SD) : s.reduceScope [] = s := rfl


/-! #### non-vacuity -/

section Examples

/-- `{'a': [7, {3: 'x', 'b': True}], 2: None}` : a dict containing a list containing a dict, mixed keys -/
private def t0 : Val :=
  .dict [(.str ['a'], .list [.leaf (.int 7), .dict [(.int 3, .leaf (.str ['x'])), (.str ['b'], .leaf (.bool true))]]),
         (.int 2, .leaf .none)]

/-- `t0` after `t0['a'][1]['b'] = 9` -/
private def t1 : Val :=
  .dict [(.str ['a'], .list [.leaf (.int 7), .dict [(.int 3, .leaf (.str ['x'])), (.str ['b'], .leaf (.int 9))]]),
         (.int 2, .leaf .none)]

private def p0 : List Key := [.str ['a'], .int 1, .str ['b']]
private def q0 : List Key := [.str ['a'], .int 1, .int 3]

private theorem set0 : setPath t0 p0 (.leaf (.int 9)) = .ok t1 := rfl

/-- (1) instantiated -/
example : getPath t1 p0 = some (.leaf (.int 9)) := set_get set0 (by decide)

/-- (2) instantiated: the sibling entry `t0['a'][1][3]` is untouched (and is really there) -/
example : getPath t1 q0 = getPath t0 q0 ∧ getPath t0 q0 = some (.leaf (.str ['x'])) :=
  ⟨set_frame set0 (by decide) (by decide) (by decide), by decide⟩

/-- (3) instantiated -/
example : ∀ es', t1 = .dict es' → keys es' = [.str ['a'], .int 2] := by
  intro es' h
  have hs : setPath (.dict _) p0 (.leaf (.int 9)) = .ok (.dict es') := h ▸ set0
  exact set_keeps_key_order hs ⟨_, (by decide : getPath t0 p0 = some (.leaf (.bool true)))⟩

/-- (4b) instantiated: `t0['a'][5]['b'] = 9` raises -/
example : ∃ e, setPath t0 ([.str ['a'], .int 5] ++ [.str ['b']]) (.leaf (.int 9)) = .error e :=
  (set_fails_iff (by decide)).mpr (Or.inl (by decide))

private def nest : Nat → Val
  | 0 => .dict []
  | n + 1 => .dict [(.int 0, nest n)]

/-- (4c) instantiated: eleven nested dicts, a path of eleven keys -/
example : setPath (nest 11) (List.replicate 11 (.int 0)) (.leaf .none) = .error .recursionError :=
  set_too_deep (c := nest 1) (by decide) (by decide) (by decide)

private theorem nodup0 : NodupKeysV t0 := by
  simp [t0, NodupKeysV, NodupKeysEs, NodupKeysXs, keys]

private theorem find0 : findKey (fun s => s == .bool true) t0 = some p0 := by
  simp [t0, p0, findKey, deepSortV, deepSortEs, deepSortXs, sortBy, insertBy, Key.le, findRawV, findRawEs, findRawXs]

/-- (5) instantiated -/
example : ∃ x, getPath t0 p0 = some (.leaf x) ∧ (fun s => s == .bool true) x = true := find_sound nodup0 find0

/-- (6) instantiated: nothing in `t0` equals `False` -/
example : findKey (fun s => s == .bool false) t0 = none ∧
    ¬ ∃ p x, getPath t0 p = some (.leaf x) ∧ (fun s => s == .bool false) x = true := by
  have h : findKey (fun s => s == .bool false) t0 = none := by
    simp [t0, findKey, deepSortV, deepSortEs, deepSortXs, sortBy, insertBy, Key.le, findRawV, findRawEs, findRawXs]
  exact ⟨h, (find_complete nodup0 rfl).mp h⟩

/-- `{'a': {1: {'k': None, 'l': [ {} ]}}, 'z': 0}` -/
private def s0 : SD :=
  { data := [(.str ['a'], .dict [(.int 1, .dict [(.str ['k'], .leaf .none), (.str ['l'], .list [.dict []])])]),
             (.str ['z'], .leaf (.int 0))] }

private def sub0 : Entries := [(.str ['k'], .leaf .none), (.str ['l'], .list [.dict []])]

private theorem scope0 : scopeOf s0.data [.str ['a'], .int 1] = some sub0 := by decide

/-- (7) instantiated -/
example : pathExists s0.data [.str ['a'], .int 1] = true := (exists_iff_dict_path _ _).mpr ⟨_, scope0⟩

/-- (8) instantiated -/
example : s0.reduceScope [.str ['a'], .int 1] = SD.clean { s0 with data := sub0 } :=
  reduce_scope_exact_nodup (by decide) scope0 (by decide)

example : s0.reduceScope [.str ['a'], .int 0] = s0 := reduce_scope_noop (by decide)

end Examples

end DictIO.C14
