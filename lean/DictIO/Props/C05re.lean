/-
  C05 -- the regular expressions of the library functions this property's model was written against, pinned against the
  table regenerated from the sources on every run (Generated/Regex.lean, harness/extract_regex.py).  A changed pattern
  breaks the `rfl` below: the hand-written recogniser of the model is then no longer justified, and the check searches
  for a failing input.  GENERATED ONCE by tools/mkrepins.py; committed.
-/
import DictIO.Generated.Regex

namespace DictIO.C05.Re
open DictIO.Gen

theorem re_dict_reader_DictReader__eval_expressions :
    regexesOf "dict_reader.py" "DictReader._eval_expressions" = ["findall:\\$\\w[\\w\\[\\]]*", "search:EXPRESSION|\\$", "findall:\\$\\w[\\w\\[\\]]*", "sub:{re.escape(pattern=ref)}(?!\\w)", "findall:\\$\\w[\\w\\[\\]]*", "search:EXPRESSION|\\$"] := rfl

theorem re_dict_reader_DictReader__resolve_reference :
    regexesOf "dict_reader.py" "DictReader._resolve_reference" = ["findall:\\[.+\\]$", "sub:(^\\$|\\[.+$)", "search:\\$", "sub:(^\\$|\\[.+$)"] := rfl

theorem re_dict__value_contains_circular_reference :
    regexesOf "dict.py" "_value_contains_circular_reference" = ["fullmatch:(BLOCKCOMMENT|INCLUDE|LINECOMMENT)\\d{6}", "search:\\${re.escape(key)}(?!\\w)"] := rfl

theorem re_dict__insert_expression :
    regexesOf "dict.py" "_insert_expression" = ["search:EXPRESSION\\d{6}", "search:\\d{6}"] := rfl

theorem re_parser_NativeParser__extract_expressions :
    regexesOf "parser.py" "NativeParser._extract_expressions" = ["findall:search_pattern=[\"[^\"]*\\$.*?\" | \\$\\w[\\w\\[\\]]* | {re.escape(expression)}]", "compile:{re.escape(expression)}", "sub:search_pattern=[\"[^\"]*\\$.*?\" | \\$\\w[\\w\\[\\]]* | {re.escape(expression)}]", "sub:\\\"", "search:search_pattern=[\"[^\"]*\\$.*?\" | \\$\\w[\\w\\[\\]]* | {re.escape(expression)}]"] := rfl

theorem re_parser_JsonParser__extract_expression :
    regexesOf "parser.py" "JsonParser._extract_expression" = ["findall:search_pattern=[\\$\\w[\\w\\[\\]]* | ^\\s*(\\$\\w[\\w\\[\\]]*){1}\\s*$]", "search:search_pattern=[\\$\\w[\\w\\[\\]]* | ^\\s*(\\$\\w[\\w\\[\\]]*){1}\\s*$]"] := rfl

end DictIO.C05.Re
