/-
  C09 (equivalence with includes) -- a native and a JSON rendering of one include graph read to equal data.

  `C09_equiv_statement` of Props/C09.lean, for documents WITHOUT `$`-expressions, decided:

    * as it stands the statement is FALSE in the model (`Ex.C09_equiv_statement_false`): it has no hypothesis on the
      content trees, and `{"a": "1"}` -- one file, no include, no `$` -- is written `a 1;` by the native rendering and
      read back as the int 1, while the JSON reader keeps the string (`C09_string_leaves_stay`).  An artefact of the
      statement (the normalisation hypothesis of `C09_equiv_plain` is missing), not of the library.
    * with the hypotheses of `C09_equiv_plain` on every content tree it is TRUE for every include graph:
      `C09_equiv_includes` (general form, two counters, also `stripEs` at every level), `C09_equiv_statement_noexpr`
      (in the shape of the statement).

  Hypotheses (`DocWF`, `ContentWF`), and why:
    dom, norm, doc, cnt    the ordinary entries of every file are a normalised dict of the value domain with the side
                           conditions of C01 (`C09_equiv_plain` has the same four): the native text is read back by C01/C12;
                           `norm` is needed for truth (witness above); the value domain gives: no `$`, no include key among
                           the ordinary keys, no placeholder key, no self-reference placeholder
    names (`nameOK`)       include names: no quote (the JSON parser strips them), no line break and no `//` (the native
                           directive is one line, the line-comment stage runs first), relative, last `/`-segment a proper
                           file name -- so that `n.json` spells the JSON rendering of the file `n` spells (`spell_json`)
    dist                   pairwise different include names in one file: then `_clean` leaves both include tables alone
                           (native: `C12_incl_table_result`; JSON: `json_updates_incl`).  With equal names the native
                           table loses the duplicate and the JSON table does not (`incl_clean_merges` / the second
                           `update` of `parseJson`); on witnesses the data still agree, the proof does not cover it
    ninc                   at most `counterLimit + 1` includes per file (ids pairwise different)
    paths                  no file is the root directory `[]`; the root path has no `.` / `..` component
    Valid c                counter states that can occur
  Not needed: the `.json` / `.xml` hypotheses of the statement (a read that trips over them fails, and the theorem speaks
  about successful reads); acyclicity; existence of the include targets.

  Route: (a) per file (`native_file` via `C12_read_included` on the layout `native_layout`; `json_file`; together
  `C09_file_equiv`): both parsers return dicts whose data, stripped of placeholder entries, are the ordinary entries, and
  include tables with the file-name columns `n` / `n.json`.  (b) `rec_congr`: `_merge_includes_recursive` on the two file
  systems, by induction on the fuel, needs of the parsed files only that (`Good`: unique keys, no expressions, no
  self-reference placeholder, no placeholder below the top level); no associativity of the merge is used, both sides
  run the same recursion.  (c)/(d) `C09_equiv_includes`.  Non-vacuity: `Ex.exDoc` (three files, a diamond, a missing
  target), both reads evaluated in the kernel.

  Layout: 0 vocabulary, 1 helper lemmas, 2 JSON parser on a file, 3 `ContentWF`, 4 embedding into the documents of
  C12incl, 5 layout, 6 native parser on a file, 7 paths, 8 file systems and (a), 9 (b), 10 the reader, 11 example,
  12 the statement of C09.lean.
-/
import DictIO.Props.C09
import DictIO.Props.C06fold
import DictIO.Props.C12incl
import DictIO.Props.C16fold
namespace DictIO.C09
open DictIO DictIO.C07 DictIO.C06 DictIO.C06fold

set_option linter.unusedSimpArgs false
set_option linter.unusedVariables false

/-! ## 0. vocabulary -/

/-- the file name an include entry of a model document stands for -/
def inclName (e : Key × Val) : Str :=
  match e.2 with
  | .leaf (.str n) => n
  | _ => []

/-- the include file names of a content tree, in document order -/
def inclNames (es : Entries) : List Str := (es.filter isInclEntry).map inclName

/-- the ordinary entries of a content tree -/
def restOf (es : Entries) : Entries := es.filter fun e => !isInclEntry e

/-- the content of the JSON rendering of a file -/
def jsonContent (es : Entries) : Entries :=
  es.map fun e =>
    match e.1, e.2 with
    | .str k, .leaf (.str n) => if isIncludeKey k then (e.1, .leaf (.str (n ++ ".json".toList))) else e
    | _, _ => e

/-- the text of the native rendering of a file -/
def nativeText (es : Entries) : Str :=
  ((inclNames es).flatMap fun n => "#include '".toList ++ n ++ "'\n".toList) ++ fmtPlain .native (restOf es)

theorem renderJson_eq (doc : Doc) : renderJson doc = doc.map fun f => (jsonPathOf f.1, .json (jsonContent f.2)) := rfl

theorem isInclEntry_iff {e : Key × Val} : isInclEntry e = true ↔ ∃ k n, e = (.str k, .leaf (.str n)) ∧ isIncludeKey k = true := by
  obtain ⟨k, v⟩ := e
  cases k with
  | int z => simp [isInclEntry]
  | str s =>
    cases v with
    | leaf x => cases x <;> simp [isInclEntry]
    | dict d => simp [isInclEntry]
    | list l => simp [isInclEntry]

theorem renderNative_eq (doc : Doc) : renderNative doc = doc.map fun f => (f.1, .native (nativeText f.2)) := by
  unfold renderNative
  apply List.map_congr_left
  intro f _
  congr 2
  unfold nativeText inclNames
  congr 1
  generalize f.2 = es
  induction es with
  | nil => rfl
  | cons e es ih =>
    cases he : isInclEntry e with
    | false => simp only [List.filter_cons, he, Bool.false_eq_true, if_false]; exact ih
    | true =>
      obtain ⟨k, n, rfl, _⟩ := isInclEntry_iff.mp he
      simp only [List.filter_cons, he, if_true, List.flatMap_cons, List.map_cons, ih, inclName]


/-! ## 1. general helper lemmas -/

theorem updateD_cons (t : Entries) (k : Key) (v : Val) (o : Entries) : updateD t ((k, v) :: o) = updateD (setKey k v t) o := rfl

theorem mem_updateD : ∀ (o t : Entries) (e : Key × Val), e ∈ updateD t o → e ∈ t ∨ e ∈ o
  | [], _, _, h => Or.inl h
  | (k, v) :: o, t, e, h => by
    rw [updateD_cons] at h
    rcases mem_updateD o _ e h with h | h
    · rcases mem_setKey h with h | h
      · exact Or.inr (h ▸ List.mem_cons_self)
      · exact Or.inl h
    · exact Or.inr (List.mem_cons_of_mem _ h)

theorem nodupV_updateD : ∀ (o t : Entries), NodupKeysV (.dict t) → NodupKeysEs o → NodupKeysV (.dict (updateD t o))
  | [], _, h, _ => h
  | (k, v) :: o, t, h, ho => by
    rw [updateD_cons]
    exact nodupV_updateD o _ (nodupV_setKey h ho.1) ho.2

theorem stripEs_updateD : ∀ (o t : Entries), (∀ e ∈ o, isPhKey e.1 = false) →
    stripEs (updateD t o) = updateD (stripEs t) (stripEs o)
  | [], _, _ => by rw [stripEs_nil]; rfl
  | (k, v) :: o, t, h => by
    have hk : isPhKey k = false := h (k, v) List.mem_cons_self
    rw [updateD_cons, stripEs_updateD o _ (fun e he => h e (List.mem_cons_of_mem _ he)), stripEs_cons hk, updateD_cons,
      stripEs_setKey hk]

theorem stripEs_allPh : ∀ (es : Entries), (∀ e ∈ es, isPhKey e.1 = true) → stripEs es = []
  | [], _ => stripEs_nil
  | (k, v) :: es, h => by
    rw [stripEs_cons_ph (h (k, v) List.mem_cons_self)]
    exact stripEs_allPh es fun e he => h e (List.mem_cons_of_mem _ he)

theorem valsNoPh_strip_eq : ∀ (es : Entries), ValsNoPh es → stripEs es = C01.dropPhEntries es
  | [], _ => by rw [stripEs_nil]; rfl
  | (k, v) :: es, h => by
    have ih := valsNoPh_strip_eq es fun e he => h e (List.mem_cons_of_mem _ he)
    cases hk : isPhKey k with
    | true => rw [stripEs_cons_ph hk, ih]; simp [C01.dropPhEntries, hk]
    | false =>
      rw [stripEs_cons hk, ih, stripV_noPh v (h (k, v) List.mem_cons_self)]
      simp [C01.dropPhEntries, hk]

/-- with no placeholder key below the top level `_clean` can only delete top-level entries -/
theorem cleanRec_sublist : ∀ (fuel : Nat) (s : SD) (lvl : Entries), NodupKeysV (.dict lvl) → ValsNoPh lvl →
    (cleanRec fuel s lvl).2.Sublist lvl
  | 0, _, _, _, _ => List.Sublist.refl _
  | fuel + 1, s, lvl, hn, hv => by
    rw [cleanRec_succ]
    have hsub := (cleanLevel_spec s lvl).1
    have hv1 : ValsNoPh (cleanLevel s lvl).2 := fun e he => hv e (hsub.subset he)
    have hn1 : NodupKeysV (.dict (cleanLevel s lvl).2) :=
      cleanLevel_inv (fun d => NodupKeysV (.dict d)) (fun k d _ h => nodupV_delKey h) s lvl hn
    generalize (cleanLevel s lvl).2 = lvl1 at hv1 hn1 hsub
    generalize (cleanLevel s lvl).1 = s1
    suffices H : ∀ (l : Entries) (acc : SD × Entries), (∀ e ∈ l, e ∈ lvl1) → acc.2 = lvl1 →
        (l.foldl (cleanF fuel) acc).2 = lvl1 by
      rw [H lvl1 (s1, lvl1) (fun _ h => h) rfl]; exact hsub
    intro l
    induction l with
    | nil => intro acc _ h; exact h
    | cons e l ih =>
      intro acc hs hacc
      rw [List.foldl_cons]
      apply ih _ (fun e' he' => hs e' (List.mem_cons_of_mem _ he'))
      obtain ⟨k, v⟩ := e
      have hmem : (k, v) ∈ lvl1 := hs _ List.mem_cons_self
      cases v with
      | leaf x => exact hacc
      | list xs => exact hacc
      | dict sub =>
        have hsubn : NodupKeysV (.dict sub) := nodupKeysEs_iff.mp hn1.2 _ hmem
        have hsubp : NoPhEs sub := hv1 _ hmem
        show setKey k (.dict (cleanRec fuel acc.1 sub).2) acc.2 = lvl1
        rw [cleanRec_id fuel acc.1 sub hsubn hsubp, hacc]
        exact setKey_lookup_self (lookup_of_mem_nodup hn1.1 hmem)

theorem clean_sublist (s : SD) (hn : NodupKeysV (.dict s.data)) (hv : ValsNoPh s.data) : s.clean.data.Sublist s.data := by
  rw [clean_data_eq]; exact cleanRec_sublist _ s s.data hn hv

theorem noDollarEs_iff : ∀ {es : Entries}, noDollarEs es = true ↔ ∀ e ∈ es, noDollarV e.2 = true
  | [] => by simp [noDollarEs]
  | (k, v) :: es => by simp [noDollarEs, noDollarEs_iff (es := es)]

mutual
  theorem phOKV_of_noPh : ∀ v : Val, NoPhV v → C12.Incl.PhOKV v
    | .leaf _, _ => by simp only [C12.Incl.PhOKV]
    | .list _, _ => by simp only [C12.Incl.PhOKV]
    | .dict es, h => by simp only [C12.Incl.PhOKV]; exact phOKEs_of_noPh es h
  theorem phOKEs_of_noPh : ∀ es : Entries, NoPhEs es → C12.Incl.PhOKEs es
    | [], _ => by simp only [C12.Incl.PhOKEs]
    | (k, v) :: es, h => by
      simp only [C12.Incl.PhOKEs]
      refine ⟨fun hs => ?_, phOKV_of_noPh v h.2.1, phOKEs_of_noPh es h.2.2⟩
      have h1 := h.1
      rw [selI_ph hs] at h1
      cases h1
end

theorem tbl_set_self {α} {i : Nat} {a : α} : ∀ {t : Tbl α}, t.get? i = some a → t.set i a = t
  | [], h => by simp [Tbl.get?] at h
  | (j, b) :: t, h => by
    simp only [Tbl.get?] at h
    simp only [Tbl.set]
    split
    · rename_i e
      rw [if_pos e] at h
      cases h; rw [e]
    · rename_i e
      rw [if_neg e] at h
      rw [tbl_set_self h]

theorem tbl_get_of_mem_nodup {α} {i : Nat} {a : α} : ∀ {t : Tbl α}, (t.map (·.1)).Nodup → (i, a) ∈ t → t.get? i = some a
  | [], _, h => by cases h
  | (j, b) :: t, hn, h => by
    simp only [List.map_cons, List.nodup_cons] at hn
    rcases List.mem_cons.mp h with h | h
    · cases h; simp [Tbl.get?]
    · have : ¬ j = i := fun e => hn.1 (e ▸ List.mem_map_of_mem (f := (·.1)) h)
      simp only [Tbl.get?, this, if_false]
      exact tbl_get_of_mem_nodup hn.2 h

theorem tbl_update_self {α} (t : Tbl α) (hn : (t.map (·.1)).Nodup) : Tbl.update t t = t := by
  unfold Tbl.update
  suffices H : ∀ (l : Tbl α), (∀ e ∈ l, e ∈ t) → l.foldl (fun acc e => Tbl.set e.1 e.2 acc) t = t from H t fun _ h => h
  intro l
  induction l with
  | nil => intro _; rfl
  | cons e l ih =>
    intro h
    rw [List.foldl_cons, tbl_set_self (tbl_get_of_mem_nodup hn (h e List.mem_cons_self))]
    exact ih fun e' he' => h e' (List.mem_cons_of_mem _ he')

theorem dropEndQuote_id : ∀ (s : Str), (∀ c ∈ s, isQuote c = false) → dropEndQuote s = s
  | [], _ => rfl
  | [c], h => by simp [dropEndQuote, h c (by simp)]
  | c :: d :: r, h => by
    have hc := h c (by simp)
    have ih := dropEndQuote_id (d :: r) fun x hx => h x (List.mem_cons_of_mem _ hx)
    by_cases hd : d = '\n' ∧ r = []
    · obtain ⟨rfl, rfl⟩ := hd
      simp [dropEndQuote, hc]
    · have : dropEndQuote (c :: d :: r) = c :: dropEndQuote (d :: r) := by
        rw [dropEndQuote]
        · intro e1; cases e1
        · intro e1; cases e1; exact hd ⟨rfl, rfl⟩
      rw [this, ih]

theorem removeQuotes_id {s : Str} (h : ∀ c ∈ s, isQuote c = false) : removeQuotes s = s := by
  cases s with
  | nil => rfl
  | cons c cs =>
    simp only [removeQuotes, h c List.mem_cons_self, Bool.false_eq_true, if_false]
    exact dropEndQuote_id _ h

/-! ## 2. the JSON parser on the rendering of a file -/

/-- the table entry the JSON parser makes for the include of `n` (rendered as `n.json`) in directory `dir` -/
def jEntry (dir : Comps) (n : Str) : InclEntry :=
  { directive := "#include '".toList ++ doubleBackslashes (n ++ ".json".toList) ++ ['\''],
    file := n ++ ".json".toList, path := pathStr (spellJoin dir (n ++ ".json".toList)) }

/-- the placeholder entry of include number `i` -/
def phEntry (i : Nat) : Key × Val := (.str (inclPh i), .leaf (.str (inclPh i)))

/-- the body of `_extract_includes` -/
def jstep (dir : Comps) (acc : Counter × Tbl InclEntry × Entries × Entries) (e : Key × Val) :
    Counter × Tbl InclEntry × Entries × Entries :=
  match e.1, e.2 with
  | .str k, .leaf x =>
    if isIncludeKey k then
      ((Counter.next Gen.counterLimit acc.1).2,
       acc.2.1.set (Counter.next Gen.counterLimit acc.1).1
         { directive := "#include '".toList ++ doubleBackslashes (removeQuotes (pyStrScalar x)) ++ ['\''],
           file := removeQuotes (pyStrScalar x), path := pathStr (spellJoin dir (removeQuotes (pyStrScalar x))) },
       setKey (.str (kwIncl ++ padSix (Counter.next Gen.counterLimit acc.1).1))
         (.leaf (.str (kwIncl ++ padSix (Counter.next Gen.counterLimit acc.1).1))) acc.2.2.1, acc.2.2.2)
    else (acc.1, acc.2.1, acc.2.2.1, acc.2.2.2 ++ [e])
  | _, _ => (acc.1, acc.2.1, acc.2.2.1, acc.2.2.2 ++ [e])

theorem foldl_fun_congr {α β} {f g : α → β → α} (h : ∀ a e, f a e = g a e) (l : List β) (init : α) :
    l.foldl f init = l.foldl g init := by
  rw [funext fun a => funext (h a)]

/-- an ordinary entry is no include for the JSON parser -/
def RestNotIncl (es : Entries) : Prop :=
  ∀ e ∈ es, isInclEntry e = false → match e.1, e.2 with | .str k, .leaf _ => isIncludeKey k = false | _, _ => True

theorem jfold (dir : Comps) : ∀ (es : Entries) (c : Counter) (tbl : Tbl InclEntry) (phs rest : Entries),
    RestNotIncl es → (∀ n ∈ inclNames es, ∀ ch ∈ n, isQuote ch = false) →
    (jsonContent es).foldl (jstep dir) (c, tbl, phs, rest) =
      (C02.adv Gen.counterLimit (inclNames es).length c,
       C12.setAllI tbl (List.zip (alloc Gen.counterLimit (inclNames es).length c) ((inclNames es).map (jEntry dir))),
       updateD phs ((alloc Gen.counterLimit (inclNames es).length c).map phEntry),
       rest ++ restOf es)
  | [], c, tbl, phs, rest, _, _ => by simp [jsonContent, inclNames, restOf, C02.adv, alloc, C12.setAllI, updateD]
  | e :: es, c, tbl, phs, rest, hr, hq => by
    have hr' : RestNotIncl es := fun e' he' => hr e' (List.mem_cons_of_mem _ he')
    cases he : isInclEntry e with
    | true =>
      obtain ⟨k, n, rfl, hk⟩ := isInclEntry_iff.mp he
      have hnames : inclNames ((.str k, .leaf (.str n)) :: es) = n :: inclNames es := by
        simp [inclNames, List.filter_cons, he, inclName]
      have hrest : restOf ((.str k, .leaf (.str n)) :: es) = restOf es := by
        simp [restOf, List.filter_cons, he]
      have hq' : ∀ n' ∈ inclNames es, ∀ ch ∈ n', isQuote ch = false := fun n' hn' => hq n' (by rw [hnames]; exact List.mem_cons_of_mem _ hn')
      have hqn : ∀ ch ∈ n ++ ".json".toList, isQuote ch = false := by
        intro ch hch
        rcases List.mem_append.mp hch with h | h
        · exact hq n (by rw [hnames]; exact List.mem_cons_self) ch h
        · have : ∀ ch ∈ ".json".toList, isQuote ch = false := by decide
          exact this ch h
      have hc : jsonContent ((.str k, .leaf (.str n)) :: es) = (.str k, .leaf (.str (n ++ ".json".toList))) :: jsonContent es := by
        unfold jsonContent
        rw [List.map_cons]
        simp only [hk, if_true]
      rw [hc, List.foldl_cons]
      have hstep : jstep dir (c, tbl, phs, rest) (.str k, .leaf (.str (n ++ ".json".toList))) =
          ((Counter.next Gen.counterLimit c).2, tbl.set (Counter.next Gen.counterLimit c).1 (jEntry dir n),
            setKey (phEntry (Counter.next Gen.counterLimit c).1).1 (phEntry (Counter.next Gen.counterLimit c).1).2 phs, rest) := by
        simp only [jstep, hk, if_true, pyStrScalar, removeQuotes_id hqn]
        rfl
      rw [hstep, jfold dir es _ _ _ _ hr' hq', hnames, hrest]
      simp only [List.length_cons, C02.adv, alloc, List.map_cons, List.zip_cons_cons, C12.setAllI, List.foldl_cons, updateD]
    | false =>
      have hnames : inclNames (e :: es) = inclNames es := by simp [inclNames, List.filter_cons, he]
      have hrest : restOf (e :: es) = e :: restOf es := by simp [restOf, List.filter_cons, he]
      have hq' : ∀ n' ∈ inclNames es, ∀ ch ∈ n', isQuote ch = false := fun n' hn' => hq n' (by rw [hnames]; exact hn')
      have hnot := hr e List.mem_cons_self he
      have hc : jsonContent (e :: es) = e :: jsonContent es := by
        obtain ⟨k, v⟩ := e
        cases k with
        | int z => simp [jsonContent]
        | str s =>
          cases v with
          | leaf x =>
            simp only at hnot
            cases x <;> simp [jsonContent, hnot]
          | dict d => simp [jsonContent]
          | list l => simp [jsonContent]
      have hstep : jstep dir (c, tbl, phs, rest) e = (c, tbl, phs, rest ++ [e]) := by
        obtain ⟨k, v⟩ := e
        cases k with
        | int z => rfl
        | str s =>
          cases v with
          | leaf x => simp only at hnot; simp only [jstep, hnot]; rfl
          | dict d => rfl
          | list l => rfl
      rw [hc, List.foldl_cons, hstep, jfold dir es _ _ _ _ hr' hq', hnames, hrest]
      simp

theorem nodup_map_of_inj_on {α β} (f : α → β) : ∀ (l : List α), l.Nodup → (∀ a ∈ l, ∀ b ∈ l, f a = f b → a = b) → (l.map f).Nodup
  | [], _, _ => List.nodup_nil
  | a :: l, hn, hi => by
    obtain ⟨ha, hn'⟩ := List.nodup_cons.mp hn
    rw [List.map_cons, List.nodup_cons]
    refine ⟨fun hm => ?_, nodup_map_of_inj_on f l hn' fun x hx y hy => hi x (List.mem_cons_of_mem _ hx) y (List.mem_cons_of_mem _ hy)⟩
    obtain ⟨b, hb, e⟩ := List.mem_map.mp hm
    have := hi b (List.mem_cons_of_mem _ hb) a List.mem_cons_self e
    exact ha (this ▸ hb)

/-- what the proofs carry for every dict that takes part in the include merge: unique keys at every level, no
    expressions, no self-reference placeholder among the ordinary entries, no placeholder key below the top level -/
structure Good (x : SD) : Prop where
  nodup : NodupKeysV (.dict x.data)
  exprs : x.exprs = []
  safe : safeEs [] (S x) = true
  vals : ValsNoPh x.data

theorem tblIn_nil : TblIn [] ([] : Tbl ExprEntry) := fun _ h => by cases h

theorem Good.empty : Good ({} : SD) := ⟨nodupV_nil, rfl, rfl, fun _ h => by cases h⟩

/-- **`SDict.merge` on good dicts**: on the stripped data it is the plain first-wins merge -/
theorem Good.merge {t a : SD} (ht : Good t) (ha : Good a) :
    Good (t.merge (.sd a)) ∧ S (t.merge (.sd a)) = mergeD false [] (S t) (S a) := by
  have hs : NoSelf t.exprs t.data ∧ NoSelf t.exprs a.data := by
    rw [ht.exprs]; exact ⟨noSelf_of_safe tblIn_nil ht.safe, noSelf_of_safe tblIn_nil ha.safe⟩
  obtain ⟨h1, h2, h3⟩ := merge_strip t a ht.nodup ha.nodup.2 hs
  refine ⟨⟨h1, ?_, ?_, valsNoPh_merge t a ht.nodup ha.nodup.2 ht.vals ha.vals⟩, h2⟩
  · rw [h3, ht.exprs, ha.exprs]; rfl
  · show safeEs [] (stripEs _) = true
    rw [h2]; exact safeEs_mergeD ht.safe ha.safe

theorem isPhKey_inclPh {i : Nat} (h : i < 1000000) : isPhKey (.str (inclPh i)) = true := by
  have : containsPh kwIncl (inclPh i) = true :=
    C08.containsPh_self (by decide) (by rw [← List.append_nil (padSix i), C08.digitRun_padSix h]; rfl)
  simp [isPhKey, this]

theorem noDollar_inclPh (i : Nat) : noDollarV (phEntry i).2 = true := by
  have : '$' ∉ inclPh i := fun hm => (C12.Incl.inclPh_facts i _ hm).2.1 rfl
  simpa [phEntry, noDollarV] using this

/-- the two `update` calls of `JsonParser.parse_string` when there are include placeholders `P` and a table `T` -/
theorem json_updates_incl (T : Tbl InclEntry) (P R : Entries)
    (hP : ∀ e ∈ P, ∃ i, i < 1000000 ∧ e = phEntry i) (hPn : (keys P).Nodup)
    (hTinj : C12.Incl.TblInj T) (hTn : (T.map (·.1)).Nodup)
    (hR : NoPhEs R) (hRn : NodupKeysV (.dict R)) (hRd : noDollarEs R = true) :
    let s := (({ data := [], incl := T } : SD).update (.plain P)).update (.sd { data := R, incl := T })
    NodupKeysV (.dict s.data) ∧ s.exprs = [] ∧ stripEs s.data = R ∧ ValsNoPh s.data ∧ s.incl = T ∧
      noDollarEs s.data = true := by
  intro s
  -- the first update
  have hPnod : NodupKeysV (.dict P) := ⟨hPn, nodupKeysEs_iff.mpr fun e he => by
    obtain ⟨i, _, rfl⟩ := hP e he; simp only [phEntry, NodupKeysV]⟩
  have hPvals : ValsNoPh P := fun e he => by obtain ⟨i, _, rfl⟩ := hP e he; simp only [phEntry, NoPhV]
  have hPok : C12.Incl.PhOKEs P := C12.Incl.phOKEs_iff.mpr fun e he => by
    obtain ⟨i, hi, rfl⟩ := hP e he
    exact ⟨fun _ => ⟨i, hi, rfl⟩, by simp only [phEntry, C12.Incl.PhOKV]⟩
  let A : SD := { data := P, incl := T }
  have hX1 : ({ data := [], incl := T } : SD).update (.plain P) = A.clean := by
    show (({ data := updateD [] P, incl := T } : SD)).clean = A.clean
    rw [updateD_nil_left P hPn]
  have hA1 := clean_strip A hPnod
  have hA2 : A.clean.incl = T := C12.Incl.clean_incl A hTinj hPnod hPok
  have hA3 : A.clean.data.Sublist P := clean_sublist A hPnod hPvals
  -- the second update
  let B : SD := { data := updateD A.clean.data R, exprs := Tbl.update A.clean.exprs [], lineC := Tbl.update A.clean.lineC [],
                  blockC := Tbl.update A.clean.blockC [], incl := Tbl.update A.clean.incl T }
  have hs : s = B.clean := by
    show SD.update (SD.update _ _) _ = _
    rw [hX1]
    rfl
  have hBincl : B.incl = T := by
    show Tbl.update A.clean.incl T = T
    rw [hA2, tbl_update_self T hTn]
  have hBexprs : B.exprs = [] := by
    show Tbl.update A.clean.exprs [] = []
    rw [hA1.2.2]; rfl
  have hmem : ∀ e ∈ B.data, (∃ i, i < 1000000 ∧ e = phEntry i) ∨ e ∈ R := by
    intro e he
    rcases mem_updateD R _ e he with h | h
    · exact Or.inl (hP e (hA3.subset h))
    · exact Or.inr h
  have hRiff := noPhEs_iff.mp hR
  have hBnod : NodupKeysV (.dict B.data) := nodupV_updateD R _ hA1.1 hRn.2
  have hBvals : ValsNoPh B.data := by
    intro e he
    rcases hmem e he with ⟨i, _, rfl⟩ | h
    · simp only [phEntry, NoPhV]
    · exact (hRiff e h).2
  have hBok : C12.Incl.PhOKEs B.data := C12.Incl.phOKEs_iff.mpr fun e he => by
    rcases hmem e he with ⟨i, hi, rfl⟩ | h
    · exact ⟨fun _ => ⟨i, hi, rfl⟩, by simp only [phEntry, C12.Incl.PhOKV]⟩
    · refine ⟨fun hsel => ?_, phOKV_of_noPh _ (hRiff e h).2⟩
      have := (hRiff e h).1
      rw [selI_ph hsel] at this
      cases this
  have hB1 := clean_strip B hBnod
  have hB2 : B.clean.incl = T := by rw [C12.Incl.clean_incl B (by rw [hBincl]; exact hTinj) hBnod hBok, hBincl]
  have hB3 : B.clean.data.Sublist B.data := clean_sublist B hBnod hBvals
  have hstripA : stripEs A.clean.data = [] := by
    apply stripEs_allPh
    intro e he
    obtain ⟨i, hi, rfl⟩ := hP e (hA3.subset he)
    exact isPhKey_inclPh ‹_›
  rw [hs]
  refine ⟨hB1.1, hB1.2.2.trans hBexprs, ?_, fun e he => hBvals e (hB3.subset he), hB2, ?_⟩
  · rw [hB1.2.1]
    show stripEs (updateD A.clean.data R) = R
    rw [stripEs_updateD R _ (fun e he => (hRiff e he).1), hstripA, stripEs_noPh R hR, updateD_nil_left R hRn.1]
  · rw [noDollarEs_iff]
    intro e he
    rcases hmem e (hB3.subset he) with ⟨i, _, rfl⟩ | h
    · exact noDollar_inclPh i
    · exact noDollarEs_iff.mp hRd e h

/-! ## 3. well-formed contents -/

/-- an include file name of a model document: no quote, no line break, no `//`, relative, and its last `/`-segment is
    a proper file name (not empty, not `.` or `..`) -/
def nameOK (n : Str) : Bool :=
  n.all (fun c => !isQuote c && !isLineBreak c) && !isInfix ['/', '/'] n && !(n.head? == some '/') &&
  (match (n.splitOn '/').getLast? with | some l => !l.isEmpty && !isDots l | none => false)

/-- the content tree of a file: its ordinary part is a normalised dict of the value domain (with the side conditions of
    C01), its include names are proper, pairwise different, and not more than the counter can number -/
structure ContentWF (es : Entries) : Prop where
  dom : DomC01 .native (restOf es) = true
  norm : normEs (restOf es) = restOf es
  doc : C01.DocKeysAbsent' (restOf es)
  cnt : C02.countQuotedEs (srcOfEs .native (restOf es)) ≤ Gen.counterLimit + 1
  ninc : (inclNames es).length ≤ Gen.counterLimit + 1
  names : ∀ n ∈ inclNames es, nameOK n = true
  dist : (inclNames es).Nodup

theorem nameOK_chars {n : Str} (h : nameOK n = true) : ∀ c ∈ n, isQuote c = false ∧ isLineBreak c = false := by
  simp only [nameOK, Bool.and_eq_true, List.all_eq_true, Bool.not_eq_true'] at h
  exact fun c hc => h.1.1.1 c hc

theorem ContentWF.restNotIncl {es : Entries} (hw : ContentWF es) : RestNotIncl es := by
  intro e he hne
  have hm : e ∈ restOf es := List.mem_filter.mpr ⟨he, by simp [hne]⟩
  have := dom_noIncludeKeys hw.dom e hm
  obtain ⟨k, v⟩ := e
  cases k with
  | int z => trivial
  | str s => cases v <;> first | trivial | exact this

theorem ContentWF.inv {es : Entries} (hw : ContentWF es) : NoPhEs (restOf es) ∧ NodupKeysV (.dict (restOf es)) := by
  have := C01.norm_invariants hw.dom
  rwa [hw.norm] at this

theorem ContentWF.safe {es : Entries} (hw : ContentWF es) : safeEs [] (restOf es) = true := by
  rw [safeEs_iff]
  intro e he
  have hs := C16.noSelf_dom hw.dom e he
  obtain ⟨k, v⟩ := e
  cases k with
  | int z => rfl
  | str ks =>
    cases v with
    | dict d => rfl
    | list l => rfl
    | leaf x =>
      cases x with
      | str vs =>
        rw [selfRef_str, C16.insertExpression_nil] at hs
        simp [safeEntry, hs]
      | _ => rfl

theorem zip_map_fst {α β} : ∀ (l : List α) (m : List β), l.length = m.length → (List.zip l m).map (·.1) = l
  | [], _, _ => rfl
  | a :: l, [], h => by cases h
  | a :: l, b :: m, h => by simp [zip_map_fst l m (by simpa using h)]

theorem zip_map_snd {α β} : ∀ (l : List α) (m : List β), l.length = m.length → (List.zip l m).map (·.2) = m
  | [], [], _ => rfl
  | [], b :: m, h => by cases h
  | a :: l, [], h => by cases h
  | a :: l, b :: m, h => by simp [zip_map_snd l m (by simpa using h)]

/-- **the JSON parser on the rendering of a file.**  The data are the ordinary entries of the content tree behind the
    include placeholder entries; the include table lists the rendered names in document order -/
theorem json_file (dir : Comps) (c : Counter) (es : Entries) (hw : ContentWF es) (hc : C13.ValidCounter Gen.counterLimit c) :
    ∃ sd, parseJson dir c (jsonContent es) = (sd, C02.adv Gen.counterLimit (inclNames es).length c) ∧ Good sd ∧
      S sd = restOf es ∧ sd.incl.map (·.2.file) = (inclNames es).map (· ++ ".json".toList) := by
  have hq : ∀ n ∈ inclNames es, ∀ ch ∈ n, isQuote ch = false := fun n hn ch hch => (nameOK_chars (hw.names n hn) ch hch).1
  obtain ⟨hRp, hRn⟩ := hw.inv
  have hlen : (alloc Gen.counterLimit (inclNames es).length c).length = ((inclNames es).map (jEntry dir)).length := by
    rw [C13.alloc_length, List.length_map]
  have hidn : (alloc Gen.counterLimit (inclNames es).length c).Nodup := C13.alloc_nodup hw.ninc hc
  have hidlt : ∀ i ∈ alloc Gen.counterLimit (inclNames es).length c, i < 1000000 := fun i hi => by
    have := C13.alloc_le hc _ i hi
    have e : Gen.counterLimit = 999999 := rfl
    omega
  have hfst := zip_map_fst _ _ hlen
  have hsnd := zip_map_snd _ _ hlen
  generalize hT : List.zip (alloc Gen.counterLimit (inclNames es).length c) ((inclNames es).map (jEntry dir)) = T at hfst hsnd
  have hTn : (T.map (·.1)).Nodup := by rw [hfst]; exact hidn
  have hvals : ((inclNames es).map (jEntry dir)).Nodup := by
    apply C12.Incl.nodup_of_map (fun e : InclEntry => e.file)
    rw [List.map_map]
    exact nodup_map_of_inj_on _ _ hw.dist fun a _ b _ h => List.append_cancel_right h
  have hTinj : C12.Incl.TblInj T := by rw [← hT]; exact C12.Incl.tblInj_zip _ _ hvals
  have hset : C12.setAllI [] T = T := by
    rw [C12.setAllI_nodup T [] (by simpa using hTn)]; rfl
  generalize hP : (alloc Gen.counterLimit (inclNames es).length c).map phEntry = P
  have hPmem : ∀ e ∈ P, ∃ i, i < 1000000 ∧ e = phEntry i := by
    intro e he
    rw [← hP] at he
    obtain ⟨i, hi, rfl⟩ := List.mem_map.mp he
    exact ⟨i, hidlt i hi, rfl⟩
  have hPn : (keys P).Nodup := by
    rw [← hP]
    show ((List.map phEntry _).map (·.1)).Nodup
    rw [List.map_map]
    refine nodup_map_of_inj_on _ _ hidn fun a ha b hb h => ?_
    have : inclPh a = inclPh b := by simpa [phEntry] using h
    exact C12.Incl.inclPh_inj (hidlt a ha) (hidlt b hb) this
  obtain ⟨h1, h2, h3, h4, h5, h6⟩ := json_updates_incl T P (restOf es) hPmem hPn hTinj hTn hRp hRn (dom_noDollar hw.dom)
  unfold parseJson
  rw [foldl_fun_congr (g := jstep dir) ?h, jfold dir es c [] [] [] hw.restNotIncl hq, hT, hP, hset, updateD_nil_left P hPn]
  case h =>
    intro acc e
    obtain ⟨c, tbl, phs, rest⟩ := acc
    obtain ⟨k, v⟩ := e
    cases k <;> cases v <;> rfl
  simp only [List.nil_append]
  generalize (({ data := [], incl := T } : SD).update (.plain P)).update (.sd { data := restOf es, incl := T }) = s at h1 h2 h3 h4 h5 h6 ⊢
  rw [jsonExprEs_id _ _ h6]
  refine ⟨_, rfl, ⟨h1, rfl, ?_, h4⟩, h3, ?_⟩
  · show safeEs [] (stripEs _) = true
    rw [h3]; exact hw.safe
  · show List.map (fun x => x.2.file) (SD.incl _) = _
    rw [h5]
    have : List.map (fun x : Nat × InclEntry => x.2.file) T = (T.map (·.2)).map (fun e : InclEntry => e.file) := by
      rw [List.map_map]; rfl
    rw [this, hsnd, List.map_map]
    rfl

/-! ## 4. the native rendering of a file as a document with include directives -/

mutual
  /-- a comment-free source document as a document with comments and directives -/
  def embV : Src → ISrc
    | .lit l => .lit l
    | .dict es => .dict (embEs es)
    | .list xs => .list xs
  def embEs : SrcEntries → List IItem
    | [] => []
    | (k, v) :: es => .entry k (embV v) :: embEs es
end

/-- the directives in front -/
def dirItems (names : List Str) : List IItem := names.map fun n => .incl (some '\'') n

/-- the native rendering of a content tree as a document of `C12incl` -/
def itemsOf (es : Entries) : List IItem := dirItems (inclNames es) ++ embEs (srcOfEs .native (restOf es))

theorem itoks_emb : ∀ (es : SrcEntries), itoksItems (embEs es) = (srcToksEs es).map .tok
  | [] => by simp only [embEs, itoksItems, srcToksEs, List.map_nil]
  | (k, .lit l) :: es => by
    simp only [embEs, embV, itoksItems, srcToksEs, List.map_cons, itoks_emb es]
  | (k, .dict d) :: es => by
    simp only [embEs, embV, itoksItems, srcToksEs, List.map_cons, List.map_append, List.map_nil, itoks_emb es, itoks_emb d,
      List.cons_append, List.nil_append, List.append_assoc]
  | (k, .list l) :: es => by
    simp only [embEs, embV, itoksItems, srcToksEs, List.map_cons, List.map_append, List.map_nil, itoks_emb es,
      List.cons_append, List.nil_append, List.append_assoc]

theorem wf_emb : ∀ (es : SrcEntries) (d : Nat), SrcWFEs d es = true → ISrcWFItems d (embEs es) = true
  | [], _, _ => by simp only [embEs, ISrcWFItems]
  | (k, .lit l) :: es, d, h => by
    simp only [SrcWFEs, SrcWFV, Bool.and_eq_true] at h
    simp only [embEs, embV, ISrcWFItems, ISrcWFV, Bool.and_eq_true]
    exact ⟨⟨⟨h.1.1.1, h.1.1.2⟩, h.1.2⟩, wf_emb es d h.2⟩
  | (k, .dict dd) :: es, d, h => by
    simp only [SrcWFEs, SrcWFV, Bool.and_eq_true] at h
    simp only [embEs, embV, ISrcWFItems, ISrcWFV, Bool.and_eq_true]
    exact ⟨⟨⟨h.1.1.1, h.1.1.2⟩, wf_emb dd (d + 1) h.1.2⟩, wf_emb es d h.2⟩
  | (k, .list l) :: es, d, h => by
    simp only [SrcWFEs, SrcWFV, Bool.and_eq_true] at h
    simp only [embEs, embV, ISrcWFItems, ISrcWFV, Bool.and_eq_true]
    exact ⟨⟨⟨h.1.1.1, h.1.1.2⟩, h.1.2⟩, wf_emb es d h.2⟩

theorem plain_emb : ∀ (es : SrcEntries), plainIItems (embEs es) = es
  | [] => by simp only [embEs, plainIItems]
  | (k, .lit l) :: es => by simp only [embEs, embV, plainIItems, plainIV, plain_emb es]
  | (k, .dict d) :: es => by simp only [embEs, embV, plainIItems, plainIV, plain_emb es, plain_emb d]
  | (k, .list l) :: es => by simp only [embEs, embV, plainIItems, plainIV, plain_emb es]

theorem incls_emb : ∀ (es : SrcEntries), C12.inclsItems (embEs es) = []
  | [] => by simp only [embEs, C12.inclsItems]
  | (k, .lit l) :: es => by simp only [embEs, embV, C12.inclsItems, C12.inclsV, incls_emb es, List.append_nil]
  | (k, .dict d) :: es => by simp only [embEs, embV, C12.inclsItems, C12.inclsV, incls_emb es, incls_emb d, List.append_nil]
  | (k, .list l) :: es => by simp only [embEs, embV, C12.inclsItems, C12.inclsV, incls_emb es, List.append_nil]

theorem countLine_emb : ∀ (es : SrcEntries), countLineItems (embEs es) = 0
  | [] => by simp only [embEs, countLineItems]
  | (k, .lit l) :: es => by simp only [embEs, embV, countLineItems, countLineV, countLine_emb es]
  | (k, .dict d) :: es => by simp only [embEs, embV, countLineItems, countLineV, countLine_emb es, countLine_emb d]
  | (k, .list l) :: es => by simp only [embEs, embV, countLineItems, countLineV, countLine_emb es]

theorem label_emb (dir : Str) : ∀ (es : SrcEntries) (st : ILabelSt), labelIItems dir st (embEs es) = (st, es)
  | [], st => by simp only [embEs, labelIItems]
  | (k, .lit l) :: es, st => by simp only [embEs, embV, labelIItems, labelIV, label_emb dir es]
  | (k, .dict d) :: es, st => by simp only [embEs, embV, labelIItems, labelIV, label_emb dir es, label_emb dir d]
  | (k, .list l) :: es, st => by simp only [embEs, embV, labelIItems, labelIV, label_emb dir es]

/-! the directives in front of a document -/

theorem itoks_dirs (r : List IItem) : ∀ (names : List Str),
    itoksItems (dirItems names ++ r) = names.map (fun n => CTok.tok (.word (dirText (some '\'') n))) ++ itoksItems r
  | [] => rfl
  | n :: names => by
    simp only [dirItems, List.map_cons, List.cons_append, itoksItems]
    exact congrArg _ (itoks_dirs r names)

theorem wf_dirs (d : Nat) (r : List IItem) (hr : ISrcWFItems d r = true) : ∀ (names : List Str),
    (∀ n ∈ names, isInclName (some '\'') n = true) → ISrcWFItems d (dirItems names ++ r) = true
  | [], _ => hr
  | n :: names, h => by
    simp only [dirItems, List.map_cons, List.cons_append, ISrcWFItems, Bool.and_eq_true]
    exact ⟨h n List.mem_cons_self, wf_dirs d r hr names fun m hm => h m (List.mem_cons_of_mem _ hm)⟩

theorem plain_dirs (r : List IItem) : ∀ (names : List Str), plainIItems (dirItems names ++ r) = plainIItems r
  | [] => rfl
  | n :: names => by
    simp only [dirItems, List.map_cons, List.cons_append, plainIItems]
    exact plain_dirs r names

theorem incls_dirs (r : List IItem) : ∀ (names : List Str),
    C12.inclsItems (dirItems names ++ r) = names.map (fun n => (some '\'', n)) ++ C12.inclsItems r
  | [] => rfl
  | n :: names => by
    simp only [dirItems, List.map_cons, List.cons_append, C12.inclsItems]
    exact congrArg _ (incls_dirs r names)

theorem countLine_dirs (r : List IItem) : ∀ (names : List Str), countLineItems (dirItems names ++ r) = countLineItems r
  | [] => rfl
  | n :: names => by
    simp only [dirItems, List.map_cons, List.cons_append, countLineItems]
    exact countLine_dirs r names

/-- the placeholder entry of a labelled document for directive number `i` -/
def phSrc (i : Nat) : Str × Src := (inclPh i, .lit (.bare (inclPh i)))

theorem label_dirs (dir : Str) (src : SrcEntries) : ∀ (names : List Str) (st : ILabelSt),
    (labelIItems dir st (dirItems names ++ embEs src)).2 =
      (alloc Gen.counterLimit names.length st.icounter).map phSrc ++ src
  | [], st => by simp [dirItems, alloc, label_emb]
  | n :: names, st => by
    simp only [dirItems, List.map_cons, List.cons_append, labelIItems, List.length_cons, alloc, phSrc]
    have := label_dirs dir src names ⟨st.c, (Counter.next Gen.counterLimit st.icounter).2,
      st.incl.set (Counter.next Gen.counterLimit st.icounter).1 (inclEntry dir (some '\'') n)⟩
    simp only [dirItems, phSrc] at this
    rw [this]

/-! ## 5. the layout of the native rendering -/

section Layout
open DictIO.C12 DictIO.C12.Stages DictIO.C12.Incl

/-- gaps made as long as the token list -/
def padG {α} : List α → List Str → List Str
  | [], _ => []
  | _ :: ts, [] => [] :: padG ts []
  | _ :: ts, g :: gs => g :: padG ts gs

theorem spread_padG : ∀ (xs gaps : List Str) (tail : Str), spread xs (padG xs gaps) tail = spread xs gaps tail
  | [], _, _ => rfl
  | x :: xs, [], tail => by simp [padG, spread, spread_padG xs [] tail]
  | x :: xs, g :: gs, tail => by simp [padG, spread, spread_padG xs gs tail]

theorem padG_map {α β} (f : α → β) : ∀ (xs : List α) (gaps : List Str), padG (xs.map f) gaps = padG xs gaps
  | [], _ => rfl
  | x :: xs, [] => by simp [padG, padG_map f xs []]
  | x :: xs, g :: gs => by simp [padG, padG_map f xs gs]

theorem spreadC_padG (ts : List STok) (gaps : List Str) (tail : Str) :
    spreadC (ts.map .tok) (padG ts gaps) tail = spreadS ts gaps tail := by
  have e : (ts.map CTok.tok).map CTok.text = ts.map STok.text := by rw [List.map_map]; rfl
  unfold spreadC spreadS
  rw [e, ← padG_map STok.text ts gaps, spread_padG]

theorem gapsOKC_padG (tail : Str) (ht : tail.all isWs = true) : ∀ (ts : List STok) (gaps : List Str),
    GapsOKS ts gaps = true → GapsOKC (ts.map .tok) (padG ts gaps) tail = true
  | [], _, _ => rfl
  | [t], [], _ => by simp [padG, GapsOKC, ht]
  | [t], g :: gs, h => by
    simp only [GapsOKS] at h
    simp [padG, GapsOKC, ht, h]
  | t :: u :: ts, [], h => by simp [GapsOKS] at h
  | t :: u :: ts, [g], h => by simp [GapsOKS] at h
  | t :: u :: ts, g :: g' :: gs, h => by
    simp only [GapsOKS, Bool.and_eq_true] at h
    have ih := gapsOKC_padG tail ht (u :: ts) (g' :: gs) h.2
    simp only [List.map_cons, padG] at ih ⊢
    simp only [GapsOKC, Bool.and_eq_true]
    exact ⟨⟨h.1.1, h.1.2⟩, ih⟩

theorem dirGaps_padG (tail : Str) : ∀ (ts : List STok) (gaps : List Str) (first : Bool), (∀ t ∈ ts, C02.TokOK t) →
    DirGapsOK first (ts.map .tok) (padG ts gaps) tail = true
  | [], _, _, _ => rfl
  | t :: ts, gaps, first, h => by
    have hd : isDirTok (.tok t) = false := aok_notDir (t := .tok t) (h t List.mem_cons_self)
    have ih : ∀ gs, DirGapsOK false (ts.map .tok) (padG ts gs) tail = true :=
      fun gs => dirGaps_padG tail ts gs false fun x hx => h x (List.mem_cons_of_mem _ hx)
    cases gaps with
    | nil => simp only [List.map_cons, padG, DirGapsOK, hd, Bool.not_false, Bool.true_or, Bool.true_and]; exact ih []
    | cons g gs => simp only [List.map_cons, padG, DirGapsOK, hd, Bool.not_false, Bool.true_or, Bool.true_and]; exact ih gs

/-- the token of a directive `#include 'n'` -/
def dirTok (n : Str) : CTok := .tok (.word (dirText (some '\'') n))

theorem dirTok_text (n : Str) : (dirTok n).text = dirText (some '\'') n := rfl

/-- one more directive in front -/
theorem dir_cons (n : Str) (rest : List CTok) (Gr : List Str) (tail0 : Str) (g : Str) (first : Bool)
    (hgw : g.all isWs = true)
    (hgl : ((first && g.isEmpty) || (match g.getLast? with | some c => isLineBreak c | none => false)) = true)
    (i2 : GapsOKC rest Gr tail0 = true) (i3 : DirGapsOK false rest Gr tail0 = true) (i4 : dirNext rest Gr tail0 = true)
    (h4 : tail0.all isWs = true) :
    GapsOKC (dirTok n :: rest) (g :: Gr) tail0 = true ∧ DirGapsOK first (dirTok n :: rest) (g :: Gr) tail0 = true := by
  refine ⟨?_, ?_⟩
  · cases rest with
    | nil => simp only [GapsOKC, hgw, h4, dirTok, Bool.and_self]
    | cons u rest =>
      cases Gr with
      | nil => cases rest <;> simp [GapsOKC] at i2
      | cons g' Gr =>
        have hg' : g'.isEmpty = false := by
          simp only [dirNext, List.headD_cons, beq_iff_eq] at i4
          cases g' with
          | nil => simp at i4
          | cons _ _ => rfl
        simp only [GapsOKC, dirTok, Bool.and_eq_true, i2, and_true, hgw, true_and]
        cases u <;> simp [hg']
  · have hd : isDirTok (dirTok n) = true := isDirTok_dir _ _
    simp only [DirGapsOK, hd, i3, i4, Bool.not_true, Bool.false_or, Bool.and_true]
    exact hgl

/-- directives, each behind a line feed, in front of a text that starts with a line feed -/
theorem dirs_front (cs : List CTok) (G0 : List Str) (tail0 : Str) (h1 : GapsOKC cs G0 tail0 = true)
    (h2 : DirGapsOK false cs G0 tail0 = true) (h3 : dirNext cs G0 tail0 = true) (h4 : tail0.all isWs = true) :
    ∀ (ns : List Str),
      spreadC (ns.map dirTok ++ cs) (ns.map (fun _ => ['\n']) ++ G0) tail0 =
        ns.flatMap (fun n => '\n' :: dirText (some '\'') n) ++ spreadC cs G0 tail0 ∧
      GapsOKC (ns.map dirTok ++ cs) (ns.map (fun _ => ['\n']) ++ G0) tail0 = true ∧
      DirGapsOK false (ns.map dirTok ++ cs) (ns.map (fun _ => ['\n']) ++ G0) tail0 = true ∧
      dirNext (ns.map dirTok ++ cs) (ns.map (fun _ => ['\n']) ++ G0) tail0 = true
  | [] => ⟨rfl, h1, h2, h3⟩
  | n :: ns => by
    obtain ⟨i1, i2, i3, i4⟩ := dirs_front cs G0 tail0 h1 h2 h3 h4 ns
    simp only [List.map_cons, List.cons_append, List.flatMap_cons]
    generalize ns.map dirTok ++ cs = rest at i1 i2 i3 i4 ⊢
    generalize ns.map (fun _ => ['\n']) ++ G0 = Gr at i1 i2 i3 i4 ⊢
    obtain ⟨j1, j2⟩ := dir_cons n rest Gr tail0 ['\n'] false (by decide) (by decide) i2 i3 i4 h4
    refine ⟨?_, j1, j2, ?_⟩
    · rw [spreadC_cons, i1, dirTok_text]; simp
    · simp [dirNext]

/-- the line `renderNative` writes for the include of `n` -/
def lineOf (n : Str) : Str := "#include '".toList ++ n ++ "'\n".toList

theorem lineOf_eq (n : Str) : lineOf n = dirText (some '\'') n ++ ['\n'] := by
  have e1 : "#include '".toList = ['#', 'i', 'n', 'c', 'l', 'u', 'd', 'e', ' ', '\''] := by decide
  have e2 : "'\n".toList = ['\'', '\n'] := by decide
  have e3 : "#include ".toList = ['#', 'i', 'n', 'c', 'l', 'u', 'd', 'e', ' '] := by decide
  unfold lineOf dirText quoteName
  rw [e1, e2, e3]
  simp only [List.append_assoc, List.cons_append, List.nil_append]

theorem flatMap_nl (S : Str) : ∀ (ns : List Str),
    ns.flatMap (fun n => '\n' :: dirText (some '\'') n) ++ ('\n' :: S) = '\n' :: (ns.flatMap lineOf ++ S)
  | [] => by simp
  | n :: ns => by
    simp only [List.flatMap_cons, List.append_assoc, flatMap_nl S ns, List.cons_append, lineOf_eq, List.nil_append]

/-- **the layout of the native rendering**: the directive lines followed by the writer's text of the ordinary entries
    is an admissible layout (`GapsOKI`) of the directive tokens followed by the source tokens -/
theorem native_layout (names : List Str) (ts : List STok) (gaps : List Str) (tail : Str)
    (hts : ∀ t ∈ ts, C02.TokOK t) (hg : GapsOKS ts gaps = true) (ht : tail.all isWs = true) :
    ∃ G tail', spreadC (names.map dirTok ++ ts.map .tok) G tail' = names.flatMap lineOf ++ spreadS ts gaps tail ∧
      GapsOKI (names.map dirTok ++ ts.map .tok) G tail' = true ∧ tail'.all isWs = true := by
  cases names with
  | nil =>
    refine ⟨padG ts gaps, tail, ?_, ?_, ht⟩
    · simp only [List.map_nil, List.nil_append, List.flatMap_nil]; exact spreadC_padG ts gaps tail
    · simp only [List.map_nil, List.nil_append, GapsOKI, Bool.and_eq_true]
      exact ⟨gapsOKC_padG tail ht ts gaps hg, dirGaps_padG tail ts gaps true hts⟩
  | cons n ns =>
    -- the text behind the directives, with the line feed of the last directive in front
    have hbase : ∃ G0 tail0, spreadC (ts.map .tok) G0 tail0 = '\n' :: spreadS ts gaps tail ∧
        GapsOKC (ts.map .tok) G0 tail0 = true ∧ DirGapsOK false (ts.map .tok) G0 tail0 = true ∧
        dirNext (ts.map .tok) G0 tail0 = true ∧ tail0.all isWs = true := by
      cases ts with
      | nil =>
        refine ⟨[], '\n' :: tail, rfl, rfl, rfl, by simp [dirNext], ?_⟩
        simp only [List.all_cons, ht, Bool.and_true]; decide
      | cons t ts' =>
        have e := spreadC_padG (t :: ts') gaps tail
        have k1 := gapsOKC_padG tail ht (t :: ts') gaps hg
        have k2 := dirGaps_padG tail (t :: ts') gaps true hts
        obtain ⟨g, gs, hp⟩ : ∃ g gs, padG (t :: ts') gaps = g :: gs := by
          cases gaps <;> exact ⟨_, _, rfl⟩
        rw [hp] at e k1 k2
        simp only [List.map_cons] at e k1 k2 ⊢
        refine ⟨('\n' :: g) :: gs, tail, ?_, gapsOKC_nl k1, dirGaps_nl k2, by simp [dirNext], ht⟩
        rw [spreadC_nl _ _ _ _ (by simp), e]
    obtain ⟨G0, tail0, b1, b2, b3, b4, b5⟩ := hbase
    obtain ⟨i1, i2, i3, i4⟩ := dirs_front (ts.map .tok) G0 tail0 b2 b3 b4 b5 ns
    obtain ⟨j1, j2⟩ := dir_cons n _ _ tail0 [] true rfl rfl i2 i3 i4 b5
    refine ⟨[] :: (ns.map (fun _ => ['\n']) ++ G0), tail0, ?_, ?_, b5⟩
    · simp only [List.map_cons, List.cons_append, List.flatMap_cons]
      rw [spreadC_cons, i1, b1, flatMap_nl, dirTok_text, lineOf_eq]
      simp
    · simp only [List.map_cons, List.cons_append, GapsOKI, Bool.and_eq_true]
      exact ⟨j1, j2⟩

end Layout

/-! ## 6. the native parser on the rendering of a file -/

theorem denPEs_phs (r : SrcEntries) : ∀ (ids : List Nat) (acc : Entries),
    denPEs (ids.map phSrc ++ r) acc = denPEs r (updateD acc (ids.map phEntry))
  | [], _ => rfl
  | i :: ids, acc => by
    simp only [List.map_cons, List.cons_append, phSrc]
    rw [C12.denPEs_cons_ph (C12.Incl.inclPh_tok i).2, denPEs_phs r ids]
    rfl

theorem strip_denSrc_congr : ∀ (src : SrcEntries) (d : Nat) (acc acc' : Entries), SrcWFEs d src = true →
    stripEs acc = stripEs acc' → stripEs (denSrcEs src acc) = stripEs (denSrcEs src acc')
  | [], _, _, _, _, h => by simpa only [denSrcEs] using h
  | (k, v) :: src, d, acc, acc', hwf, h => by
    obtain ⟨hk, _, hkey, _, hes⟩ := C12.wf_cons hwf
    obtain ⟨key, hkey⟩ := Option.isSome_iff_exists.mp hkey
    simp only [denSrcEs, hkey]
    apply strip_denSrc_congr src d _ _ hes
    rw [stripEs_setKey (C02.Main.typedKey_noPh hk hkey), stripEs_setKey (C02.Main.typedKey_noPh hk hkey), h]

theorem valsNoPh_denSrc : ∀ (src : SrcEntries) (d : Nat) (acc : Entries), SrcWFEs d src = true →
    ValsNoPh acc → ValsNoPh (denSrcEs src acc)
  | [], _, _, _, h => by simpa only [denSrcEs] using h
  | (k, v) :: src, d, acc, hwf, h => by
    obtain ⟨hk, _, hkey, hv, hes⟩ := C12.wf_cons hwf
    obtain ⟨key, hkey⟩ := Option.isSome_iff_exists.mp hkey
    simp only [denSrcEs, hkey]
    apply valsNoPh_denSrc src d _ hes
    intro e he
    rcases mem_setKey he with rfl | he
    · exact C02.Main.den_noPhV v d hv
    · exact h e he

theorem docKeys_src {es : Entries} (h : C01.DocKeysAbsent' es) : C02.DocKeysAbsent (srcOfEs .native es) := by
  induction es with
  | nil => intro e he; simp [srcOfEs] at he
  | cons a es ih =>
    obtain ⟨k, v⟩ := a
    intro e he
    simp only [srcOfEs, List.mem_cons] at he
    rcases he with rfl | he
    · have hk := h (k, v) List.mem_cons_self
      cases k with
      | str s => exact ⟨fun e => hk.1 (by rw [← e]; rfl), fun e => hk.2 (by rw [← e]; rfl)⟩
      | int z =>
        have hn := (C01.intRepr_numChars z).2
        have hu : '_' ∉ C01.numChars := by decide
        refine ⟨fun e => hu (hn '_' ?_), fun e => hu (hn '_' ?_)⟩
        · show '_' ∈ intRepr z
          have : intRepr z = "_variables".toList := e
          rw [this]; decide
        · show '_' ∈ intRepr z
          have : intRepr z = "_includes".toList := e
          rw [this]; decide
    · exact ih (fun e he => h e (List.mem_cons_of_mem _ he)) e he

theorem nameOK_noSS {n : Str} (h : nameOK n = true) : isInfix ['/', '/'] n = false := by
  unfold nameOK at h
  rw [Bool.and_eq_true, Bool.and_eq_true, Bool.and_eq_true] at h
  simpa using h.1.1.2

theorem nameOK_inclName {n : Str} (h : nameOK n = true) : isInclName (some '\'') n = true := by
  have hc := nameOK_chars h
  have h2 := nameOK_noSS h
  have hq : isQuote '\'' = true := by decide
  have ha : n.all (fun c => !isLineBreak c) = true := by
    rw [List.all_eq_true]; intro c hc'; simp [(hc c hc').2]
  unfold isInclName
  rw [h2]
  simp only [hq, ha, Bool.not_false, Bool.and_self]

theorem zip_map_snd_f {α β γ} (f : β → γ) : ∀ (l : List α) (m : List β), l.length = m.length →
    (List.zip l m).map (fun x => f x.2) = m.map f
  | [], [], _ => rfl
  | [], b :: m, h => by cases h
  | a :: l, [], h => by cases h
  | a :: l, b :: m, h => by simp [zip_map_snd_f f l m (by simpa using h)]

theorem dirText_inj {n m : Str} (h : dirText (some '\'') n = dirText (some '\'') m) : n = m := by
  unfold dirText quoteName at h
  have h1 : '\'' :: n ++ ['\''] = '\'' :: m ++ ['\''] := List.append_cancel_left (as := "#include ".toList) h
  have h2 : n ++ ['\''] = m ++ ['\''] := by
    have := List.tail_eq_of_cons_eq (by simpa using h1 : '\'' :: (n ++ ['\'']) = '\'' :: (m ++ ['\'']))
    exact this
  exact List.append_cancel_right h2

/-- the data and the include table of what the native rendering of a file means -/
theorem denI_props (dir : Str) (c : Counter) (es : Entries) (hw : ContentWF es) (hc : C13.ValidCounter Gen.counterLimit c) :
    Good (denI dir c (itemsOf es)) ∧ S (denI dir c (itemsOf es)) = restOf es ∧
      (denI dir c (itemsOf es)).incl.map (·.2.file) = inclNames es := by
  obtain ⟨hwf, hden, _⟩ := C01.C01_writer hw.dom
  rw [hw.norm] at hden
  obtain ⟨hRp, hRn⟩ := hw.inv
  have hwfI : ISrcWFItems 1 (itemsOf es) = true :=
    wf_dirs 1 _ (wf_emb _ 1 hwf) _ fun n hn => nameOK_inclName (hw.names n hn)
  have hincls : C12.inclsItems (itemsOf es) = (inclNames es).map fun n => (some '\'', n) := by
    unfold itemsOf; rw [incls_dirs, incls_emb, List.append_nil]
  have hcl : countLineItems (itemsOf es) = 0 := by unfold itemsOf; rw [countLine_dirs, countLine_emb]
  -- the labelled document
  obtain ⟨ids, hids, hlab⟩ : ∃ ids : List Nat, (∀ i ∈ ids, i < 1000000) ∧
      (labelI dir c (itemsOf es)).2 = ids.map phSrc ++ srcOfEs .native (restOf es) := by
    refine ⟨alloc Gen.counterLimit (inclNames es).length (C02.adv Gen.counterLimit (countLineItems (itemsOf es)) c), ?_, ?_⟩
    · intro i hi
      have := C13.alloc_le (C02.adv_valid _ hc) _ i hi
      have e : Gen.counterLimit = 999999 := rfl
      omega
    · exact label_dirs dir _ _ _
  obtain ⟨X, e, hXd0, hXe⟩ : ∃ X : SD, denI dir c (itemsOf es) = X.clean ∧
      X.data = denPEs (labelI dir c (itemsOf es)).2 [] ∧ X.exprs = [] :=
    ⟨({ data := denPEs (labelI dir c (itemsOf es)).2 [], lineC := (labelI dir c (itemsOf es)).1.c.lineC, blockC := (labelI dir c (itemsOf es)).1.c.blockC, incl := (labelI dir c (itemsOf es)).1.incl } : SD), rfl, rfl, rfl⟩
  have hXd : X.data = denSrcEs (srcOfEs .native (restOf es)) (updateD [] (ids.map phEntry)) := by
    rw [hXd0, hlab, denPEs_phs, C12.denPEs_plain _ 1 _ hwf]
  have hXn : NodupKeysV (.dict X.data) := by
    rw [hXd0]; exact C12.denP_nodup _ [] nodupV_nil
  have hPmem : ∀ e ∈ updateD [] (ids.map phEntry), ∃ i, i < 1000000 ∧ e = phEntry i := by
    intro e he
    rcases mem_updateD _ _ e he with h | h
    · cases h
    · obtain ⟨i, hi, rfl⟩ := List.mem_map.mp h
      exact ⟨i, hids i hi, rfl⟩
  have hXv : ValsNoPh X.data := by
    rw [hXd]
    apply valsNoPh_denSrc _ 1 _ hwf
    intro e he
    obtain ⟨i, _, rfl⟩ := hPmem e he
    simp only [phEntry, NoPhV]
  have hXs : stripEs X.data = restOf es := by
    rw [hXd, strip_denSrc_congr _ 1 _ [] hwf, hden, stripEs_noPh _ hRp]
    rw [stripEs_nil]
    apply stripEs_allPh
    intro e he
    obtain ⟨i, hi, rfl⟩ := hPmem e he
    exact isPhKey_inclPh hi
  have hcs := clean_strip X hXn
  have hsub := clean_sublist X hXn hXv
  rw [e]
  refine ⟨⟨hcs.1, hcs.2.2.trans hXe, ?_, fun x hx => hXv x (hsub.subset hx)⟩, hcs.2.1.trans hXs, ?_⟩
  · show safeEs [] (stripEs _) = true
    rw [hcs.2.1, hXs]; exact hw.safe
  · rw [← e, C12.C12_incl_table_result (d := 1) dir c hwfI hc (by rw [hincls, List.length_map]; exact hw.ninc)
      (by
        rw [hincls, List.map_map]
        exact nodup_map_of_inj_on _ _ hw.dist fun a _ b _ h => dirText_inj h)]
    rw [zip_map_snd_f (fun e : InclEntry => e.file) _ _ (by rw [C13.alloc_length, List.length_map])]
    rw [hincls, List.map_map, List.map_map]
    exact List.map_id' _

theorem nativeText_eq (es : Entries) : nativeText es = (inclNames es).flatMap lineOf ++ fmtPlain .native (restOf es) := rfl

/-- **the native parser on the rendering of a file.**  The data are the ordinary entries of the content tree behind
    the include placeholder entries; the include table lists the names in document order -/
theorem native_file (dir : Str) (c : Counter) (es : Entries) (hw : ContentWF es) (hc : C13.ValidCounter Gen.counterLimit c) :
    ∃ sd c', parseNative true dir c (nativeText es) = .ok (sd, c') ∧ C13.ValidCounter Gen.counterLimit c' ∧ Good sd ∧
      S sd = restOf es ∧ sd.incl.map (·.2.file) = inclNames es := by
  obtain ⟨hwf, _, gaps, tail, etext, hg, ht⟩ := C01.C01_writer hw.dom
  obtain ⟨G, tail', hl, hok, ht'⟩ := native_layout (inclNames es) _ gaps tail (C02.srcToks_ok 1 _ hwf) hg ht
  have htoks : itoksItems (itemsOf es) =
      (inclNames es).map dirTok ++ (srcToksEs (srcOfEs .native (restOf es))).map .tok := by
    unfold itemsOf; rw [itoks_dirs, itoks_emb]; rfl
  have hplain : plainIItems (itemsOf es) = srcOfEs .native (restOf es) := by
    unfold itemsOf; rw [plain_dirs, plain_emb]
  have hwfI : ISrcWFItems 1 (itemsOf es) = true :=
    wf_dirs 1 _ (wf_emb _ 1 hwf) _ fun n hn => nameOK_inclName (hw.names n hn)
  have hread := C12.C12_read_included (items := itemsOf es) (gaps := G) (tail := tail') dir c hwfI
    (by rw [htoks]; exact hok) (fun _ => ht') hc (by rw [hplain]; exact hw.cnt) (by rw [hplain]; exact docKeys_src hw.doc)
  rw [htoks, hl, ← etext, ← nativeText_eq] at hread
  obtain ⟨p1, p2, p3⟩ := denI_props dir c es hw hc
  refine ⟨_, _, hread, C02.adv_valid _ ?_, p1, p2, p3⟩
  exact C12.Incl.icounter_labelII dir (itemsOf es) ⟨⟨c, [], []⟩, C02.adv Gen.counterLimit (countLineItems (itemsOf es)) c, []⟩
    (C02.adv_valid _ hc)

/-! ## 7. paths: the JSON rendering of an include name points at the JSON rendering of the included file -/

theorem splitOnP_append_noSep {α} (p : α → Bool) (t : List α) (ht : ∀ x ∈ t, p x = false) : ∀ (s : List α),
    ∃ I L, List.splitOnP p s = I ++ [L] ∧ List.splitOnP p (s ++ t) = I ++ [L ++ t]
  | [] => ⟨[], [], by simp [List.splitOnP_nil], by simpa using List.splitOnP_eq_singleton ht⟩
  | x :: s => by
    obtain ⟨I, L, h1, h2⟩ := splitOnP_append_noSep p t ht s
    rw [List.cons_append, List.splitOnP_cons_eq_if_modifyHead, List.splitOnP_cons_eq_if_modifyHead, h1, h2]
    cases hx : p x with
    | true => exact ⟨[] :: I, L, by simp, by simp⟩
    | false =>
      cases I with
      | nil => exact ⟨[], x :: L, by simp, by simp⟩
      | cons i I => exact ⟨(x :: i) :: I, L, by simp, by simp⟩

theorem isDots_json (l : Str) : isDots (l ++ ".json".toList) = false := by
  have hlen : (l ++ ".json".toList).length ≥ 5 := by simp
  cases h : isDots (l ++ ".json".toList) with
  | false => rfl
  | true =>
    simp only [isDots, Bool.or_eq_true, beq_iff_eq] at h
    rcases h with h | h <;> rw [h] at hlen <;> simp at hlen

/-- the components a proper include name contributes, for the name and for its JSON rendering -/
theorem name_comps {n : Str} (h : nameOK n = true) :
    n.head? ≠ some '/' ∧ (n ++ ".json".toList).head? ≠ some '/' ∧
    ∃ init last, (splitSlash n).filter (fun c => c != ['.']) = init ++ [last] ∧
      (splitSlash (n ++ ".json".toList)).filter (fun c => c != ['.']) = init ++ [last ++ ".json".toList] ∧
      isDots last = false := by
  have hj : ∀ x ∈ ".json".toList, (x == '/') = false := by decide
  obtain ⟨I, L, h1, h2⟩ := splitOnP_append_noSep (fun x => x == '/') ".json".toList hj n
  unfold nameOK at h
  rw [Bool.and_eq_true, Bool.and_eq_true, Bool.and_eq_true] at h
  obtain ⟨⟨⟨_, _⟩, hrel⟩, hlast⟩ := h
  have hsplit : n.splitOn '/' = I ++ [L] := h1
  rw [hsplit, List.getLast?_concat] at hlast
  simp only [Bool.and_eq_true, Bool.not_eq_true'] at hlast
  obtain ⟨hLne, hLd⟩ := hlast
  have hrel' : n.head? ≠ some '/' := by simpa using hrel
  have hnne : n ≠ [] := by
    intro e
    rw [e] at h1
    simp only [List.splitOnP_nil] at h1
    cases I with
    | nil => simp only [List.nil_append, List.cons.injEq, and_true] at h1; rw [← h1] at hLne; simp at hLne
    | cons i I => cases I <;> simp at h1
  refine ⟨hrel', ?_, (I.filter fun c => !c.isEmpty).filter (fun c => c != ['.']), L, ?_, ?_, hLd⟩
  · cases n with
    | nil => exact absurd rfl hnne
    | cons a r => simpa using hrel'
  · have hL1 : (L != ['.']) = true := by
      simp only [isDots, Bool.or_eq_false_iff, beq_eq_false_iff_ne] at hLd
      simpa using hLd.1
    unfold splitSlash
    rw [hsplit]
    simp [List.filter_append, hLne, hL1]
  · have hJ := isDots_json L
    have hJ1 : (L ++ ".json".toList != ['.']) = true := by
      simp only [isDots, Bool.or_eq_false_iff, beq_eq_false_iff_ne] at hJ
      simpa using hJ.1
    have hJne : (L ++ ".json".toList).isEmpty = false := by simp
    have hsplitJ : (n ++ ".json".toList).splitOn '/' = I ++ [L ++ ".json".toList] := h2
    unfold splitSlash
    rw [hsplitJ]
    simp only [List.filter_append, List.filter_cons, List.filter_nil, hJne, hJ1, Bool.not_false, if_true]

theorem jsonPathOf_snoc (a : Comps) (l : Str) : jsonPathOf (a ++ [l]) = a ++ [l ++ ".json".toList] := by
  simp [jsonPathOf]

theorem joinNorm_snoc (a l : Comps) (c : Str) (h : isDots c = false) : joinNorm a (l ++ [c]) = joinNorm a l ++ [c] := by
  rw [joinNorm_append, joinNorm_noDots [c] _ (by simpa using h)]

/-- **the include target of the JSON rendering.**  For a proper include name `n` and any directory: the path spelled for
    `n.json` is the JSON path of the path spelled for `n`, both have the same directory part, and the same holds after
    resolution; the resolved target is not the root -/
theorem spell_json (dir : Comps) {n : Str} (h : nameOK n = true) :
    (spellJoin dir (n ++ ".json".toList)).dropLast = (spellJoin dir n).dropLast ∧
    resolveSpelled (spellJoin dir (n ++ ".json".toList)) = jsonPathOf (resolveSpelled (spellJoin dir n)) ∧
    resolveSpelled (spellJoin dir n) ≠ [] := by
  obtain ⟨h1, h2, init, last, e1, e2, hd⟩ := name_comps h
  rw [spellJoin_rel dir _ h1, spellJoin_rel dir _ h2, e1, e2, ← List.append_assoc, ← List.append_assoc]
  refine ⟨by rw [List.dropLast_concat, List.dropLast_concat], ?_, ?_⟩
  · unfold resolveSpelled
    rw [joinNorm_snoc _ _ _ hd, joinNorm_snoc _ _ _ (isDots_json last), jsonPathOf_snoc]
  · unfold resolveSpelled
    rw [joinNorm_snoc _ _ _ hd]
    simp

theorem jsonPathOf_inj {a b : Comps} (ha : a ≠ []) (hb : b ≠ []) (h : jsonPathOf a = jsonPathOf b) : a = b := by
  obtain ⟨la, hla⟩ : ∃ l, a.getLast? = some l := by
    cases hl : a.getLast? with
    | none => exact absurd (List.getLast?_eq_none_iff.mp hl) ha
    | some l => exact ⟨l, rfl⟩
  obtain ⟨lb, hlb⟩ : ∃ l, b.getLast? = some l := by
    cases hl : b.getLast? with
    | none => exact absurd (List.getLast?_eq_none_iff.mp hl) hb
    | some l => exact ⟨l, rfl⟩
  have ea := C12.Incl.dropLast_snoc a la hla
  have eb := C12.Incl.dropLast_snoc b lb hlb
  rw [ea, eb, jsonPathOf_snoc, jsonPathOf_snoc] at h
  have hlen : [la ++ ".json".toList].length = [lb ++ ".json".toList].length := rfl
  obtain ⟨h1, h2⟩ := List.append_inj' h hlen
  have h3 : la ++ ".json".toList = lb ++ ".json".toList := List.head_eq_of_cons_eq h2
  have : la = lb := List.append_cancel_right h3
  rw [ea, eb, h1, this]

theorem jsonPathOf_beq {a b : Comps} (ha : a ≠ []) (hb : b ≠ []) : (jsonPathOf a == jsonPathOf b) = (a == b) := by
  by_cases h : a = b
  · subst h; simp
  · have : jsonPathOf a ≠ jsonPathOf b := fun e => h (jsonPathOf_inj ha hb e)
    rw [beq_eq_false_iff_ne.mpr h, beq_eq_false_iff_ne.mpr this]

theorem contains_map_json (t : Comps) (ht : t ≠ []) : ∀ (anc : List Comps), (∀ a ∈ anc, a ≠ []) →
    (anc.map jsonPathOf).contains (jsonPathOf t) = anc.contains t
  | [], _ => rfl
  | a :: anc, h => by
    simp only [List.map_cons, List.contains_cons]
    rw [contains_map_json t ht anc fun x hx => h x (List.mem_cons_of_mem _ hx)]
    have := jsonPathOf_beq ht (h a List.mem_cons_self)
    rw [this]

/-! ## 8. the two file systems of a document -/

/-- a well-formed model document: every content tree is well formed, no file is the root directory -/
structure DocWF (doc : Doc) : Prop where
  content : ∀ f ∈ doc, ContentWF f.2
  paths : ∀ f ∈ doc, f.1 ≠ []

theorem get_native (doc : Doc) (p : Comps) :
    (renderNative doc).get p = (doc.find? fun f => f.1 == p).map fun f => .native (nativeText f.2) := by
  rw [renderNative_eq]
  unfold FS.get
  induction doc with
  | nil => rfl
  | cons f doc ih =>
    simp only [List.map_cons, List.find?_cons]
    cases hfp : f.1 == p with
    | true => rfl
    | false => exact ih

theorem get_json (doc : Doc) (p : Comps) (hp : p ≠ []) (hdoc : ∀ f ∈ doc, f.1 ≠ []) :
    (renderJson doc).get (jsonPathOf p) = (doc.find? fun f => f.1 == p).map fun f => .json (jsonContent f.2) := by
  rw [renderJson_eq]
  unfold FS.get
  induction doc with
  | nil => rfl
  | cons f doc ih =>
    simp only [List.map_cons, List.find?_cons]
    rw [jsonPathOf_beq (hdoc f List.mem_cons_self) hp]
    cases hfp : f.1 == p with
    | true => rfl
    | false => exact ih fun g hg => hdoc g (List.mem_cons_of_mem _ hg)

/-- the file name column of an include table -/
abbrev filesOf (x : SD) : List Str := x.incl.map fun e => e.2.file

abbrev fsN (doc : Doc) : FS := renderNative doc
abbrev fsJ (doc : Doc) : FS := renderJson doc

abbrev Valid (c : Counter) : Prop := C13.ValidCounter Gen.counterLimit c

/-- `parse_file` on a file of the native rendering -/
theorem parse_native {doc : Doc} (hd : DocWF doc) {c : Counter} {sp : Comps} {x : SD} {c1 : Counter} (hc : Valid c)
    (h : parseFile (fsN doc) true c sp = .ok (x, c1)) :
    ∃ f, (doc.find? fun g => g.1 == resolveSpelled sp) = some f ∧ Good x ∧ S x = restOf f.2 ∧
      filesOf x = inclNames f.2 ∧ Valid c1 := by
  unfold parseFile at h
  rw [get_native] at h
  cases hx : isXmlPath sp with
  | true => rw [hx] at h; simp at h
  | false =>
    rw [hx] at h
    simp only [Bool.false_eq_true, if_false] at h
    cases hf : doc.find? (fun g => g.1 == resolveSpelled sp) with
    | none => rw [hf] at h; simp at h
    | some f =>
      rw [hf] at h
      simp only [Option.map_some] at h
      have hfm : f ∈ doc := List.mem_of_find?_eq_some hf
      cases hj : isJsonPath sp with
      | true => rw [hj] at h; simp at h
      | false =>
        rw [hj] at h
        simp only [Bool.false_eq_true, if_false] at h
        obtain ⟨sd, c', hp, hv, hg, hs, hi⟩ := native_file (pathStr sp.dropLast) c f.2 (hd.content f hfm) hc
        rw [hp] at h
        simp only [Except.ok.injEq, Prod.mk.injEq] at h
        obtain ⟨rfl, rfl⟩ := h
        refine ⟨f, rfl, ⟨hg.nodup, hg.exprs, hg.safe, hg.vals⟩, hs, ?_, hv⟩
        show List.map (fun e : Nat × InclEntry => e.2.file) (List.map _ sd.incl) = _
        rw [List.map_map]
        exact hi

/-- `parse_file` on a file of the JSON rendering -/
theorem parse_json {doc : Doc} (hd : DocWF doc) {c : Counter} {sp p : Comps} {y : SD} {c1 : Counter} (hc : Valid c)
    (hp : p ≠ []) (hres : resolveSpelled sp = jsonPathOf p) {f : Comps × Entries}
    (hf : (doc.find? fun g => g.1 == p) = some f)
    (h : parseFile (fsJ doc) true c sp = .ok (y, c1)) :
    Good y ∧ S y = restOf f.2 ∧ filesOf y = (inclNames f.2).map (· ++ ".json".toList) ∧ Valid c1 := by
  unfold parseFile at h
  rw [hres, get_json doc p hp hd.paths, hf] at h
  have hfm : f ∈ doc := List.mem_of_find?_eq_some hf
  cases hx : isXmlPath sp with
  | true => rw [hx] at h; simp at h
  | false =>
    rw [hx] at h
    simp only [Bool.false_eq_true, if_false, Option.map_some] at h
    cases hj : isJsonPath sp with
    | false => rw [hj] at h; simp at h
    | true =>
      rw [hj] at h
      simp only [if_true, Except.ok.injEq] at h
      obtain ⟨sd, hpj, hg, hs, hi⟩ := json_file sp.dropLast c f.2 (hd.content f hfm) hc
      rw [hpj] at h
      simp only [Prod.mk.injEq] at h
      obtain ⟨rfl, rfl⟩ := h
      exact ⟨hg, hs, hi, C02.adv_valid _ hc⟩

/-- **(a) the per-file lemma.**  A file of a well-formed document, parsed from its native rendering and from its JSON
    rendering (from any two counter states, under any spelling of its path): both parsers succeed on it or fail on its
    path only; when they succeed, the two results have the same data up to the include placeholder entries — the
    ordinary entries of the content tree — and include tables that list the same names (`n` / `n.json`), in order -/
theorem C09_file_equiv {doc : Doc} (hd : DocWF doc) {c c' : Counter} {sp spJ : Comps} {x y : SD} {c1 c1' : Counter}
    (hc : Valid c) (hc' : Valid c') (hne : resolveSpelled sp ≠ []) (hres : resolveSpelled spJ = jsonPathOf (resolveSpelled sp))
    (h : parseFile (fsN doc) true c sp = .ok (x, c1)) (h' : parseFile (fsJ doc) true c' spJ = .ok (y, c1')) :
    stripEs x.data = stripEs y.data ∧ filesOf y = (filesOf x).map (· ++ ".json".toList) ∧
      C01.dropPhEntries x.data = C01.dropPhEntries y.data := by
  obtain ⟨f, hf, hg, hs, hi, _⟩ := parse_native hd hc h
  obtain ⟨hg', hs', hi', _⟩ := parse_json hd hc' hne hres hf h'
  have e : stripEs x.data = stripEs y.data := hs.trans hs'.symm
  refine ⟨e, by rw [hi', hi], ?_⟩
  rw [← valsNoPh_strip_eq _ hg.vals, ← valsNoPh_strip_eq _ hg'.vals, e]

/-! ## 9. the include merge depends on the parsed files only through their data up to placeholder entries and the
       file-name column of their include tables -/

/-- the conclusion of the congruence, for one pair of calls -/
structure Out (r r' : SD) (c1 c1' : Counter) : Prop where
  good : Good r
  good' : Good r'
  eq : S r = S r'
  valid : Valid c1
  valid' : Valid c1'

/-- what the induction proves for one amount of fuel -/
def RecCongr (doc : Doc) (fuel : Nat) : Prop :=
  ∀ (anc : List Comps) (x y : SD) (dir : Comps) (c c' : Counter) (r r' : SD) (c1 c1' : Counter),
    (∀ a ∈ anc, a ≠ []) → Good x → Good y → S x = S y → filesOf y = (filesOf x).map (· ++ ".json".toList) →
    (∀ n ∈ filesOf x, nameOK n = true) → Valid c → Valid c' →
    mergeIncludesRec (fsN doc) true fuel anc x dir c = .ok (r, c1) →
    mergeIncludesRec (fsJ doc) true fuel (anc.map jsonPathOf) y dir c' = .ok (r', c1') →
    Out r r' c1 c1'

theorem step_congr {doc : Doc} (hd : DocWF doc) (fuel : Nat) (hrec : RecCongr doc fuel) (anc : List Comps) (dir : Comps)
    (hanc : ∀ a ∈ anc, a ≠ []) (e e' : Nat × InclEntry) (hn : nameOK e.2.file = true)
    (he : e'.2.file = e.2.file ++ ".json".toList)
    (temp temp' : SD) (c c' : Counter) (t t' : SD) (c1 c1' : Counter)
    (hg : Good temp) (hg' : Good temp') (hs : S temp = S temp') (hc : Valid c) (hc' : Valid c')
    (h : inclStep (fsN doc) true (mergeIncludesRec (fsN doc) true fuel) anc dir (temp, c) e = .ok (t, c1))
    (h' : inclStep (fsJ doc) true (mergeIncludesRec (fsJ doc) true fuel) (anc.map jsonPathOf) dir (temp', c') e' = .ok (t', c1')) :
    Out t t' c1 c1' := by
  obtain ⟨hdl, hres, hne⟩ := spell_json dir hn
  rw [← he] at hdl hres
  have hcont := contains_map_json _ hne anc hanc
  rw [← hres] at hcont
  have hgetN := get_native doc (resolveSpelled (spellJoin dir e.2.file))
  have hgetJ := get_json doc _ hne hd.paths
  rw [← hres] at hgetJ
  -- a cut edge on both sides
  have hcut : (anc.contains (resolveSpelled (spellJoin dir e.2.file)) = true ∨
      (doc.find? fun g => g.1 == resolveSpelled (spellJoin dir e.2.file)) = none) → Out t t' c1 c1' := by
    intro hc0
    have k1 : anc.contains (resolveSpelled (spellJoin dir e.2.file)) = true ∨
        (fsN doc).get (resolveSpelled (spellJoin dir e.2.file)) = none := by
      rcases hc0 with h0 | h0
      · exact Or.inl h0
      · exact Or.inr (by rw [hgetN, h0]; rfl)
    have k2 : (anc.map jsonPathOf).contains (resolveSpelled (spellJoin dir e'.2.file)) = true ∨
        (fsJ doc).get (resolveSpelled (spellJoin dir e'.2.file)) = none := by
      rcases hc0 with h0 | h0
      · exact Or.inl (by rw [hcont]; exact h0)
      · exact Or.inr (by rw [hgetJ, h0]; rfl)
    rw [C06_cut_edge _ _ _ _ _ _ _ k1] at h
    rw [C06_cut_edge _ _ _ _ _ _ _ k2] at h'
    simp only [pure, Except.pure, Except.ok.injEq, Prod.mk.injEq] at h h'
    obtain ⟨rfl, rfl⟩ := h
    obtain ⟨rfl, rfl⟩ := h'
    exact ⟨hg, hg', hs, hc, hc'⟩
  cases h1 : anc.contains (resolveSpelled (spellJoin dir e.2.file)) with
  | true => exact hcut (Or.inl h1)
  | false =>
    cases hf : doc.find? (fun g => g.1 == resolveSpelled (spellJoin dir e.2.file)) with
    | none => exact hcut (Or.inr hf)
    | some f =>
      clear hcut
      have h1' : (anc.map jsonPathOf).contains (resolveSpelled (spellJoin dir e'.2.file)) = false := by
        rw [hcont]; exact h1
      rw [hf] at hgetN hgetJ
      rw [inclStep_live _ _ _ _ _ _ _ h1 hgetN] at h
      rw [inclStep_live _ _ _ _ _ _ _ h1' hgetJ] at h'
      cases hp : parseFile (fsN doc) true c (spellJoin dir e.2.file) with
      | error z => rw [hp] at h; cases h
      | ok r1 =>
        cases hp' : parseFile (fsJ doc) true c' (spellJoin dir e'.2.file) with
        | error z => rw [hp'] at h'; cases h'
        | ok r1' =>
          rw [hp] at h
          rw [hp'] at h'
          simp only [Except.bind] at h h'
          obtain ⟨x1, d1⟩ := r1
          obtain ⟨y1, d1'⟩ := r1'
          obtain ⟨f0, hf0, gx, sx, ix, vx⟩ := parse_native hd hc hp
          rw [hf] at hf0
          cases hf0
          obtain ⟨gy, sy, iy, vy⟩ := parse_json hd hc' hne hres hf hp'
          have hfm : f ∈ doc := List.mem_of_find?_eq_some hf
          have hemp : y1.incl.isEmpty = x1.incl.isEmpty := by
            have e1 : (filesOf y1).length = (filesOf x1).length := by rw [iy, ix, List.length_map]
            simp only [filesOf, List.length_map] at e1
            cases hx : x1.incl with
            | nil => rw [hx] at e1; cases hy : y1.incl with
              | nil => rfl
              | cons _ _ => rw [hy] at e1; simp at e1
            | cons _ _ => rw [hx] at e1; cases hy : y1.incl with
              | nil => rw [hy] at e1; simp at e1
              | cons _ _ => rfl
          simp only at h h'
          rw [hemp] at h'
          cases hi : x1.incl.isEmpty with
          | true =>
            simp only [hi, if_true, pure, Except.pure, Except.ok.injEq, Prod.mk.injEq] at h h'
            obtain ⟨rfl, rfl⟩ := h
            obtain ⟨rfl, rfl⟩ := h'
            obtain ⟨m1, m2⟩ := Good.merge hg gx
            obtain ⟨m1', m2'⟩ := Good.merge hg' gy
            exact ⟨m1, m1', by rw [m2, m2', hs, sx, sy], vx, vy⟩
          | false =>
            simp only [hi, Bool.false_eq_true, if_false] at h h'
            cases hm : mergeIncludesRec (fsN doc) true fuel (anc ++ [resolveSpelled (spellJoin dir e.2.file)]) x1
                (spellJoin dir e.2.file).dropLast d1 with
            | error z => rw [hm] at h; cases h
            | ok n =>
              cases hm' : mergeIncludesRec (fsJ doc) true fuel
                  (anc.map jsonPathOf ++ [resolveSpelled (spellJoin dir e'.2.file)]) y1
                  (spellJoin dir e'.2.file).dropLast d1' with
              | error z => rw [hm'] at h'; cases h'
              | ok n' =>
                rw [hm] at h
                rw [hm'] at h'
                simp only [pure, Except.pure, Except.ok.injEq, Prod.mk.injEq] at h h'
                obtain ⟨rfl, rfl⟩ := h
                obtain ⟨rfl, rfl⟩ := h'
                have hanc' : ∀ a ∈ anc ++ [resolveSpelled (spellJoin dir e.2.file)], a ≠ [] := by
                  intro a ha
                  rcases List.mem_append.mp ha with ha | ha
                  · exact hanc a ha
                  · simp only [List.mem_singleton] at ha; rw [ha]; exact hne
                have hmap : (anc ++ [resolveSpelled (spellJoin dir e.2.file)]).map jsonPathOf =
                    anc.map jsonPathOf ++ [resolveSpelled (spellJoin dir e'.2.file)] := by
                  rw [List.map_append, List.map_singleton, hres]
                rw [← hmap, hdl] at hm'
                have o := hrec _ x1 y1 _ d1 d1' n.1 n'.1 n.2 n'.2 hanc' gx gy (sx.trans sy.symm) (by rw [iy, ix])
                  (by rw [ix]; exact (hd.content f hfm).names) vx vy hm hm'
                obtain ⟨a1, a2⟩ := Good.merge hg o.good
                obtain ⟨b1, b2⟩ := Good.merge a1 o.good
                obtain ⟨a1', a2'⟩ := Good.merge hg' o.good'
                obtain ⟨b1', b2'⟩ := Good.merge a1' o.good'
                exact ⟨b1, b1', by rw [b2, b2', a2, a2', hs, o.eq], o.valid, o.valid'⟩

theorem fold_congr {doc : Doc} (hd : DocWF doc) (fuel : Nat) (hrec : RecCongr doc fuel) (anc : List Comps) (dir : Comps)
    (hanc : ∀ a ∈ anc, a ≠ []) : ∀ (l l' : List (Nat × InclEntry)),
    (l'.map fun e => e.2.file) = (l.map fun e => e.2.file).map (· ++ ".json".toList) →
    (∀ e ∈ l, nameOK e.2.file = true) →
    ∀ (temp temp' : SD) (c c' : Counter) (t t' : SD) (c1 c1' : Counter),
    Good temp → Good temp' → S temp = S temp' → Valid c → Valid c' →
    l.foldlM (inclStep (fsN doc) true (mergeIncludesRec (fsN doc) true fuel) anc dir) (temp, c) = .ok (t, c1) →
    l'.foldlM (inclStep (fsJ doc) true (mergeIncludesRec (fsJ doc) true fuel) (anc.map jsonPathOf) dir) (temp', c') = .ok (t', c1') →
    Out t t' c1 c1'
  | [], [], _, _, temp, temp', c, c', t, t', c1, c1', hg, hg', hs, hc, hc', h, h' => by
    simp only [List.foldlM_nil, pure, Except.pure, Except.ok.injEq, Prod.mk.injEq] at h h'
    obtain ⟨rfl, rfl⟩ := h
    obtain ⟨rfl, rfl⟩ := h'
    exact ⟨hg, hg', hs, hc, hc'⟩
  | [], _ :: _, hl, _, _, _, _, _, _, _, _, _, _, _, _, _, _, _, _ => by simp at hl
  | _ :: _, [], hl, _, _, _, _, _, _, _, _, _, _, _, _, _, _, _, _ => by simp at hl
  | e :: l, e' :: l', hl, hn, temp, temp', c, c', t, t', c1, c1', hg, hg', hs, hc, hc', h, h' => by
    simp only [List.map_cons, List.cons.injEq] at hl
    rw [List.foldlM_cons] at h h'
    cases hst : inclStep (fsN doc) true (mergeIncludesRec (fsN doc) true fuel) anc dir (temp, c) e with
    | error z => rw [hst] at h; cases h
    | ok r1 =>
      cases hst' : inclStep (fsJ doc) true (mergeIncludesRec (fsJ doc) true fuel) (anc.map jsonPathOf) dir (temp', c') e' with
      | error z => rw [hst'] at h'; cases h'
      | ok r1' =>
        rw [hst] at h
        rw [hst'] at h'
        have o := step_congr hd fuel hrec anc dir hanc e e' (hn e List.mem_cons_self) hl.1 temp temp' c c' r1.1 r1'.1 r1.2 r1'.2
          hg hg' hs hc hc' hst hst'
        exact fold_congr hd fuel hrec anc dir hanc l l' hl.2 (fun x hx => hn x (List.mem_cons_of_mem _ hx))
          r1.1 r1'.1 r1.2 r1'.2 t t' c1 c1' o.good o.good' o.eq o.valid o.valid' h h'

/-- **(b) the congruence lemma for `_merge_includes_recursive`**, by induction on the fuel -/
theorem rec_congr {doc : Doc} (hd : DocWF doc) : ∀ fuel, RecCongr doc fuel
  | 0 => by
    intro anc x y dir c c' r r' c1 c1' _ gx gy hs _ _ hc hc' h h'
    rw [mergeIncludesRec_zero] at h h'
    simp only [Except.ok.injEq, Prod.mk.injEq] at h h'
    obtain ⟨rfl, rfl⟩ := h
    obtain ⟨rfl, rfl⟩ := h'
    exact ⟨gx, gy, hs, hc, hc'⟩
  | fuel + 1 => by
    intro anc x y dir c c' r r' c1 c1' hanc gx gy hs hfiles hnames hc hc' h h'
    rw [mergeIncludesRec_succ] at h h'
    cases hf : x.incl.foldlM (inclStep (fsN doc) true (mergeIncludesRec (fsN doc) true fuel) anc dir) (({} : SD), c) with
    | error z => rw [hf] at h; cases h
    | ok t =>
      cases hf' : y.incl.foldlM (inclStep (fsJ doc) true (mergeIncludesRec (fsJ doc) true fuel) (anc.map jsonPathOf) dir)
          (({} : SD), c') with
      | error z => rw [hf'] at h'; cases h'
      | ok t' =>
        rw [hf] at h
        rw [hf'] at h'
        simp only [Except.map, Except.ok.injEq, Prod.mk.injEq] at h h'
        obtain ⟨rfl, rfl⟩ := h
        obtain ⟨rfl, rfl⟩ := h'
        have o := fold_congr hd fuel (rec_congr hd fuel) anc dir hanc x.incl y.incl hfiles
          (fun e he => hnames _ (List.mem_map_of_mem (f := fun e : Nat × InclEntry => e.2.file) he))
          {} {} c c' t.1 t'.1 t.2 t'.2 Good.empty Good.empty rfl hc hc' hf hf'
        obtain ⟨m1, m2⟩ := Good.merge gx o.good
        obtain ⟨m1', m2'⟩ := Good.merge gy o.good'
        exact ⟨m1, m1', by rw [m2, m2', hs, o.eq], o.valid, o.valid'⟩

/-! ## 10. the whole reader -/

theorem resolve_jsonPathOf {root : Comps} (hroot : ∀ comp ∈ root, isDots comp = false) :
    resolveSpelled root = root ∧ resolveSpelled (jsonPathOf root) = jsonPathOf root := by
  refine ⟨by simpa [resolveSpelled] using joinNorm_noDots root [] hroot, ?_⟩
  have : ∀ comp ∈ jsonPathOf root, isDots comp = false := by
    intro comp hc
    unfold jsonPathOf at hc
    rcases List.mem_append.mp hc with h | h
    · exact hroot comp (C12.Incl.mem_of_dropLast h)
    · simp only [List.mem_singleton] at h; rw [h]; exact isDots_json _
  simpa [resolveSpelled] using joinNorm_noDots (jsonPathOf root) [] this

theorem dropLast_jsonPathOf (p : Comps) : (jsonPathOf p).dropLast = p.dropLast := by
  unfold jsonPathOf; rw [List.dropLast_concat]

/-- the reader above `parse_file`, for the default options -/
theorem readFile_default (ev : Str → EvalResult) (fs : FS) (c : Counter) (p : Comps) (sd : SD) (c2 : Counter)
    (h : readFile ev fs {} c p = .ok (.ok sd c2)) :
    ∃ x c1 m, parseFile fs true c p = .ok (x, c1) ∧
      mergeIncludesRec fs true (fs.length + 1) [] x p.dropLast c1 = .ok (m, c2) ∧
      evalExpressions ev (m.merge (.sd m)) = .ok sd := by
  rw [readFile_anchor ev fs {} c p rfl] at h
  cases hp : parseFile fs true c p with
  | error z =>
    have : parseFile fs ({} : ReadOpts).comments c p = .error z := hp
    rw [this] at h; cases h
  | ok r1 =>
    have e1 : parseFile fs ({} : ReadOpts).comments c p = .ok r1 := hp
    rw [e1] at h
    simp only [Except.bind] at h
    unfold mergeIncludes at h
    cases hm : mergeIncludesRec fs true (fs.length + 1) [] r1.1 p.dropLast r1.2 with
    | error z =>
      have : mergeIncludesRec fs ({} : ReadOpts).comments (fs.length + 1) [] r1.1 p.dropLast r1.2 = .error z := hm
      simp only [this, bind, Except.bind] at h
      cases h
    | ok r2 =>
      have e2 : mergeIncludesRec fs ({} : ReadOpts).comments (fs.length + 1) [] r1.1 p.dropLast r1.2 = .ok r2 := hm
      simp only [e2, bind, Except.bind, pure, Except.pure] at h
      cases he : evalExpressions ev (r2.1.merge (.sd r2.1)) with
      | error z => rw [he] at h; cases h
      | ok sd' =>
        rw [he] at h
        have hsc : (({} : ReadOpts).scope.isEmpty) = true := rfl
        have hor : (({} : ReadOpts).order) = false := rfl
        simp only [hsc, hor, Bool.not_true, Bool.false_and, Bool.false_eq_true, if_false, if_true, Except.ok.injEq,
          ReadOut.ok.injEq] at h
        obtain ⟨rfl, rfl⟩ := h
        exact ⟨r1.1, r1.2, r2.1, rfl, hm, he⟩

/-- **C09, equivalence for include graphs without expressions.**  A well-formed model document (content trees whose
    ordinary part lies in the value domain — hence without `$` —, proper and pairwise different include names per file,
    any include graph: missing targets, diamonds and cycles included), rendered once in native syntax and once in JSON
    syntax, reads through `DictReader.read` to equal data up to the comment / include placeholder entries, as ordered
    dicts at every level, whatever the two counter states. -/
theorem C09_equiv_includes (ev : Str → EvalResult) (doc : Doc) (root : Comps) (c c' : Counter)
    (hd : DocWF doc) (hr : root ≠ []) (hroot : ∀ comp ∈ root, isDots comp = false) (hc : Valid c) (hc' : Valid c') :
    ∀ sdN cN sdJ cJ,
      readFile ev (renderNative doc) {} c root = .ok (.ok sdN cN) →
      readFile ev (renderJson doc) {} c' (jsonPathOf root) = .ok (.ok sdJ cJ) →
      C01.dropPhEntries sdN.data = C01.dropPhEntries sdJ.data ∧ stripEs sdN.data = stripEs sdJ.data := by
  intro sdN cN sdJ cJ h h'
  obtain ⟨x, c1, m, hp, hm, he⟩ := readFile_default ev _ c root sdN cN h
  obtain ⟨y, c1', m', hp', hm', he'⟩ := readFile_default ev _ c' _ sdJ cJ h'
  obtain ⟨r1, r2⟩ := resolve_jsonPathOf hroot
  obtain ⟨f, hf, gx, sx, ix, vx⟩ := parse_native hd hc hp
  rw [r1] at hf
  obtain ⟨gy, sy, iy, vy⟩ := parse_json hd hc' hr r2 hf hp'
  have hfm : f ∈ doc := List.mem_of_find?_eq_some hf
  have hlen : (renderJson doc).length = (renderNative doc).length := by
    rw [renderJson_eq, renderNative_eq, List.length_map, List.length_map]
  rw [hlen, dropLast_jsonPathOf] at hm'
  have o := rec_congr hd _ [] x y _ c1 c1' m m' cN cJ (fun _ h => by cases h) gx gy (sx.trans sy.symm) (by rw [iy, ix])
    (by rw [ix]; exact (hd.content f hfm).names) vx vy hm hm'
  obtain ⟨a1, a2⟩ := Good.merge o.good o.good
  obtain ⟨a1', a2'⟩ := Good.merge o.good' o.good'
  rw [C01.evalExpressions_noexpr ev _ a1.exprs] at he
  rw [C01.evalExpressions_noexpr ev _ a1'.exprs] at he'
  cases he
  cases he'
  have e : stripEs (m.merge (.sd m)).data = stripEs (m'.merge (.sd m')).data := by
    show S _ = S _
    rw [a2, a2', o.eq]
  exact ⟨by rw [← valsNoPh_strip_eq _ a1.vals, ← valsNoPh_strip_eq _ a1'.vals, e], e⟩

/-! ## 11. non-vacuity: a three-file document (`main` includes `a` and `sub/b`; `sub/b` includes `../a`) -/

namespace Ex

def sk (s : String) : Key := .str s.toList
def sv (s : String) : Val := .leaf (.str s.toList)

def exRoot : Comps := ["w".toList, "main".toList]

def mainC : Entries :=
  [(sk "#include", sv "a"), (sk "x", .leaf (.int 1)), (sk "#include 2", sv "sub/b"), (sk "d", .dict [(sk "p", sv "main")])]

def aC : Entries := [(sk "y", .leaf (.int 2)), (sk "d", .dict [(sk "q", sv "from a")]), (sk "x", .leaf (.int 9))]

def bC : Entries :=
  [(sk "#include", sv "../a"), (sk "z", sv "hello world"), (sk "d", .dict [(sk "r", .leaf (.float "1.5".toList))]),
   (sk "#include 2", sv "nothere")]

/-- `/w/main`, `/w/a`, `/w/sub/b` -/
def exDoc : Doc :=
  [(["w".toList, "main".toList], mainC), (["w".toList, "a".toList], aC), (["w".toList, "sub".toList, "b".toList], bC)]

/-! the native texts, line by line (`fmtEntries` is unfolded with its equations: the kernel does not evaluate it) -/

theorem mainC_text : nativeText mainC = C01.unlines
    ["#include 'a'", "#include 'sub/b'", "x                             1;", "d", "{", "    p                         main;", "}"] := by
  have e1 : inclNames mainC = ["a".toList, "sub/b".toList] := by decide +kernel
  have e2 : restOf mainC = [(sk "x", .leaf (.int 1)), (sk "d", .dict [(sk "p", sv "main")])] := by decide +kernel
  have e3 : hoistPlaceholders [(sk "x", .leaf (.int 1)), (sk "d", .dict [(sk "p", sv "main")])] =
      [(sk "x", .leaf (.int 1)), (sk "d", .dict [(sk "p", sv "main")])] := by decide +kernel
  unfold nativeText
  rw [e1, e2]
  show _ ++ removeTrailingSpaces (fmtEntries .native 0 (hoistPlaceholders _)) = _
  rw [e3]
  simp only [sk, sv, fmtEntries, fmtList, fmtItems, formatKey, keyStr, formatScalar]
  decide +kernel

theorem aC_text : nativeText aC = C01.unlines
    ["y                             2;", "d", "{", "    q                         'from a';", "}",
     "x                             9;"] := by
  have e1 : inclNames aC = [] := by decide +kernel
  have e2 : restOf aC = aC := by decide +kernel
  have e3 : hoistPlaceholders aC = aC := by decide +kernel
  unfold nativeText
  rw [e1, e2]
  show _ ++ removeTrailingSpaces (fmtEntries .native 0 (hoistPlaceholders _)) = _
  rw [e3]
  simp only [aC, sk, sv, fmtEntries, fmtList, fmtItems, formatKey, keyStr, formatScalar]
  decide +kernel

theorem bC_text : nativeText bC = C01.unlines
    ["#include '../a'", "#include 'nothere'", "z                             'hello world';", "d", "{",
     "    r                         1.5;", "}"] := by
  have e1 : inclNames bC = ["../a".toList, "nothere".toList] := by decide +kernel
  have e2 : restOf bC = [(sk "z", sv "hello world"), (sk "d", .dict [(sk "r", .leaf (.float "1.5".toList))])] := by
    decide +kernel
  have e3 : hoistPlaceholders [(sk "z", sv "hello world"), (sk "d", .dict [(sk "r", .leaf (.float "1.5".toList))])] =
      [(sk "z", sv "hello world"), (sk "d", .dict [(sk "r", .leaf (.float "1.5".toList))])] := by decide +kernel
  unfold nativeText
  rw [e1, e2]
  show _ ++ removeTrailingSpaces (fmtEntries .native 0 (hoistPlaceholders _)) = _
  rw [e3]
  simp only [sk, sv, fmtEntries, fmtList, fmtItems, formatKey, keyStr, formatScalar]
  decide +kernel

/-- the native rendering of the example, as texts -/
def exFsN : FS :=
  [(["w".toList, "main".toList], .native (C01.unlines
      ["#include 'a'", "#include 'sub/b'", "x                             1;", "d", "{", "    p                         main;", "}"])),
   (["w".toList, "a".toList], .native (C01.unlines
      ["y                             2;", "d", "{", "    q                         'from a';", "}",
       "x                             9;"])),
   (["w".toList, "sub".toList, "b".toList], .native (C01.unlines
      ["#include '../a'", "#include 'nothere'", "z                             'hello world';", "d", "{",
       "    r                         1.5;", "}"]))]

theorem exDoc_native_fs : renderNative exDoc = exFsN := by
  rw [renderNative_eq]
  simp only [exDoc, List.map_cons, List.map_nil, mainC_text, aC_text, bC_text]
  rfl

def dataOf : Except ParseErr ReadOut → Option Entries
  | .ok (.ok sd _) => some sd.data
  | _ => none

theorem contentWF_of {es : Entries} (h1 : DomC01 .native (restOf es) = true) (h2 : normEs (restOf es) = restOf es)
    (h3 : C01.DocKeysAbsent' (restOf es)) (h4 : C02.countQuotedEs (srcOfEs .native (restOf es)) ≤ Gen.counterLimit + 1)
    (h5 : (inclNames es).length ≤ Gen.counterLimit + 1) (h6 : ∀ n ∈ inclNames es, nameOK n = true)
    (h7 : (inclNames es).Nodup) : ContentWF es := ⟨h1, h2, h3, h4, h5, h6, h7⟩

theorem exDoc_wf : DocWF exDoc := by
  refine ⟨fun f hf => ?_, fun f hf => ?_⟩
  · simp only [exDoc, List.mem_cons, List.not_mem_nil, or_false] at hf
    rcases hf with rfl | rfl | rfl
    · exact contentWF_of (by decide +kernel) (by decide +kernel) (by decide +kernel) (by decide +kernel) (by decide +kernel)
        (by decide +kernel) (by decide +kernel)
    · exact contentWF_of (by decide +kernel) (by decide +kernel) (by decide +kernel) (by decide +kernel) (by decide +kernel)
        (by decide +kernel) (by decide +kernel)
    · exact contentWF_of (by decide +kernel) (by decide +kernel) (by decide +kernel) (by decide +kernel) (by decide +kernel)
        (by decide +kernel) (by decide +kernel)
  · simp only [exDoc, List.mem_cons, List.not_mem_nil, or_false] at hf
    rcases hf with rfl | rfl | rfl <;> simp

/-- what both reads return, up to the placeholder entries: the including file wins (`x = 1`), dicts are merged level by
    level, `a` arrives once although it is included twice (directly and through `sub/b`) -/
def exExpected : Entries :=
  [(sk "x", .leaf (.int 1)), (sk "d", .dict [(sk "p", sv "main"), (sk "q", sv "from a"), (sk "r", .leaf (.float "1.5".toList))]),
   (sk "y", .leaf (.int 2)), (sk "z", sv "hello world")]

set_option synthInstance.maxSize 1000 in
theorem exDoc_native : (dataOf (readFile evalInt (renderNative exDoc) {} none exRoot)).map C01.dropPhEntries = some exExpected := by
  rw [exDoc_native_fs]
  decide +kernel

set_option synthInstance.maxSize 1000 in
theorem exDoc_json :
    (dataOf (readFile evalInt (renderJson exDoc) {} none (jsonPathOf exRoot))).map C01.dropPhEntries = some exExpected := by
  decide +kernel

set_option synthInstance.maxSize 1000 in
/-- the native read carries placeholder entries (so the comparison up to them is not empty talk) -/
theorem exDoc_native_keys : (dataOf (readFile evalInt (renderNative exDoc) {} none exRoot)).map keys =
    some [sk "INCLUDE000000", sk "INCLUDE000001", sk "x", sk "d", sk "y", sk "INCLUDE000003", sk "INCLUDE000004", sk "z"] := by
  rw [exDoc_native_fs]
  decide +kernel

theorem exDoc_json_keys : (dataOf (readFile evalInt (renderJson exDoc) {} none (jsonPathOf exRoot))).map keys =
    some [sk "INCLUDE000000", sk "INCLUDE000001", sk "x", sk "d", sk "y", sk "INCLUDE000002", sk "INCLUDE000003", sk "z"] := by
  decide +kernel

/-- the theorem on the example: its hypotheses hold, both reads succeed, and its conclusion is the equality that the two
    evaluations above show -/
theorem exDoc_equiv : ∃ sdN cN sdJ cJ,
    readFile evalInt (renderNative exDoc) {} none exRoot = .ok (.ok sdN cN) ∧
    readFile evalInt (renderJson exDoc) {} none (jsonPathOf exRoot) = .ok (.ok sdJ cJ) ∧
    C01.dropPhEntries sdN.data = C01.dropPhEntries sdJ.data ∧ C01.dropPhEntries sdN.data = exExpected := by
  have h1 := exDoc_native
  have h2 := exDoc_json
  cases hN : readFile evalInt (renderNative exDoc) {} none exRoot with
  | error z => rw [hN] at h1; cases h1
  | ok rN =>
    cases rN with
    | exit1 => rw [hN] at h1; cases h1
    | ok sdN cN =>
      cases hJ : readFile evalInt (renderJson exDoc) {} none (jsonPathOf exRoot) with
      | error z => rw [hJ] at h2; cases h2
      | ok rJ =>
        cases rJ with
        | exit1 => rw [hJ] at h2; cases h2
        | ok sdJ cJ =>
          refine ⟨sdN, cN, sdJ, cJ, rfl, rfl, ?_, ?_⟩
          · exact (C09_equiv_includes evalInt exDoc exRoot none none exDoc_wf (by decide) (by decide) (Or.inl rfl) (Or.inl rfl)
              sdN cN sdJ cJ hN hJ).1
          · rw [hN] at h1
            simpa [dataOf] using h1

end Ex

/-! ## 12. the statement of Props/C09.lean: false as it stands (string leaves that spell a number), true with the
       hypotheses on the content trees -/

theorem joinNorm_length_le : ∀ (l a : Comps), (joinNorm a l).length ≤ a.length + l.length
  | [], a => by simp [joinNorm_nil]
  | c :: l, a => by
    rw [joinNorm_cons]
    have := joinNorm_length_le l (if c == ['.', '.'] then a.dropLast else if c == ['.'] then a else a ++ [c])
    split at this
    · rw [if_pos ‹_›]; simp only [List.length_dropLast, List.length_cons] at this ⊢; omega
    · split at this
      · rw [if_neg ‹_›, if_pos ‹_›]; simp only [List.length_cons] at this ⊢; omega
      · rw [if_neg ‹_›, if_neg ‹_›]; simp only [List.length_append, List.length_cons, List.length_nil] at this ⊢; omega

theorem joinNorm_length_lt : ∀ (l a : Comps), (∃ c ∈ l, isDots c = true) → (joinNorm a l).length < a.length + l.length
  | [], _, h => by obtain ⟨c, hc, _⟩ := h; cases hc
  | c :: l, a, h => by
    rw [joinNorm_cons]
    by_cases h2 : (c == ['.', '.']) = true
    · rw [if_pos h2]
      have := joinNorm_length_le l a.dropLast
      simp only [List.length_dropLast, List.length_cons] at this ⊢; omega
    · by_cases h1 : (c == ['.']) = true
      · rw [if_neg h2, if_pos h1]
        have := joinNorm_length_le l a
        simp only [List.length_cons] at this ⊢; omega
      · rw [if_neg h2, if_neg h1]
        obtain ⟨d, hd, hdd⟩ := h
        rcases List.mem_cons.mp hd with rfl | hd
        · simp only [isDots, Bool.or_eq_true] at hdd
          rcases hdd with e | e
          · exact absurd e h1
          · exact absurd e h2
        · have := joinNorm_length_lt l (a ++ [c]) ⟨d, hd, hdd⟩
          simp only [List.length_append, List.length_cons, List.length_nil] at this ⊢; omega

/-- a path that is its own resolution has no `.` / `..` component -/
theorem noDots_of_resolved {p : Comps} (h : resolveSpelled p = p) : ∀ c ∈ p, isDots c = false := by
  intro c hc
  cases hd : isDots c with
  | false => rfl
  | true =>
    have := joinNorm_length_lt p [] ⟨c, hc, hd⟩
    unfold resolveSpelled at h
    rw [h] at this
    simp at this

/-- **`C09_equiv_statement` restricted to documents without expressions**: the statement of Props/C09.lean with the
    hypotheses on the content trees (`ContentWF`), on the file paths (`≠ []`) and on the counter added; the hypotheses of
    the statement on `.json` / `.xml` paths are not needed (a read that trips over them fails) -/
theorem C09_equiv_statement_noexpr (ev : Str → EvalResult) (doc : Doc) (root : Comps) (c : Counter) :
    root ∈ doc.map (·.1) →
    (∀ f ∈ doc, isJsonPath f.1 = false ∧ isXmlPath f.1 = false ∧ resolveSpelled f.1 = f.1) →
    (∀ f ∈ doc, ContentWF f.2) → (∀ f ∈ doc, f.1 ≠ []) → Valid c →
    ∀ sdN cN sdJ cJ,
      readFile ev (renderNative doc) {} c root = .ok (.ok sdN cN) →
      readFile ev (renderJson doc) {} c (jsonPathOf root) = .ok (.ok sdJ cJ) →
      C01.dropPhEntries sdN.data = C01.dropPhEntries sdJ.data := by
  intro hroot hpaths hcont hne hc sdN cN sdJ cJ h h'
  obtain ⟨f, hf, rfl⟩ := List.mem_map.mp hroot
  exact (C09_equiv_includes ev doc f.1 c c ⟨hcont, hne⟩ (hne f hf) (noDots_of_resolved (hpaths f hf).2.2) hc hc
    sdN cN sdJ cJ h h').1

namespace Ex

/-- one file, one entry: the string `"1"` -/
def normDoc : Doc := [(["w".toList, "main".toList], [(sk "a", sv "1")])]

theorem normDoc_native_fs : renderNative normDoc = [(["w".toList, "main".toList], .native (C01.unlines ["a                             1;"]))] := by
  have e : nativeText [(sk "a", sv "1")] = C01.unlines ["a                             1;"] := by
    have e1 : inclNames [(sk "a", sv "1")] = [] := by decide +kernel
    have e2 : restOf [(sk "a", sv "1")] = [(sk "a", sv "1")] := by decide +kernel
    have e3 : hoistPlaceholders [(sk "a", sv "1")] = [(sk "a", sv "1")] := by decide +kernel
    unfold nativeText
    rw [e1, e2]
    show _ ++ removeTrailingSpaces (fmtEntries .native 0 (hoistPlaceholders _)) = _
    rw [e3]
    simp only [sk, sv, fmtEntries, fmtList, fmtItems, formatKey, keyStr, formatScalar]
    decide +kernel
  rw [renderNative_eq]
  simp only [normDoc, List.map_cons, List.map_nil, e]

set_option synthInstance.maxSize 1000 in
/-- the native reader re-types the leaf (the text is `a 1;`), the JSON reader keeps the string (`C09_string_leaves_stay`) -/
theorem normDoc_reads :
    dataOf (readFile evalInt (renderNative normDoc) {} none exRoot) = some [(sk "a", .leaf (.int 1))] ∧
    dataOf (readFile evalInt (renderJson normDoc) {} none (jsonPathOf exRoot)) = some [(sk "a", sv "1")] := by
  rw [normDoc_native_fs]
  constructor <;> decide +kernel

/-- **`C09_equiv_statement` is false in the model as it stands**: it has no hypothesis on the content trees, and a string
    leaf that spells a number (`{"a": "1"}`, a dict of the value domain, without includes and without `$`) is written
    bare by the native rendering and read back typed, while the JSON reader keeps the string.  The normalisation
    hypothesis `normEs e = e` of `C09_equiv_plain` (here: `ContentWF.norm`) is what is missing. -/
theorem C09_equiv_statement_false : ¬ C09_equiv_statement := by
  intro hst
  obtain ⟨h1, h2⟩ := normDoc_reads
  cases hN : readFile evalInt (renderNative normDoc) {} none exRoot with
  | error z => rw [hN] at h1; cases h1
  | ok rN =>
    cases rN with
    | exit1 => rw [hN] at h1; cases h1
    | ok sdN cN =>
      cases hJ : readFile evalInt (renderJson normDoc) {} none (jsonPathOf exRoot) with
      | error z => rw [hJ] at h2; cases h2
      | ok rJ =>
        cases rJ with
        | exit1 => rw [hJ] at h2; cases h2
        | ok sdJ cJ =>
          have := hst evalInt normDoc exRoot none (by decide) (by decide) sdN cN sdJ cJ hN hJ
          rw [hN] at h1
          rw [hJ] at h2
          simp only [dataOf, Option.some.injEq] at h1 h2
          rw [h1, h2] at this
          revert this
          decide

/-- the example dict is in the value domain: the normalisation is the only hypothesis of `ContentWF` it violates -/
theorem normDoc_dom : DomC01 .native (restOf [(sk "a", sv "1")]) = true ∧
    normEs (restOf [(sk "a", sv "1")]) ≠ restOf [(sk "a", sv "1")] := by
  constructor <;> decide +kernel

end Ex
end DictIO.C09
