/-
  C15, through files -- a file written with `order=True` reads back to the same data as the unordered file, up to key
  order; reading with `order=True` gives the ordered dict.

  Model: `writeStep … order := true` (Model/Writer.lean: `fmtPlain fl (orderD (normEs d))`), `readFile` with
  `ReadOpts.order` (Model/Reader.lean: `SD.order` after scope reduction), `orderD`/`orderV`/`orderEs`
  (Model/Order.lean; `orderD es = sortByKey (orderEs es)` is `order_keys(d)`, `orderEs` orders the values only).

    (a) `domV_order`, `domEs_order`, `DomC01_order`        the value domain is closed under ordering (any flavour)
        `docKeys_order`, `countQuoted_order`, `nodup_order`  … and so are the side conditions of `C01_roundtrip_file`
    (b) `normV_order`, `normEs_orderEs`, `normEs_sortBy`,  `_retype_values` commutes with ordering (keys are not touched
        `normEs_orderD`, `orderD_norm_fixed`                by `normEs`; the sort looks at keys only)
    (c) `C15_write_ordered_read`                            write with `order=True`, read: exactly `orderD (normEs d)`
        `C15_ordered_file_same_assoc`                       ordered file vs unordered file: same association at every
                                                            level, the ordered one sorted at every level
    (d) `removeIncludeKeys_orderD`                          `_remove_include_keys` commutes with `order_keys`
        `readFile_order_flag`                               `readFile {o with order := true}` = `SD.order` of
                                                            `readFile {o with order := false}`, for every `o`, `fs`
        `C15_read_order_flag`                               … on the unordered file: the data of (c), same counter
    (e) `exD`, `exD_text`, `exD_ordered_file`,              `{'b': 1, 3: {'z': None, 'a': [{'y': 1, 'x': 2}], 2: 'x y'}, 'a': "2", 1: True}`
        `exD_order_flag`

  No hypothesis had to be added: everything is stated under the hypotheses of `C01.C01_roundtrip_file` for the
  *unordered* `normEs d`.  No natural statement turned out false.
-/
import DictIO.Props.C01
import DictIO.Props.C15

namespace DictIO.C15
open DictIO

/-! ## (a) the value domain and the side conditions are closed under ordering -/

theorem domEs_eq_all (fl : Flavor) (d : Nat) : ∀ es : Entries,
    domEs fl d es = es.all fun e => isDomKey e.1 && domV fl d e.2
  | [] => rfl
  | (k, v) :: es => by simp only [domEs, List.all_cons, domEs_eq_all fl d es]

/-- `domEs` does not depend on the order of the entries -/
theorem domEs_perm {fl : Flavor} {d : Nat} {es fs : Entries} (h : es.Perm fs) : domEs fl d es = domEs fl d fs := by
  rw [domEs_eq_all, domEs_eq_all, h.all_eq]

theorem keys_sortByKey_perm (es : Entries) : (keys (sortByKey es)).Perm (keys es) :=
  (sortBy_perm (le := Key.le) es).map (·.1)

mutual
  /-- ordering a value of the domain gives a value of the domain (same depth: nothing is nested deeper) -/
  theorem domV_order (fl : Flavor) : ∀ (d : Nat) (v : Val), domV fl d v = true → domV fl d (orderV v) = true
    | _, .leaf _, h => h
    | _, .list _, h => h
    | d, .dict es, h => by
      simp only [domV, Bool.and_eq_true, decide_eq_true_eq] at h
      simp only [orderV, domV, Bool.and_eq_true, decide_eq_true_eq]
      refine ⟨?_, ?_⟩
      · rw [domEs_perm (sortBy_perm (orderEs es))]; exact domEs_order fl (d + 1) es h.1
      · exact (keys_sortByKey_perm _).nodup_iff.mpr (by rw [keys_orderEs]; exact h.2)
  theorem domEs_order (fl : Flavor) : ∀ (d : Nat) (es : Entries), domEs fl d es = true → domEs fl d (orderEs es) = true
    | _, [], _ => rfl
    | d, (k, v) :: es, h => by
      simp only [domEs, Bool.and_eq_true] at h
      simp only [orderEs, domEs, Bool.and_eq_true]
      exact ⟨⟨h.1.1, domV_order fl d v h.1.2⟩, domEs_order fl d es h.2⟩
end

/-- key uniqueness at the top level survives ordering -/
theorem nodup_order {es : Entries} (h : (keys es).Nodup) : (keys (orderD es)).Nodup :=
  (order_keys_perm es).nodup_iff.mpr h

/-- **(a)** `DomC01` is closed under `order_keys`, at every level (lists are not touched) -/
theorem DomC01_order {fl : Flavor} {es : Entries} (h : DomC01 fl es = true) : DomC01 fl (orderD es) = true := by
  have hv : domV fl 0 (.dict es) = true := by simpa [domV, DomC01] using h
  have := domV_order fl 0 (.dict es) hv
  simp only [domV, orderV, Bool.and_eq_true, decide_eq_true_eq] at this
  simp only [DomC01, orderD, Bool.and_eq_true]
  exact ⟨this.1, decide_eq_true this.2⟩

/-- the two documentation keys stay absent -/
theorem docKeys_order {es : Entries} (h : C01.DocKeysAbsent' es) : C01.DocKeysAbsent' (orderD es) := by
  intro e he
  have hk : e.1 ∈ keys es :=
    (order_keys_perm es).mem_iff.mp (List.mem_map_of_mem (f := (·.1)) he)
  obtain ⟨e', he', hk'⟩ := List.mem_map.mp hk
  rw [← hk']; exact h e' he'

theorem countQuotedEs_eq_sum (fl : Flavor) : ∀ es : Entries,
    C02.countQuotedEs (srcOfEs fl es) = (es.map fun e => C02.countQuotedV (srcOfV fl e.2)).sum
  | [] => rfl
  | (k, v) :: es => by simp only [srcOfEs, C02.countQuotedEs, List.map_cons, List.sum_cons, countQuotedEs_eq_sum fl es]

theorem countQuotedEs_perm {fl : Flavor} {es fs : Entries} (h : es.Perm fs) :
    C02.countQuotedEs (srcOfEs fl es) = C02.countQuotedEs (srcOfEs fl fs) := by
  rw [countQuotedEs_eq_sum, countQuotedEs_eq_sum]
  exact (h.map _).sum_nat

mutual
  theorem countQuotedV_order (fl : Flavor) : ∀ v : Val,
      C02.countQuotedV (srcOfV fl (orderV v)) = C02.countQuotedV (srcOfV fl v)
    | .leaf _ => rfl
    | .list _ => rfl
    | .dict es => by
      simp only [orderV, srcOfV, C02.countQuotedV]
      rw [countQuotedEs_perm (sortBy_perm (orderEs es)), countQuotedEs_orderEs fl es]
  theorem countQuotedEs_orderEs (fl : Flavor) : ∀ es : Entries,
      C02.countQuotedEs (srcOfEs fl (orderEs es)) = C02.countQuotedEs (srcOfEs fl es)
    | [] => rfl
    | (k, v) :: es => by
      simp only [orderEs, srcOfEs, C02.countQuotedEs, countQuotedV_order fl v, countQuotedEs_orderEs fl es]
end

/-- the number of strings the writer quotes does not depend on the key order -/
theorem countQuoted_order (fl : Flavor) (es : Entries) :
    C02.countQuotedEs (srcOfEs fl (orderD es)) = C02.countQuotedEs (srcOfEs fl es) := by
  unfold orderD
  rw [countQuotedEs_perm (sortBy_perm (orderEs es)), countQuotedEs_orderEs]

/-! ## (b) `_retype_values` commutes with ordering -/

theorem normEs_insertBy (k : Key) (v : Val) : ∀ l : Entries,
    normEs (insertBy Key.le (k, v) l) = insertBy Key.le (k, normV v) (normEs l)
  | [] => rfl
  | (k', v') :: l => by
    simp only [insertBy, normEs]
    split
    · simp only [normEs, normEs_insertBy k v l]
    · simp only [normEs]

/-- the sort looks at keys only, `normEs` at values only -/
theorem normEs_sortBy : ∀ l : Entries, normEs (sortByKey l) = sortByKey (normEs l)
  | [] => rfl
  | (k, v) :: l => by
    simp only [sortByKey, sortBy, normEs]
    rw [normEs_insertBy]
    exact congrArg _ (normEs_sortBy l)

mutual
  theorem normV_order : ∀ v : Val, normV (orderV v) = orderV (normV v)
    | .leaf _ => rfl
    | .list _ => rfl
    | .dict es => by
      simp only [orderV, normV]
      rw [normEs_sortBy, normEs_orderEs es]
  theorem normEs_orderEs : ∀ es : Entries, normEs (orderEs es) = orderEs (normEs es)
    | [] => rfl
    | (k, v) :: es => by simp only [orderEs, normEs, normV_order v, normEs_orderEs es]
end

/-- **(b)** normalising the ordered dict = ordering the normalised dict -/
theorem normEs_orderD (es : Entries) : normEs (orderD es) = orderD (normEs es) := by
  unfold orderD
  rw [normEs_sortBy, normEs_orderEs]

/-- the ordered normal form is normalised -/
theorem orderD_norm_fixed (d : Entries) : normEs (orderD (normEs d)) = orderD (normEs d) := by
  rw [normEs_orderD, C01.normEs_idem]

/-! ## (c) write with `order=True`, read -/

/-- **C15, through files.**  `DictWriter.write(d, f, mode, order=True)` to a target that does not exist yet writes the
    plain text of the *ordered* normal form `orderD (normEs d)`; `DictReader.read(f)` (default options) returns exactly
    that ordered dict, all side tables empty.  Hypotheses: those of `C01.C01_roundtrip_file`, stated for the unordered
    `normEs d` (they carry over to the ordered dict by (a)). -/
theorem C15_write_ordered_read {d : Entries} {c : Counter} (ev : Str → EvalResult) (target : Comps) (mode : Str) :
    DomC01 .native (normEs d) = true → C01.DocKeysAbsent' d →
    C02.countQuotedEs (srcOfEs .native (normEs d)) ≤ Gen.counterLimit + 1 → C13.ValidCounter Gen.counterLimit c →
    isJsonPath target = false → isXmlPath target = false → resolveSpelled target = target →
    writeStep ev .native target none mode true d c = .ok (fmtPlain .native (orderD (normEs d)), c) ∧
    ∃ c', readFile ev [(target, .native (fmtPlain .native (orderD (normEs d))))] {} c target =
      .ok (.ok { data := orderD (normEs d) } c') := by
  intro hdom hd hn hc hj hx hr
  refine ⟨rfl, ?_⟩
  have hd' : C01.DocKeysAbsent' (normEs d) := by
    intro e he
    have hk : e.1 ∈ keys d := by rw [← C01.keys_normEs]; exact List.mem_map_of_mem (f := (·.1)) he
    obtain ⟨e', he', hk'⟩ := List.mem_map.mp hk
    rw [← hk']; exact hd e' he'
  exact C01.read_written ev target (DomC01_order hdom) (orderD_norm_fixed d) (docKeys_order hd')
    (by rw [countQuoted_order]; exact hn) hc hj hx hr

/-- the same write over an existing file with a mode other than append: the old content plays no role -/
theorem writeStep_ordered_overwrite (ev : Str → EvalResult) (fl : Flavor) (target : Comps) (old mode : Str) (d : Entries)
    (c : Counter) (hm : mode ≠ ['a']) :
    writeStep ev fl target (some old) mode true d c = .ok (fmtPlain fl (orderD (normEs d)), c) := by
  have : (mode == ['a']) = false := by simpa using hm
  simp [writeStep, this]

/-- **C15, ordered file against unordered file.**  Write `d` once with `order=True` and once with `order=False`, read
    both files: the ordered data is `order_keys` of the unordered data; both have the same key → value association at
    every dict level (`SameAssoc`; lists identical), the same entry under every top-level key up to ordering of the
    value, the ordered one has its keys ascending at every dict level (`SortedV`), and all side tables are empty. -/
theorem C15_ordered_file_same_assoc {d : Entries} {c : Counter} (ev : Str → EvalResult) (target : Comps) (mode : Str)
    (hdom : DomC01 .native (normEs d) = true) (hd : C01.DocKeysAbsent' d)
    (hn : C02.countQuotedEs (srcOfEs .native (normEs d)) ≤ Gen.counterLimit + 1)
    (hc : C13.ValidCounter Gen.counterLimit c)
    (hj : isJsonPath target = false) (hx : isXmlPath target = false) (hr : resolveSpelled target = target) :
    ∃ tO tU dO dU cO cU,
      writeStep ev .native target none mode true d c = .ok (tO, c) ∧
      writeStep ev .native target none mode false d c = .ok (tU, c) ∧
      readFile ev [(target, .native tO)] {} c target = .ok (.ok { data := dO } cO) ∧
      readFile ev [(target, .native tU)] {} c target = .ok (.ok { data := dU } cU) ∧
      dU = normEs d ∧ dO = orderD dU ∧
      SameAssoc (.dict dU) (.dict dO) ∧ (∀ k, lookup k dO = (lookup k dU).map orderV) ∧
      (keys dO).Perm (keys dU) ∧ SortedV (.dict dO) := by
  obtain ⟨hwO, cO, hrO⟩ := C15_write_ordered_read ev target mode hdom hd hn hc hj hx hr
  obtain ⟨hwU, cU, hrU⟩ := C01.C01_roundtrip_file ev target mode hdom hd hn hc hj hx hr
  have hnd := (C01.norm_invariants hdom).2
  rw [C01.normEs_idem] at hnd
  exact ⟨_, _, _, _, cO, cU, hwO, hwU, hrO, hrU, rfl, rfl, order_sameAssoc (.dict (normEs d)) hnd,
    order_lookup (normEs d) hnd.1, order_keys_perm (normEs d), order_sorted (.dict (normEs d))⟩

/-! ## (d) reading with `order=True` -/

/-- apply a function to the dict a read returns -/
def ReadOut.mapSD (f : SD → SD) : ReadOut → ReadOut
  | .ok s c => .ok (f s) c
  | .exit1 => .exit1

theorem filter_orderEs (q : Key → Bool) : ∀ es : Entries,
    (orderEs es).filter (fun e => q e.1) = orderEs (es.filter fun e => q e.1)
  | [] => rfl
  | (k, v) :: es => by
    simp only [orderEs, List.filter_cons]
    split
    · simp only [orderEs, filter_orderEs q es]
    · exact filter_orderEs q es

/-- a filter on keys commutes with insertion into a sorted list -/
theorem filter_insertBy (q : Key → Bool) (e : Key × Val) : ∀ l : Entries, SortedK l →
    (insertBy Key.le e l).filter (fun e => q e.1) =
      if q e.1 then insertBy Key.le e (l.filter fun e => q e.1) else l.filter fun e => q e.1
  | [], _ => by simp only [insertBy, List.filter_cons, List.filter_nil]
  | f :: fs, hs => by
    have hs' := List.pairwise_cons.mp hs
    simp only [insertBy]
    by_cases hfe : Key.le f.1 e.1 = true
    · simp only [hfe, if_true, List.filter_cons, filter_insertBy q e fs hs'.2]
      by_cases hqf : q f.1 = true <;> by_cases hqe : q e.1 = true <;> simp [hqf, hqe, insertBy, hfe]
    · have hfe' : Key.le f.1 e.1 = false := by simpa using hfe
      simp only [hfe', Bool.false_eq_true, if_false]
      have hall : ∀ g ∈ (f :: fs).filter (fun e => q e.1), Key.le g.1 e.1 = false := by
        intro g hg
        rcases List.mem_cons.mp (List.mem_filter.mp hg).1 with rfl | hm
        · exact hfe'
        · cases hge : Key.le g.1 e.1 with
          | false => rfl
          | true => exact absurd (Key.le_trans (hs'.1 g hm) hge) hfe
      by_cases hqe : q e.1 = true
      · rw [if_pos hqe, insertBy_lt e _ hall, List.filter_cons, if_pos hqe]
      · rw [if_neg hqe, List.filter_cons, if_neg hqe]

theorem filter_sortBy (q : Key → Bool) : ∀ l : Entries,
    (sortByKey l).filter (fun e => q e.1) = sortByKey (l.filter fun e => q e.1)
  | [] => rfl
  | e :: l => by
    simp only [sortByKey, sortBy]
    rw [filter_insertBy q e _ (sortBy_sorted Key.totalLe l), List.filter_cons]
    have ih := filter_sortBy q l
    simp only [sortByKey] at ih
    split
    · simp only [sortBy, ih]
    · exact ih

/-- `_remove_include_keys` (a filter on top-level keys) commutes with `order_keys` -/
theorem removeIncludeKeys_orderD (es : Entries) : removeIncludeKeys (orderD es) = orderD (removeIncludeKeys es) := by
  let q : Key → Bool := fun k => match k with
    | .str k => !(removeIncludeKeys.containsPhDigits kwIncl k)
    | _ => true
  have hq : ∀ l : Entries, removeIncludeKeys l = l.filter fun e => q e.1 := fun _ => rfl
  rw [hq, hq]
  unfold orderD
  rw [filter_sortBy, filter_orderEs]

/-- **C15, the `order` flag of the reader** (any options, any file system): reading with `order=True` returns
    `SDict.order_keys` of what reading with `order=False` returns — same failures, same `exit1`, same counter. -/
theorem readFile_order_flag (ev : Str → EvalResult) (fs : FS) (o : ReadOpts) (c : Counter) (p : Comps) :
    readFile ev fs { o with order := true } c p =
      (readFile ev fs { o with order := false } c p).map (ReadOut.mapSD SD.order) := by
  obtain ⟨inc, ord, com, sc⟩ := o
  cases inc with
  | true =>
    simp only [readFile, bind, Except.bind, pure, Except.pure, if_true]
    cases parseFile fs com c p with
    | error e => rfl
    | ok r =>
      simp only []
      cases mergeIncludes fs com r.1 p.dropLast r.2 with
      | error e => rfl
      | ok r =>
        simp only []
        cases evalExpressions ev r.1 with
        | error e => rfl
        | ok sd =>
          simp only []
          split <;> rfl
  | false =>
    simp only [readFile, bind, Except.bind, pure, Except.pure, Bool.false_eq_true, if_false]
    cases parseFile fs com c p with
    | error e => rfl
    | ok r =>
      simp only []
      cases evalExpressions ev r.1 with
      | error e => rfl
      | ok sd =>
        simp only []
        split
        · rfl
        · simp only [Except.map, ReadOut.mapSD, if_true, SD.order, removeIncludeKeys_orderD]

/-- **C15, reading the unordered file with `order=True`** gives the ordered dict — the very data that reading the
    ordered file gives (`C15_write_ordered_read`), with the same counter as the plain read -/
theorem C15_read_order_flag {d : Entries} {c : Counter} (ev : Str → EvalResult) (target : Comps)
    (hdom : DomC01 .native (normEs d) = true) (hd : C01.DocKeysAbsent' d)
    (hn : C02.countQuotedEs (srcOfEs .native (normEs d)) ≤ Gen.counterLimit + 1)
    (hc : C13.ValidCounter Gen.counterLimit c)
    (hj : isJsonPath target = false) (hx : isXmlPath target = false) (hr : resolveSpelled target = target) :
    ∃ c', readFile ev [(target, .native (fmtPlain .native (normEs d)))] {} c target =
        .ok (.ok { data := normEs d } c') ∧
      readFile ev [(target, .native (fmtPlain .native (normEs d)))] { order := true } c target =
        .ok (.ok { data := orderD (normEs d) } c') := by
  obtain ⟨_, c', hrU⟩ := C01.C01_roundtrip_file ev target [] hdom hd hn hc hj hx hr
  refine ⟨c', hrU, ?_⟩
  have h := readFile_order_flag ev [(target, .native (fmtPlain .native (normEs d)))] {} c target
  have hrU' : readFile ev [(target, .native (fmtPlain .native (normEs d)))] { ({} : ReadOpts) with order := false } c
      target = .ok (.ok { data := normEs d } c') := hrU
  rw [hrU'] at h
  exact h

/-! ## (e) non-vacuity: `{'b': 1, 3: {'z': None, 'a': [{'y': 1, 'x': 2}], 2: 'x y'}, 'a': "2", 1: True}` -/

/-- mixed int / str keys on two levels, a list with a dict inside, a string leaf that spells a number -/
def exD : Entries :=
  [(.str "b".toList, .leaf (.int 1)),
   (.int 3, .dict [(.str "z".toList, .leaf .none),
                   (.str "a".toList, .list [.dict [(.str "y".toList, .leaf (.int 1)), (.str "x".toList, .leaf (.int 2))]]),
                   (.int 2, .leaf (.str "x y".toList))]),
   (.str "a".toList, .leaf (.str "2".toList)),
   (.int 1, .leaf (.bool true))]

/-- what the writer writes without ordering: `'a': "2"` re-typed to `'a': 2` -/
def exDNorm : Entries :=
  [(.str "b".toList, .leaf (.int 1)),
   (.int 3, .dict [(.str "z".toList, .leaf .none),
                   (.str "a".toList, .list [.dict [(.str "y".toList, .leaf (.int 1)), (.str "x".toList, .leaf (.int 2))]]),
                   (.int 2, .leaf (.str "x y".toList))]),
   (.str "a".toList, .leaf (.int 2)),
   (.int 1, .leaf (.bool true))]

/-- ordered: ints before strs on both levels; the dict inside the list keeps `y` before `x` -/
def exDOrd : Entries :=
  [(.int 1, .leaf (.bool true)),
   (.int 3, .dict [(.int 2, .leaf (.str "x y".toList)),
                   (.str "a".toList, .list [.dict [(.str "y".toList, .leaf (.int 1)), (.str "x".toList, .leaf (.int 2))]]),
                   (.str "z".toList, .leaf .none)]),
   (.str "a".toList, .leaf (.int 2)),
   (.str "b".toList, .leaf (.int 1))]

theorem exD_norm : normEs exD = exDNorm := by decide +kernel
theorem exD_ord : orderD exDNorm = exDOrd := by decide +kernel
theorem exD_dom : DomC01 .native exDNorm = true := by decide +kernel
theorem exD_docKeys : C01.DocKeysAbsent' exD := by decide
theorem exD_count : C02.countQuotedEs (srcOfEs .native exDNorm) = 1 := by decide +kernel

/-- (a) on the example, computed -/
example : DomC01 .native exDOrd = true ∧ C01.DocKeysAbsent' exDOrd ∧
    C02.countQuotedEs (srcOfEs .native exDOrd) = 1 ∧ normEs exDOrd = exDOrd := by
  refine ⟨by decide +kernel, by decide, by decide +kernel, by decide +kernel⟩

/-- (b) on the example: ordering first or normalising first -/
example : normEs (orderD exD) = orderD (normEs exD) ∧ orderD (normEs exD) = exDOrd := by
  rw [normEs_orderD, exD_norm, exD_ord]; exact ⟨rfl, rfl⟩

theorem intRepr_2 : intRepr 2 = ['2'] := by
  show intRepr (Int.ofNat 2) = _
  simp [intRepr, natDigits]

theorem intRepr_3 : intRepr 3 = ['3'] := by
  show intRepr (Int.ofNat 3) = _
  simp [intRepr, natDigits]

/-- the ordered text before trailing-space removal (the line in front of `{` consists of blanks) -/
theorem exD_raw : fmtEntries .native 0 exDOrd = C01.unlines
    ["1                             true;",
     "3",
     "{",
     "    2                         'x y';",
     "    a",
     "    (",
     "        ",
     "        {",
     "            y                 1;",
     "            x                 2;",
     "        }",
     "    );",
     "    z                         NULL;",
     "}",
     "a                             2;",
     "b                             1;"] := by
  simp only [exDOrd, fmtEntries, fmtList, fmtItems, formatKey, keyStr, formatScalar, C01.intRepr_1, intRepr_2, intRepr_3]
  decide +kernel

/-- the text of the ordered file: keys ascending on both dict levels, the dict inside the list as it was -/
theorem exD_text : fmtPlain .native exDOrd = C01.unlines
    ["1                             true;",
     "3",
     "{",
     "    2                         'x y';",
     "    a",
     "    (",
     "",
     "        {",
     "            y                 1;",
     "            x                 2;",
     "        }",
     "    );",
     "    z                         NULL;",
     "}",
     "a                             2;",
     "b                             1;"] := by
  rw [show fmtPlain .native exDOrd = removeTrailingSpaces (fmtEntries .native 0 (hoistPlaceholders exDOrd)) from rfl,
    C01.hoist_id (by decide +kernel), exD_raw]
  decide +kernel

/-- (c) on the example: written with `order=True` to `/w/dict`, read back -/
theorem exD_ordered_file (ev : Str → EvalResult) (mode : Str) :
    writeStep ev .native ["w".toList, "dict".toList] none mode true exD none = .ok (fmtPlain .native exDOrd, none) ∧
    ∃ c', readFile ev [(["w".toList, "dict".toList], .native (fmtPlain .native exDOrd))] {} none
      ["w".toList, "dict".toList] = .ok (.ok { data := exDOrd } c') := by
  have h := C15_write_ordered_read (d := exD) (c := none) ev ["w".toList, "dict".toList] mode
    (by rw [exD_norm]; exact exD_dom) exD_docKeys (by rw [exD_norm, exD_count]; decide) (Or.inl rfl)
    (by decide) (by decide) (by decide)
  rwa [exD_norm, exD_ord] at h

/-- (d) on the example: the unordered file read with `order=True` -/
theorem exD_order_flag (ev : Str → EvalResult) :
    ∃ c', readFile ev [(["w".toList, "dict".toList], .native (fmtPlain .native exDNorm))] {} none
        ["w".toList, "dict".toList] = .ok (.ok { data := exDNorm } c') ∧
      readFile ev [(["w".toList, "dict".toList], .native (fmtPlain .native exDNorm))] { order := true } none
        ["w".toList, "dict".toList] = .ok (.ok { data := exDOrd } c') := by
  have h := C15_read_order_flag (d := exD) (c := none) ev ["w".toList, "dict".toList]
    (by rw [exD_norm]; exact exD_dom) exD_docKeys (by rw [exD_norm, exD_count]; decide) (Or.inl rfl)
    (by decide) (by decide) (by decide)
  rwa [exD_norm, exD_ord] at h

/-- the two dicts differ as lists of entries (the order is observable) but not as maps -/
example : exDOrd ≠ exDNorm ∧ SameAssoc (.dict exDNorm) (.dict exDOrd) ∧ SortedV (.dict exDOrd) ∧
    ¬ SortedV (.dict exDNorm) := by
  refine ⟨by decide +kernel, ?_, ?_, ?_⟩
  · have := order_sameAssoc (.dict exDNorm) (by simp [exDNorm, NodupKeysV, NodupKeysEs, NodupKeysXs, keys])
    simpa only [orderV, ← orderD.eq_1, exD_ord] using this
  · have := order_sorted (.dict exDNorm)
    simpa only [orderV, ← orderD.eq_1, exD_ord] using this
  · intro h
    have h1 : Key.le (.str "b".toList) (.int 3) = true := by
      have := h.1
      simp only [exDNorm, SortedBy, List.pairwise_cons] at this
      exact this.1 _ List.mem_cons_self
    exact absurd h1 (by decide)

end DictIO.C15
