import DictIO.Model.Order

namespace DictIO

/-! ### `strLe` / `Key.le` form a total order -/

theorem strLe_refl : ∀ a : Str, strLe a a = true
  | [] => rfl
  | c :: cs => by simp [strLe, strLe_refl cs]

theorem strLe_total : ∀ a b : Str, strLe a b = true ∨ strLe b a = true
  | [], _ => Or.inl (by simp [strLe])
  | _ :: _, [] => Or.inr (by simp [strLe])
  | a :: as, b :: bs => by
    simp only [strLe]
    rcases Nat.lt_trichotomy a.toNat b.toNat with h | h | h
    · simp [h]
    · have := strLe_total as bs
      simp [h, this]
    · right; simp [h]

theorem strLe_trans : ∀ a b c : Str, strLe a b = true → strLe b c = true → strLe a c = true
  | [], _, _ => by intros; simp [strLe]
  | _ :: _, [], _ => by simp [strLe]
  | _ :: _, _ :: _, [] => by simp [strLe]
  | a :: as, b :: bs, c :: cs => by
    simp only [strLe]
    intro h1 h2
    split at h1
    · split at h2
      · have : a.toNat < c.toNat := by omega
        simp [this]
      · split at h2
        · have : a.toNat < c.toNat := by omega
          simp [this]
        · simp at h2
    · split at h1
      · split at h2
        · have : a.toNat < c.toNat := by omega
          simp [this]
        · split at h2
          · have h3 : ¬ a.toNat < c.toNat := by omega
            have h4 : a.toNat = c.toNat := by omega
            simp [h4, strLe_trans as bs cs h1 h2]
          · simp at h2
      · simp at h1

theorem strLe_antisymm : ∀ a b : Str, strLe a b = true → strLe b a = true → a = b
  | [], [] => by intros; rfl
  | [], _ :: _ => by simp [strLe]
  | _ :: _, [] => by simp [strLe]
  | a :: as, b :: bs => by
    simp only [strLe]
    intro h1 h2
    by_cases hab : a.toNat < b.toNat
    · have : ¬ b.toNat < a.toNat := by omega
      have : ¬ b.toNat = a.toNat := by omega
      simp_all
    · by_cases hba : b.toNat < a.toNat
      · have : ¬ a.toNat = b.toNat := by omega
        simp_all
      · have he : a.toNat = b.toNat := by omega
        have hc : a = b := Char.ext (by simpa [Char.toNat] using UInt32.toNat_inj.mp he)
        simp [he] at h1 h2
        rw [hc, strLe_antisymm as bs h1 h2]

theorem Key.le_refl (a : Key) : Key.le a a = true := by
  cases a <;> simp [Key.le, strLe_refl]

theorem Key.le_total (a b : Key) : Key.le a b = true ∨ Key.le b a = true := by
  cases a <;> cases b <;> simp [Key.le]
  · omega
  · exact strLe_total _ _

theorem Key.le_trans {a b c : Key} : Key.le a b = true → Key.le b c = true → Key.le a c = true := by
  cases a <;> cases b <;> cases c <;> simp [Key.le]
  · omega
  · exact strLe_trans _ _ _

theorem Key.le_antisymm {a b : Key} : Key.le a b = true → Key.le b a = true → a = b := by
  cases a <;> cases b <;> simp [Key.le]
  · omega
  · exact strLe_antisymm _ _

/-! ### insertion sort by key, for any total preorder `le` on the keys -/

structure TotalLe {κ} (le : κ → κ → Bool) : Prop where
  total : ∀ a b, le a b = true ∨ le b a = true
  trans : ∀ {a b c}, le a b = true → le b c = true → le a c = true
  antisymm : ∀ {a b}, le a b = true → le b a = true → a = b

theorem Key.totalLe : TotalLe Key.le := ⟨Key.le_total, Key.le_trans, Key.le_antisymm⟩

theorem Nat.totalLe : TotalLe (fun a b : Nat => decide (a ≤ b)) :=
  ⟨fun a b => by simp; omega, fun h1 h2 => by simp at *; omega, fun h1 h2 => by simp at *; omega⟩

/-- keys ascending (weakly) -/
def SortedBy {κ β} (le : κ → κ → Bool) (l : List (κ × β)) : Prop := l.Pairwise fun a b => le a.1 b.1 = true

abbrev SortedK {β} (l : List (Key × β)) : Prop := SortedBy Key.le l

section
variable {κ β : Type} {le : κ → κ → Bool}

theorem insertBy_perm (e : κ × β) : ∀ l : List (κ × β), (insertBy le e l).Perm (e :: l)
  | [] => List.Perm.refl _
  | f :: fs => by
    simp only [insertBy]
    split
    · exact ((insertBy_perm e fs).cons f).trans (List.Perm.swap e f fs)
    · exact List.Perm.refl _

theorem sortBy_perm : ∀ l : List (κ × β), (sortBy le l).Perm l
  | [] => List.Perm.refl _
  | e :: es => (insertBy_perm e _).trans ((sortBy_perm es).cons e)

theorem insertBy_sorted (H : TotalLe le) (e : κ × β) : ∀ l : List (κ × β), SortedBy le l → SortedBy le (insertBy le e l)
  | [], _ => by simp [insertBy, SortedBy]
  | f :: fs, h => by
    simp only [insertBy]
    have hf := List.pairwise_cons.mp h
    split
    · rename_i hfe
      refine List.pairwise_cons.mpr ⟨?_, insertBy_sorted H e fs hf.2⟩
      intro x hx
      have := (insertBy_perm e fs).mem_iff.mp hx
      rcases List.mem_cons.mp this with rfl | hm
      · exact hfe
      · exact hf.1 x hm
    · rename_i hfe
      have hef : le e.1 f.1 = true := by
        rcases H.total e.1 f.1 with h' | h'
        · exact h'
        · exact absurd h' hfe
      refine List.pairwise_cons.mpr ⟨?_, h⟩
      intro x hx
      rcases List.mem_cons.mp hx with rfl | hm
      · exact hef
      · exact H.trans hef (hf.1 x hm)

theorem sortBy_sorted (H : TotalLe le) : ∀ l : List (κ × β), SortedBy le (sortBy le l)
  | [] => List.Pairwise.nil
  | e :: es => insertBy_sorted H e _ (sortBy_sorted H es)

/-- inserting in front of a list whose keys are all strictly larger -/
theorem insertBy_lt (e : κ × β) (l : List (κ × β))
    (h : ∀ f ∈ l, le f.1 e.1 = false) : insertBy le e l = e :: l := by
  cases l with
  | nil => rfl
  | cons f fs => simp [insertBy, h f (List.mem_cons_self)]

/-- a sorted list with distinct keys is a fixed point of the sort -/
theorem sortBy_of_sorted (H : TotalLe le) : ∀ l : List (κ × β), SortedBy le l → (l.map (·.1)).Nodup → sortBy le l = l
  | [], _, _ => rfl
  | e :: es, hs, hn => by
    have hs' := List.pairwise_cons.mp hs
    have hn' := List.nodup_cons.mp hn
    simp only [sortBy, sortBy_of_sorted H es hs'.2 hn'.2]
    apply insertBy_lt
    intro f hf
    have hle := hs'.1 f hf
    cases hfe : le f.1 e.1 with
    | false => rfl
    | true =>
      have : e.1 = f.1 := H.antisymm hle hfe
      have hm : f.1 ∈ es.map (·.1) := List.mem_map_of_mem (f := (·.1)) hf
      rw [← this] at hm
      exact absurd hm hn'.1

end

end DictIO
