import DictIO.Model.Dict

namespace DictIO

/-! ### well-formedness: unique keys at every dict level -/

mutual
  def NodupKeysV : Val → Prop
    | .leaf _ => True
    | .dict es => (keys es).Nodup ∧ NodupKeysEs es
    | .list xs => NodupKeysXs xs
  def NodupKeysEs : Entries → Prop
    | [] => True
    | (_, v) :: es => NodupKeysV v ∧ NodupKeysEs es
  def NodupKeysXs : List Val → Prop
    | [] => True
    | v :: xs => NodupKeysV v ∧ NodupKeysXs xs
end

theorem lookup_eq_none_iff {k : Key} : ∀ {es : Entries}, lookup k es = none ↔ k ∉ keys es
  | [] => by simp [lookup, keys]
  | (k', v) :: es => by
    have ih := @lookup_eq_none_iff k es
    by_cases h : k' = k
    · simp [lookup, keys, h]
    · have h' : ¬ k = k' := fun e => h e.symm
      simpa [lookup, keys, h, h'] using ih

theorem lookup_some_mem {k : Key} {v : Val} : ∀ {es : Entries}, lookup k es = some v → (k, v) ∈ es
  | [], h => by simp [lookup] at h
  | (k', v') :: es, h => by
    by_cases hk : k' = k
    · simp [lookup, hk] at h; simp [hk, h]
    · simp [lookup, hk] at h; exact List.mem_cons_of_mem _ (lookup_some_mem h)

theorem lookup_of_mem_nodup {k : Key} {v : Val} : ∀ {es : Entries}, (keys es).Nodup → (k, v) ∈ es → lookup k es = some v
  | [], _, h => by simp at h
  | (k', v') :: es, hn, h => by
    have hn' : k' ∉ keys es ∧ (keys es).Nodup := List.nodup_cons.mp hn
    rcases List.mem_cons.mp h with heq | hm
    · cases heq; simp [lookup]
    · have hk : k ∈ keys es := List.mem_map_of_mem (f := (·.1)) hm
      have : k' ≠ k := fun e => hn'.1 (e ▸ hk)
      simp [lookup, this, lookup_of_mem_nodup hn'.2 hm]

/-- with unique keys, lookup only depends on the set of entries -/
theorem lookup_perm {es fs : Entries} (hp : es.Perm fs) (hn : (keys es).Nodup) (k : Key) :
    lookup k fs = lookup k es := by
  have hn' : (keys fs).Nodup := (hp.map (·.1)).nodup_iff.mp hn
  cases h : lookup k es with
  | none =>
    have : k ∉ keys es := lookup_eq_none_iff.mp h
    exact lookup_eq_none_iff.mpr fun hm => this ((hp.map (·.1)).mem_iff.mpr hm)
  | some v => exact lookup_of_mem_nodup hn' (hp.mem_iff.mp (lookup_some_mem h))

end DictIO
