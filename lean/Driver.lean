/-
  Line-protocol driver: one JSON request per line on stdin, one JSON reply per line on stdout.
  Runs the executable definitions of the model; the Python harness runs the implementation on
  the same inputs and diffs (harness/).
-/
import Driver.Codec
import Driver.Ops
import Driver.ApiOps

open Lean DictIO DictIO.Codec

partial def loop (h : IO.FS.Stream) (out : IO.FS.Stream) : IO Unit := do
  let line ← h.getLine
  if line.isEmpty then return ()
  let reply : Json :=
    match Json.parse line with
    | .error e => Json.mkObj [("error", Json.str s!"json: {e}")]
    | .ok j => match (match j.getObjVal? "op" with | .ok (Json.str "api_run") => DictIO.ApiOps.handle j | _ => DictIO.Ops.handle j) with
      | .ok r => r
      | .error e => Json.mkObj [("error", Json.str e)]
  out.putStrLn reply.compress
  loop h out

def main : IO Unit := do
  let out ← IO.getStdout
  loop (← IO.getStdin) out
  out.flush
