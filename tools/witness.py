#!/venv/bin/python
"""Defect witnesses D1..D30 evaluated on the real code (PYTHONPATH decides which tree).
Prints 'Dnn ok' when the property-relevant behaviour is right, 'Dnn FAIL <what>' otherwise."""
import logging, os, sys, tempfile, traceback
from pathlib import Path
logging.disable(logging.CRITICAL)
from dictIO import (DictReader, DictWriter, DictParser, SDict, NativeParser, NativeFormatter, FoamFormatter,
                    FoamParser, XmlParser, XmlFormatter, create_target_file_name)
from dictIO.parser import Parser
from dictIO.utils.counter import BorgCounter
from dictIO.utils.dict import find_global_key

def rt(d):
    s = NativeFormatter().to_string(d)
    return dict(NativeParser().parse_string(s, SDict()))

def parse(text, **kw):
    return dict(NativeParser().parse_string(text, SDict(), **kw))

def strip(d):
    return {k: v for k, v in d.items() if not (isinstance(k, str) and ("COMMENT" in k or "INCLUDE" in k))}

def readtext(text, name="f", files=None, **kw):
    with tempfile.TemporaryDirectory() as td:
        for n, t in (files or {}).items():
            p = Path(td, n); p.parent.mkdir(parents=True, exist_ok=True); p.write_text(t)
        p = Path(td, name); p.write_text(text)
        return strip(dict(DictReader.read(p, **kw)))

W = {}
def w(name):
    def deco(f): W[name] = f; return f
    return deco

@w("D1")
def _():
    for s in ["2024-01", "e5", "+", "5-5", "1e", ".", "-", "1.e-03", ".5", "5."]:
        Parser().parse_value(s)
    assert Parser().parse_value("1.e-03") == 0.001 and Parser().parse_value("2024-01") == "2024-01"
@w("D3")
def _():
    for s in ["a;b", "a,b", "<a>", "}", "{", "(", "a)b", "[x]"]:
        assert rt({"k": s}) == {"k": s}, s
@w("D4")
def _():
    assert rt({"a": "it's", "b": "x y"}) == {"a": "it's", "b": "x y"}
    assert rt({"a": "x y", "b": "say 'x y' ok"}) == {"a": "x y", "b": "say 'x y' ok"}
@w("D5")
def _():
    assert rt({"k": "a b", 3: "c d"}) == {"k": "a b", 3: "c d"}
    find_global_key({"a": 1, 2: "x"}, "x")
@w("D6")
def _():
    assert rt({"k": "\\abc"}) == {"k": "\\abc"} and rt({"k": "abc\\"}) == {"k": "abc\\"}
@w("D7")
def _():
    assert rt({"k": 'x "b"'}) == {"k": 'x "b"'}
    assert rt({"k": '"b"'}) == {"k": '"b"'}
@w("D8")
def _():
    assert strip(parse("s 'http://x.y'; // c\nb 1;\n")) == {"s": "http://x.y", "b": 1}
@w("D9")
def _():
    assert strip(parse("/*c*/a 1;")) == {"a": 1}
@w("D10")
def _():
    assert readtext("a 'x\\\\1y';\nb $a;\nc \"$a\";\n")["b"] == "x\\\\1y"
    r = readtext("a 'x\\1y z';\nb \"$a\";\n"); assert r["b"] == r["a"], r
@w("D11")
def _():
    assert readtext('a 1; ab 20; c "$a + $ab";')["c"] == 21
    assert readtext('x 1; x1 5; y "$x + $x1";')["y"] == 6
@w("D12")
def _():
    r = readtext("a $b; b $a; c 1;"); assert r == {"a": "$b", "b": "$a", "c": 1}, r
@w("D13")
def _():
    assert readtext("n NULL; m $n;")["m"] is None
@w("D14")
def _():
    files = {"b": "#include 'd'\nbk 1;\n", "c": "#include 'd'\nck 1;\n", "d": "dk 1;\n"}
    r = readtext("#include 'b'\n#include 'c'\nak 1;\n", files=files)
    assert r == {"ak": 1, "dk": 1, "bk": 1, "ck": 1}, r
    files = {"s1/x": "x1 1;\n", "s2/x": "x2 1;\n"}
    r = readtext("#include 's1/x'\n#include 's2/x'\n", files=files); assert r == {"x1": 1, "x2": 1}, r
    files = {"b": "#include 'f'\nbk 1;\n", "c": "ck 1;\n"}
    r = readtext("#include 'b'\n#include 'c'\nak 1;\n", files=files); assert r == {"ak": 1, "bk": 1, "ck": 1}, r
@w("D15")
def _():
    s = SDict({"a": "banana"}); s.merge({"a": 1}); assert dict(s) == {"a": "banana"}
    r = readtext("#include 'i'\nk 'xk';\n", files={"i": "k 5;\n"}); assert r == {"k": "xk"}, r
    assert readtext("path '/usr/path';\np2 $path;\n")["p2"] == "/usr/path"
@w("D16")
def _():
    for c in ["// back\\slash", "// a \\1 b", "// \\g<0>"]:
        t = c + "\na 1;\n"
        with tempfile.TemporaryDirectory() as td:
            p = Path(td, "f"); p.write_text(t)
            out = NativeFormatter().to_string(DictReader.read(p))
        assert c in out.splitlines(), (c, out)
@w("D19")
def _():
    out = FoamFormatter().to_string({"a": [{"_z": 1, "y": 2}], "_b": 1})
    assert "_z" not in out and "_b" not in out, out
@w("D20")
def _():
    x = '<?xml version="1.0" ?><p:r xmlns:p="http://example.com/ns"><p:a>1</p:a></p:r>'
    d = XmlParser().parse_string(x, SDict()); out = XmlFormatter().to_string(d)
    assert "http://example.com/ns" in out, out
@w("D21")
def _():
    assert create_target_file_name("parsedXfoo", "parsed").name == "parsed.parsedXfoo"
@w("D22")
def _():
    s = SDict({1: {"a": 2}, "x'y": {"b": 3}, "a": {"b": {"c": 1}}, "a']['b": {"z": 9}, "leaf": 5})
    t = s.copy(); t.reduce_scope([1]); assert dict(t) == {"a": 2}, dict(t)
    t = s.copy(); t.reduce_scope(["x'y"]); assert dict(t) == {"b": 3}
    t = s.copy(); t.reduce_scope(["a']['b"]); assert dict(t) == {"z": 9}, dict(t)
    t = s.copy(); t.reduce_scope(["leaf"]); assert dict(t) == dict(s), dict(t)
    t = s.copy(); t.reduce_scope(["nope"]); assert dict(t) == dict(s)
@w("D23")
def _():
    with tempfile.TemporaryDirectory() as td:
        b = SDict({"bk": 1}); Path(td, "sub").mkdir(); b.dump(Path(td, "sub", "b"))
        a = SDict({"ak": 1}); a.source_file = Path(td, "a"); a.include(b); a.dump()
        r = strip(dict(DictReader.read(Path(td, "a")))); assert r == {"ak": 1, "bk": 1}, (r, Path(td, "a").read_text())
@w("D26")
def _():
    with tempfile.TemporaryDirectory() as td:
        for v in ['x "b"', "'", '"a" b', "it's"]:
            DictWriter.write({"k": v}, Path(td, "f"), mode="w")
            r = strip(dict(DictReader.read(Path(td, "f")))); assert r == {"k": v}, (v, r)
            DictWriter.write({"k": v}, Path(td, "f.json"), mode="w")
            r = strip(dict(DictReader.read(Path(td, "f.json")))); assert r == {"k": v}, (v, r)
@w("D29")
def _():
    t = "/* c */\na 1;\ns\n{\n/* c */\nb 2;\n}\n"
    with tempfile.TemporaryDirectory() as td:
        p = Path(td, "f"); p.write_text(t); d = DictReader.read(p)
    ks = [k for k in d if "BLOCKCOMMENT" in str(k)] + [k for k in d["s"] if "BLOCKCOMMENT" in str(k)]
    assert len(set(ks)) == 2, ks
@w("D30")
def _():
    x = '<?xml version="1.0" ?><r><b id="">1</b></r>'
    d = XmlParser().parse_string(x, SDict())
    v = [v for k, v in d.items() if str(k).endswith("_b")][0]
    assert "_attributes" not in v, v
@w("D37")
def _():
    r = readtext("l (1 2 3); m $l; n $m; d $n[1]; e $m[1];")
    assert r["d"] == 2 and r["e"] == 2, r
@w("D39")
def _():
    for d in ({"k": ["#include"]}, {"k": ["a", "#includeEtc"]}, {"k": "#include"}):
        assert rt(d) == d, d
@w("D40")
def _():
    assert strip(parse("s 'http://x.y'; //\nb 1;\n")) == {"s": "http://x.y", "b": 1}
    s = NativeParser().parse_string("/* see http://x.y */ //\na 1;\n", SDict())
    assert list(s.block_comments.values()) == ["/* see http://x.y */"], s.block_comments
@w("D43")
def _():
    for d in ({"k": ["#", "include", "foo"]}, {"k": ["#", "includes"]}, {"k": "#"}):
        assert rt(d) == d, d
@w("D44")
def _():
    r = readtext('a 0; b "1 / $a"; c "$a + 1"; l (1 2 3); d "$l / 2";')
    assert r["c"] == 1 and isinstance(r["b"], str) and isinstance(r["d"], str), r

if __name__ == "__main__":
    sel = sys.argv[1:] or list(W)
    bad = 0
    for n in sel:
        BorgCounter.reset()
        try:
            W[n](); print(n, "ok")
        except BaseException as e:  # noqa
            bad += 1
            print(n, "FAIL", type(e).__name__, str(e)[:200].replace("\n", "\\n"))
    sys.exit(1 if bad else 0)
