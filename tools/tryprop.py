#!/venv/bin/python
"""development helper: run a property module's harness without the Lean build/audit step"""
import sys, json, time
sys.path.insert(0, "/verif/harness")
import importlib, common
prop = sys.argv[1]; tier = sys.argv[2] if len(sys.argv) > 2 else "quick"; seed = int(sys.argv[3]) if len(sys.argv) > 3 else 0
mod = importlib.import_module(f"props.{prop.lower()}")
ctx = common.Ctx(prop, tier, seed); ctx.fixed_witnesses = []
t = time.time(); mod.run(ctx)
print(f"cases={ctx.evaluations} distinct={len(ctx.distinct)} disagreements={len(ctx.disagreements)} violations={len(ctx.violations)} unsupported={ctx.unsupported} t={time.time()-t:.1f}s")
print("dist", dict(sorted(ctx.dist.items())))
for d in ctx.disagreements[:3]: print("DISAGREE", json.dumps(d, ensure_ascii=False)[:1500])
for v in ctx.violations[:3]: print("VIOLATION", json.dumps(v, ensure_ascii=False, default=repr)[:1500])
