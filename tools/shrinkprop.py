#!/venv/bin/python
"""development helper: run harness, shrink first violations / disagreements of a property"""
import sys, json
sys.path.insert(0, "/verif/harness")
import importlib, common
prop = sys.argv[1]; seed = int(sys.argv[2]) if len(sys.argv) > 2 else 0
mod = importlib.import_module(f"props.{prop.lower()}")
ctx = common.Ctx(prop, "quick", seed); ctx.fixed_witnesses = []
mod.run(ctx)
seen=set()
for v in ctx.violations[:40]:
    if not v: continue
    try: w = mod.shrink_violation(v)
    except Exception as e: w = v; print("shrink failed", e)
    key = json.dumps(w["input"], ensure_ascii=False)
    if key in seen: continue
    seen.add(key)
    print("VIOL", w["what"], "|", key[:600], "| observed:", json.dumps(w["observed"], ensure_ascii=False)[:400])
# disagreements: shrink by dict
for d in ctx.disagreements[:60]:
    if not d: continue
    print("DIS", d["where"], json.dumps(d["input"], ensure_ascii=False)[:300])
