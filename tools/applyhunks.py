#!/venv/bin/python
"""apply selected hunks (by index) of notes/trial-fixes.patch to /repo with `patch` fuzz."""
import re, subprocess, sys
txt = open('/verif/notes/trial-fixes.patch').read()
files = re.split(r'(?m)^diff -ru .*\n', txt)[1:]
n = 0; want = set(map(int, sys.argv[1:])); out = ''
for f in files:
    lines = f.split('\n'); hdr = lines[:2]; body = '\n'.join(lines[2:])
    sel = []
    for h in re.split(r'(?m)^(?=@@ )', body):
        if not h.strip(): continue
        if n in want: sel.append(h)
        n += 1
    if sel:
        path = hdr[0].split()[1][2:]
        out += f"--- a/{path}\n+++ b/{path}\n" + ''.join(sel)
        if not out.endswith('\n'): out += '\n'
r = subprocess.run(['patch', '-p1', '-d', '/repo', '--no-backup-if-mismatch', '-F3'], input=out, text=True)
sys.exit(r.returncode)
