#!/bin/bash
# usage: fixcommit.sh "<Dn ...>" "<commit message>"
set -e
cd /tmp && /venv/bin/python /verif/tools/witness.py $1
/verif/tools/baseline_check.py
cd /repo && git add -A src && git commit -q -m "$2" && git log --oneline | head -1
