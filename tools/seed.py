#!/venv/bin/python
"""seed.py confirm <outdir> <seed-id>   : confirm a sub-agent's breaking change in a fresh scratch worktree and keep it as /verif/seeded/<seed-id>/
   seed.py run <seed-id> [tier] [props…]: apply /verif/seeded/<seed-id>/patch.diff to /repo, run the check(s), undo; prints the verdict lines"""
import json, os, shutil, subprocess, sys, tempfile
from pathlib import Path
V = Path("/verif")


def sh(cmd, **kw):
    return subprocess.run(cmd, shell=isinstance(cmd, str), capture_output=True, text=True, **kw)


def confirm(outdir, sid):
    outdir = Path(outdir)
    meta = json.loads((outdir / "meta.json").read_text())
    wt = Path(tempfile.mkdtemp(prefix="confirm-", dir="/tmp")) / "wt"
    try:
        assert sh(f"git -C /repo worktree add -q {wt} HEAD").returncode == 0
        env = dict(os.environ, PYTHONPATH=f"{wt}/src", PYTHONDONTWRITEBYTECODE="1")
        r0 = sh(["/venv/bin/python", str(outdir / "demo.py")], cwd=outdir, env=env, timeout=300)
        ap = sh(f"git -C {wt} apply {outdir}/patch.diff")
        if ap.returncode != 0:
            print("PATCH DOES NOT APPLY", ap.stderr); return 1
        r1 = sh(["/venv/bin/python", str(outdir / "demo.py")], cwd=outdir, env=env, timeout=300)
        bt = sh(["/venv/bin/python", str(V / "tools/baseline_check.py"), str(wt)], timeout=900)
        print(f"demo without change: exit {r0.returncode}; with change: exit {r1.returncode}; {bt.stdout.strip().splitlines()[0] if bt.stdout else bt.stderr[-200:]}")
        ok = r0.returncode == 0 and r1.returncode != 0 and bt.returncode == 0
        if not ok:
            print("NOT CONFIRMED", r0.stdout[-300:], r1.stdout[-300:], bt.stdout[-500:]); return 1
        dst = V / "seeded" / sid
        dst.mkdir(parents=True, exist_ok=True)
        shutil.copy(outdir / "patch.diff", dst / "patch.diff")
        shutil.copy(outdir / "demo.py", dst / "demo.py")
        meta["confirmed"] = {"demo_unchanged_exit": r0.returncode, "demo_changed_exit": r1.returncode, "baseline": bt.stdout.strip().splitlines()[0],
                             "demo_output_with_change": r1.stdout[-600:]}
        (dst / "meta.json").write_text(json.dumps(meta, indent=1) + "\n")
        print("CONFIRMED ->", dst)
        return 0
    finally:
        sh(f"git -C /repo worktree remove --force {wt}")
        shutil.rmtree(wt.parent, ignore_errors=True)


def run(sid, tier="quick", props=None):
    d = V / "seeded" / sid
    meta = json.loads((d / "meta.json").read_text())
    props = props or [meta["property"]]
    assert sh("git -C /repo status --porcelain").stdout.strip() == "", "repo not clean"
    ap = sh(f"git -C /repo apply {d}/patch.diff")
    if ap.returncode != 0:
        print("PATCH DOES NOT APPLY", ap.stderr); return 1
    res = {}
    failing = None
    try:
        for p in props:
            r = sh([str(V / "check"), p, "--tier", tier], cwd=V, timeout=3600)
            lines = [l for l in r.stdout.splitlines() if l.startswith("VIOLATION") or l.startswith(p + " ")]
            res[p] = {"exit": r.returncode, "lines": lines}
            print(p, "exit", r.returncode, *lines, sep="\n   ")
            for l in lines:
                if l.startswith("VIOLATION") and "replay=" in l:
                    rp = l.split("replay=")[1].split()[0]
                    try:
                        j = json.loads(Path(rp).read_text())
                        if j.get("kind") == "failing-input" and p == meta["property"]:
                            failing = j
                        print("   replay:", json.dumps({k: j.get(k) for k in ("kind", "what", "theorem", "correspondence")}, ensure_ascii=False)[:300])
                    except Exception as e:
                        print("   replay unreadable", e)
    finally:
        sh("git -C /repo checkout -- .")
        assert sh("git -C /repo status --porcelain").stdout.strip() == ""
        sh(["/venv/bin/python", str(V / "harness/extract.py")])      # Generated/*.lean back to the unchanged tree
        for p in props:          # the evidence file now describes the PATCHED tree: put the committed one (a run on the unchanged tree) back
            sh(f"git -C {V} checkout -- evidence/{p}.json")
    if failing is not None:
        # keep the failing input as a regression case if it is well-formed for the module and passes on the unchanged tree
        (d / "failing.json").write_text(json.dumps(failing, indent=1, ensure_ascii=False) + "\n")
        r = sh([str(V / "check"), "--replay", str(d / "failing.json")], cwd=V, timeout=1800)
        ok = r.returncode == 0
        print("   failing input kept as regression case:", ok)
        if not ok:
            (d / "failing.json").unlink()
        meta["failing_case_kept"] = ok
    meta.setdefault("detected_by", {}).update({p: {"tier": tier, "exit": v["exit"], "verdict": [l for l in v["lines"] if l.startswith("VIOLATION")]} for p, v in res.items()})
    (d / "meta.json").write_text(json.dumps(meta, indent=1) + "\n")
    return 0


if __name__ == "__main__":
    if sys.argv[1] == "confirm":
        sys.exit(confirm(sys.argv[2], sys.argv[3]))
    if sys.argv[1] == "run":
        sys.exit(run(sys.argv[2], sys.argv[3] if len(sys.argv) > 3 else "quick", sys.argv[4:] or None))
