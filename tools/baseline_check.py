#!/venv/bin/python
"""Run the repo's pinned test-suite (guard off) and compare with /root/.vp/BASELINE.json.
usage: baseline_check.py [repo_dir]   exit 0 iff every stable_pass test passed."""
import json, os, subprocess, sys, tempfile, xml.etree.ElementTree as ET
repo = sys.argv[1] if len(sys.argv) > 1 else "/repo"
base = json.load(open("/root/.vp/BASELINE.json"))
with tempfile.TemporaryDirectory() as td:
    jx = os.path.join(td, "j.xml")
    env = dict(os.environ); env.pop("DICTIO_VERIF", None)
    env["PYTHONPATH"] = os.path.join(repo, "src")
    subprocess.run(["/venv/bin/python", "-m", "pytest", "-q", "-p", "no:cacheprovider", "--timeout=900",
                    "--continue-on-collection-errors", f"--junitxml={jx}"], cwd=repo, env=env,
                   stdout=subprocess.DEVNULL, stderr=subprocess.DEVNULL)
    passed = set()
    for tc in ET.parse(jx).getroot().iter("testcase"):
        if not any(c.tag in ("failure", "error", "skipped") for c in tc):
            passed.add(f"{tc.get('classname')}::{tc.get('name')}")
missing = [t for t in base["stable_pass"] if t not in passed]
print(f"baseline: {len(base['stable_pass'])-len(missing)}/{len(base['stable_pass'])} stable tests pass")
for m in missing: print("  NOT PASSING:", m)
sys.exit(1 if missing else 0)
