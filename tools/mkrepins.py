#!/venv/bin/python
"""Write lean/DictIO/Props/CxxRe.lean: per property, theorems pinning (by `rfl` against the regenerated
Generated/Regex.lean) the regular expressions of the library functions the property's model was written against.
Run once when the model is (re)aligned with the code; the output is committed and static."""
import re, sys
from pathlib import Path
sys.path.insert(0, "/verif/harness")
from extract_regex import collect, lean_str
V = Path("/verif")
rows = {(f, fn): pats for f, fn, pats in collect(Path("/repo"))}
NATIVE_READ = [("parser.py", "NativeParser." + x) for x in ["_extract_line_comments", "_extract_includes", "_extract_block_comments", "_remove_line_endings_from_block_content",
               "parse_string", "_extract_string_literals", "_extract_expressions", "_separate_delimiters", "_convert_block_content_to_tokens", "_parse_tokenized_dict",
               "_parse_tokenized_list"]] + [("parser.py", "Parser.parse_value"), ("parser.py", "Parser.remove_quotes_from_string"), ("dict.py", "SDict._clean_data")]
NATIVE_WRITE = [("formatter.py", x) for x in ["Formatter.format_string", "NativeFormatter.format_string_with_nested_string", "NativeFormatter.to_string", "NativeFormatter.insert_block_comments",
                "NativeFormatter.insert_includes", "NativeFormatter.insert_line_comments", "NativeFormatter.make_default_block_comment", "NativeFormatter.remove_trailing_spaces"]]
FOAM = [("formatter.py", "FoamFormatter.format_string_with_nested_string"), ("formatter.py", "FoamFormatter.make_default_block_comment")]
SELFREF = [("dict.py", "_value_contains_circular_reference"), ("dict.py", "_insert_expression")]
EXPR = [("dict_reader.py", "DictReader._eval_expressions"), ("dict_reader.py", "DictReader._resolve_reference")]
JSON = [("parser.py", "JsonParser._extract_includes"), ("parser.py", "JsonParser._extract_expression"), ("parser.py", "JsonParser._replace_and_register_expression"),
        ("formatter.py", "JsonFormatter.insert_includes")]
XML = [("parser.py", "XmlParser._parse_nodes"), ("parser.py", "XmlParser.parse_string"), ("formatter.py", "XmlFormatter.populate_into_element"), ("formatter.py", "XmlFormatter.to_string")]
MAP = {
    "C01": NATIVE_READ + NATIVE_WRITE, "C02": NATIVE_READ, "C03": NATIVE_READ + NATIVE_WRITE + SELFREF,
    "C04": [("parser.py", "Parser.parse_value"), ("parser.py", "Parser.remove_quotes_from_string"), ("formatter.py", "Formatter.format_string"),
            ("formatter.py", "NativeFormatter.format_string_with_nested_string"), ("formatter.py", "FoamFormatter.format_string_with_nested_string")],
    "C05": EXPR + SELFREF + [("parser.py", "NativeParser._extract_expressions"), ("parser.py", "JsonParser._extract_expression")],
    "C06": SELFREF + [("parser.py", "NativeParser._extract_includes"), ("parser.py", "JsonParser._extract_includes"), ("dict.py", "SDict._clean_data"),
                      ("dict_reader.py", "DictReader._remove_include_keys")],
    "C07": SELFREF + [("dict.py", "SDict._clean_data")],
    "C08": NATIVE_READ + EXPR + SELFREF,
    "C09": JSON + SELFREF, "C10": NATIVE_READ + NATIVE_WRITE + FOAM, "C11": XML, "C12": NATIVE_READ + NATIVE_WRITE,
    "C13": [("dict_writer.py", "create_target_file_name")], "C16": SELFREF + NATIVE_WRITE,
    "C17": [("cli/dict_parser.py", "_validate_scope"), ("dict_writer.py", "create_target_file_name")],
    "C18": [("parser.py", "NativeParser._extract_includes"), ("formatter.py", "NativeFormatter.insert_includes")],
}
for prop, fns in MAP.items():
    out = [f"/-\n  {prop} -- the regular expressions of the library functions this property's model was written against, pinned against the\n"
           "  table regenerated from the sources on every run (Generated/Regex.lean, harness/extract_regex.py).  A changed pattern\n"
           "  breaks the `rfl` below: the hand-written recogniser of the model is then no longer justified, and the check searches\n"
           "  for a failing input.  GENERATED ONCE by tools/mkrepins.py; committed.\n-/",
           "import DictIO.Generated.Regex", "", f"namespace DictIO.{prop}.Re", "open DictIO.Gen", ""]
    seen = set()
    for f, fn in fns:
        if (f, fn) in seen:
            continue
        seen.add((f, fn))
        pats = rows.get((f, fn))
        if pats is None:
            print("MISSING", f, fn); continue
        name = "re_" + re.sub(r"\W+", "_", f.replace(".py", "") + "_" + fn).strip("_")
        out.append(f"theorem {name} :\n    regexesOf {lean_str(f)} {lean_str(fn)} = [" + ", ".join(lean_str(p) for p in pats) + "] := rfl\n")
    out.append(f"end DictIO.{prop}.Re\n")
    (V / "lean" / "DictIO" / "Props" / f"{prop}re.lean").write_text("\n".join(out))
print("written", sorted(MAP))
