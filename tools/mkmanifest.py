#!/venv/bin/python
"""(Re)generate MANIFEST.json from the table below; run after adding a property check."""
import json, subprocess
from pathlib import Path
V = Path(__file__).resolve().parent.parent
props = {json.loads(l)["id"]: json.loads(l) for l in (V / "properties.jsonl").read_text().splitlines() if l.strip()}
CLAIMED = json.loads((V / "tools" / "claimed.json").read_text())
fix_commits = subprocess.run(["git", "-C", "/repo", "log", "--format=%h %s", "ec5a871..HEAD"], capture_output=True, text=True).stdout.splitlines()
fix_commits = [c for c in fix_commits if c.split(" ", 1)[1].startswith("fix:")]
checks, na = [], []
for pid in sorted(props):
    c = CLAIMED.get(pid)
    if not c:
        na.append({"property_id": pid, "reason": "check not built yet in this round (design in DESIGN.md section 7); not a statement that the technique cannot apply"})
        continue
    checks.append({
        "property_id": pid,
        "quick_cmd": f"./check {pid} --tier quick",
        "thorough_cmd": f"./check {pid} --tier thorough",
        "evidence_file": f"evidence/{pid}.json",
        "replay_cmd_template": "./check --replay {path}",
        "engine": "lean-model+correspondence",
        "level_claimed": {"category": "proof", "text": c["text"], "design_ref": c.get("design_ref", "DESIGN.md section 7")},
        "level_note": c["note"],
        "technique": c.get("technique", "Lean 4 theorems about an executable model + differential correspondence check against /repo"),
    })
m = {
    "version": 1,
    "setup_cmd": "./check --setup",
    "hooks": {"guard": "DICTIO_VERIF", "enable": "no source hooks are needed: checks import /repo/src in-process (editable install) and observe through the public API, audit hooks and BorgCounter.Borg",
              "baseline_off_cmd": "cd /repo && /venv/bin/python -m pytest -ra -q -p no:cacheprovider --timeout=900 --continue-on-collection-errors",
              "source_commits": [c.split()[0] for c in reversed(fix_commits)], "add_only": True},
    "engines": [
        {"name": "lean-model", "path": "lean/", "serves_properties": sorted(CLAIMED), "kind_free_text": "Lean 4 executable model (DictIO/Model), helper lemmas (DictIO/Lemmas), property theorems (DictIO/Props), tables regenerated from /repo (DictIO/Generated), JSON line-protocol driver (Driver)"},
        {"name": "correspondence", "path": "harness/", "serves_properties": sorted(CLAIMED), "kind_free_text": "Python harness: generators, implementation adapters, model-vs-implementation diff, direct property oracles (failing-input search), known findings, evidence"},
    ],
    "checks": checks,
    "notes": "Exit 0 held / 1 VIOLATION / 2 infrastructure. source_commits are unguarded 'fix:' repairs of genuine defects (known_findings.json), not hooks.",
    "not_applicable": na,
}
(V / "MANIFEST.json").write_text(json.dumps(m, indent=1) + "\n")
print("checks:", [c["property_id"] for c in checks], "not claimed:", [n["property_id"] for n in na])
