#!/venv/bin/python
"""Print the markdown table of seeded changes (seeded/*/meta.json) for DESIGN.md section 0.4."""
import json, os, re
V = "/verif/seeded"
print("| id | change (made by an independent sub-agent from the property text alone) | needs | caught by | generator / oracle strengthening it needed |")
print("|---|---|---|---|---|")
for sid in sorted(os.listdir(V)):
    m = json.load(open(f"{V}/{sid}/meta.json"))
    what = re.sub(r"\s+", " ", m["what"]).strip()
    what = (what[:230] + "…") if len(what) > 230 else what
    needs = re.sub(r"\s+", " ", m.get("needs", "")).strip()
    needs = (needs[:150] + "…") if len(needs) > 150 else needs
    det = []
    for p, v in (m.get("detected_by") or {}).items():
        lines = v.get("verdict") or []
        kind = "no-failing-input-found" if any("no-failing-input-found" in l for l in lines) else ("failing input" if v.get("exit") == 1 else "MISSED")
        det.append(f"{p} {v.get('tier')}: {kind}")
    s = m.get("strengthened")
    print(f"| {sid} | {what.replace('|', '/')} | {needs.replace('|', '/')} | {'; '.join(det)} | {s.replace('|', '/') if s else 'none (caught as built)'} |")
