namespace DM

def isWs (c : Char) : Bool := c = ' ' || c = '\t' || c = '\n' || c = '\r'
def isDelim (c : Char) : Bool :=
  c = '{' || c = '}' || c = '(' || c = ')' || c = '<' || c = '>' || c = ';' || c = ','

/-- model of `_separate_delimiters` (first half): every delimiter gets a blank on both sides -/
def sepDelims (cs : List Char) : List Char :=
  cs.flatMap fun c => if isDelim c then [' ', c, ' '] else [c]

/-- model of `re.sub(r"\s+"," ")` + `re.split(r"\s")` with empty words dropped -/
def wordsAux : List Char → List Char → List (List Char)
  | [], acc => if acc.isEmpty then [] else [acc.reverse]
  | c :: cs, acc =>
    if isWs c then
      (if acc.isEmpty then wordsAux cs [] else acc.reverse :: wordsAux cs [])
    else wordsAux cs (c :: acc)

def words (cs : List Char) : List (List Char) := wordsAux cs []

/-- a token: either a single delimiter, or a non-empty word free of blanks and delimiters -/
inductive Tok where
  | delim (c : Char) (h : isDelim c = true)
  | word (w : List Char) (hne : w ≠ []) (hw : ∀ c ∈ w, isWs c = false ∧ isDelim c = false)

def Tok.chars : Tok → List Char
  | .delim c _ => [c]
  | .word w _ _ => w

def Tok.isWord : Tok → Bool
  | .word .. => true
  | _ => false

def AllWs (s : List Char) : Prop := ∀ c ∈ s, isWs c = true

/-- a rendering: tokens interleaved with separators; a separator between two words must be non-empty -/
inductive Rendering : List Tok → List Char → Prop
  | nil (s : List Char) : AllWs s → Rendering [] s
  | cons (s : List Char) (t : Tok) (ts : List Tok) (rest : List Char) :
      AllWs s → Rendering ts rest →
      (t.isWord = true → ∀ t' ts', ts = t' :: ts' → t'.isWord = true → ∃ c r, rest = c :: r ∧ isWs c = true) →
      Rendering (t :: ts) (s ++ t.chars ++ rest)

end DM
