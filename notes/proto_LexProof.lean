import Lproto.Lex
namespace DM

structure Piece where
  sep : List Char
  tok : Tok

def render : List Piece → List Char → List Char
  | [], trail => trail
  | p :: ps, trail => p.sep ++ p.tok.chars ++ render ps trail

/-- separators are blank; two adjacent words are separated by at least one blank -/
def WellSep : Bool → List Piece → Prop
  | _, [] => True
  | prevWord, p :: ps =>
      AllWs p.sep ∧ (prevWord = true → p.tok.isWord = true → p.sep ≠ []) ∧ WellSep p.tok.isWord ps

def flush (acc : List Char) (l : List (List Char)) : List (List Char) :=
  if acc.isEmpty then l else acc.reverse :: l

theorem sepDelims_append (a b : List Char) : sepDelims (a ++ b) = sepDelims a ++ sepDelims b := by
  simp [sepDelims, List.flatMap_append]

theorem isDelim_not_ws (c : Char) (h : isDelim c = true) : isWs c = false := by
  revert h; unfold isWs isDelim; intro h
  simp only [Bool.or_eq_true, decide_eq_true_eq] at h
  rcases h with ((((((h|h)|h)|h)|h)|h)|h)|h <;> subst h <;> decide

theorem ws_not_delim (c : Char) (h : isWs c = true) : isDelim c = false := by
  cases hd : isDelim c with
  | false => rfl
  | true => have := isDelim_not_ws c hd; simp [h] at this

theorem sepDelims_ws (s : List Char) (h : AllWs s) : sepDelims s = s := by
  induction s with
  | nil => rfl
  | cons a s ih =>
    have ha : isDelim a = false := ws_not_delim a (h a (by simp))
    have hs : AllWs s := fun c hc => h c (by simp [hc])
    have := ih hs
    simp only [sepDelims, List.flatMap_cons, ha] at this ⊢
    simp [this]

theorem sepDelims_word (w : List Char) (hw : ∀ c ∈ w, isDelim c = false) : sepDelims w = w := by
  induction w with
  | nil => rfl
  | cons a w ih =>
    have ha : isDelim a = false := hw a (by simp)
    have hw' : ∀ c ∈ w, isDelim c = false := fun c hc => hw c (by simp [hc])
    have := ih hw'
    simp only [sepDelims, List.flatMap_cons, ha] at this ⊢
    simp [this]

/-- blanks after a (possibly empty) pending word -/
theorem wordsAux_ws (s rest acc : List Char) (h : AllWs s) (hne : acc.isEmpty = false → s ≠ []) :
    wordsAux (s ++ rest) acc = flush acc (wordsAux rest []) ∨ (s = [] ∧ acc.isEmpty = true) := by
  induction s generalizing acc with
  | nil =>
    cases hacc : acc.isEmpty with
    | true => right; exact ⟨rfl, rfl⟩
    | false => exact absurd rfl (hne hacc)
  | cons a s ih =>
    left
    have ha : isWs a = true := h a (by simp)
    have hs : AllWs s := fun c hc => h c (by simp [hc])
    have key : wordsAux (s ++ rest) [] = wordsAux rest [] := by
      rcases ih [] hs (by simp) with h1 | ⟨h1, _⟩
      · simpa [flush] using h1
      · subst h1; rfl
    cases hacc : acc.isEmpty with
    | true => simp [wordsAux, ha, hacc, flush, key]
    | false => simp [wordsAux, ha, hacc, flush, key]

theorem wordsAux_ws' (s rest acc : List Char) (h : AllWs s) (hne : acc.isEmpty = false → s ≠ []) :
    wordsAux (s ++ rest) acc = flush acc (wordsAux rest []) ∨ (s = [] ∧ acc = []) := by
  rcases wordsAux_ws s rest acc h hne with h1 | ⟨h1, h2⟩
  · exact Or.inl h1
  · exact Or.inr ⟨h1, by simpa using h2⟩

theorem wordsAux_word (w rest acc : List Char) (hw : ∀ c ∈ w, isWs c = false) :
    wordsAux (w ++ rest) acc = wordsAux rest (w.reverse ++ acc) := by
  induction w generalizing acc with
  | nil => rfl
  | cons a w ih =>
    have ha : isWs a = false := hw a (by simp)
    have hw' : ∀ c ∈ w, isWs c = false := fun c hc => hw c (by simp [hc])
    simp [wordsAux, ha, ih _ hw']

theorem wordsAux_delim (c : Char) (rest acc : List Char) (hc : isDelim c = true) :
    wordsAux (' ' :: c :: ' ' :: rest) acc = flush acc ([c] :: wordsAux rest []) := by
  have hcw := isDelim_not_ws c hc
  have hsp : isWs ' ' = true := by decide
  cases hacc : acc.isEmpty <;> simp [wordsAux, hsp, hcw, hacc, flush]

theorem lex_render_aux (ps : List Piece) (trail acc : List Char) (prev : Bool)
    (hacc : acc.isEmpty = !prev) (haccw : ∀ c ∈ acc, isWs c = false)
    (htrail : AllWs trail) (h : WellSep prev ps) :
    wordsAux (sepDelims (render ps trail)) acc = flush acc (ps.map (·.tok.chars)) := by
  induction ps generalizing acc prev with
  | nil =>
    simp only [render, List.map_nil, sepDelims_ws trail htrail]
    cases trail with
    | nil => cases hacc' : acc.isEmpty <;> simp [wordsAux, flush, hacc']
    | cons a t =>
      rcases wordsAux_ws' (a :: t) [] acc htrail (by simp) with h1 | ⟨h1, _⟩
      · simpa [wordsAux] using h1
      · cases h1
  | cons p ps ih =>
    obtain ⟨hs, hsep, hrest⟩ := h
    simp only [render, sepDelims_append, List.append_assoc, sepDelims_ws p.sep hs, List.map_cons]
    cases htok : p.tok with
    | delim c hc =>
      have hw : (Tok.delim c hc).isWord = false := rfl
      rw [htok] at hrest
      have e : sepDelims (Tok.delim c hc).chars = [' ', c, ' '] := by simp [Tok.chars, sepDelims, hc]
      rw [e]
      have tail := ih [] false (by simp) (by simp) (by simpa [hw] using hrest)
      simp only [flush, List.isEmpty_nil, if_true] at tail
      -- blanks first (may be empty), then the delimiter
      by_cases hsepnil : p.sep = []
      · rw [hsepnil]; simp only [List.nil_append, List.cons_append]
        rw [wordsAux_delim c _ acc hc, tail]; rfl
      · rcases wordsAux_ws' p.sep ([' ', c, ' '] ++ sepDelims (render ps trail)) acc hs (fun _ => hsepnil) with h1 | ⟨h1, _⟩
        · rw [h1]; simp only [List.cons_append, List.nil_append]
          rw [wordsAux_delim c _ [] hc, tail]; simp [flush, Tok.chars]
        · exact absurd h1 hsepnil
    | word w hne hw =>
      have hisw : (Tok.word w hne hw).isWord = true := rfl
      rw [htok] at hrest hsep
      have hw1 : ∀ c ∈ w, isWs c = false := fun c hc => (hw c hc).1
      have hw2 : ∀ c ∈ w, isDelim c = false := fun c hc => (hw c hc).2
      have e : sepDelims (Tok.word w hne hw).chars = w := by simp [Tok.chars, sepDelims_word w hw2]
      rw [e]
      have hwne : w.reverse.isEmpty = false := by
        cases w with
        | nil => exact absurd rfl hne
        | cons a t => simp
      have tail := ih w.reverse true (by simp [hwne]) (by simpa using hw1) (by simpa [hisw] using hrest)
      have tail : wordsAux (sepDelims (render ps trail)) w.reverse
          = (Tok.word w hne hw).chars :: List.map (fun x => x.tok.chars) ps := by
        simpa [flush, hwne, Tok.chars] using tail
      by_cases hsepnil : p.sep = []
      · -- no blank before the word: the pending accumulator must be empty
        have hprev : prev = false := by
          cases prev with
          | false => rfl
          | true => exact absurd hsepnil (hsep rfl hisw)
        have haccnil : acc = [] := by simpa [hprev] using hacc
        subst haccnil
        rw [hsepnil]; simp only [List.nil_append]
        rw [wordsAux_word w _ [] hw1]; simp only [List.append_nil]
        simpa [flush] using tail
      · rcases wordsAux_ws' p.sep (w ++ sepDelims (render ps trail)) acc hs (fun _ => hsepnil) with h1 | ⟨h1, _⟩
        · rw [h1, wordsAux_word w _ [] hw1]; simp only [List.append_nil]
          rw [tail]
        · exact absurd h1 hsepnil

/-- **lex_render**: delimiter separation followed by blank-splitting recovers exactly the token
    list of any well-separated rendering, whatever the amount and kind of blanks. -/
theorem lex_render (ps : List Piece) (trail : List Char) (htrail : AllWs trail) (h : WellSep false ps) :
    words (sepDelims (render ps trail)) = ps.map (·.tok.chars) := by
  have := lex_render_aux ps trail [] false (by simp) (by simp) htrail h
  simpa [words, flush] using this

#print axioms lex_render
end DM
