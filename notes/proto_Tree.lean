namespace TP2

inductive V where
  | leaf (w : String)
  | dict (es : List (String × V))
  | list (xs : List V)

inductive T where
  | w (s : String) | semi | lb | rb | lp | rp
  deriving DecidableEq, Repr

mutual
  def toksV : V → List T
    | .leaf w => [.w w]
    | .dict es => [.lb] ++ toksD es ++ [.rb]
    | .list xs => [.lp] ++ toksL xs ++ [.rp]
  def toksD : List (String × V) → List T
    | [] => []
    | (k, .leaf w) :: es => [.w k, .w w, .semi] ++ toksD es
    | (k, .dict d) :: es => [.w k, .lb] ++ toksD d ++ [.rb] ++ toksD es
    | (k, .list l) :: es => [.w k, .lp] ++ toksL l ++ [.rp, .semi] ++ toksD es
  def toksL : List V → List T
    | [] => []
    | x :: xs => toksV x ++ toksL xs
end

/-- scan to the companion bracket; returns (inside, after) -/
def splitClose : Nat → List T → Option (List T × List T)
  | _, [] => none
  | 0, .rb :: r => some ([], r)
  | 0, .rp :: r => some ([], r)
  | d+1, .rb :: r => (splitClose d r).map fun (i, a) => (.rb :: i, a)
  | d+1, .rp :: r => (splitClose d r).map fun (i, a) => (.rp :: i, a)
  | d, .lb :: r => (splitClose (d+1) r).map fun (i, a) => (.lb :: i, a)
  | d, .lp :: r => (splitClose (d+1) r).map fun (i, a) => (.lp :: i, a)
  | d, .w s :: r => (splitClose d r).map fun (i, a) => (.w s :: i, a)
  | d, .semi :: r => (splitClose d r).map fun (i, a) => (.semi :: i, a)

theorem splitClose_len : ∀ (d : Nat) (r i a : List T), splitClose d r = some (i, a) →
    i.length + a.length < r.length := by
  intro d r
  induction r generalizing d with
  | nil => intro i a h; simp [splitClose] at h
  | cons t r ih =>
    intro i a h
    cases t <;> cases d <;> simp only [splitClose, Option.map_eq_some_iff, Option.some.injEq, Prod.mk.injEq] at h
    all_goals first
      | (obtain ⟨⟨i', a'⟩, h1, h2, h3⟩ := h; subst h2; subst h3; have := ih _ _ _ h1; simp; omega)
      | (obtain ⟨h2, h3⟩ := h; subst h2; subst h3; simp)

def dropSemi : List T → List T
  | .semi :: a => a
  | a => a

theorem dropSemi_len (a : List T) : (dropSemi a).length ≤ a.length := by
  cases a with
  | nil => simp [dropSemi]
  | cons t a => cases t <;> simp [dropSemi]

mutual
  def parseD (pend : List T) (ts : List T) (acc : List (String × V)) : List (String × V) :=
    match ts with
    | [] => acc.reverse
    | .w s :: r => parseD (.w s :: pend) r acc
    | .semi :: r =>
        match pend with
        | [.w v, .w k] => parseD [] r ((k, .leaf v) :: acc)
        | _ => parseD [] r acc
    | .lb :: r =>
        match h : splitClose 0 r with
        | some (inside, after) =>
          match pend with
          | .w k :: _ =>
            have := splitClose_len 0 r inside after h
            parseD [] after ((k, .dict (parseD [] inside [])) :: acc)
          | _ => acc.reverse
        | none => acc.reverse
    | .lp :: r =>
        match h : splitClose 0 r with
        | some (inside, after) =>
          match pend with
          | .w k :: _ =>
            have := splitClose_len 0 r inside after h
            have := dropSemi_len after
            parseD [] (dropSemi after) ((k, .list (parseL inside [])) :: acc)
          | _ => acc.reverse
        | none => acc.reverse
    | _ :: r => parseD [] r acc
  termination_by ts.length
  decreasing_by all_goals simp_wf; all_goals omega
  def parseL (ts : List T) (acc : List V) : List V :=
    match ts with
    | [] => acc.reverse
    | .w s :: r => parseL r (.leaf s :: acc)
    | .lb :: r =>
        match h : splitClose 0 r with
        | some (inside, after) =>
          have := splitClose_len 0 r inside after h
          parseL after (.dict (parseD [] inside []) :: acc)
        | none => acc.reverse
    | .lp :: r =>
        match h : splitClose 0 r with
        | some (inside, after) =>
          have := splitClose_len 0 r inside after h
          parseL after (.list (parseL inside []) :: acc)
        | none => acc.reverse
    | _ :: r => parseL r acc
  termination_by ts.length
  decreasing_by all_goals simp_wf; all_goals omega
end

end TP2
