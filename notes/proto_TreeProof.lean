import Lproto.Tree2
namespace TP2

def pre (b : List T) : Option (List T × List T) → Option (List T × List T) :=
  Option.map fun (i, a) => (b ++ i, a)

theorem pre_nil (o) : pre [] o = o := by cases o <;> simp [pre]
theorem pre_pre (b c o) : pre b (pre c o) = pre (b ++ c) o := by
  cases o <;> simp [pre]

theorem sc_w (d s r) : splitClose d (.w s :: r) = pre [.w s] (splitClose d r) := by
  cases d <;> simp [splitClose, pre]
theorem sc_semi (d r) : splitClose d (.semi :: r) = pre [.semi] (splitClose d r) := by
  cases d <;> simp [splitClose, pre]
theorem sc_lb (d r) : splitClose d (.lb :: r) = pre [.lb] (splitClose (d+1) r) := by
  cases d <;> simp [splitClose, pre]
theorem sc_lp (d r) : splitClose d (.lp :: r) = pre [.lp] (splitClose (d+1) r) := by
  cases d <;> simp [splitClose, pre]
theorem sc_rb (d r) : splitClose (d+1) (.rb :: r) = pre [.rb] (splitClose d r) := by
  simp [splitClose, pre]
theorem sc_rp (d r) : splitClose (d+1) (.rp :: r) = pre [.rp] (splitClose d r) := by
  simp [splitClose, pre]

mutual
  theorem skipV (x : V) (d : Nat) (rest : List T) :
      splitClose d (toksV x ++ rest) = pre (toksV x) (splitClose d rest) := by
    match x with
    | .leaf w => simp [toksV, sc_w]
    | .dict es =>
      simp only [toksV, List.append_assoc, List.cons_append, List.nil_append]
      rw [sc_lb, skipD es (d+1) (.rb :: rest), sc_rb, pre_pre, pre_pre]
      simp
    | .list xs =>
      simp only [toksV, List.append_assoc, List.cons_append, List.nil_append]
      rw [sc_lp, skipL xs (d+1) (.rp :: rest), sc_rp, pre_pre, pre_pre]
      simp
  theorem skipD (es : List (String × V)) (d : Nat) (rest : List T) :
      splitClose d (toksD es ++ rest) = pre (toksD es) (splitClose d rest) := by
    match es with
    | [] => simp [toksD, pre_nil]
    | (k, .leaf w) :: es =>
      simp only [toksD, List.append_assoc, List.cons_append, List.nil_append]
      rw [sc_w, sc_w, sc_semi, skipD es d rest, pre_pre, pre_pre, pre_pre]
      simp
    | (k, .dict dd) :: es =>
      simp only [toksD, List.append_assoc, List.cons_append, List.nil_append]
      rw [sc_w, sc_lb, skipD dd (d+1) (.rb :: (toksD es ++ rest)), sc_rb, skipD es d rest]
      simp only [pre_pre]; simp
    | (k, .list l) :: es =>
      simp only [toksD, List.append_assoc, List.cons_append, List.nil_append]
      rw [sc_w, sc_lp, skipL l (d+1) (.rp :: .semi :: (toksD es ++ rest)), sc_rp, sc_semi, skipD es d rest]
      simp only [pre_pre]; simp
  theorem skipL (xs : List V) (d : Nat) (rest : List T) :
      splitClose d (toksL xs ++ rest) = pre (toksL xs) (splitClose d rest) := by
    match xs with
    | [] => simp [toksL, pre_nil]
    | x :: xs =>
      simp only [toksL, List.append_assoc]
      rw [skipV x d (toksL xs ++ rest), skipL xs d rest, pre_pre]
end

theorem close_rb (b rest : List T) (h : ∀ d r, splitClose d (b ++ r) = pre b (splitClose d r)) :
    splitClose 0 (b ++ .rb :: rest) = some (b, rest) := by
  rw [h]; simp [splitClose, pre]
theorem close_rp (b rest : List T) (h : ∀ d r, splitClose d (b ++ r) = pre b (splitClose d r)) :
    splitClose 0 (b ++ .rp :: rest) = some (b, rest) := by
  rw [h]; simp [splitClose, pre]

mutual
  theorem parseD_toks (es : List (String × V)) (acc : List (String × V)) :
      parseD [] (toksD es) acc = acc.reverse ++ es := by
    match es with
    | [] => simp [toksD, parseD]
    | (k, .leaf w) :: es =>
      simp only [toksD, List.cons_append, List.nil_append]
      rw [parseD, parseD, parseD]
      try simp only []
      rw [parseD_toks es]; simp
    | (k, .dict dd) :: es =>
      simp only [toksD, List.append_assoc, List.cons_append, List.nil_append]
      rw [parseD, parseD]
      have h := close_rb (toksD dd) (toksD es) (fun d r => skipD dd d r)
      split
      · rename_i inside after heq
        rw [h] at heq; cases heq
        try simp only []
        rw [parseD_toks dd [], parseD_toks es]; simp
      · rename_i heq; rw [h] at heq; cases heq
    | (k, .list l) :: es =>
      simp only [toksD, List.append_assoc, List.cons_append, List.nil_append]
      rw [parseD, parseD]
      have h := close_rp (toksL l) (.semi :: toksD es) (fun d r => skipL l d r)
      split
      · rename_i inside after heq
        rw [h] at heq; cases heq
        simp only [dropSemi]
        rw [parseL_toks l [], parseD_toks es]; simp
      · rename_i heq; rw [h] at heq; cases heq
  theorem parseL_toks (xs : List V) (acc : List V) :
      parseL (toksL xs) acc = acc.reverse ++ xs := by
    match xs with
    | [] => simp [toksL, parseL]
    | .leaf w :: xs =>
      simp only [toksL, toksV, List.cons_append, List.nil_append]
      rw [parseL, parseL_toks xs]; simp
    | .dict dd :: xs =>
      simp only [toksL, toksV, List.append_assoc, List.cons_append, List.nil_append]
      rw [parseL]
      have h := close_rb (toksD dd) (toksL xs) (fun d r => skipD dd d r)
      split
      · rename_i inside after heq
        rw [h] at heq; cases heq
        try simp only []
        rw [parseD_toks dd [], parseL_toks xs]; simp
      · rename_i heq; rw [h] at heq; cases heq
    | .list l :: xs =>
      simp only [toksL, toksV, List.append_assoc, List.cons_append, List.nil_append]
      rw [parseL]
      have h := close_rp (toksL l) (toksL xs) (fun d r => skipL l d r)
      split
      · rename_i inside after heq
        rw [h] at heq; cases heq
        try simp only []
        rw [parseL_toks l [], parseL_toks xs]; simp
      · rename_i heq; rw [h] at heq; cases heq
end

/-- **tree_of_tokens**: the scanner rebuilds every tree from its token stream. -/
theorem tree_of_tokens (es : List (String × V)) : parseD [] (toksD es) [] = es := by
  simpa using parseD_toks es []

#print axioms tree_of_tokens
end TP2
