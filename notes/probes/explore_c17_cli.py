import logging, os, shutil, sys, subprocess, itertools, hashlib, random
logging.disable(logging.CRITICAL)
from pathlib import Path
from dictIO import DictParser
W=Path('/tmp/probe/w')
SRC={'f':"/* C++ hdr */\n#include 'inc'\n// c1\nb 2; a 1; // c2\nt \"$a + $p\";\nn { z 1; m { c 3; } // c3\n d $a; }\n", 'inc':"// ic\np 5;\n"}
def setup(root):
    shutil.rmtree(root,ignore_errors=True); root.mkdir(parents=True)
    for n,t in SRC.items(): (root/n).write_text(t)
def snap(root): return {str(p.relative_to(root)): p.read_bytes() for p in sorted(root.rglob('*')) if p.is_file() and p.name!='log.txt'}
rnd=random.Random(1)
combos=list(itertools.product([0,1],[0,1],[0,1],['a','w'],[None,'cpp','foam','xml','json'],[None,'n',"[n, m]","['n','m']"],[None,'-q','-v'],[0,1]))
rnd.shuffle(combos); bad=0
for (I,O,C,mode,out,scope,verb,log) in combos[:40]:
    A=W/'cli'; B=W/'api'; setup(A); setup(B)
    argv=['f']+(['-I'] if I else [])+(['--order'] if O else [])+(['-C'] if C else [])+['--mode',mode]+(['-o',out] if out else [])+(['--scope',scope] if scope else [])+([verb] if verb else [])+(['--log','log.txt'] if log else [])
    r=subprocess.run([sys.executable,'-m','dictIO.cli.dict_parser']+argv,cwd=A,capture_output=True,text=True,env={**os.environ})
    os.chdir(B)
    sc={None:None,'n':['n'],"[n, m]":['n','m'],"['n','m']":['n','m']}[scope]
    try: DictParser.parse('f',includes=not I,mode=mode,order=bool(O),comments=not C,scope=sc,output=out or 'cpp')
    except SystemExit: pass
    os.chdir('/tmp')
    if snap(A)!=snap(B) or 'Traceback' in r.stderr:
        bad+=1; print('DIFF',argv, sorted(set(snap(A))^set(snap(B))), r.stderr[-200:])
print('bad',bad)
