import logging, random, sys, copy, os, shutil, json, re
logging.disable(logging.CRITICAL)
from pathlib import Path
from dictIO import SDict, DictReader, DictWriter, NativeFormatter, FoamFormatter, FoamParser, JsonFormatter, JsonParser, XmlParser, XmlFormatter
from dictIO.parser import Parser
rnd=random.Random(int(sys.argv[1]) if len(sys.argv)>1 else 0)
W=Path('/tmp/probe/w'); os.chdir('/tmp'); shutil.rmtree(W,ignore_errors=True); W.mkdir(); os.chdir(W)
P=Parser()
def normleaf(x):
    if isinstance(x,str):
        v=P.parse_value(x); return x if isinstance(v,str) else v
    return x
def norm(o):
    if isinstance(o,dict): return {k:norm(v) for k,v in o.items()}
    if isinstance(o,list): return [norm(x) for x in o]
    return normleaf(o)
def strip(o, foam=False):
    if isinstance(o,dict): return {k:strip(v) for k,v in o.items() if not (isinstance(k,str) and ('COMMENT' in k or k=='FoamFile'))}
    if isinstance(o,list): return [strip(x) for x in o]
    return o
def typed(o):
    if isinstance(o,dict): return ('d',[(typed(k),typed(v)) for k,v in o.items()])
    if isinstance(o,list): return ('l',[typed(x) for x in o])
    return (type(o).__name__, repr(o))
def rm_us(o):
    if isinstance(o,dict): return {k:rm_us(v) for k,v in o.items() if not str(k).startswith('_')}
    if isinstance(o,list): return [rm_us(x) for x in o]
    return o
AL=list("ab1 ;,{}()<>[]'\\:/.-=xé\t")
def rstr(dq=False):
    if rnd.random()<0.2: return rnd.choice(['','1','true','None','a b','x/y',"it's",'1e3'])
    while True:
        s=''.join(rnd.choice(AL) for _ in range(rnd.randint(1,6)))
        if '//' in s or '/*' in s or '*/' in s or s.count("'")>2 or "\\'" in s: continue
        return s
def rleaf():
    k=rnd.random()
    if k<0.5: return rstr()
    if k<0.7: return rnd.randint(-99,99)
    if k<0.8: return rnd.choice([1.5,-0.25,1e-7])
    if k<0.9: return rnd.choice([True,False])
    return None
def rkey(used, us=True):
    while True:
        k=(('_' if us and rnd.random()<0.2 else '')+''.join(rnd.choice('abcxyz') for _ in range(rnd.randint(1,4))))
        if k not in used and isinstance(P.parse_value(k),str): used.add(k); return k
def rval(d, us=True):
    k=rnd.random()
    if d>=3 or k<0.5: return rleaf()
    if k<0.75: return rdict(d+1, us)
    return [rval(d+1, us) for _ in range(rnd.randint(0,3))]
def rdict(d=0, us=True):
    used=set(); return {rkey(used,us):rval(d,us) for _ in range(rnd.randint(0,4))}
res={}
# C10 foam
bad=0
for i in range(1500):
    d=rdict(); d0=copy.deepcopy(d)
    try:
        s=FoamFormatter().to_string(d); r=strip(dict(FoamParser().parse_string(s,SDict())))
        # single quotes in output must come from data
        nq_data=json.dumps(d).count("'")
        if typed(r)!=typed(norm(rm_us(d))) or d!=d0 or s.count("'")!=sum(x.count("'") for x in re.findall(r'"[^"]*"|\S+', s) if False) and False:
            bad+=1
            if bad<=4: print('FOAM DIFF',d,'\n got',r)
    except Exception as e:
        bad+=1
        if bad<=4: print('FOAM EXC',d,type(e).__name__,e)
res['foam']=bad
# C09 json
bad=0
for i in range(1500):
    d=rdict(us=False)
    try:
        s=JsonFormatter().to_string(d); r=dict(JsonParser().parse_string(s,SDict()))
        DictWriter.write(copy.deepcopy(d),'j.json',mode='w'); r2=dict(DictReader.read('j.json'))
        if typed(r)!=typed(d) or typed(r2)!=typed(norm(d)):
            bad+=1
            if bad<=4: print('JSON DIFF',d,'\n got',r,'\n got2',r2)
    except Exception as e:
        bad+=1
        if bad<=4: print('JSON EXC',d,type(e).__name__,e)
res['json']=bad
# C16 append sequences
def refmerge(a,b):
    for k in b:
        if k in a and isinstance(a[k],dict) and isinstance(b[k],dict): refmerge(a[k],b[k])
        elif k not in a: a[k]=copy.deepcopy(b[k])
bad=0
for i in range(300):
    ext=rnd.choice(['','.foam','.json']); t='t'+ext; Path(t).unlink(missing_ok=True); model=None
    for j in range(rnd.randint(1,5)):
        d={k:v for k,v in rdict(us=False).items()}
        # restrict strings to outer-quote-free ones (D26)
        mode=rnd.choice(['a','a','w','zz'])
        try:
            DictWriter.write(copy.deepcopy(d),t,mode=mode)
            nd=norm(d)
            if mode=='a' and model is not None: refmerge(model,nd)
            else: model=copy.deepcopy(nd)
            got=strip(dict(DictReader.read(t)))
            if typed(got)!=typed(model):
                bad+=1
                if bad<=4: print('APPEND DIFF',ext,mode,d,'\n got',got,'\n exp',model)
                break
        except BaseException as e:
            bad+=1
            if bad<=4: print('APPEND EXC',ext,mode,d,type(e).__name__,e)
            break
res['append']=bad
print(res)
