import logging, random, sys, os, shutil
logging.disable(logging.CRITICAL)
from pathlib import Path
from dictIO import SDict, NativeParser, NativeFormatter, DictReader, DictWriter
W=Path('/tmp/probe/w'); os.chdir('/tmp'); shutil.rmtree(W,ignore_errors=True); W.mkdir(); os.chdir(W)
rnd=random.Random(int(sys.argv[1]) if len(sys.argv)>1 else 0)
CA=list("ab 1;{}()'\"$\\,<>:.-=#*é\t") 
def ctext():
    while True:
        t=''.join(rnd.choice(CA) for _ in range(rnd.randint(0,8)))
        if '//' in t or '/*' in t or '*/' in t or t.endswith('*') : continue
        if 'C++' in t: continue
        return t
def strip(o):
    if isinstance(o,dict): return {k:strip(v) for k,v in o.items() if not (isinstance(k,str) and 'COMMENT' in k)}
    if isinstance(o,list): return [strip(x) for x in o]
    return o
bad=0; cat={'MISS':0,'UNSTABLE':0,'EXC':0,'UNSTABLE_TOPBC':0}
for i in range(1500):
    comments=[]
    def lc():
        t='//'+ctext().rstrip(); comments.append(t); return t+'\n'
    def bc():
        t='/*'+ctext()+'*/'; comments.append(t); return t+'\n'
    src=''
    if rnd.random()<0.5: src+=bc()
    for j in range(rnd.randint(0,3)):
        src+= rnd.choice([lc,bc])() if rnd.random()<0.6 else ''
        src+= f'k{j} {j};'+(' '+lc() if rnd.random()<0.3 else '\n')
    src+='n\n{\n'
    for j in range(rnd.randint(0,3)):
        src+= rnd.choice([lc,bc])() if rnd.random()<0.6 else ''
        src+= f'm{j} {j};\n'
    src+='}\n'+(lc() if rnd.random()<0.5 else '')
    Path('f').write_text(src)
    try:
        d=DictReader.read('f'); out=NativeFormatter().to_string(d)
        d0=DictReader.read('f',comments=False)
        miss=[c for c in comments if c not in out]
        if miss or strip(dict(d))!=dict(d0) or any('COMMENT' in str(k) for k in d0):
            bad+=1; cat['MISS']+=1
            if cat['MISS']<=5: print('MISS',repr(src),miss,'\n',repr(out[out.find('*/')+3:]) )
        # second cycle stable
        Path('g').write_text(out); out2=NativeFormatter().to_string(DictReader.read('g'))
        if out2!=out:
            bad+=1; nested_only = not src.startswith('/*'); cat['UNSTABLE' if nested_only else 'UNSTABLE_TOPBC']+=1
            if not nested_only and cat['UNSTABLE_TOPBC']<=4: print('UNSTABLE_TOPBC',repr(src),'\n',repr(out),'\n',repr(out2))
    except BaseException as e:
        bad+=1; cat['EXC']+=1
        if cat['EXC']<=5: print('EXC',repr(src),type(e).__name__,e)
print('bad',bad,cat)
