import logging, random, sys, os, shutil, copy, subprocess
logging.disable(logging.CRITICAL)
from pathlib import Path
from dictIO import SDict, DictReader, DictWriter, DictParser, order_keys, find_global_key, set_global_key
from dictIO.utils.dict import global_key_exists
from dictIO.utils.path import relative_path, highest_common_root_folder
rnd=random.Random(int(sys.argv[1]) if len(sys.argv)>1 else 0)
KEYS=['a','b','c',1,2,"x'y","a']['b",'k k','[z]','é']
def rval(d=0):
    r=rnd.random()
    if d<4 and r<0.35: return rdict(d+1)
    if d<4 and r<0.5: return [rval(d+1) for _ in range(rnd.randint(0,3))]
    return rnd.choice([1,2,'s','needle','t u',True,None,2.5])
def rdict(d=0):
    return {k:rval(d) for k in rnd.sample(KEYS,rnd.randint(0,4))}
def paths(t,pre=()):
    out=[]
    if isinstance(t,dict):
        for k,v in t.items(): out.append(pre+(k,)); out+=paths(v,pre+(k,))
    elif isinstance(t,list):
        for i,v in enumerate(t): out.append(pre+(i,)); out+=paths(v,pre+(i,))
    return out
def get(t,p):
    for k in p: t=t[k]
    return t
res={'set':0,'find':0,'exists':0,'scope':0,'order':0}
for it in range(2000):
    t=rdict(); ps=paths(t)
    # set
    if ps:
        p=rnd.choice(ps); t2=copy.deepcopy(t)
        try:
            set_global_key(t2,list(p),'NEW')
            exp=copy.deepcopy(t); 
            node=exp
            for k in p[:-1]: node=node[k]
            node[p[-1]]='NEW'
            if t2!=exp or list(map(str,paths(t2)))[:0]: res['set']+=1
        except Exception as e: res['set']+=1; print('SET EXC',p,type(e).__name__,e)
    # find
    try:
        r=find_global_key(t,'needle')
        leaves=[p for p in ps if not isinstance(get(t,p),(dict,list)) and 'needle' in str(get(t,p))]
        if (r is None)!=(not leaves) or (r is not None and tuple(r) not in leaves): res['find']+=1; print('FIND',t,r)
    except Exception as e: res['find']+=1; print('FIND EXC',type(e).__name__,e,t)
    # exists + scope
    cand=[p for p in ps if all(not isinstance(k,int) or isinstance(get(t,p[:i]),dict) for i,k in enumerate(p))]
    p=list(rnd.choice(ps)) if ps and rnd.random()<0.8 else [rnd.choice(KEYS),'zz']
    try:
        chain_ok=True; node=t
        for k in p:
            if isinstance(node,dict) and k in node and isinstance(node[k],dict): node=node[k]
            else: chain_ok=False; break
        if global_key_exists(t,p)!=chain_ok: res['exists']+=1; print('EXISTS',t,p)
        s=SDict(copy.deepcopy(t)); s.reduce_scope(p)
        exp=node if chain_ok else t
        if dict(s)!=exp: res['scope']+=1; print('SCOPE',t,p,dict(s))
    except Exception as e: res['scope']+=1; print('SCOPE EXC',p,type(e).__name__,e)
    # order
    try:
        o=order_keys(copy.deepcopy(t))
        def chk(a,b):
            if isinstance(a,dict):
                ks=list(a); 
                if ks!=sorted(ks,key=lambda x:(isinstance(x,str),x)): return False
                if set(ks)!=set(b): return False
                return all(chk(a[k],b[k]) for k in ks)
            return a==b and (not isinstance(a,list) or [list(x) if isinstance(x,dict) else 0 for x in a]==[list(x) if isinstance(x,dict) else 0 for x in b])
        if not chk(o,t) or order_keys(copy.deepcopy(o))!=o or list(order_keys(copy.deepcopy(o)))!=list(o): res['order']+=1; print('ORDER',t,o)
    except Exception as e: res['order']+=1; print('ORDER EXC',type(e).__name__,e)
print(res)
# C18
W=Path('/tmp/probe/w'); bad=0
dirs=['','s1','s1/t','s2','s2/u v','s2/x.d']
for da in dirs:
    for db in dirs:
        os.chdir('/tmp'); shutil.rmtree(W,ignore_errors=True); W.mkdir(); os.chdir(W)
        (W/da).mkdir(parents=True,exist_ok=True); (W/db).mkdir(parents=True,exist_ok=True)
        b=SDict({'vb':1}); b.dump(W/db/'b file'); a=SDict(W/da/'a'); a['va']=2; a.include(b); a.dump()
        r=dict(DictReader.read(W/da/'a'))
        if r.get('vb')!=1 or r.get('va')!=2: bad+=1; print('C18',da,db,(W/da/'a').read_text().splitlines()[3:5])
        rp=relative_path(W/da, W/db/'b file')
        if os.path.normpath(W/da/rp)!=os.path.normpath(W/db/'b file'): bad+=1; print('REL',da,db,rp)
print('c18 bad',bad)
