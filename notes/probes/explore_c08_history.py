# C08: history / cwd independence exploration (trial-fixed tree)
import logging, random, sys, os, shutil, hashlib, re
logging.disable(logging.CRITICAL)
from pathlib import Path
from dictIO import SDict, DictReader, DictWriter, DictParser, NativeFormatter
from dictIO.utils.counter import BorgCounter
rnd=random.Random(int(sys.argv[1]) if len(sys.argv)>1 else 0)
W=Path('/tmp/probe/w')
SRC={'f':"/* C++ hdr */\n#include 'sub/inc'\n// c1\na 1; // c2\ns 'x y'; t \"$a + $p\";\nn { // c3\n d $a; }\n// c4\n",
     'sub/inc':"// inc comment\np 5;\n#include 'inc2'\n", 'sub/inc2':'q 7; r $p;\n',
     'g.json':'{"#include":"sub/inc","a":1,"b":"$p"}', 'h':"x 1;\n// only\ny 'a b';\n"}
def setup():
    os.chdir('/tmp'); shutil.rmtree(W,ignore_errors=True); W.mkdir(); (W/'sub').mkdir(); (W/'out').mkdir()
    for n,t in SRC.items(): (W/n).write_text(t)
def canon(d):
    # ids -> rank of first appearance
    txt=NativeFormatter().to_string(d)
    return txt
def snapshot():
    return {str(p.relative_to(W)): hashlib.sha256(p.read_bytes()).hexdigest() for p in sorted(W.rglob('*')) if p.is_file()}
def probe(kind, cwd, rel):
    os.chdir(cwd)
    def P(name): return (os.path.relpath(W/name, cwd) if rel else str(W/name))
    if kind=='read': return canon(DictReader.read(P('f')))
    if kind=='read_order': return canon(DictReader.read(P('f'),order=True))
    if kind=='read_json': return canon(DictReader.read(P('g.json')))
    if kind=='parse':
        DictParser.parse(P('f')); t=(W/'parsed.f').read_text(); (W/'parsed.f').unlink(); return t
    if kind=='write':
        d=DictReader.read(P('h')); DictWriter.write(d,P('out/o'),mode='w'); t=(W/'out/o').read_text(); (W/'out/o').unlink(); return t
    if kind=='load':
        return canon(SDict().load(P('f')))
def prefix_op(cwd):
    os.chdir(cwd)
    k=rnd.choice(['read','readj','write','parse','load','dump','reset','counter','readmiss'])
    try:
        if k=='read': DictReader.read(W/'f', order=rnd.random()<0.5, comments=rnd.random()<0.5)
        elif k=='readj': DictReader.read(W/'g.json')
        elif k=='write': DictWriter.write({'z':rnd.randint(0,9)}, W/'out/tmp', mode=rnd.choice('aw')); 
        elif k=='parse': DictParser.parse(W/'h'); (W/'parsed.h').unlink()
        elif k=='load': SDict().load(W/'h')
        elif k=='dump': SDict({'q':1}).dump(W/'out/tmp2')
        elif k=='reset': SDict().reset()
        elif k=='counter': BorgCounter.Borg['theCount']=rnd.choice([-1,0,7,12345,999980,999990])
        elif k=='readmiss':
            try: DictReader.read(W/'nope')
            except FileNotFoundError: pass
    finally:
        for x in ('out/tmp','out/tmp2'):
            (W/x).unlink(missing_ok=True)
    return k
setup(); BorgCounter.reset()
base={k:probe(k,str(W),True) for k in ['read','read_order','read_json','parse','write','load']}
bad=0
for it in range(300):
    setup(); BorgCounter.reset()
    hist=[prefix_op(rnd.choice([str(W),str(W/'sub'),'/tmp','/'])) for _ in range(rnd.randint(0,5))]
    kind=rnd.choice(list(base)); cwd=rnd.choice([str(W),str(W/'sub'),'/tmp','/']); rel=rnd.random()<0.5
    snap0=snapshot()
    try:
        out=probe(kind,cwd,rel)
    except BaseException as e:
        out=('EXC',type(e).__name__,str(e))
    if out!=base[kind] or snapshot()!=snap0:
        wrap = 'counter' in hist
        bad+=1
        if bad<=6: print('DIFF',kind,cwd,rel,hist, '' if isinstance(out,tuple) else '', out if isinstance(out,tuple) else '(text differs)')
print('bad',bad)
