# C06: random include graphs vs reference fold (trial-fixed tree)
import logging, random, sys, copy, os, shutil, json
logging.disable(logging.CRITICAL)
from pathlib import Path
from dictIO import SDict, DictReader, NativeFormatter
rnd=random.Random(int(sys.argv[1]) if len(sys.argv)>1 else 0)
W=Path('/tmp/probe/w')
def strip(o):
    if isinstance(o,dict): return {k:strip(v) for k,v in o.items() if not (isinstance(k,str) and ('COMMENT' in k or 'INCLUDE' in k))}
    if isinstance(o,list): return [strip(x) for x in o]
    return o
KEYS=['a','b','c','n','m','x1','y2']
def rbody(d=0):
    out={}
    for _ in range(rnd.randint(0,4)):
        k=rnd.choice(KEYS)
        r=rnd.random()
        out[k]= rbody(d+1) if (d<2 and r<0.35) else rnd.choice([1,2,3,'s','t u',[1,2],True])
    return out
def refmerge(a,b):
    for k in b:
        if k in a and isinstance(a[k],dict) and isinstance(b[k],dict): refmerge(a[k],b[k])
        elif k not in a: a[k]=copy.deepcopy(b[k])
def ref(files, p, stack):
    body,incs,_=files[p]
    res=copy.deepcopy(body); temp={}
    for inc in incs:
        q=os.path.normpath(os.path.join(os.path.dirname(p),inc))
        if q in stack: continue
        if q not in files: continue
        child=ref(files,q,stack+[q])
        refmerge(temp,child)
    refmerge(res,temp)
    return res
bad=0
for it in range(400):
    os.chdir('/tmp'); shutil.rmtree(W,ignore_errors=True); W.mkdir(); os.chdir(W)
    n=rnd.randint(1,6)
    dirs=['','p','q','p/r']
    names=[]
    for i in range(n):
        d=rnd.choice(dirs); nm=rnd.choice(['f','g','h'])+str(i if rnd.random()<0.6 else 0)
        path=os.path.normpath(os.path.join(d,nm+('.json' if rnd.random()<0.25 else '')))
        if path not in names: names.append(path)
    files={}
    for p in names:
        incs=[]
        for _ in range(rnd.choice([0,1,1,2,3])):
            t=rnd.choice(names+['missing'])
            incs.append(os.path.relpath(t, os.path.dirname(p) or '.'))
        # dedupe identical include names (the reader dedups identical entries on a level)
        files[p]=(rbody(),list(dict.fromkeys(incs)),p.endswith('.json'))
    for p,(body,incs,isjson) in files.items():
        Path(p).parent.mkdir(parents=True,exist_ok=True)
        if isjson:
            d={}
            for i,inc in enumerate(incs): d['#include'+(' '*i)]=inc
            d.update(body); Path(p).write_text(json.dumps(d))
        else:
            txt=''.join(f"#include '{inc}'\n" for inc in incs)+NativeFormatter().to_string(body)
            Path(p).write_text(txt)
    root=names[0]
    try:
        got=strip(dict(DictReader.read(root)))
        exp=ref(files,root,[])
        if got!=exp or list(got)!=list(exp):
            bad+=1
            if bad<=5: print('DIFF',{p:(files[p][1]) for p in files},'\n  bodies',{p:files[p][0] for p in files},'\n  got',got,'\n  exp',exp)
    except BaseException as e:
        bad+=1
        if bad<=5: print('EXC',type(e).__name__,e,{p:(files[p][1]) for p in files})
print('bad',bad)
