# random layouts of random docs against the (trial-fixed) reader
import logging, random, sys
logging.disable(logging.CRITICAL)
from dictIO import SDict, NativeParser
rnd=random.Random(int(sys.argv[1]) if len(sys.argv)>1 else 0)
WS=[' ','\t','\n','\r\n','  ',' \n ','\n\n']
def ws(req): 
    n=rnd.choice([0,1,1,2,3]) if not req else rnd.choice([1,1,2,3])
    return ''.join(rnd.choice(WS) for _ in range(n))
def comment():
    k=rnd.random()
    if k<0.5: return '//'+rnd.choice([' c',' a;b {','x "q"',' it\'s',' http://u/v',' $x'])+rnd.choice(['\n','\r\n'])
    return '/*'+rnd.choice([' c ','a;b\n{',' "q" ',"it's",' * / '])+'*/'
def gap(req):
    # blanks and comments at a statement boundary
    s=ws(req)
    for _ in range(rnd.choice([0,0,0,1,2])):
        c=comment(); s+=c+ws(c.endswith('/'))
    return s
def scal():
    k=rnd.random()
    if k<0.3:
        v=rnd.choice([1,-2,0,15])
        if v>=0 and rnd.random()<0.3: return '+'+str(v), v
        return str(v), v
    if k<0.4: return rnd.choice([('1.5',1.5),('.5',0.5),('1.',1.0),('1e3',1000.0),('-2.5E-1',-0.25)])
    if k<0.55:
        w,v=rnd.choice([('true',True),('false',False),('on',True),('off',False),('none',None),('null',None)])
        return ''.join(c.upper() if rnd.random()<0.4 else c for c in w), v
    if k<0.75:
        w=rnd.choice(['abc','x_1','a.b','a-b','q[0]','é','C:x','a/b'])
        q=rnd.choice(['',"'",'"'])
        return q+w+q, w
    w=rnd.choice(['a b',' lead','x;y','{','a(b)c','it\'s','say "hi" ok','a  b','',',','<>'])
    if "'" in w: q='"'
    elif '"' in w: q="'"
    else: q=rnd.choice(["'",'"'])
    return q+w+q, w
def key(used):
    while True:
        k=rnd.choice(['a','b','c','key1','k_2','é','x.y']) + rnd.choice(['','x','y','1'])
        if k not in used: used.add(k); return k
def rdict_items(d):
    used=set(); items=[]; val={}
    for _ in range(rnd.randint(0,4)):
        k=key(used); r=rnd.random()
        if d<3 and r<0.25:
            t,v=rdict_items(d+1); items.append(('d',k,t)); val[k]=v
        elif d<3 and r<0.5:
            t,v=rlist(d+1); items.append(('l',k,t)); val[k]=v
        else:
            t,v=scal(); items.append(('s',k,t)); val[k]=v
    return items,val
def rlist(d):
    el=[];val=[]
    for _ in range(rnd.randint(0,4)):
        r=rnd.random()
        if d<3 and r<0.2: t,v=rlist(d+1); el.append(('l',t)); val.append(v)
        elif d<3 and r<0.35: t,v=rdict_items(d+1); el.append(('d',t)); val.append(v)
        else: t,v=scal(); el.append(('s',t)); val.append(v)
    return el,val
def rend_items(items, top):
    s=''
    for it in items:
        s+=gap(False)
        if it[0]=='s': s+=it[1]+ws(True)+it[2]+ws(False)+';'
        elif it[0]=='d': s+=it[1]+gap_nl(False)+'{'+rend_items(it[2],False)+gap(False)+'}'
        else: s+=it[1]+gap_nl(False)+'('+rend_list(it[2])+ws(False)+')'+ws(False)+';'
    return s
def gap_nl(req): return ws(req)
def rend_list(el):
    s='';prevword=False
    for e in el:
        if e[0]=='s': s+=ws(prevword or True)+e[1]; prevword=True
        elif e[0]=='l': s+=ws(False)+'('+rend_list(e[1])+ws(False)+')'; prevword=False
        else: s+=ws(False)+'{'+rend_items(e[1],False)+gap(False)+'}'; prevword=False
    return s
def strip(o):
    if isinstance(o,dict): return {k:strip(v) for k,v in o.items() if not (isinstance(k,str) and 'COMMENT' in k)}
    if isinstance(o,list): return [strip(x) for x in o]
    return o
def typed(o):
    if isinstance(o,dict): return ('d',[(typed(k),typed(v)) for k,v in o.items()])
    if isinstance(o,list): return ('l',[typed(x) for x in o])
    return (type(o).__name__, repr(o))
bad=0
for i in range(4000):
    items,val=rdict_items(0)
    text=rend_items(items,True)+gap(False)
    try:
        r=strip(dict(NativeParser().parse_string(text,SDict())))
        if typed(r)!=typed(val):
            bad+=1
            if bad<=8: print('DIFF',repr(text),'\n  exp',val,'\n  got',r)
    except Exception as e:
        bad+=1
        if bad<=8: print('EXC',repr(text),type(e).__name__,e)
print('bad',bad)
