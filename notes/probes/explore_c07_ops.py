# C07 lock-step: SDict vs dict under random op sequences; merge vs reference
import logging, random, sys, copy
logging.disable(logging.CRITICAL)
from dictIO import SDict
rnd=random.Random(int(sys.argv[1]) if len(sys.argv)>1 else 0)
KEYS=['a','b','c','ab',1,2,'n','m']
def rleaf(): return rnd.choice([1,2.5,'x','a','xa','$a','ab c',True,None,'banana'])
def rval(d=0):
    r=rnd.random()
    if d<3 and r<0.3: return {rnd.choice(KEYS):rval(d+1) for _ in range(rnd.randint(0,3))}
    if d<3 and r<0.4: return [rval(d+1) for _ in range(rnd.randint(0,2))]
    return rleaf()
def rmap(): return {rnd.choice(KEYS):rval(1) for _ in range(rnd.randint(0,3))}
def refmerge(a,b):
    for k in b:
        if k in a and isinstance(a[k],dict) and isinstance(b[k],dict): refmerge(a[k],b[k])
        elif k not in a: a[k]=copy.deepcopy(b[k])
bad=0
for it in range(3000):
    s=SDict(); m={}
    for step in range(rnd.randint(1,12)):
        op=rnd.choice(['set','del','update','updkw','or','ior','ror','pop','setdefault','clear','copy','merge','ctor','updpairs'])
        try:
            if op=='set': k=rnd.choice(KEYS); v=rval(); s[k]=copy.deepcopy(v); m[k]=copy.deepcopy(v)
            elif op=='del':
                k=rnd.choice(KEYS)
                if k in m: del s[k]; del m[k]
            elif op=='update': a=rmap(); s.update(copy.deepcopy(a)); m.update(copy.deepcopy(a))
            elif op=='updkw': s.update(zz=1,a=2); m.update(zz=1,a=2)
            elif op=='updpairs': a=list(rmap().items()); s.update(copy.deepcopy(a)); m.update(copy.deepcopy(a))
            elif op=='or': a=rmap(); s=s|copy.deepcopy(a); m=m|copy.deepcopy(a); assert type(s) is SDict
            elif op=='ior': a=rmap(); s|=copy.deepcopy(a); m|=copy.deepcopy(a)
            elif op=='ror': a=rmap(); s=copy.deepcopy(a)|s; m=copy.deepcopy(a)|m; assert type(s) is SDict
            elif op=='pop': k=rnd.choice(KEYS); assert s.pop(k,None)==m.pop(k,None)
            elif op=='setdefault': k=rnd.choice(KEYS); v=rval(); assert s.setdefault(k,copy.deepcopy(v))==m.setdefault(k,copy.deepcopy(v))
            elif op=='clear': s.clear(); m.clear()
            elif op=='copy': s=s.copy(); m=m.copy(); assert type(s) is SDict
            elif op=='ctor': a=rmap(); s=SDict(copy.deepcopy(a)); m=dict(copy.deepcopy(a))
            elif op=='merge':
                a=rmap(); a0=copy.deepcopy(a); s.merge(a); refmerge(m,a0)
                assert a==a0,'other modified'
                keys_before=None
        except AssertionError as e:
            bad+=1; print('ASSERT',op,e); break
        if dict(s)!=m or list(s)!=list(m) or len(s)!=len(m):
            bad+=1
            if bad<6: print('DIFF after',op,dict(s),m)
            break
print('bad',bad)
