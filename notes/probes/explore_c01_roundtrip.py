import logging, os, shutil, copy, random, sys
logging.disable(logging.CRITICAL)
from pathlib import Path
from dictIO import SDict, NativeFormatter, NativeParser, DictReader, DictWriter
from dictIO.parser import Parser
W=Path('/tmp/probe/w'); os.chdir('/tmp'); shutil.rmtree(W,ignore_errors=True); W.mkdir(); os.chdir(W)
P=Parser()
def normleaf(x):
    if isinstance(x,str):
        v=P.parse_value(x)
        return x if isinstance(v,str) else v
    return x
def norm(o):
    if isinstance(o,dict): return {k:norm(v) for k,v in o.items()}
    if isinstance(o,list): return [norm(x) for x in o]
    return normleaf(o)
def strip(o):
    if isinstance(o,dict):
        return {k:strip(v) for k,v in o.items() if not (isinstance(k,str) and ('COMMENT' in k))}
    if isinstance(o,list): return [strip(x) for x in o]
    return o
def typed(o):
    if isinstance(o,dict): return ('d',[(typed(k),typed(v)) for k,v in o.items()])
    if isinstance(o,list): return ('l',[typed(x) for x in o])
    return (type(o).__name__, repr(o))
rnd=random.Random(int(sys.argv[1]) if len(sys.argv)>1 else 0)
AL=list("ab1 ;,{}()<>[]'\"\\:/.-_=#xé\t")
def rstr():
    k=rnd.random()
    if k<0.15: return rnd.choice(['','1','-2','1.5','true','OFF','None','null','1e3','.5','-','_','.','a b','x/y','C:\\t','it\'s','a "b" c',"a 'b' c"])
    n=rnd.randint(1,6)
    return ''.join(rnd.choice(AL) for _ in range(n))
def ok_str(s):
    if '$' in s or '//' in s or '/*' in s or '*/' in s: return False
    if "'" in s and '"' in s: return False
    for q in "'\"":
        if '\\'+q in s: return False
        if s.count(q)>2: return False
    if s.endswith('\\') and ("'" in s or '"' in s): return False
    for w in ('COMMENT','INCLUDE','STRINGLITERAL','EXPRESSION'): 
        if w in s: return False
    if '#' in s: return False
    return True
def rleaf():
    k=rnd.random()
    if k<0.55:
        while True:
            s=rstr()
            if ok_str(s): return s
    if k<0.7: return rnd.randint(-1000,1000)
    if k<0.8: return rnd.choice([1.5,-0.25,1e-7,1e22,0.0])
    if k<0.9: return rnd.choice([True,False])
    return None
def rkey(used):
    while True:
        k= rnd.randint(0,50) if rnd.random()<0.25 else ''.join(rnd.choice('abcxyzKL_') for _ in range(rnd.randint(1,5)))+rnd.choice(['','1','x'])
        if k not in used and not (isinstance(k,str) and not isinstance(P.parse_value(k),str)) and k not in ('_variables','_includes'): used.add(k); return k
def rval(d):
    k=rnd.random()
    if d>=3 or k<0.5: return rleaf()
    if k<0.75: return rdict(d+1)
    return [rval(d+1) for _ in range(rnd.randint(0,4))]
def rdict(d=0):
    used=set(); return {rkey(used):rval(d) for _ in range(rnd.randint(0,4))}
bad=0
for i in range(3000):
    d=rdict()
    exp=norm(d)
    try:
        s=NativeFormatter().to_string(copy.deepcopy(d)); r=strip(dict(NativeParser().parse_string(s,SDict())))
        if typed(r)!=typed(exp):
            bad+=1
            if bad<=12: print('R1 DIFF',d,'\n   got',r)
    except Exception as e:
        bad+=1
        if bad<=12: print('R1 EXC',d,type(e).__name__,e)
print('route1 bad',bad)
bad=0
for i in range(1500):
    d=rdict(); exp=norm(d)
    try:
        DictWriter.write(copy.deepcopy(d),'f',mode='w'); r=strip(dict(DictReader.read('f')))
        if typed(r)!=typed(exp):
            bad+=1
            if bad<=8: print('R2 DIFF',d,'\n   got',r)
    except BaseException as e:
        bad+=1
        if bad<=8: print('R2 EXC',d,type(e).__name__,e)
print('route2 bad',bad)
