import ast, json
from pathlib import Path
src=Path('/repo/src/dictIO/cli/dict_parser.py').read_text()
mod=ast.parse(src)
main=[n for n in mod.body if isinstance(n,ast.FunctionDef) and n.name=='main'][0]
def tr(e):
    if isinstance(e,ast.UnaryOp) and isinstance(e.op,ast.Not): return f"!({tr(e.operand)})"
    if isinstance(e,ast.Attribute) and isinstance(e.value,ast.Name) and e.value.id=='args': return f"ns.{e.attr}"
    if isinstance(e,ast.Call) and isinstance(e.func,ast.Name): return f"{e.func.id}({', '.join(tr(a) for a in e.args)})"
    if isinstance(e,ast.Name): return e.id
    raise ValueError(ast.dump(e))
env={}
for st in main.body:
    if isinstance(st,ast.AnnAssign) and isinstance(st.target,ast.Name):
        try: env[st.target.id]=tr(st.value)
        except ValueError: pass
call=[n for n in ast.walk(main) if isinstance(n,ast.Call) and isinstance(n.func,ast.Attribute) and n.func.attr=='parse' and getattr(n.func.value,'id',None)=='DictParser'][0]
print({kw.arg: env.get(tr(kw.value),tr(kw.value)) for kw in call.keywords})
import sys; sys.path.insert(0,'/repo/src')
from dictIO.cli.dict_parser import _argparser
for a in _argparser()._actions:
    print(a.option_strings, a.dest, type(a).__name__, a.default, a.choices)
