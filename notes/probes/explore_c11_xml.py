import logging, random, sys, re
logging.disable(logging.CRITICAL)
import xml.etree.ElementTree as ET
from dictIO import SDict, XmlParser, XmlFormatter
from dictIO.parser import Parser
rnd=random.Random(int(sys.argv[1]) if len(sys.argv)>1 else 0)
P=Parser()
TAGS=['a','b','c','item','x1','Node']
def rtext():
    return rnd.choice([None,'','  ','t','some text','12',' 3.5 ','true','None','a<b&c','x:y','  l1\n   l2  ','ü','"q"',"it's",'1 2 3','-'])
def rel(d=0):
    e=ET.Element(rnd.choice(TAGS))
    for _ in range(rnd.choice([0,0,1,2])):
        e.set(rnd.choice(['id','k','name']), rnd.choice(['1','v','','true','a b','x"y']))
    if d<3 and rnd.random()<0.5:
        for _ in range(rnd.randint(1,3)): e.append(rel(d+1))
    else:
        e.text=rtext()
    return e
def stripnum(o):
    if isinstance(o,dict): return [(re.sub(r'^\d{6}_','',k) if isinstance(k,str) else k, stripnum(v)) for k,v in o.items()]
    return o
def model(e):
    # independent view: element -> dict entries
    out=[]
    for ch in list(e):
        if len(ch): v=model_children(ch)
        elif ch.text is None or re.fullmatch(r'[\s\n\r]*', ch.text): v=[]
        else:
            t='\n'.join(l.strip() for l in ch.text.splitlines(keepends=True)).strip()
            v=[('_content', P.parse_value(t))]
        attrs=[(k,P.parse_value(val)) for k,val in ch.attrib.items() if val!='']
        if ch.attrib: v=v+[('_attributes',attrs)]
        out.append((ch.tag, v))
    return out
def model_children(ch): return model(ch)
bad=0
for i in range(1500):
    ns=rnd.choice([None,'default','prefixed'])
    root=rel(0); root.tag='root'
    if not len(root): root.append(rel(1)); root.text=None
    xml=ET.tostring(root,encoding='unicode')
    if ns=='default': xml=xml.replace('<root','<root xmlns="http://ex.org/d"',1)
    try:
        d=XmlParser().parse_string(xml,SDict())
        got=[x for x in stripnum(dict(d)) if x[0]!='_xmlOpts']
        exp=model(root)
        s=XmlFormatter().to_string(d)
        d2=XmlParser().parse_string(s,SDict())
        got2=[x for x in stripnum(dict(d2)) if x[0]!='_xmlOpts']
        if repr(got)!=repr(exp) or repr(got2).replace(", ('_attributes', [])",'')!=repr(got).replace(", ('_attributes', [])",'') or repr(dict(d2)['_xmlOpts'])!=repr(dict(d)['_xmlOpts']):
            bad+=1
            if bad<=6: print('DIFF',xml,'\n got',got,'\n exp',exp,'\n re ',stripnum(dict(d2)))
    except Exception as e:
        bad+=1
        if bad<=6: print('EXC',xml,type(e).__name__,e)
print('bad',bad)
