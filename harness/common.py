"""Shared machinery of the correspondence harness: value codec, driver pipe, context, shrinking."""
from __future__ import annotations

import hashlib
import json
import logging
import os
import random
import subprocess
import sys
import time
from pathlib import Path
from typing import Any, Callable

VERIF = Path(__file__).resolve().parent.parent
LEAN = VERIF / "lean"
DRIVER = LEAN / ".lake" / "build" / "bin" / "driver"
EVIDENCE = VERIF / "evidence"
REPLAY = EVIDENCE / "replay"

logging.disable(logging.CRITICAL)  # the library logs a lot; nothing of it is an observation point


# --------------------------------------------------------------------------------------------
# value codec (see lean/Driver/Codec.lean)
# --------------------------------------------------------------------------------------------
def enc_key(k: Any) -> dict:
    if isinstance(k, bool):
        raise TypeError("bool key")
    if isinstance(k, int):
        return {"i": str(k)}
    if isinstance(k, str):
        return {"s": k}
    raise TypeError(f"unsupported key {k!r}")


def enc(v: Any) -> dict:
    if isinstance(v, bool):
        return {"b": v}
    if isinstance(v, int):
        return {"i": str(v)}
    if isinstance(v, float):
        return {"f": repr(v)}
    if v is None:
        return {"n": None}
    if isinstance(v, str):
        return {"s": v}
    if isinstance(v, dict):
        return {"d": [[enc_key(k), enc(x)] for k, x in v.items()]}
    if isinstance(v, (list, tuple)):
        return {"l": [enc(x) for x in v]}
    if hasattr(v, "tolist"):
        return enc(v.tolist())
    raise TypeError(f"unsupported value {v!r}")


def enc_entries(d: dict) -> list:
    return enc(dict(d))["d"]


def dec_key(j: dict) -> Any:
    return int(j["i"]) if "i" in j else j["s"]


def dec(j: dict) -> Any:
    if "i" in j:
        return int(j["i"])
    if "f" in j:
        return float(j["f"])
    if "b" in j:
        return j["b"]
    if "n" in j:
        return None
    if "s" in j:
        return j["s"]
    if "d" in j:
        return {dec_key(k): dec(v) for k, v in j["d"]}
    if "l" in j:
        return [dec(x) for x in j["l"]]
    raise ValueError(f"bad encoded value {j!r}")


def canon_floats(j: Any) -> Any:
    """in an encoded value / SD reply of the model, replace float lexemes by Python's repr of their value"""
    if isinstance(j, dict):
        if set(j.keys()) == {"f"} and isinstance(j["f"], str):
            try:
                return {"f": repr(float(j["f"]))}
            except ValueError:
                return {"f": "INVALID:" + j["f"]}
        return {k: canon_floats(v) for k, v in j.items()}
    if isinstance(j, list):
        return [canon_floats(x) for x in j]
    return j


def canon(v: Any) -> Any:
    """typed, order-preserving canonical form of a Python value (for deep comparison *with* types)."""
    return enc(v)


def same(a: Any, b: Any) -> bool:
    """deep equality including types, key order, bool-vs-int, with floats compared by repr."""
    try:
        return enc(a) == enc(b)
    except TypeError:
        return False


# --------------------------------------------------------------------------------------------
# driver
# --------------------------------------------------------------------------------------------
class DriverError(Exception):
    pass


def run_driver(requests: list[dict]) -> list[Any]:
    """pipe all requests through the compiled Lean driver, return the decoded replies"""
    if not requests:
        return []
    if not DRIVER.exists():
        raise DriverError(f"driver not built: {DRIVER}")
    data = "\n".join(json.dumps(r, ensure_ascii=False) for r in requests) + "\n"
    p = subprocess.run([str(DRIVER)], input=data.encode("utf-8"), capture_output=True, timeout=3600)
    if p.returncode != 0:
        raise DriverError(f"driver exit {p.returncode}: {p.stderr.decode('utf-8', 'replace')[:500]}")
    lines = p.stdout.decode("utf-8").split("\n")
    if lines and lines[-1] == "":
        lines.pop()
    if len(lines) != len(requests):
        raise DriverError(f"driver answered {len(lines)} lines for {len(requests)} requests")
    return [json.loads(x) for x in lines]


# --------------------------------------------------------------------------------------------
# context handed to every property module
# --------------------------------------------------------------------------------------------
class Ctx:
    def __init__(self, prop: str, tier: str, seed: int, scale: float = 1.0, oracle_only: bool = False):
        self.prop = prop
        self.tier = tier
        self.seed = seed
        self.scale = scale
        self.oracle_only = oracle_only
        self.rng = random.Random(f"{prop}:{seed}:{scale}")
        self.evaluations = 0
        self.distinct: set[str] = set()
        self.samples: list[Any] = []
        self.dist: dict[str, int] = {}
        self.disagreements: list[dict] = []
        self.violations: list[dict] = []
        self.known_hits: dict[str, int] = {}
        self.unsupported = 0
        self.corpus_cases = 0
        self.exhaustive: list[str] = []
        self.notes: list[str] = []
        self.model_requests = 0
        self.t0 = time.time()

    # ---- sizing ----
    def n(self, quick: int, thorough: int) -> int:
        base = quick if self.tier == "quick" else thorough
        return max(1, int(base * self.scale))

    # ---- accounting ----
    def case(self, case: Any, nontrivial: bool = True, tags: tuple[str, ...] = ()) -> None:
        self.evaluations += 1
        if nontrivial:
            h = hashlib.sha1(json.dumps(case, sort_keys=True, default=repr, ensure_ascii=False).encode()).hexdigest()
            self.distinct.add(h)
        for t in tags:
            self.dist[t] = self.dist.get(t, 0) + 1
        if len(self.samples) < 6 and (self.evaluations in (1, 2, 3) or self.rng.random() < 0.002):
            self.samples.append(case)

    def tag(self, *tags: str) -> None:
        for t in tags:
            self.dist[t] = self.dist.get(t, 0) + 1

    def disagree(self, where: str, case: Any, model: Any, impl: Any) -> None:
        if len(self.disagreements) < 50:
            self.disagreements.append({"where": where, "input": case, "model": model, "impl": impl})
        else:
            self.disagreements.append({})

    def violation(self, what: str, case: Any, observed: Any, expected: Any, replay: dict | None = None) -> None:
        """the property itself is false on the implementation for this input"""
        if len(self.violations) < 5000:
            self.violations.append({"what": what, "input": case, "observed": observed, "expected": expected,
                                    "replay": replay or {}})
        else:
            self.violations.append({})

    def known(self, finding_id: str) -> None:
        self.known_hits[finding_id] = self.known_hits.get(finding_id, 0) + 1

    def driver(self, requests: list[dict]) -> list[Any]:
        self.model_requests += len(requests)
        return run_driver(requests)


# --------------------------------------------------------------------------------------------
# generic shrinking (delta debugging on JSON-like trees)
# --------------------------------------------------------------------------------------------
def _candidates(x: Any):
    if isinstance(x, dict):
        ks = list(x.keys())
        for k in ks:
            y = dict(x); del y[k]; yield y
        for k in ks:
            for c in _candidates(x[k]):
                y = dict(x); y[k] = c; yield y
        for k in ks:
            if isinstance(x[k], (dict, list)) and False:
                yield x[k]
    elif isinstance(x, list):
        n = len(x)
        if n > 4:
            yield x[: n // 2]; yield x[n // 2:]
        for i in range(n):
            yield x[:i] + x[i + 1:]
        for i in range(n):
            for c in _candidates(x[i]):
                yield x[:i] + [c] + x[i + 1:]
    elif isinstance(x, str):
        n = len(x)
        if n > 4:
            yield x[: n // 2]; yield x[n // 2:]
        if n > 1 or (n == 1 and x != "a"):
            for i in range(n):
                yield x[:i] + x[i + 1:]
        for i, ch in enumerate(x):
            if ch not in "a1 ":
                yield x[:i] + "a" + x[i + 1:]
    elif isinstance(x, bool):
        return
    elif isinstance(x, int):
        if x not in (0, 1):
            yield 0; yield 1
            if abs(x) > 10:
                yield x // 2
    elif isinstance(x, float):
        if x != 0.5:
            yield 0.5


def shrink(case: Any, fails: Callable[[Any], bool], budget: int = 400) -> Any:
    """greedy first-improvement shrinking; `fails(c)` must be True for `case`"""
    cur = case
    steps = 0
    improved = True
    while improved and steps < budget:
        improved = False
        for cand in _candidates(cur):
            steps += 1
            if steps > budget:
                break
            try:
                if fails(cand):
                    cur = cand; improved = True
                    break
            except Exception:  # noqa: BLE001
                continue
    return cur


# --------------------------------------------------------------------------------------------
# helpers for the implementation side
# --------------------------------------------------------------------------------------------
def reset_globals(start: int | None = None) -> None:
    from dictIO.utils.counter import BorgCounter
    BorgCounter.reset()
    if start is not None:
        BorgCounter.Borg["theCount"] = start


def exc_name(e: BaseException) -> str:
    return "raises:" + type(e).__name__
