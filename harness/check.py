#!/venv/bin/python
"""Entry point of every registered check:  check.py Cxx --tier quick|thorough  |  --replay f  |  --setup

One run = regenerate tables from /repo -> build + audit the Lean theorems of the property ->
corpus + generated cases through implementation and model (correspondence) -> direct oracle
(failing-input search) -> known findings -> evidence -> verdict.   (DESIGN.md sections 3 and 6)

exit 0: property held on everything explored;  exit 1: VIOLATION line printed;  exit 2: infrastructure.
"""
from __future__ import annotations

import argparse
import fcntl
import importlib
import json
import os
import re
import subprocess
import sys
import time
import traceback
from pathlib import Path

HERE = Path(__file__).resolve().parent
sys.path.insert(0, str(HERE))
os.environ.setdefault("PYTHONDONTWRITEBYTECODE", "1")
sys.dont_write_bytecode = True

import common  # noqa: E402
from common import Ctx, EVIDENCE, LEAN, REPLAY, VERIF  # noqa: E402

STD_AXIOMS = {"propext", "Classical.choice", "Quot.sound"}
FORBIDDEN = re.compile(r"\bsorry\b|\badmit\b|^\s*axiom\s|native_decide|bv_decide|implemented_by|\bunsafe\s|maxHeartbeats\s+0\b", re.M)
ALL_PROPS = [f"C{i:02d}" for i in range(1, 19)]


def sh(cmd: list[str], cwd: Path, timeout: int = 3000) -> tuple[int, str]:
    p = subprocess.run(cmd, cwd=cwd, capture_output=True, text=True, timeout=timeout)
    return p.returncode, p.stdout + p.stderr


class Lock:
    def __enter__(self):
        self.f = open(LEAN / ".lock", "w")
        fcntl.flock(self.f, fcntl.LOCK_EX)
        return self

    def __exit__(self, *a):
        fcntl.flock(self.f, fcntl.LOCK_UN)
        self.f.close()


def strip_comments(src: str) -> str:
    # remove nested block comments and line comments
    out, i, depth = [], 0, 0
    while i < len(src):
        if src.startswith("/-", i):
            depth += 1; i += 2; continue
        if depth and src.startswith("-/", i):
            depth -= 1; i += 2; continue
        if depth:
            if src[i] == "\n":
                out.append("\n")
            i += 1; continue
        if src.startswith("--", i):
            while i < len(src) and src[i] != "\n":
                i += 1
            continue
        out.append(src[i]); i += 1
    return "".join(out)


def regenerate() -> tuple[bool, str]:
    rc, out = sh(["/venv/bin/python", str(HERE / "extract.py")], VERIF, 600)
    return rc == 0, out.strip()


def prop_modules(prop: str) -> list[str]:
    """Props/Cxx.lean plus its satellite files Props/Cxx<suffix>.lean (e.g. C02lex, C13name)"""
    d = LEAN / "DictIO" / "Props"
    registered = set(re.findall(r"^import DictIO\.Props\.(\S+)", (LEAN / "DictIO.lean").read_text(), re.M))
    # only files imported by the library root count (a proof file under development is not an obligation yet)
    return sorted(f.stem for f in d.glob(f"{prop}*.lean") if re.fullmatch(re.escape(prop) + r"[a-z]*", f.stem) and f.stem in registered)


def theorem_names(prop: str) -> list[str]:
    out = []
    for mod in prop_modules(prop):
        src = strip_comments((LEAN / "DictIO" / "Props" / f"{mod}.lean").read_text())
        # namespaces may be nested / re-opened: track them line by line
        stack: list[str] = []
        for line in src.splitlines():
            m = re.match(r"^\s*namespace\s+(\S+)", line)
            if m:
                stack.append(m.group(1)); continue
            m = re.match(r"^\s*end\s+(\S+)\s*$", line)
            if m and stack and stack[-1].split(".")[-1] == m.group(1).split(".")[-1]:
                stack.pop(); continue
            m = re.match(r"^\s*(?:private\s+|protected\s+)?theorem\s+([^\s:({\[]+)", line)
            if m and not re.match(r"^\s*private", line):
                out.append(".".join(stack + [m.group(1)]) if stack else m.group(1))
    return out


def build_and_audit(prop: str, tier: str = "quick") -> dict:
    """returns dict(proofs_ok, driver_ok, obligations, discharged, theorems{name: axioms|error}, messages)"""
    res = {"proofs_ok": False, "driver_ok": False, "obligations": 0, "discharged": 0, "theorems": {}, "messages": []}
    names = theorem_names(prop)
    res["obligations"] = len(names)
    with Lock():
        rc_d, out_d = sh(["lake", "build", "driver"], LEAN)
        res["driver_ok"] = rc_d == 0
        if rc_d != 0:
            res["messages"].append("driver build failed:\n" + "\n".join(l for l in out_d.splitlines() if "error" in l)[:2000])
        rc_p, out_p = sh(["lake", "build"] + [f"DictIO.Props.{m}" for m in prop_modules(prop)], LEAN)
        if rc_p != 0:
            errs = [l for l in out_p.splitlines() if re.search(r"error", l)]
            res["messages"].append(f"lake build DictIO.Props.{prop} failed:\n" + "\n".join(errs)[:3000])
            res["broken"] = errs[:5]
            return res
        # forbidden constructs in any source the property depends on (whole library: cheap)
        bad = []
        registered = set(re.findall(r"^import DictIO\.Props\.(\S+)", (LEAN / "DictIO.lean").read_text(), re.M))
        for f in sorted((LEAN / "DictIO").rglob("*.lean")):
            if f.parent.name == "Props" and f.stem not in registered:
                continue        # a proof file under development is not part of any check until DictIO.lean imports it
            for m in FORBIDDEN.finditer(strip_comments(f.read_text())):
                bad.append(f"{f.relative_to(LEAN)}: {m.group(0).strip()}")
        if bad:
            res["messages"].append("forbidden constructs: " + "; ".join(bad[:10]))
            res["broken"] = bad[:5]
            return res
        if not names:
            res["messages"].append("no theorems found")
            return res
        audit = LEAN / ".lake" / f"audit_{prop}.lean"
        audit.write_text("".join(f"import DictIO.Props.{m}\n" for m in prop_modules(prop)) + "".join(f"#print axioms {n}\n" for n in names))
        rc_a, out_a = sh(["lake", "env", "lean", str(audit)], LEAN)
    cur = None
    axioms: dict[str, list[str] | None] = {}
    text = out_a.replace("\n  ", " ")
    for n in names:
        m = re.search(r"'" + re.escape(n) + r"' (does not depend on any axioms|depends on axioms: \[([^\]]*)\])", text)
        if not m:
            axioms[n] = None
        elif m.group(2) is None:
            axioms[n] = []
        else:
            axioms[n] = [a.strip() for a in m.group(2).replace("\n", " ").split(",") if a.strip()]
    res["theorems"] = axioms
    ok = [n for n, a in axioms.items() if a is not None and set(a) <= STD_AXIOMS]
    res["discharged"] = len(ok)
    notok = [n for n in names if n not in ok]
    if rc_a != 0 or notok:
        res["messages"].append(f"axiom audit failed for {notok[:5]}: {out_a[:1000]}")
        res["broken"] = notok[:5] or ["audit"]
    res["proofs_ok"] = rc_a == 0 and not notok
    if tier == "thorough" and res["proofs_ok"]:
        # independent re-check of the compiled proof files of this property with the toolchain's external checker
        mods = [f"DictIO.Props.{m}" for m in prop_modules(prop)]
        rc_l, out_l = sh(["lake", "env", "leanchecker"] + mods, LEAN)
        res["leanchecker"] = {"modules": len(mods), "ok": rc_l == 0}
        if rc_l != 0:
            res["proofs_ok"] = False
            res["messages"].append("leanchecker rejected the compiled proofs: " + out_l[-1500:])
            res["broken"] = ["leanchecker"]
    return res


def load_findings(prop: str) -> list[dict]:
    f = VERIF / "known_findings.json"
    if not f.exists():
        return []
    return [e for e in json.loads(f.read_text())["findings"] if e["property"] == prop]


def write_evidence(prop: str, tier: str, seed: int, ctx: Ctx | None, ba: dict, wall: float, nviol: int, extra: dict) -> None:
    EVIDENCE.mkdir(exist_ok=True)
    cov = {
        "obligations": ba.get("obligations", 0),
        "discharged": ba.get("discharged", 0),
        "checker_cmd": f"cd lean && lake build DictIO.Props.{prop} && lake env lean .lake/audit_{prop}.lean  (#print axioms per theorem)",
        "trusted_base": [
            "Lean 4.33.0 kernel; axioms allowed: propext, Classical.choice, Quot.sound (audited per theorem this run)",
            "correspondence harness harness/ (Python) and lean/Driver (JSON codec) -- the tie between model and /repo",
            "harness/extract.py (tables regenerated from the running code into lean/DictIO/Generated)",
            "CPython 3.12 semantics of re/str/int/float/json/pathlib as sampled by the correspondence",
        ],
        "theorems": ba.get("theorems", {}),
        "proofs_ok": ba.get("proofs_ok", False),
        "driver_ok": ba.get("driver_ok", False),
    }
    if ba.get("leanchecker"):
        cov["leanchecker"] = ba["leanchecker"]      # thorough tier: compiled proof files re-checked by the external checker
        cov["checker_cmd"] += f"; lake env leanchecker <{ba['leanchecker']['modules']} modules of the property>"
    if ctx is not None:
        cov.update({
            "evaluations": ctx.evaluations,
            "distinct_nontrivial": len(ctx.distinct),
            "rule": extra.get("rule", ""),
            "samples": ctx.samples[:6] or [extra.get("rule", "")],
            "input_distribution": dict(sorted(ctx.dist.items())),
            "model_requests": ctx.model_requests,
            "correspondence_disagreements": len(ctx.disagreements),
            "unsupported_by_model": ctx.unsupported,
            "corpus_cases": ctx.corpus_cases,
            "known_findings_confirmed": ctx.known_hits,
            "exhaustive_spaces": ctx.exhaustive,
            "exhaustive": bool(ctx.exhaustive),
            "notes": ctx.notes,
        })
    else:
        cov.update({"evaluations": 0, "distinct_nontrivial": 0, "samples": ["harness did not run"], "rule": ""})
    ev = {
        "property_id": prop, "tier": tier, "seed": seed, "level": "proof", "coverage": cov,
        "assumptions": extra.get("assumptions", []), "wall_s": round(wall, 2), "violations": nviol,
    }
    (EVIDENCE / f"{prop}.json").write_text(json.dumps(ev, indent=1, ensure_ascii=False, default=repr) + "\n")


def write_replay(prop: str, seed: int, n: int, payload: dict) -> Path:
    REPLAY.mkdir(parents=True, exist_ok=True)
    p = REPLAY / f"{prop}-{seed}-{n}.json"
    p.write_text(json.dumps(payload, indent=1, ensure_ascii=False, default=repr) + "\n")
    return p


def classify(mod, findings: list[dict], v: dict) -> str | None:
    """id of the listed known finding whose class contains this violation's input, if any"""
    for e in findings:
        if e.get("status") != "finding":
            continue
        pred = getattr(mod, "KNOWN_CLASSES", {}).get(e["class"])
        try:
            if pred and pred(v):
                return e["id"]
        except Exception:  # noqa: BLE001
            continue
    return None


def run_property(prop: str, tier: str, seed: int) -> int:
    t0 = time.time()
    ok_gen, gen_msg = regenerate()
    ba = build_and_audit(prop, tier)
    if not ok_gen:
        ba["proofs_ok"] = False
        ba["messages"].append("table extraction failed: " + gen_msg)
        ba.setdefault("broken", []).append("extract.py: " + gen_msg)
    mod = importlib.import_module(f"props.{prop.lower()}")
    findings = load_findings(prop)
    ctx = Ctx(prop, tier, seed)
    ctx.fixed_witnesses = [e for e in findings if e.get("status") == "fixed" and "witness" in e]
    # regression corpus: the failing inputs found for the seeded changes (seeded/<id>/failing.json, validated to pass on
    # the unchanged tree when they were recorded) run first, so that detecting those changes does not depend on the draw
    for f in sorted((VERIF / "seeded").glob(f"S-{prop}-*/failing.json")):
        try:
            j = json.loads(f.read_text())
            if j.get("property") == prop and j.get("kind") == "failing-input" and (j.get("replay") or j.get("input")):
                ctx.fixed_witnesses.append({"id": f.parent.name, "witness": j.get("replay") or j.get("input")})
        except Exception:  # noqa: BLE001
            pass
    harness_error = None
    try:
        if ba["driver_ok"]:
            mod.run(ctx)
        else:
            ctx.oracle_only = True
            mod.run(ctx)
    except common.DriverError as e:
        harness_error = f"driver: {e}"
        ba["driver_ok"] = False
    except Exception:  # noqa: BLE001
        harness_error = traceback.format_exc()

    if harness_error and ba["driver_ok"]:
        print(f"INFRASTRUCTURE-ERROR property={prop}\n{harness_error}")
        write_evidence(prop, tier, seed, ctx, ba, time.time() - t0, 0, {"rule": getattr(mod, "RULE", "")})
        return 2

    # known findings: classify violations; replay witnesses
    real = []
    for v in ctx.violations:
        if not v:
            real.append(v); continue
        fid = classify(mod, findings, v)
        if fid:
            ctx.known(fid)
        else:
            real.append(v)
    for e in findings:
        if e.get("status") != "finding":
            continue
        w = getattr(mod, "WITNESSES", {}).get(e["id"])
        still = False
        try:
            still = bool(w and w())
        except Exception:  # noqa: BLE001
            still = True
        if still:
            ctx.known_hits.setdefault(e["id"], 0)
            print(f"KNOWN-FINDING: property={prop} {e['id']}: {e['what']}")

    corr_ok = ba["driver_ok"] and not ctx.disagreements and harness_error is None
    proofs_ok = ba["proofs_ok"]
    rc = 0
    nviol = len(real)
    if not real and not (proofs_ok and corr_ok):
        # the tie is broken: widen the failing-input search before reporting (DESIGN 6)
        for k, sc in ((1, 3.0), (2, 10.0)):
            wctx = Ctx(prop, "quick", seed + 7919 * k, scale=sc, oracle_only=True)
            wctx.fixed_witnesses = []
            try:
                mod.run(wctx)
            except Exception:  # noqa: BLE001
                pass
            cand = [v for v in wctx.violations if v and not classify(mod, findings, v)]
            if cand:
                real = cand; nviol = len(cand)
                break
    if real:
        first = next((v for v in real if v), {"what": "more than 5000 violations; the recorded ones all fall into known-finding classes", "input": None,
                                              "observed": None, "expected": None, "replay": {}})
        shr = getattr(mod, "shrink_violation", None)
        if shr:
            try:
                first = shr(first) or first
            except Exception:  # noqa: BLE001
                pass
        path = write_replay(prop, seed, 0, {
            "property": prop, "kind": "failing-input", **first,
            "how_to_replay": f"./check --replay {{this file}}   (re-runs the oracle of {prop} on `input` against /repo)"})
        print(f"VIOLATION property={prop} replay={path}")
        rc = 1
    elif not (proofs_ok and corr_ok):
        broken = {"property": prop, "kind": "broken-tie"}
        if not proofs_ok:
            broken["theorem"] = ba.get("broken", ["build"])
            broken["messages"] = ba["messages"]
        if not corr_ok:
            broken["correspondence"] = (ctx.disagreements[0].get("where") if ctx.disagreements and ctx.disagreements[0] else "driver")
            broken["first_disagreement"] = ctx.disagreements[0] if ctx.disagreements else harness_error
            broken["disagreements"] = len(ctx.disagreements)
        path = write_replay(prop, seed, 0, broken)
        print(f"VIOLATION property={prop} replay={path} no-failing-input-found")
        nviol = 1
        rc = 1
    write_evidence(prop, tier, seed, ctx, ba, time.time() - t0, nviol,
                   {"rule": getattr(mod, "RULE", ""), "assumptions": getattr(mod, "ASSUMPTIONS", [])})
    print(f"{prop} {tier} seed={seed}: theorems {ba['discharged']}/{ba['obligations']} proofs_ok={proofs_ok} "
          f"cases={ctx.evaluations} distinct={len(ctx.distinct)} model_requests={ctx.model_requests} "
          f"disagreements={len(ctx.disagreements)} violations={nviol} known={ctx.known_hits} "
          f"wall={time.time() - t0:.1f}s")
    for m in ba["messages"]:
        print("  note:", m[:600])
    return rc


def replay(path: str) -> int:
    payload = json.loads(Path(path).read_text())
    prop = payload["property"]
    mod = importlib.import_module(f"props.{prop.lower()}")
    if payload.get("kind") != "failing-input":
        print(f"replay file names a broken tie, not an input: {payload.get('theorem') or payload.get('correspondence')}")
        return run_property(prop, "quick", int(os.environ.get("VERIF_SEED", "0")))
    regenerate()
    with Lock():
        sh(["lake", "build", "driver"], LEAN)
    ctx = Ctx(prop, "quick", 0)
    ctx.fixed_witnesses = []
    mod.replay(ctx, payload["replay"] or payload["input"])
    findings = load_findings(prop)
    real = [v for v in ctx.violations if v and not classify(mod, findings, v)]
    if real:
        print(f"VIOLATION property={prop} replay={path}")
        print(json.dumps(real[0], ensure_ascii=False, default=repr)[:2000])
        return 1
    print(f"{prop}: replayed input no longer violates the property")
    return 0


def setup() -> int:
    ok, msg = regenerate()
    print(msg)
    if not ok:
        return 2
    with Lock():
        rc, out = sh(["lake", "build"], LEAN, 7200)
    print("\n".join(out.splitlines()[-15:]))
    return 0 if rc == 0 else 2


def main() -> int:
    ap = argparse.ArgumentParser()
    ap.add_argument("prop", nargs="?")
    ap.add_argument("--tier", default=os.environ.get("VERIF_TIER", "quick"), choices=["quick", "thorough"])
    ap.add_argument("--replay")
    ap.add_argument("--setup", action="store_true")
    a = ap.parse_args()
    if a.setup:
        return setup()
    if a.replay:
        return replay(a.replay)
    if not a.prop:
        ap.error("property id required")
    try:
        seed = int(os.environ.get("VERIF_SEED", "0"))
    except ValueError:
        seed = 0
    try:
        return run_property(a.prop, a.tier, seed)
    except subprocess.TimeoutExpired as e:
        print(f"INFRASTRUCTURE-ERROR timeout: {e}")
        return 2


if __name__ == "__main__":
    sys.exit(main())
