"""Independent reference functions used by the direct property oracles (failing-input search).
They restate what the *documentation* promises (docs/fileFormat, README), not how the code does it."""
from __future__ import annotations

import math
import re
from typing import Any

INT_RE = re.compile(r"[+-]?\d+\Z")
FLOAT_RE = re.compile(r"[+-]?(\d+(\.\d*)?|\.\d+)([eE][-+]?\d+)?\Z")
WORDS = {"true": True, "false": False, "on": True, "off": False, "none": None, "null": None}


def unquote(s: str) -> str:
    """one pair of surrounding quotes removed (each end independently, as the element-type table says)"""
    if s and s[0] in "'\"":
        s = s[1:]
    if s and s[-1] in "'\"":
        s = s[:-1]
    return s


def classify(s: str) -> Any:
    """documented element-type table for a textual scalar"""
    if unquote(s) == "":
        return ""
    if s in ("-", "_", "."):
        return s
    if INT_RE.match(s):
        return int(s)
    if FLOAT_RE.match(s):
        return float(s)
    w = s.strip().lower()
    if w in WORDS:
        return WORDS[w]
    return unquote(s)


def norm_leaf(x: Any) -> Any:
    """element-type normalisation of one leaf of a dict that is written and read back:
    a string that spells a number, boolean or none comes back typed; everything else as it is"""
    if isinstance(x, str):
        v = classify(x)
        if isinstance(v, str):
            return x
        return v
    return x


def norm(v: Any) -> Any:
    if isinstance(v, dict):
        return {k: norm(x) for k, x in v.items()}
    if isinstance(v, (list, tuple)):
        return [norm(x) for x in v]
    if hasattr(v, "tolist"):
        return norm(v.tolist())
    return norm_leaf(v)


def is_placeholder_key(k: Any) -> bool:
    return isinstance(k, str) and re.search(r"(BLOCKCOMMENT|LINECOMMENT|INCLUDE)\d{6}", k) is not None


def strip_placeholders(v: Any) -> Any:
    """drop the comment / include placeholder entries the reader adds (at every dict level)"""
    if isinstance(v, dict):
        return {k: strip_placeholders(x) for k, x in v.items() if not is_placeholder_key(k)}
    if isinstance(v, list):
        return [strip_placeholders(x) for x in v]
    return v


def unordered(v: Any) -> Any:
    """canonical form that forgets dict key order but keeps types (for 'same association' checks)"""
    if isinstance(v, dict):
        return ("d", tuple(sorted(((type(k).__name__, k, unordered(x)) for k, x in v.items()), key=lambda t: (t[0], t[1]))))
    if isinstance(v, list):
        return ("l", tuple(unordered(x) for x in v))
    if isinstance(v, float):
        return ("f", repr(v))
    return (type(v).__name__, v)


def key_sort_key(k: Any):
    return (isinstance(k, str), k)


def merge_first_wins(a: dict, b: dict) -> dict:
    """documented merge: add what is absent, recurse into dicts present on both sides, never overwrite"""
    out = dict(a)
    for k, v in b.items():
        if k in out:
            if isinstance(out[k], dict) and isinstance(v, dict):
                out[k] = merge_first_wins(out[k], v)
        else:
            out[k] = v
    return out


def refers_to_own_key(key: Any, value: Any) -> bool:
    """the documented exception of merge(): an existing entry that merely refers to its own key ($key, bare, indexed or
    inside an expression) is a placeholder the merge may fill"""
    return isinstance(key, str) and isinstance(value, str) and re.search(r"\$" + re.escape(key) + r"(?!\w)", value) is not None


def merge_first_wins_selfref(a: dict, b: dict, top: bool = True) -> dict:
    out = dict(a)
    for k, v in b.items():
        if k in out and isinstance(out[k], dict) and isinstance(v, dict):
            out[k] = merge_first_wins_selfref(out[k], v, False)
        elif k not in out or (top and refers_to_own_key(k, out[k])):
            out[k] = v
    return out


def validate_scope(text):
    """documented reading of the --scope option: a bracketed list of keys (comma separated, each key typed, quotes removed),
    or a single word taken as one key; None means no scope"""
    if text is None:
        return None
    if re.match(r"\s*\[", text):
        return [classify(k.strip()) for k in text.strip(" []").split(",")]
    return [text]
