"""Seeded, structured generators shared by the property modules.  Every random choice comes from the
`random.Random` handed in (derived from VERIF_SEED), so a disagreement replays exactly."""
from __future__ import annotations

import random
import string as _string
from typing import Any

LETTERS = "abcdefghijklmnopqrstuvwxyzABCXYZ"
EXOTIC = ["é", "ß", "Ω", "ж", "中", "\u00a0", "\u2003", "١", "²", "Ⅷ", "\u200b", "\ufeff", "\u00ad", "😀", "ı", "İ", "K"]
STRUCT = list(";,{}()<>[]")
RESERVED = ["COMMENT", "INCLUDE", "STRINGLITERAL", "EXPRESSION", "_variables", "_includes"]


# characters str.splitlines() treats as line boundaries although no reader stage does (and `\s` matches them)
LINESEPS = ["\x0b", "\x0c", "\x1c", "\x1d", "\x1e", "\x85", "\u2028", "\u2029"]
CODECS = ["latin-1", "utf-16", "ascii", "cp1252", "utf-8", "utf-8-sig", "iso8859-15", "cp437"]
# words other dictionary dialects (OpenFOAM, YAML, INI) read as switches; for dictIO they are ordinary strings
SWITCH_WORDS = ["yes", "no", "y", "n", "t", "f", "Yes", "NO", "enabled", "disabled", "nil", "NaN", "Inf", "undefined", "void", "~"]
# words that look like pre-processor directives of this and related dictionary dialects
DIRECTIVE_WORDS = ["#sinclude", "#includeEtc", "#includeIfPresent", "#calc", "#inputMode", "#remove", "#ifdef", "#else", "#define",
                   "#inc", "#in", "#i", "##include", "#Include", "#INCLUDE", "# include", "#\tinclude", "#include"]
_VOCAB: list[str] | None = None


def source_vocab() -> list[str]:
    """word-like string constants of the library source itself (header keys, option names, tags, suffixes, ...): data that
    looks like something the library treats specially.  Read from the tree under test at run time; a generator input only."""
    global _VOCAB
    if _VOCAB is None:
        import ast
        import re
        from pathlib import Path
        import dictIO
        words: set[str] = set()
        for f in sorted(Path(dictIO.__file__).parent.rglob("*.py")):
            try:
                t = ast.parse(f.read_text(encoding="utf-8"))
            except Exception:  # noqa: BLE001
                continue
            doc = {id(b.body[0].value) for b in ast.walk(t)
                   if isinstance(b, (ast.Module, ast.ClassDef, ast.FunctionDef)) and b.body and isinstance(b.body[0], ast.Expr)}
            for n in ast.walk(t):
                if isinstance(n, ast.Constant) and isinstance(n.value, str) and id(n) not in doc:
                    for w in re.findall(r"[A-Za-z_#][\w.\-]{1,20}", n.value) if len(n.value) <= 600 else []:
                        if is_plain_word(w):
                            words.add(w)
        _VOCAB = sorted(words)
    return _VOCAB


def meta_dict(rng: random.Random) -> dict:
    """a flat-ish dict whose keys and values are words the library knows (coding, version, format, class, ...), codec names
    and some non-ASCII text: ordinary data that resembles file metadata"""
    voc = source_vocab()
    d: dict = {}
    for _ in range(rng.randint(2, 6)):
        k = rng.choice(voc) if rng.random() < 0.7 else rng.choice(["coding", "encoding", "version", "format", "filetype", "class"])
        r = rng.random()
        if r < 0.35:
            v: Any = rng.choice(CODECS)
        elif r < 0.6:
            v = rng.choice(voc)
        elif r < 0.85:
            v = rng.choice(["Jörg Müller", "é", "naïve café", "中文", "Ωmega", "ж"])
        else:
            v = rng.choice([1, 2.0, True, ["utf-16", "é"], {"coding": rng.choice(CODECS), "name": "Æ"}])
        d[k] = v
    return d


SIZES = [9, 10, 11, 20, 21, 29, 30, 31, 32, 63, 64, 65, 79, 80, 81, 99, 100, 101, 127, 128, 129, 255, 256, 257, 999, 1000, 1024, 4096, 65537]


def size_dict(rng: random.Random) -> dict:
    """a dict built around one size threshold: many keys, a long list, long strings / long keys, many digits, many lists"""
    n = rng.choice(SIZES)
    kind = rng.choice(["keys", "list", "string", "key", "digits", "lists", "nestedkeys", "multiword"])
    if kind == "keys":
        m = min(n, 1100)
        return {f"k{i:04d}": rng.choice([i, f"v{i}", "x y", True]) for i in rng.sample(range(m), m)}
    if kind == "nestedkeys":
        m = min(n, 300)
        return {"outer": {"inner": {f"k{i}": i for i in range(m)}}, "after": 1}
    if kind == "list":
        m = min(n, 5000)
        return {"l": [rng.choice([i, 1.5, "w", "two words"]) for i in range(m)], "after": "x"}
    if kind == "lists":
        m = min(n, 300)
        return {"m": [[i, i + 1] for i in range(m)], "after": "x"}
    if kind == "string":
        return {"s": "a" * n, "t": ("ab " * n)[: n], "u": "é" * min(n, 1000), "after": 1}
    if kind == "multiword":
        return {"s": " ".join(word(rng, 5) for _ in range(min(n, 400))), "after": 1}
    if kind == "key":
        return {"k" * min(n, 300): 1, "x" + "y" * (min(n, 300) - 1): {"z" * min(n, 300): "v"}, "after": 1}
    return {"i": int("9" * min(n, 300)), "j": -int("1" + "0" * min(n, 300)), "f": float("0." + "1" * min(n, 300)), "after": 1}


def word(rng: random.Random, maxlen: int = 8, exotic: float = 0.1) -> str:
    """a single bare word that is not number-/bool-/none-like and contains no reserved word"""
    while True:
        n = rng.randint(1, maxlen)
        cs = []
        for i in range(n):
            r = rng.random()
            if r < exotic:
                c = rng.choice(["é", "ß", "Ω", "ж", "中", "ı"])
            elif r < 0.75 or i == 0:
                c = rng.choice(LETTERS)
            elif r < 0.9:
                c = rng.choice("0123456789")
            else:
                c = rng.choice("_-.+#=%&!?*@^~|")
            cs.append(c)
        w = "".join(cs)
        if is_plain_word(w):
            return w


def is_plain_word(w: str) -> bool:
    import re
    if not w or any(r in w for r in RESERVED):
        return False
    if w in ("-", "_", "."):
        return True
    if re.search(r"^[+-]?(\d+(\.\d*)?|\.\d+)([eE][-+]?\d+)?$", w):
        return False
    if w.strip().lower() in ("true", "false", "on", "off", "none", "null"):
        return False
    if re.search(r"[\s:/\\;,{}()<>\[\]\"'$]", w):
        return False
    return True


def key(rng: random.Random, int_ratio: float = 0.2, long_ratio: float = 0.05) -> Any:
    r = rng.random()
    if r < int_ratio:
        return rng.choice([0, 1, 2, 3, 7, 10, 42, 100, -1, -5, 2024, 10**12])
    if r < int_ratio + long_ratio:
        return word(rng, 6) + "x" * rng.randint(20, 30)
    return word(rng)


def number_like(rng: random.Random) -> str:
    return rng.choice(["1", "-3", "+7", "007", "1.5", "-.5", "5.", "1e3", "1E-3", "2.5e+10", "1.e-03", "0", "-0", "1_000",
                       "0x10", "1e", "e5", "2024-01", "+", "5-5", "١٢", "1.2.3", "inf", "nan", "1e400",
                       "+-5", "--1", "-+20", "++3", "+-", "-+", "--", "1-", "+-1.5", "--.5", "-+1e3", "+ 5", "٣", "-٣", "²", "1²"])


def boolnone_like(rng: random.Random) -> str:
    w = rng.choice(["true", "false", "on", "off", "none", "null"])
    return "".join(c.upper() if rng.random() < 0.4 else c for c in w)


def text(rng: random.Random, cls: str | None = None) -> str:
    """a single-line string leaf of a given class (see DESIGN 7 / C01)"""
    classes = ["word", "empty", "multi", "path", "delim", "nested1", "nested2", "backslash", "exotic", "numlike",
               "boolnone", "placeholderish", "punct", "padded", "linesep", "vocab", "combo", "bracketed"]
    cls = cls or rng.choice(classes)
    if cls == "bracketed":
        nums = " ".join(str(rng.randint(-3, 12)) for _ in range(rng.randint(1, 7)))
        return rng.choice([f"[ {nums} ]", f"[{nums}]", f"limits [ {nums} ]", f"( {nums} )", f"[ {nums.replace(' ', ', ')} ]", f"{word(rng, 4)} [ {nums} ] {word(rng, 4)}", f"[  {nums}  ]"])
    if cls == "combo":
        # two special features in one string (a UNC path with an apostrophe, a quoted segment after a run of backslashes, ...):
        # the writer's quoting branches are chosen by the first feature they test for
        a, b = (text(rng, rng.choice(["path", "backslash", "nested2", "delim", "punct", "multi", "padded"])) for _ in range(2))
        return rng.choice([a + " " + b, a + b, "\\\\" + word(rng, 5) + "\\" + word(rng, 4) + rng.choice(["'s ", "\"s "]) + word(rng, 4) + rng.choice(["", "\\\\" + word(rng, 3)])])
    if cls == "word":
        return word(rng)
    if cls == "empty":
        return ""
    if cls == "multi":
        return " ".join(word(rng) for _ in range(rng.randint(2, 4)))
    if cls == "path":
        return rng.choice(["/", "./", "../", "C:\\", "C:/", "http://", "\\\\srv\\"]) + rng.choice(["/", "\\", "/"]).join(
            word(rng, 5) for _ in range(rng.randint(1, 3)))
    if cls == "delim":
        w = list(word(rng) + (" " + word(rng) if rng.random() < 0.3 else ""))
        for _ in range(rng.randint(1, 3)):
            w.insert(rng.randint(0, len(w)), rng.choice(STRUCT))
        return "".join(w)
    if cls == "nested1":
        q = rng.choice("'\"")
        return f"{word(rng)} {q}{word(rng)}{' ' + word(rng) if rng.random() < .5 else ''}{q}" + (" " + word(rng) if rng.random() < .5 else "")
    if cls == "nested2":
        q = rng.choice("'\"")
        return rng.choice([f"{q}{word(rng)}{q}", f"it{q}s", f"{q}", f"{q}{q}", f"{word(rng)}{q}", f"{q}{word(rng)} {word(rng)}"])
    if cls == "backslash":
        w = word(rng)
        return rng.choice(["\\" + w, w + "\\", w + "\\" + word(rng), "\\\\" + w, w + "\\\\", "a\\1b", "\\g<0>", "\\n x"])
    if cls == "exotic":
        w = list(word(rng))
        for _ in range(rng.randint(1, 3)):
            w.insert(rng.randint(0, len(w)), rng.choice(EXOTIC))
        return "".join(w)
    if cls == "numlike":
        return number_like(rng)
    if cls == "boolnone":
        return boolnone_like(rng) + rng.choice(["", "", " ", "x"])
    if cls == "placeholderish":
        return rng.choice(["COMMENTARY", "BLOCK", "LINE000001", "000001", "INCLUDED", "EXPR", "STRING", "LITERAL000000"]).replace("COMMENT", "KOMMENT").replace("INCLUDE", "INKLUDE")
    if cls == "padded":
        w = word(rng)
        return rng.choice([" " + w, w + " ", "  " + w + "  ", "\t" + w, w + "\t", " ", "   ", "\u00a0" + w, w + "\u2003"])
    if cls == "linesep":
        w = word(rng, 5)
        return w + rng.choice(["", " "]) + rng.choice(LINESEPS) + rng.choice(["", " "]) + word(rng, 5)
    if cls == "vocab":
        r = rng.random()
        return rng.choice(source_vocab() + CODECS) if r < 0.6 else (rng.choice(SWITCH_WORDS) if r < 0.8 else rng.choice(DIRECTIVE_WORDS))
    if cls == "punct":
        return "".join(rng.choice("=#%&!?*@^~|+-_.") for _ in range(rng.randint(1, 4))) + word(rng, 3)
    raise ValueError(cls)


def scalar(rng: random.Random, strings: bool = True) -> Any:
    r = rng.random()
    if r < 0.2:
        return rng.choice([0, 1, -1, 7, 42, -300, 10**15, 123456789012345678901234567890])
    if r < 0.35:
        return rng.choice([0.0, 1.5, -2.25, 1e-5, 1e22, 3.141592653589793, -0.0, 1e16, 123456.789, 5e-324, 1.7976931348623157e308])
    if r < 0.45:
        return rng.random() < 0.5
    if r < 0.5:
        return None
    return text(rng) if strings else word(rng)


def tree(rng: random.Random, depth: int = 3, width: int = 4, leaf=scalar, key_fn=key, in_list: bool = False,
         p_dict: float = 0.25, p_list: float = 0.15) -> Any:
    """a nested value; dict keys unique, mixed int/str"""
    r = rng.random()
    if depth <= 0 or r > p_dict + p_list:
        return leaf(rng)
    if r < p_dict:
        return tree_dict(rng, depth - 1, width, leaf, key_fn, p_dict, p_list)
    n = rng.choice([0, 1, 2, 3, 3, 5, 11, 21]) if rng.random() < 0.3 else rng.randint(0, width)
    xs = [tree(rng, depth - 1, width, leaf, key_fn, True, p_dict, p_list) for _ in range(n)]
    if xs and rng.random() < 0.15:
        # an equal-valued number of another type in the same list (2 and 2.0, 1 and True, 1e16 and 10**16)
        for x in list(xs):
            t = numeric_twin(x)
            if t is not None:
                xs.insert(rng.randint(0, len(xs)), t); break
    return xs


def numeric_twin(x: Any) -> Any:
    if isinstance(x, bool):
        return int(x)
    if isinstance(x, int) and abs(x) < 2**53:
        return float(x)
    if isinstance(x, float) and x == x and abs(x) < 2**53 and x == int(x):
        return int(x)
    return None


def tree_dict(rng: random.Random, depth: int = 3, width: int = 4, leaf=scalar, key_fn=key, p_dict: float = 0.25,
              p_list: float = 0.15) -> dict:
    d: dict = {}
    for _ in range(rng.randint(0, width)):
        k = key_fn(rng)
        if k in d or (isinstance(k, int) and str(k) in d) or (isinstance(k, str) and k.lstrip("-").isdigit()):
            continue
        d[k] = tree(rng, depth, width, leaf, key_fn, False, p_dict, p_list)
    return d


def all_paths(v: Any, prefix: tuple = ()) -> list[tuple]:
    """every key path into a nested value (to containers and leaves), root excluded"""
    out = []
    if isinstance(v, dict):
        for k, x in v.items():
            out.append(prefix + (k,)); out.extend(all_paths(x, prefix + (k,)))
    elif isinstance(v, list):
        for i, x in enumerate(v):
            out.append(prefix + (i,)); out.extend(all_paths(x, prefix + (i,)))
    return out


def get_path(v: Any, p: tuple) -> Any:
    for k in p:
        v = v[k]
    return v
