"""Adapters around the real dictIO API (called in-process) for the property modules."""
from __future__ import annotations

import contextlib
import copy
import os
import shutil
import tempfile
from pathlib import Path
from typing import Any

from dictIO import (DictParser, DictReader, DictWriter, FoamFormatter, FoamParser, JsonFormatter, JsonParser,
                    NativeFormatter, NativeParser, SDict, XmlFormatter, XmlParser)
from dictIO.utils.counter import BorgCounter


@contextlib.contextmanager
def scratch():
    """a scratch directory outside /repo and /verif, removed afterwards"""
    d = Path(tempfile.mkdtemp(prefix="dictio-verif-"))
    try:
        yield d
    finally:
        shutil.rmtree(d, ignore_errors=True)


def plain(v: Any) -> Any:
    """deep copy into builtin dict / list (drops the SDict wrapper, keeps order)"""
    if isinstance(v, dict):
        return {k: plain(x) for k, x in v.items()}
    if isinstance(v, (list, tuple)):
        return [plain(x) for x in v]
    if hasattr(v, "tolist"):
        return plain(v.tolist())
    return v


def native_string_roundtrip(d: dict) -> dict:
    s = NativeFormatter().to_string(copy.deepcopy(d))
    return plain(NativeParser().parse_string(s, SDict()))


def file_roundtrip(d: dict, name: str = "f", mode: str = "w", order: bool = False, read_kw: dict | None = None) -> dict:
    with scratch() as td:
        p = td / name
        DictWriter.write(copy.deepcopy(d), p, mode=mode, order=order)
        return plain(DictReader.read(p, **(read_kw or {})))


def dump_load(d: dict, name: str = "f") -> dict:
    with scratch() as td:
        p = td / name
        SDict(copy.deepcopy(d)).dump(p)
        return plain(SDict().load(p))
