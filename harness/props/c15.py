"""C15 -- ordering sorts keys at every dict level and changes nothing else."""
from __future__ import annotations

import copy

import gen
import impl
import spec
from common import Ctx, dec, enc, enc_entries, same, shrink

ID = "C15"
RULE = ("nested dicts with mixed int/str keys (lists, dicts inside lists, empty containers); compared: model orderV / "
        "SD.order vs dictIO.order_keys / SDict.order_keys; oracle: same associations, sorted, lists untouched, "
        "idempotent, ordered file reads like unordered file; one SDict object through sequences of order_keys / ordered writes "
        "interleaved with changes at any level (item assignment, update, setdefault, merge, |=), starting plain, ordered or read "
        "with order=True; non-trivial = at least one dict level with >=2 keys")
ASSUMPTIONS = ["Python str comparison is code-point lexicographic (modelled by strLe)",
               "file routes rely on the native writer/reader (C01) -- exercised by the oracle only"]


def _nontrivial(d) -> bool:
    if isinstance(d, dict):
        return len(d) >= 2 or any(_nontrivial(v) for v in d.values())
    if isinstance(d, list):
        return any(_nontrivial(v) for v in d)
    return False


def _sorted_everywhere(v, in_list=False) -> bool:
    if isinstance(v, dict):
        if not in_list:
            ks = list(v.keys())
            if ks != sorted(ks, key=spec.key_sort_key):
                return False
        return all(_sorted_everywhere(x, in_list) for x in v.values())
    if isinstance(v, list):
        return True  # lists and what they contain keep their order
    return True


def _lists_untouched(a, b) -> bool:
    if isinstance(a, dict) and isinstance(b, dict):
        return all(k in b and _lists_untouched(a[k], b[k]) for k in a)
    if isinstance(a, list):
        return same(a, b)
    return True


def c01_in_dom(d) -> bool:
    try:
        from props import c01
        return c01.in_dom(d) and c01.in_dom_keys_ok(d)
    except Exception:  # noqa: BLE001
        return False


def oracle_order(ctx: Ctx, d: dict) -> None:
    from dictIO.utils.dict import order_keys
    x = copy.deepcopy(d)
    try:
        r = order_keys(x)
    except Exception as e:  # noqa: BLE001
        ctx.violation("order_keys raises", {"kind": "order", "d": enc(d)}, repr(e), "ordered dict")
        return
    r = impl.plain(r)
    if spec.unordered(r) != spec.unordered(d):
        ctx.violation("order_keys changed an association", {"kind": "order", "d": enc(d)}, enc(r), "same associations")
    elif not _sorted_everywhere(r):
        ctx.violation("keys not ascending (ints before strs) at some level", {"kind": "order", "d": enc(d)}, enc(r), "sorted")
    elif not _lists_untouched(d, r):
        ctx.violation("a list (or a dict inside a list) was reordered", {"kind": "order", "d": enc(d)}, enc(r), "lists untouched")
    else:
        r2 = impl.plain(order_keys(copy.deepcopy(r)))
        if not same(r, r2):
            ctx.violation("order_keys not idempotent", {"kind": "order", "d": enc(d)}, enc(r2), enc(r))
    # the same content with its nested dicts held as SDict objects (d["sub"] = SDict({...}), a dict read from another file):
    # through the utility function, the method, and a write with order=True
    if any(isinstance(v, dict) and v for v in d.values()):
        from dictIO import DictReader, DictWriter, SDict

        def nest(v, top=True):
            if isinstance(v, dict):
                w = {k: nest(x, False) for k, x in v.items()}
                return w if top else SDict(w)
            if isinstance(v, list):
                return [nest(x, False) if not isinstance(x, dict) else {k: nest(y, False) for k, y in x.items()} for x in v]
            return v
        try:
            r3 = impl.plain(order_keys(nest(d)))
            sx = SDict(nest(d)); sx.order_keys(); r4 = impl.plain(dict(sx))
            r5 = None
            if c01_in_dom(d):          # the file route only for dicts of the writer's value domain
                with impl.scratch() as td:
                    DictWriter.write(nest(d), td / "o", mode="w", order=True)
                    r5 = spec.strip_placeholders(impl.plain(DictReader.read(td / "o")))
        except Exception as e:  # noqa: BLE001
            ctx.violation("ordering a dict whose nested dicts are SDict objects raises", {"kind": "order", "d": enc(d)}, repr(e), "ordered dict"); return
        if not same(r3, r) or not same(r4, r):
            ctx.violation("ordering a dict whose nested dicts are SDict objects changes the content", {"kind": "order", "d": enc(d)}, enc(r3 if not same(r3, r) else r4), enc(r))
        elif r5 is not None and spec.unordered(r5) != spec.unordered(spec.norm(r)) and not any(
                t in repr(enc(spec.norm(r))) for t in ("'inf'", "'-inf'", "'nan'")):      # (number strings beyond float range: finding D2 of C01/C04)
            ctx.violation("a dict whose nested dicts are SDict objects, written with order=True, reads back as different data", {"kind": "order", "d": enc(d)}, enc(r5), enc(spec.norm(r)))


def oracle_files(ctx: Ctx, d: dict) -> None:
    from dictIO import DictReader, DictWriter
    case = {"kind": "files", "d": enc(d)}
    try:
        with impl.scratch() as td:
            DictWriter.write(copy.deepcopy(d), td / "u", mode="w", order=False)
            DictWriter.write(copy.deepcopy(d), td / "o", mode="w", order=True)
            ru = impl.plain(DictReader.read(td / "u"))
            ro = impl.plain(DictReader.read(td / "o"))
            ruo = impl.plain(DictReader.read(td / "u", order=True))
    except Exception as e:  # noqa: BLE001
        ctx.violation("write/read with order raises", case, repr(e), "no exception")
        return
    if spec.unordered(ru) != spec.unordered(ro):
        ctx.violation("ordered file reads back to different data than the unordered one", case, enc(ro), enc(ru))
    elif not _sorted_everywhere(spec.strip_placeholders(ro)):
        ctx.violation("file written with order=True is not sorted", case, enc(ro), "sorted keys")
    elif spec.unordered(ruo) != spec.unordered(ru) or not _sorted_everywhere(ruo):
        ctx.violation("read(order=True) differs from read() beyond key order", case, enc(ruo), enc(ru))
    # ordered append onto an existing file: the merged result is ordered at every level
    try:
        items = list(d.items())
        half = {k: v for k, v in items[1::2]}
        rest = {k: v for k, v in items[0::2]}
        with impl.scratch() as td:
            DictWriter.write(copy.deepcopy(half), td / "t", mode="w", order=True)
            DictWriter.write(copy.deepcopy(rest), td / "t", mode="a", order=True)
            rt = spec.strip_placeholders(impl.plain(DictReader.read(td / "t")))
    except Exception as e:  # noqa: BLE001
        ctx.violation("ordered append raises", case, repr(e), "no exception"); return
    if not _sorted_everywhere(rt):
        ctx.violation("file written with order=True in append mode is not sorted", case, enc(rt), "sorted keys")
    elif spec.unordered(rt) != spec.unordered(spec.norm(spec.merge_first_wins(half, rest))):
        ctx.violation("ordered append changed an association", case, enc(rt), enc(spec.norm(spec.merge_first_wins(half, rest))))


def _dict_paths(d, prefix=()):
    out = [prefix]
    for k, v in d.items():
        if isinstance(v, dict):
            out.extend(_dict_paths(v, prefix + (k,)))
    return out


def _seq_case(rng):
    """one SDict object through ordering steps interleaved with changes at any level (state carried between calls)"""
    d = gen.tree_dict(rng, rng.randint(1, 3), 4, leaf=lambda r: gen.scalar(r, strings=False), p_dict=0.45)
    shadow = copy.deepcopy(d)
    ops = []
    start = rng.choice(["plain", "read_ordered", "ordered"])
    for _ in range(rng.randint(2, 7)):
        r = rng.random()
        if r < 0.35:
            ops.append(["order"])
        elif r < 0.45:
            ops.append(["write"])
        else:
            paths = _dict_paths(shadow)
            p = list(rng.choice(paths))
            k = gen.key(rng, int_ratio=0.4)
            v = rng.choice([rng.randint(0, 9), {gen.key(rng, 0.4): 1, gen.key(rng, 0.4): 2}, [3, 1, 2]])
            how = rng.choice(["item", "item", "update", "setdefault"]) if p else rng.choice(["item", "update", "merge", "ior"])
            t = shadow
            for x in p:
                t = t[x]
            if k in t or (isinstance(k, int) and str(k) in t) or (isinstance(k, str) and k.lstrip("-").isdigit()):
                continue
            t[k] = copy.deepcopy(v)
            ops.append(["set", [spec_key(x) for x in p], spec_key(k), enc(v), how])
    ops.append(["order"])
    return {"kind": "seq", "d": enc(d), "start": start, "ops": ops}


def spec_key(k):
    return {"i": k} if isinstance(k, int) else {"s": k}


def unspec_key(k):
    return k["i"] if "i" in k else k["s"]


def oracle_seq(ctx: Ctx, c: dict) -> None:
    from dictIO import DictReader, DictWriter, SDict
    d = dec(c["d"])
    shadow = copy.deepcopy(d)
    try:
        with impl.scratch() as td:
            if c["start"] == "read_ordered":
                DictWriter.write(copy.deepcopy(d), td / "src", mode="w")
                s = DictReader.read(td / "src", order=True, comments=False)
            else:
                s = SDict(copy.deepcopy(d))
                if c["start"] == "ordered":
                    s.order_keys()
            for step, op in enumerate(c["ops"]):
                if op[0] == "set":
                    p = [unspec_key(x) for x in op[1]]; k = unspec_key(op[2]); v = dec(op[3])
                    t, ts = shadow, s
                    for x in p:
                        t, ts = t[x], ts[x]
                    t[k] = copy.deepcopy(v)
                    how = op[4]
                    if how == "item":
                        ts[k] = copy.deepcopy(v)
                    elif how == "update":
                        ts.update({k: copy.deepcopy(v)})
                    elif how == "setdefault":
                        ts.setdefault(k, copy.deepcopy(v))
                    elif how == "merge":
                        ts.merge({k: copy.deepcopy(v)})
                    elif how == "ior":
                        ts |= {k: copy.deepcopy(v)}
                elif op[0] == "order":
                    s.order_keys()
                    got = impl.plain(s)
                    if spec.unordered(spec.strip_placeholders(got)) != spec.unordered(shadow):
                        ctx.violation("order_keys on a changed SDict changed an association", c, {"step": step, "got": enc(got)}, enc(shadow)); return
                    if not _sorted_everywhere(got):
                        ctx.violation("order_keys on an SDict that was ordered before and changed since leaves keys unsorted", c,
                                      {"step": step, "got": enc(got)}, "sorted at every level"); return
                elif op[0] == "write":
                    DictWriter.write(s, td / "out", mode="w", order=True)
                    back = spec.strip_placeholders(impl.plain(DictReader.read(td / "out", comments=False)))
                    if not _sorted_everywhere(back):
                        ctx.violation("file written with order=True from an SDict that was ordered before and changed since is not sorted", c,
                                      {"step": step, "got": enc(back)}, "sorted at every level"); return
                    if spec.unordered(back) != spec.unordered(spec.norm(shadow)):
                        ctx.violation("ordered write of a changed SDict changed an association", c, {"step": step, "got": enc(back)}, enc(shadow)); return
    except Exception as e:  # noqa: BLE001
        ctx.violation("ordering sequence raises", c, repr(e), "no exception")


def _sd_case(rng):
    d = gen.tree_dict(rng, 3, 4, leaf=lambda r: gen.scalar(r, strings=False))
    tbl = lambda: sorted(rng.sample(range(0, 40), rng.randint(0, 5)), key=lambda _: rng.random())
    return {"kind": "sd", "d": enc(d), "lineC": [[i, f"// c{i}"] for i in tbl()], "blockC": [[i, f"/* b{i} */"] for i in tbl()],
            "exprs": [[i, [f"$v{i}", f"EXPRESSION{i:06d}"]] for i in tbl()], "incl": [[i, [f"#include x{i}", f"x{i}", f"/p/x{i}"]] for i in tbl()]}


def process(ctx: Ctx, cases: list[dict]) -> None:
    from dictIO import SDict
    from dictIO.utils.dict import order_keys
    reqs = []
    for c in cases:
        if c["kind"] == "order":
            reqs.append({"op": "order", "v": c["d"]})
        elif c["kind"] == "sd":
            reqs.append({"op": "sdorder", "sd": {"data": c["d"]["d"], "lineC": c["lineC"], "blockC": c["blockC"], "exprs": c["exprs"], "incl": c["incl"]}})
    replies = [] if ctx.oracle_only else ctx.driver(reqs)
    ri = 0
    for c in cases:
        d = dec(c["d"])
        ctx.case(c, _nontrivial(d), (c["kind"],))
        if c["kind"] == "order":
            oracle_order(ctx, d)
            if not ctx.oracle_only:
                m = replies[ri]; ri += 1
                try:
                    r = enc(impl.plain(order_keys(copy.deepcopy(d))))
                except Exception as e:  # noqa: BLE001
                    r = repr(e)
                if m != r:
                    ctx.disagree("order_keys", c, m, r)
        elif c["kind"] == "sd":
            s = SDict(copy.deepcopy(d))
            s.line_comments = {i: t for i, t in c["lineC"]}
            s.block_comments = {i: t for i, t in c["blockC"]}
            s.expressions = {i: {"expression": e[0], "name": e[1]} for i, e in c["exprs"]}
            s.includes = {i: tuple(e) for i, e in c["incl"]}
            s.order_keys()
            for name, tb in (("line_comments", s.line_comments), ("block_comments", s.block_comments), ("expressions", s.expressions), ("includes", s.includes)):
                if list(tb) != sorted(tb):
                    ctx.violation(f"SDict.order_keys leaves {name} unsorted", c, list(tb), sorted(tb))
            if not ctx.oracle_only:
                m = replies[ri]; ri += 1
                r = {"data": enc_entries(impl.plain(s)), "exprs": [[i, [e["expression"], e["name"]]] for i, e in s.expressions.items()],
                     "lineC": [[i, t] for i, t in s.line_comments.items()], "blockC": [[i, t] for i, t in s.block_comments.items()],
                     "incl": [[i, list(e)] for i, e in s.includes.items()]}
                if m != r:
                    ctx.disagree("SDict.order_keys", c, m, r)
        elif c["kind"] == "files":
            oracle_files(ctx, d)
        elif c["kind"] == "seq":
            oracle_seq(ctx, c)
        elif c["kind"] == "reftext":
            # a source with $references (the referenced name declared in several nested dicts, in an order that sorting
            # changes): reading / parsing with order=True gives the same association as without, sorted
            from dictIO import DictParser, DictReader
            ctx.case(c, True, ("reftext",))
            try:
                with impl.scratch() as td:
                    (td / "s").write_text(c["text"])
                    ru = spec.strip_placeholders(impl.plain(DictReader.read(td / "s")))
                    ro = spec.strip_placeholders(impl.plain(DictReader.read(td / "s", order=True)))
                    DictParser.parse(td / "s", order=True)
                    rp = spec.strip_placeholders(impl.plain(DictReader.read(td / "parsed.s")))
            except Exception as e:  # noqa: BLE001
                ctx.violation("reading a source with references with order=True raises", c, repr(e), "dict"); continue
            if spec.unordered(ro) != spec.unordered(ru) or not _sorted_everywhere(ro):
                ctx.violation("read(order=True) differs from read() beyond key order", c, enc(ro), enc(ru))
            elif spec.unordered(rp) != spec.unordered(ru) or not _sorted_everywhere(rp):
                ctx.violation("parse(order=True) writes a file that reads to other data than the source", c, enc(rp), enc(ru))


def run(ctx: Ctx) -> None:
    rng = ctx.rng
    cases = []
    for e in getattr(ctx, "fixed_witnesses", []):
        if isinstance(e.get("witness"), dict) and e["witness"].get("kind") == "api":
            from props import api as _api          # a history of API calls kept from a seeded change
            _api.process(ctx, [e["witness"]], oracles=True); ctx.corpus_cases += 1
            continue
        cases.append(e["witness"]); ctx.corpus_cases += 1
    for _ in range(ctx.n(1500, 20000)):
        cases.append({"kind": "order", "d": enc(gen.tree_dict(rng, rng.randint(1, 5), rng.randint(1, 6)))})
    for _ in range(ctx.n(20, 300)):
        d = gen.size_dict(rng)                  # many keys / long keys: sorting around size thresholds
        cases.append({"kind": "order", "d": enc(d)})
        if len(str(d)) < 20000:
            cases.append({"kind": "files", "d": enc({k: v for k, v in d.items() if not isinstance(v, float)})})
    for n in (9, 11, 12, 14, 20):
        d: dict = {"z": 1, "a": 2, 5: 3}
        for lvl in range(n):
            d = {"y": lvl, f"k{lvl}": d, 3: [lvl, {"q": 1, "b": 2}], "b": lvl}       # unsorted on every level, n levels deep
        cases.append({"kind": "order", "d": enc(d)})
        if n <= 9:
            cases.append({"kind": "files", "d": enc(d)})
    for _ in range(ctx.n(300, 3000)):
        cases.append(_sd_case(rng))
    for _ in range(ctx.n(150, 2500)):
        d = gen.tree_dict(rng, rng.randint(1, 3), 4, leaf=lambda r: gen.scalar(r, strings=False))
        cases.append({"kind": "files", "d": enc(d)})
    for _ in range(ctx.n(250, 4000)):
        cases.append(_seq_case(rng))
    for _ in range(ctx.n(40, 600)):
        names = rng.sample(["pump", "filter", "alpha", "zeta", "m1", "b2"], 3)
        var = rng.choice(["gain", "k", "x1"])
        vals = rng.sample(range(2, 50), 3)
        blocks = [f"{n} {{ {var} {v}; other{v} {v}; }}\n" for n, v in zip(names, vals)]
        uses = [f'signal "${var} * 3";\n', f"copy ${var};\n", f'offset "${var} + 1";\n']
        lines = blocks + uses
        rng.shuffle(lines)
        cases.append({"kind": "reftext", "text": "".join(lines), "d": enc({})})
    process(ctx, cases)
    # histories of API calls (read / write / dump / parse with order and append modes, files with includes and comments)
    # against the world model, with the direct oracles: sorted after order=True, nothing lost by an append
    from props import api
    api.run(ctx, 80, 2000, oracles=True)


def replay(ctx: Ctx, case: dict) -> None:
    if case.get("kind") == "api":
        from props import api
        api.process(ctx, [case], oracles=True); return
    process(ctx, [case])


def shrink_violation(v: dict) -> dict:
    case = v["input"]
    kind = case["kind"]
    if kind not in ("order", "files"):
        return v
    what = v["what"]

    def fails(d):
        c = Ctx(ID, "quick", 0, oracle_only=True)
        (oracle_order if kind == "order" else oracle_files)(c, d)
        return any(x.get("what") == what for x in c.violations)
    d = shrink(dec(case["d"]), fails)
    c = Ctx(ID, "quick", 0, oracle_only=True)
    (oracle_order if kind == "order" else oracle_files)(c, d)
    return next((x for x in c.violations if x.get("what") == what), v)


KNOWN_CLASSES: dict = {}
WITNESSES: dict = {}
