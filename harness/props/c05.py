"""C05 -- references and expressions evaluate to the value a direct computation gives."""
from __future__ import annotations

import json as _json
import re

import gen
import impl
import spec
from common import Ctx, canon_floats, dec, enc, enc_entries, same, reset_globals
from props import c01

ID = "C05"
RULE = ("variable dependency graphs: literals (int, string incl. regex/escape characters and Python-looking text, list, bool), plain "
        "references, indexed references, chained references, integer arithmetic expressions over references (+ - * parentheses), "
        "prefix-related names (a, ab, a1), dangling / self / mutual / longer cyclic references; every case in several declaration "
        "orders and placements (top level, nested dict, included file; native and JSON syntax); compared: model readFile (with the "
        "integer evaluator) vs DictReader.read; oracle: an independent topological evaluator, no EXPRESSION placeholder left, "
        "reading terminates; non-trivial = at least one reference resolved through another variable")
ASSUMPTIONS = ["Python's eval is a parameter of the model; its executable instance covers the integer language + - * ( ) only; "
               "floats, math/numpy functions and string results via NameError are exercised against the oracle only"]

STRS = ["text", "two words", "a;b", "x\\1y", "\\g<0>", "C:\\dir\\f", "e", "pi", "1+1", "sin", "it's", "100%", "(paren)", "[br]", "a.b", "É"]


def gen_graph(rng):
    """variables: name -> spec ; spec = ('lit', value) | ('ref', name) | ('idx', name, i) | ('expr', text, [names])"""
    names = rng.sample(["a", "ab", "a1", "b", "bc", "x", "x1", "xy", "k", "val", "n", "zz", "q", "2x", "1st", "_u", "K", "é1", "x_1"], rng.randint(2, 8))
    vars_: dict = {}
    ints = []
    for nm in names:
        r = rng.random()
        defined = list(vars_)
        if r < 0.3 or not defined:
            v = rng.choice([rng.randint(-20, 50), rng.randint(0, 9), rng.choice(STRS), [rng.randint(0, 9) for _ in range(rng.randint(1, 4))], True,
                            [rng.choice([rng.randint(0, 9), rng.choice(["e", "pi", "mean", "log", "text", "two words", "1+1", "a;b", "x\\1y"])]) for _ in range(rng.randint(1, 4))]])
            vars_[nm] = ("lit", v)
        elif r < 0.5:
            vars_[nm] = ("ref", rng.choice(names))                 # may be forward, self or cyclic
            if rng.random() < 0.15:
                vars_[nm] = ("ref", vars_[nm][1], rng.choice([" ", "  ", "\t"]))      # a reference with blanks inside the quotes
        elif r < 0.6:
            ev = evaluate(vars_)
            lists = [n for n in defined if ev[n] is not None and isinstance(ev[n][1], list)]      # lists, also through aliases
            if lists:
                ln = rng.choice(lists)
                vars_[nm] = ("idx", ln, rng.randrange(len(ev[ln][1])))
            else:
                vars_[nm] = ("lit", rng.randint(0, 9))
        elif r < 0.64:
            # references inside a list of lists (a matrix whose entries refer to scalars declared elsewhere)
            ev = evaluate(vars_)
            scal = [n for n in defined if ev[n] is not None and isinstance(ev[n][1], int) and not isinstance(ev[n][1], bool)]
            if scal:
                a, b = rng.choice(scal), rng.choice(scal)
                vars_[nm] = ("mat", [[a, 0], [0, b]] if rng.random() < 0.5 else [[1, [a, b]], [2, 3]])
            else:
                vars_[nm] = ("lit", rng.randint(0, 9))
        elif r < 0.7:
            vars_[nm] = ("ref", rng.choice(["nope", "undefined1", names[0] + "zz"]))   # dangling
        else:
            k = rng.randint(1, 3)
            refs = [rng.choice(names) for _ in range(k)]
            parts = []
            for i, rf in enumerate(refs):
                parts.append(f"${rf}")
                if i < k - 1:
                    parts.append(rng.choice([" + ", " - ", " * ", "+", "*"]))
            text = "".join(parts)
            if rng.random() < 0.5:
                text = rng.choice([f"{rng.randint(1, 9)} + ", f"{rng.randint(2, 5)} * ", "(", "-"]) + text
                if text.startswith("("):
                    text += f") * {rng.randint(2, 4)}"
            vars_[nm] = ("expr", text, refs)
    return vars_


def evaluate(vars_: dict):
    """independent topological evaluator: name -> ('val', v) | ('text',) for what cannot be resolved"""
    memo: dict = {}

    def val(nm, stack):
        if nm in memo:
            return memo[nm]
        if nm not in vars_ or nm in stack:
            return None
        sp = vars_[nm]
        if sp[0] == "expr" and len(sp[2]) == 1 and sp[1].strip() == f"${sp[2][0]}":
            sp = ("ref", sp[2][0])          # "$x" in double quotes is still a plain reference
        out = None
        if sp[0] == "lit":
            out = ("val", sp[1])
        elif sp[0] == "ref":
            r = val(sp[1], stack + [nm])
            out = r if (r and r[0] == "val") else None
        elif sp[0] == "idx":
            r = val(sp[1], stack + [nm])
            if r and r[0] == "val" and isinstance(r[1], list) and -len(r[1]) <= sp[2] < len(r[1]):
                out = ("val", r[1][sp[2]])
        elif sp[0] == "mat":
            def cell(x):
                if isinstance(x, list):
                    return [cell(y) for y in x]
                if isinstance(x, str):
                    r = val(x, stack + [nm])
                    return r[1] if r and r[0] == "val" else f"${x}"
                return x
            out = ("val", cell(sp[1]))
        elif sp[0] == "expr":
            env = {}
            ok = True
            for rf in sp[2]:
                r = val(rf, stack + [nm])
                if not (r and r[0] == "val" and isinstance(r[1], int)):
                    ok = False
                else:
                    env[rf] = int(r[1])          # Python: a bool is an int in arithmetic
            if ok:
                text = sp[1]
                for rf in sorted(set(sp[2]), key=len, reverse=True):
                    text = re.sub(r"\$" + re.escape(rf) + r"(?!\w)", f"({env[rf]})", text)
                try:
                    out = ("val", eval(text, {"__builtins__": {}}))  # noqa: S307 - harness-generated integer arithmetic
                except ArithmeticError:
                    out = None          # an expression that cannot be evaluated keeps its text
        if nm not in stack:
            memo[nm] = out
        return out
    return {nm: val(nm, []) for nm in vars_}


def spell(sp):
    if sp[0] == "lit":
        v = sp[1]
        if isinstance(v, list):
            return "( " + " ".join((str(x) if not isinstance(x, str) else (x if x.isalnum() else "'" + x + "'")) for x in v) + " )"
        if isinstance(v, bool):
            return "true" if v else "false"
        if isinstance(v, str):
            return "'" + v + "'" if "'" not in v else '"' + v + '"'
        return str(v)
    if sp[0] == "ref":
        return f"${sp[1]}" if len(sp) < 3 else f'"{sp[2]}${sp[1]}"'
    if sp[0] == "idx":
        return f"${sp[1]}[{sp[2]}]"
    if sp[0] == "mat":
        def nat(x):
            return "( " + " ".join(nat(y) for y in x) + " )" if isinstance(x, list) else (f"${x}" if isinstance(x, str) else str(x))
        return nat(sp[1])
    return '"' + sp[1] + '"'


def json_value(sp):
    if sp[0] == "lit":
        return sp[1]
    if sp[0] == "ref":
        return f"${sp[1]}" if len(sp) < 3 else f"{sp[2]}${sp[1]}"
    if sp[0] == "idx":
        return f"${sp[1]}[{sp[2]}]"
    if sp[0] == "mat":
        def js(x):
            return [js(y) for y in x] if isinstance(x, list) else (f"${x}" if isinstance(x, str) else x)
        return js(sp[1])
    return sp[1]


def render(rng, vars_: dict):
    """distribute declarations over root, a nested dict and an included file; returns files, root name, placement"""
    order = list(vars_)
    rng.shuffle(order)
    place = {nm: rng.choice(["top", "top", "nested", "incl", "inlist", "deep9"]) for nm in order}
    syntax = rng.choice(["native", "native", "json"])
    incl_syntax = rng.choice(["native", "json"])
    top = [nm for nm in order if place[nm] == "top"]
    nested = [nm for nm in order if place[nm] == "nested"]
    inc = [nm for nm in order if place[nm] == "incl"]
    inlist = [nm for nm in order if place[nm] == "inlist"]
    deep9 = [nm for nm in order if place[nm] == "deep9"]          # inside nine nested dicts: key paths of exactly 10 entries
    ndeep = 8 if any(vars_[nm][0] == "lit" and isinstance(vars_[nm][1], list) for nm in deep9) else 9   # a list item adds one entry
    if any(vars_[nm][0] == "mat" for nm in deep9):
        ndeep = 6                                                                                        # nested list items add up to three
    lkind = rng.choice(["direct", "deep"])          # the dict is an item of a list / of a list inside a list
    files = {}
    inc_name = "inc.json" if incl_syntax == "json" else "inc"
    if incl_syntax == "json":
        files[inc_name] = _json.dumps({nm: json_value(vars_[nm]) for nm in inc}, indent=1)
    else:
        files[inc_name] = "".join(f"{nm} {spell(vars_[nm])};\n" for nm in inc)
    if syntax == "json":
        d = {}
        if inc:
            d["#include"] = inc_name
        for nm in top:
            d[nm] = json_value(vars_[nm])
        if nested:
            d["sub"] = {"deeper": {nm: json_value(vars_[nm]) for nm in nested}}
        if inlist:
            inner = {nm: json_value(vars_[nm]) for nm in inlist}
            d["table"] = [7, inner, 8] if lkind == "direct" else [[1, inner], [2, 3]]
        if deep9:
            dd: dict = {nm: json_value(vars_[nm]) for nm in deep9}
            for lvl in range(ndeep, 0, -1):
                dd = {f"L{lvl}": dd}
            d.update(dd)
        files["root.json"] = _json.dumps(d, indent=1)
        root = "root.json"
    else:
        lines = []
        if inc and rng.random() < 0.5:
            lines.append(f"#include '{inc_name}'\n")
        half = len(top) // 2
        for nm in top[:half]:
            lines.append(f"{nm} {spell(vars_[nm])};\n")
        if nested:
            lines.append("sub\n{\n  deeper\n  {\n" + "".join(f"    {nm} {spell(vars_[nm])};\n" for nm in nested) + "  }\n}\n")
        if deep9:
            lines.append("".join(f"L{lvl} {{ " for lvl in range(1, ndeep + 1)) + " ".join(f"{nm} {spell(vars_[nm])};" for nm in deep9) + " }" * ndeep + "\n")
        if inlist:
            inner = "{ " + " ".join(f"{nm} {spell(vars_[nm])};" for nm in inlist) + " }"
            lines.append(f"table ( 7 {inner} 8 );\n" if lkind == "direct" else f"table ( ( 1 {inner} ) ( 2 3 ) );\n")
        if inc and not any(l.startswith("#include") for l in lines):
            lines.append(f"#include '{inc_name}'\n")
        for nm in top[half:]:
            lines.append(f"{nm} {spell(vars_[nm])};\n")
        files["root"] = "".join(lines)
        root = "root"
    if not inc:
        files.pop(inc_name, None) if False else None
    return files, root, place


def flatten(d, out=None):
    out = {} if out is None else out
    def walk_list(xs):
        for x in xs:
            if isinstance(x, dict):
                flatten(x, out)
            elif isinstance(x, list):
                walk_list(x)
    for k, v in d.items():
        if isinstance(v, dict):
            flatten(v, out)
        elif isinstance(v, list) and k == "table":
            walk_list(v)
        else:
            out[k] = v
    return out


def _process_freename(ctx: Ctx, c: dict) -> None:
    """an expression that mentions a name which is not a variable of the dict: the name is not resolvable, so the result may
    not depend on what the reader's own code happens to call its variables, nor on the state of the process"""
    from dictIO import DictReader
    ctx.case(c, True, ("freename",))
    outs = []
    for nm in (c["name"], "qqq_neutral"):
        for start in (None, 41, 7):
            try:
                with impl.scratch() as td:
                    (td / "f").write_text(f'x 3;\ny "$x + {nm}";\n')
                    reset_globals(start)
                    outs.append(impl.plain(DictReader.read(td / "f")).get("y"))
            except Exception as e:  # noqa: BLE001
                ctx.violation("DictReader.read raises", c, repr(e), "result"); return
    want = [o.replace("qqq_neutral", c["name"]) if isinstance(o, str) else o for o in outs[3:]]
    if not (same(outs[0], outs[1]) and same(outs[0], outs[2])):
        ctx.violation("the value of an expression with a free name depends on the state of the placeholder counter", c, enc(outs[:3]), "one value")
    elif not same(outs[:3], want):
        ctx.violation("a name that is no variable of the dict is resolved from the reader's own local variables", c, enc(outs[:3]), enc(want))


def process(ctx: Ctx, cases: list[dict]) -> None:
    from dictIO import DictReader
    for c in [c for c in cases if c.get("kind") == "freename"]:
        _process_freename(ctx, c)
    cases = [c for c in cases if c.get("kind") != "freename"]
    reqs = []
    for c in cases:
        fs = []
        for nm, text in c["files"].items():
            comps = ["R"] + nm.split("/")
            fs.append([comps, {"json": enc_entries(_json.loads(text))} if nm.endswith(".json") else {"native": text}])
        reqs.append({"op": "read", "fs": fs, "path": ["R", c["root"]], "start": -1})
    replies = [None] * len(cases) if ctx.oracle_only else ctx.driver(reqs)
    sreqs = [dict(r, scope=[{"s": "sub"}, {"s": "deeper"}]) for r, c in zip(reqs, cases) if "nested" in c.get("place", {}).values()]
    sreplies = iter([] if ctx.oracle_only else ctx.driver(sreqs))
    for c, m in zip(cases, replies):
        vars_ = {k: tuple(v) for k, v in c["vars"].items()}
        nested = [nm for nm in vars_ if c.get("place", {}).get(nm) == "nested"]
        sm = next(sreplies, None) if nested else None          # consumed here: stays aligned whatever happens below
        exp = evaluate(vars_)
        chained = any(vars_[n][0] in ("ref", "idx", "expr") and exp[n] is not None for n in vars_)
        ctx.case({"files": c["files"]}, chained, tuple(sorted({v[0] for v in vars_.values()})) + (("json",) if c["root"].endswith(".json") else ()))
        try:
            with impl.scratch() as td:
                for nm, text in c["files"].items():
                    (td / nm).write_text(text)
                reset_globals()
                sd = DictReader.read(td / c["root"])
                isd = c01.sd_json(sd)
                tdname = str(td)
        except RecursionError as e:
            ctx.violation("reading does not terminate normally (RecursionError)", c, repr(e), "result"); continue
        except Exception as e:  # noqa: BLE001
            ctx.violation("DictReader.read raises", c, repr(e), "result"); continue
        got = flatten(spec.strip_placeholders(impl.plain(sd)))
        if any(isinstance(v, str) and "EXPRESSION" in v for v in got.values()):
            ctx.violation("an EXPRESSION placeholder remains in the result", c, enc(got), "none")
        for nm, sp in vars_.items():
            if nm not in got:
                ctx.violation("a declared key is missing from the result", c, list(got), nm); break
            e = exp[nm]
            g = got[nm]
            if e is not None:
                ev = spec.norm_leaf(e[1]) if not isinstance(e[1], list) else e[1]
                if sp[0] == "lit" and isinstance(sp[1], str):
                    ev = sp[1]
                if not same(g, ev):
                    ctx.violation("a reference/expression does not hold the value a direct computation gives", c, {"key": nm, "got": enc(g)}, enc(ev),
                                  replay=c); break
            else:
                # unresolved: left as text; every reference that cannot be resolved is still spelled out
                if not isinstance(g, str):
                    ctx.violation("an unresolvable reference was replaced by a value", c, {"key": nm, "got": enc(g)}, "text"); break
                refs = [sp[1]] if sp[0] in ("ref", "idx") else sp[2]
                unresolved = [r for r in refs if exp.get(r) is None]
                if not all(f"${r}" in g for r in unresolved):
                    ctx.violation("an unresolvable reference is not left as its original text", c, {"key": nm, "got": g}, [f"${r}" for r in unresolved]); break
        if nested:
            # the same file read with scope=[sub, deeper]: the entries inside the scope hold the same values
            # (references from inside the scope to keys outside it included)
            try:
                with impl.scratch() as td:
                    for nm, text in c["files"].items():
                        (td / nm).write_text(text)
                    reset_globals()
                    scoped = spec.strip_placeholders(impl.plain(DictReader.read(td / c["root"], scope=["sub", "deeper"])))
            except Exception as e:  # noqa: BLE001
                ctx.violation("DictReader.read(scope=...) raises", c, repr(e), "result"); continue
            ctx.tag("scoped-read")
            if isinstance(sm, dict) and "sd" in sm:
                md = spec.strip_placeholders(dec({"d": canon_floats(sm["sd"])["data"]}))
                if not same(md, scoped) or list(md) != list(scoped):
                    ctx.disagree("DictReader.read(scope=[sub, deeper])", {"files": c["files"], "root": c["root"]}, enc(md), enc(scoped))
            for nm in nested:
                if nm not in scoped or not same(scoped[nm], got.get(nm)):
                    ctx.violation("read(scope=...) gives an entry a different value than the unscoped read", c,
                                  {"key": nm, "scoped": enc(scoped.get(nm)), "unscoped": enc(got.get(nm))}, "equal", replay=c); break
        if m is not None:
            if isinstance(m, dict) and "sd" in m:
                msd = canon_floats(m["sd"])
                ii = _json.loads(_json.dumps(isd))
                for e in ii["incl"]:
                    e[1][2] = e[1][2].replace(tdname, "/R")
                if msd != ii:
                    ctx.disagree("DictReader.read (expressions)", {"files": c["files"], "root": c["root"]}, msd, ii)
            else:
                ctx.unsupported += 1


def well_typed(vars_) -> bool:
    """arithmetic expressions only over references that resolve to ints (or do not resolve at all)"""
    exp = evaluate({k: tuple(v) for k, v in vars_.items()})
    for nm, sp in vars_.items():
        if sp[0] == "expr":
            for rf in sp[2]:
                r = exp.get(rf)
                if r is not None and not isinstance(r[1], int):
                    return False
    return True


def mk_case(rng, vars_):
    files, root, place = render(rng, vars_)
    return {"kind": "graph", "vars": {k: list(v) for k, v in vars_.items()}, "files": files, "root": root, "place": place}


def run(ctx: Ctx) -> None:
    rng = ctx.rng
    cases = []
    for e in getattr(ctx, "fixed_witnesses", []):
        cases.append(e["witness"]); ctx.corpus_cases += 1
    # names the reader's own code uses for its local variables (taken from the tree under test), as free names in expressions
    try:
        from dictIO import DictReader as _DR
        local_names = sorted(set(_DR._eval_expressions.__code__.co_varnames) | set(_DR._resolve_reference.__code__.co_varnames) | set(_DR.read.__code__.co_varnames))
    except Exception:  # noqa: BLE001
        local_names = ["key", "item", "expression", "variables"]
    try:
        import sys as _sys
        intended = set(vars(_sys.modules[_DR.__module__]))      # math / numpy names the reader makes available on purpose (e, pi, sqrt, ...)
    except Exception:  # noqa: BLE001
        intended = {"e", "pi"}
    for nm in local_names + ["undefined_name"]:
        if nm.isidentifier() and not nm.startswith("__") and nm not in intended:
            cases.append({"kind": "freename", "name": nm})
    corpus = [{"a": ("lit", 1), "ab": ("lit", 20), "c": ("expr", "$a + $ab", ["a", "ab"])},
              {"x": ("lit", 1), "x1": ("lit", 5), "y": ("expr", "$x + $x1", ["x", "x1"])},
              {"a": ("ref", "b"), "b": ("ref", "a"), "k": ("lit", 1)},
              {"a": ("ref", "a")},
              {"s": ("lit", "x\\1y"), "t": ("ref", "s")}, {"s": ("lit", "e"), "t": ("ref", "s")}, {"s": ("lit", "1+1"), "t": ("ref", "s")},
              {"l": ("lit", [4, 5, 6]), "i": ("idx", "l", 1), "j": ("expr", "$i * 2", ["i"])},
              {"a": ("lit", 2), "b": ("ref", "a"), "c": ("ref", "b"), "d": ("expr", "$c * $c - $a", ["c", "c", "a"])},
              {"p": ("ref", "nope"), "q": ("expr", "$p + 1", ["p"])},
              {"l": ("lit", [1, 2, 3]), "m": ("ref", "l"), "n": ("ref", "m"), "d": ("idx", "n", 1), "e": ("idx", "m", 2)},
              {"a": ("lit", -3), "b": ("expr", "$a**2", ["a"]), "c": ("expr", "2 - $a", ["a"]), "d": ("expr", "-$a", ["a"])}]
    corpus.append({"z": ("lit", 0), "d": ("expr", "1 / $z", ["z"]), "e": ("expr", "$z + 1", ["z"]), "f": ("expr", "7 % $z", ["z"])})
    # long dependency chains: every link needs the previous one (one pass of the evaluator per link)
    for n in (30, 101, 130):
        chain = {"t000": ("lit", 1), "dt": ("lit", 2)}
        for i in range(1, n):
            chain[f"t{i:03d}"] = ("expr", f"$t{i - 1:03d} + $dt", [f"t{i - 1:03d}", "dt"])
        corpus.append(chain)
    for v in corpus:
        for _ in range(3):
            cases.append(mk_case(rng, v)); ctx.corpus_cases += 1
    for _ in range(ctx.n(350, 7000)):
        v = gen_graph(rng)
        if not well_typed(v):
            continue
        for _ in range(3):
            cases.append(mk_case(rng, v))
    process(ctx, cases)


def replay(ctx: Ctx, case: dict) -> None:
    process(ctx, [case])


def _d13(v: dict) -> bool:
    """a referenced variable whose value is None (`n NULL; m $n;`)"""
    vars_ = v["input"].get("vars", {})
    return any(sp[0] == "lit" and sp[1] is None for sp in vars_.values())


def _w13() -> bool:
    from dictIO import DictReader
    with impl.scratch() as td:
        (td / "f").write_text("n NULL; m $n;\n")
        return DictReader.read(td / "f")["m"] == "$n"


def _d38(v: dict) -> bool:
    """`**` applied to a reference: the value is substituted as text, so a negative value loses to the operator's precedence"""
    vars_ = v["input"].get("vars", {})
    return any(sp[0] == "expr" and re.search(r"\$\w+\s*\*\*", sp[1]) for sp in vars_.values())


def _w38() -> bool:
    from dictIO import DictReader
    with impl.scratch() as td:
        (td / "f").write_text('a -3; b "$a**2";\n')
        return DictReader.read(td / "f")["b"] == -9


def _d46(v: dict) -> bool:
    """an expression text whose first non-blank character is `;`"""
    return any(re.search(r'"\s*;[^"\n]*\$', t) for t in v["input"].get("files", {}).values())


def _w46() -> bool:
    from dictIO import DictReader
    with impl.scratch() as td:
        (td / "f").write_text('c 5; y 1; z 2; a "; b $c; d "; x "$y"; b $c; d "$z";\n')
        r = DictReader.read(td / "f")
        return r.get("x") != 1 or "b" not in r


KNOWN_CLASSES = {"none_valued_reference": _d13, "power_of_negative_reference": _d38, "expression_text_starting_with_semicolon": _d46}
WITNESSES = {"D13": _w13, "D38": _w38, "D46": _w46}
