"""C09 -- JSON files round-trip, and mean the same as the equivalent native file."""
from __future__ import annotations

import copy
import json as _json

import gen
import impl
import spec
from common import Ctx, canon_floats, dec, enc, enc_entries, same, reset_globals
from props import c01, c05, c06

ID = "C09"
RULE = ("JSON-representable dicts (string keys, nesting, lists, every string class of C01 plus multi-line strings) through "
        "JsonFormatter+JsonParser and DictWriter+DictReader on .json files; model documents (content + expression graph + include "
        "graph) rendered once in native and once in JSON syntax, also mixed across the include graph; compared: model parseJson vs "
        "JsonParser.parse_string (data, tables, counter) and model readFile vs DictReader.read; oracle: exact round trip with string "
        "leaves staying strings, file route = norm(d), native and JSON renderings read to equal data; non-trivial = nested or "
        "has a string leaf spelling a number/bool")
ASSUMPTIONS = ["json.loads/json.dumps (JSON text <-> value) are trusted and sampled, not modelled"]


def gen_jdict(rng, depth=3):
    def keyf(r):
        return gen.word(r) if r.random() < 0.9 else r.choice(["with space", "a.b", "1", "true", "é", "k:1"])

    def leaf(r):
        x = gen.scalar(r)
        if isinstance(x, str) and ("$" in x):
            return "w"
        if isinstance(x, float) and (x != x or abs(x) == float("inf")):
            return 1.5
        if isinstance(x, int) and not isinstance(x, bool) and abs(x) > 2**62:
            return 7
        if r.random() < 0.05:
            return "line1\nline2"
        return x
    return gen.tree_dict(rng, depth, 4, leaf=leaf, key_fn=keyf, p_dict=0.3, p_list=0.2)


def process(ctx: Ctx, cases: list[dict]) -> None:
    from dictIO import DictReader, DictWriter, JsonFormatter, JsonParser, SDict
    from dictIO.utils.counter import BorgCounter
    reqs, idx = [], []
    for i, c in enumerate(cases):
        if c["kind"] == "jdict":
            reqs.append({"op": "read", "fs": [[["R", "f.json"], {"json": c["d"]["d"]}]], "path": ["R", "f.json"], "start": -1}); idx.append(i)
    replies = {}
    if not ctx.oracle_only:
        for i, r in zip(idx, ctx.driver(reqs)):
            replies[i] = r
    for i, c in enumerate(cases):
        if c["kind"] == "jdict":
            d = dec(c["d"])
            nontrivial = any(isinstance(v, (dict, list)) for v in d.values()) or any(isinstance(v, str) and not isinstance(spec.classify(v), str) for v in d.values())
            ctx.case(c, nontrivial, ("jdict",))
            try:
                text = JsonFormatter().to_string(copy.deepcopy(d))
                reset_globals()
                back = impl.plain(JsonParser().parse_string(text, SDict()))
            except Exception as e:  # noqa: BLE001
                ctx.violation("JSON string route raises", c, repr(e), c["d"]); continue
            if not same(back, d):
                ctx.violation("JSON serialise + parse does not return the dict unchanged", c, enc(back), c["d"])
            if not c01.has_overflow_string(d):
                try:
                    with impl.scratch() as td:
                        reset_globals()
                        DictWriter.write(copy.deepcopy(d), td / "x.json", mode="w")
                        r = impl.plain(DictReader.read(td / "x.json"))
                except Exception as e:  # noqa: BLE001
                    ctx.violation("JSON file route raises", c, repr(e), c["d"]); continue
                if not same(r, spec.norm(d)):
                    ctx.violation("JSON file route: more than the documented normalisation changed", c, enc(r), enc(spec.norm(d)))
            m = replies.get(i)
            if m is not None:
                try:
                    with impl.scratch() as td:
                        (td / "f.json").write_text(_json.dumps(d))
                        reset_globals()
                        sd = DictReader.read(td / "f.json")
                        ip = {"sd": c01.sd_json(sd), "counter": BorgCounter.Borg["theCount"]}
                except Exception as e:  # noqa: BLE001
                    ip = "raises:" + type(e).__name__
                if isinstance(m, dict) and "sd" in m:
                    if canon_floats(m) != ip:
                        ctx.disagree("DictReader.read(json)", c, m, ip)
                else:
                    ctx.unsupported += 1
        elif c["kind"] == "equiv":
            ctx.case({"native": c["native"], "json": c["json"]}, True, ("equiv",))
            res = []
            try:
                for files, root in ((c["native"], c["nroot"]), (c["json"], c["jroot"])):
                    with impl.scratch() as td:
                        for nm, text in files.items():
                            p = td / nm
                            p.parent.mkdir(parents=True, exist_ok=True)
                            p.write_text(text.replace(c06.ABS, str(td)))
                        reset_globals()
                        res.append(spec.strip_placeholders(impl.plain(DictReader.read(td / root))))
            except Exception as e:  # noqa: BLE001
                ctx.violation("reading a native/JSON rendering raises", c, repr(e), "equal data"); continue
            if spec.unordered(res[0]) != spec.unordered(res[1]):
                ctx.violation("native and JSON renderings of the same document read to different data", c, enc(res[1]), enc(res[0]))


def equiv_case(rng) -> dict | None:
    """the same variable graph / include structure rendered in native and in JSON syntax (and mixed)"""
    v = c05.gen_graph(rng)
    if not c05.well_typed(v):
        return None
    ev = c05.evaluate(v)
    if any(sp[0] == "ref" and len(sp) > 2 and ev.get(nm) is None for nm, sp in v.items()) and rng.random() > 0.03:
        return None          # known-finding class D45 (unresolvable blank-padded reference): kept out of the compared stream
    # strings with quotes cannot be spelled identically in both syntaxes without caring about quoting: keep them simple
    order = list(v)
    rng.shuffle(order)
    place = {nm: rng.choice(["top", "nested", "incl"]) for nm in order}
    top = [n for n in order if place[n] == "top"]; nested = [n for n in order if place[n] == "nested"]; inc = [n for n in order if place[n] == "incl"]

    def native_file(names, include=None, nest=None):
        lines = []
        if include:
            lines.append(f"#include '{include}'\n")
        for nm in names:
            lines.append(f"{nm} {c05.spell(v[nm])};\n")
        if nest:
            lines.append("sub\n{\n" + "".join(f"  {nm} {c05.spell(v[nm])};\n" for nm in nest) + "}\n")
        return "".join(lines)

    def json_file(names, include=None, nest=None):
        d = {}
        if include:
            d["#include"] = include
        for nm in names:
            d[nm] = c05.json_value(v[nm])
        if nest:
            d["sub"] = {nm: c05.json_value(v[nm]) for nm in nest}
        # other spellings of the same JSON document: everything non-ASCII escaped / kept, compact or indented, and the
        # characters `$`, `#` and `/` written as \uXXXX escapes (legal JSON; json.loads returns the same value)
        style = rng.random()
        if style < 0.7:
            return _json.dumps(d, indent=1)
        if style < 0.8:
            return _json.dumps(d, ensure_ascii=False, separators=(",", ":"))
        t = _json.dumps(d, indent=rng.choice([None, 2, 4]))
        return t.replace("$", "\\u0024") if style < 0.93 else t.replace("#", "\\u0023").replace("/", "\\/")
    mix = rng.choice(["nn_jj", "nj_jn"])
    # where the included file lives and how the directive spells it: same folder, sub folder, by absolute path, or a name that
    # contains a backslash (a literal character of a POSIX file name, not a separator: no such file exists, nothing is merged)
    spelling = rng.choice(["plain", "plain", "sub", "abs", "abs_sub", "backslash"])
    if spelling == "backslash" and any(sp[0] == "ref" and len(sp) > 2 for sp in v.values()) and rng.random() > 0.03:
        spelling = "plain"       # the include is not found with this spelling: padded references stay unresolved (class D45)
    folder = "sub/" if spelling in ("sub", "abs_sub", "backslash") else ""

    def name(base):
        if spelling in ("abs", "abs_sub"):
            return c06.ABS + "/" + folder + base
        if spelling == "backslash":
            return "sub\\" + base
        return folder + base
    if mix == "nn_jj":
        native = {"root": native_file(top, name("inc") if inc else None, nested), folder + "inc": native_file(inc)}
        js = {"root.json": json_file(top, name("inc.json") if inc else None, nested), folder + "inc.json": json_file(inc)}
    else:
        native = {"root": native_file(top, name("inc.json") if inc else None, nested), folder + "inc.json": json_file(inc)}
        js = {"root.json": json_file(top, name("inc") if inc else None, nested), folder + "inc": native_file(inc)}
    return {"kind": "equiv", "native": native, "nroot": "root", "json": js, "jroot": "root.json"}


def run(ctx: Ctx) -> None:
    rng = ctx.rng
    cases = []
    for e in getattr(ctx, "fixed_witnesses", []):
        cases.append(e["witness"]); ctx.corpus_cases += 1
    for d in [{"k": 'x "b"'}, {"k": "'"}, {"k": "1"}, {"k": "true"}, {"k": ""}, {"a": {"b": [1, "2", {"c": None}]}}, {"k": "it's"}, {"#notinclude": 1}]:
        cases.append({"kind": "jdict", "d": enc(d)}); ctx.corpus_cases += 1
    for _ in range(ctx.n(15, 300)):
        d = gen.size_dict(rng)
        if not any(isinstance(v, int) and not isinstance(v, bool) and abs(v) > 2**62 for v in d.values()):
            cases.append({"kind": "jdict", "d": enc(d)})
    for _ in range(ctx.n(800, 16000)):
        cases.append({"kind": "jdict", "d": enc(gen_jdict(rng, rng.choice([1, 2, 3, 4])))})
    for _ in range(ctx.n(300, 6000)):
        c = equiv_case(rng)
        if c:
            cases.append(c)
    process(ctx, cases)


def replay(ctx: Ctx, case: dict) -> None:
    process(ctx, [case])


def _d45(v: dict) -> bool:
    """the two readings differ ONLY in blanks in front of an unresolved reference (`' $v'` against `'$v'`), in a document
    that has a reference with blanks inside the quotes"""
    c = v["input"]
    if c.get("kind") != "equiv":
        return False

    def unpad(x):
        if isinstance(x, dict):
            return {k: unpad(y) for k, y in x.items()}
        if isinstance(x, list):
            return [unpad(y) for y in x]
        if isinstance(x, str) and x.lstrip().startswith("$"):
            return x.lstrip()
        return x
    try:
        if spec.unordered(unpad(dec(v["observed"]))) != spec.unordered(unpad(dec(v["expected"]))):
            return False
    except Exception:  # noqa: BLE001
        return False
    import re

    def leaves(x):
        if isinstance(x, dict):
            for y in x.values():
                yield from leaves(y)
        elif isinstance(x, list):
            for y in x:
                yield from leaves(y)
        elif isinstance(x, str):
            yield x
    for files in (c["native"], c["json"]):
        for nm, t in files.items():
            if nm.endswith(".json"):
                try:
                    if any(re.match(r"\s+\$\w", s) for s in leaves(_json.loads(t))):
                        return True
                except Exception:  # noqa: BLE001
                    pass
            elif re.search(r'"[ \t]+\$\w', t):
                return True
    return False


def _w45() -> bool:
    from dictIO import DictReader
    with impl.scratch() as td:
        (td / "n").write_text('v " $v";\n')
        (td / "j.json").write_text('{"v": " $v"}')
        return DictReader.read(td / "n")["v"] != DictReader.read(td / "j.json")["v"]


KNOWN_CLASSES = {"overflow_number_string": c01._d2_class, "unresolved_padded_reference": _d45}
def _d50(v: dict) -> bool:
    """an include entry inside a nested dict of a JSON source"""
    return False          # the generators place include entries at the top level only; the witness below is replayed on every run


def _w50() -> bool:
    from dictIO import DictReader
    with impl.scratch() as td:
        (td / "c").write_text("z 9;\n")
        (td / "n").write_text("k 5;\nsub\n{\n    #include 'c'\n    x 7;\n}\n")
        (td / "j.json").write_text('{"k": 5, "sub": {"#include": "c", "x": 7}}')
        a = impl.plain(DictReader.read(td / "n")); b = impl.plain(DictReader.read(td / "j.json"))
        return ("z" in a) != ("z" in b)


KNOWN_CLASSES["nested_json_include"] = _d50
WITNESSES: dict = {"D45": _w45, "D50": _w50}
