"""C03 -- parsed output is a fixed point: re-reading a written file changes nothing."""
from __future__ import annotations

import re

import gen
import impl
import spec
from common import Ctx, canon_floats, dec, enc, same, reset_globals
from props import c01, c02, c12

ID = "C03"
RULE = ("well-formed native sources with comments, flat and nested (transitive) include graphs, resolvable and dangling "
        "$-references and expressions; n = 1..4 read->write cycles in the source's directory, and DictParser.parse followed by "
        "reading parsed.<name>; oracle: data after every cycle equals data of the first read (comment/include texts included, "
        "placeholder ids canonicalised), bytes equal from cycle 2 on when there is no transitive include; compared: model "
        "parseNative/fmtSD reproduce the bytes of cycle 1 and 2 for include- and expression-free sources; "
        "non-trivial = source with an include, an expression or a comment")
ASSUMPTIONS = c12.ASSUMPTIONS


def _header():
    from dictIO import NativeFormatter
    return NativeFormatter().make_default_block_comment()


HEADER = _header()
HEADER_FIRST_LINE = HEADER.split("\n")[0]


def canon_data(sd):
    """data as the property sees it: the non-placeholder entries in order, and per dict level the line comment texts
    in order, the block comment texts and the include names (as sets: the writer hoists them to the top of a level);
    placeholder ids do not appear"""
    def walk(d, top):
        data, lc, bc, inc = [], [], [], []
        for k, v in d.items():
            if isinstance(k, str) and re.fullmatch(r"LINECOMMENT\d{6}", k):
                lc.append(sd.line_comments.get(int(k[-6:])))
            elif isinstance(k, str) and re.fullmatch(r"BLOCKCOMMENT\d{6}", k):
                t = sd.block_comments.get(int(k[-6:]))
                if top and isinstance(t, str) and t.startswith(HEADER_FIRST_LINE):
                    t = t[len(HEADER.rstrip()):] if t.startswith(HEADER.rstrip()) else t     # the default header the writer adds
                    if not t.strip():
                        continue
                bc.append(t)
            elif isinstance(k, str) and re.fullmatch(r"INCLUDE\d{6}", k):
                e = sd.includes.get(int(k[-6:]))
                inc.append(e[1] if e else None)
            elif isinstance(v, dict):
                data.append([repr(k), walk(v, False)])
            else:
                data.append([repr(k), enc(impl.plain(v))])
        return {"data": data, "//": lc, "/*": sorted(map(str, bc)), "#include": sorted(set(map(str, inc)))}
    return walk(sd, True)


def strip_comment_ws(c):
    """comment texts lose trailing blanks per line when written (remove_trailing_spaces): compare modulo that"""
    def norm(t):
        t = str(t).replace("\r\n", "\n").replace("\r", "\n")
        return "\n".join(l.rstrip() for l in t.split("\n"))

    def f(x):
        if isinstance(x, dict) and "//" in x:
            lc = [norm(t) for t in x["//"]]
            lc = [t for i, t in enumerate(lc) if t not in lc[:i]]      # comments that differ only in trailing blanks are identical once written
            return {"data": [[k, f(v)] for k, v in x["data"]], "//": lc, "/*": sorted(norm(t) for t in x["/*"]),
                    "#include": x["#include"]}
        return x
    return f(c)


def _has_overflow(items) -> bool:
    for it in items:
        if it["i"] == "kv" and c01.has_overflow_string(c02.den_lit(it["v"]) if it["v"]["t"] == "bare" else it["v"]["body"]):
            return True
        if it["i"] == "sub" and _has_overflow(it["items"]):
            return True
        if it["i"] == "lst" and c01.has_overflow_string([c02.den_elem(x) for x in it["xs"]] + [x["lit"].get("body", "") for x in it["xs"] if x["e"] == "lit"]):
            return True
    return False


def gen_source(rng):
    """returns files {relpath: text}, root name, flags"""
    for _ in range(50):
        items = c12.gen_items(rng, rng.choice([0, 1, 2]))
        known = c12.first_block_nested(items) or c12._d32({"input": {"items": items}}) or _has_overflow(items) or blank_twins(items)
        # inputs of the known-finding classes D28 / D32 / D2 are kept out of the compared stream (a few go through
        # to confirm that the class still fails)
        if not known or rng.random() < 0.03:
            break
    # the include targets of c12's items are generated here with real content
    files = {}
    transitive = False
    for it in items:
        if it["i"] == "incl" and it["name"] not in ("missing", "../up") and "\\" not in it["name"]:
            body = [{"i": "kv", "k": "inc_" + gen.word(rng, 4), "v": c02.gen_lit(rng)}]
            if rng.random() < 0.3:
                body.append({"i": "lineC", "text": "// from include"})
            text = c12.render(rng, body)
            if rng.random() < 0.3:
                text = "#include 'deeper'\n" + text
                files[str(impl_path_join(it["name"], "deeper"))] = "deep_k 1;\n"
                transitive = True
            files[it["name"]] = text
    if _files_overflow(files) and rng.random() > 0.03:
        return gen_source(rng)          # known-finding class D2 inside an include file: kept out of the compared stream
    exprs = []
    r = rng.random()
    if r < 0.03:
        n = rng.choice([40, 101, 125])          # a long chain of expressions, each depending on the previous one
        exprs = ["t000 1;", "dt 2;"] + [f't{i:03d} "$t{i - 1:03d} + $dt";' for i in range(1, n)]
    elif r < 0.5:
        exprs = rng.sample(["va 3;", "vb $va;", "vc \"$va + 4\";", "vd $missing;", "ve \"$vb * 2 + $va\";", "vf ( 1 2 3 );", "vg $vf[1];",
                            "vs 'text';", "vt $vs;", "vu \"$nope + 1\";", "vz \"2 * $va\";",
                            # results of the functions the reader makes available in expressions (numpy scalars, arrays, floats)
                            "vm \"mean($vf)\";", "vsd \"std($vf)\";", "vq \"sqrt($va)\";", "vp \"$va * pi\";", "vo \"ones(2) * $va\";",
                            "vw \"sum($vf) + len($vf)\";", "vr \"round($va / 7, 3)\";", "vh \"$va / 2\";", "vmx \"max($vf) - min($vf)\";",
                            # expressions whose evaluation fails (division by zero, wrong operand types, domain errors)
                            "vzero 0;", "vdz \"1 / $vzero\";", "vty \"$vf / 2\";", "vdom \"sqrt(-$va - 1)\";"], rng.randint(1, 8))
    if rng.random() < 0.15:
        # long keys: key length + indentation around the writer's value column (29, 30, 31 characters), levels 0..3
        lvl = rng.randint(0, 3)
        inner = [{"i": "kv", "k": "k" * (n - 4 * lvl), "v": {"t": "bare", "w": str(n)}} for n in rng.sample([27, 28, 29, 30, 31, 32, 40], 3)]
        for j in range(lvl, 0, -1):
            inner = [{"i": "sub", "k": f"lv{j}", "items": inner}]
        items = items + inner
    text = c12.render(rng, items)
    if exprs:
        text += ("\n" if not text.endswith("\n") else "") + "\n".join(exprs) + "\n"
    return {"kind": "src", "text": text, "items": items, "files": files, "transitive": transitive, "has_expr": bool(exprs),
            "has_incl": any(it["i"] == "incl" for it in items)}


def impl_path_join(name, leaf):
    from pathlib import PurePosixPath
    return PurePosixPath(name).parent / leaf


def process(ctx: Ctx, cases: list[dict]) -> None:
    from dictIO import DictParser, DictReader, DictWriter
    model_cases = []
    for c in cases:
        nontrivial = c["has_expr"] or c["has_incl"] or any(it["i"] in ("lineC", "blockC") for it in c["items"])
        ctx.case({"text": c["text"], "files": c["files"]}, nontrivial,
                 tuple(t for t, f in (("incl", c["has_incl"]), ("expr", c["has_expr"]), ("transitive", c["transitive"])) if f))
        try:
            with impl.scratch() as td:
                for name, text in c["files"].items():
                    p = td / name
                    p.parent.mkdir(parents=True, exist_ok=True)
                    p.write_text(text)
                (td / "src").write_text(c["text"])
                reset_globals()
                sds = [DictReader.read(td / "src")]
                data = [strip_comment_ws(canon_data(sds[0]))]
                texts = []
                cur = td / "src"
                for n in range(1, 5):
                    nxt = td / f"cycle{n}"
                    DictWriter.write(sds[-1], nxt, mode="w")
                    texts.append(nxt.read_text())
                    sds.append(DictReader.read(nxt))
                    data.append(strip_comment_ws(canon_data(sds[-1])))
                # documented workflow: parse, then read parsed.<name>
                reset_globals()
                parsed = DictParser.parse(td / "src")
                pfile = td / "parsed.src"
                reread = DictReader.read(pfile) if pfile.exists() else None
        except Exception as e:  # noqa: BLE001
            ctx.violation("read/write cycle raises", c, repr(e), "no exception"); continue
        for n in range(1, 5):
            if data[n] != data[0]:
                ctx.violation(f"data after cycle {n} differs from the first read", c, data[n], data[0], replay={**c, "cycle": n}); break
        if not c["transitive"]:
            for n in range(1, 4):
                if texts[n] != texts[n - 1]:
                    ctx.violation(f"written text still changes at cycle {n + 1} (no transitive include)", c, texts[n], texts[n - 1]); break
        if reread is None:
            ctx.violation("DictParser.parse did not write parsed.<name>", c, None, "parsed.src")
        elif strip_comment_ws(canon_data(reread)) != strip_comment_ws(canon_data(parsed)):
            ctx.violation("reading parsed.<name> differs from what DictParser.parse returned", c, canon_data(reread), canon_data(parsed))
        if not c["has_incl"] and not c["has_expr"]:
            model_cases.append((c, texts))
    if ctx.oracle_only or not model_cases:
        return
    # model: parse(src) -> fmt -> must be the implementation's cycle-1 bytes; parse(that) -> fmt -> cycle-2 bytes
    r1 = ctx.driver([{"op": "parse_native", "text": c["text"], "start": -1, "dir": "/D"} for c, _ in model_cases])
    todo = [(i, m) for i, m in enumerate(r1) if isinstance(m, dict) and "sd" in m]
    ctx.unsupported += len(r1) - len(todo)
    f1 = ctx.driver([{"op": "fmt_sd", "fl": "native", "sd": canon_floats(m["sd"])} for _, m in todo])
    ok = []
    for (i, _), t in zip(todo, f1):
        c, texts = model_cases[i]
        if isinstance(t, dict):
            ctx.unsupported += 1
        elif t != texts[0]:
            ctx.disagree("bytes written in cycle 1 (model parse+format)", {"text": c["text"]}, t, texts[0])
        else:
            ok.append((i, t))
    r2 = ctx.driver([{"op": "parse_native", "text": t, "start": -1, "dir": "/D"} for _, t in ok])
    todo2 = [(i, m) for (i, _), m in zip(ok, r2) if isinstance(m, dict) and "sd" in m]
    f2 = ctx.driver([{"op": "fmt_sd", "fl": "native", "sd": canon_floats(m["sd"])} for _, m in todo2])
    for (i, _), t in zip(todo2, f2):
        c, texts = model_cases[i]
        if not isinstance(t, dict) and t != texts[1]:
            ctx.disagree("bytes written in cycle 2 (model parse+format)", {"text": texts[0]}, t, texts[1])


def run(ctx: Ctx) -> None:
    rng = ctx.rng
    cases = []
    for e in getattr(ctx, "fixed_witnesses", []):
        cases.append(e["witness"]); ctx.corpus_cases += 1
    # include chains of 3 ... 14 files, every file defining a key of its own, the root referring to the deepest one
    for n in (3, 9, 10, 11, 12, 14):
        files = {f"c{i}": (f"#include 'c{i + 1}'\n" if i < n else "") + f"k{i} {i};\n" for i in range(1, n + 1)}
        cases.append({"kind": "src", "text": f"#include 'c1'\nk0 0;\nspan \"1 + $k{n}\";\n", "items": [], "files": files, "transitive": True,
                      "has_expr": True, "has_incl": True})
    # a flat include that shares a nested dict path with the including file, with comments at different depths inside it
    for depth, where in ((2, "deep"), (3, "deep"), (3, "mid"), (2, "top")):
        path = ["mesh", "refinement", "region"][:depth]
        def block(names, leaf_lines):
            out = list(leaf_lines)
            for nm in reversed(names):
                out = [nm, "{"] + ["    " + l for l in out] + ["}"]
            return "\n".join(out) + "\n"
        inc_leaf = (["// from include"] if where == "deep" else []) + ["b 2;"]
        inc_text = block(path, inc_leaf)
        if where == "mid":
            inc_text = block(path[:1], ["// from include (mid)"] + block(path[1:], ["b 2;"]).splitlines())
        if where == "top":
            inc_text = "// from include (top)\n" + inc_text
        cases.append({"kind": "src", "text": "#include 'inc'\n" + block(path, ["a 1;"]), "items": [], "files": {"inc": inc_text}, "transitive": False,
                      "has_expr": False, "has_incl": True})
    for _ in range(ctx.n(250, 5000)):
        cases.append(gen_source(rng))
    process(ctx, cases)


def replay(ctx: Ctx, case: dict) -> None:
    case = {k: v for k, v in case.items() if k != "cycle"}
    process(ctx, [case])


def _d28(v: dict) -> bool:
    return c12.first_block_nested(v["input"].get("items", []))


def _d32(v: dict) -> bool:
    return c12._d32(v)


def _files_overflow(files: dict) -> bool:
    """an include file whose text carries an overflowing number spelling (quoted or bare)"""
    words = [w for t in files.values() for w in re.findall(r"[^\s'\";]+", t)]
    return c01.has_overflow_string(words)


def _d2(v: dict) -> bool:
    return _has_overflow(v["input"].get("items", [])) or _files_overflow(v["input"].get("files", {}))


def _w33() -> bool:
    from dictIO import DictReader, DictWriter
    with impl.scratch() as td:
        (td / "s").write_text("#include 'x'\n #include 'x'  \na 1;\n")
        (td / "x").write_text("b 2;\n")
        DictWriter.write(DictReader.read(td / "s"), td / "c1", mode="w")
        DictWriter.write(DictReader.read(td / "c1"), td / "c2", mode="w")
        return (td / "c1").read_text() != (td / "c2").read_text()


def blank_twins(items) -> bool:
    """two line comments at one dict level that differ only in trailing white space (known finding D41)"""
    lc = [it["text"] for it in items if it["i"] == "lineC"]
    st = [t.rstrip() for t in lc]
    if any(a != b and a.rstrip() == b.rstrip() for i, a in enumerate(lc) for b in lc[i + 1:]):
        return True
    return any(blank_twins(it["items"]) for it in items if it["i"] == "sub") or \
        any(blank_twins(d) for it in items if it["i"] == "lstd" for d in it["ds"])


def _d41(v: dict) -> bool:
    return blank_twins(v["input"].get("items", []))


def _w41() -> bool:
    from dictIO import DictReader, DictWriter
    with impl.scratch() as td:
        (td / "s").write_text("a 1;\n//\n// \nb 2;\n")
        DictWriter.write(DictReader.read(td / "s"), td / "w1", mode="w")
        DictWriter.write(DictReader.read(td / "w1"), td / "w2", mode="w")
        return (td / "w1").read_text() != (td / "w2").read_text()


def _d33(v: dict) -> bool:
    names = [it["name"] for it in v["input"].get("items", []) if it["i"] == "incl"]
    return len(names) != len(set(names))


def _d52(v: dict) -> bool:
    """a single-quoted string literal that contains a `$` (text that looks like a reference, kept as a string by the reader)"""
    t = v["input"].get("text", "") if isinstance(v.get("input"), dict) else ""
    return bool(re.search(r"'[^'\n]*\$[^'\n]*'", t))


def _w52() -> bool:
    from dictIO import DictReader, DictWriter
    with impl.scratch() as td:
        (td / "s").write_text("x 5;\nk '$x + 1';\n")
        a = DictReader.read(td / "s")
        DictWriter.write(a, td / "w", mode="w")
        return impl.plain(DictReader.read(td / "w")).get("k") != "$x + 1"


KNOWN_CLASSES = {"first_block_comment_nested": _d28, "same_block_comment_two_levels": _d32, "overflow_number_string": _d2,
                 "same_include_twice": _d33, "line_comments_differing_in_trailing_blanks": _d41, "single_quoted_dollar": _d52}
WITNESSES = {"D28": c12._w28, "D32": c12._w32, "D2": c01._w2, "D33": _w33, "D41": _w41, "D52": _w52}
