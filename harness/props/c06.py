"""C06 -- include merging is complete, ordered and anchored at the including file."""
from __future__ import annotations

import itertools
import re
import json as _json
from pathlib import PurePosixPath
import posixpath

import gen
import impl
import spec
from common import Ctx, canon_floats, dec, enc, enc_entries, same, reset_globals
from props import c01

ID = "C06"
RULE = ("include graphs over <= 8 files (quick: all graphs on <= 3 files exhaustively; thorough: <= 4) placed in nested / parent / "
        "sibling directories, with shared nodes (diamonds), cycles, self-includes, dangling edges, equal file names in different "
        "directories, absolute and relative include names, a directive as the last line without line ending, native and JSON "
        "syntax mixed, overlapping nested content (30% of the graphs with keys that are a dict in one file and a leaf in "
        "another), self-referring placeholder entries; compared: model readFile (parse + mergeIncludes) vs DictReader.read (data, "
        "tables, counter); oracle: result equals R(root), R(f) = body(f) (+) (R(i1) (+) R(i2) ...) over the live includes with "
        "cycle edges cut, (+) = first-wins merge (for kind-consistent content = the fold over the depth-first preorder); includes=False merges "
        "nothing and returns no include entry; non-trivial = graph with >= 2 reachable files")
ASSUMPTIONS = ["Path.resolve() on a scratch tree without symlinks = lexical normalisation",
               "JSON text <-> value is json.loads/json.dumps"]

DIRS = ["", "sub", "sub/deep", "other", "sub/x y"]
ABS = "@ABS@"          # stands for the absolute path of the scratch directory (the model's /R)
LEAFKEYS = ["a", "b", "c", "d", "e"]
DICTKEYS = ["n", "m"]


def gen_body(rng, tag: str, mixed: bool = False) -> dict:
    """bodies: LEAFKEYS are leaves, DICTKEYS dicts (one more level: p,q leaves, r dict); with `mixed` a key may be a dict in
    one file and a leaf in another ("arbitrary overlapping nested content")"""
    d = {}
    if mixed:
        for k in rng.sample(LEAFKEYS + DICTKEYS, rng.randint(1, 4)):
            d[k] = rng.choice([f"{tag}_{k}", rng.randint(0, 99), {"p": f"{tag}.{k}.p"}, {"q": f"{tag}.{k}.q", "r": {"z": tag}}, {"r": 5}, {}])
        d[f"only_{tag}"] = tag
        return d
    for k in rng.sample(LEAFKEYS, rng.randint(0, 4)):
        d[k] = rng.choice([f"{tag}_{k}", rng.randint(0, 99), f"{tag} {k}", True, None, 1.5])
    for k in rng.sample(DICTKEYS, rng.randint(0, 2)):
        sub = {}
        for kk in rng.sample(["p", "q"], rng.randint(0, 2)):
            sub[kk] = f"{tag}.{k}.{kk}"
        if rng.random() < 0.4:
            sub["r"] = {"z": f"{tag}.{k}.r.z"} if rng.random() < 0.7 else {}
        d[k] = sub
    d[f"only_{tag}"] = tag
    items = list(d.items())
    rng.shuffle(items)
    return dict(items)


def render_native(body: dict, includes: list[str], rng, selfref_keys=()) -> str:
    from dictIO import NativeFormatter
    lines = []
    items = list(body.items())
    incs = list(includes)
    # include directives interleaved with entries (top level)
    pos = sorted(rng.randint(0, len(items)) for _ in incs)
    out = []
    for i, (k, v) in enumerate(items + [(None, None)]):
        while pos and pos[0] == i:
            pos.pop(0)
            name = incs.pop(0)
            q = rng.choice(["'", '"', ""]) if " " not in name else rng.choice(["'", '"'])
            out.append(f"#include {q}{name}{q}\n")
        if k is None:
            break
        if k in selfref_keys:
            out.append(f"{k} ${k};\n")
        else:
            out.append(NativeFormatter().to_string({k: v}))
    text = "".join(out)
    if rng.random() < 0.25 and text.endswith("\n"):
        text = text[:-1]            # no line ending after the last line (which may be an include directive)
    return text


def render_json(body: dict, includes: list[str]) -> str:
    d = {}
    for i, name in enumerate(includes):
        d[f"#include{i}"] = name
    d.update(body)
    return _json.dumps(d, indent=2)


def gen_graph_case(rng, nfiles: int, edges=None, syntaxes=None) -> dict:
    mixed = rng.random() < 0.3
    names = []
    for i in range(nfiles):
        d = rng.choice(DIRS) if i else ""
        base = rng.choice(["f", "g", "same", f"file{i}"]) if i else "root"
        syn = (syntaxes[i] if syntaxes else ("json" if rng.random() < 0.25 else "native"))
        nm = posixpath.join(d, base + (".json" if syn == "json" else ""))
        while nm in names:
            base += "x"
            nm = posixpath.join(d, base + (".json" if syn == "json" else ""))
        names.append(nm)
    if edges is None:
        edges = []
        for i in range(nfiles):
            for j in rng.sample(range(nfiles), rng.randint(0, min(3, nfiles))):
                if rng.random() < 0.6:
                    edges.append((i, j))
            if rng.random() < 0.15:
                edges.append((i, -1))      # dangling
    files = {}
    bodies = {}
    for i, nm in enumerate(names):
        body = gen_body(rng, f"F{i}", mixed)
        incs = []
        for (a, b) in edges:
            if a == i:
                target = "missing_file" if b < 0 else names[b]
                rel = posixpath.relpath(posixpath.join("/R", target), posixpath.dirname(posixpath.join("/R", nm)))
                if rng.random() < 0.3 and not rel.startswith(".."):
                    rel = "./" + rel
                elif rng.random() < 0.15:
                    rel = ABS + "/" + target          # the same file named by its absolute path
                incs.append(rel)
        selfref = ()
        if not nm.endswith(".json") and incs and rng.random() < 0.2:
            # a placeholder entry the include is meant to fill: `k $k;`
            k = rng.choice(LEAFKEYS)
            body[k] = "<selfref>"
            selfref = (k,)
        bodies[nm] = {"body": body, "includes": incs, "selfref": list(selfref)}
        files[nm] = render_json({k: v for k, v in body.items()}, incs) if nm.endswith(".json") else render_native(body, incs, rng, selfref)
    return {"kind": "graph", "files": files, "bodies": bodies, "root": names[0]}


def reference(case: dict):
    """the including file wins over what it includes, an earlier include over a later one, recursively:
    R(f) = body(f) (+) (R(i1) (+) R(i2) (+) ...) over its live includes in order, (+) = first-wins merge; cycle edges cut.
    The grouping matters only when a key is a dict in one file and a leaf in another (first-wins merge is not associative
    across a change of kind, `mergeD_assoc_needs_kinds`); the property text does not fix it, the grouping here is the one
    under which both of its clauses hold literally (includes are ranked among themselves, then against the including file).
    (For kind-consistent content this equals the first-wins fold over the depth-first preorder of the closure; when a key
    is a dict in one file and a leaf in another only the hierarchical reading is what "the including file wins" says:
    `Props/C06fold.lean` proves both facts for the model.)"""
    bodies = case["bodies"]
    order = []

    def visit(nm, ancestors):
        order.append(nm)
        incs: dict = {}
        for inc in bodies[nm]["includes"]:
            target = posixpath.normpath(inc[len(ABS) + 1:] if inc.startswith(ABS + "/") else posixpath.join(posixpath.dirname(nm), inc))
            if target in ancestors or target not in bodies:
                continue
            incs = merge_fw_selfref(incs, visit(target, ancestors + [target]), top=True)     # an earlier include wins over a later one
        return merge_fw_selfref(dict(bodies[nm]["body"]), incs, top=True)                  # the including file wins over its includes
    return visit(case["root"], []), order      # the root itself is not on the chain (the implementation starts with an empty chain)


def merge_fw_selfref(a: dict, b: dict, top: bool) -> dict:
    """first-wins merge; at top level an existing self-referring placeholder entry counts as absent (keeps its position)"""
    out = dict(a)
    for k, v in b.items():
        if k in out and isinstance(out[k], dict) and isinstance(v, dict):
            out[k] = merge_fw_selfref(out[k], v, False)
        elif k not in out or (top and out[k] == "<selfref>"):
            out[k] = v
    return out


def _process_fixed(ctx: Ctx, c: dict) -> None:
    from dictIO import DictReader
    ctx.case(c, True, ("fixed",))
    try:
        with impl.scratch() as td:
            for nm, text in c["files"].items():
                (td / nm).parent.mkdir(parents=True, exist_ok=True)
                (td / nm).write_text(text)
            for nm, tgt in (c.get("links") or {}).items():
                import os
                (td / nm).parent.mkdir(parents=True, exist_ok=True)
                os.symlink(td / tgt, td / nm, target_is_directory=True)
            reset_globals()
            got = spec.strip_placeholders(impl.plain(DictReader.read(td / c["root"])))
    except Exception as e:  # noqa: BLE001
        ctx.violation("DictReader.read raises on an include graph", c, repr(e), c["expect"]); return
    got = {k: v for k, v in got.items() if not str(k).startswith("#include")}
    if spec.unordered(got) != spec.unordered(c["expect"]):
        ctx.violation("result is not the first-wins merge of the include closure (the including file wins; only an entry that "
                      "refers to its OWN key is a placeholder)", c, enc(got), enc(c["expect"]))


def process(ctx: Ctx, cases: list[dict]) -> None:
    from dictIO import DictReader
    fixed = [c for c in cases if c.get("kind") == "fixed"]
    cases = [c for c in cases if c.get("kind") != "fixed"]
    for c in fixed:
        _process_fixed(ctx, c)
    reqs = []
    for c in cases:
        fs = []
        for nm, text in c["files"].items():
            comps = ["R"] + nm.split("/")
            text = text.replace(ABS, "/R")
            if nm.endswith(".json"):
                fs.append([comps, {"json": enc_entries(_json.loads(text))}])
            else:
                fs.append([comps, {"native": text}])
        c["_fs"] = fs
        # the placeholder counter at the start of the read: fresh, or so close to its limit that the wrap-around falls
        # between the ids of two include directives / comments of one file (precedence must not depend on it)
        if "start" not in c:
            c["start"] = -1 if len(reqs) % 8 else 999999 - (len(reqs) // 8) % 7
        reqs.append({"op": "read", "fs": fs, "path": ["R"] + c["root"].split("/"), "start": c["start"]})
        reqs.append({"op": "read", "fs": fs, "path": ["R"] + c["root"].split("/"), "start": c["start"], "includes": False})
    replies = None if ctx.oracle_only else ctx.driver(reqs)
    for ci, c in enumerate(cases):
        exp, order = reference(c)
        ctx.case({"files": c["files"], "root": c["root"]}, len(order) >= 2,
                 (f"reach{min(len(order), 5)}",) + (("json",) if any(n.endswith(".json") for n in order) else ()))
        try:
            with impl.scratch() as td:
                for nm, text in c["files"].items():
                    p = td / nm
                    p.parent.mkdir(parents=True, exist_ok=True)
                    p.write_text(text.replace(ABS, str(td)))
                reset_globals(c["start"] if c.get("start", -1) >= 0 else None)
                sd = DictReader.read(td / c["root"])
                isd = c01.sd_json(sd)
                from dictIO.utils.counter import BorgCounter
                cnt = BorgCounter.Borg["theCount"]
                tdname = str(td)
                reset_globals(c["start"] if c.get("start", -1) >= 0 else None)
                sd_off = DictReader.read(td / c["root"], includes=False)
                isd_off = c01.sd_json(sd_off)
                # the same process reads the graph again after an included file was replaced by other content of the same
                # length with its time stamps restored (cp -p, rsync -t, unzip): the new content counts
                second = None
                if len(order) >= 2 and ci % 3 == 0:
                    import os
                    victim = order[1 + ci % (len(order) - 1)]
                    tag = "F" + str(list(c["files"]).index(victim))
                    text_v = c["files"][victim].replace(ABS, str(td))
                    if tag in text_v:
                        st = os.stat(td / victim)
                        (td / victim).write_text(text_v.replace(tag, "G" + tag[1:]))
                        os.utime(td / victim, ns=(st.st_atime_ns, st.st_mtime_ns))
                        reset_globals()
                        got2 = spec.strip_placeholders(impl.plain(DictReader.read(td / c["root"])))
                        c2 = _json.loads(_json.dumps({"bodies": c["bodies"], "root": c["root"]}))
                        c2["bodies"][victim] = _json.loads(_json.dumps(c["bodies"][victim]).replace(tag, "G" + tag[1:]))
                        second = (got2, reference(c2)[0], victim)
        except RecursionError as e:
            ctx.violation("reading does not terminate normally (RecursionError)", c, repr(e), "result"); continue
        except Exception as e:  # noqa: BLE001
            ctx.violation("DictReader.read raises on an include graph", c, repr(e), "result"); continue
        got = spec.strip_placeholders(impl.plain(sd))
        # self-referring placeholders that nothing filled stay as their text
        got_cmp = {k: ("<selfref>" if isinstance(v, str) and v == f"${k}" else v) for k, v in got.items()}
        if spec.unordered(got_cmp) != spec.unordered(spec.norm(exp)):
            ctx.violation("result is not the first-wins merge of the include closure", {"files": c["files"], "root": c["root"]}, enc(got_cmp), enc(spec.norm(exp)),
                          replay={k: v for k, v in c.items() if not k.startswith("_")})
        elif [k for k in got_cmp] != [k for k in spec.norm(exp)]:
            ctx.violation("key order is not 'including file first, then includes in order'", {"files": c["files"], "root": c["root"]}, list(got_cmp), list(exp),
                          replay={k: v for k, v in c.items() if not k.startswith("_")})
        if second is not None:
            got2, exp2, victim = second
            g2 = {k: ("<selfref>" if isinstance(v, str) and v == f"${k}" else v) for k, v in got2.items()}
            if spec.unordered(g2) != spec.unordered(spec.norm(exp2)):
                ctx.violation("a second read in the same process does not see the new content of an included file (same size, same time stamps)",
                              {"files": c["files"], "root": c["root"], "replaced": victim}, enc(g2), enc(spec.norm(exp2)))
        off = impl.plain(sd_off)
        root_body = {k: (f"${k}" if v == "<selfref>" else v) for k, v in c["bodies"][c["root"]]["body"].items()}
        if any(isinstance(k, str) and "INCLUDE" in k for k in off):
            ctx.violation("includes=False returns an include entry", c, list(off), "no INCLUDE key")
        elif spec.unordered(spec.strip_placeholders(off)) != spec.unordered(spec.norm(root_body)):
            ctx.violation("includes=False merged something", c, enc(off), enc(spec.norm(root_body)))
        if replies is not None:
            for m, i, what in ((replies[2 * ci], isd, "DictReader.read"), (replies[2 * ci + 1], isd_off, "DictReader.read(includes=False)")):
                if isinstance(m, dict) and "sd" in m:
                    msd = canon_floats(m["sd"])
                    ii = _json.loads(_json.dumps(i).replace(tdname, "/R"))
                    if msd != ii:
                        ctx.disagree(what, {"files": c["files"], "root": c["root"]}, msd, ii)
                    elif what == "DictReader.read" and m.get("counter") != cnt:
                        ctx.disagree("counter after read", {"files": c["files"], "root": c["root"]}, m.get("counter"), cnt)
                else:
                    ctx.unsupported += 1


def run(ctx: Ctx) -> None:
    rng = ctx.rng
    cases = []
    for e in getattr(ctx, "fixed_witnesses", []):
        cases.append(e["witness"]); ctx.corpus_cases += 1
    # corpus: diamond, equal names, cycle, self include, dangling
    for nfiles, edges in [(4, [(0, 1), (0, 2), (1, 3), (2, 3)]), (3, [(0, 1), (1, 2), (2, 0)]), (1, [(0, 0)]), (3, [(0, 1), (0, -1), (0, 2)]),
                          (3, [(0, 1), (0, 1), (0, 2)]), (2, [(0, 1), (1, 1)])]:
        cases.append(gen_graph_case(rng, nfiles, edges)); ctx.corpus_cases += 1
    if ctx.scale == 1.0:
        n = 3 if ctx.tier == "quick" else 4
        for k in range(1, n + 1):
            pairs = [(i, j) for i in range(k) for j in range(k)]
            if k <= 3:
                for mask in range(1 << len(pairs)):
                    edges = [p for b, p in enumerate(pairs) if mask >> b & 1]
                    cases.append(gen_graph_case(rng, k, edges))
            else:
                for mask in rng.sample(range(1 << len(pairs)), 3000):
                    edges = [p for b, p in enumerate(pairs) if mask >> b & 1]
                    cases.append(gen_graph_case(rng, k, edges))
        ctx.exhaustive.append("all include graphs (edge sets incl. self loops) on <= 3 files")
    for _ in range(ctx.n(250, 5000)):
        cases.append(gen_graph_case(rng, rng.randint(2, 8)))
    # keys with regular-expression metacharacters: an entry that refers to ANOTHER key which merely matches its own key read
    # as a pattern (`p.w $p_w`) is an ordinary value of the including file, not a placeholder the include may fill
    for key, other in (("p.w", "p_w"), ("p+w", "ppw"), ("a|b", "a"), ("x?y", "y"), ("k.", "k1"), ("c*", "c"), ("w^2", "w"), ("gamma", "gamma")):
        for syn in ("native", "json"):
            own = key == other
            if syn == "native":
                files = {"root": (f"{other} 1000;\n" if not own else "") + f"{key} ${other};\nq 1;\n#include 'inc'\n", "inc": f"{key} 998;\nz 2;\n"}
                root = "root"
            else:
                d = ({other: 1000} if not own else {})
                d.update({key: f"${other}", "q": 1, "#include": "inc"})
                files = {"root.json": _json.dumps(d), "inc": f"{key} 998;\nz 2;\n"}
                root = "root.json"
            exp = {key: 998, "q": 1, "z": 2} if own else {other: 1000, key: 1000, "q": 1, "z": 2}
            cases.append({"kind": "fixed", "files": files, "root": root, "expect": exp})
    # an include reached through `<link to a folder>/../name`: the file system resolves the link first, so the included file is the
    # one next to the link's TARGET, and its own relative includes are anchored there
    cases.append({"kind": "fixed", "root": "case/root",
                  "files": {"case/root": "#include 'shared/../mid'\nr 1;\n", "lib/v2/dicts/x": "x 0;\n", "lib/v2/mid": "#include 'leaf'\nm 2;\n",
                            "lib/v2/leaf": "l 3;\n", "case/leaf": "wrong 9;\n", "case/mid": "wrongmid 8;\n"},
                  "links": {"case/shared": "lib/v2/dicts"}, "expect": {"r": 1, "m": 2, "l": 3}})
    # include chains of 9 ... 14 files across alternating folders: every key of every reachable file is present
    for n in (9, 10, 11, 12, 14):
        files = {("d/" if i % 2 else "") + f"c{i}": (f"#include '{'../' if i % 2 else 'd/'}c{i + 1}'\n" if i < n else "") + f"k{i} {i};\n" for i in range(n + 1)}
        cases.append({"kind": "fixed", "files": files, "root": "c0", "expect": {f"k{i}": i for i in range(n + 1)}})
    process(ctx, cases)


def replay(ctx: Ctx, case: dict) -> None:
    process(ctx, [case])


def _d48(v: dict) -> bool:
    """an include directive inside a nested dict, read with includes=False"""
    files = v["input"].get("files", {}) if isinstance(v.get("input"), dict) else {}
    return "includes=False" in v.get("what", "") and any(re.search(r"\{[^}]*#\s*include", t, re.S) for t in files.values())


def _w48() -> bool:
    from dictIO import DictReader
    with impl.scratch() as td:
        (td / "c").write_text("z 9;\n")
        (td / "p").write_text("a 1;\nsub\n{\n    #include 'c'\n    b 2;\n}\n")
        r = impl.plain(DictReader.read(td / "p", includes=False))
        return any(str(k).startswith("INCLUDE") for k in r.get("sub", {}))


def _d49(v: dict) -> bool:
    """a line comment on the line of an include directive"""
    files = v["input"].get("files", {}) if isinstance(v.get("input"), dict) else {}
    return any(re.search(r"^\s*#\s*include[^\n]*//", t, re.M) for t in files.values())


def _w49() -> bool:
    from dictIO import DictReader
    with impl.scratch() as td:
        (td / "c").write_text("z 9;\n")
        (td / "q").write_text("#include 'c' // note\na 1;\n")
        return "z" not in impl.plain(DictReader.read(td / "q"))


KNOWN_CLASSES: dict = {"nested_include_directive_off": _d48, "comment_on_include_line": _d49}
WITNESSES: dict = {"D48": _w48, "D49": _w49}
