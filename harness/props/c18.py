"""C18 -- relative paths and generated include directives lead to the file they name."""
from __future__ import annotations

import copy
import os
from pathlib import Path

import gen
import impl
import spec
from common import Ctx, dec, enc, same, reset_globals

ID = "C18"
RULE = ("generated directory trees (names with spaces, dots, non-ASCII); all ordered pairs of locations for relative_path, "
        "random sets for highest_common_root_folder, include()/dump()/read() for same/child/parent/sibling/cousin placement, "
        "include-directive text written and parsed back for generated names; compared with model relPath/joinNorm/commonRoot/"
        "includeLine/parseIncludeLine; oracle: normpath(from/rel)==to, ancestor+maximal, content of the included file is merged; "
        "non-trivial = target not below start / set of >= 2 paths / non-plain name")
ASSUMPTIONS = ["Path.resolve() and symlinks are outside the model (paths are generated already resolved)",
               "POSIX path semantics"]

NAMES = ["a", "b", "sub", "x y", "d.ir", "é", "v1", "v1.2", "data", "inc", "deep", "run", "run2", "run 2", "a b", "include", "my includes.d", "#include"]
FILES = ["f", "g.dict", "h", "my file", "p.q.r", "k", "includeDict", "x.include"]


def _dirs(rng, n):
    dirs = [()]
    for _ in range(n):
        base = rng.choice(dirs)
        if len(base) < 5:
            d = base + (rng.choice(NAMES),)
            if d not in dirs:
                dirs.append(d)
    return dirs


def _has_suffix(name: str) -> bool:
    i = name.rfind(".")
    return 0 < i < len(name) - 1


def process(ctx: Ctx, cases: list[dict]) -> None:
    from dictIO import DictReader, NativeFormatter, NativeParser, SDict
    from dictIO.utils.path import highest_common_root_folder, relative_path
    reqs, idx = [], []
    for i, c in enumerate(cases):
        k = c["kind"]
        if k == "rel":
            reqs.append({"op": "relpath", "from": c["from"], "to": c["to"]}); idx.append((i, "rel"))
        elif k == "root":
            reqs.append({"op": "commonroot", "paths": [p for p, _ in c["paths"]]}); idx.append((i, "root"))
        elif k == "incl":
            reqs.append({"op": "includeline", "name": c["name"]}); idx.append((i, "line"))
    replies = {}
    if not ctx.oracle_only:
        for (i, what), r in zip(idx, ctx.driver(reqs)):
            replies[(i, what)] = r
    more, more_idx = [], []
    for i, c in enumerate(cases):
        k = c["kind"]
        if k == "rel":
            f = Path("/", *c["from"]); t = Path("/", *c["to"])
            nontrivial = c["to"][: len(c["from"])] != c["from"]
            ctx.case(c, nontrivial, ("rel:" + ("below" if not nontrivial else ("above" if c["from"][: len(c["to"])] == c["to"] else "beside")),))
            try:
                r = relative_path(f, t)
            except Exception as e:  # noqa: BLE001
                ctx.violation("relative_path raises", c, repr(e), "a path"); continue
            if os.path.normpath(f / r) != os.path.normpath(t):
                ctx.violation("from / relative_path(from, to) does not denote to", c, str(r), str(t))
            parts = [p for p in r.parts]
            m = replies.get((i, "rel"))
            if m is not None and m != parts:
                ctx.disagree("relative_path", c, m, parts)
            if m is not None:
                more.append({"op": "joinnorm", "from": c["from"], "rel": parts}); more_idx.append(i)
        elif k == "root":
            paths = [Path("/", *p) for p, _ in c["paths"]]
            if c.get("spelled"):
                paths = [Path("/" + "/".join(q)) for q in c["spelled"]]
            ctx.case(c, len(paths) >= 2, ("root",) + (("root:detours",) if c.get("spelled") else ()))
            try:
                r = highest_common_root_folder(paths)
            except Exception as e:  # noqa: BLE001
                ctx.violation("highest_common_root_folder raises", c, repr(e), "a folder"); continue
            rp = list(r.parts[1:])
            # truth: folders = path itself if dir, parent if file
            folders = [p if isdir else p[:-1] for p, isdir in c["paths"]]
            cp = folders[0]
            for fo in folders[1:]:
                n = 0
                while n < len(cp) and n < len(fo) and cp[n] == fo[n]:
                    n += 1
                cp = cp[:n]
            if rp != cp:
                ctx.violation("highest_common_root_folder is not the deepest common ancestor", c, rp, cp)
            m = replies.get((i, "root"))
            if m is not None and m != rp:
                ctx.disagree("highest_common_root_folder", c, m, rp)
        elif k == "incl":
            name = c["name"]
            ctx.case(c, not name.isalnum(), ("incl",))
            sd = SDict(); sd.includes = {0: ("", name, Path("/x"))}
            try:
                line = NativeFormatter().insert_includes(sd, "INCLUDE000000        INCLUDE000000;")
            except Exception as e:  # noqa: BLE001
                line = "raises:" + type(e).__name__
            m = replies.get((i, "line"))
            if m is not None and m != "unsupported" and m != line:
                ctx.disagree("insert_includes", c, m, line)
            if not line.startswith("raises:"):
                sd2 = SDict(); sd2.line_content = [line + "\n"]
                NativeParser()._extract_includes(sd2)  # noqa: SLF001
                back = [v[1] for v in sd2.includes.values()]
                if back != [name]:
                    ctx.violation("include directive written for a name does not read back to that name", c, back, [name])
                more.append({"op": "parseinclude", "line": line + "\n"}); more_idx.append(i)
            else:
                ctx.violation("writing an include directive raises", c, line, "directive")
        elif k == "place":
            ctx.case(c, c["a_dir"] != c["b_dir"], ("place:" + c["rel"],))
            try:
                with impl.scratch() as td:
                    bd = Path(td, *c["b_dir"]); bd.mkdir(parents=True, exist_ok=True)
                    ad = Path(td, *c["a_dir"]); ad.mkdir(parents=True, exist_ok=True)
                    b = SDict({"bk": 1, "shared": "from b", "nest": {"x": 1}})
                    b.dump(bd / c["b_name"])
                    a = SDict({"ak": 2, "shared": "from a", "nest": {"y": 2}})
                    a.source_file = ad / c["a_name"]
                    a.include(b)
                    a.dump()
                    cwd = os.getcwd()
                    r = spec.strip_placeholders(impl.plain(DictReader.read(ad / c["a_name"])))
                    text = (ad / c["a_name"]).read_text()
            except Exception as e:  # noqa: BLE001
                ctx.violation("include()/dump()/read() raises", c, repr(e), "merged dict"); continue
            exp = {"ak": 2, "shared": "from a", "nest": {"y": 2, "x": 1}, "bk": 1}
            if not same(r, exp):
                ctx.violation("reading the dumped file does not merge the included file's content", c, {"read": enc(r), "text": text}, enc(exp))
    for c in cases:
        if c["kind"] != "place3":
            continue
        # one SDict object: include a file from folder F, move the object to a differently placed folder (source_file setter /
        # load / dump to another target), include a SECOND file from the same folder F, dump, read: both are merged
        ctx.case(c, True, ("place3:" + c["move"],))
        try:
            with impl.scratch() as td:
                F = td / "shared" / "params v1.0"; F.mkdir(parents=True)
                SDict({"p1": 1}).dump(F / "p1Dict"); SDict({"p2": 2}).dump(F / "p2Dict")
                first = td / "cases" / "c1"; second = Path(td, *c["second"]); first.mkdir(parents=True); second.mkdir(parents=True, exist_ok=True)
                a = SDict({"own": 0}); a.source_file = first / "aDict"
                a.include(DictReader.read(F / "p1Dict"))
                if c["move"] == "setter":
                    a.source_file = second / "aDict"
                elif c["move"] == "dump":
                    a.dump(second / "moved"); a.source_file = second / "aDict"
                else:
                    SDict({"seed": 1}).dump(second / "aDict"); a.load(second / "aDict")
                a.include(DictReader.read(F / "p2Dict"))
                a.dump()
                r = spec.strip_placeholders(impl.plain(DictReader.read(second / "aDict")))
                text = (second / "aDict").read_text()
        except Exception as e:  # noqa: BLE001
            ctx.violation("include() / move / include() / dump() / read() raises", c, repr(e), "merged dict"); continue
        if r.get("p2") != 2:
            ctx.violation("an include added after the SDict moved to another folder does not lead to the included file", c, {"read": enc(r), "text": text}, "p2 == 2")
    for c in cases:
        if c["kind"] != "place2":
            continue
        # a second include added later through a new object bound to the same (already dumped) file
        ctx.case(c, True, ("place2:" + c["rel"],))
        try:
            with impl.scratch() as td:
                ad = Path(td, *c["a_dir"]); ad.mkdir(parents=True, exist_ok=True)
                incs = []
                for j, bd_ in enumerate(c["b_dirs"]):
                    bd = Path(td, *bd_); bd.mkdir(parents=True, exist_ok=True)
                    b = SDict(bd / c["b_names"][j]); b[f"from{j}"] = 10 + j; b["shared"] = f"from b{j}"
                    b.dump(); incs.append(b)
                for j, b in enumerate(incs):
                    if c["reset"]:
                        reset_globals(c["start"])
                    a = SDict(ad / c["a_name"])
                    a[f"own{j}"] = j
                    a.include(b)
                    a.dump()
                reset_globals()
                r = spec.strip_placeholders(impl.plain(DictReader.read(ad / c["a_name"])))
                text = (ad / c["a_name"]).read_text()
        except Exception as e:  # noqa: BLE001
            ctx.violation("include()/dump()/read() raises", c, repr(e), "merged dict"); continue
        exp = {}
        for j in range(len(c["b_dirs"])):
            exp[f"own{j}"] = j
        for j in range(len(c["b_dirs"])):
            exp[f"from{j}"] = 10 + j
        exp["shared"] = "from b0"
        if spec.unordered(r) != spec.unordered(exp):
            ctx.violation("reading the dumped file does not merge the content of every included file", c, {"read": enc(r), "text": text}, enc(exp))
    if more and not ctx.oracle_only:
        for i, r in zip(more_idx, ctx.driver(more)):
            c = cases[i]
            if c["kind"] == "rel":
                if r != c["to"]:
                    ctx.disagree("joinNorm(from, relative_path(from,to)) in the model is not to", c, r, c["to"])
            elif c["kind"] == "incl":
                if r != {"name": c["name"]}:
                    ctx.disagree("_extract_includes (model parseIncludeLine of the written line)", c, r, {"name": c["name"]})


def _name(rng):
    r = rng.random()
    parts = [rng.choice(NAMES + ["..", "."]) for _ in range(rng.randint(0, 3))] + [rng.choice(FILES)]
    sep = "/" if r < 0.8 else "\\"
    s = sep.join(parts)
    if rng.random() < 0.15:
        s = gen.text(rng, rng.choice(["multi", "path", "backslash", "exotic", "word", "punct", "delim"]))
    return s


def _name_ok(s: str) -> bool:
    """PathDom: what an include directive can carry (single line, no quote at the ends, not both quote kinds,
    no `//` that is not after `:`, no `$`, no leading/trailing white space)"""
    import re
    if not s or s != s.strip() or "\n" in s or "$" in s:
        return False
    if s[0] in "'\"" or s[-1] in "'\"" or ("'" in s and '"' in s):
        return False
    if re.search(r"(?<!:)//", s) or "/*" in s:
        return False
    return True


def run(ctx: Ctx) -> None:
    rng = ctx.rng
    cases = []
    for e in getattr(ctx, "fixed_witnesses", []):
        cases.append(e["witness"]); ctx.corpus_cases += 1
    dirs = _dirs(rng, 24 if ctx.tier == "quick" else 60)
    locs = [list(d) for d in dirs]
    if ctx.scale == 1.0:
        for f in locs:
            for t in locs:
                cases.append({"kind": "rel", "from": f, "to": t})
                if rng.random() < 0.2:
                    cases.append({"kind": "rel", "from": f, "to": t + [rng.choice(FILES)]})
        ctx.exhaustive.append(f"all ordered pairs of {len(locs)} directories of a generated tree")
    for _ in range(ctx.n(300, 6000)):
        ds = _dirs(rng, 12)
        k = rng.randint(1, 4)
        paths = []
        for _ in range(k):
            d = list(rng.choice(ds))
            if rng.random() < 0.5:
                paths.append([d + [rng.choice(FILES)], False])
            else:
                paths.append([d, True])
        paths = [p for p in paths if p[0]]
        if paths:
            cases.append({"kind": "root", "paths": paths})
            if rng.random() < 0.4:
                # the same locations spelled with detours (`x/..`, `./`): the result is about the locations the paths denote
                sp = []
                for q, _ in paths:
                    q = list(q)
                    for _ in range(rng.randint(0, 2)):
                        i = rng.randint(1, len(q)) if len(q) > 1 else 1
                        q[i:i] = rng.choice([["detour", ".."], ["."], ["up", "down", "..", ".."]])
                    sp.append(q)
                cases.append({"kind": "root", "paths": paths, "spelled": sp})
        f, t = list(rng.choice(ds)), list(rng.choice(ds))
        cases.append({"kind": "rel", "from": f, "to": t + ([rng.choice(FILES)] if rng.random() < 0.5 else [])})
    for move in ("setter", "dump", "load"):
        for second in (["cases", "c2"], ["cases", "deep", "er", "c3"], ["elsewhere"], ["shared"]):
            cases.append({"kind": "place3", "move": move, "second": second})
    for _ in range(ctx.n(400, 8000)):
        s = _name(rng)
        if _name_ok(s):
            cases.append({"kind": "incl", "name": s})
    placements = [("prefix_sibling", ["w", "run"], ["w", "run2"]), ("prefix_sibling_dot", ["w", "v1"], ["w", "v1.2", "in"]),
                  ("same", ["w"], ["w"]), ("child", ["w"], ["w", "sub"]), ("parent", ["w", "sub"], ["w"]),
                  ("sibling", ["w", "s1"], ["w", "s2"]), ("cousin", ["w", "s1", "t1"], ["w", "s2", "t2"]),
                  ("grandchild", ["w"], ["w", "x y", "d.ir"]), ("spaces", ["w", "x y"], ["w", "my dir", "é"]),
                  ("keyword_child", ["w"], ["w", "include"]), ("keyword_cousin", ["w", "s1"], ["w", "my includes.d", "v2"])]
    for _ in range(ctx.n(6, 60)):
        for rel, ad, bd in placements:
            an = rng.choice(["a", "a.dict", "my a", "paramDict"])
            # the included file may carry the same name as the including one when it lives in another folder
            bn = an if (ad != bd and rng.random() < 0.35) else rng.choice(["b", "b.dict", "b c", "é.d"])
            cases.append({"kind": "place", "rel": rel, "a_dir": ad, "b_dir": bd, "a_name": an, "b_name": bn})
    for _ in range(ctx.n(4, 40)):
        for rel, ad, bd in placements:
            others = [p for p in placements if p[2] != bd]
            bds = [bd, rng.choice(others)[2]] + ([rng.choice(others)[2]] if rng.random() < 0.3 else [])
            if rng.random() < 0.3:
                bds = [["w", "runs", "Case A"], ["w", "runs", "case A"]]        # differ only in letter case (a case-sensitive file system)
            cases.append({"kind": "place2", "rel": rel, "a_dir": ad, "b_dirs": bds, "a_name": rng.choice(["a", "mainDict", "my a"]),
                          "b_names": ([f"b{j}" + rng.choice(["", ".dict"]) for j in range(len(bds))] if bds[0][-1].lower() != bds[-1][-1].lower() or len(bds) != 2 else ["paramDict", "paramDict"]), "reset": rng.random() < 0.7,
                          "start": rng.choice([-1, -1, 0, 5])})
    process(ctx, cases)


def replay(ctx: Ctx, case: dict) -> None:
    process(ctx, [case])


def _dotted_dir(v: dict) -> bool:
    c = v["input"]
    if c.get("kind") != "root":
        return False
    return any(isdir and p and _has_suffix(p[-1]) for p, isdir in c["paths"]) or \
        any((not isdir) and p and not _has_suffix(p[-1]) for p, isdir in c["paths"])


def _w24() -> bool:
    from dictIO.utils.path import highest_common_root_folder
    return highest_common_root_folder([Path("/x/y.d"), Path("/x/y.d/w")]) == Path("/x")


KNOWN_CLASSES = {"suffix_heuristic": _dotted_dir}
WITNESSES = {"D24": _w24}
