"""C14 -- key paths address one place: lookup, assignment and scope reduction agree."""
from __future__ import annotations

import copy
import re

import gen
import impl
import spec
from common import Ctx, dec, dec_key, enc, enc_entries, enc_key, same, shrink

ID = "C14"
RULE = ("nested dict/list trees (depth <= 10, mixed int/str keys), every path into each plus adversarial / non-existent "
        "paths; compared: model setPath/getPath/findKey/pathExists/reduceScope vs set_global_key/find_global_key/"
        "global_key_exists/SDict.reduce_scope; oracle: property statement evaluated with Python's own indexing; "
        "non-trivial = path of length >= 2 or a failing path")
ASSUMPTIONS = ["find_global_key's regex search is instantiated with metacharacter-free queries (substring search)",
               "str(float) == repr(float) (Python 3)"]

ADVERSARIAL = ["x'y", "a']['b", "__import__('os').getcwd()", "]", "[", "a.b", "", " ", "'", "\"", "a\"]['b", "self", "0", "-1",
               "a'] or self['b", "\\", "é'"]


def _tree(rng, depth):
    def keyf(r):
        x = r.random()
        if x < 0.12:
            return r.choice(ADVERSARIAL)
        if x > 0.93:
            # ordinary data keys that merely look like the reader's placeholders (no comment / include is registered for them)
            return r.choice(["LINECOMMENT000001", "LINECOMMENT000002", "BLOCKCOMMENT000010", "BLOCKCOMMENT000011", "my_BLOCKCOMMENT000010_a",
                             "my_BLOCKCOMMENT000011_b", "INCLUDE000003", "INCLUDE000004", "EXPRESSION000001", "STRINGLITERAL000002"])
        return r.choice(["a", "b", "c", "k", 0, 1, 2, 7, "x'y", "long key"]) if x < 0.8 else gen.key(r)
    return gen.tree_dict(rng, depth, 3, leaf=lambda r: gen.scalar(r, strings=True), key_fn=keyf, p_dict=0.35, p_list=0.25)


def _deref(v, p):
    for k in p:
        if isinstance(v, dict):
            v = v[k]
        elif isinstance(v, list):
            if not isinstance(k, int) or isinstance(k, bool):
                raise KeyError(k)
            v = v[k]
        else:
            raise KeyError(k)
    return v


def _mutate_path(rng, p):
    p = list(p)
    r = rng.random()
    if not p or r < 0.3:
        return p + [rng.choice(["nope", 99, "a", 0, -1] + ADVERSARIAL)]
    i = rng.randrange(len(p))
    if r < 0.6:
        p[i] = rng.choice(["nope", 99, -1, -2, "0"] + ADVERSARIAL)
    elif r < 0.8:
        p = p[:i] + [rng.choice(["a", 0])] + p[i:]
    else:
        p = p[:i]
    return p


def _leaves(v, out):
    if isinstance(v, dict):
        for x in v.values():
            _leaves(x, out)
    elif isinstance(v, list):
        for x in v:
            _leaves(x, out)
    else:
        out.append(v)


LOOKALIKE = {"settings": {"log": {"LINECOMMENT000001": "a", "LINECOMMENT000002": "b", "x": 1, "INCLUDE000003": "i", "INCLUDE000004": "j"}, "k": 2},
             "doc": {"sections": {"deep": {"my_BLOCKCOMMENT000010_a": 1, "my_BLOCKCOMMENT000011_b": 2, "BLOCKCOMMENT000001": "p", "BLOCKCOMMENT000002": "q"}, "n": 1}},
             "LINECOMMENT000007": 7, "LINECOMMENT000008": 8}


def gen_cases(ctx: Ctx, ntrees: int) -> list[dict]:
    rng = ctx.rng
    cases = []
    # ordinary data keys that merely look like placeholders, several on one level (key text is data)
    for p in ([], ["settings"], ["settings", "log"], ["doc"], ["doc", "sections"], ["doc", "sections", "deep"]):
        pe = [enc_key(k) for k in p]
        cases.append({"kind": "reduce", "t": enc(LOOKALIKE), "p": pe})
        cases.append({"kind": "exists", "t": enc(LOOKALIKE), "p": pe})
        cases.append({"kind": "readscope", "json": True, "t": enc(LOOKALIKE), "p": pe})
    for _ in range(ntrees):
        t = _tree(rng, rng.choice([1, 2, 3, 3, 4, 6, 10]))
        te = enc(t)
        paths = gen.all_paths(t)
        rng.shuffle(paths)
        sel = [list(p) for p in paths[:12]]
        sel += [_mutate_path(rng, rng.choice(paths) if paths else ()) for _ in range(4)]
        for p in sel:
            pe = [enc_key(k) for k in p]
            x = gen.tree(rng, 1, 2) if rng.random() < 0.5 else gen.scalar(rng)
            cases.append({"kind": "set", "t": te, "p": pe, "x": enc(x)})
            cases.append({"kind": "exists", "t": te, "p": pe})
            if rng.random() < 0.5:
                cases.append({"kind": "reduce", "t": te, "p": pe})
        lv = []
        _leaves(t, lv)
        qs = ["zz_absent"]
        for x in rng.sample(lv, min(3, len(lv))):
            sx = str(x)
            qs.append(sx if rng.random() < 0.5 or len(sx) < 3 else sx[1:-1])
        for q in qs:
            if q and not any(c in q for c in r".^$*+?{}[]\|()"):
                cases.append({"kind": "find", "t": te, "q": q})
        # the query is a regular expression: anchored to tell `run1` from `run17`, escaped literal text with backslashes,
        # line breaks and quotes (oracle only: the model instantiates the search with substring search)
        for x in rng.sample(lv, min(2, len(lv))):
            sx = str(x)
            cases.append({"kind": "findre", "t": te, "q": "^" + re.escape(sx) + "$"})
            if len(sx) > 1:
                cases.append({"kind": "findre", "t": te, "q": "^" + re.escape(sx[:-1]) + "$"})
    for _ in range(max(1, ntrees // 10)):
        t = {"case": {"name": "run1", "other": "run17", "dir": "C:\\temp\\data", "deep": {"n": 20, "m": 200, "txt": "two\nlines\tand a tab", "q": "it's \"both\""}},
             "list": [["run17", {"k": "run1"}], 20], "top": "run1x"}
        for q in ["^run1$", "^20$", re.escape("C:\\temp\\data"), "^" + re.escape("two\nlines\tand a tab") + "$", re.escape("it's \"both\""), "^run$", "n1$", "^2+0$"]:
            cases.append({"kind": "findre", "t": enc(t), "q": q})
    # deep paths around the 10-level limit of set_global_key
    for depth in (9, 10, 11, 12):
        t = cur = {}
        p = []
        for i in range(depth):
            k = f"k{i}" if i % 3 else i
            cur[k] = {} if i % 4 else [{}]
            p.append(k)
            cur = cur[k]
            if isinstance(cur, list):
                cur = cur[0]; p.append(0)
        cases.append({"kind": "set", "t": enc(t), "p": [enc_key(k) for k in p] + [enc_key("leaf")], "x": enc(1)})
        cases.append({"kind": "set", "t": enc(t), "p": [enc_key(k) for k in p[:10]], "x": enc(1)})
    return cases


def _scope_file_cases(ctx: Ctx, n: int) -> list[dict]:
    rng = ctx.rng
    cases = []
    for _ in range(n):
        t = gen.tree_dict(rng, 3, 3, leaf=lambda r: gen.scalar(r, strings=False), key_fn=lambda r: r.choice(["a", "b", "c", "sub", "k1", "zz", 3]),
                          p_dict=0.5, p_list=0.1)
        paths = [list(p) for p in gen.all_paths(t) if all(isinstance(k, str) for k in p)]
        for p in rng.sample(paths, min(3, len(paths))) + [["nope"], ["a", "nope"]]:
            t2 = t
            sub = None
            try:
                sub = gen.get_path(t, tuple(p))
            except Exception:  # noqa: BLE001
                pass
            if isinstance(sub, dict) and rng.random() < 0.6 and "width" not in t:
                # the addressed sub-dict refers to keys outside it (top level and a sibling dict)
                t2 = copy.deepcopy(t)
                t2["width"] = 4
                t2["zz_sibling"] = {"depth": 3}
                s2 = gen.get_path(t2, tuple(p))
                s2["w2"] = "$width"; s2["area"] = "$width * 7"; s2["vol"] = "$width * $depth + 1"
            cases.append({"kind": "readscope", "t": enc(t2), "p": [enc_key(k) for k in p]})
    return cases


def _scope_json_cases(ctx: Ctx, n: int) -> list[dict]:
    """scoped reads of JSON sources: every key is a string, also one that spells a number ('1', '007', '-5', '1.5', 'true')"""
    rng = ctx.rng
    cases = []
    keys = ["a", "sub", "1", "007", "0", "-5", "1.5", "true", "none", "10", "cases", "x y", "é"]
    for _ in range(n):
        t = gen.tree_dict(rng, 3, 3, leaf=lambda r: gen.scalar(r, strings=False), key_fn=lambda r: r.choice(keys), p_dict=0.55, p_list=0.1)
        paths = [list(p) for p in gen.all_paths(t) if all(isinstance(k, str) for k in p)]
        for p in rng.sample(paths, min(4, len(paths))) + [["nope"], [1], ["1", "nope"]]:
            cases.append({"kind": "readscope", "json": True, "t": enc(t), "p": [enc_key(k) for k in p]})
        # a native file with an int key next to an included JSON file with the string key of the same spelling
        cases.append({"kind": "readscope_mixed", "k": rng.choice([1, 7, 10]), "p_is_str": rng.random() < 0.5})
    return cases


def impl_set(t, p, x):
    from dictIO.utils.dict import set_global_key
    t2 = copy.deepcopy(t)
    try:
        set_global_key(t2, p, copy.deepcopy(x))
    except (KeyError, IndexError, RecursionError) as e:
        return type(e).__name__
    return {"val": enc(t2)}


def oracle_set(ctx, c, t, p, x, r):
    if not isinstance(r, dict):
        # a failure is legitimate only if the path cannot be followed (or is deeper than the documented limit)
        try:
            node = _deref(t, p[:-1])
            ok = (isinstance(node, dict)) or (isinstance(node, list) and isinstance(p[-1], int) and -len(node) <= p[-1] < len(node))
        except (KeyError, IndexError, TypeError):
            ok = False
        if ok and p and len(p) <= 10:
            ctx.violation(f"set_global_key fails ({r}) on an existing path", c, r, "assignment")
        return
    t2 = dec(r["val"])
    if not p:
        if not same(t, t2):
            ctx.violation("set_global_key with empty path changed the dict", c, r, enc(t))
        return
    exp = copy.deepcopy(t)
    node = _deref(exp, p[:-1])
    node[p[-1]] = x
    if not same(exp, t2):
        ctx.violation("set_global_key changed something other than the addressed element", c, r["val"], enc(exp))


def oracle_find(ctx, c, t, q, r):
    lv = []
    _leaves(t, lv)
    anym = any(q in str(x) for x in lv)
    if r is None:
        if anym:
            ctx.violation("find_global_key found nothing although a leaf matches", c, None, "a path")
        return
    try:
        x = _deref(t, r)
    except Exception:  # noqa: BLE001
        ctx.violation("find_global_key returned a path that does not exist", c, [enc_key(k) for k in r], "valid path")
        return
    if isinstance(x, (dict, list)) or q not in str(x):
        ctx.violation("find_global_key returned a path to a non-matching element", c, [enc_key(k) for k in r], "matching leaf")


def process(ctx: Ctx, cases: list[dict]) -> None:
    from dictIO import DictReader, DictWriter, SDict
    from dictIO.utils.dict import find_global_key, global_key_exists
    reqs, idx = [], []
    for i, c in enumerate(cases):
        k = c["kind"]
        if k == "set":
            reqs.append({"op": "set", "v": c["t"], "p": c["p"], "x": c["x"]}); idx.append(i)
        elif k == "exists":
            reqs.append({"op": "exists", "e": c["t"]["d"], "p": c["p"]}); idx.append(i)
        elif k == "find":
            reqs.append({"op": "find", "v": c["t"], "q": c["q"]}); idx.append(i)
        elif k == "reduce":
            reqs.append({"op": "reduce", "sd": {"data": c["t"]["d"]}, "p": c["p"]}); idx.append(i)
    replies = {}
    if not ctx.oracle_only:
        for i, r in zip(idx, ctx.driver(reqs)):
            replies[i] = r
    for i, c in enumerate(cases):
        k = c["kind"]
        if k == "readscope_mixed":
            _process_mixed(ctx, c); continue
        t = dec(c["t"])
        p = [dec_key(x) for x in c.get("p", [])]
        ctx.case(c, len(p) >= 2 or k == "find", (k,))
        m = replies.get(i)
        if k == "set":
            x = dec(c["x"])
            r = impl_set(t, p, x)
            oracle_set(ctx, c, t, p, x, r)
            ctx.tag("set:" + (r if isinstance(r, str) else "ok"))
            if m is not None and m != r:
                ctx.disagree("set_global_key", c, m, r)
        elif k == "exists":
            try:
                r = bool(global_key_exists(copy.deepcopy(t), list(p)))
            except Exception as e:  # noqa: BLE001
                r = "raises:" + type(e).__name__
            try:
                exp = isinstance(_deref(t, p), dict)
            except (KeyError, IndexError, TypeError):
                exp = False
            ctx.tag(f"exists:{r}")
            if r != exp:
                ctx.violation("global_key_exists disagrees with 'path leads to a dict'", c, r, exp)
            if m is not None and m != r:
                ctx.disagree("global_key_exists", c, m, r)
        elif k == "find":
            try:
                r = find_global_key(copy.deepcopy(t), c["q"])
            except Exception as e:  # noqa: BLE001
                ctx.violation("find_global_key raises", c, repr(e), "path or None"); continue
            oracle_find(ctx, c, t, c["q"], r)
            rj = "none" if r is None else [enc_key(x) for x in r]
            ctx.tag("find:" + ("none" if r is None else "hit"))
            if m is not None and m != rj:
                ctx.disagree("find_global_key", c, m, rj)
        elif k == "findre":
            q = c["q"]
            try:
                r = find_global_key(copy.deepcopy(t), q)
            except Exception as e:  # noqa: BLE001
                ctx.violation("find_global_key raises", c, repr(e), "path or None"); continue
            lv = []
            _leaves(t, lv)
            anym = any(re.search(q, str(x)) for x in lv)
            ctx.tag("findre:" + ("none" if r is None else "hit"))
            if r is None:
                if anym:
                    ctx.violation("find_global_key found nothing although a leaf matches the query", c, None, "a path")
            else:
                try:
                    x = _deref(t, r)
                    if isinstance(x, (dict, list)) or not re.search(q, str(x)):
                        ctx.violation("find_global_key returned a path to a non-matching element", c, [enc_key(k) for k in r], "matching leaf")
                except Exception:  # noqa: BLE001
                    ctx.violation("find_global_key returned a path that does not exist", c, [enc_key(k) for k in r], "valid path")
        elif k == "reduce":
            s = SDict(copy.deepcopy(t))
            try:
                s.reduce_scope(list(p))
                r = enc_entries(impl.plain(dict(s)))
            except Exception as e:  # noqa: BLE001
                r = "raises:" + type(e).__name__
            try:
                sub = t
                for key in p:
                    if not isinstance(sub, dict):
                        raise KeyError(key)
                    sub = sub[key]
                exp = enc_entries(sub) if isinstance(sub, dict) and p else enc_entries(t)
            except KeyError:
                exp = enc_entries(t)
            ctx.tag("reduce:" + ("reduced" if exp != enc_entries(t) else "unchanged"))
            if r != exp:
                ctx.violation("reduce_scope does not leave exactly the addressed sub-dict / the unchanged dict", c, r, exp)
            if m is not None:
                mr = m.get("data") if isinstance(m, dict) else m
                if mr != r:
                    ctx.disagree("SDict.reduce_scope", c, mr, r)
        elif k == "readscope":
            try:
                with impl.scratch() as td:
                    fname = "f.json" if c.get("json") else "f"
                    DictWriter.write(copy.deepcopy(t), td / fname, mode="w")
                    full = impl.plain(DictReader.read(td / fname))
                    try:
                        r = impl.plain(DictReader.read(td / fname, scope=list(p)))
                    except SystemExit:
                        r = "exit"
            except Exception as e:  # noqa: BLE001
                ctx.violation("read(scope=...) raises", c, repr(e), "dict or exit"); continue
            try:
                sub = full
                for key in p:
                    sub = sub[key]
                exp = sub if isinstance(sub, dict) else "exit"
            except (KeyError, TypeError):
                exp = "exit"
            if exp != "exit":
                exp = spec.strip_placeholders(exp)
                r = spec.strip_placeholders(r) if isinstance(r, dict) else r
            if not (r == exp == "exit" or (isinstance(r, dict) and isinstance(exp, dict) and same(r, exp))):
                ctx.violation("DictReader.read(scope=p) is not the sub-dict at p", c, enc(r) if isinstance(r, dict) else r, enc(exp) if isinstance(exp, dict) else exp)


def _process_mixed(ctx: Ctx, c: dict) -> None:
    from dictIO import DictReader
    import json as _json
    k = c["k"]
    ctx.case(c, True, ("readscope_mixed",))
    try:
        with impl.scratch() as td:
            (td / "inc.json").write_text(_json.dumps({str(k): {"name": "from_json"}, "other": {"z": 1}}))
            (td / "root").write_text(f"{k}\n{{\n    name from_native;\n}}\n#include 'inc.json'\n")
            try:
                r = spec.strip_placeholders(impl.plain(DictReader.read(td / "root", scope=[str(k) if c["p_is_str"] else k])))
            except SystemExit:
                r = "exit"
    except Exception as e:  # noqa: BLE001
        ctx.violation("read(scope=...) raises", c, repr(e), "dict"); return
    exp = {"name": "from_json" if c["p_is_str"] else "from_native"}
    if r != exp:
        ctx.violation("DictReader.read(scope=p) is not the sub-dict at p (int key and string key of the same spelling)", c, r, exp)


def run(ctx: Ctx) -> None:
    cases = []
    for e in getattr(ctx, "fixed_witnesses", []):
        cases.append(e["witness"]); ctx.corpus_cases += 1
    cases += gen_cases(ctx, ctx.n(250, 4000))
    cases += _scope_file_cases(ctx, ctx.n(40, 600))
    cases += _scope_json_cases(ctx, ctx.n(40, 600))
    process(ctx, cases)


def replay(ctx: Ctx, case: dict) -> None:
    process(ctx, [case])


def _through_list(v: dict) -> bool:
    """known-finding class D31: existence test on a path that traverses a list element"""
    c = v["input"]
    if c.get("kind") != "exists":
        return False
    t = dec(c["t"]); p = [dec_key(x) for x in c["p"]]
    node = t
    for k in p:
        if isinstance(node, list):
            return True
        try:
            node = node[k]
        except Exception:  # noqa: BLE001
            return False
    return False


def _w31() -> bool:
    from dictIO.utils.dict import global_key_exists
    return global_key_exists({"a": [{"b": 1}]}, ["a", 0]) is False


KNOWN_CLASSES = {"exists_through_list": _through_list}
WITNESSES = {"D31": _w31}
