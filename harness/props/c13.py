"""C13 -- reads write nothing, writes touch only their target, failures destroy nothing."""
from __future__ import annotations

import copy
import hashlib
import itertools
import os
import sys
from pathlib import Path

import gen
import impl
import spec
from common import Ctx, dec, enc, same, reset_globals

ID = "C13"
RULE = ("operations read / write(a|w) / parse(every option combination) / dump / load on generated directory trees (source with "
        "includes in sub-directories, existing and missing targets, targets in missing directories), and writes whose serialiser "
        "raises (formatter that raises, unserialisable leaf for JSON, invalid XML name, exotic object for native); observed with a "
        "sys.addaudithook recorder (open/mkdir/remove/rename/…) and a recursive (path,size,sha256,mtime_ns) snapshot before/after; "
        "compared: model readEffects/writeEffects/parseEffects/targetName vs the recorded effect trace; oracle: reads change "
        "nothing, a write changes exactly one file, a failing write changes nothing, to_string leaves its argument unchanged; "
        "non-trivial = operation that writes or fails")
ASSUMPTIONS = ["OS semantics of open/mkdir are outside the model; the audit hook sees every Python-level file-system call of the process"]

_events: list = []
_root: str | None = None
_hook_installed = False


def _hook(event, args):
    if _root is None:
        return
    try:
        if event == "open":
            p, mode = str(args[0]), args[1]
            if p.startswith(_root):
                _events.append(("open", p, mode if mode is not None else "?", args[2]))
        elif event in ("os.mkdir", "os.remove", "os.rename", "os.rmdir", "os.truncate", "os.link", "os.symlink", "shutil.rmtree", "os.chmod", "os.utime"):
            p = str(args[0])
            if p.startswith(_root):
                _events.append((event, p))
    except Exception:  # noqa: BLE001
        pass


def install():
    global _hook_installed
    if not _hook_installed:
        sys.addaudithook(_hook)
        _hook_installed = True


def snapshot(root: Path) -> dict:
    out = {}
    for p in sorted(root.rglob("*")):
        st = p.stat()
        if p.is_dir():
            out[str(p.relative_to(root)) + "/"] = ("dir",)
        else:
            out[str(p.relative_to(root))] = (st.st_size, hashlib.sha256(p.read_bytes()).hexdigest(), st.st_mtime_ns)
    return out


def trace(root: Path, fn):
    """run fn() recording file-system events below root; returns (result|exception, effects, before, after)"""
    global _root
    install()
    before = snapshot(root)
    _events.clear()
    _root = str(root)
    try:
        try:
            res = fn()
        except SystemExit as e:
            res = e
        except Exception as e:  # noqa: BLE001
            res = e
    finally:
        _root = None
    ev = list(_events)
    after = snapshot(root)
    eff = []
    for e in ev:
        rel = os.path.relpath(e[1], str(root))
        if e[0] == "open":
            m = e[2]
            w = isinstance(m, str) and any(ch in m for ch in "wax+")
            if not isinstance(m, str):      # os.open flags
                w = bool(e[3] & (os.O_WRONLY | os.O_RDWR | os.O_CREAT | os.O_TRUNC))
            eff.append(("write" if w else "read", rel))
        elif e[0] == "os.mkdir":
            eff.append(("mkdir", rel))
        else:
            eff.append((e[0], rel))
    return res, eff, before, after


def changed(before, after):
    ch = []
    for k in set(before) | set(after):
        if before.get(k) != after.get(k):
            if k.endswith("/"):
                ch.append(k)
            else:
                ch.append(k)
    return sorted(ch)


def build_tree(td: Path, rng, c):
    (td / "proj" / "sub").mkdir(parents=True)
    (td / "proj" / "src").write_text("#include 'sub/inc'\n// c\na 1;\nn { p 2; }\nref $b;\n")
    (td / "proj" / "sub" / "inc").write_text("#include 'inc2'\nb 5;\n")
    (td / "proj" / "sub" / "inc2").write_text("c 'x y';\n")
    (td / "proj" / "other.json").write_text('{"k": 1}')
    # unrelated siblings with names a careless "temporary file" / "backup" scheme would pick
    for nm in ("out.tmp", "out.bak", "out~", "parsed.tmp", "parsed.src.tmp", "src.tmp", ".out.tmp", "out.json.tmp", "out.foam.tmp", "tmp", "sub/out.tmp", "parsed.src.bak"):
        (td / "proj" / nm).write_text("unrelated " + nm + ";\n")
    # the same source reached through symbolic links: a linked file with another name in another folder, a linked folder
    (td / "proj" / "shared").mkdir()
    (td / "proj" / "shared" / "settings").write_text("// shared\na 1;\nn { p 2; }\n")
    (td / "proj" / "shared" / "parsed.settings").write_text("unrelated 1;\n")
    (td / "proj" / "case 01").mkdir()
    os.symlink("../shared/settings", td / "proj" / "case 01" / "caseDict")
    os.symlink("shared", td / "proj" / "dlink", target_is_directory=True)
    # sources whose names are case variants of the prefix, next to an unrelated lower-case sibling
    for nm in ("Parsed.results", "PARSED.case1.cpp"):
        (td / "proj" / nm).write_text("a 1;\nn { p 2; }\n")
    (td / "proj" / "parsed.results").write_text("unrelated 2;\n")
    if c.get("target_exists"):
        p = td / "proj" / c["target"]
        p.parent.mkdir(parents=True, exist_ok=True)
        p.write_text('{"old": 1}' if str(p).endswith(".json") else ("<r><old>1</old></r>" if str(p).endswith(".xml") else "old 1;\n"))


def _keeps_source_name(source: str, prefix, derived: str) -> bool:
    """independent reading of 'prefix applied once': apart from one leading `<prefix>.` (exact spelling) the source's name
    without its last extension appears verbatim in the derived name"""
    p = (prefix or "").removesuffix(".")
    core = source[len(p) + 1:] if p and source.startswith(p + ".") else source
    stem = core.rsplit(".", 1)[0] if "." in core.strip(".") else core
    return stem in derived


def _enrich(v, top=True):
    import numpy as np
    if isinstance(v, dict):
        out = {k: _enrich(x, False) for k, x in v.items()}
        if top:
            out.setdefault("np_vec", np.array([1.5, 2.5])); out.setdefault("np_mat", {"m": np.array([[1, 2], [3, 4]]), "where": Path("some/dir/file.txt")})
            out.setdefault("np_num", [np.float64(2.5), np.int64(3)])
        return out
    if isinstance(v, list):
        if v and all(isinstance(x, (int, float)) and not isinstance(x, bool) for x in v):
            return np.array(v)
        return [_enrich(x, False) for x in v]
    return v


def _typed(v):
    """structure with the exact types of all values (a list is not an ndarray, a str is not a Path)"""
    if isinstance(v, dict):
        return ["dict:" + type(v).__name__, [[repr(k), _typed(x)] for k, x in v.items()]]
    if isinstance(v, (list, tuple)):
        return [type(v).__name__, [_typed(x) for x in v]]
    if hasattr(v, "tolist") and hasattr(v, "dtype"):
        return [type(v).__name__, str(v.dtype), repr(v.tolist())]
    return [type(v).__name__, repr(v)]


class _Unserialisable:
    def __str__(self):
        raise ValueError("cannot serialise")


def process(ctx: Ctx, cases: list[dict]) -> None:
    from dictIO import (DictParser, DictReader, DictWriter, FoamFormatter, JsonFormatter, NativeFormatter, SDict, XmlFormatter,
                        create_target_file_name)
    for c in cases:
        k = c["kind"]
        ctx.case(c, k != "read", (k,) + ((c.get("fault"),) if c.get("fault") else ()))
        with impl.scratch() as td:
            build_tree(td, ctx.rng, c)
            proj = td / "proj"
            reset_globals()
            if k == "read":
                res, eff, b, a = trace(td, lambda: DictReader.read(proj / c["file"], **c.get("opts", {})))
                if isinstance(res, Exception):
                    ctx.violation("read raises", c, repr(res), "dict"); continue
                if changed(b, a) or any(e[0] != "read" for e in eff):
                    ctx.violation("reading created, modified or deleted something", c, {"changed": changed(b, a), "effects": eff}, "nothing")
                if not ctx.oracle_only:
                    files = [["proj"] + f.split("/") for f in c["reads"]]
                    m = ctx.driver([{"op": "effects", "kind": "read", "files": files}])[0]
                    got = [["read", ["proj"] + e[1].split("/")[1:]] for e in eff if e[0] == "read"]
                    dedup = [x for i, x in enumerate(got) if i == 0 or x != got[i - 1]]
                    if dedup != m:
                        ctx.disagree("effects of DictReader.read", c, m, dedup)
            elif k in ("write", "dump"):
                d = dec(c["d"])
                target = proj / c["target"]
                fault = c.get("fault")
                formatter = None
                if fault == "formatter_raises":
                    class Bad(NativeFormatter):
                        def to_string(self, arg):  # noqa: ARG002
                            raise RuntimeError("serialiser fault")
                    formatter = Bad()
                elif fault == "json_set":
                    d = {**d, "bad": {1, 2}}
                elif fault == "xml_name":
                    d = {**d, "not a name <": 1}
                elif fault == "native_obj":
                    d = {**d, "bad": _Unserialisable()}
                arg = copy.deepcopy(d) if fault not in ("json_set", "native_obj") else d
                if k == "write":
                    res, eff, b, a = trace(td, lambda: DictWriter.write(arg, target, mode=c["mode"], **({"formatter": formatter} if formatter else {})))
                else:
                    res, eff, b, a = trace(td, lambda: SDict(arg).dump(target))
                ch = changed(b, a)
                rel_target = os.path.relpath(target, td)
                if fault:
                    if not isinstance(res, Exception):
                        ctx.tag("fault_did_not_raise")
                    elif ch or any(e[0] in ("write", "mkdir") for e in eff):
                        ctx.violation("a failing write changed the file system (existing target not left intact)", c, {"changed": ch, "effects": eff}, "nothing changed")
                else:
                    if isinstance(res, Exception):
                        ctx.violation("write raises", c, repr(res), "file written"); continue
                    files_changed = [x for x in ch if not x.endswith("/")]
                    dirs_new = [x for x in ch if x.endswith("/")]
                    if files_changed != [rel_target]:
                        ctx.violation("a write changed something other than exactly its target", c, {"changed": ch}, [rel_target])
                    if any(not rel_target.startswith(dn) for dn in dirs_new):
                        ctx.violation("a write created a directory that is not a parent of the target", c, dirs_new, rel_target)
                if not ctx.oracle_only and k == "write":
                    m = ctx.driver([{"op": "effects", "kind": "write", "target": rel_target.split("/"), "exists": bool(c.get("target_exists")),
                                     "mode": c["mode"], "ok": not (fault and isinstance(res, Exception))}])[0]
                    got = []
                    for e in eff:
                        if e[0] == "mkdir":
                            if not got or got[-1][0] != "mkdirs":
                                got.append(["mkdirs", rel_target.split("/")[:-1]])
                        elif e[0] in ("read", "write"):
                            x = [e[0], e[1].split("/")]
                            if not got or got[-1] != x:
                                got.append(x)
                    mm = [x for x in m if x[0] != "mkdirs" or any(g[0] == "mkdirs" for g in got)]
                    if got != mm:
                        ctx.disagree("effects of DictWriter.write", c, m, got)
            elif k == "rewrite":
                # the same target path used again in one process after its folder was removed, and the same relative target
                # from two working directories: the missing parent directories are created every time
                ctx_ok = True
                import shutil
                old = os.getcwd()
                try:
                    t1 = td / "again" / "deeper" / c["name"]
                    DictWriter.write({"k": 1}, t1, mode="w")
                    shutil.rmtree(td / "again")
                    res, eff, b, a = trace(td, lambda: (DictWriter.write({"k": 2}, t1, mode=c["mode"]) if c["how"] == "write" else SDict({"k": 2}).dump(t1)))
                    if isinstance(res, BaseException) or not t1.exists():
                        ctx.violation("a write into a folder that was removed since the last write does not create it again", c, repr(res), "file written")
                    for wd in ("cwd1", "cwd2"):
                        (td / wd).mkdir(exist_ok=True)
                        os.chdir(td / wd)
                        rel = Path("results") / "case" / c["name"]
                        res, eff, b, a = trace(td, lambda: DictWriter.write({"k": 3}, rel, mode=c["mode"]))
                        if isinstance(res, BaseException) or not (td / wd / rel).exists():
                            ctx.violation("a write to a relative target whose folder is missing in this working directory does not create it", c, repr(res), f"{wd}/{rel}")
                finally:
                    os.chdir(old)
            elif k == "reldump":
                # an SDict that got its source through a RELATIVE path (load / constructor / setter), the working directory
                # changes, then dump() without a target: the one file written is the file it was loaded from
                old = os.getcwd()
                try:
                    (td / "work" / "cases").mkdir(parents=True, exist_ok=True); (td / "elsewhere").mkdir(exist_ok=True)
                    (td / "work" / "cases" / "caseDict").write_text("a 1;\n")
                    os.chdir(td / "work")
                    rel = Path("cases") / "caseDict"
                    if c["how"] == "load":
                        sdx = SDict(); sdx.load(rel)
                    elif c["how"] == "ctor":
                        sdx = SDict(rel)
                    else:
                        sdx = SDict(); sdx.source_file = rel
                    sdx["added"] = 2
                    os.chdir(td / "elsewhere")
                    res, eff, b, a = trace(td, lambda: sdx.dump())
                    ch = sorted(x for x in changed(b, a) if not x.endswith("/"))
                    if isinstance(res, BaseException) or ch != ["work/cases/caseDict"]:
                        ctx.violation("dump() of an SDict whose source was given by a relative path, after a change of the working directory, does not write (only) the file it came from",
                                      c, {"changed": ch, "result": repr(res)}, ["work/cases/caseDict"])
                finally:
                    os.chdir(old)
            elif k == "parse":
                opts = c["opts"]
                res, eff, b, a = trace(td, lambda: DictParser.parse(proj / c["file"], **opts))
                ch = [x for x in changed(b, a) if not x.endswith("/")]
                if isinstance(res, BaseException):      # also SystemExit: a scope that does not exist in the file
                    if ch:
                        ctx.violation("a failing parse changed the file system", c, ch, "nothing")
                    continue
                name = create_target_file_name(proj / c["file"], prefix="parsed", scope=opts.get("scope"), output=opts.get("output")).name
                if not _keeps_source_name(Path(c["file"]).name, "parsed", name):
                    ctx.violation("target name does not contain the source's own name (prefix applied once, nothing else removed)", c, name, c["file"])
                exp_target = os.path.relpath(Path(os.path.realpath((proj / c["file"]).parent)) / name, td)
                if ch != [exp_target]:
                    ctx.violation("parse did not create/replace exactly the derived target file", c, ch, [exp_target])
                if not ctx.oracle_only:
                    mname = ctx.driver([{"op": "targetname", "name": c["file"].split("/")[-1], "prefix": "parsed",
                                         "scope": [str(x) for x in (opts.get("scope") or [])], "output": opts.get("output")}])[0]
                    if mname != name:
                        ctx.disagree("create_target_file_name", c, mname, name)
            elif k == "load":
                res, eff, b, a = trace(td, lambda: SDict().load(proj / c["file"]))
                if changed(b, a) or any(e[0] != "read" for e in eff):
                    ctx.violation("load created, modified or deleted something", c, {"changed": changed(b, a), "effects": eff}, "nothing")
            elif k == "tostring":
                d = dec(c["d"])
                if c.get("rich"):
                    d = _enrich(d)          # values of the other types the formatters accept: numpy arrays / scalars, Path objects
                for F in (NativeFormatter, FoamFormatter, JsonFormatter, XmlFormatter):
                    arg = copy.deepcopy(d)
                    try:
                        F().to_string(arg)
                    except Exception:  # noqa: BLE001
                        pass
                    if _typed(arg) != _typed(d):
                        ctx.violation(f"{F.__name__}.to_string modified the dict passed in", c, _typed(arg), _typed(d))
            elif k == "name":
                name = create_target_file_name(Path("/x") / c["name"], prefix=c.get("prefix"), scope=c.get("scope"), output=c.get("output")).name
                if c.get("prefix") and not name.startswith(c["prefix"].removesuffix(".") + "."):
                    ctx.violation("target name does not carry the prefix", c, name, c["prefix"])
                if not _keeps_source_name(c["name"], c.get("prefix"), name):
                    ctx.violation("target name does not contain the source's own name (prefix applied once, nothing else removed)", c, name, c["name"])
                if not ctx.oracle_only:
                    m = ctx.driver([{"op": "targetname", "name": c["name"], "prefix": c.get("prefix"), "scope": [str(x) for x in (c.get("scope") or [])],
                                     "output": c.get("output")}])[0]
                    if m != name:
                        ctx.disagree("create_target_file_name", c, m, name)


def run(ctx: Ctx) -> None:
    rng = ctx.rng
    cases = []
    for e in getattr(ctx, "fixed_witnesses", []):
        if isinstance(e.get("witness"), dict) and e["witness"].get("kind") == "api":
            from props import api as _api          # a history of API calls kept from a seeded change
            _api.process(ctx, [e["witness"]], oracles=False); ctx.corpus_cases += 1
            continue
        cases.append(e["witness"]); ctx.corpus_cases += 1
    cases.append({"kind": "name", "name": "parsedXfoo", "prefix": "parsed"}); ctx.corpus_cases += 1
    for opts, reads in (({}, ["src", "sub/inc", "sub/inc2"]), ({"includes": False}, ["src"]), ({"comments": False, "order": True}, ["src", "sub/inc", "sub/inc2"])):
        cases.append({"kind": "read", "file": "src", "opts": opts, "reads": reads})
    cases.append({"kind": "read", "file": "other.json", "opts": {}, "reads": ["other.json"]})
    cases.append({"kind": "load", "file": "src"})
    targets = ["out", "out.foam", "out.json", "out.xml", "newdir/deeper/out", "sub/out"]
    for target, mode, exists in itertools.product(targets, ["a", "w", "x"], [False, True]):
        d = gen.tree_dict(rng, 2, 3, leaf=lambda r: gen.scalar(r, strings=False), key_fn=lambda r: gen.word(r))
        if target.endswith(".xml"):
            d = {"alpha": 1, "beta": {"gamma": "x y", "delta": [1, 2]}}
        cases.append({"kind": "write", "target": target, "mode": mode, "target_exists": exists, "d": enc(d)})
        if rng.random() < 0.3:
            cases.append({"kind": "dump", "target": target, "target_exists": exists, "d": enc(d)})
    for nm, mode, how in itertools.product(["d.json", "d", "my d.foam"], ["a", "w"], ["write", "dump"]):
        cases.append({"kind": "rewrite", "name": nm, "mode": mode, "how": how})
    for how in ("load", "ctor", "setter"):
        cases.append({"kind": "reldump", "how": how})
    for fault, target in (("formatter_raises", "out"), ("json_set", "out.json"), ("xml_name", "out.xml"), ("native_obj", "out"), ("formatter_raises", "newdir/out")):
        for mode, exists in itertools.product(["a", "w", "x"], [False, True]):
            cases.append({"kind": "write", "target": target, "mode": mode, "target_exists": exists, "fault": fault, "d": enc({"k": 1})})
    combos = list(itertools.product([True, False], ["w", "a"], [False, True], [True, False], [None, ["n"]], [None, "cpp", "foam", "json", "xml"]))
    if ctx.tier == "quick":
        combos = rng.sample(combos, 40)
    else:
        ctx.exhaustive.append("every option combination of DictParser.parse (includes x mode x order x comments x scope x output)")
    for inc, mode, order, comments, scope, output in combos:
        cases.append({"kind": "parse", "file": "src", "opts": {"includes": inc, "mode": mode, "order": order, "comments": comments, "scope": scope, "output": output}})
    for file in ("case 01/caseDict", "dlink/settings", "sub/inc", "Parsed.results", "PARSED.case1.cpp"):
        for inc, mode, order, comments, scope, output in rng.sample(combos, 4) + [(True, "w", False, True, None, None)]:
            cases.append({"kind": "parse", "file": file, "opts": {"includes": inc, "mode": mode, "order": order, "comments": comments, "scope": scope, "output": output}})
    for _ in range(ctx.n(60, 800)):
        d = gen.tree_dict(rng, 3, 4, leaf=lambda r: gen.scalar(r, strings=False), key_fn=lambda r: ("_" if r.random() < 0.25 else "") + gen.word(r))
        if rng.random() < 0.5:
            d["solver"] = {"_attributes": {"a": 1}, "tol": 1, "inner": {"_cache": [1, 2], "lst": [{"_tmp": 1, "keep": 2}]}}
        cases.append({"kind": "tostring", "d": enc(d), **({"rich": True} if rng.random() < 0.4 else {})})
    for _ in range(ctx.n(300, 5000)):
        nm = rng.choice(["foo", "foo.cpp", "parsed.foo", "parsed", "a.b.c", ".hidden", "x.", "parsedXfoo", "my file.dict", gen.word(rng) + rng.choice(["", ".x", ".json"]),
                         "Parsed.results", "PARSED.case1.cpp", "Parsed.case2.cpp", "pArSeD.x", "Parsed", "PARSED.", "parsed.parsed.foo", "parsed.Parsed.foo", "PRE.a", "Pre.a.b",
                         "A.B.c", "parsedfoo.bar", "foo.parsed", "ſparsed.x", "parsed.foo.JSON", "foo.Json", "foo.CPP"])
        cases.append({"kind": "name", "name": nm, "prefix": rng.choice(["parsed", "parsed.", None, "pre", "a.b"]),
                      "scope": rng.choice([None, ["a"], ["a", 1], []]), "output": rng.choice([None, "cpp", "foam", "json", "xml", "weird", ""])})
    process(ctx, cases)
    # whole histories of API calls against the world model (Model/Api.lean): returned values, counter and the complete
    # file system at the end, byte for byte (the theorems of Props/C13api.lean are about that state machine)
    from props import api
    api.run(ctx, 120, 3000)


def replay(ctx: Ctx, case: dict) -> None:
    if case.get("kind") == "api":
        from props import api
        api.process(ctx, [case]); return
    process(ctx, [case])


KNOWN_CLASSES: dict = {}
WITNESSES: dict = {}
