"""C07 -- SDict behaves as a dict, and merge() never overwrites or loses anything."""
from __future__ import annotations

import copy
import re
import json
import itertools

import gen
import impl
import spec
from common import Ctx, canon_floats, dec, dec_key, enc, enc_entries, enc_key, same, shrink

ID = "C07"
RULE = ("random operation sequences over the dict API + merge() applied in lock-step to SDict, builtin dict and the Lean "
        "model (step/dstep); arguments: nested plain dicts, pair lists, kwargs, SDicts carrying tables, placeholder-bearing "
        "arguments (correspondence only), self-referring values (correspondence only); non-trivial = sequence changes the dict")
ASSUMPTIONS = ["aliasing of side tables between an SDict and its copy() is not expressible in the functional model",
               "float leaves are compared by repr"]

_SENT = object()


# ------------------------------------------------------------------------------------------------
# generation
# ------------------------------------------------------------------------------------------------
KEYS = ["a", "b", "c", "d", "k", 1, 2, "x", "long_key_name", "Z", "m", "arg", "self"]


def _key(rng):
    return rng.choice(KEYS) if rng.random() < 0.85 else gen.key(rng)


def _val(rng, depth=2):
    return gen.tree(rng, depth, 3, key_fn=_key)


def _plain(rng, depth=2):
    return gen.tree_dict(rng, depth, 4, key_fn=_key)


def _tables(rng, ph: bool):
    """side tables of an SDict argument; when `ph`, also placeholder entries for the data"""
    ids = rng.sample(range(0, 12), rng.randint(0, 4))
    texts = ["// one", "// two", "// one", "/* b */", "/* c */"]
    lineC = [[i, rng.choice(texts[:3])] for i in ids if rng.random() < 0.6]
    blockC = [[i, rng.choice(texts[3:])] for i in ids if rng.random() < 0.6]
    exprs = [[i, [rng.choice(["$a", "$a + 1", "$b[0]", "$zz"]), f"EXPRESSION{i:06d}"]] for i in ids if rng.random() < 0.5]
    incl = [[i, [f"#include 'f{i % 2}'", f"f{i % 2}", f"/p/f{i % 2}"]] for i in ids if rng.random() < 0.5]
    data_ph = {}
    if ph and rng.random() < 0.25:
        # an expression registered under a table key that differs from the number in its placeholder name (tables combined
        # from two dicts): the placeholder in the data is NOT an entry of this table, its text stays what it is
        i, j = rng.sample(range(12, 24), 2)
        key = rng.choice(["a", "b", "k"])
        exprs = exprs + [[j, [f"${key} * 2", f"EXPRESSION{i:06d}"]]]
        data_ph[key] = f"EXPRESSION{i:06d}"
    if ph:
        for i, _ in lineC:
            if rng.random() < 0.8:
                data_ph[f"LINECOMMENT{i:06d}"] = f"LINECOMMENT{i:06d}"
        for i, _ in blockC:
            if rng.random() < 0.8:
                data_ph[f"BLOCKCOMMENT{i:06d}"] = f"BLOCKCOMMENT{i:06d}"
        for i, _ in incl:
            if rng.random() < 0.8:
                data_ph[f"INCLUDE{i:06d}"] = f"INCLUDE{i:06d}"
        for i, _ in exprs:
            if rng.random() < 0.8:
                data_ph[rng.choice(["a", "b", "e", "k"])] = f"EXPRESSION{i:06d}"
    return {"lineC": lineC, "blockC": blockC, "exprs": exprs, "incl": incl}, data_ph


def _arg(rng, ph: bool):
    r = rng.random()
    d = _plain(rng)
    if r < 0.55:
        if rng.random() < 0.25:
            # the same nested dict under two keys (one shared object on the Python side)
            sub = {"p": 0.9, "U": {"x": 1, "y": [1, 2]}, _key(rng): "v"}
            ks = rng.sample([k for k in KEYS if isinstance(k, str)], 2)
            d[ks[0]] = sub; d[ks[1]] = copy.deepcopy(sub)
            return {"plain": enc_entries(d), "alias": True}
        return {"plain": enc_entries(d)}
    tb, dph = _tables(rng, ph)
    if dph:
        items = list(d.items()) + list(dph.items())
        rng.shuffle(items)
        d = dict(items)
        if rng.random() < 0.3 and d:  # nest a few placeholders one level down
            sub = {k: v for k, v in dph.items() if rng.random() < 0.7}
            sub["q"] = 1
            d["sub"] = sub
    return {"sd": {"data": enc_entries(d), **tb}}


def _op(rng, ph: bool, selfref: bool):
    r = rng.random()
    if r < 0.16:
        v = _val(rng)
        k = _key(rng)
        if selfref and isinstance(k, str) and rng.random() < 0.5:
            v = rng.choice([f"${k}", f"${k} + 1", f"x${k}y", f"${k}z", f"{k}", f"a{k}b"])
        return {"o": "setitem", "k": enc_key(k), "v": enc(v)}
    if r < 0.22:
        return {"o": "delitem", "k": enc_key(_key(rng))}
    if r < 0.36:
        return {"o": "update", "a": _arg(rng, ph), "style": rng.choice(["map", "pairs", "kwargs"])}
    if r < 0.44:
        return {"o": "ior", "a": _arg(rng, ph)}
    if r < 0.52:
        return {"o": "or", "a": _arg(rng, ph)}
    if r < 0.57:
        return {"o": "ror", "e": enc_entries(_plain(rng))}
    if r < 0.62:
        return {"o": "pop", "k": enc_key(_key(rng))}
    if r < 0.66:
        return {"o": "popd", "k": enc_key(_key(rng))}
    if r < 0.72:
        return {"o": "setdefault", "k": enc_key(_key(rng)), "v": enc(_val(rng))}
    if r < 0.74:
        return {"o": "clear"}
    if r < 0.78:
        return {"o": "copy"}
    if r < 0.82:
        return {"o": "construct", "e": enc_entries(_plain(rng)), "style": rng.choice(["map", "pairs", "kwargs"])}
    return {"o": "merge", "a": _arg(rng, ph)}


def gen_case(rng, maxlen: int, ph: bool, selfref: bool) -> dict:
    init_tb, init_ph = _tables(rng, ph)
    d = _plain(rng)
    d.update(init_ph)
    n = rng.randint(1, maxlen)
    return {"kind": "seq", "ph": ph, "selfref": selfref, "init": {"data": enc_entries(d), **init_tb},
            "ops": [_op(rng, ph, selfref) for _ in range(n)]}


# ------------------------------------------------------------------------------------------------
# implementation side
# ------------------------------------------------------------------------------------------------
NEST_SD = False      # set per case: nested dict values are SDict objects (as after SDict(SDict(...)) or a read), not plain dicts


def _nest(v):
    from dictIO import SDict
    if isinstance(v, dict):
        return SDict({k: _nest(x) for k, x in v.items()})
    if isinstance(v, list):
        return [_nest(x) for x in v]
    return v


def _mk_sd(j: dict):
    from dictIO import SDict
    from pathlib import Path
    s = SDict({dec_key(k): (_nest(dec(v)) if NEST_SD else dec(v)) for k, v in j["data"]})
    s.line_comments = {i: t for i, t in j.get("lineC", [])}
    s.block_comments = {i: t for i, t in j.get("blockC", [])}
    s.expressions = {i: {"expression": e[0], "name": e[1]} for i, e in j.get("exprs", [])}
    s.includes = {i: (e[0], e[1], Path(e[2])) for i, e in j.get("incl", [])}
    return s


def _sd_json(s) -> dict:
    return {"data": enc_entries(impl.plain(dict(s))),
            "exprs": [[i, [e["expression"], e["name"]]] for i, e in s.expressions.items()],
            "lineC": [[i, t] for i, t in s.line_comments.items()],
            "blockC": [[i, t] for i, t in s.block_comments.items()],
            "incl": [[i, [e[0], e[1], str(e[2])]] for i, e in s.includes.items()]}


def _share(d: dict) -> dict:
    """make equal dict-valued entries one shared object (Python callers often build arguments that way)"""
    seen = {}
    for k, v in list(d.items()):
        if isinstance(v, dict):
            key = repr(enc(v))
            if key in seen:
                d[k] = seen[key]
            else:
                seen[key] = v
                _share(v)
    return d


def _mk_arg(a: dict):
    if "sd" in a:
        return _mk_sd(a["sd"])
    d = {dec_key(k): (_nest(dec(v)) if NEST_SD else dec(v)) for k, v in a["plain"]}
    return _share(d) if a.get("alias") else d


def _styled(arg, style):
    """returns (positional, kwargs)"""
    if style == "pairs" and not hasattr(arg, "line_comments"):
        return (list(arg.items()),), {}
    if style == "kwargs" and not hasattr(arg, "line_comments") and all(isinstance(k, str) and k.isidentifier() for k in arg):
        return (), dict(arg)
    return (arg,), {}


def apply_impl(s, d, op):
    """apply op to SDict s and builtin dict d; returns (s, d, out_s, out_d, notes)"""
    from dictIO import SDict
    o = op["o"]
    notes = []
    if o == "setitem":
        k, v = dec_key(op["k"]), dec(op["v"])
        s[k] = copy.deepcopy(v); d[k] = copy.deepcopy(v)
        return s, d, "unit", "unit", notes
    if o == "delitem":
        k = dec_key(op["k"])
        outs = []
        for t in (s, d):
            try:
                del t[k]; outs.append("unit")
            except KeyError:
                outs.append("KeyError")
        return s, d, outs[0], outs[1], notes
    if o in ("update", "ior", "or", "merge"):
        arg = _mk_arg(op["a"])
        before = enc(impl.plain(dict(arg)))
        darg = copy.deepcopy(impl.plain(dict(arg)))
        if o == "update":
            # update(m, **kw) is update(m) followed by update(**kw), for the items and for the side tables alike
            kws = {"zz_kw": 1, **({next(iter(darg)): "kw"} if darg and isinstance(next(iter(darg)), str) and next(iter(darg)).isidentifier() else {})}
            # (placeholder entries are left out: the doublette clean-up after each update may pick another survivor)
            phre = re.compile(r"(BLOCKCOMMENT|LINECOMMENT|INCLUDE)\d{6}")
            has_ph = bool(phre.search(json.dumps(enc(darg))) or phre.search(json.dumps(enc(impl.plain(dict(s))))))
            sa = copy.deepcopy(s); sa.update(_mk_arg(op["a"]), **copy.deepcopy(kws))
            sb = copy.deepcopy(s); sb.update(_mk_arg(op["a"])); sb.update(**copy.deepcopy(kws))
            if not has_ph and _sd_json(sa) != _sd_json(sb):
                notes.append("update(m, **kw) differs from update(m) followed by update(**kw) (items or side tables)")
            pos, kw = _styled(arg, op.get("style", "map"))
            s.update(*pos, **kw); d.update(copy.deepcopy(darg))
        elif o == "ior":
            s |= arg; d |= copy.deepcopy(darg)
        elif o == "or":
            s = s | arg; d = d | copy.deepcopy(darg)
            if not isinstance(s, SDict):
                notes.append("`|` did not return an SDict")
        else:
            s.merge(arg); d = spec.merge_first_wins_selfref(d, copy.deepcopy(darg))
        if enc(impl.plain(dict(arg))) != before:
            notes.append(f"{o} modified its argument")
        if op["a"].get("alias"):
            # the argument shared one nested dict under two keys; un-share what ended up in the dicts, so that later
            # operations do not act through an alias (aliasing is outside the functional model and not what C07 is about)
            for t in (s, d):
                for k in list(t.keys()):
                    if isinstance(t[k], (dict, list)):
                        dict.__setitem__(t, k, copy.deepcopy(impl.plain(t[k])))
        return s, d, "unit", "unit", notes
    if o == "ror":
        other = {dec_key(k): dec(v) for k, v in op["e"]}
        s = copy.deepcopy(other) | s; d = copy.deepcopy(other) | d
        if not isinstance(s, SDict):
            notes.append("reversed `|` did not return an SDict")
        return s, d, "unit", "unit", notes
    if o in ("pop", "popd"):
        k = dec_key(op["k"])
        outs = []
        for t in (s, d):
            try:
                r = t.pop(k) if o == "pop" else t.pop(k, _SENT)
                outs.append("noval" if r is _SENT else {"val": enc(impl.plain(r))})
            except KeyError:
                outs.append("KeyError")
        return s, d, outs[0], outs[1], notes
    if o == "setdefault":
        k, v = dec_key(op["k"]), dec(op["v"])
        a = s.setdefault(k, copy.deepcopy(v)); b = d.setdefault(k, copy.deepcopy(v))
        return s, d, {"val": enc(impl.plain(a))}, {"val": enc(impl.plain(b))}, notes
    if o == "clear":
        s.clear(); d.clear()
        return s, d, "unit", "unit", notes
    if o == "copy":
        s2 = s.copy()
        if not isinstance(s2, SDict):
            notes.append("copy() did not return an SDict")
        return s2, dict(d), "unit", "unit", notes
    if o == "construct":
        other = {dec_key(k): dec(v) for k, v in op["e"]}
        pos, kw = _styled(other, op.get("style", "map"))
        s = SDict(*copy.deepcopy(pos), **copy.deepcopy(kw)); d = dict(*copy.deepcopy(pos), **copy.deepcopy(kw))
        return s, d, "unit", "unit", notes
    raise ValueError(o)


def _has_ph(entries) -> bool:
    def walk(v):
        if "d" in v:
            return any(("s" in k and spec.is_placeholder_key(k["s"])) or walk(x) for k, x in v["d"])
        if "l" in v:
            return any(walk(x) for x in v["l"])
        return False
    return walk({"d": entries})


def run_impl(case: dict):
    """returns list of per-step observations, and list of oracle failures"""
    global NEST_SD
    NEST_SD = bool(case.get("nest_sd"))
    s = _mk_sd(case["init"])
    d = impl.plain(dict(s))
    obs, fails = [], []
    lock = not case.get("ph")
    for idx, op in enumerate(case["ops"]):
        before_items = impl.plain(dict(s)) if op["o"] == "merge" else None
        before_exprs = {i: e["expression"] for i, e in s.expressions.items()} if op["o"] == "merge" else None
        try:
            s, d, out_s, out_d, notes = apply_impl(s, d, op)
        except Exception as e:  # noqa: BLE001
            obs.append({"raises": type(e).__name__}); fails.append((idx, f"{op['o']} raises {type(e).__name__}: {e}", None, None))
            break
        o = {"sd": _sd_json(s), "out": out_s, "dict": enc_entries(d), "dout": out_d}
        obs.append(o)
        for n in notes:
            fails.append((idx, n, None, None))
        if before_items is not None:
            # merge() leaves every existing leaf untouched -- with or without placeholder entries around it. The one documented
            # exception: a leaf that refers to its own key ($key in its text, or an EXPRESSION placeholder whose table entry --
            # looked up by the placeholder's NUMBER -- has such a text)
            after_items = impl.plain(dict(s))
            for k, v in before_items.items():
                if isinstance(v, (dict, list)) or (isinstance(k, str) and re.search(r"(BLOCKCOMMENT|LINECOMMENT|INCLUDE)\d{6}", k)):
                    continue
                text = v
                m_ = re.fullmatch(r"EXPRESSION(\d{6})", v) if isinstance(v, str) else None
                if m_ and int(m_.group(1)) in before_exprs:
                    text = before_exprs[int(m_.group(1))]
                if spec.refers_to_own_key(k, text) or spec.refers_to_own_key(k, v):
                    continue
                if k not in after_items or not same(after_items[k], v):
                    fails.append((idx, f"merge changed the existing leaf {k!r}", enc(after_items.get(k)), enc(v)))
                    break
        if lock:
            if o["sd"]["data"] != o["dict"] or list(s) != list(d) or len(s) != len(d):
                fails.append((idx, f"after {op['o']}: SDict items differ from builtin dict", o["sd"]["data"], o["dict"]))
            elif out_s != out_d:
                fails.append((idx, f"{op['o']}: result differs from builtin dict", out_s, out_d))
            if op["o"] == "merge":
                # idempotence of merge
                s2 = s.copy(); s2.merge(_mk_arg(op["a"]))
                if enc_entries(impl.plain(dict(s2))) != o["sd"]["data"]:
                    fails.append((idx, "merge not idempotent", enc_entries(impl.plain(dict(s2))), o["sd"]["data"]))
    return obs, fails


def process(ctx: Ctx, cases: list[dict]) -> None:
    # in chunks: a reply carries the whole state after every step
    if len(cases) > 400:
        for i in range(0, len(cases), 400):
            process(ctx, cases[i:i + 400])
        return
    # float lexemes are canonicalised on the way in and out (a corpus case may carry `.9` for 0.9)
    reqs = [canon_floats({"op": "sdops", "init": c["init"], "ops": c["ops"]}) for c in cases]
    replies = [None] * len(cases) if ctx.oracle_only else [canon_floats(r) for r in ctx.driver(reqs)]
    for c, m in zip(cases, replies):
        obs, fails = run_impl(c)
        changed = any(o.get("dict") != c["init"]["data"] for o in obs)
        ctx.case(c, changed, tuple(sorted({op["o"] for op in c["ops"]})) + (("ph",) if c.get("ph") else ()) + (("selfref",) if c.get("selfref") else ()))
        for idx, what, observed, expected in fails:
            ctx.violation(what, c, observed, expected, replay={**c, "ops": c["ops"][: idx + 1]})
        if m is None:
            continue
        if isinstance(m, dict) and "error" in m:
            ctx.disagree("sdops(model error)", c, m, None); continue
        for idx, (mo, io) in enumerate(zip(m, obs)):
            if "raises" in io:
                break
            if mo["sd"] != io["sd"] or mo["out"] != io["out"]:
                ctx.disagree(f"SDict after op #{idx} ({c['ops'][idx]['o']})", {**c, "ops": c["ops"][: idx + 1]}, {"sd": mo["sd"], "out": mo["out"]}, {"sd": io["sd"], "out": io["out"]})
                break
            if not c.get("selfref") and (mo["dict"] != io["dict"] or mo["dout"] != io["dout"]):
                ctx.disagree(f"builtin dict after op #{idx} ({c['ops'][idx]['o']})", {**c, "ops": c["ops"][: idx + 1]}, {"dict": mo["dict"]}, {"dict": io["dict"]})
                break


def run(ctx: Ctx) -> None:
    rng = ctx.rng
    cases = []
    for e in getattr(ctx, "fixed_witnesses", []):
        cases.append(e["witness"]); ctx.corpus_cases += 1
    maxlen = 30 if ctx.tier == "quick" else 80
    # nested values that are SDict objects; sub-dicts whose keys differ only in type (1 / '1') and so print alike
    twins = [({"limits": {1: "low", 2: "high"}, "k": 1}, {"limits": {"1": "low", "2": "high"}, "k": 1}),
             ({"limits": {"1": "low"}, "n": {"m": {7: [1, 2]}}}, {"limits": {1: "low"}, "n": {"m": {"7": [1, 2]}}}),
             ({"a": {"x": 1}}, {"a": {"x": 1.0, "y": 2}}), ({"a": {"x": True}}, {"a": {"x": 1}, "b": {"x": 1}})]
    for a, b in twins:
        for x, y in ((a, b), (b, a)):
            for o in ("merge", "update", "ior", "or"):
                for nest in (True, False):
                    cases.append({"kind": "seq", "ph": False, "selfref": False, "nest_sd": nest, "init": {"data": enc_entries(x)},
                                  "ops": [{"o": o, "a": {"plain": enc_entries(y)}, **({"style": "map"} if o == "update" else {})}, {"o": "merge", "a": {"plain": enc_entries(y)}}]})
                    ctx.corpus_cases += 1
    for _ in range(ctx.n(120, 1500)):
        c = gen_case(rng, 12, ph=False, selfref=False); c["nest_sd"] = True
        cases.append(c)
    for _ in range(ctx.n(700, 5000)):
        cases.append(gen_case(rng, maxlen, ph=False, selfref=False))
    for _ in range(ctx.n(250, 2000)):
        cases.append(gen_case(rng, maxlen, ph=True, selfref=False))
    for _ in range(ctx.n(150, 3000)):
        cases.append(gen_case(rng, 12, ph=False, selfref=True))
    if ctx.tier == "thorough" and ctx.scale == 1.0:
        # exhaustive: all sequences of length <= 3 over a 12-op alphabet, from two initial states
        alpha = [
            {"o": "setitem", "k": enc_key("a"), "v": enc(1)}, {"o": "setitem", "k": enc_key("b"), "v": enc({"x": 1})},
            {"o": "delitem", "k": enc_key("a")}, {"o": "update", "a": {"plain": enc_entries({"b": {"y": 2}, "c": 3})}, "style": "map"},
            {"o": "ior", "a": {"plain": enc_entries({"a": [1, 2]})}}, {"o": "or", "a": {"plain": enc_entries({"d": 4, "a": 9})}},
            {"o": "ror", "e": enc_entries({"z": 0, "a": 5})}, {"o": "pop", "k": enc_key("b")},
            {"o": "setdefault", "k": enc_key("c"), "v": enc(None)}, {"o": "clear"},
            {"o": "merge", "a": {"plain": enc_entries({"a": 7, "b": {"x": 5, "w": 6}, "e": 8})}},
            {"o": "merge", "a": {"sd": {"data": enc_entries({"b": {"v": 1}}), "lineC": [[1, "// l"]], "blockC": [], "exprs": [], "incl": []}}},
        ]
        for init in ({}, {"a": "banana", "b": {"x": 0}}):
            for n in (1, 2, 3):
                for seq in itertools.product(alpha, repeat=n):
                    cases.append({"kind": "seq", "ph": False, "selfref": False, "init": {"data": enc_entries(init)}, "ops": list(seq)})
        ctx.exhaustive.append("all op sequences of length <= 3 over a 12-op alphabet x 2 initial dicts")
    process(ctx, cases)


def replay(ctx: Ctx, case: dict) -> None:
    process(ctx, [case])


def shrink_violation(v: dict) -> dict:
    case = v.get("replay") or v["input"]
    what = v["what"]

    def fails(ops):
        c = {**case, "ops": ops}
        _, f = run_impl(c)
        return any(x[1] == what for x in f)
    if not fails(case["ops"]):
        return v
    ops = shrink(case["ops"], fails, budget=300)
    c = {**case, "ops": ops}
    _, f = run_impl(c)
    hit = next(x for x in f if x[1] == what)
    return {"what": what, "input": c, "observed": hit[2], "expected": hit[3], "replay": c}


KNOWN_CLASSES: dict = {}
WITNESSES: dict = {}
